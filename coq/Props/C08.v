(* C08 — root Close is a complete, idempotent shutdown barrier.
   Only the property theorems; proofs in Proof/RootCloseP.v.

   The system: any number of report-loop threads (the ticker goroutine; a root
   created without an interval has none), any number of concurrent Close callers
   and any number of recording threads, over a fixed set of registered scopes,
   under ANY schedule; the order in which a pass visits the scopes is chosen by
   the schedule (Go's map order).  [mark] = what had been recorded when Close was
   called (by the caller that wins the CAS). *)
From Coq Require Import List Bool Arith.
From Tally Require Import Model.RootClose Proof.RootCloseP.
Import ListNotations.

(* when the Close call that performs the shutdown has returned: everything recorded
   before it was called has been delivered; every loop goroutine has ended; the log ends
   with the final Flush followed by the reporter's Close, which happened exactly once *)
Theorem C08_all_delivered_before_return : forall cs ths sched,
  (forall t, In t ths -> initial t) ->
  let s := run (init cs ths) sched in
  In (TK KRet) (thr s) ->
  (forall o, o < length (ctrs s) -> mark (nth o (ctrs s) dflt) <= delivered (nth o (ctrs s) dflt)) /\
  (forall q, In (TT q) (thr s) -> q = TExit) /\
  (exists l, log s = ECloser :: EFlush :: l /\ ~ In ECloser l).
Proof. exact all_delivered_before_return. Qed.
Print Assumptions C08_all_delivered_before_return.

(* after it has returned no thread's step adds a delivery, a flush or a reporter close:
   no report pass or flush is still running or will ever start *)
Theorem C08_nothing_after_return : forall cs ths sched pk,
  (forall t, In t ths -> initial t) ->
  let s := run (init cs ths) sched in
  In (TK KRet) (thr s) -> log (step s pk) = log s.
Proof. exact nothing_after_return. Qed.
Print Assumptions C08_nothing_after_return.

(* at most one Close call performs the shutdown, in every reachable state *)
Theorem C08_single_winner : forall cs ths sched,
  (forall t, In t ths -> initial t) ->
  let s := run (init cs ths) sched in
  cnt is_winner (thr s) = if rclosed s then 1 else 0.
Proof.
  intros cs ths sched H s. destruct (run_inv sched _ (inv_initial cs ths H)) as (_ & _ & C & _). exact C.
Qed.
Print Assumptions C08_single_winner.

(* further Close calls return nil and do nothing *)
Theorem C08_idempotent : forall s i ch order,
  rclosed s = true -> nth_error (thr s) i = Some (TK KIdle) ->
  step s (i, ch, order) = set_thr s i (TK KLoser).
Proof. exact later_close_noop. Qed.
Print Assumptions C08_idempotent.

(* Close on a root created without an interval behaves the same: the theorems above do
   not require a loop thread; instance with none *)
Theorem C08_no_interval_same : forall cs ths sched,
  (forall t, In t ths -> match t with TK KIdle | TA _ => True | _ => False end) ->
  let s := run (init cs ths) sched in
  In (TK KRet) (thr s) ->
  forall o, o < length (ctrs s) -> mark (nth o (ctrs s) dflt) <= delivered (nth o (ctrs s) dflt).
Proof.
  intros cs ths sched H s R.
  assert (H' : forall t, In t ths -> initial t).
  { intros t Ht. specialize (H t Ht). destruct t as [q|p|a]; cbn in *; tauto. }
  exact (proj1 (all_delivered_before_return cs ths sched H' R)).
Qed.
Print Assumptions C08_no_interval_same.

(* non-vacuity: one loop thread, one Close caller, one recording thread; Close is called
   while the periodic pass is part-way through the registry *)
Example C08_example :
  let s := run (init [0; 0] [TT TWait; TK KIdle; TA (AInc 1 3)])
    [(2,true,[]); (0,true,[]); (0,true,[]); (0,true,[0;1]); (2,true,[]); (0,true,[]);
     (1,true,[]); (2,true,[]); (1,true,[]); (1,true,[]); (0,true,[]); (0,false,[]);
     (1,true,[]); (1,true,[1;0]); (1,true,[]); (1,true,[]); (1,true,[])] in
  In (TK KRet) (thr s) /\
  map (fun c => (applied c, delivered c)) (ctrs s) = [(0, 0); (3, 3)].
Proof. vm_compute. split; [right; left; reflexivity|reflexivity]. Qed.
