(* C01 — counter increments are delivered exactly once (delta conservation).
   Only the property theorems; proofs in Proof/CounterP.v.  The system is any
   pool of incrementing threads (TInc, any finite lists of int64 increments)
   and reporting threads (TRep, any number of passes each: the ticker loop,
   Close's final report and the report-on-reacquire of a closed scope all
   execute the same value()), under any schedule (list of thread picks). *)
From Coq Require Import ZArith List Bool.
From Tally Require Import Model.Counter Proof.CounterP.
Import ListNotations.
Open Scope Z_scope.

(* in every reachable state the deliveries add up to prev, modulo 2^64 *)
Theorem C01_sum_invariant : forall ths sched,
  (sumZ (log (run (init ths) sched)) - prev (run (init ths) sched)) mod M = 0.
Proof. exact sum_invariant. Qed.
Print Assumptions C01_sum_invariant.

(* once activity has stopped and one more report has run (prev = curr, which
   C01_exact_after_quiescence establishes), the deliveries add up to exactly
   the sum of all increments, modulo 2^64 (int64 wrap-around) *)
Theorem C01_delivered_eq_recorded : forall ths sched,
  let s := run (init ths) sched in
  (forall t, In t (thr s) -> quiet t) -> prev s = curr s ->
  (sumZ (log s) - sumZ (map pend ths)) mod M = 0.
Proof. exact delivered_eq_recorded. Qed.
Print Assumptions C01_delivered_eq_recorded.

(* from any state in which every increment has been applied and no pass is in
   flight: as soon as one more pass has completed, prev = curr *)
Theorem C01_exact_after_quiescence : forall s1 sched,
  (forall t, In t (thr s1) -> quiet t) ->
  let s2 := run s1 sched in
  (total s2 < total s1)%nat ->
  prev s2 = curr s2 /\ curr s2 = curr s1.
Proof. exact exact_after_quiescence. Qed.
Print Assumptions C01_exact_after_quiescence.

(* non-negative increments without overflow: every delivered delta is strictly
   positive (zero suppressed, none negative) and the sum is exact in Z *)
Theorem C01_nonneg : forall ths sched,
  (forall t, In t ths -> inc_ok t /\ match t with TRep (RIdle _) | TInc _ => True | _ => False end) ->
  sumZ (map pend ths) < H ->
  let s := run (init ths) sched in
  Forall (fun d => 0 < d) (log s) /\ sumZ (log s) = prev s /\ 0 <= prev s <= curr s.
Proof. exact nonneg. Qed.
Print Assumptions C01_nonneg.

(* a report cycle with no new increments delivers nothing *)
Theorem C01_idle_pass_silent : forall s1 sched,
  (forall t, In t (thr s1) -> quiet t) -> prev s1 = curr s1 -> log (run s1 sched) = log s1.
Proof. exact idle_pass_silent. Qed.
Print Assumptions C01_idle_pass_silent.

(* non-vacuity: three threads, a 21-step schedule reaching a quiescent state *)
Example C01_example :
  let s := run (init [TInc [1;2;3]; TRep (RIdle 2); TRep (RIdle 2)])
               [0;1;2;0;1;2;1;2;0;1;1;1;2;2;2;1;1;1;1;2;2]%nat in
  (curr s, prev s, log s) = (6, 6, [3; 3]) /\ (forall t, In t (thr s) -> quiet t).
Proof. vm_compute. split; [reflexivity|]. intros t [<-|[<-|[<-|[]]]]; exact I. Qed.
