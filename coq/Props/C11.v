(* C11 — a test scope's snapshot shows exactly what was recorded.
   Only property theorems here; proofs in Proof/SnapshotP.v.

   Histories: any list of operations [ORec path name r] (acquire a counter /
   gauge / timer / histogram of the scope the derivation path denotes and
   record), [OClose path], [OSnap], over any root prefix and root tags; the
   only hypothesis is [op_ok]: metric names do not contain the separator "."
   (subscope names, prefixes, tag keys and values are arbitrary byte strings).
   [run] is the store (registry of scope objects with their metric maps),
   [snapshot] walks it as scope.Snapshot() does; [trun] is the flat reference
   tally. *)
From Coq Require Import ZArith List Bool Permutation.
From Tally Require Import Base.ObsCore Model.Buckets Proof.BucketsP Model.Snapshot Proof.SnapshotP.
From Tally Require Model.SnapConc Proof.SnapConcP.
Import ListNotations.
Open Scope Z_scope.

(* For every history the store-walking snapshot and the reference tally have the
   same lookups and hold the same entries (one entry per metric: both are
   duplicate-free in their keys), and the same holds for every snapshot taken
   in the middle of the history. *)
Theorem C11_snapshot_is_tally : forall prefix tags ops,
  Forall op_ok ops ->
  let root := root_of prefix tags in
  (forall k, alookup mkey_eqb k (snapshot (run root ops)) =
             alookup mkey_eqb k (tally_snapshot (trun root ops))) /\
  Permutation (snapshot (run root ops)) (tally_snapshot (trun root ops)) /\
  NoDup (map fst (snapshot (run root ops))) /\
  Forall2 (fun s ts => Permutation s ts)
          (snapshots root (init root) ops) (tsnapshots root (Tally [] []) ops).
Proof.
  intros prefix tags ops Hok root.
  destruct (snapshot_is_tally root ops Hok) as [Hl Hp].
  split; [exact Hl|]. split; [exact Hp|]. split; [apply snapshot_nodup|].
  apply (snapshots_from root ops (init root) (Tally [] []) []); auto.
Qed.
Print Assumptions C11_snapshot_is_tally.

(* What the tally holds, declaratively: the value under a key is obtained from
   the records addressed to that key while the path was live, in order:
   counter = wrapped sum of the increments, gauge = last update, timer = all
   durations in order, histogram = the samples fed to the histogram created by
   the first record. *)
Theorem C11_tally_values : forall prefix tags ops k,
  let root := root_of prefix tags in
  let rs := recs_for root [] k ops in
  alookup mkey_eqb k (tmet (trun root ops)) = apply_recs None rs /\
  (fst (fst k) = MC -> rs <> [] ->
     apply_recs None rs = Some (TSum (wrap (sumz (map inc_of rs))))) /\
  (fst (fst k) = MG -> rs <> [] ->
     apply_recs None rs = Some (TLast (last_update 0 rs))) /\
  (fst (fst k) = MT -> rs <> [] ->
     apply_recs None rs = Some (TList (flat_map dur_of rs))) /\
  (fst (fst k) = MH -> forall r0 rs', rs = r0 :: rs' ->
     apply_recs None rs = Some (THist (hfeed (hist_of r0) (flat_map sample_of rs)))).
Proof.
  intros prefix tags ops k root rs.
  pose proof (recs_for_kind root ops [] k) as Hk.
  split; [apply tally_decl|].
  split; [intros Hc Hne; apply counter_sum; [intros r Hr; rewrite <- Hc; now apply Hk|exact Hne]|].
  split; [intros Hc Hne; apply gauge_last; [intros r Hr; rewrite <- Hc; now apply Hk|exact Hne]|].
  split; [intros Hc Hne; apply timer_list; [intros r Hr; rewrite <- Hc; now apply Hk|exact Hne]|].
  intros Hc r0 rs' He. apply (hist_feed rs r0 rs'); [intros r Hr; rewrite <- Hc; now apply Hk|exact He].
Qed.
Print Assumptions C11_tally_values.

(* A histogram's snapshot maps every upper bound (as a map key: -0 = +0) of
   its buckets to the number of accepted samples that C03's record_idx placed in
   a bucket with that upper bound — counts of buckets with equal bounds add up —
   and has no other keys; for every specification (any order, duplicates) and
   every sample list. *)
Theorem C11_histogram_counts : forall k spec samples u,
  let h := hfeed (hnew k spec) samples in
  let us := uppers k spec in
  alookup Z.eqb u (hsnap h) =
  if existsb (fun b => ukey k b =? u) us then Some (count_landed k us u samples) else None.
Proof. exact histogram_counts. Qed.
Print Assumptions C11_histogram_counts.

(* Close of a subscope: if path p denotes scope x (not the root, and p does not
   pass through x before its end), then Close changes no snapshot entry, every
   entry present before stays present after any continuation, and recording
   through the same path afterwards still shows, continuing the old value. *)
Theorem C11_survives_subscope_close : forall prefix tags ops p x,
  let root := root_of prefix tags in
  Forall op_ok ops ->
  live root (tclosed (trun root ops)) root p = Some x -> p <> [] -> root <> x -> ~ In x (via root p) ->
  (forall k, alookup mkey_eqb k (snapshot (run root (ops ++ [OClose p]))) =
             alookup mkey_eqb k (snapshot (run root ops))) /\
  (forall ops2 k v, Forall op_ok ops2 ->
     alookup mkey_eqb k (snapshot (run root ops)) = Some v ->
     exists v', alookup mkey_eqb k (snapshot (run root (ops ++ OClose p :: ops2))) = Some v') /\
  (forall n rc, dotfree n ->
     alookup mkey_eqb (rkind rc, fqn (fst x) n, snd x)
       (snapshot (run root (ops ++ [OClose p; ORec p n rc]))) =
     Some (tval_snap (tval_apply
        (alookup mkey_eqb (rkind rc, fqn (fst x) n, snd x) (tmet (trun root ops))) rc))).
Proof. intros prefix tags ops p x root. apply survives_close. Qed.
Print Assumptions C11_survives_subscope_close.

(* non-vacuity: prefix "p", root tag z=1; a counter in SubScope("a").Tagged({k:1}) recorded
   before and after that scope is closed, a gauge, a timer, a histogram with duplicate bounds *)
Example C11_example :
  let root := root_of [112] [([122], [49])] in
  let p := [DSub [97]; DTag [([107], [49])]] in
  let one := 4607182418800017408 in
  let ops := [ORec p [99] (RInc 5); ORec [] [103] (RUpdate 7); ORec p [116] (RRecord 3);
              ORec [] [104] (RSample KValue [one; one] 4602678819172646912);
              OClose p; ORec p [99] (RInc (-2)); ORec p [116] (RRecord 4); OSnap] in
  Forall op_ok ops /\
  live root [] root p = Some ([112; 46; 97], [([107], [49]); ([122], [49])]) /\
  snapshot (run root ops) =
  [((MG, [112; 46; 103], [([122], [49])]), VGauge 7);
   ((MH, [112; 46; 104], [([122], [49])]), VHist KValue [(one, 1); (MAXF, 0)]);
   ((MC, [112; 46; 97; 46; 99], [([107], [49]); ([122], [49])]), VCnt 3);
   ((MT, [112; 46; 97; 46; 116], [([107], [49]); ([122], [49])]), VTimer [3; 4])].
Proof.
  cbn zeta. split; [|split]; [|reflexivity|vm_compute; reflexivity].
  repeat (apply Forall_cons; [cbn; unfold dotfree; cbn; intuition discriminate|]). apply Forall_nil.
Qed.

(* the hypotheses of C11_survives_subscope_close are satisfiable: after the first three
   operations of the example above, the path SubScope("a").Tagged({k:1}) denotes a scope
   other than the root that the path does not pass through before its end *)
Example C11_close_example :
  let root := root_of [112] [([122], [49])] in
  let p := [DSub [97]; DTag [([107], [49])]] in
  let x := ([112; 46; 97], [([107], [49]); ([122], [49])]) in
  let ops := [ORec p [99] (RInc 5); ORec [] [103] (RUpdate 7); ORec p [116] (RRecord 3)] in
  Forall op_ok ops /\
  live root (tclosed (trun root ops)) root p = Some x /\ p <> [] /\ root <> x /\ ~ In x (via root p) /\
  (* a step taken FROM the closed scope answers with the no-op scope: nothing is recorded *)
  live root [x] root (p ++ [DSub [98]]) = None.
Proof.
  cbn zeta. split; [|split; [reflexivity|split; [discriminate|split; [discriminate|split; [|reflexivity]]]]].
  - repeat (apply Forall_cons; [cbn; unfold dotfree; cbn; intuition discriminate|]). apply Forall_nil.
  - cbn. intuition discriminate.
Qed.

(* C11_histogram_counts on ValueBuckets{1, 1} with the samples 0.5, 1.0 (both in the first
   of the two buckets with bound 1), 2.0 (last bucket) and one duration (ignored) *)
Example C11_histogram_example :
  let one := 4607182418800017408 in
  let h := hfeed (hnew KValue [one; one])
             [(KValue, 4602678819172646912); (KValue, one); (KDuration, 7); (KValue, 4611686018427387904)] in
  hsnap h = [(one, 2); (MAXF, 1)] /\
  count_landed KValue (uppers KValue [one; one]) one
     [(KValue, 4602678819172646912); (KValue, one); (KDuration, 7); (KValue, 4611686018427387904)] = 2 /\
  alookup Z.eqb 4613937818241073152 (hsnap h) = None.
Proof. vm_compute. repeat split. Qed.

(* C11_tally_values on the example history: the counter p.a.c{k:1,z:1} received +5 and,
   after Close of its scope, -2 *)
Example C11_tally_example :
  let root := root_of [112] [([122], [49])] in
  let p := [DSub [97]; DTag [([107], [49])]] in
  let ops := [ORec p [99] (RInc 5); ORec [] [103] (RUpdate 7); OClose p; ORec p [99] (RInc (-2));
              ORec (p ++ [DSub [98]]) [99] (RInc 100)] in
  let k := (MC, [112; 46; 97; 46; 99], [([107], [49]); ([122], [49])]) in
  recs_for root [] k ops = [RInc 5; RInc (-2)] /\
  alookup mkey_eqb k (tmet (trun root ops)) = Some (TSum 3) /\
  length (tmet (trun root ops)) = 2%nat.
Proof. vm_compute. repeat split. Qed.

(* ---- snapshots concurrent with recording (Model/SnapConc.v) ----
   Recorders and snapshot walks interleave under an arbitrary schedule; a recording is announced
   (ghost count [started]), takes effect atomically on its metric, and is then noted complete (ghost
   count [done_]); a walk captures [lo] := done_ when it begins, reads each metric it visits once,
   and captures [hi] := started when it ends.  The state of a metric is the log of the recorded
   values (counter = its sum, timer = the log in order, histogram = C03's classification of it).
   For every configuration of threads and EVERY schedule, every entry of a finished walk is a
   point-in-time copy: a suffix (= the oldest part) of the metric's log, holding at least the
   recordings completed before the walk began and at most those announced before it ended - the
   bounds the harness checks on snapshots taken while other goroutines record - and it stays a
   suffix of the log whatever is recorded later. *)
Theorem C11_concurrent_snapshot_bounds : forall ths sched i todo lo got hi k l,
  forallb SnapConc.init_thr ths = true ->
  let s := SnapConc.run (SnapConc.init ths) sched in
  nth_error (SnapConc.thrs s) i = Some (SnapConc.TSnap 2 todo lo got hi) -> In (k, l) got ->
  (lo k <= length l <= hi k)%nat /\ exists newer, SnapConc.mets s k = newer ++ l.
Proof. exact SnapConcP.conc_snapshot_bounds. Qed.
Print Assumptions C11_concurrent_snapshot_bounds.

(* at every moment: completions <= effects <= announcements, per metric *)
Theorem C11_concurrent_counts_ordered : forall ths sched k,
  forallb SnapConc.init_thr ths = true ->
  let s := SnapConc.run (SnapConc.init ths) sched in
  (SnapConc.done_ s k <= length (SnapConc.mets s k) <= SnapConc.started s k)%nat.
Proof. exact SnapConcP.conc_counts_ordered. Qed.
Print Assumptions C11_concurrent_counts_ordered.

(* a metric nobody was recording into while the walk ran is shown exactly *)
Theorem C11_concurrent_snapshot_exact_when_quiet : forall ths sched i todo lo got hi k l,
  forallb SnapConc.init_thr ths = true ->
  let s := SnapConc.run (SnapConc.init ths) sched in
  nth_error (SnapConc.thrs s) i = Some (SnapConc.TSnap 2 todo lo got hi) -> In (k, l) got ->
  lo k = hi k -> length l = lo k.
Proof. exact SnapConcP.conc_snapshot_exact_when_quiet. Qed.
Print Assumptions C11_concurrent_snapshot_exact_when_quiet.

(* non-vacuity: two recorders on metric 0 (5, 7 and 11; then 2 on metric 1) and a walk over metrics
   0 and 1 that reads metric 0 after the first effect and before the others: it shows [5]
   (lo = 0 completed before it began, hi = 3 announced before it ended), the final log is 7, 11, 5 *)
Example C11_concurrent_example :
  let s := SnapConc.run (SnapConc.init [SnapConc.TRec 0 [(0%nat, 5); (0%nat, 7)];
                                        SnapConc.TRec 0 [(0%nat, 11); (1%nat, 2)];
                                        SnapConc.TSnap 0 [0%nat; 1%nat] SnapConc.zero [] SnapConc.zero])
             [0; 0; 1; 2; 2; 0; 1; 0; 0; 1; 2; 2; 1; 1; 1; 0]%nat in
  match nth_error (SnapConc.thrs s) 2 with
  | Some (SnapConc.TSnap 2 _ lo got hi) =>
      got = [(1%nat, []); (0%nat, [5])] /\ lo 0%nat = 0%nat /\ hi 0%nat = 3%nat /\ hi 1%nat = 0%nat
  | _ => False
  end /\ SnapConc.mets s 0%nat = [7; 11; 5] /\ SnapConc.mets s 1%nat = [2].
Proof. vm_compute. repeat split. Qed.
