(* C19 — a multi reporter forwards every call to every child exactly once, in order.
   This file holds only the property theorems; proofs are in Proof/MultiP.v. *)
From Coq Require Import ZArith List Bool.
From Tally Require Import Base.ObsCore Model.Multi Proof.MultiP.
Import ListNotations.

(* For every number of children (0 included) and every call history on the
   multi reporter (plain calls, Flush, allocations, reports through composite
   handles, histogram buckets), the global sequence of child calls is: for each
   call in order, that same call on child 0, 1, ..., n-1. *)
Theorem C19_fanout : forall n ops, glog (run n ops) = spec_from 0 0 n ops.
Proof. exact fanout. Qed.
Print Assumptions C19_fanout.

(* per child: its log is exactly the history, in order, nothing twice or missing *)
Theorem C19_child_sees_history : forall n ops i,
  (i < n)%nat -> child_log i (run n ops) = views_from 0 0 ops.
Proof. exact child_sees_history. Qed.
Print Assumptions C19_child_sees_history.

Theorem C19_capabilities_conj : forall cs,
  (fst (caps cs) = true <-> (forall c, In c cs -> fst c = true)) /\
  (snd (caps cs) = true <-> (forall c, In c cs -> snd c = true)).
Proof. intro cs; split; [exact (caps_conj cs) | exact (caps_conj_tag cs)]. Qed.
Print Assumptions C19_capabilities_conj.

Theorem C19_empty_accepts : forall ops, glog (run 0 ops) = [] /\ caps [] = (true, true).
Proof. intro ops; split; [exact (no_children_accepts ops) | reflexivity]. Qed.
Print Assumptions C19_empty_accepts.

(* non-vacuity: a concrete history with an allocation, a report through the
   handle, a bucket and samples on two children *)
Example C19_example :
  glog (run 2 [OAlloc 14 [] [[104]]; OBucket 24 0 1 2; OSamples 0 7; OPlain (Ev 6 [] [])]) =
  [(0%nat, Ev 14 [0%Z] [[104%Z]]); (1%nat, Ev 14 [0%Z] [[104%Z]]);
   (0%nat, Ev 24 [0;1;2;0]%Z []); (1%nat, Ev 24 [0;1;2;0]%Z []);
   (0%nat, Ev 26 [0;7]%Z []); (1%nat, Ev 26 [0;7]%Z []);
   (0%nat, Ev 6 [] []); (1%nat, Ev 6 [] [])].
Proof. vm_compute. reflexivity. Qed.

(* children may themselves be multi reporters: for every tree of multi reporters, a call reaches
   every leaf exactly once, in left-to-right order - the calls of one flat multi reporter *)
Theorem C19_nested_is_flat : forall t i c, deliver t i c = tag_from i (repeat c (leaves t)).
Proof. exact nested_is_flat. Qed.
Print Assumptions C19_nested_is_flat.
