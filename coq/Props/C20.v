(* C20 -- bucket constructors are exact and a histogram keeps the bounds it
   was given.

   Constructors (Model/Ctor.v): float64 = 64-bit pattern, arithmetic =
   Coq.Floats.SpecFloat at binary64; [None] = (nil, err); int64 wraps.
   Cache (Model/BCache.v): parametric in the identity function.
   "The same bound": [esame k a b] is [a = b] for durations and, for values,
   identical bits or Go's [==] ([fsame]; the only distinct patterns that
   compare == are +0 and -0).

   Not expressible here (checked by the harness only): that BucketPairs and
   Histogram() leave the caller's slice untouched -- the model is immutable. *)
From Coq Require Import ZArith List Bool.
From Tally Require Import Base.Search Model.Buckets Model.Ctor Model.BCache Proof.CtorP Proof.BCacheP.
Import ListNotations.
Open Scope Z_scope.

(* ------------------------------------------------------------------ *)
(* LinearValueBuckets: error iff n <= 0; otherwise exactly n bounds, the i-th
   being start (+) (float64(i) (x) width) -- two roundings, as the code
   computes it; this is NOT the repeated floating-point sum (see
   Refuted/C20_refuted.v). *)
Theorem C20_linear_value (start width n : Z) :
  (linear_value start width n = None <-> n <= 0) /\
  (0 < n -> exists l, linear_value start width n = Some l /\ length l = Z.to_nat n /\
     forall i, (i < Z.to_nat n)%nat ->
       nth i l 0 = fadd start (fmul (f_of_int (Z.of_nat i)) width)).
Proof. split; [apply linear_value_error | apply linear_value_ok]. Qed.
Print Assumptions C20_linear_value.

(* 0, 0.1, ..., 0.5 as the code computes them (0.1*3 = 0.30000000000000004) *)
Example C20_linear_value_ex :
  linear_value 0 4591870180066957722 6 =
  Some [0; 4591870180066957722; 4596373779694328218; 4599075939470750516;
        4600877379321698714; 4602678819172646912].
Proof. vm_compute. reflexivity. Qed.

(* LinearDurationBuckets: error iff n <= 0; otherwise exactly n bounds, the
   i-th being start + i*width in wrapping int64 arithmetic; equivalently
   b(0) = start and b(i+1) = wrap (b(i) + width). *)
Theorem C20_linear_duration (start width n : Z) :
  (linear_duration start width n = None <-> n <= 0) /\
  (0 < n -> exists l, linear_duration start width n = Some l /\ length l = Z.to_nat n /\
     (forall i, (i < Z.to_nat n)%nat -> nth i l 0 = wrap64 (start + Z.of_nat i * width)) /\
     (MINI <= start <= MAXI -> nth 0 l 0 = start) /\
     (forall i, (S i < Z.to_nat n)%nat -> nth (S i) l 0 = wrap64 (nth i l 0 + width))).
Proof. split; [apply linear_duration_error | apply linear_duration_ok]. Qed.
Print Assumptions C20_linear_duration.

Example C20_linear_duration_ex :                      (* wraps past MaxInt64 *)
  linear_duration 9223372036854775802 3 4 =
  Some [9223372036854775802; 9223372036854775805; -9223372036854775808; -9223372036854775805].
Proof. vm_compute. reflexivity. Qed.

(* ExponentialValueBuckets: error iff n <= 0, start <= 0 or factor <= 1 with
   Go's float comparison (false on NaN: a NaN start or factor is accepted);
   otherwise exactly n bounds, b(0) = start, b(i+1) = b(i) (x) factor. *)
Theorem C20_exponential_value (start factor n : Z) :
  (exponential_value start factor n = None <->
     (n <= 0 \/ fle start FZERO = true \/ fle factor FONE = true)) /\
  (0 < n -> fle start FZERO = false -> fle factor FONE = false ->
   exists l, exponential_value start factor n = Some l /\ length l = Z.to_nat n /\
     nth 0 l 0 = start /\
     (forall i, (S i < Z.to_nat n)%nat -> nth (S i) l 0 = fmul (nth i l 0) factor)).
Proof. split; [apply exponential_value_error | apply exponential_value_ok]. Qed.
Print Assumptions C20_exponential_value.

Example C20_exponential_value_ex :                    (* 1, 1.5, 2.25, 3.375 *)
  exponential_value FONE 4609434218613702656 4 =
  Some [4607182418800017408; 4609434218613702656; 4612248968380809216; 4614782243171205120].
Proof. vm_compute. reflexivity. Qed.
Example C20_exponential_value_rejects :               (* start -0.0; factor 1.0; factor 0.5 *)
  exponential_value SIGN 4611686018427387904 3 = None /\
  exponential_value FONE FONE 3 = None /\
  exponential_value FONE 4602678819172646912 3 = None.
Proof. vm_compute. repeat split. Qed.
Example C20_exponential_value_nan_start_accepted :    (* NaN <= 0 is false in Go *)
  fle QNAN FZERO = false /\
  exponential_value QNAN 4611686018427387904 2 = Some [QNAN; QNAN].
Proof. vm_compute. split; reflexivity. Qed.

(* ExponentialDurationBuckets: error iff n <= 0, start <= 0 or factor <= 1;
   otherwise exactly n bounds, b(0) = start,
   b(i+1) = int64 (float64 (b i) (x) factor) (truncation toward zero). *)
Theorem C20_exponential_duration (start factor n : Z) :
  (exponential_duration start factor n = None <->
     (n <= 0 \/ start <= 0 \/ fle factor FONE = true)) /\
  (0 < n -> 0 < start -> fle factor FONE = false ->
   exists l, exponential_duration start factor n = Some l /\ length l = Z.to_nat n /\
     nth 0 l 0 = start /\
     (forall i, (S i < Z.to_nat n)%nat ->
        nth (S i) l 0 = int64_of_f (fmul (f_of_int (nth i l 0)) factor))).
Proof. split; [apply exponential_duration_error | apply exponential_duration_ok]. Qed.
Print Assumptions C20_exponential_duration.

Example C20_exponential_duration_ex :                 (* 1000 * 1.5^i, truncated: 5062.5 -> 5062 *)
  exponential_duration 1000 4609434218613702656 5 = Some [1000; 1500; 2250; 3375; 5062] /\
  exp_dur_defined 4609434218613702656 5 1000 = true.
Proof. vm_compute. split; reflexivity. Qed.

(* the Must variants panic exactly when the plain variants return an error,
   and otherwise return the same buckets *)
Theorem C20_must_panics_iff_error (a b n : Z) :
  (must_linear_value a b n = Panics <-> linear_value a b n = None) /\
  (must_linear_duration a b n = Panics <-> linear_duration a b n = None) /\
  (must_exponential_value a b n = Panics <-> exponential_value a b n = None) /\
  (must_exponential_duration a b n = Panics <-> exponential_duration a b n = None) /\
  (forall l, must_linear_value a b n = Returns l <-> linear_value a b n = Some l) /\
  (forall l, must_linear_duration a b n = Returns l <-> linear_duration a b n = Some l) /\
  (forall l, must_exponential_value a b n = Returns l <-> exponential_value a b n = Some l) /\
  (forall l, must_exponential_duration a b n = Returns l <-> exponential_duration a b n = Some l).
Proof. exact (must_all a b n). Qed.
Print Assumptions C20_must_panics_iff_error.

Example C20_must_ex :
  must_linear_value 0 0 0 = Panics /\ must_exponential_duration 1000 4609434218613702656 2 = Returns [1000; 1500].
Proof. vm_compute. split; reflexivity. Qed.

(* ------------------------------------------------------------------ *)
(* The cache.  For EVERY identity function (so: whatever collides with
   whatever) and EVERY history of creations, the storage the i-th creation
   gets for its specification (k, spec)
     - is of kind k and keeps a specification that is element by element the
       same as spec (bucketsEqual),
     - has as bounds the sorted specification plus the maximum, the same as
       those of spec,
     - and the bucket pairs the histogram works with are, pair by pair, the
       same as BucketPairs(spec) = [Buckets.pairs k spec]. *)
Theorem C20_cache_exact (ident : kind -> list Z -> Z) (history : list (kind * list Z))
        (i : nat) (k : kind) (spec : list Z) :
  nth_error history i = Some (k, spec) ->
  exists s, nth_error (run ident history) i = Some s /\
    skind s = k /\
    Forall2 (esame k) (sspec s) spec /\
    sbounds s = uppers k (sspec s) /\
    Forall2 (esame k) (sbounds s) (uppers k spec) /\
    Forall2 (psame k) (hpairs k (hus (hist_of k s))) (pairs k spec).
Proof. exact (run_good_at ident history i k spec). Qed.
Print Assumptions C20_cache_exact.

(* for durations "the same" is "equal" *)
Theorem C20_cache_exact_duration (ident : kind -> list Z -> Z) (history : list (kind * list Z))
        (i : nat) (spec : list Z) :
  nth_error history i = Some (KDuration, spec) ->
  exists s, nth_error (run ident history) i = Some s /\
    sspec s = spec /\ sbounds s = uppers KDuration spec /\
    hpairs KDuration (hus (hist_of KDuration s)) = pairs KDuration spec.
Proof. exact (run_good_duration_at ident history i spec). Qed.
Print Assumptions C20_cache_exact_duration.

(* for values "the same" means the same IEEE value: equal bits unless a zero *)
Theorem C20_same_value_bound (a b : Z) :
  esame KValue a b ->
  fkey a = fkey b /\ (0 <= a < P64 -> 0 <= b < P64 -> is_zero a = false -> a = b).
Proof. exact (esame_value_meaning a b). Qed.
Print Assumptions C20_same_value_bound.

(* recorded samples end up in the buckets of the histogram's own
   specification: after any samples, one report pass delivers, bound by bound
   and count by count, what a histogram on a private storage built from spec
   alone delivers *)
Theorem C20_histogram_delivers_own_bounds (ident : kind -> list Z -> Z) (history : list (kind * list Z))
        (i : nat) (k : kind) (spec samples : list Z) :
  nth_error history i = Some (k, spec) ->
  exists s, nth_error (run ident history) i = Some s /\
    Forall2 (dsame k) (deliveries_after (hist_of k s) samples)
                      (deliveries_after (hnew k spec) samples).
Proof. exact (run_delivers_at ident history i k spec samples). Qed.
Print Assumptions C20_histogram_delivers_own_bounds.

(* a history in which everything collides under the identity of the code:
   {1,4}, {2,2}, {4,1} as values, {1,4} again, and the same bit patterns as
   durations -- each creation gets its own bounds; the fourth shares the
   storage of the first *)
Definition ex_history : list (kind * list Z) :=
  [(KValue, [4607182418800017408; 4616189618054758400]);
   (KValue, [4611686018427387904; 4611686018427387904]);
   (KValue, [4616189618054758400; 4607182418800017408]);
   (KValue, [4607182418800017408; 4616189618054758400]);
   (KDuration, [4611686018427387904; 4611686018427387904])].
Example C20_cache_ex :
  map (fun p => real_ident (fst p) (snd p)) ex_history = repeat 9223372036854775831 5 /\
  map sbounds (run real_ident ex_history) =
    map (fun p => uppers (fst p) (snd p)) ex_history /\
  map sown (run real_ident ex_history) = [0; 1; 2; 0; 4]%nat.
Proof. vm_compute. repeat split. Qed.

(* ------------------------------------------------------------------ *)
(* The same under interleaving.  Threads are creation requests; the probe
   under the read lock and the insertion under the write lock are the atomic
   steps; the schedule is arbitrary.  Whatever the identity function, the
   requests and the schedule, a thread that has returned holds a storage that
   is good for the specification it asked for. *)
Theorem C20_cache_exact_concurrent (ident : kind -> list Z -> Z) (reqs : list (kind * list Z))
        (sched : list nat) (t : nat) (k : kind) (spec : list Z) (s : storage) :
  nth_error (cthreads (crun ident reqs sched)) t = Some (PDone k spec s) ->
  nth_error reqs t = Some (k, spec) /\
  skind s = k /\
  Forall2 (esame k) (sspec s) spec /\
  sbounds s = uppers k (sspec s) /\
  Forall2 (esame k) (sbounds s) (uppers k spec) /\
  Forall2 (psame k) (hpairs k (hus (hist_of k s))) (pairs k spec).
Proof. exact (crun_good ident reqs sched t k spec s). Qed.
Print Assumptions C20_cache_exact_concurrent.

(* three colliding requests, all probing before anyone inserts: every thread
   misses, every thread inserts, every thread returns its own bounds *)
Example C20_cache_concurrent_ex :
  let reqs := firstn 3 ex_history in
  let st := crun real_ident reqs [0; 1; 2; 2; 0; 1]%nat in
  map (fun p => match p with PDone k spec s => Some (sbounds s) | _ => None end) (cthreads st) =
  map (fun p => Some (uppers (fst p) (snd p))) reqs.
Proof. vm_compute. reflexivity. Qed.

(* +0 and -0 are the same bound without being the same bits *)
Example C20_same_value_bound_ex :
  esame KValue 0 SIGN /\ fkey 0 = fkey SIGN /\ 0 <> SIGN /\ is_zero 0 = true.
Proof. split; [right; vm_compute; reflexivity|]. vm_compute. repeat split. discriminate. Qed.

(* sets that share their identity with the EMPTY set under the identity
   function of the code (element sum = -23/31 mod 2^64): a duration set, the
   value set {5.2461395442846984e-20, 1.0}, after the empty sets of both
   kinds -- each still gets its own bounds *)
Definition ex_history_zero : list (kind * list Z) :=
  [(KValue, []); (KDuration, []);
   (KDuration, [250000000; 1000000000; 8925843905383654007]);
   (KValue, [4318661487833636599; 4607182418800017408])].
Example C20_cache_zero_identity_ex :
  map (fun p => real_ident (fst p) (snd p)) ex_history_zero = [0; 0; 0; 0] /\
  map sbounds (run real_ident ex_history_zero) =
    map (fun p => uppers (fst p) (snd p)) ex_history_zero /\
  map (fun s => length (sbounds s)) (run real_ident ex_history_zero) = [1; 1; 4; 3]%nat.
Proof. vm_compute. repeat split. Qed.
