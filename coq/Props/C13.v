(* C13 — the M3 reporter delivers every reported value exactly once and intact.
   This file holds only the property theorems; the proofs are in
   Proof/M3PipeP.v (batching loop, bounded queue, tag cache, timestamps, common
   tags), Proof/M3PipeIdP.v (bucket ids) and Proof/M3PipeWfP.v (datagrams).

   Model/M3Pipe.v:
     op          one call: Allocate{Counter,Gauge,Timer} / AllocateHistogram
                 (with the tag-cache key the call computes — ANY integer, so
                 every hash function and every collision is covered),
                 Report* / bucket ReportSamples by goroutine pid, Flush (its
                 internal metrics left arbitrary), a tick of timeLoop;
     enq md      the items entering the queue for a history, md = MFixed (tag
                 cache with the check of a hit: the repaired tree), MRef (no
                 cache: the reference), MPinned (hit trusted: the pinned tree);
     srun/sclose the bounded queue under a schedule, and Close;
     reference   what was reported, in call order, with the tags as allocated.
   [pm_equiv]/[mequiv]: same owner, name, kind and value, timestamp, and the
   same tags up to order (a Go map has no order). *)
From Coq Require Import ZArith List Bool Arith Lia Permutation.
From Tally Require Import Base.ObsCore Base.Search Gen.Params Model.Varint Model.Thrift Model.Buckets Model.M3Pipe
  Proof.VarintP Proof.ThriftP Proof.BucketsP Proof.M3PipeP Proof.M3PipeIdP Proof.M3PipeWfP.
Import ListNotations.
Open Scope Z_scope.

(* ---- nothing lost, nothing twice, nothing reordered: for every history,
   every key assignment, every queue capacity and every interleaving of the
   producers' sends with the consumer, once all reports have returned
   (stodo = []) Close leaves exactly the reported sequence emitted ---- *)
Theorem C13_multiset_preserved : forall cfg t0 ops cap sched,
  Forall op_wf ops ->
  let s := srun cfg cap sched (sinit (enq MFixed cfg t0 ops)) in
  stodo s = [] ->
  Forall2 pm_equiv (concat (sclose cfg s)) (reference cfg t0 ops).
Proof. exact multiset_preserved. Qed.
Print Assumptions C13_multiset_preserved.

(* per producer the order is kept as well *)
Theorem C13_per_producer_order : forall cfg t0 ops cap sched p,
  Forall op_wf ops ->
  let s := srun cfg cap sched (sinit (enq MFixed cfg t0 ops)) in
  stodo s = [] ->
  Forall2 mequiv (map snd (filter (fun x => Nat.eqb (fst x) p) (concat (sclose cfg s))))
                 (map snd (filter (fun x => Nat.eqb (fst x) p) (reference cfg t0 ops))).
Proof. exact per_producer. Qed.
Print Assumptions C13_per_producer_order.

(* ---- for every hash function the handles hold, and the queue receives, the
   tags that were allocated ---- *)
Theorem C13_tags_intact : forall (hash : tagmap -> Z) cfg t0 ops,
  Forall op_wf ops ->
  Forall2 hequiv (phandles (prun MFixed cfg t0 (map (with_hash hash) ops))) (phandles (prun MRef cfg t0 ops)) /\
  Forall2 qequiv (enq MFixed cfg t0 (map (with_hash hash) ops)) (enq MRef cfg t0 ops).
Proof. exact tags_intact. Qed.
Print Assumptions C13_tags_intact.

(* the reference stores the converted tag map itself (no tags at all for an empty
   map of a counter, gauge or timer) *)
Theorem C13_reference_tags : forall cfg s,
  (forall k name tm key size,
     phandles (fst (pstep MRef cfg s (OAlloc k name tm key size))) =
     phandles s ++ [HMet k name (match tm with [] => None | _ => Some (conv tm) end) size]) /\
  (forall hk name tm key spec szf,
     phandles (fst (pstep MRef cfg s (OAllocH hk name tm key spec szf))) =
     phandles s ++ [HHist hk name (conv tm) spec szf]).
Proof. intros cfg s. split; intros; [apply ref_alloc_tags|apply ref_alloch_tags]. Qed.
Print Assumptions C13_reference_tags.

(* one conversion through the cache, whatever the cache holds under that key *)
Theorem C13_convert_intact : forall c key m, cache_ok c -> tm_ok m ->
  cache_ok (fst (convert MFixed c key m)) /\ Permutation (snd (convert MFixed c key m)) (conv m).
Proof. exact convert_fixed. Qed.
Print Assumptions C13_convert_intact.

(* ---- bucket ids: a histogram over n bounds has n+1 buckets; every id is the
   index written with w = max(ndigits n, minimum) digits — i < 10^w, so no id
   is cut or longer; ids increase as strings with the index, and the upper
   bounds do not decrease (for bounds that are not NaN) ---- *)
Theorem C13_bucket_ids_monotone : forall cfg hk spec,
  let n := length spec in
  let w := id_width n in
  let bs := hist_buckets cfg hk spec in
  length bs = S n /\
  (ndigits n <= w)%nat /\ (Z.to_nat m3_min_bucket_id_len <= w)%nat /\
  (forall i, (i <= n)%nat ->
     bk_id (nth i bs (0, [], [])) = pad_dec w i /\
     length (bk_id (nth i bs (0, [], []))) = w /\
     (i < 10 ^ w)%nat /\
     bk_ub (nth i bs (0, [], [])) = nth i (uppers hk spec) 0) /\
  (forall i j, (i < j)%nat -> (j <= n)%nat ->
     bytes_ltb (bk_id (nth i bs (0, [], []))) (bk_id (nth j bs (0, [], []))) = true /\
     (finite_spec hk spec ->
        key hk (bk_ub (nth i bs (0, [], []))) <= key hk (bk_ub (nth j bs (0, [], []))))).
Proof. exact bucket_ids_monotone. Qed.
Print Assumptions C13_bucket_ids_monotone.

(* a sample goes to the first bucket whose upper bound is >= the requested one
   and is queued with that bucket's id and range string *)
Theorem C13_bucket_sample : forall md cfg s pid h hk ub v name tags spec szf,
  nth_error (phandles s) h = Some (HHist hk name tags spec szf) ->
  let i := search_idx hk (uppers hk spec) ub in
  (i < S (length spec))%nat ->
  snd (pstep md cfg s (OSamples pid h hk ub v)) =
  [QMet pid (reported 1 name (Some tags) v (pnow s)) (szf i)
        (bk_id (bucket_at cfg hk spec i)) (bk_range (bucket_at cfg hk spec i))].
Proof. exact samples_item. Qed.
Print Assumptions C13_bucket_sample.

(* ---- timestamps: [clock i] is the wall clock when call i is made (call 0 =
   the constructor), any non-decreasing function; a tick stores a value the
   timeLoop read between the construction and the store.  Every queued and
   every sent metric then carries construction <= ts <= time of its call ---- *)
Theorem C13_timestamp_bracket : forall md cfg clock ops,
  (forall a b, (a <= b)%nat -> clock a <= clock b) -> ticks_ok clock 1 ops ->
  forall j o m sz bid br, In (j, QMet o m sz bid br) (enq_ix md cfg (clock 0%nat) ops) ->
  clock 0%nat <= mts (sent cfg m bid br) <= clock j.
Proof. exact timestamp_bracket_sent. Qed.
Print Assumptions C13_timestamp_bracket.

(* ---- every batch carries the common tags; they contain service and env (not
   empty), the host when asked for, and every configured tag with a value ---- *)
Theorem C13_common_tags_every_batch : forall o free render cfg md t0 ops b,
  config_of o free render = Some cfg -> In b (emitted md cfg t0 ops) ->
  exists m, common_of o = Some m /\ bcommon (to_batch cfg b) = Some (conv m) /\
    (exists s, lookup s_service m = Some s /\ s <> [] /\
               (unset s_service (ocommon o) = true -> s = oservice o) /\
               (unset s_service (ocommon o) = false -> lookup s_service (ocommon o) = Some s)) /\
    (exists e, lookup s_env m = Some e /\ e <> [] /\
               (unset s_env (ocommon o) = true -> e = oenv o) /\
               (unset s_env (ocommon o) = false -> lookup s_env (ocommon o) = Some e)) /\
    (forall hn, ohost o = Some hn -> unset s_host (ocommon o) = true -> lookup s_host m = Some hn) /\
    (forall k v, lookup k (ocommon o) = Some v -> v <> [] -> lookup k m = Some v).
Proof.
  intros o free render cfg md t0 ops b Hc _.
  destruct (config_of_common _ _ _ _ Hc) as (m & Hm & Hcm & _).
  exists m. split; [exact Hm|]. split; [cbn; rewrite Hcm; reflexivity|].
  exact (common_tags_complete o m Hm).
Qed.
Print Assumptions C13_common_tags_every_batch.

(* ---- every datagram is the encoding of exactly one one-way
   emitMetricBatchV2 message holding one emitted batch with the common tags,
   and decodes to it with nothing left over (C16), in both protocols, whatever
   state the reused protocol object is in; [op_ok]/[cfg_ok]: strings shorter
   than 2^31 (tag maps, bounds lists and renderings below 2^30), values in
   the range of their Go type, sizes >= 1, freeBytes an int32 ---- *)
Theorem C13_wellformed : forall P, P = compact \/ P = binary -> forall (p : PS P) cfg t0 ops,
  cfg_ok cfg -> int64 t0 -> Forall op_ok ops ->
  let bs := emitted MFixed cfg t0 ops in
  Forall2 (fun d b => exists seq, int32 seq /\
             decode_emit P d = Some ((M_ONEWAY, seq, to_batch cfg b), []))
          (datagrams P p cfg bs) bs.
Proof. intros P HP p cfg t0 ops. exact (wellformed P HP p MFixed cfg t0 ops). Qed.
Print Assumptions C13_wellformed.

(* no batch is empty, and the batches concatenate to what was queued *)
Theorem C13_batches_partition : forall cfg items,
  concat (process cfg items) = flat_map (item_sent cfg) items /\
  Forall (fun b => b <> []) (process cfg items).
Proof. intros cfg items. split; [apply process_concat|apply process_nonempty]. Qed.
Print Assumptions C13_batches_partition.

(* ---- Close: in whatever state the queue and the consumer are, Close emits
   what is still queued and held; with every report returned the result is
   independent of capacity and schedule; with capacity >= 1 the system is
   never stuck while a report is pending, and a schedule that completes exists ---- *)
Theorem C13_close_drains : forall cfg cap,
  (forall s, concat (sclose cfg s) = cflat (sc s) ++ flat_map (item_sent cfg) (sq s)) /\
  (forall sched items, let s := srun cfg cap sched (sinit items) in
                       stodo s = [] -> sclose cfg s = process cfg items) /\
  ((1 <= cap)%nat ->
     (forall s, stodo s <> [] -> sstep cfg cap s true <> s \/ sstep cfg cap s false <> s) /\
     (forall items, stodo (srun cfg cap (alternate (length items)) (sinit items)) = [])).
Proof.
  intros cfg cap. split; [intro s; apply close_emits_queued|].
  split; [intros sched items; apply sched_independent|].
  intro Hc. split; [intros s; apply sched_progress, Hc|intro items; apply sched_completes, Hc].
Qed.
Print Assumptions C13_close_drains.

(* ------------------------------------------------------------------ *)
(* non-vacuity: a concrete reporter and history.  Two tag maps share a cache
   key (7), a third handle reuses the first map in another order; a
   histogram over 3 bounds; reports by two goroutines; a tick; a Flush with
   one internal metric; queue capacity 1 *)
Definition ex_render (hk : kind) (v : Z) : bytes := [118].     (* "v" *)
Definition ex_opts : options :=
  Options [115;118;99] [112] [([100;99], [49])] (Some [104;49]) [] [98].
Definition ex_cfg : config :=
  match config_of ex_opts 60 ex_render with Some c => c | None => Config 0 [] [] [] ex_render end.
Definition ex_a : bytes := [97].
Definition ex_ops : list op :=
  [ OAlloc 1 [120] [(ex_a, [98;61;99])] 7 30;
    OAlloc 2 [121] [([97;61;98], [99])] 7 30;
    OAlloc 3 [122] [([107], [119]); (ex_a, [98;61;99])] 9 30;
    OAlloc 1 [113] [(ex_a, [98;61;99]); ([107], [119])] 9 30;
    OAllocH KDuration [104] [] 0 [1000; 5; 70] (fun _ => 25);
    OReport 1 0 1 5;
    OReport 2 1 2 4607182418800017408;
    OTick 1010;
    OSamples 1 4 KDuration 6 2;
    OReport 2 3 1 (-1);
    OFlush [(Metric [105] (MValue 1 9 0 0) 0 None, 20)];
    OReport 1 2 3 12;
    OSamples 2 4 KDuration 2000 1 ].
Definition ex_clock (i : nat) : Z := 1000 + 10 * Z.of_nat i.

Example C13_example_hypotheses :
  Forall op_wf ex_ops /\ Forall op_ok ex_ops /\ cfg_ok ex_cfg /\ int64 (ex_clock 0) /\
  (forall a b, (a <= b)%nat -> ex_clock a <= ex_clock b) /\ ticks_ok ex_clock 1 ex_ops /\
  stodo (srun ex_cfg 1 (alternate 16) (sinit (enq MFixed ex_cfg (ex_clock 0) ex_ops))) = [].
Proof.
  split; [|split; [|split; [|split; [|split; [|split]]]]].
  - unfold ex_ops, op_wf, tm_ok. repeat constructor; cbn; intuition discriminate.
  - unfold ex_ops. repeat (apply Forall_cons || apply Forall_nil); cbn;
      unfold str_ok, tm_strs_ok, v_ok, int64, bits64, int32, HALF, metric_ok, value_ok, opt_tags_ok; cbn;
      repeat first [ split | apply Forall_cons | apply Forall_nil | lia | (left; reflexivity) | (right; left; reflexivity) | (right; right; reflexivity) | (intros; lia) | exact I ].
  - unfold cfg_ok, tags_ok, tag_ok, str_ok, HALF. cbn.
    repeat first [ split | apply Forall_cons | apply Forall_nil | lia | (intros; cbn; lia) ].
  - unfold int64, ex_clock. cbn. lia.
  - intros a b Hab. unfold ex_clock. lia.
  - intros j v Hj. unfold ex_ops in Hj.
    do 14 (destruct j as [|j]; [cbn in Hj; try discriminate; injection Hj as <-; unfold ex_clock; cbn; lia|]).
    cbn in Hj. destruct j; discriminate.
  - vm_compute. reflexivity.
Qed.

(* what Close returns for that history: the colliding handle y keeps its own
   tags, bucket samples carry zero-padded ids and range strings, the tick
   shows in the later timestamps, batches are cut at 60 bytes and at the Flush *)
Example C13_example_emitted :
  sclose ex_cfg (srun ex_cfg 1 (alternate 16) (sinit (enq MFixed ex_cfg (ex_clock 0) ex_ops))) =
  [ [ (1%nat, Metric [120] (MValue 1 5 0 0) 1000 (Some [Tag [97] [98;61;99]]));
      (2%nat, Metric [121] (MValue 2 0 4607182418800017408 0) 1000 (Some [Tag [97;61;98] [99]])) ];
    [ (1%nat, Metric [104] (MValue 1 2 0 0) 1010
                (Some [Tag [98;117;99;107;101;116;105;100] [48;48;48;49]; Tag [98] [118;45;118]]));
      (2%nat, Metric [113] (MValue 1 (-1) 0 0) 1010 (Some [Tag [107] [119]; Tag [97] [98;61;99]])) ];
    [ (0%nat, Metric [105] (MValue 1 9 0 0) 1010 None) ];
    [ (1%nat, Metric [122] (MValue 3 0 0 12) 1010 (Some [Tag [107] [119]; Tag [97] [98;61;99]]));
      (2%nat, Metric [104] (MValue 1 1 0 0) 1010
                (Some [Tag [98;117;99;107;101;116;105;100] [48;48;48;51]; Tag [98] [118;45;105;110;102;105;110;105;116;121]])) ] ] /\
  ccommon ex_cfg = [Tag [100;99] [49]; Tag [115;101;114;118;105;99;101] [115;118;99]; Tag [101;110;118] [112]; Tag [104;111;115;116] [104;49]].
Proof. vm_compute. split; reflexivity. Qed.

Example C13_example_datagrams :
  let bs := emitted MFixed ex_cfg (ex_clock 0) ex_ops in
  length (datagrams compact cps0 ex_cfg bs) = 4%nat /\
  map (fun d => match decode_emit binary d with Some ((_, seq, b), []) => (seq, length (bmetrics b)) | _ => (0, 0%nat) end)
      (datagrams binary tt ex_cfg bs) = [(1, 2%nat); (2, 2%nat); (3, 1%nat); (4, 2%nat)].
Proof. vm_compute. split; reflexivity. Qed.

Set Warnings "-abstract-large-number".
Example C13_example_ids :
  map bk_id (hist_buckets ex_cfg KValue (repeat 0 3)) = [[48;48;48;48]; [48;48;48;49]; [48;48;48;50]; [48;48;48;51]] /\
  id_width 10000 = 5%nat /\ bucket_id (id_width 10000) 9999 = [48;57;57;57;57] /\
  bucket_id (id_width 10000) 10000 = [49;48;48;48;48] /\
  bytes_ltb (bucket_id (id_width 10000) 9999) (bucket_id (id_width 10000) 10000) = true.
Proof. vm_compute. repeat split. Qed.
