(* C16 — Thrift encoding round-trips and the size calculator agrees with the encoder.
   This file holds only the property theorems; the proofs are in Proof/ThriftP.v
   (generic in the protocol), Proof/ThriftCompactP.v, Proof/ThriftBinaryP.v and
   Proof/ThriftC16P.v (the instances stated here).

   Model/Thrift.v: [wr_*] is the generated Write code over a protocol and a
   transport (memory buffer and counting transport side by side), [e_*] the
   byte string it amounts to, [decode_*] the generated Read code;
   [encode_* P p x] / [calc_* P p x] write x into a fresh buffer / a reset
   counter through a protocol object that is in state p (for Compact: last
   field id and field-id stack, left there by whatever was written before). *)
From Coq Require Import ZArith List Bool Lia.
From Tally Require Import Base.ObsCore Model.Varint Model.Thrift
  Proof.VarintP Proof.ThriftP Proof.ThriftCompactP Proof.ThriftBinaryP Proof.ThriftC16P.
Import ListNotations.
Open Scope Z_scope.

(* ---- round trip: for every batch (strings of any bytes shorter than 2^31,
   every int64 / int32 / 64 bit double pattern, optional lists nil or not),
   every sequence id, whatever follows on the wire and whatever state the
   writing protocol object was in ---- *)
Theorem C16_roundtrip_compact : forall p seq b rest, int32 seq -> batch_ok b ->
  decode_emit compact (encode_emit compact p seq b ++ rest) = Some ((M_ONEWAY, seq, b), rest).
Proof. exact roundtrip_compact_thm. Qed.
Print Assumptions C16_roundtrip_compact.

Theorem C16_roundtrip_binary : forall p seq b rest, int32 seq -> batch_ok b ->
  decode_emit binary (encode_emit binary p seq b ++ rest) = Some ((M_ONEWAY, seq, b), rest).
Proof. exact roundtrip_binary_thm. Qed.
Print Assumptions C16_roundtrip_binary.

(* the same for the structures on their own (MetricBatch.Write/Read, Metric.Write/Read) *)
Theorem C16_roundtrip_structs : forall P, P = compact \/ P = binary ->
  (forall p b rest, batch_ok b -> decode_batch P (encode_batch P p b ++ rest) = Some (b, rest)) /\
  (forall p m rest, metric_ok m -> decode_metric P (encode_metric P p m ++ rest) = Some (m, rest)).
Proof. exact roundtrip_structs_thm. Qed.
Print Assumptions C16_roundtrip_structs.

(* ---- a complete write leaves the Compact protocol's field-id state (last
   field id, stack) exactly as it was, and hands the transport the same bytes
   whatever that state was: nothing depends on what was written before
   through the same reused protocol object ---- *)
Theorem C16_state_restored : forall t last stk,
  (forall m, wr_metric compact m (t, CPS last stk) = (tws (e_metric compact m) t, CPS last stk)) /\
  (forall b, wr_batch compact b (t, CPS last stk) = (tws (e_batch compact b) t, CPS last stk)) /\
  (forall seq b, wr_emit compact seq b (t, CPS last stk) = (tws (e_emit compact seq b) t, CPS last stk)).
Proof. exact state_restored_thm. Qed.
Print Assumptions C16_state_restored.

Theorem C16_bytes_independent_of_state : forall p p' seq b m,
  encode_emit compact p seq b = encode_emit compact p' seq b /\
  encode_batch compact p b = encode_batch compact p' b /\
  encode_metric compact p m = encode_metric compact p' m /\
  calc_metric compact p m = calc_metric compact p' m.
Proof. exact bytes_independent_of_state_thm. Qed.
Print Assumptions C16_bytes_independent_of_state.

(* the Binary protocol object has no state at all ([PS binary] = unit); its writers are
   likewise one transport write of the pure encoding *)
Theorem C16_binary_stateless : forall t (p : PS binary) seq b m,
  wr_emit binary seq b (t, p) = (tws (e_emit binary seq b) t, p) /\
  wr_metric binary m (t, p) = (tws (e_metric binary m) t, p).
Proof. exact binary_stateless_thm. Qed.
Print Assumptions C16_binary_stateless.

(* ---- the counting transport: its int32 counter ends at the (wrapped)
   number of bytes the encoder produces, i.e. at that number while it is
   below 2^31; in either protocol, for a metric, a batch and a message, with
   the counting and the encoding protocol objects in any two states ---- *)
Theorem C16_calc_eq_len : forall P, P = compact \/ P = binary -> forall p p',
  (forall m, calc_metric P p m = wrap32 (Z.of_nat (length (encode_metric P p' m)))) /\
  (forall b, calc_batch P p b = wrap32 (Z.of_nat (length (encode_batch P p' b)))) /\
  (forall seq b, calc_emit P p seq b = wrap32 (Z.of_nat (length (encode_emit P p' seq b)))) /\
  (forall m, Z.of_nat (length (encode_metric P p' m)) < 2147483648 ->
             calc_metric P p m = Z.of_nat (length (encode_metric P p' m))) /\
  (forall b, Z.of_nat (length (encode_batch P p' b)) < 2147483648 ->
             calc_batch P p b = Z.of_nat (length (encode_batch P p' b))) /\
  (forall seq b, Z.of_nat (length (encode_emit P p' seq b)) < 2147483648 ->
             calc_emit P p seq b = Z.of_nat (length (encode_emit P p' seq b))).
Proof. exact calc_eq_len_thm. Qed.
Print Assumptions C16_calc_eq_len.

(* ---- the size measured with maximal placeholder values bounds the size
   with any reported values: general form (every int64 slot of p holds
   MaxInt64 or what a holds; gauge bits are free) ... ---- *)
Theorem C16_max_is_upper_bound_general : forall P, P = compact \/ P = binary -> forall pm a,
  int64 (mcount (mval a)) -> int64 (mtimer (mval a)) -> int64 (mts a) -> dominates pm a ->
  (length (e_metric P a) <= length (e_metric P pm))%nat.
Proof. exact max_is_upper_bound_general_thm. Qed.
Print Assumptions C16_max_is_upper_bound_general.

(* ... and as the reporter uses it: calculateSize of the pre-built metric
   (kind k, own slot and timestamp maximal) is at least the encoded size of
   that metric with any reported value v (an int64, or any double pattern
   for a gauge) and any timestamp *)
Theorem C16_max_is_upper_bound : forall P, P = compact \/ P = binary ->
  forall p p' k name tags v ts,
  (k = 1 \/ k = 2 \/ k = 3) -> (if k =? 2 then bits64 v else int64 v) -> int64 ts ->
  Z.of_nat (length (encode_metric P p' (placeholder k name tags))) < 2147483648 ->
  Z.of_nat (length (encode_metric P p' (reported k name tags v ts))) <= calc_metric P p (placeholder k name tags).
Proof. exact max_is_upper_bound_thm. Qed.
Print Assumptions C16_max_is_upper_bound.

(* ---- non-vacuity ---- *)
Definition ex_m1 : metric :=
  Metric [110;97] (MValue 1 (-5) 4607182418800017408 300) 1700000000000000000
         (Some [Tag [107] [118;118]; Tag [] []]).
Definition ex_b : batch := Batch [ex_m1; Metric [] (MValue 2 0 MAXF64 0) (-1) None] (Some []).

Example C16_example_ok : batch_ok ex_b /\ int32 (-2).
Proof.
  unfold ex_b, ex_m1, MAXF64, batch_ok, metric_ok, value_ok, opt_tags_ok, tags_ok, tag_ok, str_ok, int32, int64, bits64.
  repeat first [ split | apply Forall_cons | apply Forall_nil | (cbn; lia) ].
Qed.

(* the bytes are those of a real run of the vendored encoder (protocol object
   previously left inside a struct at field 7) *)
Example C16_example_compact :
  encode_emit compact (CPS 7 [3]) 1 ex_b =
  [130;129;1;17;101;109;105;116;77;101;116;114;105;99;66;97;116;99;104;86;50;28;25;44;24;2;110;97;28;21;2;22;
   9;23;0;0;0;0;0;0;240;63;22;216;4;0;22;128;128;208;226;198;191;206;151;47;25;44;24;1;107;24;2;118;118;0;
   24;0;24;0;0;0;24;0;28;21;4;22;0;23;255;255;255;255;255;255;239;127;22;0;0;22;1;0;25;12;0;0] /\
  decode_emit compact (encode_emit compact (CPS 7 [3]) 1 ex_b ++ [9]) = Some ((4, 1, ex_b), [9]) /\
  calc_emit compact cps0 1 ex_b = 98.
Proof. vm_compute. repeat split. Qed.

Example C16_example_binary :
  decode_emit binary (encode_emit binary tt (-2) ex_b ++ [9]) = Some ((4, -2, ex_b), [9]) /\
  calc_emit binary tt (-2) ex_b = Z.of_nat (length (encode_emit binary tt (-2) ex_b)) /\
  calc_emit binary tt (-2) ex_b = 219.
Proof. vm_compute. repeat split. Qed.

Example C16_example_max :
  calc_metric compact cps0 (placeholder 1 [99] None) = 41 /\
  Z.of_nat (length (encode_metric compact cps0 (reported 1 [99] None 12 1700000000000000000))) = 31 /\
  calc_metric binary tt (placeholder 2 [99] (Some [Tag [107] [118]])) =
  Z.of_nat (length (encode_metric binary tt (reported 2 [99] (Some [Tag [107] [118]]) 4607182418800017408 5))).
Proof. vm_compute. repeat split. Qed.
