(* C17 — Prometheus exposes what was recorded; registration conflicts never crash.
   Only the property theorems are here; proofs are in Proof/Prom*.v, the
   executable model in Model/Prom.v (Prometheus client: modelled).

   Vocabulary.  A history [h : list top] is a sequence of first uses
   (TDecl use name tags), actions on the i-th declared object (TOp i a) and
   report passes (TPass).  [decls h] are its first uses, [proj 0 i h] the
   events of object i (its own actions, and the passes after its first use).
   [consistent (decls h)]: a name stands for ONE kind of metric with ONE set
   of tag keys (and one bucket specification), and no (name, tag values) pair
   is declared twice — "histories that do not reuse a name for two kinds".
   [gathered s name lvs]: family descriptor and value of the series of family
   [name] with label values [lvs], as Gather shows it.
   [trun c (h ++ [TPass])]: the state after the history and a report pass. *)
From Coq Require Import ZArith List Bool.
From Tally Require Import Base.ObsCore Base.Search Model.Buckets Model.Prom
  Proof.PromP Proof.PromObjP Proof.PromSysP Proof.PromThmP Proof.PromDecP.
Import ListNotations.
Open Scope Z_scope.

(* ---- values: counter = sum of its increments ---- *)
Theorem C17_values_counter : forall c h i name tags,
  ttype_ok c -> consistent (decls h) ->
  nth_error (decls h) i = Some (Decl TUCounter name tags) ->
  gathered (rs (trun c (h ++ [TPass]))) name (map snd tags) =
    Some (Vec name (name ++ sfx_counter) (map fst tags) PCounter [], SCounter (sum_incs (proj 0 i h))).
Proof. exact counter_value. Qed.
Print Assumptions C17_values_counter.

(* ---- values: gauge = its last update (0 before any) ---- *)
Theorem C17_values_gauge : forall c h i name tags,
  ttype_ok c -> consistent (decls h) ->
  nth_error (decls h) i = Some (Decl TUGauge name tags) ->
  gathered (rs (trun c (h ++ [TPass]))) name (map snd tags) =
    Some (Vec name (name ++ sfx_gauge) (map fst tags) PGauge [], SGauge (last_upd (proj 0 i h) 0)).
Proof. exact gauge_value. Qed.
Print Assumptions C17_values_gauge.

(* ---- values: timer count = number of records, both flavours ---- *)
Theorem C17_values_timer_summary : forall c h i name tags,
  ttype c = 0 -> consistent (decls h) ->
  nth_error (decls h) i = Some (Decl TUTimer name tags) ->
  gathered (rs (trun c (h ++ [TPass]))) name (map snd tags) =
    Some (Vec name (name ++ sfx_summary) (map fst tags) PSummary [],
          SSummary (Z.of_nat (length (recs (proj 0 i h))))).
Proof. exact timer_summary_count. Qed.
Print Assumptions C17_values_timer_summary.

(* histogram flavour: total = number of records; cumulative count at default
   bound j = number of records whose duration in seconds is <= that bound *)
Theorem C17_values_timer_histogram : forall c h i name tags,
  ttype c = 1 -> consistent (decls h) ->
  bounds_ok (norm_bounds (dbounds c)) ->
  nth_error (decls h) i = Some (Decl TUTimer name tags) ->
  let bs := norm_bounds (dbounds c) in
  exists cs,
    gathered (rs (trun c (h ++ [TPass]))) name (map snd tags) =
      Some (Vec name (name ++ sfx_histogram) (map fst tags) PHistogram bs,
            SHist cs (Z.of_nat (length (recs (proj 0 i h))))) /\
    length cs = length bs /\
    forall j, (j < length bs)%nat ->
      nth j (cumul 0 cs) 0 = sumf (fun s => if fge (nth j bs 0) s then 1 else 0) (recs (proj 0 i h)).
Proof. exact timer_histogram_count. Qed.
Print Assumptions C17_values_timer_histogram.

(* ---- values: histogram.  For a histogram of kind k (value | duration) with
   specification spec, whose sorted upper bounds [uppers k spec] (the spec and
   the overflow bucket) have the seconds [secs] (oracle: float64(d)/1e9; the
   bounds themselves for values) satisfying [hist_ok] — bounds increasing, a
   strictly larger bound strictly larger in seconds, which is what Prometheus's
   own validity check of the bounds demands — and samples that are comparable
   and not above the overflow bucket (finite, not NaN):
   Prometheus shows the bounds in seconds, a total equal to the number of
   samples, and at bound j a cumulative count equal to the number of recorded
   samples <= the j-th bound.  Combines tally's sort.Search bucketing, the
   replay of bucket i as observations of its upper bound, and Prometheus's
   sort.Search bucketing (a sample equal to a bound is counted at that bound
   on both sides). ---- *)
Theorem C17_values_histogram : forall c h i k spec secs name tags,
  ttype_ok c -> consistent (decls h) ->
  nth_error (decls h) i = Some (Decl (TUHist k spec secs) name tags) ->
  spec <> [] ->
  hist_ok k (uppers k spec) secs ->
  bounds_ok (firstn (length spec) secs) ->
  (forall v, In v (hsamples k h i) -> sample_ok k (uppers k spec) v) ->
  let pb := firstn (length spec) secs in
  exists cs,
    gathered (rs (trun c (h ++ [TPass]))) name (map snd tags) =
      Some (Vec name (name ++ sfx_histogram) (map fst tags) PHistogram pb,
            SHist cs (Z.of_nat (length (hsamples k h i)))) /\
    length cs = length spec /\
    forall j, (j < length spec)%nat ->
      nth j (cumul 0 cs) 0 = count_le k (nth j (uppers k spec) 0) (hsamples k h i).
Proof. exact histogram_counts. Qed.
Print Assumptions C17_values_histogram.

(* the side conditions hold for EVERY non-empty strictly increasing value
   specification of finite floats (the oracle is the identity), and every
   finite non-NaN sample is valid *)
Theorem C17_value_spec_ok : forall spec, vspec_ok spec ->
  uppers KValue spec = spec ++ [MAXF] /\
  hist_ok KValue (uppers KValue spec) (uppers KValue spec) /\
  bounds_ok (firstn (length spec) (uppers KValue spec)) /\
  forall v, fge MAXF v = true -> sample_ok KValue (uppers KValue spec) v.
Proof.
  intros spec V. destruct (hist_ok_value spec V) as (A & B & C).
  split; [exact A|]. split; [exact B|]. split; [exact C|]. intros v F. now apply sample_ok_value.
Qed.
Print Assumptions C17_value_spec_ok.

(* ---- same name and tag keys, different tag values: separate series of one family ---- *)
Theorem C17_series_per_tag_values : forall c h i j di dj,
  ttype_ok c -> consistent (decls h) ->
  nth_error (decls h) i = Some di -> nth_error (decls h) j = Some dj -> i <> j ->
  dname di = dname dj ->
  dvals di <> dvals dj /\
  exists xi xj,
    gathered (rs (trun c h)) (dname di) (dvals di) = Some (dvec_of c di, xi) /\
    gathered (rs (trun c h)) (dname di) (dvals dj) = Some (dvec_of c di, xj).
Proof. exact series_per_tag_values. Qed.
Print Assumptions C17_series_per_tag_values.

(* each object's series holds exactly the deliveries of that object's own run
   (the general form behind the value theorems: no interference between series) *)
Theorem C17_series_is_own_run : forall c h i d,
  ttype_ok c -> consistent (decls h) -> nth_error (decls h) i = Some d ->
  gathered (rs (trun c h)) (dname d) (dvals d) =
    Some (dvec_of c d,
          feed (vbounds (dvec_of c d)) (snd (orun (oinit (duse d)) (proj 0 i h))) (sinit (dvec_of c d))).
Proof. exact object_series. Qed.
Print Assumptions C17_series_is_own_run.

(* ---- conflicts never dereference nil: for EVERY configuration of the
   repaired reporter (any timer type, any default bounds, any callback
   oracle), EVERY start state (so: any pre-registered families) and EVERY
   sequence of Allocate* / Register* / report calls — any reuse of names
   across kinds and tag key sets included — no step dereferences a nil vector
   and no Register* returns a nil vector with a nil error ---- *)
Theorem C17_conflict_never_nil : forall c, fixed c = true ->
  forall ops s, forallb (fun o => negb (is_nil o)) (snd (rrun c s ops)) = true.
Proof. exact never_nil. Qed.
Print Assumptions C17_conflict_never_nil.

(* ... and every Allocate* returns a metric — recorded as the caller's handle,
   a real child or the no-op — unless the callback itself panics (then that
   panic, and nothing else, propagates).  Reports through a handle are total
   ([rstep c s (RDeliver h d)] has outcome ODone for every s, h, d). *)
Theorem C17_alloc_returns_metric : forall c s u n tags, fixed c = true ->
  let r := rstep c s (RAlloc u n tags) in
  (exists m, snd r = OMetric m /\ nth_error (handles (fst r)) (length (handles s)) = Some m) \/
  (exists cls, snd r = OCbPanic cls /\ cbret c (length (cblog s)) = false).
Proof. exact alloc_returns_metric. Qed.
Print Assumptions C17_alloc_returns_metric.

(* ---- the callback gets the error: in EVERY state, when the lookup /
   registration of an Allocate* fails with e, OnRegisterError is invoked
   exactly once, with e, the registry and the series are untouched, and the
   caller gets the no-op metric iff the callback returns; on success the
   callback is not invoked ---- *)
Theorem C17_callback_gets_error : forall c s u n tags,
  let sr := alloc_vec c s u n (map fst tags) in
  let r := rstep c s (RAlloc u n tags) in
  match snd sr with
  | VErr e =>
      cblog (fst r) = cblog (fst sr) ++ [eclass e] /\
      vecs (fst r) = vecs (fst sr) /\ sers (fst r) = sers (fst sr) /\
      snd r = (if cbret c (length (cblog (fst sr))) then OMetric MNoop else OCbPanic (eclass e))
  | VOk _ => cblog (fst r) = cblog (fst sr)
  end.
Proof. exact callback_gets_error. Qed.
Print Assumptions C17_callback_gets_error.

(* a registration that (the model of) Prometheus rejects IS such a failure:
   not in the reporter's own cache and rejected by Register => error e *)
Theorem C17_rejected_is_error : forall c s u n ks e, ttype_ok c ->
  own_cache_miss c s u (n, ks) ->
  register (vecs s) (uvec c u n ks) = Some e -> alloc_vec c s u n ks = (s, VErr e).
Proof. exact alloc_rejected. Qed.
Print Assumptions C17_rejected_is_error.

(* Register's verdict: unknown name accepted; known name with another help
   string or other label names rejected as inconsistent; with the same ones
   AlreadyRegistered, naming the existing collector *)
Theorem C17_register_verdict : forall vs v,
  match register vs v with
  | None => forall w, In w vs -> vname w <> vname v
  | Some EInconsistent =>
      exists w, In w vs /\ vname w = vname v /\ (vhelp w <> vhelp v \/ vkeys w <> vkeys v)
  | Some (EAlready i) =>
      nth_error vs i = Some (nth i vs dvec) /\ vname (nth i vs dvec) = vname v /\
      vhelp (nth i vs dvec) = vhelp v /\ vkeys (nth i vs dvec) = vkeys v
  | Some EOther => False
  end.
Proof. exact register_spec. Qed.
Print Assumptions C17_register_verdict.

(* the repaired kind-reuse case: a cached entry of the other flavour is an error *)
Theorem C17_other_flavour_is_error : forall c s u n ks t, fixed c = true -> ttype_ok c ->
  afind mid_eqb (n, ks) (timers s) = Some t ->
  match u with
  | UCounter | UGauge => True
  | UTimer => (if ttype c =? 1 then thist t else tsum t) = None -> alloc_vec c s u n ks = (s, VErr EOther)
  | UHist _ => thist t = None -> alloc_vec c s u n ks = (s, VErr EOther)
  end.
Proof. exact alloc_other_flavour. Qed.
Print Assumptions C17_other_flavour_is_error.

(* ---- several handles on one series (a re-acquired sub-scope, a second root
   scope on the same reporter, Allocate* called again): in EVERY state, a cached
   (name, tags) whose child exists is handed out again as a handle on the SAME
   series, whose value is untouched ... ---- *)
Theorem C17_realloc_same_series : forall c s u n tags v x,
  alloc_vec c s u n (map fst tags) = (s, VOk (Some v)) ->
  afind key_eqb (v, map snd tags) (sers s) = Some x ->
  let r := rstep c s (RAlloc u n tags) in
  snd r = OMetric (MReal (v, map snd tags)) /\
  nth_error (handles (fst r)) (length (handles s)) = Some (MReal (v, map snd tags)) /\
  sers (fst r) = sers s /\ vecs (fst r) = vecs s /\ cblog (fst r) = cblog s.
Proof. exact realloc_same_series. Qed.
Print Assumptions C17_realloc_same_series.

(* ... and reports through any two handles of a series act on that one value
   in the order they are made (sum over all handles / latest report wins /
   observations into the same summary or histogram): no per-handle state *)
Theorem C17_handles_share_series : forall s h1 h2 k x d1 d2,
  nth_error (handles s) h1 = Some (MReal k) -> nth_error (handles s) h2 = Some (MReal k) ->
  afind key_eqb k (sers s) = Some x ->
  let bs := vbounds (nth (fst k) (vecs s) dvec) in
  afind key_eqb k (sers (deliver_h (deliver_h s h1 d1) h2 d2)) = Some (apply bs (apply bs x d1) d2).
Proof. exact handles_share_series. Qed.
Print Assumptions C17_handles_share_series.

(* ---- several reporters on ONE registry (the default registerer; a reporter
   built again on the same registry): no nil dereference either, for every
   interleaving of their operations ---- *)
Theorem C17_conflict_never_nil_multi : forall c, fixed c = true ->
  forall ops t, forallb (fun o => negb (is_nil o)) (snd (xrun c t ops)) = true.
Proof. exact never_nil_multi. Qed.
Print Assumptions C17_conflict_never_nil_multi.

(* a name the registry already knows, first used by a reporter that does not
   have it in its own cache, is REJECTED (AlreadyRegistered or inconsistent) in
   every state: the other reporter's vector - with whatever bounds - is never
   adopted; by C17_callback_gets_error the callback gets the error *)
Theorem C17_known_name_rejected : forall c s u n ks i, ttype_ok c ->
  own_cache_miss c s u (n, ks) -> find_name n (vecs s) = Some i ->
  exists e, alloc_vec c s u n ks = (s, VErr e) /\ (eclass e = 1 \/ eclass e = 2).
Proof. exact known_name_rejected. Qed.
Print Assumptions C17_known_name_rejected.

(* ---------------- non-vacuity ---------------- *)
(* a history with two counters of one family, a gauge and a value histogram
   {1, 2}; records, an intermediate pass, more records *)
Definition ex_cfg : cfg := Cfg true 0 [] (fun _ => true).
Definition F1 : Z := 4607182418800017408.   (* 1.0 *)
Definition F2 : Z := 4611686018427387904.   (* 2.0 *)
Definition F15 : Z := 4609434218613702656.  (* 1.5 *)
Definition ex_hist : list top :=
  [TDecl TUCounter [120] [([97], [49])];
   TOp 0 (AInc 5);
   TDecl TUCounter [120] [([97], [50])];
   TDecl (TUHist KValue [F1; F2] (uppers KValue [F1; F2])) [104] [];
   TOp 2 (ARecV F1); TOp 1 (AInc 7); TPass;
   TOp 2 (ARecV F15); TOp 2 (ARecV F2); TOp 0 (AInc 1); TOp 2 (ARecV F1)].

Example C17_example_consistent : consistent (decls ex_hist).
Proof. apply consistentb_sound. vm_compute. reflexivity. Qed.

Example C17_example_values :
  gathered (rs (trun ex_cfg (ex_hist ++ [TPass]))) [120] [[49]] =
    Some (Vec [120] ([120] ++ sfx_counter) [[97]] PCounter [], SCounter 6) /\
  gathered (rs (trun ex_cfg (ex_hist ++ [TPass]))) [120] [[50]] =
    Some (Vec [120] ([120] ++ sfx_counter) [[97]] PCounter [], SCounter 7) /\
  gathered (rs (trun ex_cfg (ex_hist ++ [TPass]))) [104] [] =
    Some (Vec [104] ([104] ++ sfx_histogram) [] PHistogram [F1; F2], SHist [2; 2] 4) /\
  sum_incs (proj 0 0 ex_hist) = 6 /\
  hsamples KValue ex_hist 2 = [F1; F15; F2; F1] /\
  count_le KValue F1 (hsamples KValue ex_hist 2) = 2 /\
  count_le KValue F2 (hsamples KValue ex_hist 2) = 4.
Proof. vm_compute. repeat split; reflexivity. Qed.

Example C17_example_value_spec : vspec_ok [F1; F2].
Proof. apply vspec_okb_sound. vm_compute. reflexivity. Qed.

(* a duration histogram {1s, 2s}: the oracle seconds 1.0, 2.0, 9.223372036854776e9 *)
Definition ex_dus : list Z := uppers KDuration [1000000000; 2000000000].
Definition ex_secs : list Z := [F1; F2; 4756133310154331797].
Example C17_example_duration_spec :
  hist_ok KDuration ex_dus ex_secs /\ bounds_ok (firstn 2 ex_secs) /\
  sample_ok KDuration ex_dus 1500000000.
Proof.
  split; [|split].
  - apply hist_okb_sound. vm_compute. reflexivity.
  - apply bounds_okb_sound. vm_compute. reflexivity.
  - apply sample_okb_sound. vm_compute. reflexivity.
Qed.

(* a conflict sequence on the repaired reporter: summary timer, then a
   histogram of the same name and tags (error to the callback, no-op metric,
   usable), then a gauge (Prometheus rejects: inconsistent) *)
Example C17_example_conflict :
  let r := rrun ex_cfg (init [])
             [RAlloc UTimer [120] [([107], [118])]; RDeliver 0 (DObserve F1 1);
              RAlloc (UHist [F1; F2]) [120] [([107], [118])]; RDeliver 1 (DObserve F1 3);
              RAlloc UGauge [120] [([107], [118])]; RDeliver 2 (DGauge F2)] in
  snd r = [OMetric (MReal (0%nat, [[118]])); ODone; OMetric MNoop; ODone; OMetric MNoop; ODone] /\
  cblog (fst r) = [3; 2] /\
  gathered (fst r) [120] [[118]] =
    Some (Vec [120] ([120] ++ sfx_summary) [[107]] PSummary [], SSummary 1).
Proof. vm_compute. repeat split; reflexivity. Qed.

(* a gauge allocated twice: 2.0 through the first handle, then 0 through the
   second one; Gather shows 0, and a counter adds up over both its handles *)
Example C17_example_second_handle :
  let r := rrun ex_cfg (init [])
             [RAlloc UGauge [103] [([107], [118])]; RDeliver 0 (DGauge F2);
              RAlloc UGauge [103] [([107], [118])]; RDeliver 1 (DGauge 0);
              RAlloc UCounter [99] []; RDeliver 2 (DCount 5);
              RAlloc UCounter [99] []; RDeliver 3 (DCount 7); RDeliver 2 (DCount 1)] in
  cblog (fst r) = [] /\
  gathered (fst r) [103] [[118]] = Some (Vec [103] ([103] ++ sfx_gauge) [[107]] PGauge [], SGauge 0) /\
  gathered (fst r) [99] [] = Some (Vec [99] ([99] ++ sfx_counter) [] PCounter [], SCounter 13).
Proof. vm_compute. repeat split; reflexivity. Qed.

(* two reporters on one registry: the second one's histogram of the same name
   and tag keys (other bounds) is rejected as AlreadyRegistered (class 1); its
   samples do not reach the first one's histogram *)
Example C17_example_two_reporters :
  let r := xrun ex_cfg (xinit [])
             [XOp (RAlloc (UHist [F1; F2]) [104] [([107], [118])]); XOp (RDeliver 0 (DObserve F1 2));
              XSwitch 1;
              XOp (RAlloc (UHist [F15]) [104] [([107], [118])]); XOp (RDeliver 1 (DObserve F15 5));
              XSwitch 0;
              XOp (RAlloc (UHist [F1; F2]) [104] [([107], [118])]); XOp (RDeliver 2 (DObserve F2 1))] in
  snd r = [OMetric (MReal (0%nat, [[118]])); ODone; OMetric MNoop; ODone; OMetric (MReal (0%nat, [[118]])); ODone] /\
  cblog (xs (fst r)) = [1] /\
  gathered (xs (fst r)) [104] [[118]] =
    Some (Vec [104] ([104] ++ sfx_histogram) [[107]] PHistogram [F1; F2], SHist [2; 1] 3).
Proof. vm_compute. repeat split; reflexivity. Qed.
