(* C03 — each histogram sample lands in the one correct bucket; buckets tile the line.
   Only property theorems here; proofs in Proof/BucketsP.v, Base/Search.v. *)
From Coq Require Import ZArith List Bool Arith Permutation.
From Tally Require Import Base.Search Model.Buckets Proof.BucketsP.
Import ListNotations.
Open Scope Z_scope.

(* The bounds delivered to the reporter tile the line, for every specification
   with finite bounds in any order, with duplicates, of any length (0 included),
   value or duration: one more pair than bounds; first lower = minimum
   representable; last upper = maximum; each lower = previous upper; uppers
   never decrease; the uppers are exactly the given bounds plus the maximum. *)
Theorem C03_pairs_tile : forall k spec,
  finite_spec k spec ->
  let ps := pairs k spec in
  length ps = S (length spec) /\
  fst (nth 0 ps (0, 0)) = bottom k /\
  snd (nth (length spec) ps (0, 0)) = top k /\
  (forall i, (S i < length ps)%nat -> fst (nth (S i) ps (0, 0)) = snd (nth i ps (0, 0))) /\
  (forall i j, (i <= j)%nat -> (j < length ps)%nat ->
     key k (snd (nth i ps (0, 0))) <= key k (snd (nth j ps (0, 0)))) /\
  Permutation (map snd ps) (spec ++ [top k]).
Proof. exact pairs_tile. Qed.
Print Assumptions C03_pairs_tile.

(* Go's sort.Search returns the least index of a monotone predicate *)
Theorem C03_search_least : forall n f, monotone n f ->
  let r := sort_search n f in
  (r <= n)%nat /\ (forall k, (k < r)%nat -> f k = false) /\ ((r < n)%nat -> f r = true).
Proof. exact sort_search_least. Qed.
Print Assumptions C03_search_least.

(* every finite value, -Inf, and every duration is counted in the bucket with
   the smallest upper bound >= the sample (no clamping involved) *)
Theorem C03_sample_bucket : forall k spec v,
  finite_spec k spec -> cmp k v -> key k v <= key k (top k) ->
  let us := uppers k spec in
  let i := record_idx k us v in
  (i < length us)%nat /\ search_idx k us v = i /\
  key k v <= key k (nth i us 0) /\
  (forall j, (j < i)%nat -> key k (nth j us 0) < key k v).
Proof. exact placement. Qed.
Print Assumptions C03_sample_bucket.

(* recording never indexes out of range, for any 64-bit pattern; +Inf goes to the
   last bucket, -Inf to the first, a NaN to exactly one (the last) *)
Theorem C03_total : forall k spec v,
  (record_idx k (uppers k spec) v < length (uppers k spec))%nat /\
  (finite_spec KValue spec -> record_idx KValue (uppers KValue spec) PINF = length spec) /\
  (finite_spec KValue spec -> record_idx KValue (uppers KValue spec) NINF = 0%nat) /\
  (fkey v = None -> record_idx KValue (uppers KValue spec) v = length spec).
Proof.
  intros k spec v. split; [apply record_total, uppers_nonempty|].
  split; [apply pinf_last|]. split; [apply ninf_first|apply nan_last].
Qed.
Print Assumptions C03_total.

(* a sample of the histogram's kind increments exactly one bucket, by one *)
Theorem C03_one_bucket : forall h v, wf h ->
  let h' := fst (hstep h (HRec (hk h) v)) in
  let i := record_idx (hk h) (hus h) v in
  (i < length (hus h))%nat /\
  forall j, nth j (hcnt h') 0 = nth j (hcnt h) 0 + (if Nat.eqb j i then 1 else 0).
Proof. exact one_bucket. Qed.
Print Assumptions C03_one_bucket.

(* over every record/report history, what the passes delivered plus what is
   still pending equals the number of accepted samples *)
Theorem C03_conservation : forall k spec ops,
  let '(hf, ds) := hrun (hnew k spec) ops in
  sumz (map delivered_samples ds) + sumz (hcnt hf) = accepted k ops.
Proof.
  intros k spec ops. pose proof (conservation (hnew k spec) ops (hnew_wf k spec)) as Hc.
  destruct (hrun (hnew k spec) ops) as [hf ds]. destruct Hc as [Hc _].
  cbn [hnew hcnt hk] in Hc. rewrite sumz_repeat0 in Hc. exact Hc.
Qed.
Print Assumptions C03_conservation.

(* a value histogram ignores durations and vice versa *)
Theorem C03_type_guard : forall h k v, kind_eqb k (hk h) = false -> hstep h (HRec k v) = (h, []).
Proof. exact type_guard. Qed.
Print Assumptions C03_type_guard.

(* non-vacuity: the unsorted specification {2, 1, 1} with -0.0; samples at a
   bound, above all bounds, and +Inf *)
Example C03_example :
  let spec := [4611686018427387904; 4607182418800017408; 4607182418800017408] in   (* 2, 1, 1 *)
  uppers KValue spec = [4607182418800017408; 4607182418800017408; 4611686018427387904; MAXF] /\
  record_idx KValue (uppers KValue spec) 4607182418800017408 = 0%nat /\           (* 1.0 -> first *)
  record_idx KValue (uppers KValue spec) 4613937818241073152 = 3%nat /\           (* 3.0 -> last *)
  record_idx KValue (uppers KValue spec) PINF = 3%nat.
Proof. vm_compute. repeat split. Qed.

Example C03_spec_finite : finite_spec KValue [4611686018427387904; 4607182418800017408; 9223372036854775808].
Proof.
  repeat constructor; try (vm_compute; discriminate).
Qed.
