(* C05 — equal identities share one scope and metric; different identities
   never merge; the public map-key function.
   Only the property theorems; proofs are in Proof/KeyGenP.v, Proof/DerivP.v.
   [key] is keyForPrefixedStringMaps as repaired by
   patches/fix-C05-empty-key.patch; the pinned writer is refuted in
   Refuted/C05_refuted.v together with the delimiter witnesses (F05b). *)
From Coq Require Import ZArith List Bool Permutation.
From Tally Require Import Base.ObsCore Model.KeyGen Model.Deriv Proof.ParamsOkKey Proof.KeyGenP Proof.DerivP.
Import ListNotations.
Open Scope Z_scope.

(* ---------------- the key function ---------------- *)

(* The key does not depend on the order in which Go enumerates any of the maps
   (a map = association list with distinct keys). *)
Theorem C05_key_perm_invariant : forall p maps maps',
  Forall wf_map maps -> Forall2 (@Permutation _) maps maps' -> key p maps = key p maps'.
Proof. exact key_perm_invariant. Qed.
Print Assumptions C05_key_perm_invariant.

Example C05_key_perm_invariant_ex :
  key [112] [[([98],[49]); ([97],[50])]; [([97],[51])]] = key [112] [[([97],[50]); ([98],[49])]; [([97],[51])]]
  /\ key [112] [[([98],[49]); ([97],[50])]; [([97],[51])]] = [112; 43; 97; 61; 51; 44; 98; 61; 49].
Proof. vm_compute. split; reflexivity. Qed.

(* The key is: prefix '+' (when the prefix is not empty), then every distinct
   key once, in increasing byte order, as k=v joined by ',', where v is the
   value of the rightmost map holding k. *)
Theorem C05_key_rightmost : forall p maps,
  key p maps = kprefix p ++ join (map item (canon maps)) /\
  ssorted (canon_keys maps) /\
  (forall k, In k (canon_keys maps) <-> exists m, In m maps /\ In k (map fst m)) /\
  (forall ms m k, eff (ms ++ [m]) k = match lookup k m with Some v => Some v | None => eff ms k end) /\
  (forall k, eff [] k = None).
Proof. exact c05_key_rightmost. Qed.
Print Assumptions C05_key_rightmost.

(* ... and agrees with the key of the merged map (mergeRightTags folded over the maps) *)
Theorem C05_key_merged : forall p maps, Forall wf_map maps -> key p maps = key p [merge maps].
Proof. exact key_merged. Qed.
Print Assumptions C05_key_merged.

Example C05_key_merged_ex :
  let maps := [[([97],[49]); ([99],[48])]; [([98],[50]); ([97],[51])]] in
  Forall wf_map maps /\ merge maps = [([97],[51]); ([99],[48]); ([98],[50])] /\
  key [] maps = [97;61;51;44;98;61;50;44;99;61;48].
Proof.
  cbv zeta. split; [|split; vm_compute; reflexivity].
  repeat constructor; cbn; intuition discriminate.
Qed.

(* the key depends only on the prefix and the effective bindings *)
Theorem C05_same_identity_same_key : forall p maps maps',
  (forall k, eff maps k = eff maps' k) -> key p maps = key p maps'.
Proof. exact key_eff_ext. Qed.
Print Assumptions C05_same_identity_same_key.

(* Injectivity: for ANY prefixes, tag keys free of '+' ',' '=' (the empty key
   included) and tag values free of '+' ',': equal keys imply equal prefixes
   and equal effective binding sets. *)
Theorem C05_key_injective : forall p p' maps maps',
  Forall clean_map maps -> Forall clean_map maps' ->
  key p maps = key p' maps' -> p = p' /\ forall k, eff maps k = eff maps' k.
Proof. exact key_injective. Qed.
Print Assumptions C05_key_injective.

Example C05_key_injective_ex :
  Forall clean_map [[([], [120]); ([97], [98; 61; 99])]] /\
  key [112; 43; 113] [[([], [120]); ([97], [98; 61; 99])]] = [112;43;113;43;61;120;44;97;61;98;61;99].
Proof.
  split; [|vm_compute; reflexivity].
  pose proof plus_ne_comma. pose proof plus_ne_eqs. pose proof comma_ne_eqs.
  repeat constructor; cbn; unfold kclean, vclean; cbn;
    repeat split; intros Hh; repeat (destruct Hh as [Hh|Hh]; try (vm_compute in Hh; discriminate)); auto.
Qed.

(* ---------------- scopes and metrics ---------------- *)

(* Over every history: two derivations from the root (anywhere in a history
   of other calls) that denote the same prefix and the same tag set return the
   same scope id, and asking that scope for a metric of the same kind and
   (sanitized) name returns the same metric id, whatever happens in between.
   Identities are those after sanitization; for inputs the sanitizer leaves
   unchanged they are the raw ones (C05_tagged_order_independent). *)
Theorem C05_same_identity_same_scope : forall c rp rt h1 p1 h2 p2,
  ok_map c rt -> ok_hist c h1 -> ok_prog c p1 -> ok_hist c h2 -> ok_prog c p2 ->
  spec_prefix c (sname (csan c) rp) p1 = spec_prefix c (sname (csan c) rp) p2 ->
  tags_eq (spec_tags c (san_map (csan c) rt) p1) (spec_tags c (san_map (csan c) rt) p2) ->
  let d1 := derive c (run c (init c rp rt) h1) 0 p1 in
  let d2 := derive c (run c (fst d1) h2) 0 p2 in
  snd d1 = snd d2 /\
  forall kind n n' h3, ok_hist c h3 -> sname (csan c) n = sname (csan c) n' ->
    let g1 := step c (fst d2) (CMet (snd d1) kind n) in
    let g2 := step c (run c (fst g1) h3) (CMet (snd d2) kind n') in
    snd g1 = snd g2.
Proof. exact c05_same_identity_same_scope. Qed.
Print Assumptions C05_same_identity_same_scope.

(* Tagged twice with the same map returns the scope itself *)
Theorem C05_tagged_idempotent : forall c rp rt h p m,
  ok_map c rt -> ok_hist c h -> ok_prog c p -> ok_map c m ->
  let s := run c (init c rp rt) h in
  snd (derive c s 0 (p ++ [DTag m])) =
  snd (derive c (fst (derive c s 0 (p ++ [DTag m]))) 0 (p ++ [DTag m; DTag m])).
Proof. exact c05_tagged_idempotent. Qed.
Print Assumptions C05_tagged_idempotent.

(* Tagged is independent of the order and grouping in which tag assignments
   are applied, and commutes with SubScope: two programs through
   sanitizer-fixed maps with the same subscope names (in order) and the same
   effective bindings return the same scope id (and hence the same metrics). *)
Theorem C05_tagged_order_independent : forall c rp rt h1 p1 h2 p2,
  ok_map c rt -> ok_hist c h1 -> ok_prog c p1 -> ok_hist c h2 -> ok_prog c p2 ->
  Forall (fun m => fixed_map c m /\ wf_map m) (tag_maps p1) ->
  Forall (fun m => fixed_map c m /\ wf_map m) (tag_maps p2) ->
  map (sname (csan c)) (sub_names p1) = map (sname (csan c)) (sub_names p2) ->
  (forall k, eff (tag_maps p1) k = eff (tag_maps p2) k) ->
  let d1 := derive c (run c (init c rp rt) h1) 0 p1 in
  let d2 := derive c (run c (fst d1) h2) 0 p2 in
  snd d1 = snd d2.
Proof. exact c05_tagged_order_independent. Qed.
Print Assumptions C05_tagged_order_independent.

Example C05_tagged_order_independent_ex :
  let c := mk_cfg id_san [] in
  let p1 := [DTag [([97],[49])]; DSub [115]; DTag [([98],[50]); ([97],[51])]] in
  let p2 := [DSub [115]; DTag [([97],[51]); ([98],[50])]] in
  let d1 := derive c (init c [112] []) 0 p1 in
  let d2 := derive c (fst d1) 0 p2 in
  snd d1 = 3%nat /\ snd d2 = 3%nat /\ length (scopes (fst d2)) = 5%nat.
Proof. vm_compute. repeat split; reflexivity. Qed.

(* the hypotheses of the scope theorems on that instance: delimiter-free,
   sanitizer-fixed, well-formed maps, equal names, equal effective bindings *)
Example C05_hypotheses_ex :
  let c := mk_cfg id_san [] in
  let p1 := [DTag [([97],[49])]; DSub [115]; DTag [([98],[50]); ([97],[51])]] in
  let p2 := [DSub [115]; DTag [([97],[51]); ([98],[50])]] in
  ok_prog c p1 /\ ok_prog c p2 /\
  Forall (fun m => fixed_map c m /\ wf_map m) (tag_maps p1) /\
  Forall (fun m => fixed_map c m /\ wf_map m) (tag_maps p2) /\
  map (sname (csan c)) (sub_names p1) = map (sname (csan c)) (sub_names p2) /\
  (forall k, eff (tag_maps p1) k = eff (tag_maps p2) k).
Proof.
  cbv zeta. split; [|split; [|split; [|split; [|split]]]].
  - unfold ok_prog, ok_dop, ok_map, kclean, vclean. repeat constructor; cbn;
      intros Hh; repeat (destruct Hh as [Hh|Hh]; try (vm_compute in Hh; discriminate)); auto.
  - unfold ok_prog, ok_dop, ok_map, kclean, vclean. repeat constructor; cbn;
      intros Hh; repeat (destruct Hh as [Hh|Hh]; try (vm_compute in Hh; discriminate)); auto.
  - unfold fixed_map, wf_map. cbn. repeat constructor; cbn; intuition discriminate.
  - unfold fixed_map, wf_map. cbn. repeat constructor; cbn; intuition discriminate.
  - reflexivity.
  - intro k. unfold eff. cbn. destruct (beq k [97]) eqn:E1; destruct (beq k [98]) eqn:E2; try reflexivity.
    apply beq_eq in E1. apply beq_eq in E2. subst. discriminate.
Qed.

Example C05_tagged_idempotent_ex :
  let c := mk_cfg id_san [] in
  let m := [([97],[49]); ([98],[50])] in
  let d1 := derive c (init c [112] []) 0 [DSub [115]; DTag m] in
  let d2 := derive c (fst d1) 0 [DSub [115]; DTag m; DTag m] in
  let d3 := derive c (fst d2) (snd d2) [DTag [([98],[50])]] in
  snd d1 = 2%nat /\ snd d2 = 2%nat /\ snd d3 = 2%nat /\ length (scopes (fst d3)) = 3%nat.
Proof. vm_compute. repeat split; reflexivity. Qed.

(* Asking one scope twice for a metric of the same kind and (sanitized) name
   returns the same metric, whatever happens in between. *)
Theorem C05_same_scope_same_metric : forall c rp rt h id sc kind n n' h2,
  ok_map c rt -> ok_hist c h -> ok_hist c h2 ->
  let s := run c (init c rp rt) h in
  nth_error (scopes s) id = Some sc ->
  sname (csan c) n = sname (csan c) n' ->
  let g1 := step c s (CMet id kind n) in
  let g2 := step c (run c (fst g1) h2) (CMet id kind n') in
  snd g1 = snd g2.
Proof. exact c05_same_scope_same_metric. Qed.
Print Assumptions C05_same_scope_same_metric.

(* Derivations whose prefix or tag set differ never share a scope, nor a
   metric: equal scope ids force equal identities, equal metric ids force the
   same scope, kind and name; and every metric is delivered under the name and
   tags of its own scope only (C04_name_spec / C04_tags_spec). *)
Theorem C05_distinct_never_merge : forall c rp rt h1 p1 h2 p2,
  ok_map c rt -> ok_hist c h1 -> ok_prog c p1 -> ok_hist c h2 -> ok_prog c p2 ->
  (spec_prefix c (sname (csan c) rp) p1 <> spec_prefix c (sname (csan c) rp) p2 \/
   ~ tags_eq (spec_tags c (san_map (csan c) rt) p1) (spec_tags c (san_map (csan c) rt) p2)) ->
  let d1 := derive c (run c (init c rp rt) h1) 0 p1 in
  let d2 := derive c (run c (fst d1) h2) 0 p2 in
  snd d1 <> snd d2 /\
  forall kind1 n1 kind2 n2 h3, ok_hist c h3 ->
    let g1 := step c (fst d2) (CMet (snd d1) kind1 n1) in
    let g2 := step c (run c (fst g1) h3) (CMet (snd d2) kind2 n2) in
    snd g1 <> snd g2.
Proof. exact c05_distinct_never_merge. Qed.
Print Assumptions C05_distinct_never_merge.

Example C05_distinct_never_merge_ex :
  let c := mk_cfg id_san [] in
  let d1 := derive c (init c [] []) 0 [DTag [([97],[49])]] in
  let d2 := derive c (fst d1) 0 [DTag [([97],[50])]] in
  snd d1 = 1%nat /\ snd d2 = 2%nat /\
  snd (step c (fst d2) (CMet 1 1 [109])) = 0%nat /\
  snd (step c (fst (step c (fst d2) (CMet 1 1 [109]))) (CMet 2 1 [109])) = 1%nat.
Proof. vm_compute. repeat split; reflexivity. Qed.

(* on maps without the empty key the pinned key writer and the repaired one agree *)
Theorem C05_pinned_agrees_without_empty_key : forall p maps,
  ~ In [] (keys_of maps) -> key_pinned p maps = key p maps.
Proof. exact key_pinned_nonempty. Qed.
Print Assumptions C05_pinned_agrees_without_empty_key.
