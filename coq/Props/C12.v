(* C12 — no M3 datagram exceeds MaxPacketSizeBytes; filling a packet never
   drops or duplicates a metric.  Only the property theorems are here; the
   proofs are in Proof/M3BatchP.v, on top of the byte-exact encoder model of
   C16 (Model/Thrift.v) and its theorems (Proof/ThriftC16P.v).

   Model/M3Batch.v: [alloc] a metric handle (kind, name, own tags, for a
   histogram bucket its bucket id and range strings); [wire a v ts] the metric
   as process() appends it to a batch (bucket tags included) with value v and
   timestamp ts; [charge] the size Allocate* measured for it; [free_bytes]
   NewReporter's freeBytes; [Report a v ts | Flush] what the producers queue;
   [emitted] the batches the loop of process() sends for such a history (then
   Close); [datagram] one EmitMetricBatchV2 message.  pc / pw are the states of
   the counting and of the sending protocol object (irrelevant, by C16).

   The theorems are about the REPAIRED tree (patches/fix-C12-packet-size.patch):
   the allowance m3_emit_overhead is the constant the translator extracts from
   m3/reporter.go, and Proof/ParamsOkM3.v requires 33 <= m3_emit_overhead; the
   pinned tree (19; bucket tags charged by their string lengths) is refuted in
   Refuted/C12_refuted.v. *)
From Coq Require Import ZArith List Bool Lia.
From Tally Require Import Base.ObsCore Gen.Params Model.Varint Model.Thrift Model.M3Batch
  Proof.VarintP Proof.ThriftP Proof.M3BatchP Proof.ParamsOkM3.
Import ListNotations.
Open Scope Z_scope.

(* ---- for every metric as it is queued (counter, gauge, timer, histogram bucket with its two
   extra tags), every name and tag set, every reported value (any int64, any double pattern for a
   gauge) and every timestamp: the charged size is at least the encoded length; both protocols ---- *)
Theorem C12_charged_ge_actual : forall P, P = compact \/ P = binary -> forall idn bn pc pw a v ts,
  (a_kind a = 1 \/ a_kind a = 2 \/ a_kind a = 3) ->
  (if a_kind a =? 2 then bits64 v else int64 v) -> int64 ts ->
  Z.of_nat (length (encode_metric P pw (placeholder (a_kind a) (a_name a) (wire_tags idn bn a)))) < 2147483648 ->
  Z.of_nat (length (encode_metric P pw (wire idn bn a v ts))) <= charge P idn bn pc a.
Proof. intros P HP idn bn pc pw a v ts Hk Hv Hts Hl. apply charged_ge_actual_thm; [exact HP|]. exact (conj Hk (conj Hv (conj Hts Hl))). Qed.
Print Assumptions C12_charged_ge_actual.

(* ---- the envelope: for every batch (any metrics, any number of them), any common tags and
   every sequence id, the message needs at most m3_emit_overhead bytes beyond the serialized empty
   batch with the common tags and the serialized metrics ---- *)
Theorem C12_envelope_le_allowance : forall P, P = compact \/ P = binary ->
  forall pw pb seq ms common,
  Z.of_nat (length (encode_emit P pw seq (Batch ms common))) <=
  m3_emit_overhead + Z.of_nat (length (encode_batch P pb (Batch [] common))) + sum_len P ms.
Proof. intros P HP. apply envelope_le_thm; [exact HP | apply m3_emit_overhead_ok]. Qed.
Print Assumptions C12_envelope_le_allowance.

(* what the envelope is exactly: 33 bytes in Binary; in Compact 23, plus the bytes of the
   sequence id beyond the first (0..4), plus the bytes of the list header beyond the first (none up
   to 14 metrics, the varint of the count from 15 on): between 23 and 32 *)
Theorem C12_envelope_exact : forall seq ms common,
  Z.of_nat (length (e_emit binary seq (Batch ms common))) =
    33 + Z.of_nat (length (e_batch binary (Batch [] common))) + sum_len binary ms /\
  Z.of_nat (length (e_emit compact seq (Batch ms common))) =
    23 + (Z.of_nat (length (varint32 seq)) - 1) + compact_lb_extra (Z.of_nat (length ms)) +
    Z.of_nat (length (e_batch compact (Batch [] common))) + sum_len compact ms /\
  23 + Z.of_nat (length (e_batch compact (Batch [] common))) + sum_len compact ms
    <= Z.of_nat (length (e_emit compact seq (Batch ms common)))
    <= 32 + Z.of_nat (length (e_batch compact (Batch [] common))) + sum_len compact ms.
Proof. intros. split; [apply envelope_binary | split; [apply envelope_compact | apply envelope_compact_bounds]]. Qed.
Print Assumptions C12_envelope_exact.

(* ---- every datagram is at most MaxPacketSizeBytes: for both protocols, all common tags, all
   bucket tag names, every MaxPacketSizeBytes (up to 2^30; the UDP transport takes 65000) that
   leaves freeBytes > 0, every history of reports and flushes in which every single metric's
   charge is at most freeBytes, and every sequence id ---- *)
Theorem C12_datagram_bound : forall P, P = compact \/ P = binary ->
  forall idn bn pc pw common maxpkt ops,
  0 < maxpkt <= 1073741824 ->
  Z.of_nat (length (encode_batch P pw (Batch [] (Some common)))) <= 1073741824 ->
  0 < free_bytes P pc m3_emit_overhead maxpkt common ->
  (forall a v ts, In (Report a v ts) ops ->
     (a_kind a = 1 \/ a_kind a = 2 \/ a_kind a = 3) /\
     (if a_kind a =? 2 then bits64 v else int64 v) /\ int64 ts /\
     Z.of_nat (length (encode_metric P pw (placeholder (a_kind a) (a_name a) (wire_tags idn bn a)))) < 2147483648 /\
     charge P idn bn pc a <= free_bytes P pc m3_emit_overhead maxpkt common) ->
  forall mets seq, In mets (emitted P idn bn pc m3_emit_overhead maxpkt common ops) ->
  Z.of_nat (length (datagram P pw seq common mets)) <= maxpkt.
Proof.
  intros P HP idn bn pc pw common maxpkt ops Hm Hc Hf Hops.
  apply datagram_bound_thm; try assumption; [apply m3_emit_overhead_ok|].
  apply Forall_forall. intros [a v ts|] Hin; cbn [op_ok]; [|exact I].
  destruct (Hops a v ts Hin) as (H1 & H2 & H3 & H4 & H5). exact (conj (conj H1 (conj H2 (conj H3 H4))) H5).
Qed.
Print Assumptions C12_datagram_bound.

(* in particular for every size the UDP transport accepts *)
Theorem C12_datagram_bound_udp : forall P, P = compact \/ P = binary ->
  forall idn bn pc pw common maxpkt ops,
  0 < maxpkt <= udp_max_length ->
  0 < free_bytes P pc m3_emit_overhead maxpkt common ->
  Z.of_nat (length (encode_batch P pw (Batch [] (Some common)))) <= 1073741824 ->
  Forall (op_ok P idn bn pc pw (free_bytes P pc m3_emit_overhead maxpkt common)) ops ->
  forall mets seq, In mets (emitted P idn bn pc m3_emit_overhead maxpkt common ops) ->
  Z.of_nat (length (datagram P pw seq common mets)) <= maxpkt.
Proof.
  intros P HP idn bn pc pw common maxpkt ops Hm Hf Hc Hops. pose proof m3_packet_limits_ok.
  apply datagram_bound_thm; try assumption; [apply m3_emit_overhead_ok | lia].
Qed.
Print Assumptions C12_datagram_bound_udp.

(* ---- filling a packet never drops or duplicates a metric: the emitted batches, concatenated,
   are exactly the reported metrics in their order, and no batch is empty; for every charging
   function, every budget, flush markers at arbitrary positions ---- *)
Theorem C12_no_drop_no_dup : forall idn bn chg free ops,
  concat (emitted_with idn bn chg free ops) = reported_metrics idn bn ops /\
  ~ In [] (emitted_with idn bn chg free ops).
Proof. exact no_drop_no_dup_thm. Qed.
Print Assumptions C12_no_drop_no_dup.

(* the same for the loop in any state: nothing of the open batch or of the queue is lost *)
Theorem C12_loop_conserves : forall free q mets bytes,
  concat (process free mets bytes q) = List.rev mets ++ metrics_of q.
Proof. intros. apply process_concat. Qed.
Print Assumptions C12_loop_conserves.

(* the metric that does not fit closes the open batch and starts the next one *)
Theorem C12_overflow_opens_next : forall free mets bytes m sz q,
  mets <> [] -> wrap32 (bytes + sz) > free ->
  exists b rest, process free mets bytes (QMet m sz :: q) = List.rev mets :: (m :: b) :: rest.
Proof. exact overflow_opens_next. Qed.
Print Assumptions C12_overflow_opens_next.

(* a flush marker closes the open batch *)
Theorem C12_flush_closes : forall free mets bytes q, mets <> [] ->
  process free mets bytes (QFlush :: q) = List.rev mets :: process free [] 0 q.
Proof. exact flush_closes. Qed.
Print Assumptions C12_flush_closes.

(* every batch is within the byte budget when every single metric is (the loop on its own) *)
Theorem C12_batch_within_budget : forall (len : metric -> Z), (forall m, 0 <= len m) ->
  forall free q, 2 * free < 2147483648 -> 0 <= free -> Forall (item_ok len free) q ->
  forall b, In b (process free [] 0 q) -> total len b <= free.
Proof. intros len Hl free q H2 H0 Hq b Hb. eapply process_bound; try eassumption. cbn; lia. Qed.
Print Assumptions C12_batch_within_budget.

(* ---- non-vacuity: a concrete reporter (common tags service=svc, env=test; default bucket tag
   names; MaxPacketSizeBytes 200) and a history with all kinds, extreme values, a histogram bucket
   and a flush ---- *)
Definition ex_common : list tag := [Tag [115;101;114;118;105;99;101] [115;118;99]; Tag [101;110;118] [116;101;115;116]].
Definition ex_c : alloc := Alloc 1 [99] None None.
Definition ex_g : alloc := Alloc 2 [103] (Some [Tag [107] [118]]) None.
Definition ex_t : alloc := Alloc 3 [116;105;109;101;114] None None.
Definition ex_hb : alloc :=
  Alloc 1 [104] (Some [Tag [97] [98]]) (Some ([48;48;48;49], [48;46;48;48;48;48;48;48;45;49;46;48;48;48;48;48;48])).
Definition ex_ts : Z := 1700000000000000000.
Definition ex_ops : list rop :=
  [Report ex_c 5 ex_ts; Report ex_g MAXF64 ex_ts; Report ex_hb 7 ex_ts; Flush; Flush; Report ex_t MAXI64 ex_ts;
   Report ex_c (-9223372036854775808) ex_ts; Report ex_c MAXI64 MAXI64; Report ex_hb 1 ex_ts; Report ex_g 0 0].

Ltac ex_range := vm_compute; split; [discriminate | reflexivity].
Ltac ex_report :=
  split; [ split; [ first [left; reflexivity | right; left; reflexivity | right; right; reflexivity]
                  | split; [ ex_range | split; [ ex_range | vm_compute; reflexivity ] ] ]
         | vm_compute; discriminate ].

Example C12_example_hypotheses_compact :
  0 < free_bytes compact cps0 m3_emit_overhead 200 ex_common /\
  Forall (op_ok compact m3_bucket_id_name m3_bucket_name cps0 cps0 (free_bytes compact cps0 m3_emit_overhead 200 ex_common)) ex_ops.
Proof.
  split; [vm_compute; reflexivity|].
  unfold ex_ops; repeat (apply Forall_cons; [first [exact I | ex_report]|]); apply Forall_nil.
Qed.
Example C12_example_hypotheses_binary :
  0 < free_bytes binary tt m3_emit_overhead 400 ex_common /\
  Forall (op_ok binary m3_bucket_id_name m3_bucket_name tt tt (free_bytes binary tt m3_emit_overhead 400 ex_common)) ex_ops.
Proof.
  split; [vm_compute; reflexivity|].
  unfold ex_ops; repeat (apply Forall_cons; [first [exact I | ex_report]|]); apply Forall_nil.
Qed.

(* freeBytes is 135 (Compact, limit 200) and 303 (Binary, limit 400); the charges are 41/41/45/95 and
   64/89/68/154; the two flush markers close the batch [c; g] ++ [hb] after hb did not fit, and
   emit nothing the second time *)
Example C12_example_batches :
  map (fun b => length b) (emitted compact m3_bucket_id_name m3_bucket_name cps0 m3_emit_overhead 200 ex_common ex_ops)
    = [2; 1; 3; 1; 1]%nat /\
  map (fun b => length (datagram compact cps0 1 ex_common b))
      (emitted compact m3_bucket_id_name m3_bucket_name cps0 m3_emit_overhead 200 ex_common ex_ops)
    = [126; 140; 180; 140; 87]%nat /\
  map (fun b => length b) (emitted binary m3_bucket_id_name m3_bucket_name tt m3_emit_overhead 400 ex_common ex_ops)
    = [2; 1; 3; 2]%nat /\
  map (fun b => length (datagram binary tt (-1) ex_common b))
      (emitted binary m3_bucket_id_name m3_bucket_name tt m3_emit_overhead 400 ex_common ex_ops)
    = [250; 251; 293; 340]%nat.
Proof. vm_compute. repeat split. Qed.

Example C12_example_overflow : exists b rest,
  process 135 [wire m3_bucket_id_name m3_bucket_name ex_c 5 ex_ts] 41
          [QMet (wire m3_bucket_id_name m3_bucket_name ex_hb 7 ex_ts) 95; QFlush] =
  [wire m3_bucket_id_name m3_bucket_name ex_c 5 ex_ts] :: (wire m3_bucket_id_name m3_bucket_name ex_hb 7 ex_ts :: b) :: rest.
Proof. eexists _, _. vm_compute. reflexivity. Qed.
