(* C02 — gauge reports carry the latest value, never a stale or invented one.
   Only the property theorems; proofs in Proof/GaugeP.v.  Values are 64-bit
   patterns (opaque integers here: NaN payloads, +-0, +-Inf, subnormals are just
   numbers), any number of reporting threads with any number of passes, any
   schedule.  [stored s] = the values passed to Update so far (newest first),
   [flags s] = the number of completed updates, [log s] = deliveries (newest first). *)
From Coq Require Import ZArith List Bool Arith.
From Tally Require Import Model.Gauge Proof.GaugeP Model.Gauge2 Proof.Gauge2P.
Import ListNotations.

Theorem C02_delivered_was_updated : forall ths sched,
  (forall t, In t ths -> flagging t = false /\ loading t = false) ->
  let s := run (init ths) sched in
  forall v, In v (log s) -> In v (stored s).
Proof. intros ths sched H s. exact (proj1 (gauge_all ths sched H)). Qed.
Print Assumptions C02_delivered_was_updated.

Theorem C02_deliveries_le_updates : forall ths sched,
  (forall t, In t ths -> flagging t = false /\ loading t = false) ->
  let s := run (init ths) sched in
  length (log s) <= flags s.
Proof. intros ths sched H s. exact (proj1 (proj2 (gauge_all ths sched H))). Qed.
Print Assumptions C02_deliveries_le_updates.

(* freshness: in any reachable state where updates have stopped, no reporter is
   between its swap and its load, and the flag is down (i.e. the passes that
   overlapped the last update have completed and one pass that started after it
   has run), the most recent delivery is the last update *)
Theorem C02_fresh_after_quiescence : forall ths sched,
  (forall t, In t ths -> flagging t = false /\ loading t = false) ->
  let s := run (init ths) sched in
  alldone s -> nload s = 0 -> updated s = false -> stored s <> [] ->
  hd_error (log s) = Some (hd 0%Z (stored s)).
Proof. intros ths sched H s. exact (proj2 (proj2 (gauge_all ths sched H))). Qed.
Print Assumptions C02_fresh_after_quiescence.

(* a gauge that has not been updated since it was last delivered is not delivered again *)
Theorem C02_no_redelivery : forall s1 sched,
  alldone s1 -> nload s1 = 0 -> updated s1 = false -> log (run s1 sched) = log s1.
Proof. exact no_redelivery. Qed.
Print Assumptions C02_no_redelivery.

(* non-vacuity: one updater (7 then 9), two reporters; a schedule in which a pass
   overlaps the second update; final state quiescent: the overlapping pass delivered the newer value 9, and so did the later pass *)
Example C02_example :
  let s := run (init [TU (UIdle [7; 9]%Z); TR (RIdle 2); TR (RIdle 2)])
               [0; 0; 1; 0; 1; 0; 2; 2; 1; 2] in
  log s = [9; 9]%Z /\ updated s = false /\ nload s = 0 /\ flags s = 2.
Proof. vm_compute. repeat split. Qed.

(* ---- the delivery split from the load (Model/Gauge2.v) ----
   In the model above "load curr; deliver" is one step, so [log] is the order of the loads.  In the
   code the pass loads the value and then calls the reporter, which records it later; a pass parked
   inside the reporter holds its value in its hands ([R2Deliver n v]).  [loads] is the log of the
   model above, [dlog] what the reporter has received, in the order it received it.  The split model
   erases to the model above step for step, the delivery steps dropping out: *)
Theorem C02_split_refines : forall sched s, base (run2 s sched) = run (base s) (bsched s sched).
Proof. exact base_run. Qed.
Print Assumptions C02_split_refines.

Theorem C02_split_delivered_was_updated : forall ths, forallb init_thr2 ths = true -> forall sched,
  let s := run2 (init2 ths) sched in forall v, In v (dlog s) -> In v (stored2 s).
Proof. exact delivered2_was_updated. Qed.
Print Assumptions C02_split_delivered_was_updated.

Theorem C02_split_deliveries_le_updates : forall ths, forallb init_thr2 ths = true -> forall sched,
  let s := run2 (init2 ths) sched in length (dlog s) <= flags2 s.
Proof. exact deliveries2_le_updates. Qed.
Print Assumptions C02_split_deliveries_le_updates.

(* freshness, for every schedule, also with passes parked inside the reporter: once the updates have
   stopped, no pass is between its swap and its load and the flag is down, the newest load is the last
   update, and the reporter has received that value or a pass holds exactly that value in its hands;
   when no pass holds anything the reporter has received it *)
Theorem C02_split_fresh : forall ths, forallb init_thr2 ths = true -> forall sched,
  let s := run2 (init2 ths) sched in
  alldone2 s -> nload2 s = 0 -> updated2 s = false -> stored2 s <> [] ->
  let last := hd 0%Z (stored2 s) in
  hd_error (loads s) = Some last /\
  (In last (dlog s) \/ exists n, In (T2R (R2Deliver n last)) (thr2 s)) /\
  (ndeliv s = 0 -> In last (dlog s)).
Proof. exact fresh2. Qed.
Print Assumptions C02_split_fresh.

Theorem C02_split_no_redelivery : forall s1 sched,
  J s1 -> alldone2 s1 -> nload2 s1 = 0 -> ndeliv s1 = 0 -> updated2 s1 = false ->
  dlog (run2 s1 sched) = dlog s1.
Proof. exact no_redelivery2. Qed.
Print Assumptions C02_split_no_redelivery.

(* non-vacuity: updates 7 then 9; pass 1 loads 7 and is parked inside the reporter; the second update;
   pass 2 starts afterwards and completes: the reporter has received 9, pass 1 still holds 7 *)
Example C02_split_example :
  let s := run2 (init2 [T2U (UIdle [7; 9]%Z); T2R (R2Idle 1); T2R (R2Idle 1)])
                [0; 0; 1; 1; 0; 0; 2; 2; 2] in
  dlog s = [9]%Z /\ loads s = [9; 7]%Z /\ nth_error (thr2 s) 1 = Some (T2R (R2Deliver 0 7%Z)) /\
  updated2 s = false /\ nload2 s = 0 /\ ndeliv s = 1 /\ J s.
Proof. cbv zeta. repeat (split; [vm_compute; reflexivity|]). apply j_run, j_init. reflexivity. Qed.
