(* C02 — gauge reports carry the latest value, never a stale or invented one.
   Only the property theorems; proofs in Proof/GaugeP.v.  Values are 64-bit
   patterns (opaque integers here: NaN payloads, +-0, +-Inf, subnormals are just
   numbers), any number of reporting threads with any number of passes, any
   schedule.  [stored s] = the values passed to Update so far (newest first),
   [flags s] = the number of completed updates, [log s] = deliveries (newest first). *)
From Coq Require Import ZArith List Bool Arith.
From Tally Require Import Model.Gauge Proof.GaugeP.
Import ListNotations.

Theorem C02_delivered_was_updated : forall ths sched,
  (forall t, In t ths -> flagging t = false /\ loading t = false) ->
  let s := run (init ths) sched in
  forall v, In v (log s) -> In v (stored s).
Proof. intros ths sched H s. exact (proj1 (gauge_all ths sched H)). Qed.
Print Assumptions C02_delivered_was_updated.

Theorem C02_deliveries_le_updates : forall ths sched,
  (forall t, In t ths -> flagging t = false /\ loading t = false) ->
  let s := run (init ths) sched in
  length (log s) <= flags s.
Proof. intros ths sched H s. exact (proj1 (proj2 (gauge_all ths sched H))). Qed.
Print Assumptions C02_deliveries_le_updates.

(* freshness: in any reachable state where updates have stopped, no reporter is
   between its swap and its load, and the flag is down (i.e. the passes that
   overlapped the last update have completed and one pass that started after it
   has run), the most recent delivery is the last update *)
Theorem C02_fresh_after_quiescence : forall ths sched,
  (forall t, In t ths -> flagging t = false /\ loading t = false) ->
  let s := run (init ths) sched in
  alldone s -> nload s = 0 -> updated s = false -> stored s <> [] ->
  hd_error (log s) = Some (hd 0%Z (stored s)).
Proof. intros ths sched H s. exact (proj2 (proj2 (gauge_all ths sched H))). Qed.
Print Assumptions C02_fresh_after_quiescence.

(* a gauge that has not been updated since it was last delivered is not delivered again *)
Theorem C02_no_redelivery : forall s1 sched,
  alldone s1 -> nload s1 = 0 -> updated s1 = false -> log (run s1 sched) = log s1.
Proof. exact no_redelivery. Qed.
Print Assumptions C02_no_redelivery.

(* non-vacuity: one updater (7 then 9), two reporters; a schedule in which a pass
   overlaps the second update; final state quiescent: the overlapping pass delivered the newer value 9, and so did the later pass *)
Example C02_example :
  let s := run (init [TU (UIdle [7; 9]%Z); TR (RIdle 2); TR (RIdle 2)])
               [0; 0; 1; 0; 1; 0; 2; 2; 1; 2] in
  log s = [9; 9]%Z /\ updated s = false /\ nload s = 0 /\ flags s = 2.
Proof. vm_compute. repeat split. Qed.
