(* C09 — concurrent first use creates one metric / scope per identity.
   Only the property theorems; proofs in Proof/FirstUseP.v (metrics) and
   Proof/Registry2P.v (child scopes, on C07's registry model).
   Any number of threads N >= 2, any programs, any schedule. *)
From Coq Require Import List Bool Arith.
From Tally Require Import Model.FirstUse Proof.FirstUseP.
From Tally Require Model.Registry Proof.RegistryP Proof.Registry2P.
Import ListNotations.

(* all requests for the same (kind, name) on a scope - whichever goroutine makes them,
   however the probes and the locked re-checks interleave - return the same object *)
Theorem C09_one_object_per_identity : forall ths sched k o1 o2,
  let s := run (init ths) sched in
  In (k, o1) (gets s) -> In (k, o2) (gets s) -> o1 = o2.
Proof. exact one_object. Qed.
Print Assumptions C09_one_object_per_identity.

(* a cached reporter's Allocate call is made at most once per (kind, name): exactly once
   for each registered metric *)
Theorem C09_allocate_at_most_once : forall ths sched,
  let s := run (init ths) sched in NoDup (allocs s) /\ allocs s = map fst (tbl s).
Proof. exact alloc_once. Qed.
Print Assumptions C09_allocate_at_most_once.

(* everything recorded through any of the returned handles is delivered: the handles are
   one object, and a pass delivers that object's total *)
Theorem C09_all_handles_deliver : forall s i t rest,
  nth_error (thr s) i = Some t -> tpc t = MIdle -> prog t = MPass :: rest ->
  dels (step s i) = recs s /\ recs (step s i) = recs s.
Proof. exact pass_delivers. Qed.
Print Assumptions C09_all_handles_deliver.

(* child scopes: in every reachable state of the registry model two live scopes with the
   same sanitized key are the same object, for any number of requesting threads, any
   spellings and any schedule *)
Theorem C09_one_scope_per_identity : forall san,
  (forall k, san (san k) = san k) -> san 0 = 0 ->
  forall ths sched o1 o2,
  (forall t, In t ths -> Registry.tpc t = Registry.Idle) ->
  let s := Registry.run san (Registry.init ths) sched in
  o1 < length (Registry.objs s) -> o2 < length (Registry.objs s) ->
  Registry.closed (Registry.obj s o1) = false -> Registry.closed (Registry.obj s o2) = false ->
  Registry.skey (Registry.obj s o1) = Registry.skey (Registry.obj s o2) -> o1 = o2.
Proof. exact Registry2P.one_scope_per_identity. Qed.
Print Assumptions C09_one_scope_per_identity.

(* non-vacuity: three goroutines ask for counter "0" at once; two of them get past the
   probe before the first one registers it; all obtain object 0, one Allocate call *)
Example C09_example :
  let th := {| tpc := MIdle; cur := None; prog := [MGet (0, 0); MRec] |} in
  let s := run (init [th; th; th]) [0; 1; 0; 2; 1; 0; 1; 2] in
  gets s = [((0, 0), 0); ((0, 0), 0); ((0, 0), 0)] /\ allocs s = [(0, 0)] /\ recs s = [3].
Proof. vm_compute. repeat split. Qed.
