(* C09 — concurrent first use creates one metric / scope per identity.
   Only the property theorems; proofs in Proof/FirstUseP.v (metrics) and
   Proof/Registry2P.v (child scopes, on C07's registry model).
   Any number of threads N >= 2, any programs, any schedule. *)
From Coq Require Import List Bool Arith.
From Tally Require Import Model.FirstUse Proof.FirstUseP.
From Tally Require Model.Registry Proof.RegistryP Proof.Registry2P.
From Tally Require Model.Locks Proof.LocksP Gen.LockSkel Proof.LockSkelOk.
Import ListNotations.

(* all requests for the same (kind, name) on a scope - whichever goroutine makes them,
   however the probes and the locked re-checks interleave - return the same object *)
Theorem C09_one_object_per_identity : forall ths sched k o1 o2,
  let s := run (init ths) sched in
  In (k, o1) (gets s) -> In (k, o2) (gets s) -> o1 = o2.
Proof. exact one_object. Qed.
Print Assumptions C09_one_object_per_identity.

(* a cached reporter's Allocate call is made at most once per (kind, name): exactly once
   for each registered metric *)
Theorem C09_allocate_at_most_once : forall ths sched,
  let s := run (init ths) sched in NoDup (allocs s) /\ allocs s = map fst (tbl s).
Proof. exact alloc_once. Qed.
Print Assumptions C09_allocate_at_most_once.

(* everything recorded through any of the returned handles is delivered: the handles are
   one object, and a pass delivers that object's total *)
Theorem C09_all_handles_deliver : forall s i t rest,
  nth_error (thr s) i = Some t -> tpc t = MIdle -> prog t = MPass :: rest ->
  dels (step s i) = recs s /\ recs (step s i) = recs s.
Proof. exact pass_delivers. Qed.
Print Assumptions C09_all_handles_deliver.

(* child scopes: in every reachable state of the registry model two live scopes with the
   same sanitized key are the same object, for any number of requesting threads, any
   spellings and any schedule *)
Theorem C09_one_scope_per_identity : forall san,
  (forall k, san (san k) = san k) -> san 0 = 0 ->
  forall ths sched o1 o2,
  (forall t, In t ths -> Registry.tpc t = Registry.Idle) ->
  let s := Registry.run san (Registry.init ths) sched in
  o1 < length (Registry.objs s) -> o2 < length (Registry.objs s) ->
  Registry.closed (Registry.obj s o1) = false -> Registry.closed (Registry.obj s o2) = false ->
  Registry.skey (Registry.obj s o1) = Registry.skey (Registry.obj s o2) -> o1 = o2.
Proof. exact Registry2P.one_scope_per_identity. Qed.
Print Assumptions C09_one_scope_per_identity.

(* non-vacuity: three goroutines ask for counter "0" at once; two of them get past the
   probe before the first one registers it; all obtain object 0, one Allocate call *)
Example C09_example :
  let th := {| tpc := MIdle; cur := None; prog := [MGet (0, 0); MRec] |} in
  let s := run (init [th; th; th]) [0; 1; 0; 2; 1; 0; 1; 2] in
  gets s = [((0, 0), 0); ((0, 0), 0); ((0, 0), 0)] /\ allocs s = [(0, 0)] /\ recs s = [3].
Proof. vm_compute. repeat split. Qed.

(* "... and none of this can deadlock" / "... without deadlock": the locks of package tally.
   [LockSkel.procs] is the lock skeleton of the package, regenerated from the Go sources on
   every run (harness/lockx); an application goroutine performs any sequence of calls of the
   package's exported functions and methods (Counter, Gauge, Timer, Histogram, Tagged, SubScope,
   Snapshot, Close, Record, ... - [LockSkel.api]), the package's own goroutines run the report
   loop ([LockSkel.bg]).  Lock instances are arbitrary ([cls] maps an instance to its class);
   the semantics is Go's RWMutex with writer preference plus WaitGroup.Wait (Model/Locks.v).
   For ANY number of goroutines and ANY schedule: whenever some goroutine is blocked, another
   goroutine is able to move - no reachable state is a deadlock. *)
Theorem C09_no_deadlock_on_locks :
  forall (cls : nat -> nat) (gs : list (list Locks.gop)) (sched : list nat),
  (forall g, In g gs -> LockSkelOk.app_goroutine cls g \/ LockSkelOk.pkg_goroutine cls g) ->
  (forall g js j g', In g gs -> In (Locks.GWait js) g -> In j js -> nth_error gs j = Some g' ->
                     LockSkelOk.pkg_goroutine cls g') ->
  let s := Locks.run (Locks.init gs) sched in
  forall k t, nth_error (Locks.ths s) k = Some t -> Locks.todo t <> [] -> Locks.enabled s k = false ->
  exists k', Locks.enabled s k' = true.
Proof. exact LockSkelOk.scope_locks_no_deadlock. Qed.
Print Assumptions C09_no_deadlock_on_locks.

(* the skeleton the theorem is about is the checked one and is not trivial *)
Theorem C09_lock_skeleton_checked :
  LockSkel.translator_errors = 0 /\
  forallb (Locks.entry_ok LockSkel.procs LockSkelOk.fuel) (LockSkel.api ++ LockSkel.bg) = true /\
  (exists f tr o fl', In f LockSkel.bg /\ Locks.exec LockSkel.procs (Locks.Call f) false tr o fl' /\ 20 <= length tr).
Proof.
  split; [exact LockSkelOk.translator_clean|]. split; [|exact (proj1 LockSkelOk.skeleton_not_trivial)].
  apply forallb_forall. intros f Hf. apply in_app_or in Hf as [Hf | Hf].
  - pose proof LockSkelOk.api_checked as H. rewrite forallb_forall in H. exact (H f Hf).
  - pose proof LockSkelOk.bg_checked as H. rewrite forallb_forall in H. specialize (H f Hf).
    apply andb_true_iff in H. tauto.
Qed.
Print Assumptions C09_lock_skeleton_checked.

(* the same goroutines exclude each other as a lock must: in every reachable state a goroutine that
   holds a lock of the package for writing is its only holder *)
Theorem C09_locks_mutual_exclusion :
  forall (cls : nat -> nat) (gs : list (list Locks.gop)) (sched : list nat),
  (forall g, In g gs -> LockSkelOk.app_goroutine cls g \/ LockSkelOk.pkg_goroutine cls g) ->
  (forall g js j g', In g gs -> In (Locks.GWait js) g -> In j js -> nth_error gs j = Some g' ->
                     LockSkelOk.pkg_goroutine cls g') ->
  let s := Locks.run (Locks.init gs) sched in
  forall l i j u v, nth_error (Locks.ths s) i = Some u -> nth_error (Locks.ths s) j = Some v ->
  Locks.holds Locks.W l u = true -> Locks.holds_any l v = true -> i = j.
Proof. exact LockSkelOk.scope_locks_mutual_exclusion. Qed.
Print Assumptions C09_locks_mutual_exclusion.

(* "without data races", for the data the package guards by its locks (the metric maps and slices of
   a scope, the entries of a registry shard, the bucket cache, a timer's buffered values: the
   regenerated skeleton marks every access, the checker verifies that the guard is held - for
   writing at a write): in every reachable state a goroutine about to write such data is the only
   goroutine about to access it.  (Atomics and data that is immutable after construction are not
   part of this statement.) *)
Theorem C09_guarded_data_exclusive_access :
  forall (cls : nat -> nat) (gs : list (list Locks.gop)) (sched : list nat),
  (forall g, In g gs -> LockSkelOk.app_goroutine cls g \/ LockSkelOk.pkg_goroutine cls g) ->
  (forall g js j g', In g gs -> In (Locks.GWait js) g -> In j js -> nth_error gs j = Some g' ->
                     LockSkelOk.pkg_goroutine cls g') ->
  let s := Locks.run (Locks.init gs) sched in
  forall l i j u v w ru rv, nth_error (Locks.ths s) i = Some u -> nth_error (Locks.ths s) j = Some v ->
  Locks.todo u = Locks.GUse true l :: ru -> Locks.todo v = Locks.GUse w l :: rv -> i = j.
Proof. exact LockSkelOk.scope_data_exclusive_access. Qed.
Print Assumptions C09_guarded_data_exclusive_access.
