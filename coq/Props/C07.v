(* C07 — closing a subscope loses nothing recorded before it and harms no other scope.
   Only the property theorems; proofs in Proof/RegistryP.v, Proof/Registry2P.v.

   The system: any pool of threads, each either an application thread running a
   program over {obtain a scope by (raw) key, record on the current scope, Close
   it} or a reporting thread running report passes, one shard of the registry
   with alias entries (a scope is registered under its sanitized key and under
   every raw spelling it was requested with; [san] is an arbitrary idempotent
   function on keys), under ANY schedule.  Steps are the atomic actions between
   the yield points of scope_registry.go; locks are not modelled, so the
   schedules considered are a superset of what the RWMutex admits.  Per scope
   object: [applied] increments recorded, [delivered] handed to the reporter,
   [closed_at] = [applied] when Close was called, [cleared] = dropped. *)
From Coq Require Import ZArith List Bool Arith.
From Tally Require Import Model.Registry Proof.RegistryP Proof.Registry2P Model.RegPass Proof.RegPassP.
From Tally Require Model.Locks Proof.LocksP Gen.LockSkel Proof.LockSkelOk.
Import ListNotations.

(* whenever a scope object has been dropped, everything recorded on it before
   its Close was called has been delivered, and nothing was delivered twice *)
Theorem C07_nothing_lost : forall san ths sched o,
  (forall t, In t ths -> tpc t = Idle) ->
  let s := run san (init ths) sched in
  cleared (obj s o) = true ->
  closed_at (obj s o) <= delivered (obj s o) /\ delivered (obj s o) <= applied (obj s o).
Proof. exact nothing_lost. Qed.
Print Assumptions C07_nothing_lost.

(* in every reachable state no object has more delivered than recorded, and a
   dropped object is a closed one *)
Theorem C07_never_twice : forall san ths sched o,
  (forall t, In t ths -> tpc t = Idle) ->
  let s := run san (init ths) sched in
  delivered (obj s o) + dropped (obj s o) <= applied (obj s o) /\
  (cleared (obj s o) = true -> closed (obj s o) = true).
Proof.
  intros san ths sched o H s.
  destruct (run_inv san sched _ (inv_init ths H)) as (Ho & _). destruct (Ho o) as (A & B & C & D).
  split; [exact A|]. intro Hc. apply C, Hc.
Qed.
Print Assumptions C07_never_twice.

(* closing a scope never affects another one: a scope that is not closed stays
   registered under its sanitized key in every reachable state, whatever
   spellings were requested, closed and removed in between; hence a later
   complete pass reaches it and delivers what was recorded on it *)
Theorem C07_live_scope_stays : forall san,
  (forall k, san (san k) = san k) -> san 0 = 0 ->
  forall ths sched o,
  (forall t, In t ths -> tpc t = Idle) ->
  let s := run san (init ths) sched in
  o < length (objs s) -> closed (obj s o) = false ->
  lookup (reg s) (skey (obj s o)) = Some o.
Proof. exact live_scope_stays. Qed.
Print Assumptions C07_live_scope_stays.

(* a request that completes hands out a scope that is not closed: a scope
   obtained after a Close for the same identity is a functional one *)
Theorem C07_obtained_is_open : forall san s i ch t k,
  Inv s -> nth_error (thr s) i = Some t -> tpc t = G5 k ->
  let s' := step san s (i, ch) in
  exists o t', nth_error (thr s') i = Some t' /\ tpc t' = Idle /\ cur t' = Some o /\ closed (obj s' o) = false.
Proof. exact g5_returns_open. Qed.
Print Assumptions C07_obtained_is_open.

Theorem C07_found_is_open : forall san s i ch t k rest o,
  nth_error (thr s) i = Some t -> tpc t = Idle -> prog t = AGet k :: rest ->
  lookup (reg s) k = Some o -> closed (obj s o) = false ->
  let s' := step san s (i, ch) in
  exists t', nth_error (thr s') i = Some t' /\ tpc t' = Idle /\ cur t' = Some o /\ closed (obj s' o) = false.
Proof. exact probe_returns_open. Qed.
Print Assumptions C07_found_is_open.

(* closing twice is harmless *)
Theorem C07_double_close : forall x, close_obj (close_obj x) = close_obj x.
Proof. exact close_twice. Qed.
Print Assumptions C07_double_close.

(* "... a later report pass delivers it": pass completeness.  Registry.run lets a pass end at any
   point; Model/RegPass.v runs the same steps under a clock and with the one guarantee of Go's map
   iteration that matters here - every entry that is present during the whole iteration is
   produced - so that a pass can END only when every binding that is older than the pass has been
   visited (the correspondence check holds the implementation to this: a report pass of the real
   registry that ends where the model refuses to is a mismatch).  [pdone s i = Some p]: thread i
   has completed a pass that began at time p; [cclk s o]: the time at which Close was called on o.
   A pass that began after Close was called on a scope and that has completed has delivered
   everything recorded on that scope before the Close - under every schedule, with any number
   of concurrent requests for the same or other spellings, other passes and other Closes. *)
Theorem C07_closed_is_visited : forall san,
  (forall k, san (san k) = san k) -> san 0 = 0 ->
  forall ths sched i p o,
  (forall t, In t ths -> tpc t = Idle) ->
  let s := irun san (iinit ths) sched in
  pdone s i = Some p ->
  closed (obj (base s) o) = true -> cclk s o < p ->
  closed_at (obj (base s) o) <= delivered (obj (base s) o).
Proof. exact closed_is_visited. Qed.
Print Assumptions C07_closed_is_visited.

(* the runs of that model are runs of the registry model (a refused step is a step not taken), so
   every theorem of this file holds of them *)
Theorem C07_pass_model_is_registry_model : forall san sched s,
  exists sched', base (irun san s sched) = run san (base s) sched'.
Proof. exact base_irun. Qed.
Print Assumptions C07_pass_model_is_registry_model.

(* the step that matters inside a pass, as part of the invariant of the registry model: a pass or a
   re-request that has read closed = true for an object only removes and clears it after a report *)
Theorem C07_reported_before_dropped : forall san ths sched t,
  (forall t, In t ths -> tpc t = Idle) ->
  let s := run san (init ths) sched in
  In t (thr s) ->
  match tpc t with
  | G3 _ o | G3b _ o | G4 _ o | P4 _ _ o | P5 _ _ o =>
      closed (obj s o) = true /\ closed_at (obj s o) <= delivered (obj s o)
  | _ => True
  end.
Proof.
  intros san ths sched t H s Hin.
  destruct (run_inv san sched _ (inv_init ths H)) as (_ & Ht & _). specialize (Ht t Hin).
  destruct (tpc t); cbn [okpc] in Ht; try exact I; tauto.
Qed.
Print Assumptions C07_reported_before_dropped.

(* non-vacuity: sanitizer merging keys 1 and 2; obtain 1, record, Close, obtain 2
   (a new live scope), obtain 1 again (stale alias), record on both; a complete
   pass; the closed object 1 delivered its increment, the live object 2 keeps
   its registration and delivers everything *)
Example C07_example :
  let san := fun k => match k with 1 => 2 | _ => k end in
  let th := {| tpc := Idle; cur := None;
               prog := [AGet 1; AInc; AClose; AGet 2; AInc; AGet 1; AInc]; passes := 1 |} in
  let s := run san (init [th])
     (repeat (0, 0) 18 ++ [(0,2);(0,0);(0,0);(0,9)]) in
  map (fun x => (applied x, delivered x, closed x)) (objs s) =
    [(0, 0, false); (1, 1, true); (2, 2, false)] /\
  lookup (reg s) 2 = Some 2.
Proof. vm_compute. split; reflexivity. Qed.

(* non-vacuity of C07_closed_is_visited: the same sanitizer; thread 0 obtains spelling 1, records
   and closes; thread 1 runs a pass.  The pass cannot end before it has visited the root (refused
   twice: the state does not change), visits the root, cannot end before it has visited the closed
   scope, visits it under both of its keys and then ends: it began at time 5, Close was called at
   time 4, and the increment has been delivered. *)
Example C07_pass_example :
  let san := fun k => match k with 1 => 2 | _ => k end in
  let t0 := {| tpc := Idle; cur := None; prog := [AGet 1; AInc; AClose]; passes := 0 |} in
  let t1 := {| tpc := Idle; cur := None; prog := []; passes := 1 |} in
  let s0 := irun san (iinit [t0; t1]) (repeat (0, 0) 4) in
  let s1 := irun san s0 [(1, 9); (1, 9)] in
  let s2 := irun san s1 [(1, 0); (1, 0); (1, 0)] in
  let s3 := irun san s2 [(1, 9)] in
  let s4 := irun san s3 (repeat (1, 2) 5 ++ repeat (1, 1) 5 ++ [(1, 9)]) in
  (clk s0, cclk s0 1) = (5, 4) /\ clk s1 = clk s0 /\ clk s3 = clk s2 /\
  pdone s3 1 = None /\ pdone s4 1 = Some 5 /\
  map (fun x => (applied x, delivered x, closed x, cleared x)) (objs (base s4)) =
    [(0, 0, false, false); (1, 1, true, true)] /\
  reg (base s4) = [(0, 0)].
Proof. vm_compute. repeat split; reflexivity. Qed.

(* "... and none of this can deadlock" / "... without deadlock": the locks of package tally.
   [LockSkel.procs] is the lock skeleton of the package, regenerated from the Go sources on
   every run (harness/lockx); an application goroutine performs any sequence of calls of the
   package's exported functions and methods (Counter, Gauge, Timer, Histogram, Tagged, SubScope,
   Snapshot, Close, Record, ... - [LockSkel.api]), the package's own goroutines run the report
   loop ([LockSkel.bg]).  Lock instances are arbitrary ([cls] maps an instance to its class);
   the semantics is Go's RWMutex with writer preference plus WaitGroup.Wait (Model/Locks.v).
   For ANY number of goroutines and ANY schedule: whenever some goroutine is blocked, another
   goroutine is able to move - no reachable state is a deadlock. *)
Theorem C07_no_deadlock_on_locks :
  forall (cls : nat -> nat) (gs : list (list Locks.gop)) (sched : list nat),
  (forall g, In g gs -> LockSkelOk.app_goroutine cls g \/ LockSkelOk.pkg_goroutine cls g) ->
  (forall g js j g', In g gs -> In (Locks.GWait js) g -> In j js -> nth_error gs j = Some g' ->
                     LockSkelOk.pkg_goroutine cls g') ->
  let s := Locks.run (Locks.init gs) sched in
  forall k t, nth_error (Locks.ths s) k = Some t -> Locks.todo t <> [] -> Locks.enabled s k = false ->
  exists k', Locks.enabled s k' = true.
Proof. exact LockSkelOk.scope_locks_no_deadlock. Qed.
Print Assumptions C07_no_deadlock_on_locks.

(* the skeleton the theorem is about is the checked one and is not trivial *)
Theorem C07_lock_skeleton_checked :
  LockSkel.translator_errors = 0 /\
  forallb (Locks.entry_ok LockSkel.procs LockSkelOk.fuel) (LockSkel.api ++ LockSkel.bg) = true /\
  (exists f tr o fl', In f LockSkel.bg /\ Locks.exec LockSkel.procs (Locks.Call f) false tr o fl' /\ 20 <= length tr).
Proof.
  split; [exact LockSkelOk.translator_clean|]. split; [|exact (proj1 LockSkelOk.skeleton_not_trivial)].
  apply forallb_forall. intros f Hf. apply in_app_or in Hf as [Hf | Hf].
  - pose proof LockSkelOk.api_checked as H. rewrite forallb_forall in H. exact (H f Hf).
  - pose proof LockSkelOk.bg_checked as H. rewrite forallb_forall in H. specialize (H f Hf).
    apply andb_true_iff in H. tauto.
Qed.
Print Assumptions C07_lock_skeleton_checked.

(* the same goroutines exclude each other as a lock must: in every reachable state a goroutine that
   holds a lock of the package for writing is its only holder *)
Theorem C07_locks_mutual_exclusion :
  forall (cls : nat -> nat) (gs : list (list Locks.gop)) (sched : list nat),
  (forall g, In g gs -> LockSkelOk.app_goroutine cls g \/ LockSkelOk.pkg_goroutine cls g) ->
  (forall g js j g', In g gs -> In (Locks.GWait js) g -> In j js -> nth_error gs j = Some g' ->
                     LockSkelOk.pkg_goroutine cls g') ->
  let s := Locks.run (Locks.init gs) sched in
  forall l i j u v, nth_error (Locks.ths s) i = Some u -> nth_error (Locks.ths s) j = Some v ->
  Locks.holds Locks.W l u = true -> Locks.holds_any l v = true -> i = j.
Proof. exact LockSkelOk.scope_locks_mutual_exclusion. Qed.
Print Assumptions C07_locks_mutual_exclusion.
