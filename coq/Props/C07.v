(* placeholder: filled in below *)
