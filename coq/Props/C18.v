(* C18 — StatsD reporter: each value forwarded once under a deterministic,
   distinct stat name.  Only the property theorems; proofs are in Proof/StatsdP.v.

   In every theorem [fmtf] (fmt.Sprintf("%.<p>f", x) as a function of precision
   and float64 bits) and [fmtd] (time.Duration.String()) are arbitrary
   functions: nothing is assumed about the two renderings except, where stated,
   the shape [shape r] ("non-empty, '-' only as first byte") of the renderings
   of the bounds that occur — which the harness asserts on every rendering it
   sees. *)
From Coq Require Import ZArith List Bool Permutation Lia.
From Tally Require Import Model.Buckets Model.Statsd Proof.StatsdP Model.DurString Proof.DurStringP Proof.StatsdDurP.
Import ListNotations.
Open Scope Z_scope.

(* Every report call results in exactly one client call: same name, the value
   (gauges: int64(value)), the effective sample rate, no statsd tags; bucket
   samples are one Inc on "<name>.<lower>-<upper>".  Flush does nothing. *)
Theorem C18_one_call_each : forall fmtf fmtd c,
  (forall n t v, step fmtf fmtd c (OCounter n t v) = [Sent (Call CInc n v (eff_rate c) 0)]) /\
  (forall n t b, step fmtf fmtd c (OGauge n t b) = [Sent (Call CGauge n (gauge_int b) (eff_rate c) 0)]) /\
  (forall n t d, step fmtf fmtd c (OTimer n t d) = [Sent (Call CTiming n d (eff_rate c) 0)]) /\
  (forall n t lo hi s, step fmtf fmtd c (OHistV n t lo hi s) =
     [Sent (Call CInc (n ++ DOT :: vstr fmtf (eff_prec c) lo ++ DASH :: vstr fmtf (eff_prec c) hi) s (eff_rate c) 0)]) /\
  (forall n t lo hi s, step fmtf fmtd c (OHistD n t lo hi s) =
     [Sent (Call CInc (n ++ DOT :: dstr fmtd lo ++ DASH :: dstr fmtd hi) s (eff_rate c) 0)]) /\
  step fmtf fmtd c OFlush = [].
Proof. intros; repeat split. Qed.
Print Assumptions C18_one_call_each.

(* ... and over every call history: the client sees, in order, exactly the one
   call of each report call and nothing else *)
Theorem C18_history : forall fmtf fmtd c ops,
  calls (run fmtf fmtd c ops) = map (the_call fmtf fmtd c) (filter is_report ops).
Proof. exact calls_run. Qed.
Print Assumptions C18_history.

(* the reporter keeps no state between calls: whatever the order in which report calls
   reach it (several scopes / goroutines sharing one reporter), the client sees the same
   multiset of calls - one per report call *)
Theorem C18_order_independent : forall fmtf fmtd c ops ops',
  Permutation ops ops' ->
  Permutation (calls (run fmtf fmtd c ops)) (calls (run fmtf fmtd c ops')).
Proof. exact run_perm. Qed.
Print Assumptions C18_order_independent.

(* int64(value) is the truncation toward zero of the exact value num/den of the float *)
Theorem C18_gauge_truncates : forall b,
  let n := fst (fnum_den b) in let d := snd (fnum_den b) in
  0 < d /\ Z.abs (gauge_int b) * d <= Z.abs n < (Z.abs (gauge_int b) + 1) * d /\ 0 <= gauge_int b * n.
Proof. exact gauge_trunc. Qed.
Print Assumptions C18_gauge_truncates.

(* the open ends are spelled -infinity / infinity, every other bound is rendered by the oracle *)
Theorem C18_bound_rendering : forall fmtf fmtd k p,
  bstr fmtf fmtd k p (bottom k) = NINFINITY /\ bstr fmtf fmtd k p (top k) = INFINITY /\
  (forall x, x <> top k -> x <> bottom k -> bstr fmtf fmtd k p x = ofmt fmtf fmtd k p x).
Proof. intros; repeat split; [apply bstr_bottom | apply bstr_top | apply bstr_interior]. Qed.
Print Assumptions C18_bound_rendering.

(* for every specification the first bucket pair starts at the bottom value
   and the last one ends at the top value *)
Theorem C18_open_ends : forall fmtf fmtd k p spec,
  (exists hi, nth_error (pairs k spec) 0 = Some (bottom k, hi)) /\
  (exists lo, nth_error (pairs k spec) (length spec) = Some (lo, top k)) /\
  bstr fmtf fmtd k p (bottom k) = NINFINITY /\ bstr fmtf fmtd k p (top k) = INFINITY.
Proof. exact open_ends. Qed.
Print Assumptions C18_open_ends.

(* sample rate: unset (the zero value) means 1.0, anything else is used as is,
   and every client call of every history carries it *)
Theorem C18_rate_default : forall fmtf fmtd c ops,
  (rate_unset (orate c) = true -> eff_rate c = ONE32) /\
  (rate_unset (orate c) = false -> eff_rate c = orate c) /\
  Forall (fun x => crate x = eff_rate c) (calls (run fmtf fmtd c ops)).
Proof. intros; split; [apply rate_default | split; [apply rate_configured | apply rate_all]]. Qed.
Print Assumptions C18_rate_default.

(* tags are ignored, no statsd tags are passed on, Capabilities = reporting without tagging *)
Theorem C18_no_tagging : forall fmtf fmtd c ops (f : op -> tags),
  run fmtf fmtd c (map (fun o => retag (f o) o) ops) = run fmtf fmtd c ops /\
  Forall (fun x => ctagn x = 0) (calls (run fmtf fmtd c ops)) /\
  Forall (fun rt => rt = (true, false)) (capsof (run fmtf fmtd c ops)).
Proof. intros; split; [apply run_retag | split; [apply notags_all | apply capsof_run]]. Qed.
Print Assumptions C18_no_tagging.

(* stat names of one histogram determine the rendered bound pair *)
Theorem C18_name_injective : forall name lo hi lo' hi',
  shape lo -> shape lo' -> stat name lo hi = stat name lo' hi' -> lo = lo' /\ hi = hi'.
Proof. exact stat_injective. Qed.
Print Assumptions C18_name_injective.

(* the two fixed spellings have the shape, so only the oracle's renderings need it *)
Theorem C18_shape_of_rendering : forall fmtf fmtd k p x,
  shape (ofmt fmtf fmtd k p x) -> shape (bstr fmtf fmtd k p x).
Proof. exact bstr_shape. Qed.
Print Assumptions C18_shape_of_rendering.

(* two buckets of one histogram (any specification, pairs as built by
   BucketPairs) whose rendered bounds differ never share a stat name *)
Theorem C18_buckets_distinct : forall fmtf fmtd k p name spec i j lo hi lo' hi',
  (forall x, In x spec -> shape (ofmt fmtf fmtd k p x)) ->
  nth_error (pairs k spec) i = Some (lo, hi) ->
  nth_error (pairs k spec) j = Some (lo', hi') ->
  (bstr fmtf fmtd k p lo, bstr fmtf fmtd k p hi) <> (bstr fmtf fmtd k p lo', bstr fmtf fmtd k p hi') ->
  bucket_name fmtf fmtd k p name lo hi <> bucket_name fmtf fmtd k p name lo' hi'.
Proof. exact buckets_distinct. Qed.
Print Assumptions C18_buckets_distinct.

(* whole histogram: pairwise different rendered pairs give pairwise different names ... *)
Theorem C18_histogram_names_distinct : forall fmtf fmtd k p name spec,
  (forall x, In x spec -> shape (ofmt fmtf fmtd k p x)) ->
  NoDup (map (fun lh => (bstr fmtf fmtd k p (fst lh), bstr fmtf fmtd k p (snd lh))) (pairs k spec)) ->
  NoDup (hist_names fmtf fmtd k p name spec).
Proof. exact hist_names_nodup. Qed.
Print Assumptions C18_histogram_names_distinct.

(* ... which is the case as soon as the upper bounds render differently *)
Theorem C18_histogram_names_distinct_uppers : forall fmtf fmtd k p name spec,
  (forall x, In x spec -> shape (ofmt fmtf fmtd k p x)) ->
  NoDup (map (bstr fmtf fmtd k p) (uppers k spec)) ->
  NoDup (hist_names fmtf fmtd k p name spec).
Proof. exact hist_names_nodup_uppers. Qed.
Print Assumptions C18_histogram_names_distinct_uppers.

(* Duration histograms: the rendering is Go's time.Duration.String(), modelled in Model/DurString.v
   (checked against the Go runtime's renderings on every case by the correspondence check) - no
   oracle and no shape assumption is left for this kind.  The rendering is injective on int64
   (reading it back gives the duration) ... *)
Theorem C18_duration_rendering_injective : forall d d',
  MINI <= d <= MAXI -> MINI <= d' <= MAXI -> dur_string d = dur_string d' -> d = d'.
Proof. intros d d' H H'. apply dur_string_injective; unfold MINI64, MAXI64, MINI, MAXI in *; lia. Qed.
Print Assumptions C18_duration_rendering_injective.

Theorem C18_duration_rendering_shape : forall d, shape (dur_string d).
Proof. exact dur_shape. Qed.
Print Assumptions C18_duration_rendering_shape.

(* ... hence the buckets of a duration histogram whose upper bounds differ never share a stat
   name: for every specification of int64 durations, any value rendering and precision *)
Theorem C18_duration_names_distinct : forall fmtf p name spec,
  (forall x, In x spec -> MINI <= x <= MAXI) ->
  NoDup (uppers KDuration spec) ->
  NoDup (hist_names fmtf dur_string KDuration p name spec).
Proof. exact duration_names_distinct. Qed.
Print Assumptions C18_duration_names_distinct.

(* "0s", "1.5µs", "1h1m1.000000001s", "-1m30s", "2562047h47m16.854775807s" *)
Example C18_duration_rendering_examples :
  map dur_string [0; 1500; 3661000000001; -90000000000; MAXI] =
  [[48;115]; [49;46;53;194;181;115]; [49;104;49;109;49;46;48;48;48;48;48;48;48;48;49;115];
   [45;49;109;51;48;115];
   [50;53;54;50;48;52;55;104;52;55;109;49;54;46;56;53;52;55;55;53;56;48;55;115]].
Proof. vm_compute. reflexivity. Qed.

(* ---------- non-vacuity ---------- *)
(* a toy oracle: the bound's low byte as one character, '-' in front for "negative" bits *)
Definition toyf (p b : Z) : bytes := if b <? SIGN then [48 + p; 65 + b mod 26] else [DASH; 65 + b mod 26].
Definition toyd (d : Z) : bytes := if d <? 0 then [DASH; 65 + (- d) mod 26] else [65 + d mod 26].

(* a history with every kind of call, unset rate and precision: 2.5 -> 2, -2.5 -> -2 *)
Example C18_example_history :
  run toyf toyd (Cfg 0 0)
      [OCounter [99] [([107],[118])] 7; OGauge [103] [] 4612811918334230528; OFlush;
       OGauge [103] [] 13836183955189006336; OTimer [116] [] 1500; OCaps;
       OHistV [104] [] NMAXF 1 3; OHistD [104] [] 2 MAXI 4] =
  [Sent (Call CInc [99] 7 ONE32 0); Sent (Call CGauge [103] 2 ONE32 0);
   Sent (Call CGauge [103] (-2) ONE32 0); Sent (Call CTiming [116] 1500 ONE32 0);
   CapsAre true false;
   Sent (Call CInc ([104; 46; 45] ++ INFINITY ++ [45; 54; 66]) 3 ONE32 0);
   Sent (Call CInc ([104; 46; 67; 45] ++ INFINITY) 4 ONE32 0)].
Proof. vm_compute. reflexivity. Qed.

Example C18_example_gauge :
  gauge_int 4612811918334230528 = 2 /\ gauge_int 13836183955189006336 = -2 /\          (* 2.5, -2.5 *)
  gauge_int 4890909195324358656 = 9223372036854775808 /\ gauge_ok 4890909195324358656 = false /\  (* 2^63 *)
  gauge_int 14114281232179134464 = MINI /\ gauge_ok 14114281232179134464 = true /\     (* -2^63 *)
  gauge_int 1 = 0 /\ gauge_ok 9218868437227405312 = false.                              (* 5e-324, +Inf *)
Proof. vm_compute. repeat split. Qed.

Example C18_example_rate :
  rate_unset (orate (Cfg 0 3)) = true /\ eff_rate (Cfg 0 3) = ONE32 /\
  rate_unset (orate (Cfg 1056964608 3)) = false /\ eff_rate (Cfg 1056964608 3) = 1056964608.  (* 0.5 *)
Proof. vm_compute. repeat split. Qed.

(* the hypotheses of C18_buckets_distinct / C18_histogram_names_distinct_uppers hold
   for the toy oracle on an unsorted duration specification with a negative bound *)
Example C18_example_distinct :
  (forall x, In x [5; -3; 1] -> shape (ofmt toyf toyd KDuration 6 x)) /\
  NoDup (map (bstr toyf toyd KDuration 6) (uppers KDuration [5; -3; 1])) /\
  hist_names toyf toyd KDuration 6 [104] [5; -3; 1] =
    [[104; 46; 45] ++ INFINITY ++ [45; 45; 68];            (* h.-infinity--D *)
     [104; 46; 45; 68; 45; 66];                            (* h.-D-B *)
     [104; 46; 66; 45; 70];                                (* h.B-F *)
     [104; 46; 70; 45] ++ INFINITY].                       (* h.F-infinity *)
Proof.
  split; [|split].
  - intros x Hx. apply shapeb_spec. cbn in Hx. destruct Hx as [<-|[<-|[<-|[]]]]; reflexivity.
  - vm_compute. repeat constructor; cbn; intuition discriminate.
  - vm_compute. reflexivity.
Qed.

Example C18_example_open_ends :
  pairs KValue [] = [(NMAXF, MAXF)] /\
  hist_names toyf toyd KValue 6 [104] [] = [[104; 46; 45] ++ INFINITY ++ [45] ++ INFINITY].
Proof. vm_compute. split; reflexivity. Qed.

(* names are arbitrary byte strings: a name made of printf-significant bytes ("%s%")
   is copied verbatim in front of ".<lower>-<upper>" *)
Example C18_example_percent_name :
  hist_names toyf toyd KDuration 6 [37; 115; 37] [1] =
    [[37; 115; 37; 46; 45] ++ INFINITY ++ [45; 66];        (* %s%.-infinity-B *)
     [37; 115; 37; 46; 66; 45] ++ INFINITY].               (* %s%.B-infinity *)
Proof. vm_compute. reflexivity. Qed.

Example C18_example_order :
  Permutation [OTimer [116] [] 5; OFlush; OCounter [99] [] 7] [OCounter [99] [] 7; OTimer [116] [] 5; OFlush] /\
  calls (run toyf toyd (Cfg 0 0) [OTimer [116] [] 5; OFlush; OCounter [99] [] 7]) =
    [Call CTiming [116] 5 ONE32 0; Call CInc [99] 7 ONE32 0].
Proof.
  split; [|vm_compute; reflexivity].
  apply Permutation_sym, (Permutation_cons_app [OTimer [116] [] 5; OFlush] []), Permutation_refl.
Qed.
