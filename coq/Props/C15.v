(* C15 — UDP transport: one flush = one exact datagram; a failed message never
   poisons.  This file holds only the property theorems; the model is
   Model/Udp.v (the behaviour the property demands = the tree with
   patches/fix-C15-stale-prefix.patch), the proofs are in Proof/UdpP.v, the
   pinned tree's behaviour is refuted in Refuted/C15_refuted.v.
   L is thriftudp.MaxLength (Gen/Params.udp_max_length); every theorem holds
   for every L >= 0, every history of calls and every position and kind of
   fault (oversize write, failed send, failed close, abandoned message). *)
From Coq Require Import ZArith List Bool.
From Tally Require Import Base.ObsCore Gen.Params Model.Udp Proof.UdpP.
Import ListNotations.
Open Scope Z_scope.

(* For every history of calls on a fresh transport, the datagrams that reach the
   peer are exactly: for each successful Flush of a message none of whose
   writes was refused, the concatenation of the writes accepted since the
   previous Flush, as one datagram ([spec] computes this from the history alone). *)
Theorem C15_flush_exact : forall L ops, ds L fresh ops = spec L (Some []) false ops.
Proof. exact flush_exact. Qed.
Print Assumptions C15_flush_exact.

Theorem C15_datagrams_fit : forall L ops, 0 <= L ->
  Forall (fun d => zlen d <= L) (ds L fresh ops).
Proof. exact datagrams_fit. Qed.
Print Assumptions C15_datagrams_fit.

(* After any history from any state, a Flush on an open transport leaves the
   buffer empty and the message state clean, whether or not the send succeeded. *)
Theorem C15_flush_always_empties : forall L h t0 ok,
  closed (st L t0 h) = false -> st L t0 (h ++ [Flush ok]) = fresh.
Proof. exact flush_always_empties. Qed.
Print Assumptions C15_flush_always_empties.

(* A write that would make the message exceed L is refused and drops the message;
   until the next Flush nothing is buffered or sent, and that Flush sends nothing. *)
Theorem C15_oversize_refused_step : forall L t bs,
  closed t = false -> poisoned t = false -> L < zlen (buf t) + zlen bs ->
  step L t (Write bs) = (Tr [] false true, ErrTooBig, None) /\
  step L t (WriteString bs) = (Tr [] false true, ErrTooBig, None) /\
  forall o ok, is_msg o ->
    out1 L (Tr [] false true) o = None /\ st1 L (Tr [] false true) o = Tr [] false true /\
    step L (Tr [] false true) (Flush ok) = (fresh, ErrPoisoned, None).
Proof. exact oversize_step. Qed.
Print Assumptions C15_oversize_refused_step.

(* The same at message level, after ANY history h (faults included) ended by a
   Flush: a message m (any mix of Write/WriteByte/WriteString/IsOpen/
   RemainingBytes) whose bytes exceed L has a refused write, puts nothing on
   the wire, its Flush returns an error, and the transport is clean afterwards. *)
Theorem C15_oversize_refused_nothing_sent : forall L h t0 ok0 m ok, 0 <= L ->
  closed (st L t0 h) = false -> Forall is_msg m -> L < zlen (payloads m) ->
  let pre := h ++ [Flush ok0] in
  st L t0 (pre ++ m ++ [Flush ok]) = fresh /\
  ds L t0 (pre ++ m ++ [Flush ok]) = ds L t0 pre /\
  rs L t0 (pre ++ m ++ [Flush ok]) = rs L t0 pre ++ rs L fresh m ++ [ErrPoisoned] /\
  In ErrTooBig (rs L fresh m).
Proof. exact oversize_nothing_sent. Qed.
Print Assumptions C15_oversize_refused_nothing_sent.

(* After ANY history (refused writes, failed sends, abandoned messages at any
   position) whose last message was ended by a Flush — successful or not — the
   next message that fits is accepted write by write and emitted by its Flush
   alone and intact: exactly one datagram = the concatenation of its writes. *)
Theorem C15_next_message_clean : forall L h t0 ok0 m ok, 0 <= L ->
  closed (st L t0 h) = false -> Forall is_msg m -> zlen (payloads m) <= L ->
  let pre := h ++ [Flush ok0] in
  st L t0 (pre ++ m ++ [Flush ok]) = fresh /\
  ds L t0 (pre ++ m ++ [Flush ok]) = ds L t0 pre ++ (if ok then [payloads m] else []) /\
  rs L t0 (pre ++ m ++ [Flush ok]) = rs L t0 pre ++ map ok_res m ++ [if ok then Ok else ErrSend].
Proof. exact next_message_clean. Qed.
Print Assumptions C15_next_message_clean.

(* Multi transport, no destination failing (every send and close oracle true):
   for every history, every destination i of n goes through exactly the
   single-transport history — same state, same datagrams — ... *)
Theorem C15_multi_fanout : forall L n ms i, all_true ms -> (i < n)%nat ->
  length (mst L (repeat fresh n) ms) = n /\
  nth i (mst L (repeat fresh n) ms) fresh = st L fresh (map plain ms) /\
  dest_ds i (mos L (repeat fresh n) ms) = ds L fresh (map plain ms).
Proof. exact multi_fanout. Qed.
Print Assumptions C15_multi_fanout.

(* ... and the multi transport returns what the single transport returns
   (its own RemainingBytes/Read answers apart). *)
Theorem C15_multi_lockstep : forall L n ms, all_true ms -> forall t,
  mst L (repeat t (S n)) ms = repeat (st L t (map plain ms)) (S n) /\
  mrs L (repeat t (S n)) ms = zip_view ms (rs L t (map plain ms)).
Proof. exact multi_lockstep. Qed.
Print Assumptions C15_multi_lockstep.

(* With failing sends on any destinations (Close not failing half way): each
   destination still goes through the single-transport history "what it saw";
   a failed destination neither starves nor corrupts the others. *)
Theorem C15_multi_independent : forall L i ts ms, closes_ok ms -> (i < length ts)%nat ->
  nth i (mst L ts ms) fresh = st L (nth i ts fresh) (map (sop i) ms) /\
  dest_ds i (mos L ts ms) = ds L (nth i ts fresh) (map (sop i) ms).
Proof. exact multi_independent. Qed.
Print Assumptions C15_multi_independent.

(* Close: after any history and a Close (whether conn.Close failed or not) the
   transport is closed; every later call leaves it unchanged, sends nothing and
   returns: not-open for Write/WriteByte/WriteString/Flush/Read, nil for Close,
   false for IsOpen.  The model is total: no call panics. *)
Theorem C15_close_idempotent_not_open : forall L h t0 c ops,
  let pre := h ++ [Close c] in
  closed (st L t0 pre) = true /\
  st L t0 (pre ++ ops) = st L t0 pre /\
  ds L t0 (pre ++ ops) = ds L t0 h /\
  rs L t0 (pre ++ ops) = rs L t0 pre ++ map closed_res ops.
Proof. exact close_idempotent. Qed.
Print Assumptions C15_close_idempotent_not_open.

(* The generated client (stops at the first failed write without flushing) and
   the reporter's flush (ends the message on its error path): for EVERY sequence
   of batches, each batch leaves the transport clean, a batch that fits and
   whose send succeeds is exactly one datagram, an oversized batch is nothing on
   the wire (after a failed send the error-path Flush may send an empty datagram). *)
Theorem C15_reporter_recovers : forall L bs, 0 <= L ->
  emits (emit L) fresh bs = (fresh, map (batch_ok L) bs, flat_map (batch_wire L) bs).
Proof. exact reporter_recovers. Qed.
Print Assumptions C15_reporter_recovers.

Theorem C15_reporter_later_batch : forall L pre chunks ok2 post, 0 <= L ->
  zlen (concat chunks) <= L ->
  snd (emits (emit L) fresh (pre ++ (chunks, true, ok2) :: post)) =
  flat_map (batch_wire L) pre ++ [concat chunks] ++ flat_map (batch_wire L) post.
Proof. exact reporter_later_batch. Qed.
Print Assumptions C15_reporter_later_batch.

(* ---- non-vacuity: the hypotheses are satisfiable on concrete instances ---- *)

Example C15_max_length_nonneg : 0 <= udp_max_length.
Proof. vm_compute. discriminate. Qed.

(* refused write, more traffic, Flush (nothing sent), then a clean message *)
Example C15_example_history :
  let ops := [Write [1;2;3;4]; Write [5;6;7]; WriteByte 8; Flush true;
              WriteString [9]; WriteByte 10; Flush true; Flush false; Close true; Write [1]; Close true] in
  ds 5 fresh ops = [[9;10]] /\
  rs 5 fresh ops = [Ok; ErrTooBig; ErrPoisoned; ErrPoisoned; Ok; Ok; Ok; ErrSend; Ok; ErrNotOpen; Ok] /\
  spec 5 (Some []) false ops = [[9;10]].
Proof. vm_compute. auto. Qed.

(* C15_next_message_clean / C15_oversize_refused_nothing_sent: h leaves the transport
   open with a poisoned message; the hypotheses hold *)
Example C15_example_next_message :
  let h := [Write [1;2;3;4]; Write [5;6;7]] in
  closed (st 5 fresh h) = false /\ poisoned (st 5 fresh h) = true /\
  Forall is_msg [WriteString [9]; IsOpen; WriteByte 10] /\
  zlen (payloads [WriteString [9]; IsOpen; WriteByte 10]) <= 5 /\
  ds 5 fresh (h ++ [Flush true] ++ [WriteString [9]; IsOpen; WriteByte 10] ++ [Flush true]) = [[9;10]] /\
  5 < zlen (payloads [Write [1;2;3]; Write [4;5;6]]) /\
  ds 5 fresh (h ++ [Flush true] ++ [Write [1;2;3]; Write [4;5;6]] ++ [Flush true]) = [].
Proof. vm_compute. repeat split; try discriminate; repeat constructor. Qed.

(* three destinations, destination 0's socket dead: 1 and 2 get both messages *)
Example C15_example_multi :
  let ms := [MWrite [1;2]; MFlush [false; true; true]; MWrite [3]; MFlush [false; true; true]] in
  closes_ok ms /\
  dest_ds 0 (mos 5 (repeat fresh 3) ms) = [] /\
  dest_ds 1 (mos 5 (repeat fresh 3) ms) = [[1;2]; [3]] /\
  dest_ds 2 (mos 5 (repeat fresh 3) ms) = [[1;2]; [3]] /\
  mrs 5 (repeat fresh 3) ms = [Ok; ErrSend; Ok; ErrSend] /\
  all_true [MWrite [1;2]; MFlush [true; true; true]; MClose []].
Proof. vm_compute. repeat split; repeat constructor. Qed.

(* an oversized batch, a failed send, then a normal batch *)
Example C15_example_reporter :
  emits (emit 5) fresh [([[1;2;3];[4;5;6]], true, true); ([[7]], false, false); ([[8];[9]], true, true)] =
  (fresh, [false; false; true], [[8;9]]).
Proof. vm_compute. reflexivity. Qed.
