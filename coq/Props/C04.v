(* C04 — reported names and tags follow the scope derivation.
   Only the property theorems; proofs are in Proof/DerivP.v.

   Setting of every theorem: a root built from (raw prefix rp, raw tags rt,
   separator and sanitizer in c), any history h of SubScope / Tagged / metric
   calls on any scopes, then the derivation program prog from the root, then a
   metric getter of any kind with name n on the derived scope.  ok_map /
   ok_hist / ok_prog: every tag key is, after sanitization, free of '+' ','
   '=' and every tag value free of '+' ',' (C05's hypothesis; names, prefix
   and separator are arbitrary byte strings).  Outside it a derivation can be
   answered with another identity's scope: Refuted/C04_refuted.v.

   Caller-map aliasing (the library copies the maps handed to it and never
   writes to them) is checked on the implementation only: the model's maps are
   immutable values. *)
From Coq Require Import ZArith List Bool Permutation.
From Tally Require Import Base.ObsCore Model.KeyGen Model.Deriv Proof.KeyGenP Proof.DerivP.
Import ListNotations.
Open Scope Z_scope.

(* The delivered name is the fold of
     qual p n = if p = "" then n else p ++ sep ++ n
   over the sanitized root prefix, the sanitized subscope names in order and
   the sanitized metric name. *)
Theorem C04_name_spec : forall c rp rt h prog kind n,
  ok_map c rt -> ok_hist c h -> ok_prog c prog ->
  let s := run c (init c rp rt) h in
  let d := derive c s 0 prog in
  let g := step c (fst d) (CMet (snd d) kind n) in
  exists tags,
    delivered c (fst g) (snd g) =
      Some (qfold (csep c) (sname (csan c) rp)
              (map (sname (csan c)) (sub_names prog) ++ [sname (csan c) n]), tags).
Proof. exact c04_name_spec. Qed.
Print Assumptions C04_name_spec.

(* With a non-empty root prefix this is the separator-join of all components. *)
Theorem C04_join : forall c rp rt h prog kind n,
  ok_map c rt -> ok_hist c h -> ok_prog c prog -> sname (csan c) rp <> [] ->
  let s := run c (init c rp rt) h in
  let d := derive c s 0 prog in
  let g := step c (fst d) (CMet (snd d) kind n) in
  exists tags,
    delivered c (fst g) (snd g) =
      Some (sjoin (csep c) (sname (csan c) rp ::
              map (sname (csan c)) (sub_names prog) ++ [sname (csan c) n]), tags).
Proof. exact c04_join. Qed.
Print Assumptions C04_join.

(* An empty root prefix contributes no leading separator: the first component
   is taken bare and the fold continues from it. *)
Theorem C04_empty_root_prefix : forall c rp rt h prog kind n,
  ok_map c rt -> ok_hist c h -> ok_prog c prog -> sname (csan c) rp = [] ->
  let s := run c (init c rp rt) h in
  let d := derive c s 0 prog in
  let g := step c (fst d) (CMet (snd d) kind n) in
  exists tags,
    delivered c (fst g) (snd g) =
      Some (match map (sname (csan c)) (sub_names prog) ++ [sname (csan c) n] with
            | [] => []
            | x :: l => qfold (csep c) x l
            end, tags).
Proof. exact c04_empty_root_prefix. Qed.
Print Assumptions C04_empty_root_prefix.

(* The delivered tag set is the left-to-right overlay (mergeRightTags) of the
   sanitized root tags and every sanitized Tagged map: for every key the
   rightmost Tagged map holding it wins, else the root's binding. *)
Theorem C04_tags_spec : forall c rp rt h prog kind n,
  ok_map c rt -> ok_hist c h -> ok_prog c prog ->
  let s := run c (init c rp rt) h in
  let d := derive c s 0 prog in
  let g := step c (fst d) (CMet (snd d) kind n) in
  exists name tags,
    delivered c (fst g) (snd g) = Some (name, tags) /\
    tags_eq tags (spec_tags c (san_map (csan c) rt) prog) /\
    forall k, lookup k tags = eff (san_map (csan c) rt :: map (san_map (csan c)) (tag_maps prog)) k.
Proof. exact c04_tags_spec. Qed.
Print Assumptions C04_tags_spec.

(* A scope's record (prefix, tags) and the name and tags a metric is delivered
   under never change over any further history (no hypothesis at all). *)
Theorem C04_tags_stable : forall c s h h' id sc mid d,
  (nth_error (scopes (run c s h)) id = Some sc ->
   nth_error (scopes (run c (run c s h) h')) id = Some sc) /\
  (delivered c (run c s h) mid = Some d ->
   delivered c (run c (run c s h) h') mid = Some d).
Proof. exact c04_tags_stable. Qed.
Print Assumptions C04_tags_stable.

(* For a map whose sanitized keys stay distinct the result of
   copyAndSanitizeMap does not depend on Go's enumeration order. *)
Theorem C04_sanitize_order_independent : forall z m m',
  NoDup (map (fun kv => skey z (fst kv)) m) -> Permutation m m' ->
  tags_eq (san_map z m) (san_map z m').
Proof. exact c04_sanitize_order_independent. Qed.
Print Assumptions C04_sanitize_order_independent.

(* non-vacuity: prefix "p", separator "." (default), root tag e=1; history: a
   Tagged on the root; program SubScope("s").Tagged{a:2,e:3}.SubScope("").Tagged{a:4};
   Counter("m") is delivered as "p.s..m" with tags {e:3, a:4}; with an empty
   root prefix as "s..m" *)
Example C04_example :
  let c := mk_cfg id_san [] in
  let prog := [DSub [115]; DTag [([97],[50]); ([101],[51])]; DSub []; DTag [([97],[52])]] in
  let s := run c (init c [112] [([101],[49])]) [CTag 0 [([120],[121])]] in
  let d := derive c s 0 prog in
  let g := step c (fst d) (CMet (snd d) 1 [109]) in
  delivered c (fst g) (snd g) = Some ([112;46;115;46;46;109], [([101],[51]); ([97],[52])]) /\
  (let s' := run c (init c [] [([101],[49])]) [] in
   let d' := derive c s' 0 prog in
   let g' := step c (fst d') (CMet (snd d') 1 [109]) in
   option_map fst (delivered c (fst g') (snd g')) = Some [115;46;46;109]).
Proof. vm_compute. split; reflexivity. Qed.

Example C04_hypotheses_example :
  let c := mk_cfg id_san [] in
  ok_map c [([101],[49])] /\ ok_hist c [CTag 0 [([120],[121])]] /\
  ok_prog c [DSub [115]; DTag [([97],[50]); ([101],[51])]; DSub []; DTag [([97],[52])]].
Proof.
  pose proof ParamsOkKey.plus_ne_comma.
  cbv zeta. unfold ok_map, ok_hist, ok_prog, ok_call, ok_dop, ok_map, kclean, vclean. cbn.
  repeat split; repeat constructor; cbn; try tauto;
    repeat split; intros Hh; repeat (destruct Hh as [Hh|Hh]; try (vm_compute in Hh; discriminate)); auto.
Qed.
