(* C06 - everything handed to a reporter is sanitized; valid input passes unchanged.
   Statements only; proofs in Proof/Utf8P.v, Proof/SanitizeP.v, Proof/SanScopeP.v,
   Proof/ParamsOkSanitize.v.  Quantification: ALL byte strings s (lists of
   Z with [is_bytes s]; valid_unchanged and noop_passthrough do not even need
   that), ALL range lists (empty, single-rune, inverted, overlapping,
   negative or > 0x10FFFF end points), ALL extra characters, ALL replacement
   runes (invalid ones - surrogates, negative, > 0x10FFFF - are written as
   U+FFFD = [norm rep]; ones that are not themselves allowed included).
   [sanitize] is the model of sanitizeFn on the recommended tree
   (patches/fix-C06-invalid-byte.patch, fix-C06-cardinality-tags.patch);
   the pinned behaviour is refuted in Refuted/C06_refuted.v. *)
From Coq Require Import ZArith List Bool String.
From Tally Require Import Base.ObsCore Gen.Params Model.Utf8 Proof.Utf8P Model.Sanitize Proof.SanitizeP
  Model.SanScope Proof.SanScopeP Proof.ParamsOkSanitize.
Import ListNotations.
Open Scope Z_scope.

(* the tables mean what the documentation says: inclusive at both ends *)
Theorem C06_allowed_spec : forall ranges chars r,
  allowedb ranges chars r = true <->
  (exists p, In p ranges /\ fst p <= r <= snd p) \/ In r chars.
Proof. exact allowedb_spec. Qed.
Print Assumptions C06_allowed_spec.

(* a string all of whose runes are allowed - and which, when U+FFFD is itself
   allowed, has no invalid byte hiding behind a U+FFFD - is returned unchanged *)
Theorem C06_valid_unchanged : forall ranges chars rep s,
  Forall (fun r => allowedb ranges chars r = true) (runes s) ->
  (allowedb ranges chars RuneError = true -> valid_utf8 s = true) ->
  sanitize ranges chars rep s = s.
Proof. exact (fun ranges chars rep s => valid_unchanged (allowedb ranges chars) rep s). Qed.
Print Assumptions C06_valid_unchanged.

Example C06_valid_unchanged_ex :
  let s := [97; 122; 95; 65; 90; 48; 57; 0xEF; 0xBF; 0xBD] in   (* "az_AZ09�" *)
  let ranges := alphanumeric_ranges ++ [(0xFFFD, 0xFFFD)] in
  Forall (fun r => allowedb ranges underscore_chars r = true) (runes s) /\
  valid_utf8 s = true /\ sanitize ranges underscore_chars 45 s = s.
Proof. cbv zeta. split; [repeat constructor|split; vm_compute; reflexivity]. Qed.

(* every rune of the output is allowed or is the (normalised) replacement *)
Theorem C06_output_allowed : forall ranges chars rep s, is_bytes s = true ->
  Forall (fun r => allowedb ranges chars r = true \/ r = norm rep)
         (runes (sanitize ranges chars rep s)).
Proof. exact (fun ranges chars rep s => output_allowed (allowedb ranges chars) rep s). Qed.
Print Assumptions C06_output_allowed.

Example C06_output_allowed_ex :   (* "a-béz{" with an invalid replacement rune: every bad rune becomes U+FFFD *)
  runes (sanitize alphanumeric_ranges underscore_chars (-1) [97; 45; 98; 0xC3; 0xA9; 122; 123])
  = [97; 0xFFFD; 98; 0xFFFD; 122; 0xFFFD] /\ norm (-1) = 0xFFFD.
Proof. split; vm_compute; reflexivity. Qed.

(* position by position: an allowed rune that is not an invalid byte is kept,
   everything else becomes the replacement *)
Theorem C06_runes_pointwise : forall ranges chars rep s, is_bytes s = true ->
  runes (sanitize ranges chars rep s) =
  map (fun u => if allowedb ranges chars (fst u) && negb (bad_unit u) then fst u else norm rep)
      (units_of s).
Proof. exact (fun ranges chars rep s => runes_sanitize (allowedb ranges chars) rep s). Qed.
Print Assumptions C06_runes_pointwise.

(* idempotent - for EVERY replacement rune.  The hypothesis one might expect
   ("the replacement is itself allowed") is not needed on the level of
   strings: a replacement that is not allowed is replaced again by itself,
   an invalid one was written as U+FFFD and is either kept or replaced by
   U+FFFD again; and the first pass leaves no invalid byte behind. *)
Theorem C06_idempotent : forall ranges chars rep s, is_bytes s = true ->
  sanitize ranges chars rep (sanitize ranges chars rep s) = sanitize ranges chars rep s.
Proof. exact (fun ranges chars rep s => idempotent (allowedb ranges chars) rep s). Qed.
Print Assumptions C06_idempotent.

Example C06_idempotent_ex :   (* replacement '-' is NOT allowed, input has an invalid byte and a surrogate half *)
  let f := sanitize alphanumeric_ranges underscore_chars 45 in
  let s := [97; 0xFF; 46; 0xED; 0xA0; 0x80; 122] in
  f s = [97; 45; 45; 45; 45; 45; 122] /\ f (f s) = f s /\ allowedb alphanumeric_ranges underscore_chars 45 = false.
Proof. cbv zeta. repeat split; vm_compute; reflexivity. Qed.

(* deterministic: [sanitize] is a function of its arguments - there is nothing
   to prove in the model; the harness checks it on the implementation (repeated
   and concurrent calls over the pooled buffers) *)
Theorem C06_deterministic : forall ranges chars rep s1 s2,
  s1 = s2 -> sanitize ranges chars rep s1 = sanitize ranges chars rep s2.
Proof. exact (fun ranges chars rep s1 s2 H => f_equal (sanitize ranges chars rep) H). Qed.
Print Assumptions C06_deterministic.

(* the number of runes is preserved (an invalid byte counts as one rune, as in Go) *)
Theorem C06_rune_count : forall ranges chars rep s, is_bytes s = true ->
  List.length (runes (sanitize ranges chars rep s)) = List.length (runes s).
Proof. exact (fun ranges chars rep s => rune_count (allowedb ranges chars) rep s). Qed.
Print Assumptions C06_rune_count.

Example C06_rune_count_ex :   (* 4 KiB-style mix: truncated 4-byte sequence = 3 invalid bytes = 3 runes *)
  let s := [0xF0; 0x9F; 0x98; 97; 0xE2; 0x82; 0xAC] in
  List.length (runes s) = 5%nat /\ sanitize [] [] 0x20AC s = [0xE2;0x82;0xAC; 0xE2;0x82;0xAC; 0xE2;0x82;0xAC; 0xE2;0x82;0xAC; 0xE2;0x82;0xAC].
Proof. split; vm_compute; reflexivity. Qed.

(* an invalid byte sequence is replaced, never passed through: the output is
   well-formed UTF-8 and every invalid byte of the input became the replacement *)
Theorem C06_invalid_replaced : forall ranges chars rep s, is_bytes s = true ->
  valid_utf8 (sanitize ranges chars rep s) = true /\
  is_bytes (sanitize ranges chars rep s) = true /\
  Forall2 (fun u r => bad_unit u = true -> r = norm rep)
          (units_of s) (runes (sanitize ranges chars rep s)).
Proof.
  exact (fun ranges chars rep s HB =>
    conj (output_valid_utf8 (allowedb ranges chars) rep s HB)
      (conj (output_bytes (allowedb ranges chars) rep s HB)
            (invalid_replaced (allowedb ranges chars) rep s HB))).
Qed.
Print Assumptions C06_invalid_replaced.

Example C06_invalid_replaced_ex :   (* U+FFFD allowed, nothing replaced before the invalid byte: the pinned tree returns the input *)
  sanitize [(0, 0x10FFFF)] [] 95 [97; 0xFF; 98] = [97; 95; 98] /\ valid_utf8 [97; 0xFF; 98] = false.
Proof. split; vm_compute; reflexivity. Qed.

(* without sanitize options every string is passed through byte for byte *)
Theorem C06_noop_passthrough : forall k s, san None k s = s.
Proof. exact (fun k s => eq_refl). Qed.
Print Assumptions C06_noop_passthrough.

(* concatenation closure (the assumption at scope.go:570): a fully qualified
   name built from sanitized pieces needs no second pass *)
Theorem C06_fqn_allowed : forall ranges chars rep p sep n,
  is_bytes p = true -> is_bytes sep = true -> is_bytes n = true ->
  let f := sanitize ranges chars rep in
  runes (f p ++ f sep ++ f n) = runes (f p) ++ runes (f sep) ++ runes (f n) /\
  Forall (fun r => allowedb ranges chars r = true \/ r = norm rep) (runes (f p ++ f sep ++ f n)).
Proof.
  intros ranges chars rep p sep n Hp Hs Hn f.
  assert (E : runes (f p ++ f sep ++ f n) = runes (f p) ++ runes (f sep) ++ runes (f n)).
  { subst f. rewrite runes_app_encoded, runes_app_encoded;
      repeat first [reflexivity | apply encoded_app | apply sanitize_encoded | assumption]. }
  split; [exact E|]. rewrite E. repeat (apply Forall_app; split); apply C06_output_allowed; assumption.
Qed.
Print Assumptions C06_fqn_allowed.

(* scope level: for every SanitizeOptions, both reporter flavours, cardinality
   metrics on or off, every root prefix / separator / tags / cardinality tags
   and EVERY history of SubScope / Tagged / Counter / Gauge / Timer / Histogram
   operations, every name, tag key and tag value handed to the reporter
   (including the library's own cardinality gauges and their built-in tags)
   is well-formed UTF-8 made of allowed runes or the replacement *)
Definition delivery_clean (o : sopts) (d : delivery) : Prop :=
  (str_allowed o KName (d_name d) /\ valid_utf8 (d_name d) = true) /\
  Forall (fun kv => (str_allowed o KKey (fst kv) /\ valid_utf8 (fst kv) = true) /\
                    (str_allowed o KValue (snd kv) /\ valid_utf8 (snd kv) = true)) (d_tags d).

Theorem C06_scope_strings_allowed : forall o cached omit prefix sep t user ops,
  is_bytes prefix = true -> is_bytes sep = true -> tags_bytes t -> tags_bytes user ->
  Forall op_bytes ops ->
  Forall (delivery_clean o) (run (Cfg (Some o) cached omit true true) prefix sep t user ops).
Proof.
  intros o cached omit prefix sep t user ops Hp Hs Ht Hu Hops.
  eapply Forall_impl; [|exact (run_ok o cached omit prefix sep t user ops Hp Hs Ht Hu Hops)].
  intros d [Hn Htg]. split.
  - split; [apply Hn|exact (okstr_valid_utf8 o KName _ Hn)].
  - eapply Forall_impl; [|exact Htg]. intros kv [Hk Hv].
    split; (split; [apply Hk || apply Hv|]);
      [exact (okstr_valid_utf8 o KKey _ Hk)|exact (okstr_valid_utf8 o KValue _ Hv)].
Qed.
Print Assumptions C06_scope_strings_allowed.

Open Scope string_scope.
Example C06_scope_strings_allowed_ex :   (* prometheus tables, dirty everything, cardinality gauges on *)
  let bs := bytes_of_string in
  map (fun d => (d_kind d, d_name d, d_tags d))
      (run (Cfg (Some prometheus_default_opts) false false true true)
           (bs "my svc") [] [(bs "dc-1", bs "a.b")] []
           [OSub 0 (bs "x/y"); OMetric 1 1 (bs "hits{}")])
  = let ct := [(bs "host", bs "global"); (bs "instance", bs "global"); (bs "version", bs "4_1_17")] in
    [(2, bs "tally_internal_counter_cardinality", ct); (2, bs "tally_internal_gauge_cardinality", ct);
     (2, bs "tally_internal_histogram_cardinality", ct); (2, bs "tally_internal_num_active_scopes", ct);
     (1, bs "my_svc_x_y_hits__", [(bs "dc_1", bs "a_b")])].
Proof. vm_compute. reflexivity. Qed.
Close Scope string_scope.

(* shipped tables (Gen/Params.v): the replacement is a valid, allowed rune, so
   the output of a shipped sanitizer consists of allowed runes only *)
Theorem C06_shipped_output_all_allowed : forall o k s,
  In o shipped_opts -> is_bytes s = true ->
  Forall (fun r => allowed_of o k r = true) (runes (san (Some o) k s)).
Proof. exact shipped_output_all_allowed. Qed.
Print Assumptions C06_shipped_output_all_allowed.
