(* C14 — the M3 reporter never crashes, hangs or leaks, whatever the call order.
   Only the property theorems; proofs in Proof/M3CloseP.v (the protocol invariant
   and its preservation), Proof/M3CloseQ.v (consequences) and Proof/M3CloseFair.v (fair schedules).
   The system (Model/M3Close.v) is any pool of caller threads, each with any list
   of calls over {ReportCount v, ReportSamples v on the shared bucket handle,
   Flush, Close}, plus the batching goroutine process() (pick 0), over a queue of
   any capacity >= 1, under any schedule (list of picks), at the granularity of
   the atomic operations on done / pending / donech / metCh.  `shared` selects the
   bucket handle (false = per-call copy, true = the pinned shared value): the
   protocol theorems hold for both.
   Scope: these theorems are about the MODEL; data-race freedom and "no goroutine
   left after Close" are runtime clauses checked by the harness only
   (harness/vh/c14.go, c14storm.go), see props.json. *)
From Coq Require Import ZArith List Bool Arith.
From Tally Require Import Model.M3Close Proof.M3CloseP Proof.M3CloseQ Proof.M3CloseFair.
Import ListNotations.

(* no send on the closed queue (and the queue is never closed under a waiting
   sender): the error state is unreachable *)
Theorem C14_no_send_on_closed : forall shared cap progs sched, 1 <= cap ->
  panicked (run shared cap (init progs) sched) = false.
Proof. exact thm_no_send. Qed.
Print Assumptions C14_no_send_on_closed.

(* exactly one Close wins: in every reachable state (Close calls that returned
   nil) + (Close calls in progress) = (1 if done else 0); and a Close call that
   starts when done is set returns the error in one step, touching nothing else *)
Theorem C14_second_close_error : forall shared cap progs sched, 1 <= cap ->
  let s := run shared cap (init progs) sched in
  wsum nil_results (thr s) + wsum closing (thr s) = (if done s then 1 else 0) /\
  forall i t, nth_error (thr s) i = Some t -> tloc t = LIdle ->
    hd_error (ops t) = Some OClose -> done s = true ->
    let s' := step shared cap s (S i) in
    nth_error (thr s') i = Some (finish_close t 1) /\ panicked s' = false /\
    pending s' = pending s /\ q s' = q s /\ out s' = out s.
Proof. exact thm_second_close. Qed.
Print Assumptions C14_second_close_error.

(* once a Close has returned nil, whatever anybody calls afterwards enqueues
   nothing and delivers nothing: the queue is and stays empty, the consumer's
   output does not change *)
Theorem C14_after_close_noop : forall shared cap progs sched sched', 1 <= cap ->
  let s := run shared cap (init progs) sched in
  0 < wsum nil_results (thr s) ->
  let s' := run shared cap s sched' in
  q s = [] /\ kl s = KDone /\ out s' = out s /\ q s' = [] /\ panicked s' = false.
Proof. exact thm_after_close. Qed.
Print Assumptions C14_after_close_noop.

(* safety form of deadlock freedom: in every reachable state in which some call
   has not returned, some pick makes progress (is neither blocked nor a spin
   that sees pending > 0); process() is part of the pool (pick 0) *)
Theorem C14_deadlock_free : forall shared cap progs sched, 1 <= cap ->
  let s := run shared cap (init progs) sched in
  all_finished s = false -> exists j, enabled cap s j = true.
Proof. exact thm_deadlock_free. Qed.
Print Assumptions C14_deadlock_free.

(* Under EVERY fair schedule every call, in particular every Close, returns.  A schedule is an
   infinite sequence of picks f; it is fair when every pick (the consumer 0 and every caller
   thread) occurs infinitely often.  Then there is a time T such that after any T' >= T steps every
   call of every thread has returned, and if anybody called Close, process() has exited and the
   queue is empty.  (Blocked and spinning picks are part of the schedule: a fair scheduler may
   well pick a blocked goroutine; such a step changes nothing but its registration as waiting.) *)
Theorem C14_close_terminates_fair : forall shared cap progs (f : nat -> nat), 1 <= cap ->
  (forall j, j <= length progs -> forall t, exists t', t <= t' /\ f t' = j) ->
  exists T, forall T', T <= T' ->
  let s := run shared cap (init progs) (map f (seq 0 T')) in
  all_finished s = true /\ (done s = true -> kl s = KDone /\ q s = []).
Proof. exact fair_terminates. Qed.
Print Assumptions C14_close_terminates_fair.

(* the finite form with its bound: a schedule made of mu(init) segments, in each of which every
   pick occurs at least once, finishes every call (mu = sum over threads of the steps they can
   still make + 2 * queue length + the consumer's remaining exits) *)
Theorem C14_close_terminates_segments : forall shared cap progs segs, 1 <= cap ->
  Forall (fun seg => forall j, j <= length progs -> In j seg) segs ->
  mu (init progs) <= length segs ->
  all_finished (run shared cap (init progs) (concat segs)) = true.
Proof. exact segments_terminate. Qed.
Print Assumptions C14_close_terminates_segments.

(* the instance used by the examples below: round-robin (process(), thread 0, ..., thread n-1) *)
Theorem C14_close_terminates_round_robin : forall shared cap progs, 1 <= cap ->
  let s := run shared cap (init progs) (rounds (length progs) (mu (init progs))) in
  all_finished s = true /\ (done s = true -> kl s = KDone /\ q s = []).
Proof. exact thm_terminates. Qed.
Print Assumptions C14_close_terminates_round_robin.

(* the repaired bucket handle: every sample a caller enqueues carries the
   argument of that very call (sent = pairs (argument, enqueued value)) *)
Theorem C14_bucket_sample_own_value : forall cap progs sched t,
  In t (thr (run false cap (init progs) sched)) -> Forall (fun p => fst p = snd p) (sent t).
Proof. exact own_values. Qed.
Print Assumptions C14_bucket_sample_own_value.

(* ---- non-vacuity ---- *)
Open Scope Z_scope.
Definition ex_pool : list (list op) :=
  [[OReport 7; OReport 8; OClose]; [OSample 3; OFlush; OClose; OReport 9]].

(* the whole pool runs to completion: one nil Close, one error, the report made
   after Close is not delivered, the sample carries its own value *)
Example C14_example_run :
  let s := run false 1 (init ex_pool) (rounds 2 (mu (init ex_pool))) in
  (all_finished s, done s, kl s, List.rev (out s), map (fun t => List.rev (res t)) (thr s), map sent (thr s), panicked s)
  = (true, true, KDone, [7; 3; 8; -2], [[0]; [1]], [[]; [(3, 3)]], false).
Proof. vm_compute. reflexivity. Qed.

(* a reachable state with the queue full, two senders about to block and a
   flush in flight: the consumer is the enabled pick *)
Example C14_example_full_queue :
  let s := run false 1 (init [[OReport 7; OFlush]; [OClose]; [OSample 3; OClose]])
               [1;1;1;1;1;1;1;1;1;1;1;3;3;3;3]%nat in
  (map tloc (thr s), q s, pending s) = ([LSend; LIdle; LSend], [7], 3%nat) /\
  all_finished s = false /\
  (enabled 1 s 0, enabled 1 s 1, enabled 1 s 2, enabled 1 s 3) = (true, false, true, false).
Proof. vm_compute. repeat split. Qed.

(* a second Close in a reachable state with done set *)
Example C14_example_second_close :
  let s := run false 2 (init [[OClose]; [OClose]]) [1;1;1;1;0;0;1]%nat in
  done s = true /\ map (fun t => res t) (thr s) = [[0]; []] /\
  map (fun t => res t) (thr (step false 2 s 2)) = [[0]; [1]].
Proof. vm_compute. repeat split. Qed.
