(* C10 — timers are forwarded immediately, exactly once; stopwatches measure
   elapsed time; instrumented calls.  This file holds only the property
   theorems; the model is Model/Timer.v, the proofs are in Proof/TimerP.v.

   Everything is stated for an arbitrary sanitizer sz (three functions on
   strings: names, tag keys, tag values; [san_id] when the scope has no
   SanitizeOptions): scope.Timer(n) in a scope with (joinable) prefix P and
   tags T is the timer with key (P, T, sn sz n), and a delivery carries
   kstrs key = P ++ sn sz n (the sanitized fully qualified name) and T.

   Histories may close scopes (OClose): a closed scope is dropped from the
   registry, and its metric tables cleared, by the next report pass (closing
   the root: a final pass, then everything is dropped); the key of a timer
   carries the epoch of its scope's tables, so the same name requested after
   such a pass is a new timer.  The theorems hold across all of that: a Record
   on any handle, of a closed scope or not, is delivered exactly once.

   Vocabulary.  A history is a list of API calls ([op]) over handles numbered
   in creation order; [run sz fl clk root ops] is the model state after the
   history on a root scope of flavour fl (plain reporter, cached reporter,
   reporter-less test scope, both a plain and a cached reporter) with root = (prefix, tags), the i-th reading of
   the clock returning [clk i].  [records sz fl clk root ops] is the specification:
   the list of (timer, value) pairs the history asks to be recorded, in order
   (one per Record on a valid handle, one per Stop of a timer's stopwatch, one
   per Exec), computed from the API contract alone.  [delivered fl s acc] says
   that the timer deliveries visible in state s are exactly acc, in that order:
     plain  : the ReportTimer(name, tags, d) calls in the reporter's log are
              (fully qualified name, tags, d) of acc, in order, and there is
              no ReportTimer(d) call on a cached handle;
     cached, both : the ReportTimer(d) calls on handles, each resolved to the
              name and tags its handle was allocated with, likewise, and there
              is no plain ReportTimer(name, tags, d) call (the cached timer
              takes precedence);
     test   : for every timer, its unreported values are the values of acc
              for that timer, in order. *)
From Coq Require Import ZArith List Bool.
From Tally Require Import Base.ObsCore Model.Buckets Model.Sanitize Model.Timer Proof.TimerP.
Import ListNotations.
Open Scope Z_scope.

(* For ALL flavours, clocks, roots and histories, after EVERY prefix of the
   history the deliveries are exactly the records of that prefix (nothing
   missing, nothing twice, nothing buffered, order kept); in particular a
   Record(d) is visible in the very next state with the timer's own name and
   tags, and a report pass changes nothing. *)
Theorem C10_record_once_sync :
  forall sz fl clk root,
  (forall ops pre post, ops = pre ++ post ->
     delivered fl (run sz fl clk root pre) (records sz fl clk root pre)) /\
  (forall pre t d oi o,
     nth_error (thand (run sz fl clk root pre)) t = Some oi ->
     nth_error (timers (run sz fl clk root pre)) oi = Some o ->
     delivered fl (step sz fl clk (run sz fl clk root pre) (ORecord t d))
               (records sz fl clk root pre ++ [(tkey o, d)])) /\
  (forall pre, delivered fl (step sz fl clk (run sz fl clk root pre) OPass) (records sz fl clk root pre)).
Proof.
  intros sz fl clk root. split; [|split].
  - intros ops pre post _. exact (record_once_sync sz fl clk root pre).
  - exact (record_immediately sz fl clk root).
  - exact (pass_adds_nothing sz fl clk root).
Qed.
Print Assumptions C10_record_once_sync.

(* scope.Timer(n) on a scope (prefix, tags) gives a handle to the timer
   identified by (prefix, tags, sanitized n): its deliveries carry
   prefix ++ sn sz n (prefix in joinable form: "" or prefix ++ separator) and tags *)
Theorem C10_timer_identity : forall sz fl clk root pre i n sc,
  nth_error (scopes (run sz fl clk root pre)) i = Some sc ->
  let s' := step sz fl clk (run sz fl clk root pre) (OTimer i n) in
  exists oi o, nth_error (thand s') (length (thand (run sz fl clk root pre))) = Some oi /\
               nth_error (timers s') oi = Some o /\ tkey o = mkkey sc (sn sz n) (ep_of (r_ep (sreg (run sz fl clk root pre))) sc).
Proof. exact timer_identity. Qed.
Print Assumptions C10_timer_identity.

(* Tagged(t): a key's value is its last binding in t, else the scope's own *)
Theorem C10_tagged_lookup : forall k p t,
  tlookup k (tmerge p t) = match tlookup k (List.rev t) with Some v => Some v | None => tlookup k p end.
Proof. exact tlookup_tmerge. Qed.
Print Assumptions C10_tagged_lookup.

(* cached reporter: AllocateTimer is called exactly once per timer object
   (distinct scope and name), with that timer's name and tags *)
Theorem C10_alloc_once : forall sz fl clk root ops,
  has_cached fl = true ->
  let s := run sz fl clk root ops in
  allocs (log s) = map (fun o => (tcid o, kstrs (tkey o))) (timers s) /\ NoDup (tkeys s).
Proof. exact alloc_once. Qed.
Print Assumptions C10_alloc_once.

(* A stopwatch started on a timer after any history and stopped after any
   further history records exactly one value on that timer:
   sat64 (clock at Stop - clock at Start), where sat64 is the identity on
   int64 (time.Time.Sub saturates outside). *)
Theorem C10_stopwatch_elapsed : forall sz fl clk root pre t mid oi o,
  let s0 := run sz fl clk root pre in
  nth_error (thand s0) t = Some oi -> nth_error (timers s0) oi = Some o ->
  let s1 := run sz fl clk root (pre ++ OStart t :: mid) in
  delivered fl (step sz fl clk s1 (OStop (length (sws s0))))
            (records sz fl clk root (pre ++ OStart t :: mid) ++
             [(tkey o, sat64 (clk (nclk s1) - clk (nclk s0)))]).
Proof. exact stopwatch_elapsed. Qed.
Print Assumptions C10_stopwatch_elapsed.

(* the same for a duration histogram's stopwatch: Stop is RecordDuration of
   the elapsed time (Model/Buckets.v decides the bucket) *)
Theorem C10_hist_stopwatch_elapsed : forall sz fl clk root pre h mid oi,
  let s0 := run sz fl clk root pre in
  nth_error (hhand s0) h = Some oi ->
  let s1 := run sz fl clk root (pre ++ OHStart h :: mid) in
  step sz fl clk s1 (OStop (length (sws s0))) =
  hrecord (set_nclk s1 (S (nclk s1))) oi (sat64 (clk (nclk s1) - clk (nclk s0))).
Proof. exact hist_stopwatch_elapsed. Qed.
Print Assumptions C10_hist_stopwatch_elapsed.

Theorem C10_elapsed_exact : forall z,
  (MINI <= z <= MAXI -> sat64 z = z) /\ MINI <= sat64 z <= MAXI.
Proof. intro z. split; [apply sat64_exact | apply sat64_range]. Qed.
Print Assumptions C10_elapsed_exact.

(* Exec on a call handle made by NewCall(scope, name), after any history:
   the function runs exactly once, Exec returns its outcome unchanged, the
   clock is read exactly twice, exactly one latency value
   sat64 (clock after f - clock before f) reaches the timer "latency" of
   SubScope(name), and exactly one of the counters name{result_type=error},
   name{result_type=success} grows by one (int64 arithmetic), every other
   counter keeping its value; the two counters are distinct objects as soon
   as the value sanitizer keeps "error" and "success" apart (any per-character
   sanitizer does: the lengths differ). *)
Theorem C10_exec : forall sz fl clk root pre c b ce cs ti,
  let s := run sz fl clk root pre in
  nth_error (calls s) c = Some (ce, cs, ti) ->
  let s' := step sz fl clk s (OExec c b) in
  exists cc, nth_error (e_calls (senv_of sz fl clk root pre)) c = Some cc /\
    fruns s' = fruns s ++ [(c, b)] /\
    rets s' = rets s ++ [b] /\
    nclk s' = S (S (nclk s)) /\
    delivered fl s' (records sz fl clk root pre ++
                     [(call_lat_key sz cc, sat64 (clk (S (nclk s)) - clk (nclk s)))]) /\
    let kx := if b then call_err_key sz cc else call_ok_key sz cc in
    pend_of s' kx = wrap64 (pend_of s kx + 1) /\
    (forall k, k <> kx -> pend_of s' k = pend_of s k) /\
    (sv sz R_ERROR <> sv sz R_SUCCESS -> call_err_key sz cc <> call_ok_key sz cc).
Proof. exact exec_spec. Qed.
Print Assumptions C10_exec.

(* Overlapping executions on one Call.  OBegin c: calls[c].Exec(f) has started
   and is inside f; OEnd x b: f of execution x returns (an error iff b) and
   Exec finishes.  For ANY history in between - further executions of the same
   Call included, begun and ended in any order (f calling Exec itself, other
   goroutines) - the end of an execution records, on the Call's latency timer,
   the time since that execution's OWN beginning, the function's outcome is
   returned unchanged, it is on record as having run once, the clock is read
   once, and exactly one of the two counters grows by one. *)
Theorem C10_exec_overlap : forall sz fl clk root pre c h mid b cc,
  let s0 := run sz fl clk root pre in
  nth_error (calls s0) c = Some h ->
  nth_error (e_calls (senv_of sz fl clk root pre)) c = Some cc ->
  let s1 := run sz fl clk root (pre ++ OBegin c :: mid) in
  let s' := step sz fl clk s1 (OEnd (length (execs s0)) b) in
  fruns s' = fruns s1 ++ [(c, b)] /\
  rets s' = rets s1 ++ [b] /\
  nclk s' = S (nclk s1) /\
  delivered fl s' (records sz fl clk root (pre ++ OBegin c :: mid) ++
                   [(call_lat_key sz cc, sat64 (clk (nclk s1) - clk (nclk s0)))]) /\
  let kx := if b then call_err_key sz cc else call_ok_key sz cc in
  pend_of s' kx = wrap64 (pend_of s1 kx + 1) /\
  (forall k, k <> kx -> pend_of s' k = pend_of s1 k).
Proof. exact exec_overlap. Qed.
Print Assumptions C10_exec_overlap.

(* A Timer(n) whose allocation the cached reporter refuses (AllocateTimer
   panics, the caller recovers) leaves nothing behind: the state is unchanged,
   so the name can be requested again - and then is allocated, or refused,
   afresh - and all the theorems above apply to what follows. *)
Theorem C10_refused_allocation : forall sz fl clk s i n,
  step sz fl clk s (OTimerRefused i n) = s.
Proof. reflexivity. Qed.
Print Assumptions C10_refused_allocation.

(* the next report pass hands each non-zero counter to the reporter, once, and resets it *)
Theorem C10_pass_counters : forall s,
  (forall c, In c (counters s) -> cpend c <> 0 ->
     In (Ev 1 [cpend c] (kstrs (ckey c))) (pass_events FPlain s) /\
     In (Ev 1 [cpend c] (kstrs (ckey c))) (pass_events FBoth s) /\
     In (Ev 21 [ccid c; cpend c] []) (pass_events FCached s)) /\
  (forall fl k, fl <> FTest ->
     pend_of (pass fl s) k = 0 /\ log (pass fl s) = log s ++ pass_events fl s).
Proof.
  intro s. split.
  - intros c Hc Hp. destruct (pass_counter_plain s c Hc Hp). split; [assumption|]. split; [assumption | now apply pass_counter_cached].
  - intros fl k Hf. split; [now apply pass_resets | now apply pass_log].
Qed.
Print Assumptions C10_pass_counters.

(* ------------------------------------------------------------------ *)
(* Non-vacuity: concrete histories satisfying the hypotheses above.     *)
Definition ex_clk (i : nat) : Z := nth i [100; 350; 1000; 1007] 0.
Definition ex_root : bytes * tags := ([112], [([104], [120])]).          (* prefix "p", tags {h:x} *)
Definition ex_t : bytes := [116].                                       (* "t" *)

(* two handles of the same timer, records around report passes, plain reporter *)
Example C10_example_record :
  let ops := [OTimer 0 ex_t; ORecord 0 5; OPass; OTimer 0 ex_t; ORecord 1 (-7); OPass] in
  tlog_plain (log (run san_id FPlain ex_clk ex_root ops)) =
    [([[112;46;116]; [104]; [120]], [5]); ([[112;46;116]; [104]; [120]], [-7])] /\
  records san_id FPlain ex_clk ex_root ops = [(([112;46], [([104], [120])], ex_t, 0%nat), 5); (([112;46], [([104], [120])], ex_t, 0%nat), -7)] /\
  tlog_cached (log (run san_id FCached ex_clk ex_root ops)) = tlog_plain (log (run san_id FPlain ex_clk ex_root ops)) /\
  tlog_cached (log (run san_id FBoth ex_clk ex_root ops)) = tlog_plain (log (run san_id FPlain ex_clk ex_root ops)) /\
  tlog_plain (log (run san_id FBoth ex_clk ex_root ops)) = [] /\
  unrep_of (timers (run san_id FTest ex_clk ex_root ops)) ([112;46], [([104], [120])], ex_t, 0%nat) = [5; -7].
Proof. vm_compute. repeat split; reflexivity. Qed.

Example C10_example_stopwatch :
  let pre := [OTimer 0 ex_t] in
  let s0 := run san_id FCached ex_clk ex_root pre in
  nth_error (thand s0) 0 = Some 0%nat /\
  nth_error (timers s0) 0 = Some (TObj ([112;46], [([104], [120])], ex_t, 0%nat) 0 []) /\
  tlog_cached (log (step san_id FCached ex_clk (run san_id FCached ex_clk ex_root (pre ++ OStart 0 :: [OPass]))
                         (OStop (length (sws s0))))) =
    [([[112;46;116]; [104]; [120]], [250])].
Proof. vm_compute. repeat split; reflexivity. Qed.

Example C10_example_exec :
  let pre := [OCall 0 [114;112;99]] in                                   (* NewCall(root, "rpc") *)
  let s := run san_id FPlain ex_clk ex_root pre in
  nth_error (calls s) 0 = Some (0%nat, 1%nat, 0%nat) /\
  let s' := step san_id FPlain ex_clk (step san_id FPlain ex_clk s (OExec 0 true)) OPass in
  log s' = [Ev 3 [250] [[112;46;114;112;99;46;108;97;116;101;110;99;121]; [104]; [120]];
            Ev 1 [1] [[112;46;114;112;99]; [104]; [120]; RESULT_TYPE; R_ERROR];
            Ev 6 [] []] /\
  fruns s' = [(0%nat, true)] /\ rets s' = [true].
Proof. vm_compute. repeat split; reflexivity. Qed.

(* a sanitizing scope (letters, digits and '_' allowed, replacement '_') with a
   cached reporter: the timer is allocated, and delivered, under the sanitized
   fully qualified name "svc_rpc_latency__ms_" *)
Definition ex_opts : option sopts :=
  let t := VC [(97, 122); (65, 90); (48, 57)] [95] in Some (SO t t t 95).
Definition ex_san : sanz := San (san ex_opts Sanitize.KName) (san ex_opts Sanitize.KKey) (san ex_opts Sanitize.KValue).
Example C10_example_sanitized :
  let ops := [OTimer 0 [114;112;99;32;108;97;116;101;110;99;121;32;40;109;115;41]; ORecord 0 5] in
  let s := run ex_san FCached ex_clk ([115;118;99], []) ops in
  tlog_cached (log s) = [([[115;118;99;95;114;112;99;95;108;97;116;101;110;99;121;95;95;109;115;95]], [5])] /\
  allocs (log s) = [(0, [[115;118;99;95;114;112;99;95;108;97;116;101;110;99;121;95;95;109;115;95]])].
Proof. vm_compute. split; reflexivity. Qed.

(* Close: a timer obtained from a closed scope still delivers; once a report
   pass has dropped the scope (and cleared its tables) the same name is a new
   timer, allocated again *)
Example C10_example_closed_scope :
  let ops := [OSub 0 [115]; OClose 1; OTimer 1 ex_t; ORecord 0 5; OPass; OTimer 1 ex_t; ORecord 1 6; OClose 0;
              OTimer 1 ex_t; ORecord 2 7; OPass] in
  let s := run san_id FCached ex_clk ([], []) ops in
  tlog_cached (log s) = [([[115;46;116]], [5]); ([[115;46;116]], [6]); ([[115;46;116]], [7])] /\
  map fst (allocs (log s)) = [0; 1] /\ thand s = [0%nat; 1%nat; 1%nat].
Proof. vm_compute. repeat split; reflexivity. Qed.

(* two executions of one Call overlap (begun at 100 and 350, ended at 1000 and
   1007, first begun first ended): each records the time since its own start *)
Example C10_example_overlap :
  let ops := [OCall 0 [114;112;99]; OBegin 0; OBegin 0; OEnd 0 true; OEnd 1 false] in
  let s := run san_id FPlain ex_clk ex_root ops in
  map ei (filter (fun e => ek e =? 3) (log s)) = [[900]; [657]] /\
  fruns s = [(0%nat, true); (0%nat, false)] /\ rets s = [true; false] /\
  map cpend (counters s) = [1; 1].
Proof. vm_compute. repeat split; reflexivity. Qed.
