(* C10 — sensitivity witnesses (nothing here is a defect of the pinned tree).
   They document why the theorems are stated the way they are. *)
From Coq Require Import ZArith List Bool.
From Tally Require Import Base.ObsCore Model.Buckets Model.Timer Proof.TimerP.
Import ListNotations.
Open Scope Z_scope.

(* "recorded = now_at_stop - now_at_start" cannot hold literally for all
   int64 clock readings: the difference may not fit a time.Duration, and
   time.Time.Sub saturates.  Hence sat64 in C10_stopwatch_elapsed. *)
Theorem C10_unsaturated_difference_refuted :
  exists a b, MINI <= a <= MAXI /\ MINI <= b <= MAXI /\ sat64 (a - b) <> a - b.
Proof. exists MAXI, (-1). vm_compute. repeat split; discriminate. Qed.
Print Assumptions C10_unsaturated_difference_refuted.

(* A model mutant that also buffered timer values and handed them to the
   reporter on the next report pass is told apart by the specification: after
   [Record 5; pass] the plain log would hold the value twice. *)
Definition buffering_pass (s : state) : state :=
  add_log s (flat_map (fun e => if ek e =? 3 then [e] else []) (log s)).
Theorem C10_buffering_mutant_refuted :
  let ops := [OTimer 0 [116]; ORecord 0 5] in
  let s := buffering_pass (run san_id FPlain (fun _ => 0) ([], []) ops) in
  ~ delivered FPlain s (records san_id FPlain (fun _ => 0) ([], []) (ops ++ [OPass])).
Proof. vm_compute. intros [Hh _]. discriminate. Qed.
Print Assumptions C10_buffering_mutant_refuted.

(* A model mutant whose Record forwards to the plain reporter as well as to
   the cached handle (no precedence) is told apart on a scope with both. *)
Theorem C10_no_precedence_mutant_refuted :
  let ops := [OTimer 0 [116]; ORecord 0 5] in
  let s := run san_id FBoth (fun _ => 0) ([], []) ops in
  ~ delivered FBoth (add_log s [Ev 3 [5] [[116]]]) (records san_id FBoth (fun _ => 0) ([], []) ops).
Proof. vm_compute. intros [_ Hh]. discriminate. Qed.
Print Assumptions C10_no_precedence_mutant_refuted.
