(* Sensitivity: without the re-check under the write lock two goroutines that both missed
   in the probe create two objects for one name, and Allocate is called twice. *)
From Coq Require Import List.
From Tally Require Import Model.FirstUse.
Import ListNotations.

Theorem C09_no_recheck_refuted :
  exists ths sched,
    let s := fold_left step_norecheck sched (init ths) in
    gets s = [((0, 0), 1); ((0, 0), 0)] /\ allocs s = [(0, 0); (0, 0)].
Proof.
  exists [ {| tpc := MIdle; cur := None; prog := [MGet (0, 0)] |};
           {| tpc := MIdle; cur := None; prog := [MGet (0, 0)] |} ], [0; 1; 0; 1].
  vm_compute. split; reflexivity.
Qed.
