(* C17 on the pinned tree (finding F17): summaryVec / histogramVec return the
   other flavour's nil field of a cached timers entry.  Witnesses by
   computation on the model with [fixed := false]; the same histories on the
   repaired model ([fixed := true]) give an error to the callback and the
   no-op metric (Props/C17.v, C17_conflict_never_nil). *)
From Coq Require Import ZArith List Bool.
From Tally Require Import Base.ObsCore Model.Buckets Model.Prom.
Import ListNotations.
Open Scope Z_scope.

Definition pinned (ty : Z) : cfg := Cfg false ty [] (fun _ => true).
Definition repaired (ty : Z) : cfg := Cfg true ty [] (fun _ => true).
Definition tg : list (str * str) := [([107], [118])].            (* {k: v} *)
Definition B12 : list Z := [4607182418800017408; 4611686018427387904].

(* AllocateTimer (summary flavour) then AllocateHistogram with the same name
   and tags: nil dereference although the callback would return *)
Theorem C17_timer_then_histogram_refuted :
  exists ops, In ONilDeref (snd (rrun (pinned 0) (init []) ops)) /\
              cblog (fst (rrun (pinned 0) (init []) ops)) = [].
Proof. exists [RAlloc UTimer [120] tg; RAlloc (UHist B12) [120] tg]. vm_compute. split; [right; left|]; reflexivity. Qed.
Print Assumptions C17_timer_then_histogram_refuted.

(* ... and the reverse *)
Theorem C17_histogram_then_timer_refuted :
  exists ops, In ONilDeref (snd (rrun (pinned 0) (init []) ops)) /\
              cblog (fst (rrun (pinned 0) (init []) ops)) = [].
Proof. exists [RAlloc (UHist B12) [120] tg; RAlloc UTimer [120] tg]. vm_compute. split; [right; left|]; reflexivity. Qed.
Print Assumptions C17_histogram_then_timer_refuted.

(* RegisterTimer with the histogram type on a reporter whose default is the
   summary type, then AllocateTimer: nil dereference; and RegisterTimer of the
   other flavour returns a nil vector with a nil error *)
Theorem C17_register_timer_refuted :
  In ONilDeref (snd (rrun (pinned 0) (init []) [RReg (RUTimer 1 []) [120] [[107]] [104]; RAlloc UTimer [120] tg])) /\
  In (ORegOk None) (snd (rrun (pinned 1) (init []) [RAlloc (UHist B12) [120] tg; RReg (RUTimer 0 []) [120] [[107]] [104]])).
Proof. vm_compute. split; right; left; reflexivity. Qed.
Print Assumptions C17_register_timer_refuted.

(* the same histories on the repaired reporter: error class 3 to the callback, no-op metric *)
Theorem C17_repaired_witnesses :
  snd (rrun (repaired 0) (init []) [RAlloc UTimer [120] tg; RAlloc (UHist B12) [120] tg]) =
    [OMetric (MReal (0%nat, [[118]])); OMetric MNoop] /\
  cblog (fst (rrun (repaired 0) (init []) [RAlloc UTimer [120] tg; RAlloc (UHist B12) [120] tg])) = [3] /\
  snd (rrun (repaired 0) (init []) [RAlloc (UHist B12) [120] tg; RAlloc UTimer [120] tg]) =
    [OMetric (MReal (0%nat, [[118]])); OMetric MNoop] /\
  snd (rrun (repaired 1) (init []) [RAlloc (UHist B12) [120] tg; RReg (RUTimer 0 []) [120] [[107]] [104]]) =
    [OMetric (MReal (0%nat, [[118]])); ORegErr 3].
Proof. vm_compute. repeat split; reflexivity. Qed.
Print Assumptions C17_repaired_witnesses.
