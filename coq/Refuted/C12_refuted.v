(* C12 on the pinned tree: the envelope allowance was 19 and a histogram
   bucket's two extra tags were charged by their string lengths only.  Each
   half is refuted on its own by the smallest overflowing history (one
   metric), in both protocols, with all hypotheses of C12_datagram_bound
   satisfied.  The numbers are those of the real encoder (harness witnesses
   replays/C12/corpus/F12-*.json produce the same datagram lengths on the
   pinned tree). *)
From Coq Require Import ZArith List Bool Lia.
From Tally Require Import Base.ObsCore Gen.Params Model.Varint Model.Thrift Model.M3Batch
  Proof.VarintP Proof.ThriftP Proof.M3BatchP.
Import ListNotations.
Open Scope Z_scope.

Definition w_common : list tag := [Tag [115;101;114;118;105;99;101] [115;118;99]; Tag [101;110;118] [116;101;115;116]].  (* service=svc env=test *)
Definition w_counter : alloc := Alloc 1 [99] None None.                     (* counter "c" *)
Definition w_gauge : alloc := Alloc 2 [103] None None.                      (* gauge "g" *)
(* bucket 0 of a value histogram "h" without tags: bucketid=0000, bucket=-infinity-0.000000 *)
Definition w_bucket : alloc :=
  Alloc 1 [104] (Some []) (Some ([48;48;48;48], [45;105;110;102;105;110;105;116;121;45;48;46;48;48;48;48;48;48])).
Definition w_ts : Z := 1700000000000000000.                                  (* a timestamp of 2023 *)

Ltac w_range := vm_compute; split; [discriminate | reflexivity].
Ltac w_report :=
  split; [ split; [ first [left; reflexivity | right; left; reflexivity | right; right; reflexivity]
                  | split; [ w_range | split; [ w_range | vm_compute; reflexivity ] ] ]
         | vm_compute; discriminate ].

(* the pinned allowance, Binary: MaxPacketSizeBytes 147 leaves freeBytes = 64 = the charge of one
   counter; the datagram carrying that one counter has 161 bytes (33 - 19 = 14 too many; the same
   excess for every batch of every composition, by C12_envelope_exact) *)
Theorem C12_pinned_allowance_binary_refuted : exists maxpkt ops mets seq,
  0 < free_bytes binary tt 19 maxpkt w_common /\
  Forall (op_ok binary m3_bucket_id_name m3_bucket_name tt tt (free_bytes binary tt 19 maxpkt w_common)) ops /\
  In mets (emitted binary m3_bucket_id_name m3_bucket_name tt 19 maxpkt w_common ops) /\
  Z.of_nat (length (datagram binary tt seq w_common mets)) = maxpkt + 14.
Proof.
  exists 147, [Report w_counter 1 w_ts], [wire m3_bucket_id_name m3_bucket_name w_counter 1 w_ts], 1.
  split; [vm_compute; reflexivity|]. split; [apply Forall_cons; [w_report | apply Forall_nil]|].
  split; [vm_compute; left; reflexivity | vm_compute; reflexivity].
Qed.
Print Assumptions C12_pinned_allowance_binary_refuted.

(* the pinned allowance, Compact: a gauge is charged 32 bytes and, with a current timestamp
   (9 of the 10 bytes charged), encodes in 31; MaxPacketSizeBytes 83 leaves freeBytes = 32; the
   datagram has 86 bytes (envelope 23 against 19, minus the one spare byte) *)
Theorem C12_pinned_allowance_compact_refuted : exists maxpkt ops mets seq,
  0 < free_bytes compact cps0 19 maxpkt w_common /\
  Forall (op_ok compact m3_bucket_id_name m3_bucket_name cps0 cps0 (free_bytes compact cps0 19 maxpkt w_common)) ops /\
  In mets (emitted compact m3_bucket_id_name m3_bucket_name cps0 19 maxpkt w_common ops) /\
  Z.of_nat (length (datagram compact cps0 seq w_common mets)) = maxpkt + 3.
Proof.
  exists 83, [Report w_gauge 4607182418800017408 w_ts], [wire m3_bucket_id_name m3_bucket_name w_gauge 4607182418800017408 w_ts], 1.
  split; [vm_compute; reflexivity|]. split; [apply Forall_cons; [w_report | apply Forall_nil]|].
  split; [vm_compute; left; reflexivity | vm_compute; reflexivity].
Qed.
Print Assumptions C12_pinned_allowance_compact_refuted.

(* for EVERY batch the pinned allowance is short in Binary, and in Compact whenever the metrics
   leave less than 4 spare bytes *)
Theorem C12_pinned_allowance_short : forall seq ms common,
  Z.of_nat (length (e_emit binary seq (Batch ms common))) >
    19 + Z.of_nat (length (e_batch binary (Batch [] common))) + sum_len binary ms /\
  Z.of_nat (length (e_emit compact seq (Batch ms common))) >
    19 + Z.of_nat (length (e_batch compact (Batch [] common))) + sum_len compact ms.
Proof. intros. rewrite envelope_binary. pose proof (envelope_compact_bounds seq ms common). lia. Qed.
Print Assumptions C12_pinned_allowance_short.

(* the pinned bucket charge: the metric of a histogram bucket, as it is sent, is longer than what
   was charged for it (by 2 x 5 bytes of tag framing in Compact, 2 x 15 in Binary, when the count
   and the timestamp use all the bytes charged for them) *)
Theorem C12_pinned_bucket_charge_refuted :
  report_ok compact m3_bucket_id_name m3_bucket_name cps0 w_bucket MAXI64 MAXI64 /\
  Z.of_nat (length (encode_metric compact cps0 (wire m3_bucket_id_name m3_bucket_name w_bucket MAXI64 MAXI64))) =
    charge_pinned compact m3_bucket_id_name m3_bucket_name cps0 w_bucket + 10 /\
  report_ok binary m3_bucket_id_name m3_bucket_name tt w_bucket 1 w_ts /\
  Z.of_nat (length (encode_metric binary tt (wire m3_bucket_id_name m3_bucket_name w_bucket 1 w_ts))) =
    charge_pinned binary m3_bucket_id_name m3_bucket_name tt w_bucket + 30.
Proof.
  split; [split; [left; reflexivity | split; [w_range | split; [w_range | vm_compute; reflexivity]]]|].
  split; [vm_compute; reflexivity|].
  split; [split; [left; reflexivity | split; [w_range | split; [w_range | vm_compute; reflexivity]]]|].
  vm_compute; reflexivity.
Qed.
Print Assumptions C12_pinned_bucket_charge_refuted.

(* ... and with the REPAIRED allowance (33) but the pinned bucket charge a datagram still
   overflows: Binary, MaxPacketSizeBytes 205 leaves freeBytes = 108 = the pinned charge of the
   bucket; the datagram has 235 bytes *)
Theorem C12_pinned_bucket_datagram_refuted : exists maxpkt ops mets seq,
  0 < free_bytes binary tt 33 maxpkt w_common /\
  (forall a v ts, In (Report a v ts) ops ->
     report_ok binary m3_bucket_id_name m3_bucket_name tt a v ts /\
     charge_pinned binary m3_bucket_id_name m3_bucket_name tt a <= free_bytes binary tt 33 maxpkt w_common) /\
  In mets (emitted_pinned binary m3_bucket_id_name m3_bucket_name tt 33 maxpkt w_common ops) /\
  Z.of_nat (length (datagram binary tt seq w_common mets)) = maxpkt + 30.
Proof.
  exists 205, [Report w_bucket 1 w_ts], [wire m3_bucket_id_name m3_bucket_name w_bucket 1 w_ts], 1.
  split; [vm_compute; reflexivity|]. split.
  - intros a v ts [E|[]]. inversion E; subst a v ts.
    split; [split; [left; reflexivity | split; [w_range | split; [w_range | vm_compute; reflexivity]]] | vm_compute; discriminate].
  - split; [vm_compute; left; reflexivity | vm_compute; reflexivity].
Qed.
Print Assumptions C12_pinned_bucket_datagram_refuted.

(* the int32 arithmetic of the loop: with a budget above 2^30 two metrics that each fit can wrap
   the byte count and share a batch far over the budget (why C12_datagram_bound asks for
   MaxPacketSizeBytes <= 2^30; the UDP transport refuses more than 65000 anyway) *)
Theorem C12_int32_wrap_refuted : exists free m1 m2 s,
  0 < s <= free /\ free < 2147483648 /\
  process free [] 0 [QMet m1 s; QMet m2 s] = [[m1; m2]] /\ s + s > free.
Proof.
  exists 1500000000, (Metric [97] (MValue 1 0 0 0) 0 None), (Metric [98] (MValue 1 0 0 0) 0 None), 1200000000.
  split; [lia|]. split; [lia|]. split; [vm_compute; reflexivity | lia].
Qed.
Print Assumptions C12_int32_wrap_refuted.
