(* C14 — witnesses: the pinned bucket handle, and the mutant of the enter
   protocol that increments `pending` after checking `done`. *)
From Coq Require Import ZArith List Bool Arith.
From Tally Require Import Model.M3Close.
Import ListNotations.
Open Scope Z_scope.

(* F14, pinned tree: the closure returned by ValueBucket/DurationBucket captures
   ONE metric value; two calls on the same handle: the first is descheduled
   between `m.Value.Count = 1` and the call, the second writes 2: both enqueue 2.
   This is the schedule the harness replays against the real code
   (witness F14: the sink receives [2; 2]). *)
Theorem C14_pinned_bucket_handle_refuted :
  exists sched,
    let s := run true 4 (init [[OSample 1]; [OSample 2]]) sched in
    map sent (thr s) = [[(1, 2)]; [(2, 2)]] /\ List.rev (out s) = [2; 2].
Proof. exists [1;2;2;2;2;2;2;1;1;1;1;1;0;0]%nat. vm_compute. split; reflexivity. Qed.
Print Assumptions C14_pinned_bucket_handle_refuted.

(* the same schedule with the per-call copy delivers [2; 1] *)
Theorem C14_repaired_bucket_handle_same_schedule :
  let s := run false 4 (init [[OSample 1]; [OSample 2]]) [1;2;2;2;2;2;2;1;1;1;1;1;0;0]%nat in
  map sent (thr s) = [[(1, 1)]; [(2, 2)]] /\ List.rev (out s) = [2; 1].
Proof. vm_compute. split; reflexivity. Qed.
Print Assumptions C14_repaired_bucket_handle_same_schedule.

(* Mutant: `if done.Load() { return }; pending.Inc(); defer pending.Dec()` in
   reportCopyMetric and Flush (check first, count afterwards). *)
Definition ret (s : sys) (i : nat) (t : thread) : sys :=
  match nest t with
  | O => put s i (finish t)
  | S O => put s i (at_call t FSend 0 marker_flush)
  | S k => put s i (at_call t LCall k marker_internal)
  end.
Definition tstep_mut (shared : bool) (cap : nat) (s : sys) (i : nat) : sys :=
  match nth_error (thr s) i with
  | None => s
  | Some t =>
      match tloc t with
      | LCall => if done s then ret s i t else put s i (at_loc t LEnter)
      | LEnter => put (inc s) i (at_loc t LSend)
      | LIdle =>
          match ops t with
          | OFlush :: _ => if done s then put s i (finish t) else put s i (at_loc t FEnter)
          | _ => tstep shared cap s i
          end
      | FEnter => put (inc s) i (at_loc t FInt)
      | _ => tstep shared cap s i
      end
  end.
Definition step_mut (shared : bool) (cap : nat) (s : sys) (j : nat) : sys :=
  match j with O => kstep cap s | S i => tstep_mut shared cap s i end.
Definition run_mut (shared : bool) (cap : nat) (s : sys) (sched : list nat) : sys :=
  fold_left (step_mut shared cap) sched s.

(* the reporter reads done = false and is descheduled; Close sees pending = 0,
   closes both channels; the reporter then sends on the closed queue *)
Theorem C14_mutant_inc_after_check_refuted :
  exists sched, panicked (run_mut false 4 (init [[OReport 7]; [OClose]]) sched) = true.
Proof. exists [1;1;2;2;2;2;1;1]%nat. vm_compute. reflexivity. Qed.
Print Assumptions C14_mutant_inc_after_check_refuted.

(* the same for Flush's unconditional send *)
Theorem C14_mutant_flush_inc_after_check_refuted :
  exists sched, panicked (run_mut false 4 (init [[OFlush]; [OClose]]) sched) = true.
Proof.
  exists ([1] ++ [2;2;2;2] ++ [1;1;1;1;1;1; 1;1;1;1; 1;1;1;1; 1;1;1;1; 1;1;1;1;1;1])%nat.
  vm_compute. reflexivity.
Qed.
Print Assumptions C14_mutant_flush_inc_after_check_refuted.

(* the real protocol under the first schedule: Close spins while the reporter is
   inside; the reporter sees done and leaves without sending *)
Theorem C14_real_protocol_same_schedule :
  let s := run false 4 (init [[OReport 7]; [OClose]]) [1;1;2;2;2;2;1;1]%nat in
  panicked s = false /\ map tloc (thr s) = [LIdle; CSpin2] /\ pending s = 0%nat /\ q s = [].
Proof. vm_compute. repeat split. Qed.
Print Assumptions C14_real_protocol_same_schedule.
