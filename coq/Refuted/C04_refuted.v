(* C04 — outside the delimiter-freeness hypothesis (F05b, known finding) a
   derivation is answered with the scope registered by another identity, so
   its metrics are delivered under that scope's name and tags. *)
From Coq Require Import ZArith List Bool.
From Tally Require Import Base.ObsCore Model.KeyGen Model.Deriv.
Import ListNotations.
Open Scope Z_scope.

(* after SubScope("a+b=c"), the counter "m" of SubScope("a").Tagged{b:"c+"} is
   delivered as "a+b=c.m" without tags instead of "a.m" with {b:"c+"} *)
Theorem C04_delims_name_refuted :
  let c := mk_cfg id_san [] in
  let s := run c (init c [] []) [CSub 0 [97;43;98;61;99]] in
  let d := derive c s 0 [DSub [97]; DTag [([98], [99;43])]] in
  let g := step c (fst d) (CMet (snd d) 1 [109]) in
  delivered c (fst g) (snd g) = Some ([97;43;98;61;99;46;109], []) /\
  spec_prefix c [] [DSub [97]; DTag [([98], [99;43])]] = [97] /\
  spec_tags c [] [DSub [97]; DTag [([98], [99;43])]] = [([98], [99;43])].
Proof. vm_compute. repeat split; reflexivity. Qed.
Print Assumptions C04_delims_name_refuted.

(* after Tagged{a:"1,b=2"}, the counter "m" of Tagged{a:"1", b:"2"} is delivered
   with the tags {a:"1,b=2"} *)
Theorem C04_delims_tags_refuted :
  let c := mk_cfg id_san [] in
  let s := run c (init c [] []) [CTag 0 [([97], [49;44;98;61;50])]] in
  let d := derive c s 0 [DTag [([97], [49]); ([98], [50])]] in
  let g := step c (fst d) (CMet (snd d) 1 [109]) in
  delivered c (fst g) (snd g) = Some ([109], [([97], [49;44;98;61;50])]).
Proof. vm_compute. reflexivity. Qed.
Print Assumptions C04_delims_tags_refuted.
