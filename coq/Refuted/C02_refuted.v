(* Sensitivity: a mutant model with the two stores of Update exchanged (flag
   raised before the value is stored) delivers the OLD value for the last
   update and then never delivers the new one. *)
From Coq Require Import ZArith List.
From Tally Require Import Model.Gauge.
Import ListNotations.

Theorem C02_swapped_stores_refuted :
  exists ths sched,
    let s := fold_left step_swapped sched (init ths) in
    log s = [7%Z] /\ curr s = 9%Z /\ updated s = false /\
    (forall t, In t (thr s) -> match t with TU (UIdle []) | TR (RIdle _) => True | _ => False end).
Proof.
  exists [TU (UIdle [7; 9]%Z); TR (RIdle 3)], [0; 0; 0; 1; 1; 0; 1; 1].
  vm_compute. repeat split. intros t [<-|[<-|[]]]; exact I.
Qed.
