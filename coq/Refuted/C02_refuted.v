(* Sensitivity: a mutant model with the two stores of Update exchanged (flag
   raised before the value is stored) delivers the OLD value for the last
   update and then never delivers the new one. *)
From Coq Require Import ZArith List.
From Tally Require Import Model.Gauge Model.Gauge2 Proof.Gauge2P.
Import ListNotations.

Theorem C02_swapped_stores_refuted :
  exists ths sched,
    let s := fold_left step_swapped sched (init ths) in
    log s = [7%Z] /\ curr s = 9%Z /\ updated s = false /\
    (forall t, In t (thr s) -> match t with TU (UIdle []) | TR (RIdle _) => True | _ => False end).
Proof.
  exists [TU (UIdle [7; 9]%Z); TR (RIdle 3)], [0; 0; 0; 1; 1; 0; 1; 1].
  vm_compute. repeat split. intros t [<-|[<-|[]]]; exact I.
Qed.

(* With the delivery split from the load (Model/Gauge2.v) the naive reading "at quiescence the
   reporter's most recent value is the last update" is false of the model, and of any code that loads
   the value before it calls the reporter: pass 1 loads 7 and is parked inside the reporter, the
   second update stores 9, pass 2 starts afterwards, delivers 9 and completes, then pass 1 comes back
   and the reporter receives 7 last.  Everything is quiescent and the last update HAS been delivered
   (C02_split_fresh), but it is not the most recent delivery.  This is the residue named in the
   evidence of C02: a reporter call is not atomic with the load. *)
Theorem C02_most_recent_after_parked_pass_refuted :
  exists ths sched,
    forallb init_thr2 ths = true /\
    let s := run2 (init2 ths) sched in
    alldone2 s /\ nload2 s = 0 /\ ndeliv s = 0 /\ updated2 s = false /\
    hd 0%Z (stored2 s) = 9%Z /\ In 9%Z (dlog s) /\ hd_error (dlog s) = Some 7%Z.
Proof.
  exists [T2U (UIdle [7; 9]%Z); T2R (R2Idle 1); T2R (R2Idle 1)], [0; 0; 1; 1; 0; 0; 2; 2; 2; 1].
  vm_compute. repeat split; auto. intros t [<-|[<-|[<-|[]]]]; exact I.
Qed.
Print Assumptions C02_most_recent_after_parked_pass_refuted.
