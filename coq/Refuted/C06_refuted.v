(* C06: what is wrong on the pinned tree (model with strict = false /
   c_fixcard = false), as closed witness theorems. *)
From Coq Require Import ZArith List Bool String.
From Tally Require Import Base.ObsCore Gen.Params Model.Utf8 Model.Sanitize Model.SanScope.
Import ListNotations.
Open Scope Z_scope.

(* F06b: U+FFFD is allowed and nothing was replaced earlier: the invalid byte
   0xFF of "a\xffb" is handed back raw - C06_invalid_replaced fails *)
Theorem C06_pinned_invalid_byte_refuted :
  exists ranges chars rep s,
    is_bytes s = true /\ sanitize_pinned ranges chars rep s = s /\
    valid_utf8 (sanitize_pinned ranges chars rep s) = false.
Proof. exists [(0, 0x10FFFF)], [], 95, [97; 0xFF; 98]. repeat split; vm_compute; reflexivity. Qed.
Print Assumptions C06_pinned_invalid_byte_refuted.

(* F06b, consequence: concatenation of sanitized strings is not sanitized
   (scope.go:570) - "a\xc3" and "\xa9" are both 'clean' for the table
   {U+FFFD, 'a'}, their concatenation holds U+00E9, which is neither allowed
   nor the replacement - C06_fqn_allowed fails *)
Theorem C06_pinned_concat_refuted :
  exists ranges chars rep p sep,
    let f := sanitize_pinned ranges chars rep in
    is_bytes p = true /\ is_bytes sep = true /\
    existsb (fun r => negb (allowedb ranges chars r) && negb (r =? norm rep)) (runes (f p ++ f sep)) = true.
Proof. exists [(0xFFFD, 0xFFFD)], [97], 97, [97; 0xC3], [0xA9]. repeat split; vm_compute; reflexivity. Qed.
Print Assumptions C06_pinned_concat_refuted.

(* F06a: with a shipped configuration (prometheus: no '.' among the value
   characters) the cardinality gauges carry version = "4.1.17" unsanitized -
   C06_scope_strings_allowed fails *)
Theorem C06_pinned_cardinality_refuted :
  exists d kv r,
    In d (run (Cfg (Some prometheus_default_opts) false false true false) [] [] [] [] [OMetric 0 1 [99]]) /\
    In kv (d_tags d) /\ In r (runes (snd kv)) /\
    allowed_of prometheus_default_opts KValue r = false /\ r <> norm (so_rep prometheus_default_opts).
Proof.
  exists (Dl 2 (bytes_of_string "tally_internal_counter_cardinality")
             [(bytes_of_string "host", bytes_of_string "global");
              (bytes_of_string "instance", bytes_of_string "global");
              (bytes_of_string "version", tally_version)]),
         (bytes_of_string "version", tally_version), 46.
  repeat split; vm_compute; intuition congruence.
Qed.
Print Assumptions C06_pinned_cardinality_refuted.

(* sensitivity of the model: with '<' for '<=' at the top of a range 'z' is lost *)
Theorem C06_mutant_range_top_refuted :
  exists s, sanitize_gen true (fun r => existsb (fun p => (fst p <=? r) && (r <? snd p)) alphanumeric_ranges) 95 s <> s
            /\ sanitize alphanumeric_ranges [] 95 s = s.
Proof. exists [122]. split; vm_compute; [discriminate|reflexivity]. Qed.
Print Assumptions C06_mutant_range_top_refuted.
