(* C11 — behaviours that contradict the property (witnesses by computation). *)
From Coq Require Import ZArith List Bool.
From Tally Require Import Base.ObsCore Model.Buckets Model.Snapshot.
Import ListNotations.
Open Scope Z_scope.

(* F11, pinned tree: snapshotValues writes vals[upper] = count bucket by bucket; with the
   specification {1, 1} the sample 0.5 sits in the first bucket and the second (empty)
   bucket with the same bound overwrites it: the snapshot shows 0 samples at bound 1. *)
Theorem C11_pinned_duplicate_bounds_refuted :
  exists k spec v u,
    let h := fst (hstep (hnew k spec) (HRec k v)) in
    alookup Z.eqb u (hsnap_pinned h) = Some 0 /\ alookup Z.eqb u (hsnap h) = Some 1.
Proof.
  exists KValue, [4607182418800017408; 4607182418800017408], 4602678819172646912, 4607182418800017408.
  vm_compute. split; reflexivity.
Qed.
Print Assumptions C11_pinned_duplicate_bounds_refuted.

(* the same with the maximum as an explicit bound: DurationBuckets{MaxInt64} *)
Theorem C11_pinned_max_bound_refuted :
  let h := fst (hstep (hnew KDuration [MAXI]) (HRec KDuration 5)) in
  alookup Z.eqb MAXI (hsnap_pinned h) = Some 0 /\ alookup Z.eqb MAXI (hsnap h) = Some 1.
Proof. vm_compute. split; reflexivity. Qed.
Print Assumptions C11_pinned_max_bound_refuted.

(* F11b: without the hypothesis [op_ok] (metric names free of the separator) the walk
   loses a metric: Counter("a.b") of the root and Counter("b") of SubScope("a") are two
   counter objects with one full name; the snapshot keeps whichever is written last
   (here 2), the tally of that name is 3. *)
Theorem C11_dotted_name_refuted :
  exists root ops k,
    alookup mkey_eqb k (snapshot (run root ops)) = Some (VCnt 2) /\
    alookup mkey_eqb k (tally_snapshot (trun root ops)) = Some (VCnt 3).
Proof.
  exists (root_of [] []), [ORec [] [97; 46; 98] (RInc 1); ORec [DSub [97]] [98] (RInc 2)],
         (MC, [97; 46; 98], []).
  vm_compute. split; reflexivity.
Qed.
Print Assumptions C11_dotted_name_refuted.
