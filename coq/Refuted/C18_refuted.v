(* C18 — witnesses documenting what the theorems are sensitive to (nothing here
   is wrong on the pinned tree; these are mutant models / dropped hypotheses). *)
From Coq Require Import ZArith List Bool.
From Tally Require Import Model.Buckets Model.Statsd.
Import ListNotations.
Open Scope Z_scope.

(* 1. The shape assumption of C18_name_injective cannot be dropped: a rendering
      with an inner '-' lets two different bound pairs share a stat name
      ("1-2","3" and "1","2-3"). *)
Theorem C18_refuted_without_shape : exists name lo hi lo' hi',
  stat name lo hi = stat name lo' hi' /\ (lo, hi) <> (lo', hi') /\ ~ shape lo.
Proof.
  exists [104], [49; 45; 50], [51], [49], [50; 45; 51].
  split; [reflexivity|]. split; [discriminate|].
  intros [_ Hn]. apply Hn. cbn. auto.
Qed.
Print Assumptions C18_refuted_without_shape.

(* 2. A mutant that spells the lower open end "infinity" as well: two buckets of
      one histogram (specification {math.MaxFloat64}) whose bounds differ get the
      same stat name, for every rendering oracle. *)
Definition vstr_mut (fmtf : Z -> Z -> bytes) (p b : Z) : bytes :=
  if b =? MAXF then INFINITY else if b =? NMAXF then INFINITY else fmtf p b.

Theorem C18_refuted_lower_end_mutant : forall fmtf p name, exists lo hi lo' hi',
  pairs KValue [MAXF] = [(lo, hi); (lo', hi')] /\ lo <> lo' /\
  stat name (vstr_mut fmtf p lo) (vstr_mut fmtf p hi) = stat name (vstr_mut fmtf p lo') (vstr_mut fmtf p hi') /\
  stat name (vstr fmtf p lo) (vstr fmtf p hi) <> stat name (vstr fmtf p lo') (vstr fmtf p hi').
Proof.
  intros fmtf p name. exists NMAXF, MAXF, MAXF, MAXF.
  split; [reflexivity|]. split; [discriminate|]. split; [reflexivity|].
  unfold stat, vstr. cbn. intros E. apply app_inv_head in E. discriminate.
Qed.
Print Assumptions C18_refuted_lower_end_mutant.
