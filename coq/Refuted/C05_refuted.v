(* C05 — witnesses of behaviour that violates the property.
   F05a (pinned key writer, repaired by patches/fix-C05-empty-key.patch): an
   empty tag key defeats the duplicate suppression ([len(lastKey) > 0]).
   F05b (known finding, not repaired: public key format): '+', ',' and '='
   inside keys / values make the key non-injective; the witnesses lie outside
   the hypothesis of C05_key_injective and hold for the repaired writer too. *)
From Coq Require Import ZArith List Bool.
From Tally Require Import Base.ObsCore Model.KeyGen Model.Deriv.
Import ListNotations.
Open Scope Z_scope.

(* "" = [], "a" = [97], "b" = [98], "x" = [120], "y" = [121], "p" = [112] *)

(* F05a: {"":"", "ab":""} and {"":"a", "b":""} are different identities with the
   same pinned key "=ab=" (the separator is skipped after an empty key) *)
Theorem C05_pinned_empty_key_collision_refuted :
  exists p m m', eff [m] [] <> eff [m'] [] /\ key_pinned p [m] = key_pinned p [m'] /\
                 key_pinned p [m] = [61;97;98;61].
Proof.
  exists [], [([], []); ([97;98], [])], [([], [97]); ([98], [])].
  vm_compute. repeat split; try reflexivity. discriminate.
Qed.
Print Assumptions C05_pinned_empty_key_collision_refuted.

(* F05a: the pinned key of two maps both holding "" differs from the key of the
   merged map: "=y=y" against "=y" *)
Theorem C05_pinned_empty_key_not_merged_refuted :
  exists p maps, Forall wf_map maps /\ key_pinned p maps <> key_pinned p [merge maps] /\
                 key_pinned p maps = [61;121;61;121] /\ key p maps = key p [merge maps].
Proof.
  exists [], [[([], [120])]; [([], [121])]]. split.
  - repeat constructor; cbn; intuition.
  - vm_compute. repeat split; try reflexivity. discriminate.
Qed.
Print Assumptions C05_pinned_empty_key_not_merged_refuted.

(* F05a at the scope level: with the pinned writer Tagged{"":x}.Tagged{"":y} and
   Tagged{"":y} are two scopes with one identity (prefix "", tags {"":y});
   with the repaired writer they are one *)
Theorem C05_pinned_empty_key_two_scopes_refuted :
  let c := mk_cfg id_san [] in
  let run2 kf :=
    let d1 := derive_k kf c (init_k kf c [] []) 0 [DTag [([], [120])]; DTag [([], [121])]] in
    let d2 := derive_k kf c (fst d1) 0 [DTag [([], [121])]] in
    (snd d1, snd d2, map (fun i => option_map stags (nth_error (scopes (fst d2)) i)) [snd d1; snd d2]) in
  run2 key_pinned = (2%nat, 3%nat, [Some [([], [121])]; Some [([], [121])]]) /\
  run2 key = (2%nat, 2%nat, [Some [([], [121])]; Some [([], [121])]]).
Proof. vm_compute. split; reflexivity. Qed.
Print Assumptions C05_pinned_empty_key_two_scopes_refuted.

(* F05b: {a:"1,b=2"} and {a:"1", b:"2"} *)
Theorem C05_delims_value_refuted :
  exists p m m', eff [m] [98] <> eff [m'] [98] /\ key p [m] = key p [m'].
Proof.
  exists [112], [([97], [49;44;98;61;50])], [([97], [49]); ([98], [50])].
  vm_compute. split; [discriminate | reflexivity].
Qed.
Print Assumptions C05_delims_value_refuted.

(* F05b: prefix "a+b=c" without tags and prefix "a" with {b:"c+"} *)
Theorem C05_delims_prefix_refuted :
  exists p p' m m', p <> p' /\ key p [m] = key p' [m'].
Proof.
  exists [97;43;98;61;99], [97], [], [([98], [99;43])].
  vm_compute. split; [discriminate | reflexivity].
Qed.
Print Assumptions C05_delims_prefix_refuted.

(* F05b at the scope level: Tagged{a:"1,b=2"} and Tagged{a:"1", b:"2"} return the
   same scope; SubScope("a+b=c") and SubScope("a").Tagged{b:"c+"} return the same scope *)
Theorem C05_delims_share_scope_refuted :
  let c := mk_cfg id_san [] in
  (let d1 := derive c (init c [] []) 0 [DTag [([97], [49;44;98;61;50])]] in
   let d2 := derive c (fst d1) 0 [DTag [([97], [49]); ([98], [50])]] in
   snd d1 = snd d2) /\
  (let d1 := derive c (init c [] []) 0 [DSub [97;43;98;61;99]] in
   let d2 := derive c (fst d1) 0 [DSub [97]; DTag [([98], [99;43])]] in
   snd d1 = snd d2).
Proof. vm_compute. split; reflexivity. Qed.
Print Assumptions C05_delims_share_scope_refuted.
