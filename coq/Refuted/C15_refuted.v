(* C15 on the pinned tree (finding F15): the behaviour of the unrepaired code
   ([pstep], [pmstep], [pemit] of Model/Udp.v) contradicts what the property
   demands.  Each theorem is an explicit witness evaluated by vm_compute, with
   the real MaxLength where sizes matter. *)
From Coq Require Import ZArith List Bool Lia.
From Tally Require Import Base.ObsCore Gen.Params Model.Udp Proof.UdpP.
Import ListNotations.
Open Scope Z_scope.

(* Write 40000; Write 40000 (refused); Write 5; Flush: the pinned transport sends
   ONE datagram of 40005 bytes = the refused message's 40000-byte prefix followed
   by the next 5 bytes; the property (spec) allows no datagram at all for a
   message with a refused write, and the repaired machine sends none. *)
Theorem C15_stale_prefix_refuted :
  exists ops,
    map (fun d => zlen d) (gds (pstep udp_max_length) fresh ops) = [40005] /\
    grs (pstep udp_max_length) fresh ops = [Ok; ErrTooBig; Ok; Ok] /\
    spec udp_max_length (Some []) false ops = [] /\
    ds udp_max_length fresh ops = [].
Proof.
  exists [Write (repeat 7 (Z.to_nat 40000)); Write (repeat 8 (Z.to_nat 40000)); Write [1;2;3;4;5]; Flush true].
  vm_compute. auto.
Qed.
Print Assumptions C15_stale_prefix_refuted.

(* small instance, bytes visible *)
Theorem C15_stale_prefix_small_refuted :
  gds (pstep 5) fresh [Write [1;2;3;4]; Write [5;6;7]; Write [9]; Flush true] = [[1;2;3;4;9]] /\
  ds 5 fresh [Write [1;2;3;4]; Write [5;6;7]; Write [9]; Flush true] = [].
Proof. vm_compute. auto. Qed.
Print Assumptions C15_stale_prefix_small_refuted.

(* refused, then Flush: the pinned transport sends the truncated message *)
Theorem C15_truncated_message_sent_refuted :
  gds (pstep 5) fresh [Write [1;2;3;4]; Write [5;6;7]; Flush true; Write [9]; Flush true] = [[1;2;3;4]; [9]] /\
  ds 5 fresh [Write [1;2;3;4]; Write [5;6;7]; Flush true; Write [9]; Flush true] = [[9]].
Proof. vm_compute. auto. Qed.
Print Assumptions C15_truncated_message_sent_refuted.

(* pinned multi transport: destination 0's send fails, Flush returns at once;
   destinations 1 and 2 never receive anything again (the repaired one delivers
   both messages to both) *)
Theorem C15_multi_starved_refuted :
  let ms := [MWrite [1;2]; MFlush [false; true; true]; MWrite [3]; MFlush [false; true; true]] in
  dest_ds 1 (gmos (pmstep 5) (repeat fresh 3) ms) = [] /\
  dest_ds 2 (gmos (pmstep 5) (repeat fresh 3) ms) = [] /\
  nth 1 (gmst (pmstep 5) (repeat fresh 3) ms) fresh = Tr [1;2;3] false false /\
  dest_ds 1 (mos 5 (repeat fresh 3) ms) = [[1;2]; [3]] /\
  dest_ds 2 (mos 5 (repeat fresh 3) ms) = [[1;2]; [3]].
Proof. vm_compute. auto. Qed.
Print Assumptions C15_multi_starved_refuted.

(* pinned reporter over the pinned transport: an oversized batch leaves its
   prefix behind; the next batch goes out behind it in the same datagram *)
Theorem C15_reporter_corrupts_next_batch_refuted :
  snd (emits (pemit 8) fresh [([[1;2;3]; [4;5;6;7;8;9]], true, true); ([[7;7]], true, true)]) = [[1;2;3;7;7]] /\
  snd (emits (emit 8) fresh [([[1;2;3]; [4;5;6;7;8;9]], true, true); ([[7;7]], true, true)]) = [[7;7]].
Proof. vm_compute. auto. Qed.
Print Assumptions C15_reporter_corrupts_next_batch_refuted.

(* ... and when the abandoned prefix fills the buffer, EVERY later batch (first
   chunk non-empty, as every Thrift message is) is refused at its first byte:
   nothing is ever sent again, for all L and all later batches *)
Theorem C15_reporter_stuck_refuted : forall L bs b, zlen b = L ->
  Forall (fun x : batch => match fst (fst x) with c :: _ => c <> [] | [] => False end) bs ->
  emits (pemit L) (Tr b false false) bs = (Tr b false false, map (fun _ => false) bs, []).
Proof. intros L bs b. exact (pinned_stuck L bs b). Qed.
Print Assumptions C15_reporter_stuck_refuted.

(* the full buffer is reachable: one batch whose prefix has exactly L bytes *)
Theorem C15_reporter_stuck_reachable_refuted :
  emits (pemit 5) fresh [([[1;2;3;4;5]; [6]], true, true); ([[7]], true, true); ([[8]; [9]], true, true)] =
  (Tr [1;2;3;4;5] false false, [false; false; false], []).
Proof. vm_compute. reflexivity. Qed.
Print Assumptions C15_reporter_stuck_reachable_refuted.

(* ------------------------------------------------------------------ *)
(* Sensitivity of "Close is idempotent" to the atomicity of the closed flag.
   In Model/Udp.v a Close is ONE step (closed.Swap(true)): whatever the order in
   which overlapping calls take effect, the history is a sequence of Closes and
   C15_close_idempotent_not_open gives Ok for all but possibly the first.  A
   Close that first reads the flag and later stores it is two steps; the harness
   looks for this with k goroutines released by a spin barrier in front of
   every Close.  Here: k callers, [CRead i] = caller i reads the flag,
   [CDo i] = caller i (if it saw "open") stores true and closes the socket;
   closing a socket that is already closed fails. *)
Inductive cev := CRead (i : nat) | CDo (i : nat).

Record cst := CSt { cflag : bool; csock : bool; csaw : list (nat * bool); cret : list (nat * res) }.

Definition saw (s : cst) (i : nat) : bool :=
  match find (fun p => Nat.eqb (fst p) i) (csaw s) with Some p => snd p | None => false end.

Definition cstep (s : cst) (e : cev) : cst :=
  match e with
  | CRead i => CSt (cflag s) (csock s) ((i, negb (cflag s)) :: csaw s) (cret s)
  | CDo i =>
      if saw s i
      then CSt true true (csaw s) ((i, if csock s then ErrClose else Ok) :: cret s)
      else CSt (cflag s) (csock s) (csaw s) ((i, Ok) :: cret s)
  end.

Definition crun (sch : list cev) : cst := fold_left cstep sch (CSt false false [] []).

(* the two-step Close: both callers see "open", the second socket close fails *)
Theorem C15_nonatomic_close_not_idempotent_refuted :
  cret (crun [CRead 0; CRead 1; CDo 0; CDo 1]) = [(1%nat, ErrClose); (0%nat, Ok)].
Proof. vm_compute. reflexivity. Qed.
Print Assumptions C15_nonatomic_close_not_idempotent_refuted.

(* the same two calls taking effect one after the other (what an atomic swap
   guarantees) both return nil, in either order *)
Theorem C15_atomic_close_orders_ok :
  cret (crun [CRead 0; CDo 0; CRead 1; CDo 1]) = [(1%nat, Ok); (0%nat, Ok)] /\
  cret (crun [CRead 1; CDo 1; CRead 0; CDo 0]) = [(0%nat, Ok); (1%nat, Ok)] /\
  rs 5 fresh [Close true; Close true] = [Ok; Ok].
Proof. vm_compute. auto. Qed.
Print Assumptions C15_atomic_close_orders_ok.
