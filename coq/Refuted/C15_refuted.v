(* C15 on the pinned tree (finding F15): the behaviour of the unrepaired code
   ([pstep], [pmstep], [pemit] of Model/Udp.v) contradicts what the property
   demands.  Each theorem is an explicit witness evaluated by vm_compute, with
   the real MaxLength where sizes matter. *)
From Coq Require Import ZArith List Bool Lia.
From Tally Require Import Base.ObsCore Gen.Params Model.Udp Proof.UdpP.
Import ListNotations.
Open Scope Z_scope.

(* Write 40000; Write 40000 (refused); Write 5; Flush: the pinned transport sends
   ONE datagram of 40005 bytes = the refused message's 40000-byte prefix followed
   by the next 5 bytes; the property (spec) allows no datagram at all for a
   message with a refused write, and the repaired machine sends none. *)
Theorem C15_stale_prefix_refuted :
  exists ops,
    map (fun d => zlen d) (gds (pstep udp_max_length) fresh ops) = [40005] /\
    grs (pstep udp_max_length) fresh ops = [Ok; ErrTooBig; Ok; Ok] /\
    spec udp_max_length (Some []) false ops = [] /\
    ds udp_max_length fresh ops = [].
Proof.
  exists [Write (repeat 7 (Z.to_nat 40000)); Write (repeat 8 (Z.to_nat 40000)); Write [1;2;3;4;5]; Flush true].
  vm_compute. auto.
Qed.
Print Assumptions C15_stale_prefix_refuted.

(* small instance, bytes visible *)
Theorem C15_stale_prefix_small_refuted :
  gds (pstep 5) fresh [Write [1;2;3;4]; Write [5;6;7]; Write [9]; Flush true] = [[1;2;3;4;9]] /\
  ds 5 fresh [Write [1;2;3;4]; Write [5;6;7]; Write [9]; Flush true] = [].
Proof. vm_compute. auto. Qed.
Print Assumptions C15_stale_prefix_small_refuted.

(* refused, then Flush: the pinned transport sends the truncated message *)
Theorem C15_truncated_message_sent_refuted :
  gds (pstep 5) fresh [Write [1;2;3;4]; Write [5;6;7]; Flush true; Write [9]; Flush true] = [[1;2;3;4]; [9]] /\
  ds 5 fresh [Write [1;2;3;4]; Write [5;6;7]; Flush true; Write [9]; Flush true] = [[9]].
Proof. vm_compute. auto. Qed.
Print Assumptions C15_truncated_message_sent_refuted.

(* pinned multi transport: destination 0's send fails, Flush returns at once;
   destinations 1 and 2 never receive anything again (the repaired one delivers
   both messages to both) *)
Theorem C15_multi_starved_refuted :
  let ms := [MWrite [1;2]; MFlush [false; true; true]; MWrite [3]; MFlush [false; true; true]] in
  dest_ds 1 (gmos (pmstep 5) (repeat fresh 3) ms) = [] /\
  dest_ds 2 (gmos (pmstep 5) (repeat fresh 3) ms) = [] /\
  nth 1 (gmst (pmstep 5) (repeat fresh 3) ms) fresh = Tr [1;2;3] false false /\
  dest_ds 1 (mos 5 (repeat fresh 3) ms) = [[1;2]; [3]] /\
  dest_ds 2 (mos 5 (repeat fresh 3) ms) = [[1;2]; [3]].
Proof. vm_compute. auto. Qed.
Print Assumptions C15_multi_starved_refuted.

(* pinned reporter over the pinned transport: an oversized batch leaves its
   prefix behind; the next batch goes out behind it in the same datagram *)
Theorem C15_reporter_corrupts_next_batch_refuted :
  snd (emits (pemit 8) fresh [([[1;2;3]; [4;5;6;7;8;9]], true, true); ([[7;7]], true, true)]) = [[1;2;3;7;7]] /\
  snd (emits (emit 8) fresh [([[1;2;3]; [4;5;6;7;8;9]], true, true); ([[7;7]], true, true)]) = [[7;7]].
Proof. vm_compute. auto. Qed.
Print Assumptions C15_reporter_corrupts_next_batch_refuted.

(* ... and when the abandoned prefix fills the buffer, EVERY later batch (first
   chunk non-empty, as every Thrift message is) is refused at its first byte:
   nothing is ever sent again, for all L and all later batches *)
Theorem C15_reporter_stuck_refuted : forall L bs b, zlen b = L ->
  Forall (fun x : batch => match fst (fst x) with c :: _ => c <> [] | [] => False end) bs ->
  emits (pemit L) (Tr b false false) bs = (Tr b false false, map (fun _ => false) bs, []).
Proof. intros L bs b. exact (pinned_stuck L bs b). Qed.
Print Assumptions C15_reporter_stuck_refuted.

(* the full buffer is reachable: one batch whose prefix has exactly L bytes *)
Theorem C15_reporter_stuck_reachable_refuted :
  emits (pemit 5) fresh [([[1;2;3;4;5]; [6]], true, true); ([[7]], true, true); ([[8]; [9]], true, true)] =
  (Tr [1;2;3;4;5] false false, [false; false; false], []).
Proof. vm_compute. reflexivity. Qed.
Print Assumptions C15_reporter_stuck_reachable_refuted.
