(* C13 — behaviour of the pinned tree (findings F13a, F13b) and of mutant
   models, as witnesses: the statements proved in Props/C13.v fail for them. *)
From Coq Require Import ZArith List Bool Arith Lia Permutation.
From Tally Require Import Base.ObsCore Base.Search Gen.Params Model.Varint Model.Thrift Model.Buckets Model.M3Pipe
  Proof.M3PipeP.
Import ListNotations.
Open Scope Z_scope.

Definition wcfg : config := Config 1000 [] m3_bucket_id_name m3_bucket_name (fun _ _ => []).
Definition s_a : bytes := [97].            (* "a" *)
Definition s_bc : bytes := [98;61;99].     (* "b=c" *)
Definition s_ab : bytes := [97;61;98].     (* "a=b" *)
Definition s_c : bytes := [99].            (* "c" *)
Definition m1 : tagmap := [(s_a, s_bc)].   (* {a: "b=c"} *)
Definition m2 : tagmap := [(s_ab, s_c)].   (* {"a=b": "c"} *)

(* F13a: identity.StringStringMap hashes the strings k + "=" + v; the two maps
   give the same string "a=b=c", hence the same key whatever the string hash is *)
Theorem C13_same_key_every_hash_refuted : forall h : bytes -> Z,
  m1 <> m2 /\ real_key h m1 = real_key h m2.
Proof. intro h. split; [discriminate|reflexivity]. Qed.
Print Assumptions C13_same_key_every_hash_refuted.

Definition wops (key : Z) : list op :=
  [OAlloc 1 [120] m1 key 10; OAlloc 1 [121] m2 key 10; OReport 1 1 1 5].

Lemma wops_hash h : map (with_hash (real_key h)) (wops 0) = wops (real_key h m1).
Proof. reflexivity. Qed.

Lemma wops_pinned key t0 :
  enq MPinned wcfg t0 (wops key) = [QMet 1 (reported 1 [121] (Some [Tag s_a s_bc]) 5 t0) 10 [] []].
Proof.
  unfold wops, enq, enq_ix, enq_from, pstep, m1, m2, convert, pstate0. cbn [pcache phandles pnow cfind].
  rewrite Z.eqb_refl. reflexivity.
Qed.
Lemma wops_fixed key t0 :
  enq MFixed wcfg t0 (wops key) = [QMet 1 (reported 1 [121] (Some [Tag s_ab s_c]) 5 t0) 10 [] []].
Proof.
  unfold wops, enq, enq_ix, enq_from, pstep, m1, m2, convert, pstate0. cbn [pcache phandles pnow cfind].
  rewrite Z.eqb_refl. reflexivity.
Qed.
Lemma wops_ref key t0 :
  enq MRef wcfg t0 (wops key) = [QMet 1 (reported 1 [121] (Some [Tag s_ab s_c]) 5 t0) 10 [] []].
Proof. reflexivity. Qed.

(* the pinned cache trusts the hit: the metric allocated with {"a=b": "c"} is
   queued with the tags {a: "b=c"} of the first allocation — for every hash *)
Theorem C13_pinned_tagcache_refuted : forall (h : bytes -> Z) t0,
  let ops := map (with_hash (real_key h)) (wops 0) in
  enq MPinned wcfg t0 ops = [QMet 1 (reported 1 [121] (Some [Tag s_a s_bc]) 5 t0) 10 [] []] /\
  enq MRef wcfg t0 ops = [QMet 1 (reported 1 [121] (Some [Tag s_ab s_c]) 5 t0) 10 [] []] /\
  ~ Forall2 qequiv (enq MPinned wcfg t0 ops) (enq MRef wcfg t0 ops).
Proof.
  intros h t0 ops. unfold ops. rewrite wops_hash, wops_pinned, wops_ref.
  split; [reflexivity|]. split; [reflexivity|].
  intro Hh. inversion Hh as [|? ? ? ? Hq _]; subst. cbn in Hq.
  destruct Hq as (_ & (_ & _ & _ & Hp) & _). cbn in Hp.
  apply Permutation_length_1 in Hp. discriminate.
Qed.
Print Assumptions C13_pinned_tagcache_refuted.

(* the repaired cache on the same history: the tags are intact *)
Theorem C13_fixed_tagcache_witness : forall (h : bytes -> Z) t0,
  enq MFixed wcfg t0 (map (with_hash (real_key h)) (wops 0)) =
  [QMet 1 (reported 1 [121] (Some [Tag s_ab s_c]) 5 t0) 10 [] []].
Proof. intros h t0. rewrite wops_hash. apply wops_fixed. Qed.
Print Assumptions C13_fixed_tagcache_witness.

(* F13b: the pinned constructor leaves r.now = 0 ([pstate0 0] instead of
   [pstate0 (clock 0)]); a value reported before the first tick carries
   timestamp 0, earlier than the construction, although the clock and the
   (absent) ticks satisfy the hypotheses of C13_timestamp_bracket *)
Theorem C13_pinned_timestamp0_refuted :
  exists (clock : nat -> Z) ops,
    (forall a b, (a <= b)%nat -> clock a <= clock b) /\ ticks_ok clock 1 ops /\
    exists j o m sz bid br,
      In (j, QMet o m sz bid br) (enq_from MFixed wcfg 1 (pstate0 0) ops) /\
      mts (sent wcfg m bid br) = 0 /\ ~ (clock 0%nat <= mts (sent wcfg m bid br)).
Proof.
  exists (fun i => 1700000000000000000 + Z.of_nat i), [OAlloc 1 [120] [] 0 10; OReport 1 0 1 5].
  split; [intros a b Hab; lia|]. split.
  - intros j v Hj. destruct j as [|[|j]]; cbn in Hj; try discriminate. destruct j; discriminate.
  - exists 2%nat, 1%nat, (reported 1 [120] None 5 0), 10, [], []. split; [left; reflexivity|].
    split; [reflexivity|]. cbn. lia.
Qed.
Print Assumptions C13_pinned_timestamp0_refuted.

(* mutant consumer: the metric that does not fit any more is dropped instead
   of starting the next batch — one reported value is lost *)
Definition cstep_drop (cfg : config) (c : cons) (it : qitem) : cons :=
  match it with
  | QMark => if negb (is_nil (cmets c)) then emit1 c else c
  | QMet o m sz bid br =>
      if cbytes c + sz >? cfree cfg then emit1 c
      else Cons ((o, sent cfg m bid br) :: cmets c) (cbytes c + sz) (cout c)
  end.
Theorem C13_mutant_drop_refuted :
  exists items, concat (cfinal (fold_left (cstep_drop wcfg) items cons0)) <> flat_map (item_sent wcfg) items.
Proof.
  exists [QMet 1 (reported 1 [120] None 1 0) 600 [] []; QMet 1 (reported 1 [120] None 2 0) 600 [] []].
  vm_compute. discriminate.
Qed.
Print Assumptions C13_mutant_drop_refuted.

(* mutant id width: a fixed width of 4 — with more than 9999 bounds the ids no
   longer increase as strings *)
Set Warnings "-abstract-large-number".
Theorem C13_mutant_fixed_width_refuted :
  bytes_ltb (pad_dec 4 9999) (pad_dec 4 10000) = false.
Proof. vm_compute. reflexivity. Qed.
Print Assumptions C13_mutant_fixed_width_refuted.
