(* C20 -- witnesses.  None of these is a defect of the pinned tree; they
   document what the theorems of Props/C20.v are sensitive to. *)
From Coq Require Import ZArith List Bool.
From Tally Require Import Base.Search Model.Buckets Model.Ctor Model.BCache Proof.BCacheP.
Import ListNotations.
Open Scope Z_scope.

(* The mutant "accept every cache hit" (bucketCache.Get without the
   bucketsEqual re-check), which the repository's suite cannot tell from the
   code: with the identity function of the code, ValueBuckets{1,4} and
   ValueBuckets{2,2} share an identity (bits 1.0 + bits 4.0 = 2 * bits 2.0),
   and the second histogram gets the first one's bounds 1, 4, Max instead of
   2, 2, Max. *)
Theorem C20_nocheck_refuted :
  exists (history : list (kind * list Z)) (i : nat) (k : kind) (spec : list Z) (s : storage),
    nth_error history i = Some (k, spec) /\
    nth_error (run_from (get_nocheck real_ident) [] 0 history) i = Some s /\
    sbounds s <> uppers k spec /\
    sbounds s = [4607182418800017408; 4616189618054758400; MAXF] /\
    uppers k spec = [4611686018427387904; 4611686018427387904; MAXF] /\
    all2 (elem_eqb k) (sbounds s) (uppers k spec) = false.
Proof.
  exists [(KValue, [4607182418800017408; 4616189618054758400]);
          (KValue, [4611686018427387904; 4611686018427387904])],
         1%nat, KValue, [4611686018427387904; 4611686018427387904].
  eexists. split; [reflexivity|]. split; [vm_compute; reflexivity|].
  split; [vm_compute; discriminate|]. vm_compute. repeat split.
Qed.
Print Assumptions C20_nocheck_refuted.

(* the same mutant hands a duration histogram the (empty) duration bounds of
   a value storage: kinds collide too *)
Theorem C20_nocheck_kind_refuted :
  let history := [(KValue, [4607182418800017408; 4616189618054758400]);
                  (KDuration, [4607182418800017408; 4616189618054758400])] in
  map skind (run_from (get_nocheck real_ident) [] 0 history) = [KValue; KValue] /\
  map skind (run real_ident history) = [KValue; KDuration].
Proof. vm_compute. split; reflexivity. Qed.
Print Assumptions C20_nocheck_kind_refuted.

(* "start, then repeatedly plus width" must not be read as the repeated
   floating-point sum: the code computes start + float64(i)*width, and for
   start 0, width 0.1 the 7th bound is 0.6000000000000001 where six additions
   of 0.1 give 0.6 *)
Theorem C20_repeated_sum_reading_refuted :
  exists start width i,
    lin_value_elem start width i <> Nat.iter i (fun c => fadd c width) start.
Proof. exists 0, 4591870180066957722, 6%nat. vm_compute. discriminate. Qed.
Print Assumptions C20_repeated_sum_reading_refuted.

(* The mutant "identity 0 means the empty set": a fast path at the top of
   bucketCache.Get that, when the identity is 0, returns the storage of the
   single catch-all bucket without consulting the cache or bucketsEqual.  The
   identity function of the code is 0 for the empty set -- and for every
   non-empty set whose elements sum to -23/31 = 8925843906633654007 modulo
   2^64.  DurationBuckets{250ms, 1s, 8925843905383654007ns} is one: with the
   mutant its histogram, even as the only one ever created, gets the bounds
   [MaxInt64] instead of its own. *)
Definition get_emptyfast (ident : kind -> list Z -> Z) (c : cache) (own : nat) (k : kind)
           (spec : list Z) : cache * storage :=
  if ident k spec =? 0 then (c, Storage own k spec (map snd (pairs k [])))
  else get ident c own k spec.

Theorem C20_emptyfast_refuted :
  exists (k : kind) (spec : list Z) (s : storage),
    spec <> [] /\ real_ident k spec = real_ident k [] /\
    run_from (get_emptyfast real_ident) [] 0 [(k, spec)] = [s] /\
    sbounds s = [MAXI] /\
    uppers k spec = [250000000; 1000000000; 8925843905383654007; MAXI].
Proof.
  exists KDuration, [250000000; 1000000000; 8925843905383654007].
  eexists. split; [discriminate|]. split; [vm_compute; reflexivity|].
  split; [vm_compute; reflexivity|]. vm_compute. split; reflexivity.
Qed.
Print Assumptions C20_emptyfast_refuted.
