(* The pinned tree's RecordValue indexes h.samples[idx] directly: for +Inf and
   NaN the search returns len and the access panics (None). Witnesses for the
   specification {1, 2}. *)
From Coq Require Import ZArith List.
From Tally Require Import Model.Buckets.
Import ListNotations.
Open Scope Z_scope.

Theorem C03_pinned_inf_refuted :
  exists spec v, record_pinned KValue (uppers KValue spec) v = None /\ v = PINF.
Proof. exists [4607182418800017408; 4611686018427387904], PINF. vm_compute. split; reflexivity. Qed.

Theorem C03_pinned_nan_refuted :
  exists spec v, record_pinned KValue (uppers KValue spec) v = None /\ fkey v = None.
Proof. exists [4607182418800017408; 4611686018427387904], 9221120237041090560. vm_compute. split; reflexivity. Qed.
