(* The pinned tree's registry, in the model's terms.
   (i)  removal deletes BY KEY: sequentially, with a sanitizer merging the raw
        keys 1 ("a-b") and 2 ("a_b"), the stale alias 1 of a closed scope removes
        the registration of the live scope created in between;
   (ii) a closed scope still registered under the sanitized key is handed out
        again when the identity is requested through another spelling. *)
From Coq Require Import List Arith Bool.
From Tally Require Import Model.Registry.
Import ListNotations.

Fixpoint remove_key (r : list (nat*nat)) (k : nat) : list (nat*nat) :=
  match r with [] => [] | (k', o') :: r' => if Nat.eqb k k' then remove_key r' k else (k', o') :: remove_key r' k end.

Definition san (k : nat) : nat := match k with 1 => 2 | _ => k end.

(* one whole Subscope(raw) call of the pinned code, executed atomically *)
Definition subscope_pinned (s : sys) (raw : nat) : sys * nat :=
  let s1 :=
    match lookup (reg s) raw with
    | Some o => if closed (obj s o)
                then let s' := set_obj s o (report_obj (obj s o)) in
                     let s' := set_reg s' (remove_key (remove_key (reg s') raw) (san raw)) in
                     set_obj s' o (clear_obj (obj s' o))
                else s
    | None => s
    end in
  match lookup (reg s1) raw with
  | Some o => (s1, o)
  | None =>
    match lookup (reg s1) (san raw) with
    | Some o => (set_reg s1 (add_alias (reg s1) raw o), o)     (* no closed check *)
    | None => let o := length (objs s1) in
              ({| objs := objs s1 ++ [new_obj (san raw)]; reg := add_alias ((san raw, o) :: reg s1) raw o; thr := thr s1 |}, o)
    end
  end.

Definition inc (s : sys) (o : nat) := set_obj s o (inc_obj (obj s o)).
Definition close (s : sys) (o : nat) := set_obj s o (close_obj (obj s o)).

(* a := Tagged{k:"a-b"}; a.Inc; a.Close; b := Tagged{k:"a_b"}; b.Inc; c := Tagged{k:"a-b"}; c.Inc; b.Inc *)
Definition witness : sys * nat * nat :=
  let s0 := init [] in
  let '(s, a) := subscope_pinned s0 1 in
  let s := close (inc s a) a in
  let '(s, b) := subscope_pinned s 2 in
  let s := inc s b in
  let '(s, c) := subscope_pinned s 1 in
  let s := inc (inc s c) b in
  (s, b, c).

(* b is a live scope holding two undelivered increments, yet it is no longer
   registered under its own key: no later report pass can reach it *)
Theorem C07_stale_alias_refuted :
  let '(s, b, c) := witness in
  closed (obj s b) = false /\ applied (obj s b) = 2 /\ delivered (obj s b) = 0 /\
  b <> c /\ lookup (reg s) (skey (obj s b)) = Some c.
Proof. vm_compute. repeat split; auto; discriminate. Qed.

(* a := Tagged{k:"a_b"}; a.Close; b := Tagged{k:"a-b"}  returns the closed a *)
Theorem C07_closed_scope_returned_refuted :
  let s0 := init [] in
  let '(s, a) := subscope_pinned s0 2 in
  let s := close s a in
  let '(s, b) := subscope_pinned s 1 in
  b = a /\ closed (obj s b) = true.
Proof. vm_compute. split; reflexivity. Qed.
