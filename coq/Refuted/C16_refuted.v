(* C16 — witnesses that delimit the theorems of Props/C16.v (none of them is
   a defect of the pinned tree): what happens just outside their hypotheses,
   and how the model reacts to the small code changes the check is meant to
   detect. *)
From Coq Require Import ZArith List Bool Lia.
From Tally Require Import Base.ObsCore Model.Varint Model.Thrift.
Import ListNotations.
Open Scope Z_scope.

(* MetricType is a Go int64 but an i32 on the wire (WriteI32(int32(p.MetricType))):
   a value outside int32 does not survive, in either protocol.  The round-trip
   theorems therefore ask for [int32 (mtype v)]. *)
Theorem C16_type_outside_int32_refuted :
  let m := Metric [110] (MValue 4294967297 0 0 0) 0 None in
  decode_metric compact (encode_metric compact cps0 m) = Some (Metric [110] (MValue 1 0 0 0) 0 None, []) /\
  decode_metric binary (encode_metric binary tt m) = Some (Metric [110] (MValue 1 0 0 0) 0 None, []).
Proof. vm_compute. split; reflexivity. Qed.
Print Assumptions C16_type_outside_int32_refuted.

(* a placeholder of 0 instead of MaxInt64 (timestamp, or the counter slot) is
   not an upper bound under the Compact protocol *)
Theorem C16_zero_placeholder_refuted :
  let zero_ts := Metric [110] (MValue 1 MAXI64 0 0) 0 None in
  let zero_cnt := Metric [110] (MValue 1 0 0 0) MAXI64 None in
  (calc_metric compact cps0 zero_ts < Z.of_nat (length (encode_metric compact cps0 (reported 1 [110] None 4611686018427387904 1700000000000000000)))) /\
  (calc_metric compact cps0 zero_cnt < Z.of_nat (length (encode_metric compact cps0 (reported 1 [110] None 64 MAXI64)))).
Proof. vm_compute. split; reflexivity. Qed.
Print Assumptions C16_zero_placeholder_refuted.

(* nil and empty optional lists are different encodings (so preserving the
   distinction is observable), in both protocols *)
Theorem C16_nil_is_not_empty :
  e_metric compact (Metric [] (MValue 0 0 0 0) 0 None) <> e_metric compact (Metric [] (MValue 0 0 0 0) 0 (Some [])) /\
  e_metric binary (Metric [] (MValue 0 0 0 0) 0 None) <> e_metric binary (Metric [] (MValue 0 0 0 0) 0 (Some [])).
Proof. split; vm_compute; discriminate. Qed.
Print Assumptions C16_nil_is_not_empty.

(* a Compact writer whose WriteStructEnd pops the stack but does not restore
   the last field id: the timestamp after the nested MetricValue is then
   written in the long form, and the protocol object is left in another state
   than it was found in *)
Definition compact_nopop : proto := {|
  PS := cps;
  w_sb := w_sb compact;
  w_se := fun p => CPS (plast p) (tl (pstk p));
  w_fb := w_fb compact; w_stop := w_stop compact; w_i32 := w_i32 compact; w_i64 := w_i64 compact;
  w_double := w_double compact; w_str := w_str compact; w_lb := w_lb compact; w_mb := w_mb compact;
  p_inside := p_inside compact; e_fb := e_fb compact; e_stop := e_stop compact; e_i32 := e_i32 compact;
  e_i64 := e_i64 compact; e_double := e_double compact; e_str := e_str compact; e_lb := e_lb compact;
  e_mb := e_mb compact; r_fb := r_fb compact; r_i32 := r_i32 compact; r_i64 := r_i64 compact;
  r_double := r_double compact; r_str := r_str compact; r_lb := r_lb compact; r_mb := r_mb compact
|}.
Theorem C16_no_restore_refuted :
  let m := Metric [110] (MValue 1 2 0 0) 3 None in
  encode_metric compact_nopop cps0 m <> encode_metric compact cps0 m /\
  snd (wr_metric compact_nopop m (tr0, cps0)) <> cps0.
Proof. repeat split; vm_compute; discriminate. Qed.
Print Assumptions C16_no_restore_refuted.

(* the int32 counter of TCalcTransport: beyond 2^31 - 1 bytes the reported
   size is not the length any more (the hypothesis of the exact form of
   C16_calc_eq_len) *)
Theorem C16_counter_wraps : get_count (Tr [] 2147483647) = 2147483647 /\ get_count (tws [0] (Tr [] 2147483647)) = -2147483648.
Proof. vm_compute. split; reflexivity. Qed.
Print Assumptions C16_counter_wraps.
