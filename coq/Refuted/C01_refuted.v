(* The pinned tree's value() (load curr; load prev; store prev) is not atomic:
   with one incrementer (5 then 7) and two reporters, the 8-step schedule
   [0;0;1;1;2;2;1;2] lets both reporters load curr = 12, prev = 0 and both
   deliver 12: 24 delivered for 12 recorded. *)
From Coq Require Import ZArith List.
From Tally Require Import Model.Counter.
Import ListNotations.
Open Scope Z_scope.

Theorem C01_pinned_double_delivery_refuted :
  exists ths sched, let s := prun (pinit ths) sched in
    sumZ (plog s) = 24 /\ pcurr s = 12 /\ pprev s = 12.
Proof.
  exists [PInc [5; 7]; PRep (PIdle 1); PRep (PIdle 1)], [0;0;1;1;2;2;1;2]%nat.
  vm_compute. repeat split.
Qed.
