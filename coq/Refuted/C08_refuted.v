(* The tree before the fix: Close did not wait for the report loop.  In the model's
   terms the KWait step is always enabled; then the reporter is called after Close has
   returned, and the loop goroutine is still alive at that point. *)
From Coq Require Import List Bool Arith.
From Tally Require Import Model.RootClose.
Import ListNotations.

Definition step_nowait (s : sys) (pk : pick) : sys :=
  let '(i, ch, order) := pk in
  match nth_error (thr s) i with
  | Some (TK KWait) => set_thr s i (TK KStart)
  | _ => step s pk
  end.

Theorem C08_no_wait_refuted :
  exists cs ths sched pk,
    let s := fold_left step_nowait sched (init cs ths) in
    In (TK KRet) (thr s) /\                                   (* Close has returned *)
    In (TT (TPass [0])) (thr s) /\                            (* the loop is inside a pass *)
    log (step_nowait s pk) <> log s.                          (* and then calls the reporter *)
Proof.
  exists [0], [TT TWait; TK KIdle; TA (AInc 0 2)],
    [(2,true,[]); (0,true,[]); (0,true,[]); (0,true,[0]);      (* one increment; the loop starts a pass *)
     (1,true,[]); (1,true,[]); (1,true,[]); (1,true,[0]); (1,true,[]); (1,true,[]);  (* Close runs to the end *)
     (2,true,[])],                                             (* one more increment *)
    (0,true,[]).
  vm_compute. split; [right; left; reflexivity|]. split; [left; reflexivity|discriminate].
Qed.
