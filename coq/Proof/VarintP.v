(* Lemmas about the wire integers of Model/Varint.v: round trips and lengths. *)
From Coq Require Import ZArith List Bool Lia ZifyBool.
From Tally Require Import Base.ObsCore Model.Varint.
Import ListNotations.
Open Scope Z_scope.
Ltac Zify.zify_post_hook ::= Z.div_mod_to_equations.

Lemma wrap32_id z : int32 z -> wrap32 z = z.
Proof. unfold int32, wrap32. lia. Qed.
Lemma wrap16_id z : int16 z -> wrap16 z = z.
Proof. unfold int16, wrap16. lia. Qed.
Lemma wrap64_id z : int64 z -> wrap64 z = z.
Proof. unfold int64, wrap64. lia. Qed.
Lemma wrap32_range z : int32 (wrap32 z).
Proof. unfold int32, wrap32. lia. Qed.
Lemma wrap32_u32 z : wrap32 (u32 z) = wrap32 z.
Proof. unfold wrap32, u32. lia. Qed.
Lemma wrap16_u16 z : wrap16 (u16 z) = wrap16 z.
Proof. unfold wrap16, u16. lia. Qed.
Lemma wrap64_u64 z : wrap64 (u64 z) = wrap64 z.
Proof. unfold wrap64, u64. lia. Qed.
(* an int32 counter that is advanced by wrapping additions holds the wrapped exact sum *)
Lemma wrap32_add a b : wrap32 (wrap32 a + b) = wrap32 (a + b).
Proof. unfold wrap32. lia. Qed.
Lemma wrap32_add_r a b : wrap32 (a + wrap32 b) = wrap32 (a + b).
Proof. unfold wrap32. lia. Qed.

Lemma zigzag_range64 l : int64 l -> 0 <= zigzag l < 18446744073709551616.
Proof. unfold zigzag, int64. intros Hl. destruct (l <? 0) eqn:E; lia. Qed.
Lemma zigzag_range32 l : int32 l -> 0 <= zigzag l < 4294967296.
Proof. unfold zigzag, int32. intros Hl. destruct (l <? 0) eqn:E; lia. Qed.
Lemma unzigzag_zigzag l : unzigzag (zigzag l) = l.
Proof. unfold zigzag, unzigzag. destruct (l <? 0) eqn:E; destruct (_ mod 2 =? 0) eqn:F; lia. Qed.

Lemma unvarint_varint fuel : forall u rest, 0 <= u < 128 ^ Z.of_nat (S fuel) ->
  unvarint (varint fuel u ++ rest) = Some (u, rest).
Proof.
  induction fuel as [|f IH]; intros u rest Hu.
  - change (128 ^ Z.of_nat 1) with 128 in Hu. cbn [varint app unvarint].
    destruct (Z.ltb_spec u 128); [reflexivity | lia].
  - cbn [varint]. destruct (Z.ltb_spec u 128) as [L|L].
    + cbn [app unvarint]. destruct (Z.ltb_spec u 128); [reflexivity | lia].
    + cbn [app unvarint]. destruct (Z.ltb_spec (u mod 128 + 128) 128) as [Q|Q]; [lia|].
      rewrite IH.
      * f_equal. f_equal. lia.
      * rewrite Nat2Z.inj_succ in Hu. rewrite Z.pow_succ_r in Hu by lia. lia.
Qed.

Lemma varint_len fuel : forall u, (1 <= length (varint fuel u) <= S fuel)%nat.
Proof.
  induction fuel as [|f IH]; intros u; cbn [varint]; [cbn; lia|].
  destruct (u <? 128); cbn [length]; [lia|]. specialize (IH (u / 128)). lia.
Qed.

Lemma varint32_roundtrip n rest : unvarint (varint32 n ++ rest) = Some (u32 n, rest).
Proof.
  unfold varint32. apply unvarint_varint.
  change (128 ^ Z.of_nat 5) with 34359738368. unfold u32. lia.
Qed.
Lemma varint64_roundtrip n rest : unvarint (varint64 n ++ rest) = Some (u64 n, rest).
Proof.
  unfold varint64. apply unvarint_varint.
  change (128 ^ Z.of_nat 10) with 1180591620717411303424. unfold u64. lia.
Qed.
Lemma varint32_len n : (1 <= length (varint32 n) <= 5)%nat.
Proof. apply varint_len. Qed.
Lemma varint64_len n : (1 <= length (varint64 n) <= 10)%nat.
Proof. apply varint_len. Qed.
Lemma varint64_max_len : length (varint64 (zigzag MAXI64)) = 10%nat.
Proof. reflexivity. Qed.

Lemma u32_id z : 0 <= z < 4294967296 -> u32 z = z.
Proof. unfold u32. lia. Qed.
Lemma u64_id z : 0 <= z < 18446744073709551616 -> u64 z = z.
Proof. unfold u64. lia. Qed.

(* fixed width *)
Lemma be16_roundtrip u rest : 0 <= u < 65536 -> rd_be16 (be16 u ++ rest) = Some (u, rest).
Proof. intros Hu. unfold be16, rd_be16. cbn [app]. f_equal. f_equal. lia. Qed.
Lemma be32_roundtrip u rest : 0 <= u < 4294967296 -> rd_be32 (be32 u ++ rest) = Some (u, rest).
Proof. intros Hu. unfold be32, rd_be32. cbn [app]. f_equal. f_equal. lia. Qed.
Lemma be64_roundtrip u rest : 0 <= u < 18446744073709551616 -> rd_be64 (be64 u ++ rest) = Some (u, rest).
Proof.
  intros Hu. unfold be64, rd_be64. rewrite <- app_assoc.
  rewrite be32_roundtrip by lia. rewrite be32_roundtrip by lia. f_equal. f_equal. lia.
Qed.
Lemma le64_roundtrip u rest : 0 <= u < 18446744073709551616 -> rd_le64 (le64 u ++ rest) = Some (u, rest).
Proof.
  intros Hu. unfold le64, rd_le64. cbn [app]. f_equal. f_equal.
  (* peel the bytes off one at a time *)
  pose proof (Z.div_mod u 256 ltac:(lia)) as E0.
  set (u1 := u / 256) in *.
  replace (u / 65536) with (u1 / 256) by (unfold u1; rewrite Z.div_div by lia; reflexivity).
  replace (u / 16777216) with (u1 / 256 / 256) by (unfold u1; rewrite !Z.div_div by lia; reflexivity).
  replace (u / 4294967296) with (u1 / 256 / 256 / 256) by (unfold u1; rewrite !Z.div_div by lia; reflexivity).
  replace (u / 1099511627776) with (u1 / 256 / 256 / 256 / 256) by (unfold u1; rewrite !Z.div_div by lia; reflexivity).
  replace (u / 281474976710656) with (u1 / 256 / 256 / 256 / 256 / 256) by (unfold u1; rewrite !Z.div_div by lia; reflexivity).
  replace (u / 72057594037927936) with (u1 / 256 / 256 / 256 / 256 / 256 / 256) by (unfold u1; rewrite !Z.div_div by lia; reflexivity).
  assert (H7 : u1 / 256 / 256 / 256 / 256 / 256 / 256 < 256) by (unfold u1; lia).
  assert (H0 : 0 <= u1 / 256 / 256 / 256 / 256 / 256 / 256) by (unfold u1; lia).
  rewrite (Z.mod_small (u1 / 256 / 256 / 256 / 256 / 256 / 256)) by lia.
  lia.
Qed.
Lemma be16_len u : length (be16 u) = 2%nat. Proof. reflexivity. Qed.
Lemma be32_len u : length (be32 u) = 4%nat. Proof. reflexivity. Qed.
Lemma be64_len u : length (be64 u) = 8%nat. Proof. reflexivity. Qed.
Lemma le64_len u : length (le64 u) = 8%nat. Proof. reflexivity. Qed.

Lemma takez_app s rest : takez (s ++ rest) (Z.of_nat (length s)) = Some (s, rest).
Proof.
  induction s as [|b s IH].
  - destruct rest; reflexivity.
  - cbn [app length takez]. destruct (Z.leb_spec (Z.of_nat (S (length s))) 0) as [L|L]; [lia|].
    replace (Z.of_nat (S (length s)) - 1) with (Z.of_nat (length s)) by lia.
    rewrite IH. reflexivity.
Qed.
