(* C18 with the rendering of durations modelled (Model/DurString.v) instead of assumed: the stat
   names of the buckets of a duration histogram are pairwise different whenever its upper bounds
   are - no hypothesis on the rendering is left for this kind. *)
From Coq Require Import ZArith List Bool Lia.
From Tally Require Import Model.Buckets Model.Statsd Model.DurString Proof.StatsdP Proof.DurStringP.
Import ListNotations.
Open Scope Z_scope.

Lemma dur_shape d : shape (dur_string d).
Proof. unfold shape, DASH. apply dur_string_shape. Qed.

Definition int64 (x : Z) : Prop := MINI <= x <= MAXI.

Lemma dur_head_not_i d : forall r, dur_string d <> 105 :: r.
Proof.
  intros r. unfold dur_string. destruct (d <? 0); [discriminate|].
  destruct (dur_abs_head d) as (b & r' & E & Hb). rewrite E. intros Q. inversion Q; subst. discriminate.
Qed.
Lemma dur_not_ninf d : dur_string d <> NINFINITY.
Proof.
  unfold dur_string, NINFINITY, INFINITY, DASH. destruct (d <? 0).
  - destruct (dur_abs_head (- d)) as (b & r' & E & Hb). rewrite E. intros Q. inversion Q; subst. discriminate.
  - destruct (dur_abs_head d) as (b & r' & E & Hb). rewrite E. intros Q. inversion Q; subst. discriminate.
Qed.

(* durationBucketString is injective on int64 *)
Lemma dstr_injective d d' : int64 d -> int64 d' -> dstr dur_string d = dstr dur_string d' -> d = d'.
Proof.
  unfold int64, dstr, MAXI, MINI. intros H H'.
  destruct (Z.eqb_spec d 9223372036854775807) as [->|A]; destruct (Z.eqb_spec d' 9223372036854775807) as [->|A']; auto.
  - destruct (Z.eqb_spec d' (-9223372036854775808)); [discriminate|]. intros Q. symmetry in Q. exfalso. exact (dur_head_not_i _ _ Q).
  - destruct (Z.eqb_spec d (-9223372036854775808)); [discriminate|]. intros Q. exfalso. exact (dur_head_not_i _ _ Q).
  - destruct (Z.eqb_spec d (-9223372036854775808)) as [->|B]; destruct (Z.eqb_spec d' (-9223372036854775808)) as [->|B']; auto.
    + intros Q. symmetry in Q. exfalso. exact (dur_not_ninf _ Q).
    + intros Q. exfalso. exact (dur_not_ninf _ Q).
    + apply dur_string_injective; unfold MINI64, MAXI64; lia.
Qed.

Theorem duration_names_distinct fmtf p name spec :
  (forall x, In x spec -> int64 x) ->
  NoDup (uppers KDuration spec) ->
  NoDup (hist_names fmtf dur_string KDuration p name spec).
Proof.
  intros Hs Hn. apply hist_names_nodup_uppers.
  - intros x _. cbn [ofmt]. apply dur_shape.
  - assert (Hu : forall x, In x (uppers KDuration spec) -> int64 x).
    { intros x Hx. unfold uppers in Hx. destruct spec as [|a r] eqn:Es.
      - destruct Hx as [<-|[]]. unfold int64, top, MAXI, MINI. lia.
      - rewrite <- Es in *. apply in_app_or in Hx as [Hx|[<-|[]]].
        + apply Hs. eapply in_isort; eauto.
        + unfold int64, top, MAXI, MINI. lia. }
    revert Hn Hu. generalize (uppers KDuration spec). intros l. induction l as [|a l IH]; intros Hn Hu; cbn [map]; [constructor|].
    inversion Hn as [|? ? Hni Hnr]; subst. constructor.
    + intros Hin. apply in_map_iff in Hin as (b & Eb & Hb). apply Hni.
      assert (a = b); [|subst; exact Hb].
      cbn [bstr] in Eb. symmetry in Eb. apply dstr_injective in Eb; auto.
      * apply Hu. left; reflexivity.
      * apply Hu. right; exact Hb.
    + apply IH; auto. intros x Hx. apply Hu. right; exact Hx.
Qed.
