(* Side conditions of the key theorems on the constants of key_gen.go
   (Gen/Params.v is regenerated from the Go source on every run): the three
   delimiters are pairwise distinct.  Nothing else about their values is used
   by Proof/KeyGenP.v, so editing a delimiter constant either keeps the
   theorems (still distinct) or breaks this file. *)
From Coq Require Import ZArith.
From Tally Require Import Gen.Params Model.KeyGen.
Open Scope Z_scope.

Lemma plus_ne_comma : PLUS <> COMMA.
Proof. vm_compute. discriminate. Qed.
Lemma plus_ne_eqs : PLUS <> EQS.
Proof. vm_compute. discriminate. Qed.
Lemma comma_ne_eqs : COMMA <> EQS.
Proof. vm_compute. discriminate. Qed.

(* they are bytes *)
Lemma delims_are_bytes : 0 <= PLUS < 256 /\ 0 <= COMMA < 256 /\ 0 <= EQS < 256.
Proof. vm_compute. intuition discriminate. Qed.
