(* Proofs about the bucket cache (Model/BCache.v): whatever the identity
   function and whatever was requested before (or is being requested
   concurrently), the storage Get returns for a specification carries bounds
   equal -- by Go's == on the element type -- to those of the requested
   specification. *)
From Coq Require Import ZArith List Bool Lia Arith.
From Coq Require Import ZifyBool.
From Tally Require Import Base.Search Model.Buckets Model.Ctor Model.BCache Proof.CtorP.
Import ListNotations.
Open Scope Z_scope.
Ltac Zify.zify_post_hook ::= Z.div_mod_to_equations.

(* ---------- equality of bounds ---------- *)
(* two float64 are "the same bound" when they are the same bits or compare ==
   (the only distinct bit patterns that compare == are +0 and -0) *)
Definition fsame (a b : Z) : Prop := a = b \/ feq a b = true.
Definition esame (k : kind) (a b : Z) : Prop :=
  match k with KValue => fsame a b | KDuration => a = b end.
Definition psame (k : kind) (p q : Z * Z) : Prop :=
  esame k (fst p) (fst q) /\ esame k (snd p) (snd q).

(* what a histogram created with (k, spec) must get *)
Definition good (k : kind) (spec : list Z) (s : storage) : Prop :=
  skind s = k /\
  Forall2 (esame k) (sspec s) spec /\
  sbounds s = uppers k (sspec s) /\
  Forall2 (esame k) (sbounds s) (uppers k spec) /\
  Forall2 (psame k) (hpairs k (sbounds s)) (pairs k spec).

Lemma esame_refl k a : esame k a a.
Proof. destruct k; cbn; [left|]; reflexivity. Qed.

Lemma feq_sym a b : feq a b = feq b a.
Proof. unfold feq. destruct (fkey a), (fkey b); try reflexivity. apply Z.eqb_sym. Qed.

Lemma feq_fkey a b : feq a b = true -> fkey a = fkey b.
Proof.
  unfold feq. destruct (fkey a) as [x|], (fkey b) as [y|]; try discriminate.
  intros Hh. apply Z.eqb_eq in Hh. now subst.
Qed.

Lemma fsame_fkey a b : fsame a b -> fkey a = fkey b.
Proof. intros [->|Hh]; [reflexivity | apply feq_fkey; exact Hh]. Qed.

Lemma elem_eqb_esame k a b : elem_eqb k a b = true -> esame k b a.
Proof.
  destruct k; cbn; intros Hh.
  - right. rewrite feq_sym. exact Hh.
  - apply Z.eqb_eq in Hh. now subst.
Qed.

Lemma lt_of_esame k a a' b b' : esame k a a' -> esame k b b' -> lt_of k a b = lt_of k a' b'.
Proof.
  destruct k; cbn; intros Ha Hb.
  - unfold flt. now rewrite (fsame_fkey _ _ Ha), (fsame_fkey _ _ Hb).
  - now subst.
Qed.

(* ---------- lists ---------- *)
Lemma Forall2_refl {A} (R : A -> A -> Prop) : (forall x, R x x) -> forall l, Forall2 R l l.
Proof. intros Hr l; induction l; constructor; auto. Qed.

Lemma Forall2_len {A B} (R : A -> B -> Prop) l l' : Forall2 R l l' -> length l = length l'.
Proof. induction 1; cbn; congruence. Qed.

Lemma Forall2_nth {A B} (R : A -> B -> Prop) l l' d d' :
  Forall2 R l l' -> forall i, (i < length l)%nat -> R (nth i l d) (nth i l' d').
Proof.
  induction 1 as [|x y l l' Hxy Hl IH]; intros i Hi; cbn in Hi; [lia|].
  destruct i; cbn; [exact Hxy | apply IH; lia].
Qed.

Lemma Forall2_of_nth {A B} (R : A -> B -> Prop) d d' : forall l l',
  length l = length l' ->
  (forall i, (i < length l)%nat -> R (nth i l d) (nth i l' d')) -> Forall2 R l l'.
Proof.
  induction l as [|x l IH]; intros [|y l'] Hlen Hn; cbn in Hlen; try discriminate; constructor.
  - apply (Hn 0%nat). cbn; lia.
  - apply IH; [lia|]. intros i Hi. apply (Hn (S i)). cbn; lia.
Qed.

Lemma map_nth_seq (l : list Z) : map (fun i => nth i l 0) (seq 0 (length l)) = l.
Proof.
  induction l as [|x l IH]; [reflexivity|].
  cbn [length seq map nth]. f_equal. rewrite <- seq_shift, map_map. exact IH.
Qed.

Lemma all2_Forall2 k x y : all2 (elem_eqb k) x y = true -> Forall2 (esame k) y x.
Proof.
  revert y; induction x as [|a x IH]; intros [|b y]; cbn; intros Hh; try discriminate; constructor.
  - apply andb_true_iff in Hh as [H1 _]. apply elem_eqb_esame; exact H1.
  - apply andb_true_iff in Hh as [_ H2]. apply IH; exact H2.
Qed.

(* ---------- sorting respects sameness ---------- *)
Lemma insert_same k x x' l l' :
  esame k x x' -> Forall2 (esame k) l l' ->
  Forall2 (esame k) (insert (lt_of k) x l) (insert (lt_of k) x' l').
Proof.
  intros Hx. induction 1 as [|y y' l l' Hy Hl IH]; cbn [insert].
  - constructor; [exact Hx | constructor].
  - rewrite (lt_of_esame k y y' x x' Hy Hx). destruct (lt_of k y' x').
    + constructor; [exact Hy | exact IH].
    + constructor; [exact Hx|]. constructor; [exact Hy | exact Hl].
Qed.

Lemma isort_same k l l' :
  Forall2 (esame k) l l' -> Forall2 (esame k) (isort (lt_of k) l) (isort (lt_of k) l').
Proof.
  induction 1 as [|x x' l l' Hx Hl IH]; cbn; [constructor|].
  apply insert_same; [exact Hx | exact IH].
Qed.

Lemma uppers_same k l l' :
  Forall2 (esame k) l l' -> Forall2 (esame k) (uppers k l) (uppers k l').
Proof.
  intros Hh. destruct Hh as [|x x' l l' Hx Hl].
  - cbn. constructor; [apply esame_refl | constructor].
  - unfold uppers. apply Forall2_app.
    + apply isort_same. constructor; assumption.
    + constructor; [apply esame_refl | constructor].
Qed.

(* ---------- storage ---------- *)
Lemma snd_pairs k spec : map snd (pairs k spec) = uppers k spec.
Proof. unfold pairs. rewrite map_map. cbn [snd]. apply map_nth_seq. Qed.

Lemma hpairs_uppers k spec : hpairs k (uppers k spec) = pairs k spec.
Proof. reflexivity. Qed.

Lemma hpairs_length k us : length (hpairs k us) = length us.
Proof. unfold hpairs. now rewrite map_length, seq_length. Qed.

Lemma hpairs_nth k us i : (i < length us)%nat ->
  nth i (hpairs k us) (0, 0) = (lower k us i, nth i us 0).
Proof. intros Hi. unfold hpairs. now rewrite nth_map_seq. Qed.

Lemma hpairs_same k us us' :
  Forall2 (esame k) us us' -> Forall2 (psame k) (hpairs k us) (hpairs k us').
Proof.
  intros Hh. pose proof (Forall2_len _ _ _ Hh) as Hlen.
  apply (Forall2_of_nth _ (0, 0) (0, 0)).
  - now rewrite !hpairs_length.
  - intros i Hi. rewrite hpairs_length in Hi.
    rewrite !hpairs_nth by lia. split; cbn [fst snd].
    + destruct i as [|j]; cbn [lower]; [apply esame_refl|].
      apply Forall2_nth; [exact Hh | lia].
    + apply Forall2_nth; [exact Hh | exact Hi].
Qed.

(* a storage is well formed when its bounds are those of its own specification *)
Definition swf (s : storage) : Prop := sbounds s = uppers (skind s) (sspec s).

Lemma swf_mk own k spec : swf (mkstorage own k spec).
Proof. unfold swf, mkstorage; cbn. apply snd_pairs. Qed.

Lemma good_of_same k spec s :
  swf s -> skind s = k -> Forall2 (esame k) (sspec s) spec -> good k spec s.
Proof.
  intros Hw Hk Hs. unfold swf in Hw. rewrite Hk in Hw.
  assert (Hu : Forall2 (esame k) (sbounds s) (uppers k spec)).
  { rewrite Hw. apply uppers_same; exact Hs. }
  split; [exact Hk|]. split; [exact Hs|]. split; [exact Hw|]. split; [exact Hu|].
  rewrite <- hpairs_uppers. apply hpairs_same; exact Hu.
Qed.

Lemma good_mk own k spec : good k spec (mkstorage own k spec).
Proof.
  apply good_of_same; [apply swf_mk | reflexivity |].
  cbn. apply Forall2_refl. apply esame_refl.
Qed.

Lemma kind_eqb_eq a b : kind_eqb a b = true -> a = b.
Proof. destruct a, b; cbn; intros; try discriminate; reflexivity. Qed.

Lemma good_on_hit own k spec s : swf s -> good k spec (on_hit own k spec s).
Proof.
  intros Hw. unfold on_hit. destruct (buckets_equal k spec (skind s) (sspec s)) eqn:E.
  - unfold buckets_equal in E. apply andb_true_iff in E as [E1 E2].
    apply kind_eqb_eq in E1. apply good_of_same; [exact Hw | now symmetry |].
    apply all2_Forall2; exact E2.
  - apply good_mk.
Qed.

Section CacheP.
  Variable ident : kind -> list Z -> Z.

  Definition wf (c : cache) : Prop := forall id s, lookup c id = Some s -> swf s.

  Lemma wf_nil : wf [].
  Proof. intros id s Hh; discriminate. Qed.

  Lemma wf_store c id s : wf c -> swf s -> wf (store c id s).
  Proof.
    intros Hc Hs id' s'. unfold store. cbn [lookup].
    destruct (id' =? id); [intros Hh; inversion Hh; subst; exact Hs | apply Hc].
  Qed.

  Lemma get_wf c own k spec : wf c -> wf (fst (get ident c own k spec)).
  Proof.
    intros Hc. unfold get. destruct (lookup c (ident k spec)); cbn [fst]; [exact Hc|].
    apply wf_store; [exact Hc | apply swf_mk].
  Qed.

  Lemma get_good c own k spec : wf c -> good k spec (snd (get ident c own k spec)).
  Proof.
    intros Hc. unfold get. destruct (lookup c (ident k spec)) as [s|] eqn:E; cbn [snd].
    - apply good_on_hit. apply (Hc _ _ E).
    - apply good_mk.
  Qed.

  (* every creation of every history gets a good storage *)
  Lemma run_from_good h : forall c own, wf c ->
    Forall2 (fun p s => good (fst p) (snd p) s) h (run_from (get ident) c own h).
  Proof.
    induction h as [|[k spec] h IH]; intros c own Hc; cbn [run_from]; [constructor|].
    pose proof (get_wf c own k spec Hc) as Hw. pose proof (get_good c own k spec Hc) as Hg.
    destruct (get ident c own k spec) as [c' s]. cbn [fst snd] in Hw, Hg.
    constructor; [exact Hg | apply IH; exact Hw].
  Qed.

  Theorem run_good h : Forall2 (fun p s => good (fst p) (snd p) s) h (run ident h).
  Proof. apply run_from_good. apply wf_nil. Qed.

  Lemma run_length h : length (run ident h) = length h.
  Proof. symmetry. apply (Forall2_len _ _ _ (run_good h)). Qed.

  (* ---------- interleaved Gets ---------- *)
  Lemma upd_length {A} (l : list A) i x : length (upd l i x) = length l.
  Proof. revert i; induction l as [|y l IH]; intros [|i]; cbn; auto. Qed.

  Lemma nth_error_upd {A} (l : list A) i j x :
    nth_error (upd l i x) j =
    if Nat.eqb i j then (match nth_error l j with Some _ => Some x | None => None end)
    else nth_error l j.
  Proof.
    revert i j; induction l as [|y l IH]; intros i j.
    - cbn. destruct (Nat.eqb i j); destruct j, i; reflexivity.
    - destruct i, j; cbn [upd nth_error Nat.eqb]; try reflexivity. apply IH.
  Qed.

  Definition okpc (reqs : list (kind * list Z)) (t : nat) (p : pc) : Prop :=
    match p with
    | PStart k spec | PMiss k spec => nth_error reqs t = Some (k, spec)
    | PDone k spec s => nth_error reqs t = Some (k, spec) /\ good k spec s
    end.

  Definition cinv (reqs : list (kind * list Z)) (st : cstate) : Prop :=
    wf (ccache st) /\
    length (cthreads st) = length reqs /\
    forall t p, nth_error (cthreads st) t = Some p -> okpc reqs t p.

  Lemma cinv_init reqs :
    cinv reqs (CState [] (map (fun p => PStart (fst p) (snd p)) reqs)).
  Proof.
    split; [apply wf_nil|]. split; [cbn; apply map_length|].
    cbn [cthreads]. intros t p Hp. rewrite nth_error_map in Hp.
    destruct (nth_error reqs t) as [[k spec]|] eqn:E; cbn in Hp; inversion Hp; subst.
    cbn. exact E.
  Qed.

  Lemma cinv_set reqs c c' ths t p :
    cinv reqs (CState c ths) -> wf c' -> okpc reqs t p ->
    cinv reqs (CState c' (upd ths t p)).
  Proof.
    intros (Hc & Hl & Ht) Hc' Hp. unfold cinv. cbn [ccache cthreads] in *.
    split; [exact Hc'|]. split; [now rewrite upd_length|].
    intros t' p' Hh. rewrite nth_error_upd in Hh.
    destruct (Nat.eqb_spec t t') as [->|Hne]; [|apply Ht; exact Hh].
    destruct (nth_error ths t'); inversion Hh; subst. exact Hp.
  Qed.

  Lemma cstep_inv reqs st t : cinv reqs st -> cinv reqs (cstep ident st t).
  Proof.
    intros Hi. destruct st as [c ths]. pose proof Hi as (Hc & Hl & Ht). cbn [ccache cthreads] in *.
    unfold cstep. cbn [ccache cthreads].
    destruct (nth_error ths t) as [[k spec|k spec|k spec s]|] eqn:E; try exact Hi.
    - pose proof (Ht _ _ E) as Hr. cbn in Hr.
      destruct (lookup c (ident k spec)) as [s|] eqn:L.
      + apply (cinv_set reqs c); [exact Hi | exact Hc |]. cbn. split; [exact Hr|].
        apply good_on_hit. apply (Hc _ _ L).
      + apply (cinv_set reqs c); [exact Hi | exact Hc | exact Hr].
    - pose proof (Ht _ _ E) as Hr. cbn in Hr.
      apply (cinv_set reqs c); [exact Hi | apply wf_store; [exact Hc | apply swf_mk] |].
      cbn. split; [exact Hr | apply good_mk].
  Qed.

  Lemma crun_inv reqs sched : cinv reqs (crun ident reqs sched).
  Proof.
    unfold crun. generalize (cinv_init reqs).
    generalize (CState [] (map (fun p => PStart (fst p) (snd p)) reqs)).
    induction sched as [|t sched IH]; intros st Hi; cbn [fold_left]; [exact Hi|].
    apply IH. apply cstep_inv; exact Hi.
  Qed.

  Theorem crun_good reqs sched t k spec s :
    nth_error (cthreads (crun ident reqs sched)) t = Some (PDone k spec s) ->
    nth_error reqs t = Some (k, spec) /\ good k spec s.
  Proof.
    intros Hh. destruct (crun_inv reqs sched) as (_ & _ & Ht). apply (Ht _ _ Hh).
  Qed.

  (* progress: a thread scheduled twice has returned *)
  Lemma cstep_done st t k spec s :
    nth_error (cthreads st) t = Some (PDone k spec s) ->
    forall u, nth_error (cthreads (cstep ident st u)) t = Some (PDone k spec s).
  Proof.
    intros Hh u. unfold cstep.
    destruct (nth_error (cthreads st) u) as [[k' sp'|k' sp'|k' sp' s']|] eqn:E; try exact Hh.
    - destruct (lookup (ccache st) (ident k' sp')); cbn [cthreads]; rewrite nth_error_upd;
        destruct (Nat.eqb_spec u t) as [->|Hne]; try exact Hh; congruence.
    - cbn [cthreads]. rewrite nth_error_upd.
      destruct (Nat.eqb_spec u t) as [->|Hne]; try exact Hh; congruence.
  Qed.
End CacheP.

(* ---------- what good means for the histogram ---------- *)
(* the histogram created on a good storage works with bounds that are, pair
   by pair, the same as BucketPairs of the requested specification *)
Lemma good_hist k spec s : good k spec s ->
  hk (hist_of k s) = k /\ Forall2 (psame k) (hpairs k (hus (hist_of k s))) (pairs k spec).
Proof. intros (_ & _ & _ & _ & Hp). split; [reflexivity | exact Hp]. Qed.

(* for durations sameness is equality *)
Lemma Forall2_eq {A} (l l' : list A) : Forall2 eq l l' -> l = l'.
Proof. induction 1; congruence. Qed.

Lemma good_duration spec s : good KDuration spec s ->
  sspec s = spec /\ sbounds s = uppers KDuration spec /\ hpairs KDuration (sbounds s) = pairs KDuration spec.
Proof.
  intros (_ & Hs & Hb & _ & _). apply Forall2_eq in Hs. rewrite Hs in Hb.
  split; [exact Hs|]. split; [exact Hb|]. rewrite Hb. reflexivity.
Qed.

(* for values without a zero, sameness is equality of bits too *)
Definition is_zero (b : Z) : bool := (b mod SIGN =? 0).
Lemma feq_bits a b : 0 <= a < P64 -> 0 <= b < P64 -> feq a b = true -> is_zero a = false -> a = b.
Proof.
  unfold feq, fkey, is_zero, P64, SIGN, EXPM. intros Ha Hb.
  repeat match goal with |- context [if ?c then _ else _] => destruct c eqn:? end;
    try discriminate; intros Hh Hz; lia.
Qed.

(* ---------- statements by position ---------- *)
Lemma Forall2_nth_error {A B} (R : A -> B -> Prop) l l' :
  Forall2 R l l' -> forall i x, nth_error l i = Some x ->
  exists y, nth_error l' i = Some y /\ R x y.
Proof.
  induction 1 as [|a b l l' Hab Hl IH]; intros i x Hx.
  - destruct i; discriminate.
  - destruct i as [|i]; cbn in Hx |- *.
    + inversion Hx; subst. eexists; split; [reflexivity | exact Hab].
    + apply IH; exact Hx.
Qed.

Lemma run_good_at ident history i k spec :
  nth_error history i = Some (k, spec) ->
  exists s, nth_error (run ident history) i = Some s /\ good k spec s.
Proof.
  intros Hh. destruct (Forall2_nth_error _ _ _ (run_good ident history) i _ Hh) as (s & Hs & Hg).
  exists s. split; [exact Hs | exact Hg].
Qed.

(* ---------- a histogram on a good storage behaves as on its own ---------- *)
Lemma search_aux_ext fuel f g : forall i j,
  (forall h, f h = g h) -> search_aux fuel f i j = search_aux fuel g i j.
Proof.
  induction fuel as [|fu IH]; intros i j Hfg; cbn [search_aux]; [reflexivity|].
  destruct (i <? j)%nat; [|reflexivity]. rewrite Hfg.
  destruct (g ((i + j) / 2)%nat); apply IH; exact Hfg.
Qed.

Lemma ge_of_esame k a a' v : esame k a a' -> ge_of k a v = ge_of k a' v.
Proof.
  destruct k; cbn; intros Ha; [|now subst].
  unfold fge. now rewrite (fsame_fkey _ _ Ha).
Qed.

Lemma nth_esame k us us' i :
  Forall2 (esame k) us us' -> esame k (nth i us 0) (nth i us' 0).
Proof.
  intros Hh. destruct (Nat.lt_ge_cases i (length us)) as [Hi|Hi].
  - apply Forall2_nth; assumption.
  - rewrite !nth_overflow; [apply esame_refl | | exact Hi].
    rewrite <- (Forall2_len _ _ _ Hh). exact Hi.
Qed.

Lemma record_idx_same k us us' v :
  Forall2 (esame k) us us' -> record_idx k us v = record_idx k us' v.
Proof.
  intros Hh. unfold record_idx, search_idx, sort_search.
  rewrite <- (Forall2_len _ _ _ Hh).
  rewrite (search_aux_ext _ (fun i => ge_of k (nth i us 0) v) (fun i => ge_of k (nth i us' 0) v)).
  - reflexivity.
  - intros h. apply ge_of_esame. apply nth_esame; exact Hh.
Qed.

(* two histograms of one kind whose bounds are the same and whose counts are equal *)
Definition hsame (h h' : hist) : Prop :=
  hk h = hk h' /\ Forall2 (esame (hk h)) (hus h) (hus h') /\ hcnt h = hcnt h'.

Lemma hstep_rec_same h h' v : hsame h h' ->
  hsame (fst (hstep h (HRec (hk h) v))) (fst (hstep h' (HRec (hk h') v))).
Proof.
  intros (Hk & Hu & Hc). cbn [hstep].
  assert (E : forall k, kind_eqb k k = true) by (intros []; reflexivity).
  rewrite !E. cbn [fst]. split; [exact Hk|]. split; [exact Hu|]. cbn [hcnt hk hus].
  rewrite <- Hk, Hc. f_equal. apply record_idx_same; exact Hu.
Qed.

Definition dsame (k : kind) (d d' : Z * Z * Z) : Prop :=
  esame k (fst (fst d)) (fst (fst d')) /\ esame k (snd (fst d)) (snd (fst d')) /\ snd d = snd d'.

Lemma deliveries_same h h' : hsame h h' -> Forall2 (dsame (hk h)) (deliveries h) (deliveries h').
Proof.
  intros (Hk & Hu & Hc). unfold deliveries. rewrite <- Hk, <- Hc, <- (Forall2_len _ _ _ Hu).
  induction (seq 0 (length (hus h))) as [|i l IH]; cbn [flat_map]; [constructor|].
  apply Forall2_app; [|exact IH].
  destruct (nth i (hcnt h) 0 =? 0); [constructor|].
  constructor; [|constructor]. split; [|split]; cbn [fst snd]; [| |reflexivity].
  - destruct i as [|j]; cbn [lower]; [apply esame_refl | apply nth_esame; exact Hu].
  - apply nth_esame; exact Hu.
Qed.

Lemma fold_rec_same samples : forall h h', hsame h h' ->
  hsame (fold_left (fun h v => fst (hstep h (HRec (hk h) v))) samples h)
        (fold_left (fun h v => fst (hstep h (HRec (hk h) v))) samples h').
Proof.
  induction samples as [|v r IH]; intros h h' Hh; cbn [fold_left]; [exact Hh|].
  apply IH. apply hstep_rec_same; exact Hh.
Qed.

Lemma fold_rec_kind samples : forall h,
  hk (fold_left (fun h v => fst (hstep h (HRec (hk h) v))) samples h) = hk h.
Proof.
  induction samples as [|v r IH]; intros h; cbn [fold_left]; [reflexivity|].
  rewrite IH. cbn [hstep]. destruct (kind_eqb (hk h) (hk h)); reflexivity.
Qed.

(* what a histogram created with (k, spec) delivers is what a histogram on a
   storage built from spec alone delivers, bound by bound *)
Lemma good_deliveries k spec s samples : good k spec s ->
  Forall2 (dsame k) (deliveries_after (hist_of k s) samples)
                    (deliveries_after (hist_of k (mkstorage 0 k spec)) samples).
Proof.
  intros (_ & _ & _ & Hu & _). unfold deliveries_after.
  assert (Hs : hsame (hist_of k s) (hist_of k (mkstorage 0 k spec))).
  { split; [reflexivity|]. cbn [hist_of hk hus hcnt mkstorage sbounds]. rewrite snd_pairs.
    split; [exact Hu|]. now rewrite (Forall2_len _ _ _ Hu). }
  pose proof (deliveries_same _ _ (fold_rec_same samples _ _ Hs)) as Hd.
  rewrite fold_rec_kind in Hd. exact Hd.
Qed.

Lemma run_good_duration_at ident history i spec :
  nth_error history i = Some (KDuration, spec) ->
  exists s, nth_error (run ident history) i = Some s /\
    sspec s = spec /\ sbounds s = uppers KDuration spec /\
    hpairs KDuration (hus (hist_of KDuration s)) = pairs KDuration spec.
Proof.
  intros Hh. destruct (run_good_at ident history i _ spec Hh) as (s & Hs & Hg).
  exists s. split; [exact Hs | apply good_duration; exact Hg].
Qed.

Lemma esame_value_meaning a b :
  esame KValue a b ->
  fkey a = fkey b /\ (0 <= a < P64 -> 0 <= b < P64 -> is_zero a = false -> a = b).
Proof.
  intros Hh. split; [apply fsame_fkey; exact Hh|].
  intros Ha Hb Hz. destruct Hh as [Hh|Hh]; [exact Hh | apply feq_bits; assumption].
Qed.

Lemma run_delivers_at ident history i k spec samples :
  nth_error history i = Some (k, spec) ->
  exists s, nth_error (run ident history) i = Some s /\
    Forall2 (dsame k) (deliveries_after (hist_of k s) samples)
                      (deliveries_after (hnew k spec) samples).
Proof.
  intros Hh. destruct (run_good_at ident history i k spec Hh) as (s & Hs & Hg).
  exists s. split; [exact Hs|].
  replace (hnew k spec) with (hist_of k (mkstorage 0 k spec)).
  - apply good_deliveries; exact Hg.
  - unfold hist_of, hnew, mkstorage. cbn [sbounds]. rewrite snd_pairs. reflexivity.
Qed.
