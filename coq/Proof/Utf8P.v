(* Facts about the UTF-8 model: decode-after-encode in any context, the
   converse (a unit that is not an invalid byte IS the encoding of its rune),
   widths, tiling, and units of a concatenation of encodings. All arithmetic;
   no sweep over the rune space. *)
From Coq Require Import ZArith List Lia Bool ZifyBool.
From Tally Require Import Model.Utf8.
Ltac Zify.zify_post_hook ::= Z.div_mod_to_equations.
Import ListNotations.
Open Scope Z_scope.

(* ---------- decode after encode, in any context ---------- *)
Theorem dec_enc r rest : valid_rune r = true -> dec (enc r ++ rest) = (r, Z.of_nat (length (enc r))).
Proof.
  intros V. unfold enc. rewrite V. cbn [negb].
  unfold valid_rune in V.
  destruct (r <? 0x80) eqn:R1.
  - cbn. rewrite R1. reflexivity.
  - destruct (r <? 0x800) eqn:R2.
    + cbn [app dec length].
      replace (0xC0 + r / 64 <? 0x80) with false by lia.
      replace (0xC0 + r / 64 <? 0xC2) with false by lia.
      replace (0xC0 + r / 64 <? 0xE0) with true by lia.
      unfold cont. replace ((0x80 <=? 0x80 + r mod 64) && (0x80 + r mod 64 <=? 0xBF)) with true by lia.
      f_equal. lia.
    + destruct (r <? 0x10000) eqn:R3.
      * cbn [app dec length].
        replace (0xE0 + r / 4096 <? 0x80) with false by lia.
        replace (0xE0 + r / 4096 <? 0xC2) with false by lia.
        replace (0xE0 + r / 4096 <? 0xE0) with false by lia.
        replace (0xE0 + r / 4096 <? 0xF0) with true by lia.
        unfold cont.
        match goal with |- (if ?c then _ else _) = _ => replace c with true end.
        { f_equal. lia. }
        destruct (0xE0 + r / 4096 =? 0xE0) eqn:A; destruct (0xE0 + r / 4096 =? 0xED) eqn:B; lia.
      * cbn [app dec length].
        replace (0xF0 + r / 262144 <? 0x80) with false by lia.
        replace (0xF0 + r / 262144 <? 0xC2) with false by lia.
        replace (0xF0 + r / 262144 <? 0xE0) with false by lia.
        replace (0xF0 + r / 262144 <? 0xF0) with false by lia.
        replace (0xF0 + r / 262144 <? 0xF5) with true by lia.
        unfold cont.
        match goal with |- (if ?c then _ else _) = _ => replace c with true end.
        { f_equal. lia. }
        destruct (0xF0 + r / 262144 =? 0xF0) eqn:A; destruct (0xF0 + r / 262144 =? 0xF4) eqn:B; lia.
Qed.

(* ---------- encode after decode: the four well-formed shapes ---------- *)
Lemma enc_of_1 b0 : 0 <= b0 < 0x80 -> valid_rune b0 = true /\ enc b0 = [b0].
Proof.
  intros Hb. assert (V : valid_rune b0 = true) by (unfold valid_rune; lia).
  split; [exact V|]. unfold enc. rewrite V. cbn [negb].
  replace (b0 <? 0x80) with true by lia. reflexivity.
Qed.

Lemma enc_of_2 b0 b1 : 0xC2 <= b0 < 0xE0 -> 0x80 <= b1 <= 0xBF ->
  let r := (b0 - 0xC0) * 64 + (b1 - 0x80) in valid_rune r = true /\ enc r = [b0; b1].
Proof.
  intros H0 H1 r. assert (Hr : 0x80 <= r < 0x800) by (subst r; lia).
  assert (V : valid_rune r = true) by (unfold valid_rune; lia).
  split; [exact V|]. unfold enc. rewrite V. cbn [negb].
  replace (r <? 0x80) with false by lia. replace (r <? 0x800) with true by lia.
  assert (r / 64 = b0 - 0xC0) by (subst r; lia).
  assert (r mod 64 = b1 - 0x80) by (subst r; lia).
  f_equal; [lia|]. f_equal. lia.
Qed.

Lemma enc_of_3 b0 b1 b2 : 0xE0 <= b0 < 0xF0 ->
  (if b0 =? 0xE0 then 0xA0 else 0x80) <= b1 <= (if b0 =? 0xED then 0x9F else 0xBF) ->
  0x80 <= b2 <= 0xBF ->
  let r := (b0 - 0xE0) * 4096 + (b1 - 0x80) * 64 + (b2 - 0x80) in
  valid_rune r = true /\ enc r = [b0; b1; b2].
Proof.
  intros H0 H1 H2 r.
  assert (Hb1 : 0x80 <= b1 <= 0xBF) by (destruct (b0 =? 0xE0), (b0 =? 0xED); lia).
  assert (Hr : 0x800 <= r < 0x10000 /\ ~ (0xD800 <= r <= 0xDFFF)).
  { subst r. destruct (b0 =? 0xE0) eqn:A, (b0 =? 0xED) eqn:B; lia. }
  assert (V : valid_rune r = true) by (unfold valid_rune; lia).
  split; [exact V|]. unfold enc. rewrite V. cbn [negb].
  replace (r <? 0x80) with false by lia. replace (r <? 0x800) with false by lia.
  replace (r <? 0x10000) with true by lia.
  assert (r / 4096 = b0 - 0xE0) by (subst r; lia).
  assert ((r / 64) mod 64 = b1 - 0x80) by (subst r; lia).
  assert (r mod 64 = b2 - 0x80) by (subst r; lia).
  f_equal; [lia|]. f_equal; [lia|]. f_equal. lia.
Qed.

Lemma enc_of_4 b0 b1 b2 b3 : 0xF0 <= b0 < 0xF5 ->
  (if b0 =? 0xF0 then 0x90 else 0x80) <= b1 <= (if b0 =? 0xF4 then 0x8F else 0xBF) ->
  0x80 <= b2 <= 0xBF -> 0x80 <= b3 <= 0xBF ->
  let r := (b0 - 0xF0) * 262144 + (b1 - 0x80) * 4096 + (b2 - 0x80) * 64 + (b3 - 0x80) in
  valid_rune r = true /\ enc r = [b0; b1; b2; b3].
Proof.
  intros H0 H1 H2 H3 r.
  assert (Hb1 : 0x80 <= b1 <= 0xBF) by (destruct (b0 =? 0xF0), (b0 =? 0xF4); lia).
  assert (Hr : 0x10000 <= r < 0x110000).
  { subst r. destruct (b0 =? 0xF0) eqn:A, (b0 =? 0xF4) eqn:B; lia. }
  assert (V : valid_rune r = true) by (unfold valid_rune; lia).
  split; [exact V|]. unfold enc. rewrite V. cbn [negb].
  replace (r <? 0x80) with false by lia. replace (r <? 0x800) with false by lia.
  replace (r <? 0x10000) with false by lia.
  assert (r / 262144 = b0 - 0xF0) by (subst r; lia).
  assert ((r / 4096) mod 64 = b1 - 0x80) by (subst r; lia).
  assert ((r / 64) mod 64 = b2 - 0x80) by (subst r; lia).
  assert (r mod 64 = b3 - 0x80) by (subst r; lia).
  f_equal; [lia|]. f_equal; [lia|]. f_equal; [lia|]. f_equal. lia.
Qed.

(* ---------- every unit is an invalid byte or the encoding of its rune ---------- *)
Lemma dec_cases s : s <> [] -> is_bytes s = true ->
  (dec s = (RuneError, 1)) \/
  (valid_rune (fst (dec s)) = true /\
   take (Z.to_nat (snd (dec s))) s = enc (fst (dec s)) /\
   snd (dec s) = Z.of_nat (length (enc (fst (dec s))))).
Proof.
  intros NE HB. destruct s as [|b0 t]; [congruence|].
  cbn [is_bytes forallb] in HB. apply andb_true_iff in HB as [H0 HT]. unfold is_byte in H0.
  cbn [dec].
  destruct (b0 <? 0x80) eqn:C1.
  { right. cbn [fst snd]. destruct (enc_of_1 b0) as [V E]; [lia|]. rewrite E. cbn. auto. }
  destruct (b0 <? 0xC2) eqn:C2; [left; reflexivity|].
  destruct (b0 <? 0xE0) eqn:C3.
  { destruct t as [|b1 t]; [left; reflexivity|].
    destruct (cont b1) eqn:K1; [|left; reflexivity]. unfold cont in K1.
    right. cbn [fst snd]. destruct (enc_of_2 b0 b1) as [V E]; [lia|lia|]. rewrite E. cbn. auto. }
  destruct (b0 <? 0xF0) eqn:C4.
  { destruct t as [|b1 [|b2 t]]; [left; reflexivity|left; reflexivity|].
    match goal with |- context [if ?c then _ else _] => destruct c eqn:K end; [|left; reflexivity].
    unfold cont in K. right. cbn [fst snd].
    destruct (enc_of_3 b0 b1 b2) as [V E]; [lia| |lia|].
    { destruct (b0 =? 0xE0), (b0 =? 0xED); lia. }
    rewrite E. cbn. auto. }
  destruct (b0 <? 0xF5) eqn:C5; [|left; reflexivity].
  destruct t as [|b1 [|b2 [|b3 t]]]; [left; reflexivity|left; reflexivity|left; reflexivity|].
  match goal with |- context [if ?c then _ else _] => destruct c eqn:K end; [|left; reflexivity].
  unfold cont in K. right. cbn [fst snd].
  destruct (enc_of_4 b0 b1 b2 b3) as [V E]; [lia| |lia|lia|].
  { destruct (b0 =? 0xF0), (b0 =? 0xF4); lia. }
  rewrite E. cbn. auto.
Qed.

Lemma dec_width s : s <> [] -> 1 <= snd (dec s) <= Z.of_nat (length s).
Proof.
  intros NE. destruct s as [|b0 [|b1 [|b2 [|b3 t]]]]; [congruence| | | |]; cbn [dec length];
  repeat match goal with |- context [if ?c then _ else _] => destruct c end; cbn [snd]; lia.
Qed.

(* ---------- take / drop ---------- *)
Lemma take_drop {A} n (l : list A) : take n l ++ drop n l = l.
Proof. revert l; induction n as [|n IH]; intros [|x l]; cbn; auto. f_equal; auto. Qed.
Lemma drop_length {A} n (l : list A) : length (drop n l) = (length l - n)%nat.
Proof. revert l; induction n as [|n IH]; intros [|x l]; cbn; auto. Qed.
Lemma take_length {A} n (l : list A) : (n <= length l)%nat -> length (take n l) = n.
Proof. revert l; induction n as [|n IH]; intros [|x l] L; cbn in *; auto; try lia. f_equal. apply IH. lia. Qed.
Lemma take_app_exact {A} (a b : list A) : take (length a) (a ++ b) = a.
Proof. induction a as [|x a IH]; cbn [length app take]. destruct b; reflexivity. f_equal; auto. Qed.
Lemma drop_app_exact {A} (a b : list A) : drop (length a) (a ++ b) = b.
Proof. induction a as [|x a IH]; cbn [length app drop]; auto; destruct b; reflexivity. Qed.
Lemma is_bytes_app a b : is_bytes (a ++ b) = is_bytes a && is_bytes b.
Proof. unfold is_bytes. apply forallb_app. Qed.
Lemma is_bytes_drop n s : is_bytes s = true -> is_bytes (drop n s) = true.
Proof.
  intros HB. rewrite <- (take_drop n s) in HB. rewrite is_bytes_app in HB.
  apply andb_true_iff in HB. tauto.
Qed.

(* ---------- the units tile the string ---------- *)
Lemma units_concat fuel : forall s, (length s <= fuel)%nat -> concat (map snd (units fuel s)) = s.
Proof.
  induction fuel as [|f IH]; intros s L.
  - destruct s; [reflexivity|cbn in L; lia].
  - destruct s as [|b t] eqn:Es; [reflexivity|]. rewrite <- Es in *. cbn [units].
    assert (NE : s <> []) by (rewrite Es; discriminate).
    destruct s as [|b' t']; [congruence|]. destruct (dec (b' :: t')) as [r w] eqn:D.
    pose proof (dec_width (b' :: t') NE) as W. rewrite D in W. cbn [snd] in W.
    cbn [map concat snd]. rewrite IH.
    + apply take_drop.
    + rewrite drop_length. cbn [length] in *. lia.
Qed.

(* a unit is well formed when, unless it is an invalid byte, it is the
   encoding of its (valid) rune *)
Definition wf_unit (u : Z * list Z) : Prop :=
  bad_unit u = false -> valid_rune (fst u) = true /\ snd u = enc (fst u).

Lemma units_wf fuel : forall s, is_bytes s = true -> Forall wf_unit (units fuel s).
Proof.
  induction fuel as [|f IH]; intros s HB; [constructor|].
  destruct s as [|b t] eqn:Es; [constructor|]. rewrite <- Es in *.
  assert (NE : s <> []) by (rewrite Es; discriminate).
  cbn [units]. destruct s as [|b' t']; [congruence|].
  destruct (dec (b' :: t')) as [r w] eqn:D.
  constructor; [|apply IH; apply is_bytes_drop; exact HB].
  intros NB. destruct (dec_cases (b' :: t') NE HB) as [Hbad|[V [E _]]].
  - rewrite D in Hbad. inversion Hbad; subst. cbn in NB. discriminate.
  - rewrite D in V, E. cbn [fst snd] in *. auto.
Qed.

(* ---------- encodings ---------- *)
Lemma enc_norm r : enc r = enc (norm r).
Proof. unfold norm. destruct (valid_rune r) eqn:V; auto. unfold enc. rewrite V. cbn. reflexivity. Qed.
Lemma valid_norm r : valid_rune (norm r) = true.
Proof. unfold norm. destruct (valid_rune r) eqn:V; auto. Qed.
Lemma norm_valid r : valid_rune r = true -> norm r = r.
Proof. unfold norm. intros ->. reflexivity. Qed.
Lemma norm_idem r : norm (norm r) = norm r.
Proof. apply norm_valid, valid_norm. Qed.
Lemma enc_nonempty r : enc r <> [].
Proof. unfold enc. repeat match goal with |- context [if ?c then _ else _] => destruct c end; discriminate. Qed.

Lemma enc_bytes r : is_bytes (enc r) = true.
Proof.
  unfold enc. destruct (valid_rune r) eqn:V; cbn [negb]; [|reflexivity].
  unfold valid_rune in V. unfold is_bytes, is_byte.
  destruct (r <? 0x80) eqn:R1; [cbn; lia|].
  destruct (r <? 0x800) eqn:R2; [cbn [forallb]; lia|].
  destruct (r <? 0x10000) eqn:R3; cbn [forallb]; lia.
Qed.

Lemma encs_bytes rs : is_bytes (concat (map enc rs)) = true.
Proof.
  induction rs as [|r rs IH]; [reflexivity|]. cbn [map concat].
  rewrite is_bytes_app, enc_bytes, IH. reflexivity.
Qed.

(* a well-formed U+FFFD is three bytes: an encoding is never an invalid-byte unit *)
Lemma enc_not_bad r : bad_unit (norm r, enc r) = false.
Proof.
  unfold bad_unit. cbn [fst snd]. destruct (norm r =? RuneError) eqn:E; [|reflexivity].
  apply Z.eqb_eq in E. rewrite (enc_norm r), E. reflexivity.
Qed.

Lemma units_enc fuel r rest : (length (enc r ++ rest) <= S fuel)%nat ->
  units (S fuel) (enc r ++ rest) = (norm r, enc r) :: units fuel rest.
Proof.
  intros L. cbn [units]. destruct (enc r ++ rest) as [|b t] eqn:E.
  - exfalso. apply (enc_nonempty r). destruct (enc r); [reflexivity|discriminate].
  - rewrite <- E. rewrite (enc_norm r). rewrite dec_enc by apply valid_norm.
    rewrite Nat2Z.id. rewrite take_app_exact, drop_app_exact. reflexivity.
Qed.

(* decoding a concatenation of encodings gives the (normalised) runes back,
   each with exactly its own bytes *)
Lemma units_encs rs : forall fuel, (length (concat (map enc rs)) <= fuel)%nat ->
  units fuel (concat (map enc rs)) = map (fun r => (norm r, enc r)) rs.
Proof.
  induction rs as [|r rs IH]; intros fuel L; cbn [map concat] in *.
  - destruct fuel; reflexivity.
  - destruct fuel as [|f].
    + exfalso. pose proof (enc_nonempty r). destruct (enc r); [congruence|cbn in L; lia].
    + rewrite units_enc by exact L. f_equal. apply IH.
      rewrite app_length in L. pose proof (enc_nonempty r). destruct (enc r); [congruence|cbn in L; lia].
Qed.

Lemma units_of_encs rs : units_of (concat (map enc rs)) = map (fun r => (norm r, enc r)) rs.
Proof. unfold units_of. apply units_encs. lia. Qed.

Lemma runes_encs rs : runes (concat (map enc rs)) = map norm rs.
Proof. unfold runes. rewrite units_of_encs, map_map. reflexivity. Qed.

Lemma valid_utf8_encs rs : valid_utf8 (concat (map enc rs)) = true.
Proof.
  unfold valid_utf8. rewrite units_of_encs. rewrite forallb_forall. intros u Hin.
  apply in_map_iff in Hin as [r [<- _]]. rewrite enc_not_bad. reflexivity.
Qed.
