(* Proofs for Model/Snapshot.v: the store-walking snapshot equals the flat
   reference tally for every history; histogram snapshot counts; Close of a
   subscope. *)
From Coq Require Import ZArith List Bool Lia Permutation.
From Tally Require Import Base.ObsCore Model.Buckets Proof.BucketsP Model.Snapshot.
Import ListNotations.
Open Scope Z_scope.

(* ---- association lists -------------------------------------------------- *)
Section AssocP.
  Context {K V : Type} (eqb : K -> K -> bool).
  Hypothesis eqb_spec : forall a b, eqb a b = true <-> a = b.

  Lemma eqb_refl a : eqb a a = true.
  Proof. now apply eqb_spec. Qed.
  Lemma eqb_neq a b : a <> b -> eqb a b = false.
  Proof. intro Hn. destruct (eqb a b) eqn:E; [|reflexivity]. apply eqb_spec in E. contradiction. Qed.

  Lemma alookup_aupdate_same k f (l : list (K * V)) :
    alookup eqb k (aupdate eqb k f l) = Some (f (alookup eqb k l)).
  Proof.
    induction l as [|[k' v] r IH]; cbn.
    - now rewrite eqb_refl.
    - destruct (eqb k k') eqn:E; cbn; rewrite E; [reflexivity|exact IH].
  Qed.

  Lemma alookup_aupdate_other k k' f (l : list (K * V)) :
    k <> k' -> alookup eqb k (aupdate eqb k' f l) = alookup eqb k l.
  Proof.
    intro Hn. induction l as [|[k0 v] r IH]; cbn.
    - now rewrite (eqb_neq _ _ Hn).
    - destruct (eqb k' k0) eqn:E; cbn.
      + apply eqb_spec in E; subst k0. now rewrite (eqb_neq _ _ Hn).
      + destruct (eqb k k0); [reflexivity|exact IH].
  Qed.

  Lemma alookup_none k (l : list (K * V)) : alookup eqb k l = None <-> ~ In k (map fst l).
  Proof.
    induction l as [|[k' v] r IH]; cbn; [tauto|].
    destruct (eqb k k') eqn:E.
    - apply eqb_spec in E; subst. split; [discriminate|]. intro Hn; exfalso; apply Hn; now left.
    - rewrite IH. split; [|tauto]. intros Hn [He|Hi]; [|tauto].
      subst k'. rewrite eqb_refl in E. discriminate.
  Qed.

  Lemma alookup_some_in k v (l : list (K * V)) : alookup eqb k l = Some v -> In (k, v) l.
  Proof.
    induction l as [|[k' v'] r IH]; cbn; [discriminate|].
    destruct (eqb k k') eqn:E.
    - apply eqb_spec in E; subst. intro Hs; inversion Hs; now left.
    - intro Hs; right; now apply IH.
  Qed.

  Lemma in_alookup k v (l : list (K * V)) : NoDup (map fst l) -> In (k, v) l -> alookup eqb k l = Some v.
  Proof.
    induction l as [|[k' v'] r IH]; cbn; [tauto|].
    intros Hnd [He|Hi].
    - inversion He; subst. now rewrite eqb_refl.
    - inversion Hnd as [|? ? Hni Hnd']; subst.
      destruct (eqb k k') eqn:E.
      + apply eqb_spec in E; subst. exfalso; apply Hni. now apply (in_map fst) in Hi.
      + now apply IH.
  Qed.

  Lemma aupdate_keys k f (l : list (K * V)) :
    map fst (aupdate eqb k f l) =
    if amem eqb k (map fst l) then map fst l else map fst l ++ [k].
  Proof.
    induction l as [|[k' v] r IH]; cbn; [reflexivity|].
    destruct (eqb k k') eqn:E; cbn; [reflexivity|].
    rewrite IH. unfold amem. destruct (existsb (eqb k) (map fst r)); reflexivity.
  Qed.

  Lemma amem_in k (l : list K) : amem eqb k l = true <-> In k l.
  Proof.
    unfold amem. rewrite existsb_exists. split.
    - intros (x & Hx & He). apply eqb_spec in He. now subst.
    - intro Hi. exists k. split; [assumption|apply eqb_refl].
  Qed.

  Lemma nodup_snoc (l : list K) k : NoDup l -> ~ In k l -> NoDup (l ++ [k]).
  Proof.
    induction l as [|x r IH]; cbn; intros Hnd Hni.
    - constructor; [tauto|constructor].
    - inversion Hnd as [|? ? Hx Hr]; subst. constructor.
      + rewrite in_app_iff. cbn. intros [Hi|[He|[]]]; [tauto|]. subst. apply Hni; now left.
      + apply IH; [assumption|]. intro Hi; apply Hni; now right.
  Qed.

  Lemma aupdate_nodup k f (l : list (K * V)) :
    NoDup (map fst l) -> NoDup (map fst (aupdate eqb k f l)).
  Proof.
    intro Hnd. rewrite aupdate_keys. destruct (amem eqb k (map fst l)) eqn:E; [assumption|].
    apply nodup_snoc; [assumption|]. intro Hi. apply amem_in in Hi. congruence.
  Qed.

  Lemma aupdate_in_keys k f (l : list (K * V)) x :
    In x (map fst (aupdate eqb k f l)) <-> x = k \/ In x (map fst l).
  Proof.
    rewrite aupdate_keys. destruct (amem eqb k (map fst l)) eqn:E.
    - apply amem_in in E. split; [tauto|]. intros [->|Hi]; assumption.
    - rewrite in_app_iff. cbn. split; [intros [Hi|[He|[]]]; auto|intros [->|Hi]; auto].
  Qed.

  (* writing entries one by one into a fresh map: with distinct keys, every entry is there *)
  Lemma fold_aset_snoc (es : list (K * V)) e acc :
    fold_left (fun m e => aset eqb (fst e) (snd e) m) (es ++ [e]) acc =
    aset eqb (fst e) (snd e) (fold_left (fun m e => aset eqb (fst e) (snd e) m) es acc).
  Proof. now rewrite fold_left_app. Qed.

  Lemma alookup_app k (a b : list (K * V)) :
    alookup eqb k (a ++ b) = match alookup eqb k a with Some v => Some v | None => alookup eqb k b end.
  Proof.
    induction a as [|[k' v] r IH]; cbn; [reflexivity|].
    destruct (eqb k k'); [reflexivity|exact IH].
  Qed.

  Lemma fold_aset_lookup (es : list (K * V)) k :
    NoDup (map fst es) ->
    alookup eqb k (fold_left (fun m e => aset eqb (fst e) (snd e) m) es []) = alookup eqb k es.
  Proof.
    induction es as [|e es IH] using rev_ind; intro Hnd; [reflexivity|].
    rewrite fold_aset_snoc, alookup_app.
    rewrite map_app in Hnd. cbn in Hnd.
    assert (NoDup (map fst es) /\ ~ In (fst e) (map fst es)) as [Hnd' Hni].
    { apply NoDup_remove in Hnd. rewrite app_nil_r in Hnd. exact Hnd. }
    destruct e as [k' v']. cbn [fst snd] in *. unfold aset at 1.
    destruct (eqb k k') eqn:E.
    - apply eqb_spec in E; subst k'. rewrite alookup_aupdate_same.
      apply alookup_none in Hni. rewrite Hni. cbn. now rewrite eqb_refl.
    - assert (k <> k') as Hne by (intro; subst; rewrite eqb_refl in E; discriminate).
      rewrite (alookup_aupdate_other _ _ _ _ Hne), (IH Hnd'). cbn. rewrite E.
      destruct (alookup eqb k es); reflexivity.
  Qed.

  Lemma fold_aset_nodup (es : list (K * V)) acc :
    NoDup (map fst acc) -> NoDup (map fst (fold_left (fun m e => aset eqb (fst e) (snd e) m) es acc)).
  Proof.
    revert acc; induction es as [|e es IH]; intros acc Hnd; cbn; [assumption|].
    apply IH. now apply aupdate_nodup.
  Qed.

  (* two duplicate-free maps with the same lookups hold the same entries *)
  Lemma same_lookup_perm (a b : list (K * V)) :
    NoDup (map fst a) -> NoDup (map fst b) ->
    (forall k, alookup eqb k a = alookup eqb k b) -> Permutation a b.
  Proof.
    intros Ha Hb Hl.
    assert (forall l : list (K * V), NoDup (map fst l) -> NoDup l) as Hnd.
    { intros l; induction l as [|x r IH]; cbn; intro Hn; [constructor|].
      inversion Hn as [|? ? Hx Hr]; subst. constructor; [|now apply IH].
      intro Hi; apply Hx. now apply in_map. }
    apply NoDup_Permutation; [now apply Hnd|now apply Hnd|].
    intros [k v]. split; intro Hi.
    - apply alookup_some_in. rewrite <- Hl. now apply in_alookup.
    - apply alookup_some_in. rewrite Hl. now apply in_alookup.
  Qed.
End AssocP.

(* ---- equality tests ----------------------------------------------------- *)
Lemma pair_eqb_spec a b : pair_eqb a b = true <-> a = b.
Proof.
  destruct a as [a1 a2], b as [b1 b2]; unfold pair_eqb; cbn.
  rewrite andb_true_iff, !zs_eqb_spec. split; [intros [-> ->]; reflexivity|intro He; inversion He; auto].
Qed.
Lemma tags_eqb_spec a b : tags_eqb a b = true <-> a = b.
Proof. apply list_eqb_spec. exact pair_eqb_spec. Qed.
Lemma sid_eqb_spec a b : sid_eqb a b = true <-> a = b.
Proof.
  destruct a as [a1 a2], b as [b1 b2]; unfold sid_eqb; cbn.
  rewrite andb_true_iff, zs_eqb_spec, tags_eqb_spec. split; [intros [-> ->]; reflexivity|intro He; inversion He; auto].
Qed.
Lemma mkind_eqb_spec a b : mkind_eqb a b = true <-> a = b.
Proof. destruct a, b; cbn; split; intro; try reflexivity; try discriminate. Qed.
Lemma lkey_eqb_spec a b : lkey_eqb a b = true <-> a = b.
Proof.
  destruct a as [a1 a2], b as [b1 b2]; unfold lkey_eqb; cbn.
  rewrite andb_true_iff, mkind_eqb_spec, zs_eqb_spec. split; [intros [-> ->]; reflexivity|intro He; inversion He; auto].
Qed.
Lemma mkey_eqb_spec a b : mkey_eqb a b = true <-> a = b.
Proof.
  destruct a as [[a1 a2] a3], b as [[b1 b2] b3]; unfold mkey_eqb; cbn.
  rewrite !andb_true_iff, mkind_eqb_spec, zs_eqb_spec, tags_eqb_spec.
  split; [intros [[-> ->] ->]; reflexivity|intro He; inversion He; auto].
Qed.
Lemma Zeqb_spec a b : Z.eqb a b = true <-> a = b.
Proof. apply Z.eqb_eq. Qed.

(* ---- full names --------------------------------------------------------- *)
Lemma app_dot_inj p1 n1 p2 n2 :
  dotfree n1 -> dotfree n2 -> p1 ++ 46 :: n1 = p2 ++ 46 :: n2 -> p1 = p2 /\ n1 = n2.
Proof.
  unfold dotfree. revert p2; induction p1 as [|x p1 IH]; intros [|y p2] H1 H2 He; cbn in He.
  - inversion He; auto.
  - inversion He as [[Hx Hn]]. exfalso; apply H1. rewrite Hn. apply in_or_app; right; now left.
  - inversion He as [[Hx Hn]]. exfalso; apply H2. rewrite <- Hn. apply in_or_app; right; now left.
  - inversion He as [[Hx Hn]]. destruct (IH p2 H1 H2 Hn) as [-> ->]. auto.
Qed.

Lemma fqn_inj p1 n1 p2 n2 :
  dotfree n1 -> dotfree n2 -> fqn p1 n1 = fqn p2 n2 -> p1 = p2 /\ n1 = n2.
Proof.
  intros H1 H2. unfold fqn, SEP.
  destruct p1 as [|x p1], p2 as [|y p2]; intro He.
  - auto.
  - exfalso; apply H1. rewrite He. cbn. right. apply in_or_app; right; now left.
  - exfalso; apply H2. rewrite <- He. cbn. right. apply in_or_app; right; now left.
  - change ((x :: p1) ++ 46 :: n1 = (y :: p2) ++ 46 :: n2) in He.
    now apply app_dot_inj.
Qed.

Definition mk (lk : lkey) (id : sid) : mkey := (fst lk, fqn (fst id) (snd lk), snd id).

Lemma mk_inj lk id lk' id' :
  dotfree (snd lk) -> dotfree (snd lk') -> mk lk id = mk lk' id' -> lk = lk' /\ id = id'.
Proof.
  destruct lk as [k n], lk' as [k' n'], id as [p t], id' as [p' t']; unfold mk; cbn.
  intros H1 H2 He. inversion He as [[Hk Hf Ht]].
  destruct (fqn_inj _ _ _ _ H1 H2 Hf) as [-> ->]. auto.
Qed.

(* ---- cells and tally values -------------------------------------------- *)
Definition cell_abs (c : cell) : tval :=
  match c with
  | CCnt cu pr => TSum (wrap (cu - pr))
  | CGauge b => TLast b
  | CTimer l => TList l
  | CHist h => THist h
  end.

Lemma wrap_comm cu v pr : wrap (wrap (cu + v) - pr) = wrap (wrap (cu - pr) + v).
Proof.
  unfold wrap, M64, H63. f_equal.
  replace ((cu + v + 9223372036854775808) mod 18446744073709551616 - 9223372036854775808 - pr + 9223372036854775808)
    with ((cu + v + 9223372036854775808) mod 18446744073709551616 + (- pr)) by ring.
  replace ((cu - pr + 9223372036854775808) mod 18446744073709551616 - 9223372036854775808 + v + 9223372036854775808)
    with ((cu - pr + 9223372036854775808) mod 18446744073709551616 + v) by ring.
  rewrite !Z.add_mod_idemp_l by discriminate. f_equal. ring.
Qed.

Lemma cell_abs_new r : cell_abs (cell_new r) = tval_new r.
Proof. destruct r as [[] ? ?| | | |]; reflexivity. Qed.

Lemma cell_abs_do c r : cell_abs (cell_do c r) = tval_do (cell_abs c) r.
Proof.
  destruct c, r; cbn [cell_do cell_abs tval_do]; try reflexivity.
  f_equal. apply wrap_comm.
Qed.

Lemma cell_abs_apply o r : cell_abs (cell_apply o r) = tval_apply (option_map cell_abs o) r.
Proof.
  unfold cell_apply, tval_apply. rewrite cell_abs_do.
  destruct o; cbn [option_map]; [reflexivity|now rewrite cell_abs_new].
Qed.

Lemma tval_snap_abs c : tval_snap (cell_abs c) = cell_snap c.
Proof. destruct c; reflexivity. Qed.

(* ---- the store ---------------------------------------------------------- *)
Definition getd (r : registry) (id : sid) : sdata :=
  match alookup sid_eqb id r with Some d => d | None => empty_scope end.

Lemma getd_upd r id f id0 :
  getd (upd_scope r id f) id0 = if sid_eqb id0 id then f (getd r id) else getd r id0.
Proof.
  unfold getd, upd_scope. destruct (sid_eqb id0 id) eqn:E.
  - apply sid_eqb_spec in E; subst. now rewrite (alookup_aupdate_same _ sid_eqb_spec).
  - assert (id0 <> id) as Hne by (intro; subst; rewrite (eqb_refl _ sid_eqb_spec) in E; discriminate).
    now rewrite (alookup_aupdate_other _ sid_eqb_spec _ _ _ _ Hne).
Qed.

Lemma is_closed_getd r id : is_closed r id = sclosed (getd r id).
Proof. unfold is_closed, getd. destruct (alookup sid_eqb id r); reflexivity. Qed.

(* well-formed: what aupdate maintains *)
Definition Wf (r : registry) : Prop :=
  NoDup (map fst r) /\ forall id d, In (id, d) r -> NoDup (map fst (smet d)).

Lemma wf_upd r id f :
  (forall d, NoDup (map fst (smet d)) -> NoDup (map fst (smet (f d)))) ->
  Wf r -> Wf (upd_scope r id f).
Proof.
  intros Hf [Hn Hm]. split; [now apply (aupdate_nodup _ sid_eqb_spec)|].
  intros id0 d0 Hi.
  assert (NoDup (map fst (upd_scope r id f))) as Hn' by now apply (aupdate_nodup _ sid_eqb_spec).
  pose proof (in_alookup _ sid_eqb_spec _ _ _ Hn' Hi) as Hl.
  assert (getd (upd_scope r id f) id0 = d0) as Hg by (unfold getd; now rewrite Hl).
  rewrite getd_upd in Hg. destruct (sid_eqb id0 id) eqn:E.
  - subst d0. apply Hf. unfold getd. destruct (alookup sid_eqb id r) as [d|] eqn:El.
    + apply (Hm id). now apply (alookup_some_in _ sid_eqb_spec).
    + constructor.
  - assert (id0 <> id) as Hne by (intro; subst; rewrite (eqb_refl _ sid_eqb_spec) in E; discriminate).
    unfold upd_scope in Hl. rewrite (alookup_aupdate_other _ sid_eqb_spec _ _ _ _ Hne) in Hl.
    apply (Hm id0). now apply (alookup_some_in _ sid_eqb_spec).
Qed.

(* the store's metric objects and the tally describe each other *)
Definition Rel (r : registry) (tm : list (mkey * tval)) : Prop :=
  (forall id lk c, alookup lkey_eqb lk (smet (getd r id)) = Some c ->
     dotfree (snd lk) /\ alookup mkey_eqb (mk lk id) tm = Some (cell_abs c)) /\
  (forall k tv, alookup mkey_eqb k tm = Some tv ->
     exists id lk c, alookup lkey_eqb lk (smet (getd r id)) = Some c /\ k = mk lk id).

Definition Cl (r : registry) (cl : list sid) : Prop :=
  forall id, is_closed r id = amem sid_eqb id cl.

Lemma rel_upd_same r id f tm :
  (forall d, smet (f d) = smet d) -> Rel r tm -> Rel (upd_scope r id f) tm.
Proof.
  intros Hf [Hfw Hbw].
  assert (forall id0, smet (getd (upd_scope r id f) id0) = smet (getd r id0)) as Hs.
  { intro id0. rewrite getd_upd. destruct (sid_eqb id0 id) eqn:E; [|reflexivity].
    apply sid_eqb_spec in E; subst. apply Hf. }
  split.
  - intros id0 lk c Hl. rewrite Hs in Hl. now apply Hfw.
  - intros k tv Hl. destruct (Hbw k tv Hl) as (id0 & lk & c & H1 & H2).
    exists id0, lk, c. now rewrite Hs.
Qed.

Lemma cl_upd_same r id f cl :
  (forall d, sclosed (f d) = sclosed d) -> Cl r cl -> Cl (upd_scope r id f) cl.
Proof.
  intros Hf Hc id0. rewrite is_closed_getd, getd_upd, <- Hc, is_closed_getd.
  destruct (sid_eqb id0 id) eqn:E; [|reflexivity].
  apply sid_eqb_spec in E; subst. apply Hf.
Qed.

Lemma cl_close r id cl :
  Cl r cl -> Cl (upd_scope r id (fun d => SData true (smet d))) (id :: cl).
Proof.
  intros Hc id0. rewrite is_closed_getd, getd_upd. cbn [amem existsb].
  destruct (sid_eqb id0 id); [reflexivity|]. cbn. rewrite <- is_closed_getd. apply Hc.
Qed.

Lemma mk_same_id lk lk' id : mk lk id = mk lk' id -> lk = lk'.
Proof.
  destruct lk as [k n], lk' as [k' n'], id as [p t]; unfold mk, fqn; cbn.
  intro He. inversion He as [[Hk Hf]]. destruct p as [|x p]; [now subst|].
  apply app_inv_head in Hf. inversion Hf. now subst.
Qed.

Lemma rel_record r id lk rc tm :
  dotfree (snd lk) -> Rel r tm ->
  Rel (upd_scope r id (fun d => SData (sclosed d) (aupdate lkey_eqb lk (fun o => cell_apply o rc) (smet d))))
      (aupdate mkey_eqb (mk lk id) (fun o => tval_apply o rc) tm).
Proof.
  intros Hdf [Hfw Hbw]. split.
  - intros id0 lk0 c Hl. rewrite getd_upd in Hl. destruct (sid_eqb id0 id) eqn:E.
    + apply sid_eqb_spec in E; subst id0. cbn [smet] in Hl.
      destruct (lkey_eqb lk0 lk) eqn:El.
      * apply lkey_eqb_spec in El; subst lk0.
        rewrite (alookup_aupdate_same _ lkey_eqb_spec) in Hl. inversion Hl; subst c. clear Hl.
        split; [assumption|].
        rewrite (alookup_aupdate_same _ mkey_eqb_spec), cell_abs_apply. f_equal. f_equal.
        destruct (alookup lkey_eqb lk (smet (getd r id))) as [c|] eqn:Ec.
        -- destruct (Hfw _ _ _ Ec) as [_ Ht]. now rewrite Ht.
        -- cbn [option_map]. destruct (alookup mkey_eqb (mk lk id) tm) as [tv|] eqn:Et; [|reflexivity].
           destruct (Hbw _ _ Et) as (id1 & lk1 & c1 & H1 & H2).
           destruct (Hfw _ _ _ H1) as [Hd1 _].
           destruct (mk_inj _ _ _ _ Hdf Hd1 H2) as [-> ->]. congruence.
      * assert (lk0 <> lk) as Hne by (intro; subst; rewrite (eqb_refl _ lkey_eqb_spec) in El; discriminate).
        rewrite (alookup_aupdate_other _ lkey_eqb_spec _ _ _ _ Hne) in Hl.
        destruct (Hfw _ _ _ Hl) as [Hd0 Ht]. split; [assumption|].
        rewrite (alookup_aupdate_other _ mkey_eqb_spec); [assumption|].
        intro He. apply mk_same_id in He. contradiction.
    + assert (id0 <> id) as Hne by (intro; subst; rewrite (eqb_refl _ sid_eqb_spec) in E; discriminate).
      destruct (Hfw _ _ _ Hl) as [Hd0 Ht]. split; [assumption|].
      rewrite (alookup_aupdate_other _ mkey_eqb_spec); [assumption|].
      intro He. destruct (mk_inj _ _ _ _ Hd0 Hdf He) as [_ Hi]. contradiction.
  - intros k tv Hl.
    destruct (mkey_eqb k (mk lk id)) eqn:E.
    + apply mkey_eqb_spec in E; subst k. exists id, lk, (cell_apply (alookup lkey_eqb lk (smet (getd r id))) rc).
      split; [|reflexivity]. rewrite getd_upd, (eqb_refl _ sid_eqb_spec). cbn [smet].
      now rewrite (alookup_aupdate_same _ lkey_eqb_spec).
    + assert (k <> mk lk id) as Hne by (intro; subst; rewrite (eqb_refl _ mkey_eqb_spec) in E; discriminate).
      rewrite (alookup_aupdate_other _ mkey_eqb_spec _ _ _ _ Hne) in Hl.
      destruct (Hbw _ _ Hl) as (id1 & lk1 & c1 & H1 & H2).
      exists id1, lk1, c1. split; [|assumption].
      rewrite getd_upd. destruct (sid_eqb id1 id) eqn:E1; [|assumption].
      apply sid_eqb_spec in E1; subst id1. cbn [smet].
      rewrite (alookup_aupdate_other _ lkey_eqb_spec); [assumption|].
      intro; subst lk1. contradiction.
Qed.

(* ---- resolving a path --------------------------------------------------- *)
Record Inv (r : registry) (t : tally) : Prop := {
  inv_wf : Wf r;
  inv_rel : Rel r (tmet t);
  inv_cl : Cl r (tclosed t);
  inv_tnd : NoDup (map fst (tmet t))
}.

Lemma inv_ensure r t id : Inv r t -> Inv (ensure r id) t.
Proof.
  intros [Hw Hr Hc Hn]. unfold ensure. split.
  - apply wf_upd; auto.
  - apply rel_upd_same; auto.
  - apply cl_upd_same; auto.
  - assumption.
Qed.

Lemma resolve_inv root t p : forall r id,
  Inv r t ->
  Inv (fst (resolve root r id p)) t /\ snd (resolve root r id p) = live root (tclosed t) id p.
Proof.
  induction p as [|st rest IH]; intros r id HI; cbn [resolve live].
  - auto.
  - rewrite <- !(inv_cl _ _ HI).
    destruct (is_closed r root || is_closed r id); [auto|].
    apply IH. now apply inv_ensure.
Qed.

Lemma step_inv root r t o : op_ok o -> Inv r t -> Inv (step root r o) (tstep root t o).
Proof.
  intros Hok HI. destruct o as [p n rc|p|]; cbn [step tstep]; [| |assumption].
  - destruct (resolve_inv root t p r root HI) as [HI' Hs].
    destruct (resolve root r root p) as [r' oid]. cbn [fst snd] in *. rewrite <- Hs.
    destruct oid as [id|]; [|assumption].
    destruct HI' as [Hw Hr Hc Hn]. split; cbn [tmet tclosed].
    + apply wf_upd; [|assumption]. intros d Hd. cbn [smet]. now apply (aupdate_nodup _ lkey_eqb_spec).
    + apply (rel_record r' id (rkind rc, n) rc (tmet t)); assumption.
    + apply cl_upd_same; auto.
    + now apply (aupdate_nodup _ mkey_eqb_spec).
  - destruct (resolve_inv root t p r root HI) as [HI' Hs].
    destruct (resolve root r root p) as [r' oid]. cbn [fst snd] in *. rewrite <- Hs.
    destruct oid as [id|]; [|assumption].
    destruct HI' as [Hw Hr Hc Hn]. split; cbn [tmet tclosed].
    + apply wf_upd; auto.
    + apply rel_upd_same; auto.
    + now apply cl_close.
    + assumption.
Qed.

Lemma init_inv root : Inv (init root) (Tally [] []).
Proof.
  split; cbn.
  - split; [repeat constructor; tauto|]. intros id d [He|[]]. inversion He; subst. constructor.
  - split.
    + intros id lk c Hl. unfold getd in Hl. cbn in Hl. destruct (sid_eqb id root); cbn in Hl; discriminate.
    + intros k tv Hl; discriminate.
  - intro id. unfold is_closed. cbn. destruct (sid_eqb id root); reflexivity.
  - constructor.
Qed.

Lemma run_inv_from root ops : Forall op_ok ops -> forall r t,
  Inv r t -> Inv (fold_left (step root) ops r) (fold_left (tstep root) ops t).
Proof.
  induction 1 as [|o ops Ho _ IH]; intros r t HI; cbn [fold_left]; [assumption|].
  apply IH. now apply step_inv.
Qed.

Lemma run_inv root ops : Forall op_ok ops -> Inv (run root ops) (trun root ops).
Proof. intro Hok. apply run_inv_from; [assumption|apply init_inv]. Qed.

(* ---- the walk ----------------------------------------------------------- *)
Lemma nodup_app {A} (a b : list A) :
  NoDup a -> NoDup b -> (forall x, In x a -> ~ In x b) -> NoDup (a ++ b).
Proof.
  induction a as [|x a IH]; cbn; intros Ha Hb Hd; [assumption|].
  inversion Ha as [|? ? Hx Ha']; subst. constructor.
  - rewrite in_app_iff. intros [Hi|Hi]; [contradiction|]. apply (Hd x); auto.
  - apply IH; auto.
Qed.

Lemma nodup_map_inj_in {A B} (f : A -> B) (l : list A) :
  (forall x y, In x l -> In y l -> f x = f y -> x = y) -> NoDup l -> NoDup (map f l).
Proof.
  induction l as [|x l IH]; cbn; intros Hinj Hnd; [constructor|].
  inversion Hnd as [|? ? Hx Hl]; subst. constructor.
  - rewrite in_map_iff. intros (y & Hy & Hi). apply Hx.
    rewrite (Hinj x y); auto.
  - apply IH; auto.
Qed.

Lemma in_walk r k v :
  In (k, v) (walk r) <->
  exists id d lk c, In (id, d) r /\ In (lk, c) (smet d) /\ k = mk lk id /\ v = cell_snap c.
Proof.
  unfold walk. rewrite in_flat_map. split.
  - intros ([id d] & Hi & He). unfold scope_entries in He. rewrite in_map_iff in He.
    destruct He as ([lk c] & He & Hc). cbn [fst snd] in He. inversion He; subst.
    exists id, d, lk, c. auto.
  - intros (id & d & lk & c & Hi & Hc & -> & ->). exists (id, d). split; [assumption|].
    unfold scope_entries. rewrite in_map_iff. exists (lk, c). auto.
Qed.

Lemma walk_keys_nodup r :
  Wf r ->
  (forall id d lk c, In (id, d) r -> In (lk, c) (smet d) -> dotfree (snd lk)) ->
  NoDup (map fst (walk r)).
Proof.
  intros [Hn Hm] Hd. induction r as [|[id d] r IH]; [constructor|].
  cbn [walk flat_map]. rewrite map_app. cbn [map fst] in Hn.
  inversion Hn as [|? ? Hx Hr]; subst.
  apply nodup_app.
  - assert (map fst (scope_entries (id, d)) = map (fun lk => mk lk id) (map fst (smet d))) as Hm1
      by (unfold scope_entries; rewrite !map_map; reflexivity).
    rewrite Hm1.
    apply nodup_map_inj_in; [|apply (Hm id d); now left].
    intros lk lk' Hi Hi' He. now apply mk_same_id in He.
  - apply IH; [assumption| |].
    + intros id0 d0 Hi. apply (Hm id0 d0). now right.
    + intros id0 d0 lk c Hi. apply (Hd id0 d0 lk c). now right.
  - intros k Hi1 Hi2.
    apply in_map_iff in Hi1. destruct Hi1 as ([k1 v1] & <- & Hi1).
    apply in_map_iff in Hi2. destruct Hi2 as ([k2 v2] & He2 & Hi2). cbn [fst] in He2. subst k2.
    unfold scope_entries in Hi1. apply in_map_iff in Hi1. destruct Hi1 as ([lk c] & He & Hc).
    cbn [fst snd] in He. inversion He; subst. clear He.
    change (walk r) with (walk r) in Hi2. apply in_walk in Hi2.
    destruct Hi2 as (id2 & d2 & lk2 & c2 & Hi2 & Hc2 & He2 & _).
    change (fst lk, fqn (fst id) (snd lk), snd id) with (mk lk id) in He2.
    assert (dotfree (snd lk)) as D1 by (apply (Hd id d lk c); [now left|assumption]).
    assert (dotfree (snd lk2)) as D2 by (apply (Hd id2 d2 lk2 c2); [now right|assumption]).
    destruct (mk_inj _ _ _ _ D1 D2 He2) as [_ <-].
    apply Hx. apply in_map_iff. exists (id, d2). auto.
Qed.

Lemma in_reg_getd r id d : NoDup (map fst r) -> In (id, d) r -> getd r id = d.
Proof. intros Hn Hi. unfold getd. now rewrite (in_alookup _ sid_eqb_spec _ _ _ Hn Hi). Qed.

Lemma rel_dotfree r tm : Wf r -> Rel r tm ->
  forall id d lk c, In (id, d) r -> In (lk, c) (smet d) -> dotfree (snd lk).
Proof.
  intros [Hn Hm] [Hfw _] id d lk c Hi Hc.
  pose proof (in_reg_getd _ _ _ Hn Hi) as Hg.
  pose proof (in_alookup _ lkey_eqb_spec _ _ _ (Hm _ _ Hi) Hc) as Hl.
  rewrite <- Hg in Hl. now destruct (Hfw _ _ _ Hl).
Qed.

(* the store-walking snapshot looks up like the tally, key by key *)
Lemma snapshot_lookup r t : Inv r t ->
  forall k, alookup mkey_eqb k (snapshot r) = option_map tval_snap (alookup mkey_eqb k (tmet t)).
Proof.
  intros [Hw Hr Hc Hn] k.
  pose proof (rel_dotfree _ _ Hw Hr) as Hdf.
  pose proof (walk_keys_nodup r Hw Hdf) as Hwn.
  unfold snapshot. rewrite (fold_aset_lookup _ mkey_eqb_spec _ _ Hwn).
  destruct Hw as [Hrn Hm]. destruct Hr as [Hfw Hbw].
  destruct (alookup mkey_eqb k (tmet t)) as [tv|] eqn:Et; cbn [option_map].
  - destruct (Hbw _ _ Et) as (id & lk & c & Hl & ->).
    destruct (Hfw _ _ _ Hl) as [_ Ht]. rewrite Ht in Et. inversion Et; subst tv.
    rewrite tval_snap_abs. apply (in_alookup _ mkey_eqb_spec); [assumption|].
    apply in_walk. exists id, (getd r id), lk, c.
    assert (In (lk, c) (smet (getd r id))) as Hic by now apply (alookup_some_in _ lkey_eqb_spec).
    repeat split; try assumption.
    unfold getd in *. destruct (alookup sid_eqb id r) as [d|] eqn:Ed.
    + now apply (alookup_some_in _ sid_eqb_spec).
    + cbn in Hic. contradiction.
  - destruct (alookup mkey_eqb k (walk r)) as [v|] eqn:Ew; [|reflexivity].
    apply (alookup_some_in _ mkey_eqb_spec) in Ew. apply in_walk in Ew.
    destruct Ew as (id & d & lk & c & Hi & Hic & -> & _).
    pose proof (in_reg_getd _ _ _ Hrn Hi) as Hg.
    pose proof (in_alookup _ lkey_eqb_spec _ _ _ (Hm _ _ Hi) Hic) as Hl.
    rewrite <- Hg in Hl. destruct (Hfw _ _ _ Hl) as [_ Ht]. congruence.
Qed.

Lemma snapshot_nodup r : NoDup (map fst (snapshot r)).
Proof. unfold snapshot. apply (fold_aset_nodup _ mkey_eqb_spec). constructor. Qed.

Lemma alookup_map_snd {K V W} (eqb : K -> K -> bool) (f : V -> W) k (l : list (K * V)) :
  alookup eqb k (map (fun kv => (fst kv, f (snd kv))) l) = option_map f (alookup eqb k l).
Proof.
  induction l as [|[k' v] l IH]; cbn; [reflexivity|]. destruct (eqb k k'); [reflexivity|exact IH].
Qed.

(* main refinement, all histories *)
Lemma snapshot_is_tally root ops : Forall op_ok ops ->
  (forall k, alookup mkey_eqb k (snapshot (run root ops)) =
             alookup mkey_eqb k (tally_snapshot (trun root ops))) /\
  Permutation (snapshot (run root ops)) (tally_snapshot (trun root ops)).
Proof.
  intro Hok. pose proof (run_inv root ops Hok) as HI.
  assert (forall k, alookup mkey_eqb k (snapshot (run root ops)) =
                    alookup mkey_eqb k (tally_snapshot (trun root ops))) as Hl.
  { intro k. unfold tally_snapshot. rewrite alookup_map_snd. now apply snapshot_lookup. }
  split; [exact Hl|].
  apply (same_lookup_perm _ mkey_eqb_spec); [apply snapshot_nodup| |exact Hl].
  unfold tally_snapshot. rewrite map_map. cbn [fst]. apply (inv_tnd _ _ HI).
Qed.

(* the snapshots taken in the middle of a history are the tally of the history so far *)
Lemma snapshots_from root ops : forall r t pre,
  r = run root pre -> t = trun root pre -> Forall op_ok pre -> Forall op_ok ops ->
  Forall2 (fun s ts => Permutation s ts)
          (snapshots root r ops)
          (tsnapshots root t ops).
Proof.
  induction ops as [|o rest IH]; intros r t pre Hr Ht Hpre Hops; cbn [snapshots tsnapshots]; [constructor|].
  inversion Hops as [|? ? Ho Hrest]; subst.
  assert (step root (run root pre) o = run root (pre ++ [o])) as Hs
    by (unfold run; now rewrite fold_left_app).
  assert (tstep root (trun root pre) o = trun root (pre ++ [o])) as Hts
    by (unfold trun; now rewrite fold_left_app).
  assert (Forall op_ok (pre ++ [o])) as Hpre' by (apply Forall_app; split; [assumption|now constructor]).
  destruct o as [p n rc|p|].
  - apply (IH _ _ (pre ++ [ORec p n rc])); auto.
  - apply (IH _ _ (pre ++ [OClose p])); auto.
  - constructor.
    + rewrite Hs, Hts. now apply snapshot_is_tally.
    + apply (IH _ _ (pre ++ [OSnap])); auto.
Qed.

(* ---- Close of a subscope ------------------------------------------------ *)

Lemma live_after_close root cl x p : forall id,
  live root cl id p = Some x -> p <> [] -> root <> x -> ~ In x (via id p) ->
  live root (x :: cl) id p = Some x.
Proof.
  induction p as [|st rest IH]; intros id Hl Hne Hrx Hv; [congruence|].
  cbn [live via amem existsb] in *.
  destruct (amem sid_eqb root cl || amem sid_eqb id cl) eqn:E; [discriminate|].
  apply orb_false_iff in E. destruct E as [E1 E2]. unfold amem in E1, E2.
  rewrite E1, E2.
  rewrite (eqb_neq _ sid_eqb_spec root x Hrx).
  assert (id <> x) as Hix by (intro; subst; apply Hv; now left).
  rewrite (eqb_neq _ sid_eqb_spec id x Hix). cbn [orb].
  destruct rest as [|st' rest'].
  - cbn [live] in *. assumption.
  - apply IH; [assumption|discriminate|assumption|]. intro Hi; apply Hv; now right.
Qed.

Lemma tstep_keeps root t o k tv :
  alookup mkey_eqb k (tmet t) = Some tv -> exists tv', alookup mkey_eqb k (tmet (tstep root t o)) = Some tv'.
Proof.
  intro Hl. destruct o as [p n rc|p|]; cbn [tstep].
  - destruct (live root (tclosed t) root p) as [id|]; [|eauto]. cbn [tmet].
    destruct (mkey_eqb k (rkind rc, fqn (fst id) n, snd id)) eqn:E.
    + apply mkey_eqb_spec in E; subst k. rewrite (alookup_aupdate_same _ mkey_eqb_spec). eauto.
    + assert (k <> (rkind rc, fqn (fst id) n, snd id)) as Hne
        by (intro; subst; rewrite (eqb_refl _ mkey_eqb_spec) in E; discriminate).
      rewrite (alookup_aupdate_other _ mkey_eqb_spec _ _ _ _ Hne). eauto.
  - destruct (live root (tclosed t) root p); eauto.
  - eauto.
Qed.

Lemma trun_keeps root ops : forall t k tv,
  alookup mkey_eqb k (tmet t) = Some tv ->
  exists tv', alookup mkey_eqb k (tmet (fold_left (tstep root) ops t)) = Some tv'.
Proof.
  induction ops as [|o ops IH]; intros t k tv Hl; cbn [fold_left]; [eauto|].
  destruct (tstep_keeps root t o k tv Hl) as [tv' Hl']. eapply IH; eauto.
Qed.

Lemma survives_close root ops p x :
  Forall op_ok ops ->
  live root (tclosed (trun root ops)) root p = Some x -> p <> [] -> root <> x -> ~ In x (via root p) ->
  (* Close changes no entry *)
  (forall k, alookup mkey_eqb k (snapshot (run root (ops ++ [OClose p]))) =
             alookup mkey_eqb k (snapshot (run root ops))) /\
  (* entries stay for ever *)
  (forall ops2 k v, Forall op_ok ops2 ->
     alookup mkey_eqb k (snapshot (run root ops)) = Some v ->
     exists v', alookup mkey_eqb k (snapshot (run root (ops ++ OClose p :: ops2))) = Some v') /\
  (* recording through the same path afterwards still shows, continuing the old value *)
  (forall n rc, dotfree n ->
     alookup mkey_eqb (rkind rc, fqn (fst x) n, snd x)
       (snapshot (run root (ops ++ [OClose p; ORec p n rc]))) =
     Some (tval_snap (tval_apply
        (alookup mkey_eqb (rkind rc, fqn (fst x) n, snd x) (tmet (trun root ops))) rc))).
Proof.
  intros Hok Hl Hne Hrx Hv.
  assert (Forall op_ok (ops ++ [OClose p])) as Hok1
    by (apply Forall_app; split; [assumption|repeat constructor]).
  assert (trun root (ops ++ [OClose p]) = Tally (x :: tclosed (trun root ops)) (tmet (trun root ops))) as Ht1.
  { unfold trun. rewrite fold_left_app. cbn [fold_left tstep].
    change (fold_left (tstep root) ops (Tally [] [])) with (trun root ops). now rewrite Hl. }
  split; [|split].
  - intro k. rewrite (proj1 (snapshot_is_tally root _ Hok1)), (proj1 (snapshot_is_tally root _ Hok)).
    unfold tally_snapshot. now rewrite Ht1.
  - intros ops2 k v Hok2 Hs.
    assert (Forall op_ok (ops ++ OClose p :: ops2)) as Hok'
      by (apply Forall_app; split; [assumption|constructor; [exact I|assumption]]).
    rewrite (proj1 (snapshot_is_tally root _ Hok)) in Hs.
    rewrite (proj1 (snapshot_is_tally root _ Hok')).
    unfold tally_snapshot in *. rewrite alookup_map_snd in *.
    destruct (alookup mkey_eqb k (tmet (trun root ops))) as [tv|] eqn:Et; [|discriminate].
    unfold trun. rewrite fold_left_app.
    destruct (trun_keeps root (OClose p :: ops2) (trun root ops) k tv Et) as [tv' Ht'].
    unfold trun in Ht'. rewrite Ht'. cbn. eauto.
  - intros n rc Hdf.
    assert (Forall op_ok (ops ++ [OClose p; ORec p n rc])) as Hok'
      by (apply Forall_app; split; [assumption|repeat constructor; assumption]).
    rewrite (proj1 (snapshot_is_tally root _ Hok')).
    unfold tally_snapshot. rewrite alookup_map_snd.
    replace (ops ++ [OClose p; ORec p n rc]) with ((ops ++ [OClose p]) ++ [ORec p n rc])
      by (now rewrite <- app_assoc).
    unfold trun at 1. rewrite fold_left_app.
    change (fold_left (tstep root) (ops ++ [OClose p]) (Tally [] [])) with (trun root (ops ++ [OClose p])).
    rewrite Ht1. cbn [fold_left tstep tclosed tmet].
    rewrite (live_after_close root _ x p root Hl Hne Hrx Hv). cbn [tmet].
    now rewrite (alookup_aupdate_same _ mkey_eqb_spec).
Qed.

(* ---- histogram snapshot counts ----------------------------------------- *)

(* total count of the buckets whose (map key of the) upper bound is u *)
Fixpoint bsum (k : kind) (u : Z) (us cnt : list Z) : Z :=
  match us, cnt with
  | b :: us', c :: cnt' => (if ukey k b =? u then c else 0) + bsum k u us' cnt'
  | _, _ => 0
  end.

Lemma aadd_lookup u c m u0 :
  alookup Z.eqb u0 (aadd u c m) =
  if u0 =? u then Some (match alookup Z.eqb u m with Some c0 => c0 + c | None => c end)
  else alookup Z.eqb u0 m.
Proof.
  unfold aadd. destruct (u0 =? u) eqn:E.
  - apply Z.eqb_eq in E; subst. now rewrite (alookup_aupdate_same _ Zeqb_spec).
  - apply Z.eqb_neq in E. now rewrite (alookup_aupdate_other _ Zeqb_spec _ _ _ _ E).
Qed.

Lemma bsum_absent k u : forall us cnt,
  existsb (fun b => ukey k b =? u) us = false -> bsum k u us cnt = 0.
Proof.
  induction us as [|b us IH]; intros [|c cnt] He; cbn in *; try reflexivity.
  apply orb_false_iff in He. destruct He as [H1 H2]. rewrite H1, IH by assumption. reflexivity.
Qed.

Lemma hsnap_fold k u : forall us cnt m, length us = length cnt ->
  alookup Z.eqb u (fold_left (fun m uc => aadd (ukey k (fst uc)) (snd uc) m) (combine us cnt) m) =
  if existsb (fun b => ukey k b =? u) us
  then Some (match alookup Z.eqb u m with Some c0 => c0 | None => 0 end + bsum k u us cnt)
  else alookup Z.eqb u m.
Proof.
  induction us as [|b us IH]; intros [|c cnt] m Hlen; cbn in Hlen; try discriminate; cbn [combine fold_left existsb bsum].
  - reflexivity.
  - rewrite IH by congruence. cbn [fst snd]. rewrite aadd_lookup.
    rewrite (Z.eqb_sym u (ukey k b)).
    destruct (ukey k b =? u) eqn:E; cbn [orb].
    + apply Z.eqb_eq in E. rewrite E.
      destruct (existsb (fun b0 => ukey k b0 =? u) us) eqn:Ex.
      * destruct (alookup Z.eqb u m); f_equal; ring.
      * rewrite (bsum_absent k u us cnt Ex). destruct (alookup Z.eqb u m); f_equal; ring.
    + reflexivity.
Qed.

Lemma hsnap_lookup h u : length (hus h) = length (hcnt h) ->
  alookup Z.eqb u (hsnap h) =
  if existsb (fun b => ukey (hk h) b =? u) (hus h) then Some (bsum (hk h) u (hus h) (hcnt h)) else None.
Proof.
  intro Hlen. unfold hsnap, hsnap_from. rewrite hsnap_fold by assumption. cbn [alookup].
  destruct (existsb _ _); reflexivity.
Qed.

Lemma bsum_bump k u : forall us cnt i, length us = length cnt -> (i < length us)%nat ->
  bsum k u us (bump i cnt) = bsum k u us cnt + (if ukey k (nth i us 0) =? u then 1 else 0).
Proof.
  induction us as [|b us IH]; intros [|c cnt] i Hlen Hi; cbn in Hlen, Hi; try discriminate; try lia.
  destruct i as [|i]; cbn [bump bsum nth].
  - destruct (ukey k b =? u); ring.
  - rewrite IH by lia. ring.
Qed.

Lemma bsum_zero k u us : bsum k u us (repeat 0 (length us)) = 0.
Proof. induction us as [|b us IH]; cbn; [reflexivity|]. rewrite IH. destruct (ukey k b =? u); reflexivity. Qed.


Lemma hrecord_shape h sv : wf h ->
  wf (hrecord h sv) /\ hk (hrecord h sv) = hk h /\ hus (hrecord h sv) = hus h.
Proof.
  intro Hw. unfold hrecord. split; [now apply hstep_wf|].
  cbn [hstep]. destruct (kind_eqb (fst sv) (hk h)); cbn; auto.
Qed.

Lemma hfeed_counts samples : forall h u, wf h ->
  let h' := hfeed h samples in
  wf h' /\ hk h' = hk h /\ hus h' = hus h /\
  bsum (hk h) u (hus h) (hcnt h') = bsum (hk h) u (hus h) (hcnt h) + count_landed (hk h) (hus h) u samples.
Proof.
  induction samples as [|sv samples IH]; intros h u Hw; cbn [hfeed fold_left].
  - unfold count_landed. cbn [filter length Z.of_nat].
    split; [exact Hw|split; [reflexivity|split; [reflexivity|ring]]].
  - destruct (hrecord_shape h sv Hw) as (Hw1 & Hk1 & Hu1).
    destruct (IH (hrecord h sv) u Hw1) as (Hw2 & Hk2 & Hu2 & Hb). unfold hfeed in *.
    rewrite Hk1, Hu1 in *. split; [exact Hw2|split; [exact Hk2|split; [exact Hu2|]]].
    rewrite Hb. unfold count_landed. cbn [filter].
    unfold hrecord at 1. cbn [hstep]. destruct Hw as [Hne Hlen].
    destruct (kind_eqb (fst sv) (hk h)) eqn:Ek; cbn [andb fst hcnt].
    + rewrite bsum_bump; [|now symmetry|now apply record_total].
      unfold lands. destruct (ukey (hk h) (nth (record_idx (hk h) (hus h) (snd sv)) (hus h) 0) =? u);
        cbn [length]; lia.
    + lia.
Qed.

Lemma histogram_counts k spec samples u :
  let h := hfeed (hnew k spec) samples in
  let us := uppers k spec in
  alookup Z.eqb u (hsnap h) =
  if existsb (fun b => ukey k b =? u) us then Some (count_landed k us u samples) else None.
Proof.
  cbn zeta. destruct (hfeed_counts samples (hnew k spec) u (hnew_wf k spec)) as (Hw & Hk & Hu & Hb).
  destruct Hw as [_ Hlen]. rewrite hsnap_lookup by (now symmetry).
  rewrite Hk, Hu. cbn [hnew hk hus hcnt] in *. rewrite Hb, bsum_zero.
  destruct (existsb _ _); [f_equal; ring|reflexivity].
Qed.

(* ---- the tally, declaratively -------------------------------------------- *)
Lemma tally_decl_from root k ops : forall t,
  alookup mkey_eqb k (tmet (fold_left (tstep root) ops t)) =
  apply_recs (alookup mkey_eqb k (tmet t)) (recs_for root (tclosed t) k ops).
Proof.
  induction ops as [|o ops IH]; intro t; cbn [fold_left recs_for]; [reflexivity|].
  rewrite IH. destruct o as [p n rc|p|]; cbn [tstep].
  - destruct (live root (tclosed t) root p) as [id|]; [|reflexivity]. cbn [tclosed tmet].
    destruct (mkey_eqb k (rkind rc, fqn (fst id) n, snd id)) eqn:E.
    + apply mkey_eqb_spec in E. rewrite <- E.
      now rewrite (alookup_aupdate_same _ mkey_eqb_spec).
    + assert (k <> (rkind rc, fqn (fst id) n, snd id)) as Hne
        by (intro; subst; rewrite (eqb_refl _ mkey_eqb_spec) in E; discriminate).
      now rewrite (alookup_aupdate_other _ mkey_eqb_spec _ _ _ _ Hne).
  - destruct (live root (tclosed t) root p); reflexivity.
  - reflexivity.
Qed.

Lemma tally_decl root ops k :
  alookup mkey_eqb k (tmet (trun root ops)) = apply_recs None (recs_for root [] k ops).
Proof. unfold trun. now rewrite tally_decl_from. Qed.

Lemma recs_for_kind root ops : forall cl k r, In r (recs_for root cl k ops) -> rkind r = fst (fst k).
Proof.
  induction ops as [|o ops IH]; intros cl k r Hi; cbn [recs_for] in Hi; [contradiction|].
  destruct o as [p n rc|p|].
  - destruct (live root cl root p) as [id|]; [|eauto].
    destruct (mkey_eqb k (rkind rc, fqn (fst id) n, snd id)) eqn:E; [|eauto].
    destruct Hi as [->|Hi]; [|eauto]. apply mkey_eqb_spec in E. now subst k.
  - destruct (live root cl root p); eauto.
  - eauto.
Qed.

Lemma wrap_add_l a b : wrap (wrap a + b) = wrap (a + b).
Proof.
  unfold wrap, M64, H63. f_equal.
  replace ((a + 9223372036854775808) mod 18446744073709551616 - 9223372036854775808 + b + 9223372036854775808)
    with ((a + 9223372036854775808) mod 18446744073709551616 + b) by ring.
  rewrite Z.add_mod_idemp_l by discriminate. f_equal. ring.
Qed.

Lemma counter_sum_from rs : forall s, (forall r, In r rs -> rkind r = MC) ->
  apply_recs (Some (TSum (wrap s))) rs = Some (TSum (wrap (s + sumz (map inc_of rs)))).
Proof.
  induction rs as [|r rs IH]; intros s Hk; cbn [apply_recs fold_left map sumz].
  - now rewrite Z.add_0_r.
  - pose proof (Hk r (or_introl eq_refl)) as Hr.
    assert (forall r', In r' rs -> rkind r' = MC) as Hk' by (intros; apply Hk; now right).
    destruct r as [mk k spec|v|b|d|k spec v]; cbn in Hr; try discriminate.
    + subst mk. cbn [tval_apply tval_do inc_of]. fold (apply_recs (Some (TSum (wrap s))) rs).
      rewrite (IH s Hk'). now rewrite Z.add_0_l.
    + cbn [tval_apply tval_do inc_of]. rewrite wrap_add_l.
      fold (apply_recs (Some (TSum (wrap (s + v)))) rs). rewrite (IH (s + v) Hk'). now rewrite Z.add_assoc.
Qed.

Lemma counter_sum rs : (forall r, In r rs -> rkind r = MC) -> rs <> [] ->
  apply_recs None rs = Some (TSum (wrap (sumz (map inc_of rs)))).
Proof.
  intros Hk Hne. destruct rs as [|r rs]; [congruence|].
  pose proof (Hk r (or_introl eq_refl)) as Hr.
  assert (forall r', In r' rs -> rkind r' = MC) as Hk' by (intros; apply Hk; now right).
  cbn [apply_recs fold_left map sumz].
  destruct r as [mk k spec|v|b|d|k spec v]; cbn in Hr; try discriminate.
  - subst mk. cbn [tval_apply tval_new tval_do inc_of].
    change (TSum 0) with (TSum (wrap 0)). fold (apply_recs (Some (TSum (wrap 0))) rs).
    now rewrite (counter_sum_from rs 0 Hk').
  - cbn [tval_apply tval_new tval_do inc_of]. fold (apply_recs (Some (TSum (wrap (0 + v)))) rs).
    rewrite (counter_sum_from rs (0 + v) Hk'). now rewrite Z.add_0_l.
Qed.

Lemma gauge_last_from rs : forall b, (forall r, In r rs -> rkind r = MG) ->
  apply_recs (Some (TLast b)) rs = Some (TLast (last_update b rs)).
Proof.
  induction rs as [|r rs IH]; intros b Hk; cbn [apply_recs fold_left last_update]; [reflexivity|].
  pose proof (Hk r (or_introl eq_refl)) as Hr.
  assert (forall r', In r' rs -> rkind r' = MG) as Hk' by (intros; apply Hk; now right).
  destruct r as [mk k spec|v|x|d|k spec v]; cbn in Hr; try discriminate.
  - subst mk. cbn [tval_apply tval_do]. apply (IH b Hk').
  - cbn [tval_apply tval_do]. apply (IH x Hk').
Qed.

Lemma gauge_last rs : (forall r, In r rs -> rkind r = MG) -> rs <> [] ->
  apply_recs None rs = Some (TLast (last_update 0 rs)).
Proof.
  intros Hk Hne. destruct rs as [|r rs]; [congruence|].
  pose proof (Hk r (or_introl eq_refl)) as Hr.
  assert (forall r', In r' rs -> rkind r' = MG) as Hk' by (intros; apply Hk; now right).
  cbn [apply_recs fold_left last_update].
  destruct r as [mk k spec|v|x|d|k spec v]; cbn in Hr; try discriminate.
  - subst mk. cbn [tval_apply tval_new tval_do]. apply (gauge_last_from rs 0 Hk').
  - cbn [tval_apply tval_new tval_do]. apply (gauge_last_from rs x Hk').
Qed.

Lemma timer_list_from rs : forall l, (forall r, In r rs -> rkind r = MT) ->
  apply_recs (Some (TList l)) rs = Some (TList (l ++ flat_map dur_of rs)).
Proof.
  induction rs as [|r rs IH]; intros l Hk; cbn [apply_recs fold_left flat_map]; [now rewrite app_nil_r|].
  pose proof (Hk r (or_introl eq_refl)) as Hr.
  assert (forall r', In r' rs -> rkind r' = MT) as Hk' by (intros; apply Hk; now right).
  destruct r as [mk k spec|v|x|d|k spec v]; cbn in Hr; try discriminate.
  - subst mk. cbn [tval_apply tval_do dur_of app]. apply (IH l Hk').
  - cbn [tval_apply tval_do dur_of]. fold (apply_recs (Some (TList (l ++ [d]))) rs).
    rewrite (IH (l ++ [d]) Hk'). now rewrite <- app_assoc.
Qed.

Lemma timer_list rs : (forall r, In r rs -> rkind r = MT) -> rs <> [] ->
  apply_recs None rs = Some (TList (flat_map dur_of rs)).
Proof.
  intros Hk Hne. destruct rs as [|r rs]; [congruence|].
  pose proof (Hk r (or_introl eq_refl)) as Hr.
  assert (forall r', In r' rs -> rkind r' = MT) as Hk' by (intros; apply Hk; now right).
  cbn [apply_recs fold_left flat_map].
  destruct r as [mk k spec|v|x|d|k spec v]; cbn in Hr; try discriminate.
  - subst mk. cbn [tval_apply tval_new tval_do dur_of app]. apply (timer_list_from rs [] Hk').
  - cbn [tval_apply tval_new tval_do dur_of app]. apply (timer_list_from rs [d] Hk').
Qed.

Lemma hist_feed_from rs : forall h, (forall r, In r rs -> rkind r = MH) ->
  apply_recs (Some (THist h)) rs = Some (THist (hfeed h (flat_map sample_of rs))).
Proof.
  induction rs as [|r rs IH]; intros h Hk; cbn [apply_recs fold_left flat_map]; [reflexivity|].
  pose proof (Hk r (or_introl eq_refl)) as Hr.
  assert (forall r', In r' rs -> rkind r' = MH) as Hk' by (intros; apply Hk; now right).
  destruct r as [mk k spec|v|x|d|k spec v]; cbn in Hr; try discriminate.
  - subst mk. cbn [tval_apply tval_do sample_of app]. apply (IH h Hk').
  - cbn [tval_apply tval_do sample_of app]. apply (IH _ Hk').
Qed.

Lemma hist_feed rs r0 rs' : (forall r, In r rs -> rkind r = MH) -> rs = r0 :: rs' ->
  apply_recs None rs = Some (THist (hfeed (hist_of r0) (flat_map sample_of rs))).
Proof.
  intros Hk ->.
  pose proof (Hk r0 (or_introl eq_refl)) as Hr.
  assert (forall r', In r' rs' -> rkind r' = MH) as Hk' by (intros; apply Hk; now right).
  cbn [apply_recs fold_left flat_map].
  destruct r0 as [mk k spec|v|x|d|k spec v]; cbn in Hr; try discriminate.
  - subst mk. cbn [tval_apply tval_new tval_do sample_of hist_of app]. apply (hist_feed_from rs' _ Hk').
  - cbn [tval_apply tval_new tval_do sample_of hist_of app]. apply (hist_feed_from rs' _ Hk').
Qed.
