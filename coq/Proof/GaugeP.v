From Coq Require Import ZArith List Lia Bool Arith.
From Tally Require Import Model.Gauge.
Import ListNotations.

Definition loading (t : thread) : bool := match t with TR (RLoad _) => true | _ => false end.
Definition nload (s : sys) : nat := length (filter loading (thr s)).
Definition udone (t : thread) : Prop := match t with TU (UIdle []) => True | TU _ => False | TR _ => True end.

Definition flagging (t : thread) : bool := match t with TU (UFlag _) => true | _ => false end.
Definition alldone (s : sys) : Prop := forall t, In t (thr s) -> udone t.

Definition Inv (s : sys) : Prop :=
  (stored s <> [] -> hd 0%Z (stored s) = curr s) /\
  (forall v, In v (log s) -> In v (stored s)) /\
  ((updated s = true \/ 0 < nload s \/ existsb flagging (thr s) = true) -> stored s <> []) /\
  length (log s) + nload s + (if updated s then 1 else 0) <= flags s /\
  (* freshness: once every updater is done, the newest value is delivered or still owed *)
  (alldone s -> stored s = [] \/ updated s = true \/ 0 < nload s \/ hd_error (log s) = Some (curr s)).

Lemma filter_upd_len l i t t' : nth_error l i = Some t ->
  length (filter loading (upd l i t')) + (if loading t then 1 else 0) = length (filter loading l) + (if loading t' then 1 else 0).
Proof. revert i; induction l as [|h l IH]; intros [|i] H; cbn in *; try discriminate.
  - inversion H; subst. destruct (loading t), (loading t'); cbn; lia.
  - specialize (IH _ H). destruct (loading h); cbn; lia. Qed.

Lemma in_upd {A} (l : list A) i x t : In t (upd l i x) -> t = x \/ In t l.
Proof. revert i; induction l as [|h l IH]; intros [|i]; cbn; intuition; try (destruct (IH _ H0); auto). Qed.
Lemma in_upd_self {A} (l : list A) i x t : nth_error l i = Some t -> In x (upd l i x).
Proof. revert i; induction l as [|h l IH]; intros [|i] H; cbn in *; try discriminate; auto; try (right; eauto). Qed.
Lemma existsb_upd_false l i t' : loading t' = loading t' -> flagging t' = false ->
  existsb flagging (upd l i t') = true -> existsb flagging l = true.
Proof. intros _ F. revert i; induction l as [|h l IH]; intros [|i]; cbn; auto.
  - rewrite F. cbn. intros ->. apply orb_true_r.
  - intros H. apply orb_true_iff in H as [->|H]; auto. rewrite (IH _ H). apply orb_true_r. Qed.
Lemma existsb_in l t : In t l -> flagging t = true -> existsb flagging l = true.
Proof. intros H F. apply existsb_exists. eauto. Qed.
Lemma nload_pos l t : In t l -> loading t = true -> 0 < length (filter loading l).
Proof. induction l as [|h l IH]; cbn; [tauto|]. intros [->|H] L. rewrite L; cbn; lia. specialize (IH H L). destruct (loading h); cbn; lia. Qed.

Lemma nth_error_upd_other {A} (l : list A) i j x : i <> j -> nth_error (upd l i x) j = nth_error l j.
Proof. revert i j; induction l as [|h l IH]; intros [|i] [|j] N; cbn; auto; try lia. Qed.
Lemma alldone_upd s i t t' : nth_error (thr s) i = Some t -> udone t ->
  (forall x, In x (upd (thr s) i t') -> udone x) -> alldone s.
Proof.
  intros E U H x Hx. destruct (In_nth_error _ _ Hx) as [j Hj].
  destruct (Nat.eq_dec i j) as [<-|N].
  - rewrite E in Hj. inversion Hj; subst; auto.
  - apply H. apply (nth_error_In _ j). rewrite nth_error_upd_other; auto.
Qed.

Lemma step_inv s i : Inv s -> Inv (step s i).
Proof.
  intros (A & B & C & D & F). unfold step. destruct (nth_error (thr s) i) as [t|] eqn:E; [|repeat split; auto].
  assert (Hin : In t (thr s)) by (eapply nth_error_In; eauto).
  destruct t as [[[|v rest]|rest]|[[|n]|n]]; try (repeat split; auto; fail).
  - (* U1: store curr *)
    pose proof (filter_upd_len _ _ _ (TU (UFlag rest)) E) as L. cbn in L.
    unfold Inv, nload, set_thr, alldone; cbn. unfold nload in D. repeat split; auto; try discriminate; try lia.
    intros H. exfalso. apply (H (TU (UFlag rest))). eapply in_upd_self; eauto.
  - (* U2: raise flag *)
    pose proof (filter_upd_len _ _ _ (TU (UIdle rest)) E) as L. cbn in L.
    assert (NE : stored s <> []). { apply C. right; right. eapply existsb_in; eauto. }
    unfold Inv, nload, set_thr, alldone; cbn. unfold nload in *. repeat split; auto; try lia; try (destruct (updated s); lia).
  - (* R1: swap *)
    destruct (updated s) eqn:U.
    + pose proof (filter_upd_len _ _ _ (TR (RLoad n)) E) as L. cbn in L.
      assert (NE : stored s <> []) by (apply C; auto).
      unfold Inv, nload, set_thr, alldone; cbn. unfold nload in *. repeat split; auto; try lia;
        try (intros _; right; right; left; lia).
    + pose proof (filter_upd_len _ _ _ (TR (RIdle n)) E) as L. cbn in L.
      unfold Inv, nload, set_thr, alldone; cbn. unfold nload in *. rewrite ?U. repeat split; auto; try lia.
      * intros [H|[H|H]]; [discriminate| |]; apply C. right; left; lia.
        right; right. eapply existsb_upd_false; eauto; reflexivity.
      * intros H. destruct F as [F|[F|[F|F]]]; auto.
        { eapply alldone_upd; eauto. exact I. }
        right; right; left; lia.
  - (* R2: load + deliver *)
    pose proof (filter_upd_len _ _ _ (TR (RIdle n)) E) as L. cbn in L.
    assert (NE : stored s <> []). { apply C. right; left. eapply nload_pos; eauto. }
    unfold Inv, nload, set_thr, alldone; cbn. unfold nload in *. repeat split; auto; try lia.
    + intros v [<-|H]; auto. rewrite <- (A NE). destruct (stored s); [congruence|left; reflexivity].
Qed.

Lemma run_inv sched : forall s, Inv s -> Inv (run s sched).
Proof. induction sched as [|i sched IH]; cbn; intros; auto. apply IH, step_inv; auto. Qed.

Lemma filter_none (l : list thread) : (forall t, In t l -> loading t = false) -> length (filter loading l) = 0.
Proof. induction l as [|h l IH]; cbn; auto. intros H. rewrite (H h (or_introl eq_refl)). apply IH. intros; apply H; right; auto. Qed.
Lemma existsb_none (l : list thread) : (forall t, In t l -> flagging t = false) -> existsb flagging l = false.
Proof. induction l as [|h l IH]; cbn; auto. intros H. rewrite (H h (or_introl eq_refl)). apply IH. intros; apply H; right; auto. Qed.
Lemma inv_init ths : (forall t, In t ths -> flagging t = false /\ loading t = false) -> Inv (init ths).
Proof. intros H. unfold Inv, init, nload; cbn.
  rewrite filter_none by (intros t Ht; apply H; auto).
  rewrite existsb_none by (intros t Ht; apply H; auto).
  repeat split; auto; try tauto; try lia; try (intros [?|[?|?]]; try discriminate; lia).
Qed.

(* C02: every delivered value was passed to Update; deliveries <= completed updates; freshness *)
Lemma gauge_all ths sched :
  (forall t, In t ths -> flagging t = false /\ loading t = false) ->
  let s := run (init ths) sched in
  (forall v, In v (log s) -> In v (stored s)) /\
  length (log s) <= flags s /\
  (alldone s -> nload s = 0 -> updated s = false -> stored s <> [] ->
     hd_error (log s) = Some (hd 0%Z (stored s))).
Proof.
  intros H s. destruct (run_inv sched _ (inv_init ths H)) as (A & B & C & D & F). fold s in A, B, C, D, F.
  repeat split; auto. lia.
  intros H1 H2 H3 H4. destruct (F H1) as [X|[X|[X|X]]]; try congruence; try lia. rewrite (A H4). exact X.
Qed.


(* no re-delivery: with the flag down, no pass in flight and every updater
   finished, report passes deliver nothing *)
Lemma no_redelivery s1 sched :
  alldone s1 -> nload s1 = 0 -> updated s1 = false -> log (run s1 sched) = log s1.
Proof.
  assert (G : forall sch s0, (alldone s0 /\ nload s0 = 0 /\ updated s0 = false /\ log s0 = log s1) ->
                             log (run s0 sch) = log s1).
  { induction sch as [|i sch IH]; cbn; intros s0 (A & B & C & D); auto. apply IH. unfold step.
    destruct (nth_error (thr s0) i) as [t|] eqn:E; [|tauto].
    assert (Hin : In t (thr s0)) by (eapply nth_error_In; eauto).
    pose proof (A t Hin) as Ut.
    destruct t as [[[|v rest]|rest]|[[|n]|n]]; cbn in Ut; try tauto.
    - rewrite C. pose proof (filter_upd_len _ _ _ (TR (RIdle n)) E) as L. cbn in L.
      unfold nload, set_thr, alldone in *; cbn. repeat split; auto; try lia.
      intros x Hx. apply in_upd in Hx as [->|Hx]; [exact I|apply A, Hx].
    - exfalso. unfold nload in B. pose proof (nload_pos _ _ Hin eq_refl). lia. }
  intros A B C. apply G. auto.
Qed.
