From Coq Require Import List Lia Bool Arith.
From Tally Require Import Model.RootClose.
Import ListNotations.

(* ---------------- basic list lemmas ---------------- *)
Lemma upd_length {A} (l : list A) i x : length (upd l i x) = length l.
Proof. revert i; induction l as [|h t IH]; intros [|i]; cbn; auto. Qed.
Lemma nth_upd {A} (l : list A) i j x d : nth j (upd l i x) d = if (Nat.eqb i j && Nat.ltb i (length l))%bool then x else nth j l d.
Proof.
  revert i j; induction l as [|h t IH]; intros i j.
  - cbn. replace (i <? 0) with false by (symmetry; apply Nat.ltb_ge; lia). rewrite andb_false_r. destruct i, j; reflexivity.
  - destruct i as [|i], j as [|j]; cbn [upd nth length]; auto.
    rewrite IH. reflexivity.
Qed.
Lemma nth_error_upd_other {A} (l : list A) i j x : i <> j -> nth_error (upd l i x) j = nth_error l j.
Proof. revert i j; induction l as [|h l IH]; intros [|i] [|j] N; cbn; auto; try lia. Qed.
Lemma nth_error_upd_same {A} (l : list A) i x t : nth_error l i = Some t -> nth_error (upd l i x) i = Some x.
Proof. revert i; induction l as [|h l IH]; intros [|i] H; cbn in *; try discriminate; auto. Qed.
(* an element of the updated list is the new one or sits at another index of the old list *)
Lemma in_upd_idx {A} (l : list A) i x t : In t (upd l i x) -> t = x \/ exists j, j <> i /\ nth_error l j = Some t.
Proof.
  intros Hin. apply In_nth_error in Hin as [j Hj].
  destruct (Nat.eq_dec i j) as [<-|N].
  - destruct (nth_error l i) as [t0|] eqn:E.
    + rewrite (nth_error_upd_same _ _ _ _ E) in Hj. left. congruence.
    + exfalso. assert (length l <= i) by (apply nth_error_None; auto).
      assert (nth_error (upd l i x) i = None) by (apply nth_error_None; rewrite upd_length; auto). congruence.
  - right. exists j. split; auto. rewrite nth_error_upd_other in Hj; auto.
Qed.
Lemma in_upd {A} (l : list A) i x t : In t (upd l i x) -> t = x \/ In t l.
Proof. intros H. apply in_upd_idx in H as [H|(j & _ & H)]; auto. right. eapply nth_error_In; eauto. Qed.

Definition cnt (f : thread -> bool) (l : list thread) : nat := length (filter f l).
Lemma cnt_upd f l i t t' : nth_error l i = Some t ->
  cnt f (upd l i t') + (if f t then 1 else 0) = cnt f l + (if f t' then 1 else 0).
Proof. unfold cnt. revert i; induction l as [|h l IH]; intros [|i] H; cbn in *; try discriminate.
  - inversion H; subst. destruct (f t), (f t'); cbn; lia.
  - specialize (IH _ H). destruct (f h); cbn; lia. Qed.
Lemma cnt_pos_in f l (t : thread) : In t l -> f t = true -> 0 < cnt f l.
Proof. unfold cnt. induction l as [|h l IH]; cbn [filter In]; [tauto|]. intros [->|H] F. rewrite F; cbn; lia.
  specialize (IH H F). destruct (f h); cbn [length]; lia. Qed.
(* two winners at different indices count twice *)
Lemma cnt_two f l i j (a b : thread) : i <> j -> nth_error l i = Some a -> nth_error l j = Some b ->
  f a = true -> f b = true -> 2 <= cnt f l.
Proof.
  unfold cnt. revert i j; induction l as [|h l IH]; intros [|i] [|j] N Ha Hb Fa Fb; cbn in *; try discriminate; try lia.
  - inversion Ha; subst. rewrite Fa. cbn [length].
    pose proof (cnt_pos_in f l b (nth_error_In _ _ Hb) Fb). unfold cnt in *. lia.
  - inversion Hb; subst. rewrite Fb. cbn [length].
    pose proof (cnt_pos_in f l a (nth_error_In _ _ Ha) Fa). unfold cnt in *. lia.
  - assert (N' : i <> j) by lia. specialize (IH i j N' Ha Hb Fa Fb). destruct (f h); cbn [length]; lia.
Qed.

(* ---------------- invariant ---------------- *)
Definition ctr_ok (c : ctr) : Prop := delivered c <= applied c /\ mark c <= applied c.
Definition past_wait (p : kpc) : bool := match p with KStart | KPass _ | KCloser | KRet => true | _ => false end.
Definition done_obj (s : sys) (o : nat) : Prop := mark (nth o (ctrs s) dflt) <= delivered (nth o (ctrs s) dflt).
Definition all_done (s : sys) : Prop := forall o, o < length (ctrs s) -> done_obj s o.

Definition kok (s : sys) (p : kpc) : Prop :=
  match p with
  | KPass rest => forall o, o < length (ctrs s) -> ~ In o rest -> done_obj s o
  | KCloser | KRet => all_done s
  | _ => True
  end.
Definition is_winner (t : thread) : bool := match t with TK KIdle | TK KLoser => false | TK _ => true | _ => false end.
Definition no_closer (l : list ev) : Prop := ~ In ECloser l.

Definition Inv (s : sys) : Prop :=
  (forall o, ctr_ok (nth o (ctrs s) dflt)) /\
  (forall p, In (TK p) (thr s) -> kok s p) /\
  (cnt is_winner (thr s) = if rclosed s then 1 else 0) /\
  (forall p, In (TK p) (thr s) -> past_wait p = true -> forall q, In (TT q) (thr s) -> q = TExit) /\
  (dclosed s = true -> rclosed s = true) /\
  (* the shape of the log around the shutdown *)
  (In (TK KCloser) (thr s) -> exists l, log s = EFlush :: l /\ no_closer l) /\
  (In (TK KRet) (thr s) -> exists l, log s = ECloser :: EFlush :: l /\ no_closer l) /\
  (~ In (TK KRet) (thr s) -> no_closer (log s)) /\
  (* the root's entry is only removed by a pass that reported it after Close was called *)
  (gone s = true -> rclosed s = true /\ done_obj s 0).

Definition good (f : ctr -> ctr) : Prop :=
  forall c, ctr_ok c -> ctr_ok (f c) /\ mark (f c) = mark c /\ delivered c <= delivered (f c).
Lemma good_report : good report1. Proof. intros c [A B]. unfold ctr_ok, report1; cbn. repeat split; lia. Qed.
Lemma good_inc : good inc1. Proof. intros c [A B]. unfold ctr_ok, inc1; cbn. repeat split; lia. Qed.

Lemma nth_with_ctr s o f j : nth j (ctrs (with_ctr s o f)) dflt =
  if (Nat.eqb o j && Nat.ltb o (length (ctrs s)))%bool then f (nth o (ctrs s) dflt) else nth j (ctrs s) dflt.
Proof. unfold with_ctr; cbn [ctrs]. apply nth_upd. Qed.
Lemma len_with_ctr s o f : length (ctrs (with_ctr s o f)) = length (ctrs s).
Proof. unfold with_ctr; cbn [ctrs]. apply upd_length. Qed.

Lemma done_obj_good s o f j : good f -> (forall k, ctr_ok (nth k (ctrs s) dflt)) -> done_obj s j -> done_obj (with_ctr s o f) j.
Proof.
  intros G Ho D. unfold done_obj in *. rewrite nth_with_ctr.
  destruct (Nat.eqb_spec o j) as [->|N]; cbn [andb]; auto.
  destruct (j <? length (ctrs s)); auto. destruct (G _ (Ho j)) as (_ & M & Dl). lia.
Qed.

Lemma kok_good s o f p : good f -> (forall j, ctr_ok (nth j (ctrs s) dflt)) -> kok s p -> kok (with_ctr s o f) p.
Proof.
  intros G Ho. destruct p; cbn [kok]; auto; unfold all_done; rewrite ?len_with_ctr; intros K.
  - intros j Hj Hn. apply done_obj_good; auto.
  - intros j Hj. apply done_obj_good; auto.
  - intros j Hj. apply done_obj_good; auto.
Qed.

Lemma ctr_ok_good s o f : good f -> (forall j, ctr_ok (nth j (ctrs s) dflt)) -> forall j, ctr_ok (nth j (ctrs (with_ctr s o f)) dflt).
Proof. intros G Ho j. rewrite nth_with_ctr. destruct (Nat.eqb o j && (o <? length (ctrs s)))%bool; auto. apply G; auto. Qed.

Lemma inv_ctr s o f : good f -> Inv s -> Inv (with_ctr s o f).
Proof.
  intros G (A & B & C & D & E & F1 & F2 & F3 & Gn).
  split; [apply ctr_ok_good; auto|]. split; [intros p Hp; apply kok_good; auto|].
  split; [exact C|]. split; [exact D|]. split; [exact E|]. split; [exact F1|]. split; [exact F2|]. split; [exact F3|].
  intros Hg. destruct (Gn Hg) as [R Dn]. split; [exact R|apply done_obj_good; auto].
Qed.

Lemma kok_ext s s' p : ctrs s' = ctrs s -> kok s p -> kok s' p.
Proof. intros E. destruct p; cbn [kok]; unfold all_done, done_obj; rewrite ?E; auto. Qed.

Lemma ticker_exited_all s : ticker_exited s = true -> forall q, In (TT q) (thr s) -> q = TExit.
Proof. unfold ticker_exited. rewrite forallb_forall. intros H q Hq. specialize (H _ Hq). destruct q; auto; discriminate. Qed.

Lemma covers_in g order n o : covers g order n = true -> o < n -> In o order \/ (g = true /\ o = 0).
Proof.
  unfold covers. rewrite forallb_forall. intros H Ho.
  specialize (H o ltac:(apply in_seq; lia)). apply orb_true_iff in H as [H|H].
  - apply andb_true_iff in H as [Hg H0]. apply Nat.eqb_eq in H0. right. auto.
  - rewrite existsb_exists in H. destruct H as (x & Hx & E). apply Nat.eqb_eq in E. subst. left. exact Hx.
Qed.

Lemma inv_mark_gone s o : Inv s -> (o = 0 -> rclosed s = true -> done_obj s 0) -> Inv (mark_gone s o).
Proof.
  intros (A & B & C & D & E & F1 & F2 & F3 & Gn) Hd.
  split; [exact A|]. split; [exact B|]. split; [exact C|]. split; [exact D|]. split; [exact E|].
  split; [exact F1|]. split; [exact F2|]. split; [exact F3|].
  unfold mark_gone; cbn [gone rclosed]. intros Hg. apply orb_true_iff in Hg as [Hg|Hg]; [apply Gn, Hg|].
  apply andb_true_iff in Hg as [H0 R]. apply Nat.eqb_eq in H0. split; [exact R|]. apply (Hd H0 R).
Qed.

(* uniqueness of the winner, by index *)
Lemma winner_unique s i j a b : Inv s -> nth_error (thr s) i = Some a -> nth_error (thr s) j = Some b ->
  is_winner a = true -> is_winner b = true -> i = j.
Proof.
  intros (_ & _ & C & _) Ha Hb Wa Wb. destruct (Nat.eq_dec i j) as [|N]; auto. exfalso.
  pose proof (cnt_two is_winner _ _ _ _ _ N Ha Hb Wa Wb). destruct (rclosed s); lia.
Qed.
Lemma winner_rclosed s i p : Inv s -> nth_error (thr s) i = Some (TK p) -> is_winner (TK p) = true -> rclosed s = true.
Proof. intros (_ & _ & C & _) E W. destruct (rclosed s); auto. exfalso.
  pose proof (cnt_pos_in is_winner _ _ (nth_error_In _ _ E) W). lia. Qed.

(* Generic thread-update lemma.  [t'] replaces [t] at index [i]; the log and the counters
   are those of [s] (already updated by the caller). *)
Lemma inv_thr s i t t' :
  Inv s -> nth_error (thr s) i = Some t ->
  (forall p, t' = TK p -> kok s p) ->
  is_winner t' = is_winner t ->
  (forall p, t' = TK p -> past_wait p = true -> forall q, In (TT q) (thr s) -> q = TExit) ->
  (forall q, t' = TT q -> q <> TExit -> forall p, In (TK p) (thr s) -> past_wait p = false) ->
  (t' = TK KCloser -> exists l, log s = EFlush :: l /\ no_closer l) ->
  (t' = TK KRet -> exists l, log s = ECloser :: EFlush :: l /\ no_closer l) ->
  (t = TK KRet -> t' = TK KRet) ->
  Inv (set_thr s i t').
Proof.
  intros (A & B & C & D & E & F1 & F2 & F3 & Gn) Et K W P1 P2 G1 G2 G3.
  unfold Inv; cbn [ctrs rclosed dclosed gone log thr set_thr].
  split; [exact A|]. split.
  { intros p Hp. apply in_upd in Hp as [Hp|Hp]; [symmetry in Hp; apply (kok_ext s); auto|apply (kok_ext s); auto]. }
  split.
  { pose proof (cnt_upd is_winner _ _ _ t' Et) as L. rewrite W in L. rewrite <- C. destruct (is_winner t); lia. }
  split.
  { intros p Hp Pw q Hq. apply in_upd in Hp as [Hp|Hp]; apply in_upd in Hq as [Hq|Hq].
    - congruence.
    - symmetry in Hp. eapply P1; eauto.
    - symmetry in Hq. destruct q; auto; exfalso;
        assert (past_wait p = false) by (eapply P2; eauto; discriminate); congruence.
    - eapply D; eauto. }
  split; [exact E|]. split.
  { intros Hp. apply in_upd in Hp as [Hp|Hp]; [symmetry in Hp; auto|auto]. }
  split.
  { intros Hp. apply in_upd in Hp as [Hp|Hp]; [symmetry in Hp; auto|auto]. }
  split.
  { intros Hn. apply F3. intros Hr. apply Hn.
    apply In_nth_error in Hr as [j Hj]. destruct (Nat.eq_dec i j) as [<-|N].
    - rewrite Et in Hj. inversion Hj; subst. rewrite (G3 eq_refl).
      eapply nth_error_In. eapply nth_error_upd_same; eauto.
    - eapply nth_error_In. rewrite nth_error_upd_other; eauto. }
  { exact Gn. }
Qed.

(* logging while no closer is past the wait: the log-shape clauses are vacuous *)
Lemma inv_log_early s e : Inv s -> e <> ECloser ->
  (forall p, In (TK p) (thr s) -> past_wait p = false) -> Inv (with_log s e).
Proof.
  intros (A & B & C & D & E & F1 & F2 & F3 & Gn) Ne NP.
  unfold Inv; cbn [ctrs rclosed dclosed gone log thr with_log]. repeat split; auto.
  - apply A. - apply A.
  - intros Hp. specialize (NP _ Hp). discriminate.
  - intros Hp. specialize (NP _ Hp). discriminate.
  - intros Hn [Q|Q]; [congruence|]. revert Q. apply F3. intros Hr. specialize (NP _ Hr). discriminate.
  - apply Gn, H.
  - apply Gn, H.
Qed.

Ltac tt_step I0 E NP :=
  eapply inv_thr; [exact I0 | exact E
    | intros ? Hp; discriminate Hp
    | reflexivity
    | intros ? Hp; discriminate Hp
    | intros q0 Hq Nq p0 Hp0; first [ inversion Hq; subst; congruence | eapply NP; eauto; discriminate ]
    | intros Hp; discriminate Hp
    | intros Hp; discriminate Hp
    | intros Hp; discriminate Hp ].

Lemma no_past_wait s i q : Inv s -> nth_error (thr s) i = Some (TT q) -> q <> TExit ->
  forall p, In (TK p) (thr s) -> past_wait p = false.
Proof. intros (_ & _ & _ & D & _) E N p Hp. destruct (past_wait p) eqn:Q; auto.
  exfalso. apply N. eapply D; eauto. eapply nth_error_In; eauto. Qed.

(* the winner at index i: every other closer thread is not a winner *)
Lemma others_not_winner s i p : Inv s -> nth_error (thr s) i = Some (TK p) -> is_winner (TK p) = true ->
  forall j t, j <> i -> nth_error (thr s) j = Some t -> is_winner t = false.
Proof.
  intros I E W j t N Hj. destruct (is_winner t) eqn:Wt; auto. exfalso. apply N. symmetry.
  eapply (winner_unique s i j); eauto.
Qed.

Lemma step_inv s pk : Inv s -> Inv (step s pk).
Proof.
  intros I. destruct pk as [[i ch] order]. unfold step.
  destruct (nth_error (thr s) i) as [t|] eqn:E; [|exact I].
  destruct t as [q|p|[o [|n]]]; try exact I.
  - (* ticker *)
    assert (NP : q <> TExit -> forall p, In (TK p) (thr s) -> past_wait p = false) by (intros; eapply no_past_wait; eauto).
    destruct q as [ | | | [|o rest] | ]; try exact I.
    + destruct ch; [|destruct (dclosed s)]; tt_step I E NP.
    + destruct (rclosed s); tt_step I E NP.
    + destruct (covers (gone s) order (length (ctrs s))); [|exact I].
      destruct order as [|o1 order].
      * assert (NP' := NP ltac:(discriminate)).
        assert (I1 : Inv (with_log s EFlush)) by (apply inv_log_early; auto; discriminate).
        tt_step I1 E NP.
      * tt_step I E NP.
    + assert (NP' := NP ltac:(discriminate)).
      assert (I1 : Inv (with_log s EFlush)) by (apply inv_log_early; auto; discriminate).
      tt_step I1 E NP.
    + assert (NP' := NP ltac:(discriminate)).
      assert (I0 : Inv (with_log (with_ctr s o report1) (EDeliver o (pending s o)))).
      { apply inv_log_early; [apply inv_ctr; auto; apply good_report|discriminate|exact NP']. }
      assert (I1 : Inv (mark_gone (with_log (with_ctr s o report1) (EDeliver o (pending s o))) o)).
      { apply inv_mark_gone; [exact I0|]. intros -> _. unfold done_obj.
        change (ctrs (with_log (with_ctr s 0 report1) (EDeliver 0 (pending s 0)))) with (ctrs (with_ctr s 0 report1)).
        rewrite nth_with_ctr. cbn [Nat.eqb andb]. destruct I as (A & _). destruct (A 0) as [X Y].
        destruct (ctrs s) as [|c0 cl] eqn:Ec; cbn in *; lia. }
      destruct rest as [|o2 rest].
      * assert (I2 : Inv (with_log (mark_gone (with_log (with_ctr s o report1) (EDeliver o (pending s o))) o) EFlush))
          by (apply inv_log_early; auto; discriminate).
        tt_step I2 E NP.
      * tt_step I1 E NP.
  - (* closer *)
    destruct p as [ | | | | [|o rest] | | | ]; try exact I.
    + (* KIdle: CAS *)
      destruct (rclosed s) eqn:R.
      * eapply inv_thr; [exact I | exact E | intros p Hp; inversion Hp; exact Logic.I | reflexivity
          | intros p Hp Pw; inversion Hp; subst; discriminate | intros ? Hq; discriminate Hq
          | intros Hp; discriminate Hp | intros Hp; discriminate Hp | intros Hp; discriminate Hp ].
      * destruct I as (A & B & C & D & F & F1 & F2 & F3 & Gn). rewrite R in C.
        assert (NW : forall p, In (TK p) (thr s) -> is_winner (TK p) = false).
        { intros p Hp. destruct (is_winner (TK p)) eqn:W; auto. exfalso.
          pose proof (cnt_pos_in is_winner _ _ Hp W). lia. }
        pose proof (cnt_upd is_winner _ _ _ (TK KCas) E) as L. cbn in L.
        unfold Inv; cbn [ctrs rclosed dclosed gone log thr set_thr].
        split.
        { intros o. destruct (Nat.lt_ge_cases o (length (ctrs s))) as [Lo|Lo].
          - rewrite (nth_indep _ dflt (mark1 dflt)) by (rewrite map_length; auto). rewrite map_nth.
            destruct (A o) as [X Y]. unfold ctr_ok, mark1; cbn. lia.
          - rewrite nth_overflow by (rewrite map_length; auto). unfold ctr_ok; cbn; lia. }
        split.
        { intros p Hp. apply in_upd in Hp as [Hp|Hp]; [inversion Hp; exact Logic.I|].
          specialize (NW p Hp). destruct p; cbn in NW; try discriminate; exact Logic.I. }
        split; [lia|]. split.
        { intros p Hp Pw. apply in_upd in Hp as [Hp|Hp]; [inversion Hp; subst; discriminate|].
          specialize (NW p Hp). destruct p; cbn in NW, Pw; discriminate. }
        split; [intros _; reflexivity|]. split.
        { intros Hp. apply in_upd in Hp as [Hp|Hp]; [discriminate|]. specialize (NW _ Hp). discriminate. }
        split.
        { intros Hp. apply in_upd in Hp as [Hp|Hp]; [discriminate|]. specialize (NW _ Hp). discriminate. }
        split.
        { intros _. apply F3. intros Hr. specialize (NW _ Hr). discriminate. }
        { intros Hg. destruct (Gn Hg) as [R' _]. congruence. }
    + (* KCas: close(done) *)
      assert (R : rclosed s = true) by (eapply winner_rclosed; eauto).
      assert (ONW := others_not_winner s i KCas I E eq_refl).
      destruct I as (A & B & C & D & F & F1 & F2 & F3 & Gn).
      pose proof (cnt_upd is_winner _ _ _ (TK KWait) E) as L. cbn in L.
      unfold Inv; cbn [ctrs rclosed dclosed gone log thr set_thr].
      split; [exact A|]. split.
      { intros p Hp. apply in_upd in Hp as [Hp|Hp]; [inversion Hp; exact Logic.I|]. apply (kok_ext s); auto. }
      split; [lia|]. split.
      { intros p Hp Pw q Hq. apply in_upd in Hp as [Hp|Hp]; [inversion Hp; subst; discriminate|].
        apply in_upd in Hq as [Hq|Hq]; [discriminate|]. eapply D; eauto. }
      split; [intros _; exact R|]. split.
      { intros Hp. apply in_upd_idx in Hp as [Hp|(j & Nj & Hj)]; [discriminate|].
        specialize (ONW j _ Nj Hj). discriminate. }
      split.
      { intros Hp. apply in_upd_idx in Hp as [Hp|(j & Nj & Hj)]; [discriminate|].
        specialize (ONW j _ Nj Hj). discriminate. }
      split.
      { intros _. apply F3. intros Hr. apply In_nth_error in Hr as [j Hj].
        destruct (Nat.eq_dec j i) as [->|Nj]; [rewrite E in Hj; discriminate|].
        specialize (ONW j _ Nj Hj). discriminate. }
      { exact Gn. }
    + (* KWait: wg.Wait() *)
      destruct (ticker_exited s) eqn:T; [|exact I].
      eapply inv_thr; [exact I | exact E | intros p Hp; inversion Hp; exact Logic.I | reflexivity
          | | intros ? Hq; discriminate Hq
          | intros Hp; discriminate Hp | intros Hp; discriminate Hp | intros Hp; discriminate Hp ].
      intros p Hp Pw q Hq. eapply ticker_exited_all; eauto.
    + (* KStart: the final pass begins *)
      destruct (covers (gone s) order (length (ctrs s))) eqn:Cv; [|exact I].
      assert (Kcov : forall o, o < length (ctrs s) -> ~ In o order -> done_obj s o).
      { intros o Ho Hn. destruct (covers_in _ _ _ _ Cv Ho) as [Hi|[Hg ->]]; [contradiction|].
        destruct I as (_ & _ & _ & _ & _ & _ & _ & _ & Gn). apply Gn, Hg. }
      destruct order as [|o1 order].
      * (* nothing registered any more: only the Flush *)
        assert (ONW := others_not_winner s i KStart I E eq_refl).
        assert (Hin := nth_error_In _ _ E).
        assert (I1 : Inv (with_log s EFlush)).
        { destruct I as (A & B & C & D & F & F1 & F2 & F3 & Gn).
          unfold Inv; cbn [ctrs rclosed dclosed gone log thr with_log].
          split; [exact A|]. split; [exact B|]. split; [exact C|]. split; [exact D|]. split; [exact F|].
          split.
          { intros Hp. exfalso. apply In_nth_error in Hp as [j Hj].
            destruct (Nat.eq_dec j i) as [->|Nj]; [rewrite E in Hj; discriminate|]. specialize (ONW j _ Nj Hj). discriminate. }
          split.
          { intros Hp. exfalso. apply In_nth_error in Hp as [j Hj].
            destruct (Nat.eq_dec j i) as [->|Nj]; [rewrite E in Hj; discriminate|]. specialize (ONW j _ Nj Hj). discriminate. }
          split; [|exact Gn].
          intros Hn [Q|Q]; [discriminate|]. revert Q. apply F3; auto. }
        destruct I as (A & B & C & D & F & F1 & F2 & F3 & Gn).
        eapply inv_thr; [exact I1 | exact E | | reflexivity
          | | intros ? Hq; discriminate Hq
          | | intros Hp; discriminate Hp | intros Hp; discriminate Hp ].
        -- intros p Hp. inversion Hp; subst. cbn [kok]. intros o Ho. apply (Kcov o Ho). intros [].
        -- intros p Hp Pw q Hq. eapply (D KStart); eauto.
        -- intros _. exists (log s). split; [reflexivity|]. apply F3.
           intros Hr. apply In_nth_error in Hr as [j Hj].
           destruct (Nat.eq_dec j i) as [->|Nj]; [rewrite E in Hj; discriminate|]. specialize (ONW j _ Nj Hj). discriminate.
      * eapply inv_thr; [exact I | exact E | | reflexivity
          | | intros ? Hq; discriminate Hq
          | intros Hp; discriminate Hp | intros Hp; discriminate Hp | intros Hp; discriminate Hp ].
        -- intros p Hp. inversion Hp; subst. cbn. exact Kcov.
        -- intros p Hp Pw q Hq. destruct I as (_ & _ & _ & D & _). eapply (D KStart); eauto. eapply nth_error_In; eauto.
    + (* KPass []: only reachable with no registered scope *)
      assert (ONW := others_not_winner s i (KPass []) I E eq_refl).
      assert (Hin := nth_error_In _ _ E).
      assert (I1 : Inv (with_log s EFlush)).
      { destruct I as (A & B & C & D & F & F1 & F2 & F3 & Gn).
        unfold Inv; cbn [ctrs rclosed dclosed gone log thr with_log].
        split; [exact A|]. split; [exact B|]. split; [exact C|]. split; [exact D|]. split; [exact F|].
        split.
        { intros Hp. exfalso. apply In_nth_error in Hp as [j Hj].
          destruct (Nat.eq_dec j i) as [->|Nj]; [rewrite E in Hj; discriminate|]. specialize (ONW j _ Nj Hj). discriminate. }
        split.
        { intros Hp. exfalso. apply In_nth_error in Hp as [j Hj].
          destruct (Nat.eq_dec j i) as [->|Nj]; [rewrite E in Hj; discriminate|]. specialize (ONW j _ Nj Hj). discriminate. }
        split; [|exact Gn].
        intros Hn [Q|Q]; [discriminate|]. revert Q. apply F3; auto. }
      destruct I as (A & B & C & D & F & F1 & F2 & F3 & Gn).
      eapply inv_thr; [exact I1 | exact E | | reflexivity
          | | intros ? Hq; discriminate Hq
          | | intros Hp; discriminate Hp | intros Hp; discriminate Hp ].
      * intros p Hp. inversion Hp; subst. cbn [kok]. intros o Ho. apply (B (KPass []) Hin o Ho). intros [].
      * intros p Hp Pw q Hq. eapply (D (KPass [])); eauto.
      * intros _. exists (log s). split; [reflexivity|]. apply F3.
        intros Hr. apply In_nth_error in Hr as [j Hj].
        destruct (Nat.eq_dec j i) as [->|Nj]; [rewrite E in Hj; discriminate|]. specialize (ONW j _ Nj Hj). discriminate.
    + (* KPass (o :: rest): report one scope *)
      assert (ONW := others_not_winner s i (KPass (o :: rest)) I E eq_refl).
      assert (Hin := nth_error_In _ _ E).
      assert (NoRet : ~ In (TK KRet) (thr s)).
      { intros Hr. apply In_nth_error in Hr as [j Hj].
        destruct (Nat.eq_dec j i) as [->|Nj]; [rewrite E in Hj; discriminate|]. specialize (ONW j _ Nj Hj). discriminate. }
      assert (NoCl : ~ In (TK KCloser) (thr s)).
      { intros Hr. apply In_nth_error in Hr as [j Hj].
        destruct (Nat.eq_dec j i) as [->|Nj]; [rewrite E in Hj; discriminate|]. specialize (ONW j _ Nj Hj). discriminate. }
      assert (Ilog : forall s0 e, Inv s0 -> thr s0 = thr s -> e <> ECloser -> Inv (with_log s0 e)).
      { intros s0 e (A & B & C & D & F & F1 & F2 & F3 & Gn) Ht Ne.
        split; [exact A|]. split; [exact B|]. split; [exact C|]. split; [exact D|]. split; [exact F|].
        split; [intros Hp; exfalso; change (thr (with_log s0 e)) with (thr s0) in Hp; rewrite Ht in Hp; auto|].
        split; [intros Hp; exfalso; change (thr (with_log s0 e)) with (thr s0) in Hp; rewrite Ht in Hp; auto|].
        split; [|exact Gn].
        intros Hn [Q|Q]; [congruence|]. revert Q. apply F3; auto. }
      assert (I0 : Inv (with_ctr s o report1)) by (apply inv_ctr; auto; apply good_report).
      assert (I1 : Inv (with_log (with_ctr s o report1) (EDeliver o (pending s o)))) by (apply Ilog; auto; discriminate).
      assert (Kdone : forall j, j < length (ctrs s) -> ~ In j rest ->
                done_obj (with_ctr s o report1) j).
      { intros j Hj Hn. destruct I as (A & B & _).
        destruct (Nat.eq_dec j o) as [->|N].
        - unfold done_obj. rewrite nth_with_ctr, Nat.eqb_refl.
          replace (o <? length (ctrs s)) with true by (symmetry; apply Nat.ltb_lt; auto).
          destruct (A o) as [X Y]. cbn. lia.
        - apply done_obj_good; [apply good_report|exact A|].
          apply (B (KPass (o :: rest)) Hin j Hj). intros [Q|Q]; [congruence|auto]. }
      destruct rest as [|o2 rest].
      * assert (I2 : Inv (with_log (with_log (with_ctr s o report1) (EDeliver o (pending s o))) EFlush))
          by (apply Ilog; auto; discriminate).
        destruct I as (A & B & C & D & F & F1 & F2 & F3 & Gn).
        eapply inv_thr; [exact I2 | exact E | | reflexivity
          | | intros ? Hq; discriminate Hq
          | | intros Hp; discriminate Hp | intros Hp; discriminate Hp ].
        -- intros p Hp. inversion Hp; subst. cbn [kok]. intros j Hj.
           change (ctrs (with_log (with_log (with_ctr s o report1) (EDeliver o (pending s o))) EFlush))
             with (ctrs (with_ctr s o report1)) in Hj. rewrite len_with_ctr in Hj.
           apply (Kdone j Hj). intros [].
        -- intros p Hp Pw q Hq. eapply (D (KPass [o])); eauto.
        -- intros _. eexists. split; [reflexivity|].
           intros [Q|Q]; [discriminate|]. revert Q. apply F3; auto.
      * destruct I as (A & B & C & D & F & F1 & F2 & F3 & Gn).
        eapply inv_thr; [exact I1 | exact E | | reflexivity
          | | intros ? Hq; discriminate Hq
          | intros Hp; discriminate Hp | intros Hp; discriminate Hp | intros Hp; discriminate Hp ].
        -- intros p Hp. inversion Hp; subst. cbn [kok]. intros j Hj Hn.
           change (ctrs (with_log (with_ctr s o report1) (EDeliver o (pending s o))))
             with (ctrs (with_ctr s o report1)) in Hj. rewrite len_with_ctr in Hj.
           apply (Kdone j Hj Hn).
        -- intros p Hp Pw q Hq. eapply (D (KPass (o :: o2 :: rest))); eauto.
    + (* KCloser: purge; reporter.Close(); return *)
      assert (ONW := others_not_winner s i KCloser I E eq_refl).
      assert (Hin := nth_error_In _ _ E).
      destruct I as (A & B & C & D & F & F1 & F2 & F3 & Gn).
      destruct (F1 Hin) as (l & Hl & Nl).
      pose proof (cnt_upd is_winner _ _ _ (TK KRet) E) as L. cbn in L.
      unfold Inv; cbn [ctrs rclosed dclosed gone log thr set_thr with_log].
      split; [exact A|]. split.
      { intros p Hp. apply in_upd in Hp as [Hp|Hp].
        - inversion Hp; subst. apply (kok_ext s); auto. apply (B KCloser Hin).
        - apply (kok_ext s); auto. }
      split; [lia|]. split.
      { intros p Hp Pw q Hq. apply in_upd in Hq as [Hq|Hq]; [discriminate|].
        apply in_upd in Hp as [Hp|Hp].
        - eapply (D KCloser); eauto.
        - eapply D; eauto. }
      split; [exact F|]. split.
      { intros Hp. exfalso. apply in_upd_idx in Hp as [Hp|(j & Nj & Hj)]; [discriminate|].
        specialize (ONW j _ Nj Hj). discriminate. }
      split.
      { intros _. exists l. rewrite Hl. split; [reflexivity|exact Nl]. }
      split.
      { intros Hn. exfalso. apply Hn. eapply nth_error_In. eapply nth_error_upd_same; eauto. }
      { exact Gn. }
  - (* application increment *)
    assert (I1 : Inv (with_ctr s o inc1)) by (apply inv_ctr; auto; apply good_inc).
    eapply inv_thr; [exact I1 | exact E | intros ? Hp; discriminate Hp | reflexivity | intros ? Hp; discriminate Hp
          | intros ? Hq; discriminate Hq | intros Hp; discriminate Hp | intros Hp; discriminate Hp | intros Hp; discriminate Hp ].
Qed.

Lemma run_inv sched : forall s, Inv s -> Inv (run s sched).
Proof. induction sched as [|pk sched IH]; cbn; intros s I; auto. apply IH, step_inv, I. Qed.

Definition initial (t : thread) : Prop :=
  match t with TT TWait | TK KIdle | TA _ => True | _ => False end.

Lemma inv_initial cs ths : (forall t, In t ths -> initial t) -> Inv (init cs ths).
Proof.
  intros H. unfold Inv, init; cbn [ctrs rclosed dclosed gone log thr].
  split.
  { intros o. destruct (Nat.lt_ge_cases o (length cs)) as [L|L].
    - rewrite (nth_indep _ dflt (mk 0)) by (rewrite map_length; auto).
      rewrite map_nth. unfold ctr_ok, mk; cbn; lia.
    - rewrite nth_overflow by (rewrite map_length; auto). unfold ctr_ok; cbn; lia. }
  split.
  { intros p Hp. specialize (H _ Hp). destruct p; cbn in H; try tauto; exact I. }
  split.
  { unfold cnt. induction ths as [|h l IH]; cbn; auto.
    assert (is_winner h = false).
    { specialize (H h (or_introl eq_refl)). destruct h as [q|p|a]; cbn in *; auto. destruct p; tauto. }
    rewrite H0. apply IH. intros; apply H; right; auto. }
  split.
  { intros p Hp Pw. specialize (H _ Hp). destruct p; cbn in *; try tauto; discriminate. }
  split; [discriminate|]. split.
  { intros Hp. specialize (H _ Hp). cbn in H. tauto. }
  split.
  { intros Hp. specialize (H _ Hp). cbn in H. tauto. }
  split.
  { intros _ []. }
  { discriminate. }
Qed.

(* when the Close that performs the shutdown has returned, everything applied before it was
   called has been delivered, the loop goroutine has ended, and the log ends with the final
   flush followed by the one and only reporter close *)
Lemma all_delivered_before_return cs ths sched :
  (forall t, In t ths -> initial t) ->
  let s := run (init cs ths) sched in
  In (TK KRet) (thr s) ->
  (forall o, o < length (ctrs s) -> mark (nth o (ctrs s) dflt) <= delivered (nth o (ctrs s) dflt)) /\
  (forall q, In (TT q) (thr s) -> q = TExit) /\
  (exists l, log s = ECloser :: EFlush :: l /\ ~ In ECloser l).
Proof.
  intros H s R. destruct (run_inv sched _ (inv_initial cs ths H)) as (A & B & C & D & F & F1 & F2 & F3 & Gn).
  fold s in A, B, C, D, F, F1, F2, F3.
  split; [apply (B KRet R)|]. split; [intros q Hq; eapply (D KRet); eauto|]. apply F2, R.
Qed.

(* once it has returned no step of any thread adds a delivery, a flush or a reporter close *)
Lemma nothing_after_return cs ths sched pk :
  (forall t, In t ths -> initial t) ->
  let s := run (init cs ths) sched in
  In (TK KRet) (thr s) -> log (step s pk) = log s.
Proof.
  intros H s R. pose proof (run_inv sched _ (inv_initial cs ths H)) as I. fold s in I.
  destruct I as (A & B & C & D & F & F1 & F2 & F3 & Gn).
  assert (RC : rclosed s = true).
  { destruct (rclosed s); auto. exfalso. pose proof (cnt_pos_in is_winner _ _ R eq_refl). lia. }
  rewrite RC in C.
  destruct pk as [[i ch] order]. unfold step. destruct (nth_error (thr s) i) as [t|] eqn:E; auto.
  assert (Hin : In t (thr s)) by (eapply nth_error_In; eauto).
  destruct t as [q|p|[o [|n]]]; auto.
  - rewrite (D KRet R eq_refl q Hin). reflexivity.
  - assert (NW : p = KRet \/ is_winner (TK p) = false).
    { destruct (is_winner (TK p)) eqn:W; auto. left.
      apply In_nth_error in R as [j Hj].
      destruct (Nat.eq_dec i j) as [<-|N]; [rewrite E in Hj; inversion Hj; reflexivity|].
      exfalso. pose proof (cnt_two is_winner _ _ _ _ _ N E Hj W eq_refl). lia. }
    destruct NW as [->|NW]; auto.
    destruct p; cbn in NW; try discriminate; auto. rewrite RC. reflexivity.
Qed.

(* a later Close call (made by a thread that has not yet called it) returns without effect *)
Lemma later_close_noop s i ch order :
  rclosed s = true -> nth_error (thr s) i = Some (TK KIdle) ->
  step s (i, ch, order) = set_thr s i (TK KLoser).
Proof. intros R E. unfold step. rewrite E, R. reflexivity. Qed.
