From Coq Require Import ZArith List Bool Lia Arith.
From Tally Require Import Base.ObsCore Model.Multi.
Import ListNotations.
Open Scope Z_scope.

(* what every child is expected to see for one call on the multi reporter,
   given the number of composite handles / buckets allocated before it *)
Definition view (nh nb : nat) (o : op) : option ev :=
  match o with
  | OPlain c => Some c
  | OAlloc k args strs => Some (Ev k (Z.of_nat nh :: args) strs)
  | ORep k h v => if Nat.ltb h nh then Some (Ev k [Z.of_nat h; v] []) else None
  | OBucket k h lo hi =>
      if Nat.ltb h nh then Some (Ev k [Z.of_nat h; lo; hi; Z.of_nat nb] []) else None
  | OSamples b v => if Nat.ltb b nb then Some (Ev 26 [Z.of_nat b; v] []) else None
  end.

Definition next_nh (nh : nat) (o : op) : nat :=
  match o with OAlloc _ _ _ => S nh | _ => nh end.
Definition next_nb (nh nb : nat) (o : op) : nat :=
  match o with OBucket _ h _ _ => if Nat.ltb h nh then S nb else nb | _ => nb end.

Definition fan (n : nat) (e : option ev) : list (nat * ev) :=
  match e with Some e => map (fun i => (i, e)) (seq 0 n) | None => [] end.

Fixpoint spec_from (nh nb n : nat) (ops : list op) : list (nat * ev) :=
  match ops with
  | [] => []
  | o :: r => fan n (view nh nb o) ++ spec_from (next_nh nh o) (next_nb nh nb o) n r
  end.

(* per child: the sequence of views, in order *)
Fixpoint views_from (nh nb : nat) (ops : list op) : list ev :=
  match ops with
  | [] => []
  | o :: r => (match view nh nb o with Some e => [e] | None => [] end)
              ++ views_from (next_nh nh o) (next_nb nh nb o) r
  end.

Definition Inv (s : mstate) (nh nb n : nat) : Prop :=
  kids s = repeat (Child (Z.of_nat nh) (Z.of_nat nb)) n /\
  mh s = map (fun h => repeat (Z.of_nat h) n) (seq 0 nh) /\
  mb s = map (fun b => repeat (Z.of_nat b) n) (seq 0 nb).

Lemma tag_from_map_const {A} (e : ev) (l : list A) i :
  tag_from i (map (fun _ => e) l) = map (fun j => (j, e)) (seq i (length l)).
Proof. revert i; induction l as [|x l IH]; intro i; cbn; [reflexivity|]. now rewrite IH. Qed.

Lemma map_repeat {A B} (f : A -> B) x n : map f (repeat x n) = repeat (f x) n.
Proof. induction n; cbn; congruence. Qed.

Lemma tag_from_repeat e n i : tag_from i (repeat e n) = map (fun j => (j, e)) (seq i n).
Proof. revert i; induction n as [|n IH]; intro i; cbn; [reflexivity|]. now rewrite IH. Qed.

Lemma zip_repeat {A B C} (f : A -> B -> C) x y n :
  zip_with f (repeat x n) (repeat y n) = repeat (f x y) n.
Proof. induction n; cbn; congruence. Qed.

Lemma nth_error_mapseq {A} (f : nat -> A) n h :
  nth_error (map f (seq 0 n)) h = if Nat.ltb h n then Some (f h) else None.
Proof.
  destruct (Nat.ltb_spec h n) as [Hlt|Hge].
  - rewrite nth_error_map. rewrite (nth_error_nth' _ 0%nat) by (now rewrite seq_length).
    cbn. now rewrite seq_nth.
  - apply nth_error_None. now rewrite map_length, seq_length.
Qed.

Lemma mapseq_snoc {A} (f : nat -> A) n : map f (seq 0 n) ++ [f n] = map f (seq 0 (S n)).
Proof. rewrite seq_S, map_app. reflexivity. Qed.

Lemma step_inv s nh nb n o :
  Inv s nh nb n ->
  Inv (step s o) (next_nh nh o) (next_nb nh nb o) n /\
  glog (step s o) = glog s ++ fan n (view nh nb o).
Proof.
  intros (Hk & Hh & Hb). destruct o as [c|k args strs|k h v|k h lo hi|b v]; cbn [step view next_nh next_nb].
  - split; [repeat split; assumption|]. cbn [glog fan]. rewrite Hk, map_repeat, tag_from_repeat. reflexivity.
  - split.
    + repeat split; cbn [kids mh mb]; try assumption.
      * rewrite Hk, map_repeat. cbn [cnh cnb]. f_equal. f_equal. lia.
      * rewrite Hk, map_repeat, Hh. cbn [cnh]. apply (mapseq_snoc (fun h => repeat (Z.of_nat h) n)).
    + cbn [glog fan]. rewrite Hk, map_repeat, tag_from_repeat. reflexivity.
  - rewrite Hh, nth_error_mapseq. destruct (Nat.ltb h nh); cbn [fan].
    + split; [repeat split; assumption|]. cbn [glog]. rewrite map_repeat, tag_from_repeat. reflexivity.
    + split; [repeat split; assumption| now rewrite app_nil_r].
  - rewrite Hh, nth_error_mapseq. destruct (Nat.ltb h nh); cbn [fan].
    + split.
      * repeat split; cbn [kids mh mb]; try assumption.
        -- rewrite Hk, map_repeat. cbn [cnh cnb]. f_equal. f_equal. lia.
        -- rewrite Hk, map_repeat, Hb. cbn [cnb]. apply (mapseq_snoc (fun b => repeat (Z.of_nat b) n)).
      * cbn [glog]. rewrite Hk, zip_repeat, tag_from_repeat. reflexivity.
    + split; [repeat split; assumption| now rewrite app_nil_r].
  - rewrite Hb, nth_error_mapseq. destruct (Nat.ltb b nb); cbn [fan].
    + split; [repeat split; assumption|]. cbn [glog]. rewrite map_repeat, tag_from_repeat. reflexivity.
    + split; [repeat split; assumption| now rewrite app_nil_r].
Qed.

Lemma run_from s nh nb n ops :
  Inv s nh nb n ->
  glog (fold_left step ops s) = glog s ++ spec_from nh nb n ops.
Proof.
  revert s nh nb; induction ops as [|o r IH]; intros s nh nb HI; cbn [fold_left spec_from].
  - now rewrite app_nil_r.
  - destruct (step_inv s nh nb n o HI) as [HI' Hg].
    rewrite (IH _ _ _ HI'), Hg, app_assoc. reflexivity.
Qed.

Lemma init_inv n : Inv (init n) 0 0 n.
Proof. repeat split. Qed.

(* every call reaches every child exactly once, children in the order given,
   calls in the order made, with the arguments (and the child's own handle)
   it was made with *)
Lemma fanout n ops : glog (run n ops) = spec_from 0 0 n ops.
Proof. unfold run. rewrite (run_from _ 0%nat 0%nat n ops (init_inv n)). reflexivity. Qed.

Lemma filter_fan i n e :
  (i < n)%nat ->
  map snd (filter (fun p : nat * ev => Nat.eqb (fst p) i) (fan n e)) =
  match e with Some e => [e] | None => [] end.
Proof.
  intros Hi. destruct e as [e|]; [|reflexivity]. cbn [fan].
  assert (forall a m, (a <= i < a + m)%nat ->
            map snd (filter (fun p : nat * ev => Nat.eqb (fst p) i)
                            (map (fun j => (j, e)) (seq a m))) = [e]) as Hgen.
  { intros a m; revert a; induction m as [|m IH]; intros a Ha; [lia|].
    cbn [seq map filter fst]. destruct (Nat.eqb_spec a i) as [->|Hne].
    - cbn [map snd]. f_equal.
      assert (forall b k, (i < b)%nat ->
         map snd (filter (fun p : nat * ev => Nat.eqb (fst p) i)
                         (map (fun j => (j, e)) (seq b k))) = []) as Hnone.
      { intros b k; revert b; induction k as [|k IHk]; intros b Hb; [reflexivity|].
        cbn [seq map filter fst]. destruct (Nat.eqb_spec b i); [lia|]. apply IHk; lia. }
      apply Hnone; lia.
    - apply IH; lia. }
  apply Hgen; lia.
Qed.

Lemma filter_spec_from i n nh nb ops :
  (i < n)%nat ->
  map snd (filter (fun p : nat * ev => Nat.eqb (fst p) i) (spec_from nh nb n ops)) =
  views_from nh nb ops.
Proof.
  intros Hi; revert nh nb; induction ops as [|o r IH]; intros nh nb; cbn [spec_from views_from]; [reflexivity|].
  rewrite filter_app, map_app, IH, (filter_fan i n _ Hi). reflexivity.
Qed.

Lemma child_sees_history n ops i :
  (i < n)%nat -> child_log i (run n ops) = views_from 0 0 ops.
Proof. intros Hi. unfold child_log. rewrite fanout. apply filter_spec_from, Hi. Qed.

Lemma spec_from_no_children nh nb ops : spec_from nh nb 0 ops = [].
Proof.
  revert nh nb; induction ops as [|o r IH]; intros nh nb; cbn [spec_from]; [reflexivity|].
  rewrite IH. destruct (view nh nb o); reflexivity.
Qed.

Lemma no_children_accepts ops : glog (run 0 ops) = [].
Proof. rewrite fanout. apply spec_from_no_children. Qed.

Lemma caps_conj cs :
  fst (caps cs) = true <-> (forall c, In c cs -> fst c = true).
Proof. unfold caps; cbn. rewrite forallb_forall. reflexivity. Qed.
Lemma caps_conj_tag cs :
  snd (caps cs) = true <-> (forall c, In c cs -> snd c = true).
Proof. unfold caps; cbn. rewrite forallb_forall. reflexivity. Qed.

(* nesting: reporting on a tree of multi reporters reaches every leaf exactly once, left to
   right - the same calls as one flat multi reporter over all the leaves *)
Lemma tag_from_app i (a b : list ev) : tag_from i (a ++ b) = tag_from i a ++ tag_from (i + length a) b.
Proof.
  revert i; induction a as [|x a IH]; intro i; simpl.
  - rewrite Nat.add_0_r. reflexivity.
  - rewrite IH. do 3 f_equal. rewrite <- plus_n_Sm. reflexivity.
Qed.

Fixpoint rtree_ind' (P : rtree -> Prop) (HL : P Leaf)
  (HN : forall ks, Forall P ks -> P (Node ks)) (t : rtree) : P t :=
  match t with
  | Leaf => HL
  | Node ks => HN ks ((fix go (ks : list rtree) : Forall P ks :=
                         match ks with [] => Forall_nil P | k :: r => Forall_cons k (rtree_ind' P HL HN k) (go r) end) ks)
  end.

Lemma nested_is_flat t : forall i c, deliver t i c = tag_from i (repeat c (leaves t)).
Proof.
  induction t as [|ks IH] using rtree_ind'; intros i c; [reflexivity|].
  simpl. revert i. induction IH as [|k r Hk Hr IHr]; intro i; [reflexivity|].
  rewrite Hk, IHr, repeat_app, tag_from_app, repeat_length. reflexivity.
Qed.
