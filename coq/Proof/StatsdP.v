(* Proofs about the StatsD reporter model (Model/Statsd.v). *)
From Coq Require Import ZArith List Bool Arith Lia Permutation.
From Tally Require Import Model.Buckets Model.Statsd.
Import ListNotations.
Open Scope Z_scope.

(* ---------- stat names ---------- *)
Lemma split_dash : forall a a' b b' : bytes,
  ~ In DASH a -> ~ In DASH a' -> a ++ DASH :: b = a' ++ DASH :: b' -> a = a' /\ b = b'.
Proof.
  induction a as [|x a IH]; intros [|x' a'] b b' Ha Ha' E; cbn in *.
  - inversion E; auto.
  - inversion E; subst. exfalso; apply Ha'; auto.
  - inversion E; subst. exfalso; apply Ha; auto.
  - inversion E; subst. destruct (IH a' b b') as [-> ->]; auto.
Qed.

Lemma stat_injective name lo hi lo' hi' :
  shape lo -> shape lo' -> stat name lo hi = stat name lo' hi' -> lo = lo' /\ hi = hi'.
Proof.
  unfold stat. intros [N1 S1] [N2 S2] E. apply app_inv_head in E. inversion E as [E1]. clear E.
  destruct lo as [|c lo]; [congruence|]. destruct lo' as [|c' lo']; [congruence|]. cbn in *.
  inversion E1; subst. destruct (split_dash lo lo' hi hi') as [-> ->]; auto.
Qed.

Lemma shapeb_spec s : shapeb s = true <-> shape s.
Proof.
  unfold shape. destruct s as [|c r]; cbn.
  - split; [discriminate|]. intros [Hn _]. congruence.
  - rewrite forallb_forall. split.
    + intros Hf. split; [discriminate|]. intros Hin. apply Hf in Hin.
      rewrite Z.eqb_refl in Hin. discriminate.
    + intros [_ Hn] x Hx. destruct (Z.eqb_spec x DASH) as [->|]; [contradiction|reflexivity].
Qed.

Lemma shape_inf : shape INFINITY.
Proof. apply shapeb_spec. reflexivity. Qed.
Lemma shape_ninf : shape NINFINITY.
Proof. apply shapeb_spec. reflexivity. Qed.
Lemma inf_neq_ninf : INFINITY <> NINFINITY.
Proof. discriminate. Qed.

Section WithOracles.
  Variable fmtf : Z -> Z -> bytes.
  Variable fmtd : Z -> bytes.
  Notation vstr := (vstr fmtf).
  Notation dstr := (dstr fmtd).
  Notation bstr := (bstr fmtf fmtd).
  Notation ofmt := (ofmt fmtf fmtd).
  Notation bucket_name := (bucket_name fmtf fmtd).
  Notation the_call := (the_call fmtf fmtd).
  Notation step := (step fmtf fmtd).
  Notation run := (run fmtf fmtd).

  Lemma bstr_shape k p x : shape (ofmt k p x) -> shape (bstr k p x).
  Proof.
    destruct k; cbn; unfold Statsd.vstr, Statsd.dstr; intros Hs.
    - destruct (x =? MAXF); [apply shape_inf|]. destruct (x =? NMAXF); [apply shape_ninf|exact Hs].
    - destruct (x =? MAXI); [apply shape_inf|]. destruct (x =? MINI); [apply shape_ninf|exact Hs].
  Qed.

  Lemma bstr_top k p : bstr k p (top k) = INFINITY.
  Proof. destruct k; reflexivity. Qed.
  Lemma bstr_bottom k p : bstr k p (bottom k) = NINFINITY.
  Proof. destruct k; reflexivity. Qed.

  (* a bound that is not one of the two extreme values is rendered by the oracle *)
  Lemma bstr_interior k p x : x <> top k -> x <> bottom k -> bstr k p x = ofmt k p x.
  Proof.
    destruct k; cbn; unfold Statsd.vstr, Statsd.dstr; intros H1 H2.
    - destruct (Z.eqb_spec x MAXF); [contradiction|]. destruct (Z.eqb_spec x NMAXF); [contradiction|reflexivity].
    - destruct (Z.eqb_spec x MAXI); [contradiction|]. destruct (Z.eqb_spec x MINI); [contradiction|reflexivity].
  Qed.

  Lemma name_injective k p name lo hi lo' hi' :
    shape (bstr k p lo) -> shape (bstr k p lo') ->
    bucket_name k p name lo hi = bucket_name k p name lo' hi' ->
    bstr k p lo = bstr k p lo' /\ bstr k p hi = bstr k p hi'.
  Proof. unfold Statsd.bucket_name. apply stat_injective. Qed.

  (* ---------- one client call per report call ---------- *)
  Lemma step_report c o : is_report o = true -> step c o = [Sent (the_call c o)].
  Proof. destruct o; cbn; intros E; try reflexivity; discriminate. Qed.

  Lemma calls_app a b : calls (a ++ b) = calls a ++ calls b.
  Proof. unfold calls. apply flat_map_app. Qed.
  Lemma capsof_app a b : capsof (a ++ b) = capsof a ++ capsof b.
  Proof. unfold capsof. apply flat_map_app. Qed.

  Lemma calls_run c ops : calls (run c ops) = map (the_call c) (filter is_report ops).
  Proof.
    induction ops as [|o r IH]; [reflexivity|].
    unfold Statsd.run in *. cbn [flat_map]. rewrite calls_app, IH.
    destruct o; reflexivity.
  Qed.

  Lemma run_length c ops : length (calls (run c ops)) = length (filter is_report ops).
  Proof. rewrite calls_run. apply map_length. Qed.

  Lemma capsof_run c ops : Forall (fun rt => rt = (true, false)) (capsof (run c ops)).
  Proof.
    induction ops as [|o r IH]; [constructor|].
    unfold Statsd.run in *. cbn [flat_map]. rewrite capsof_app. apply Forall_app. split; [|exact IH].
    destruct o; cbn; repeat constructor.
  Qed.

  Lemma the_call_rate c o : is_report o = true -> crate (the_call c o) = eff_rate c.
  Proof. destruct o; cbn; intros E; try reflexivity; discriminate. Qed.
  Lemma the_call_notags c o : ctagn (the_call c o) = 0.
  Proof. destruct o; reflexivity. Qed.

  Lemma rate_all c ops : Forall (fun x => crate x = eff_rate c) (calls (run c ops)).
  Proof.
    rewrite calls_run. apply Forall_forall. intros x Hx. apply in_map_iff in Hx as (o & <- & Ho).
    apply filter_In in Ho as [_ Ho]. apply the_call_rate, Ho.
  Qed.
  Lemma notags_all c ops : Forall (fun x => ctagn x = 0) (calls (run c ops)).
  Proof.
    rewrite calls_run. apply Forall_forall. intros x Hx. apply in_map_iff in Hx as (o & <- & Ho).
    apply the_call_notags.
  Qed.

  (* the reporter keeps no state between calls: the multiset of client calls depends
     only on the multiset of report calls, whatever their order / interleaving *)
  Lemma run_perm c ops ops' : Permutation ops ops' ->
    Permutation (calls (run c ops)) (calls (run c ops')).
  Proof.
    intros Hp. rewrite !calls_run. apply Permutation_map.
    induction Hp as [|x l l' _ IH|x y l|l l' l'' _ IH1 _ IH2]; cbn.
    - constructor.
    - destruct (is_report x); [constructor|]; exact IH.
    - destruct (is_report x), (is_report y); try apply Permutation_refl. apply perm_swap.
    - eapply Permutation_trans; eassumption.
  Qed.

  Lemma step_retag c t o : step c (retag t o) = step c o.
  Proof. destruct o; reflexivity. Qed.
  Lemma run_retag c (f : op -> tags) ops : run c (map (fun o => retag (f o) o) ops) = run c ops.
  Proof.
    unfold Statsd.run. induction ops as [|o r IH]; [reflexivity|].
    cbn [map flat_map]. rewrite IH, step_retag. reflexivity.
  Qed.

  (* ---------- the bucket pairs of a specification ---------- *)
  Lemma in_insert lt x y l : In y (insert lt x l) -> y = x \/ In y l.
  Proof.
    induction l as [|z r IH]; cbn.
    - intros [E|[]]; auto.
    - destruct (lt z x); cbn; intros [E|Hi]; auto.
      destruct (IH Hi); auto.
  Qed.
  Lemma in_isort lt y l : In y (isort lt l) -> In y l.
  Proof.
    induction l as [|x r IH]; [auto|].
    change (isort lt (x :: r)) with (insert lt x (isort lt r)).
    intros Hi. apply in_insert in Hi as [E|Hi]; [left; auto|right; auto].
  Qed.
  Lemma insert_length lt x l : length (insert lt x l) = S (length l).
  Proof. induction l as [|z r IH]; cbn; [reflexivity|]. destruct (lt z x); cbn; rewrite ?IH; reflexivity. Qed.
  Lemma isort_length lt l : length (isort lt l) = length l.
  Proof.
    induction l as [|x r IH]; [reflexivity|].
    change (isort lt (x :: r)) with (insert lt x (isort lt r)).
    rewrite insert_length, IH. reflexivity.
  Qed.

  Lemma uppers_length k spec : length (uppers k spec) = S (length spec).
  Proof.
    destruct spec as [|x r]; [reflexivity|]. unfold uppers.
    rewrite app_length, isort_length. cbn. lia.
  Qed.
  Lemma uppers_in k spec x : In x (uppers k spec) -> In x spec \/ x = top k.
  Proof.
    destruct spec as [|y r]; unfold uppers.
    - intros [E|[]]; auto.
    - intros Hi. apply in_app_or in Hi as [Hi|[E|[]]]; auto. left. eapply in_isort, Hi.
  Qed.
  Lemma uppers_last k spec : nth (length spec) (uppers k spec) 0 = top k.
  Proof.
    destruct spec as [|y r]; [reflexivity|]. unfold uppers.
    rewrite app_nth2; rewrite isort_length; [|lia]. rewrite Nat.sub_diag. reflexivity.
  Qed.

  Lemma nth_error_seq0 n i : (i < n)%nat -> nth_error (seq 0 n) i = Some i.
  Proof.
    intros Hi. rewrite (nth_error_nth' _ 0%nat) by (rewrite seq_length; exact Hi).
    rewrite seq_nth by exact Hi. reflexivity.
  Qed.

  Lemma pairs_nth_error_intro k spec i : (i < S (length spec))%nat ->
    nth_error (pairs k spec) i = Some (lower k (uppers k spec) i, nth i (uppers k spec) 0).
  Proof.
    intros Hi. unfold pairs. rewrite <- (uppers_length k) in Hi.
    rewrite nth_error_map, nth_error_seq0 by exact Hi. reflexivity.
  Qed.

  Lemma pairs_nth_error k spec i lo hi :
    nth_error (pairs k spec) i = Some (lo, hi) ->
    (i < S (length spec))%nat /\ lo = lower k (uppers k spec) i /\ hi = nth i (uppers k spec) 0.
  Proof.
    intros E.
    assert (Hl : (i < S (length spec))%nat).
    { assert (H1 : nth_error (pairs k spec) i <> None) by congruence.
      apply nth_error_Some in H1. unfold pairs in H1.
      rewrite map_length, seq_length, uppers_length in H1. exact H1. }
    rewrite pairs_nth_error_intro in E by exact Hl. inversion E. auto.
  Qed.

  Lemma pairs_in k spec lo hi : In (lo, hi) (pairs k spec) ->
    exists i, nth_error (pairs k spec) i = Some (lo, hi).
  Proof. apply In_nth_error. Qed.

  Lemma map_nth_seq (l : list Z) : map (fun i => nth i l 0) (seq 0 (length l)) = l.
  Proof.
    induction l as [|a r IH]; [reflexivity|].
    cbn [length seq map nth]. f_equal. rewrite <- seq_shift, map_map. exact IH.
  Qed.
  Lemma pairs_uppers k spec : map snd (pairs k spec) = uppers k spec.
  Proof. unfold pairs. rewrite map_map. cbn [snd]. apply map_nth_seq. Qed.

  (* the rendering of every lower bound has the shape, provided the oracle's
     renderings of the specification's bounds have it *)
  Lemma lower_shape k p spec i :
    (forall x, In x spec -> shape (ofmt k p x)) ->
    (i < S (length spec))%nat -> shape (bstr k p (lower k (uppers k spec) i)).
  Proof.
    intros Hs Hi. destruct i as [|j]; cbn [lower].
    - rewrite bstr_bottom. apply shape_ninf.
    - assert (Hin : In (nth j (uppers k spec) 0) (uppers k spec)).
      { apply nth_In. rewrite uppers_length. lia. }
      apply uppers_in in Hin as [Hin| ->].
      + apply bstr_shape, Hs, Hin.
      + rewrite bstr_top. apply shape_inf.
  Qed.

  Lemma buckets_distinct k p name spec i j lo hi lo' hi' :
    (forall x, In x spec -> shape (ofmt k p x)) ->
    nth_error (pairs k spec) i = Some (lo, hi) ->
    nth_error (pairs k spec) j = Some (lo', hi') ->
    (bstr k p lo, bstr k p hi) <> (bstr k p lo', bstr k p hi') ->
    bucket_name k p name lo hi <> bucket_name k p name lo' hi'.
  Proof.
    intros Hs Ei Ej Hd En.
    apply pairs_nth_error in Ei as (Hi & -> & ->). apply pairs_nth_error in Ej as (Hj & -> & ->).
    apply name_injective in En as [E1 E2]; [|apply lower_shape; auto|apply lower_shape; auto].
    apply Hd. congruence.
  Qed.

  Lemma nodup_map_transfer {A B C} (f : A -> B) (g : A -> C) (l : list A) :
    (forall a b, In a l -> In b l -> f a = f b -> g a = g b) ->
    NoDup (map g l) -> NoDup (map f l).
  Proof.
    induction l as [|a r IH]; intros Hfg Hn; cbn in *; [constructor|].
    inversion Hn as [|? ? Hni Hnr]; subst. constructor.
    - intros Hin. apply in_map_iff in Hin as (b & Eb & Hb). apply Hni.
      rewrite (Hfg a b); auto. apply in_map, Hb.
    - apply IH; auto.
  Qed.

  (* whole histogram: if the rendered (lower, upper) pairs are pairwise
     different, so are the stat names *)
  Lemma hist_names_nodup k p name spec :
    (forall x, In x spec -> shape (ofmt k p x)) ->
    NoDup (map (fun lh => (bstr k p (fst lh), bstr k p (snd lh))) (pairs k spec)) ->
    NoDup (hist_names fmtf fmtd k p name spec).
  Proof.
    intros Hs. unfold hist_names. apply nodup_map_transfer.
    intros [lo hi] [lo' hi'] Ha Hb En. cbn [fst snd] in *.
    apply pairs_in in Ha as [i Ei]. apply pairs_in in Hb as [j Ej].
    apply pairs_nth_error in Ei as (Hi & -> & ->). apply pairs_nth_error in Ej as (Hj & -> & ->).
    apply name_injective in En as [E1 E2]; [|apply lower_shape; auto|apply lower_shape; auto].
    congruence.
  Qed.

  (* ... in particular when the upper bounds (the specification's values and
     the closing maximum) all render differently *)
  Lemma hist_names_nodup_uppers k p name spec :
    (forall x, In x spec -> shape (ofmt k p x)) ->
    NoDup (map (bstr k p) (uppers k spec)) ->
    NoDup (hist_names fmtf fmtd k p name spec).
  Proof.
    intros Hs Hn. apply hist_names_nodup; [exact Hs|].
    apply (nodup_map_transfer _ (fun lh => bstr k p (snd lh))).
    - intros a b _ _ E. congruence.
    - rewrite <- (map_map snd (bstr k p)), pairs_uppers. exact Hn.
  Qed.

  (* the open ends *)
  Lemma open_ends k p spec :
    (exists hi, nth_error (pairs k spec) 0 = Some (bottom k, hi)) /\
    (exists lo, nth_error (pairs k spec) (length spec) = Some (lo, top k)) /\
    bstr k p (bottom k) = NINFINITY /\ bstr k p (top k) = INFINITY.
  Proof.
    split; [|split; [|split; [apply bstr_bottom|apply bstr_top]]].
    - eexists. rewrite pairs_nth_error_intro; [|lia]. reflexivity.
    - eexists. rewrite pairs_nth_error_intro; [|lia]. rewrite uppers_last. reflexivity.
  Qed.
End WithOracles.

(* ---------- sample rate ---------- *)
Lemma rate_default c : rate_unset (orate c) = true -> eff_rate c = ONE32.
Proof. unfold eff_rate. intros ->. reflexivity. Qed.
Lemma rate_configured c : rate_unset (orate c) = false -> eff_rate c = orate c.
Proof. unfold eff_rate. intros ->. reflexivity. Qed.
Lemma rate_unset_zero : rate_unset 0 = true.
Proof. reflexivity. Qed.

(* ---------- gauge truncation ---------- *)
Lemma quot_trunc n d : 0 < d ->
  Z.abs (Z.quot n d) * d <= Z.abs n < (Z.abs (Z.quot n d) + 1) * d /\ 0 <= Z.quot n d * n.
Proof.
  intros Hd. destruct (Z_le_gt_dec 0 n) as [Hn|Hn].
  - rewrite Z.quot_div_nonneg by lia.
    pose proof (Z.div_mod n d ltac:(lia)) as E. pose proof (Z.mod_pos_bound n d Hd) as Hb.
    assert (0 <= n / d) by (apply Z.div_pos; lia).
    rewrite (Z.abs_eq (n / d)), (Z.abs_eq n) by lia. nia.
  - replace n with (- (- n)) by lia. rewrite Z.quot_opp_l by lia.
    rewrite Z.quot_div_nonneg by lia. set (m := - n) in *.
    pose proof (Z.div_mod m d ltac:(lia)) as E. pose proof (Z.mod_pos_bound m d Hd) as Hb.
    assert (0 <= m / d) by (apply Z.div_pos; lia).
    rewrite !Z.abs_opp, (Z.abs_eq (m / d)), (Z.abs_eq m) by lia. nia.
Qed.

Lemma fden_pos b : 0 < snd (fnum_den b).
Proof.
  unfold fnum_den. cbv zeta.
  destruct (0 <=? (if fexp b =? 0 then 1 else fexp b) - 1075) eqn:E; cbn [snd]; [lia|].
  apply Z.pow_pos_nonneg; lia.
Qed.

Lemma gauge_trunc b :
  let n := fst (fnum_den b) in let d := snd (fnum_den b) in
  0 < d /\ Z.abs (gauge_int b) * d <= Z.abs n < (Z.abs (gauge_int b) + 1) * d /\ 0 <= gauge_int b * n.
Proof. cbv zeta. split; [apply fden_pos|]. apply quot_trunc, fden_pos. Qed.
