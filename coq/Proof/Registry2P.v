From Coq Require Import ZArith List Lia Bool Arith.
From Tally Require Import Model.Registry Proof.RegistryP.
Import ListNotations.

Section WithSan.
Variable san : nat -> nat.
Hypothesis san_idem : forall k, san (san k) = san k.
Hypothesis san_root : san 0 = 0.       (* the root's key is its own sanitized form *)

Notation step := (step san).
Notation run := (run san).

(* registry well-formedness with aliases, and "a live scope stays registered under its sanitized key" *)
(* a scope object the registry still needs: not closed, or closed with something recorded before
   its Close that has not been delivered yet *)
Definition needed (x : scope) : Prop := closed x = false \/ delivered x < closed_at x.

Definition Inv2 (s : sys) : Prop :=
  (forall k o, In (k, o) (reg s) -> san k = skey (obj s o)) /\
  NoDup (map fst (reg s)) /\
  (forall o, o < length (objs s) -> needed (obj s o) -> lookup (reg s) (skey (obj s o)) = Some o).

Lemma lookup_none_notin r k : lookup r k = None -> ~ In k (map fst r).
Proof. induction r as [|[a b] r IH]; cbn; auto. destruct (Nat.eqb_spec k a) as [->|N]; [discriminate|].
  intros H [E|E]; [congruence|]. apply IH; auto. Qed.
Lemma lookup_in_nodup r k o : NoDup (map fst r) -> In (k, o) r -> lookup r k = Some o.
Proof. induction r as [|[a b] r IH]; cbn; [tauto|]. intros ND [E|E].
  - inversion E; subst. rewrite Nat.eqb_refl. reflexivity.
  - inversion ND; subst. destruct (Nat.eqb_spec k a) as [->|N].
    + exfalso. apply H1. change a with (fst (a, o)). apply in_map; auto.
    + apply IH; auto. Qed.
Lemma remove_if_sub r k o : forall x, In x (map fst (remove_if r k o)) -> In x (map fst r).
Proof. induction r as [|[a b] r IH]; cbn; auto. destruct (Nat.eqb k a && Nat.eqb o b); cbn; intuition. Qed.
Lemma nodup_remove_if r k o : NoDup (map fst r) -> NoDup (map fst (remove_if r k o)).
Proof. induction r as [|[a b] r IH]; cbn; auto. intros ND. inversion ND; subst.
  destruct (Nat.eqb k a && Nat.eqb o b); cbn; auto. constructor; auto. intros H. apply H1. eapply remove_if_sub; eauto. Qed.
Lemma in_remove_if_keep r k o k' o' : In (k', o') r -> (k', o') <> (k, o) -> In (k', o') (remove_if r k o).
Proof. induction r as [|[a b] r IH]; cbn; auto. intros [E|E] N.
  - inversion E; subst. destruct (Nat.eqb_spec k k'), (Nat.eqb_spec o o'); cbn; auto; subst; congruence.
  - destruct (Nat.eqb k a && Nat.eqb o b); cbn; auto. Qed.

Definition keeps (f : scope -> scope) : Prop :=
  forall x, okobj x -> skey (f x) = skey x /\ (needed (f x) -> needed x).
Lemma keeps_report : keeps report_obj.
Proof. intros x (A & B & C & D). split; [reflexivity|]. unfold needed; cbn. intros [H|H]; [left; exact H|].
  destruct (closed x) eqn:Ec; [|left; reflexivity]. specialize (B eq_refl). lia. Qed.
Lemma keeps_clear : keeps clear_obj. Proof. intros x _. unfold needed; cbn; auto. Qed.
Lemma keeps_inc : keeps inc_obj. Proof. intros x _. unfold needed; cbn; auto. Qed.
Lemma keeps_close : keeps close_obj.
Proof. intros x _. unfold close_obj, needed. destruct (closed x) eqn:E; cbn; split; auto.
  intros [H|H]; [congruence|right; exact H]. Qed.

Lemma inv2_set_obj s o f : keeps f -> (forall o', okobj (obj s o')) -> Inv2 s -> Inv2 (set_obj s o (f (obj s o))).
Proof.
  intros K Ho (A & B & C).
  assert (P : forall o', skey (obj (set_obj s o (f (obj s o))) o') = skey (obj s o') /\
                         (needed (obj (set_obj s o (f (obj s o))) o') -> needed (obj s o'))).
  { intros o'. destruct (obj_set_cases s o f o') as [E|[_ E]]; rewrite E; auto; try apply K; auto. }
  split; [|split]; cbn [reg set_obj]; auto.
  - intros k o' H. rewrite (proj1 (P o')). auto.
  - intros o' L Hc. rewrite len_set_obj in L. rewrite (proj1 (P o')). apply C; auto. apply P; auto.
Qed.

Lemma inv2_set_thr s i t : Inv2 s -> Inv2 (set_thr s i t). Proof. auto. Qed.

Lemma inv2_remove s k o : Inv2 s -> closed (obj s o) = true -> closed_at (obj s o) <= delivered (obj s o) ->
  Inv2 (set_reg s (remove_if (reg s) k o)).
Proof.
  intros (A & B & C) Hc Hd. split; [|split]; cbn [reg set_reg objs].
  - intros k' o' H. change (obj (set_reg s (remove_if (reg s) k o)) o') with (obj s o'). apply A. eapply in_remove_if; eauto.
  - apply nodup_remove_if; auto.
  - intros o' L Hl. change (needed (obj s o')) in Hl. change (skey (obj (set_reg s (remove_if (reg s) k o)) o')) with (skey (obj s o')).
    specialize (C o' L Hl). apply lookup_in_nodup. apply nodup_remove_if; auto.
    apply in_remove_if_keep. apply lookup_in; auto.
    intros E. inversion E; subst. destruct Hl as [Hl|Hl]; [congruence|lia].
Qed.

Lemma lookup_add_alias_other r k o k' : lookup r k' <> None -> lookup (add_alias r k o) k' = lookup r k'.
Proof. unfold add_alias. destruct (lookup r k) eqn:E; auto. cbn. destruct (Nat.eqb_spec k' k) as [->|N]; auto. congruence. Qed.
Lemma nodup_add_alias r k o : NoDup (map fst r) -> NoDup (map fst (add_alias r k o)).
Proof. unfold add_alias. destruct (lookup r k) eqn:E; auto. cbn. constructor; auto. apply lookup_none_notin; auto. Qed.

Lemma inv2_alias s k o : Inv2 s -> lookup (reg s) (san k) = Some o -> Inv2 (set_reg s (add_alias (reg s) k o)).
Proof.
  intros (A & B & C) Hl. split; [|split]; cbn [reg set_reg objs].
  - intros k' o' H. change (obj (set_reg s (add_alias (reg s) k o)) o') with (obj s o').
    apply in_add_alias in H as [Q|H]; auto. inversion Q; subst.
    rewrite <- san_idem. apply A. apply lookup_in; auto.
  - apply nodup_add_alias; auto.
  - intros o' L Hc. change (needed (obj s o')) in Hc. change (skey (obj (set_reg s (add_alias (reg s) k o)) o')) with (skey (obj s o')).
    specialize (C o' L Hc). rewrite lookup_add_alias_other; auto. congruence.
Qed.

Lemma inv2_new s k : Inv s -> Inv2 s -> lookup (reg s) (san k) = None ->
  Inv2 {| objs := objs s ++ [new_obj (san k)]; reg := add_alias ((san k, length (objs s)) :: reg s) k (length (objs s)); thr := thr s |}.
Proof.
  intros (_ & _ & Hr) (A & B & C) Hn.
  set (n := length (objs s)).
  set (s' := {| objs := objs s ++ [new_obj (san k)]; reg := add_alias ((san k, n) :: reg s) k n; thr := thr s |}).
  assert (E1 : forall o, o < n -> obj s' o = obj s o).
  { intros o H. unfold obj, s'; cbn [objs]. apply app_nth1; auto. }
  assert (E2 : obj s' n = new_obj (san k)).
  { unfold obj, s'; cbn [objs]. rewrite app_nth2 by (unfold n; lia). unfold n. rewrite Nat.sub_diag. reflexivity. }
  assert (ND : NoDup (map fst ((san k, n) :: reg s))) by (cbn; constructor; auto; apply lookup_none_notin; auto).
  split; [|split]; cbn [reg objs].
  - intros k' o H. apply in_add_alias in H as [Q|[Q|H]].
    + inversion Q; subst. rewrite E2. reflexivity.
    + inversion Q; subst. rewrite E2. cbn. apply san_idem.
    + rewrite E1 by (unfold n; eauto). auto.
  - apply nodup_add_alias; auto.
  - intros o L Hc. unfold s' in L; cbn [objs] in L. rewrite app_length in L; cbn in L.
    destruct (Nat.eq_dec o n) as [->|N].
    + rewrite E2. cbn [skey new_obj]. unfold s'; cbn [reg]. rewrite lookup_add_alias_other; cbn; rewrite Nat.eqb_refl; [reflexivity|discriminate].
    + assert (Lo : o < n) by (unfold n in *; lia). rewrite E1 in * by auto.
      specialize (C o Lo Hc).
      assert (Q : skey (obj s o) <> san k) by (intros Q; rewrite Q in C; congruence).
      unfold s'; cbn [reg]. rewrite lookup_add_alias_other; cbn; destruct (Nat.eqb_spec (skey (obj s o)) (san k)); try congruence.
Qed.

Lemma lookup_remove_if_same r k o : NoDup (map fst r) -> lookup r k = Some o -> lookup (remove_if r k o) k = None.
Proof.
  induction r as [|[a b] r IH]; cbn; [discriminate|]. intros ND Hl. inversion ND; subst.
  destruct (Nat.eqb_spec k a) as [->|N].
  - inversion Hl; subst. rewrite Nat.eqb_refl; cbn.
    destruct (lookup (remove_if r a o) a) eqn:E; auto. exfalso. apply H1.
    apply lookup_in in E. apply in_remove_if in E. change a with (fst (a, n)). apply in_map; auto.
  - cbn. destruct (Nat.eqb_spec k a); [congruence|]. apply IH; auto.
Qed.

Lemma inv2_next_entry s i tidle vis ch : Inv2 s -> Inv2 (next_entry s i tidle vis ch).
Proof. intros I2. unfold next_entry. destruct (lookup (reg s) ch); apply inv2_set_thr; auto. Qed.

Lemma step_inv2 s ic : Inv s -> Inv2 s -> Inv2 (step s ic).
Proof.
  intros I I2. destruct ic as [i ch]. unfold step, Registry.step.
  destruct (nth_error (thr s) i) as [t|] eqn:Et; [|exact I2].
  pose proof (inv_thread_pc _ _ _ I Et) as Hp.
  destruct (tpc t) as [ | k o | k o | k o | k o | k | vis | vis k o | vis k o c | vis k o | vis k o] eqn:Epc; cbn [okpc] in Hp.
  - destruct (prog t) as [|[k| |] rest].
    + destruct (passes t); [exact I2|]. apply inv2_next_entry; auto.
    + destruct (lookup (reg s) k) as [o|]; [destruct (closed (obj s o))|]; apply inv2_set_thr; auto.
    + apply inv2_set_thr. destruct (cur t); auto. apply inv2_set_obj; auto. apply keeps_inc. apply I.
    + apply inv2_set_thr. destruct (cur t); auto. apply inv2_set_obj; auto. apply keeps_close. apply I.
  - apply inv2_set_thr. apply inv2_set_obj; auto. apply keeps_report. apply I.
  - apply inv2_set_thr. apply inv2_remove; tauto.
  - apply inv2_set_thr. apply inv2_remove; tauto.
  - apply inv2_set_thr. apply inv2_set_obj; auto. apply keeps_clear. apply I.
  - destruct (lookup (reg s) (san k)) as [o|] eqn:El.
    + destruct (closed (obj s o)) eqn:Ec.
      * (* report, drop, clear, create *)
        assert (V : o < length (objs s)) by (destruct I as (_ & _ & Hr); apply (Hr (san k)); apply lookup_in; auto).
        set (s1 := set_obj s o (report_obj (obj s o))).
        set (s2 := set_reg s1 (remove_if (reg s1) (san k) o)).
        set (s3 := set_obj s2 o (clear_obj (obj s2 o))).
        assert (I3 : Inv s3) by (apply inv_report_drop; auto).
        assert (I1 : Inv s1) by (apply inv_mono; auto; apply mono_report).
        assert (I2' : Inv s2).
        { apply inv_set_reg; auto. destruct I1 as (_ & _ & Hr). intros k' o' Hin. apply in_remove_if in Hin. eauto. }
        assert (A1 : Inv2 s1) by (apply inv2_set_obj; auto; [apply keeps_report|apply I]).
        assert (C1 : closed (obj s1 o) = true).
        { unfold s1. rewrite obj_set_same by auto. cbn. exact Ec. }
        assert (D1 : closed_at (obj s1 o) <= delivered (obj s1 o)).
        { unfold s1. rewrite obj_set_same by auto. destruct I as (Ho & _). destruct (Ho o) as (Q1 & Q2 & _).
          specialize (Q2 Ec). cbn. lia. }
        assert (A2 : Inv2 s2) by (apply inv2_remove; auto).
        assert (A3 : Inv2 s3) by (apply inv2_set_obj; auto; [apply keeps_clear|apply I2']).
        assert (N3 : lookup (reg s3) (san k) = None).
        { change (reg s3) with (remove_if (reg s) (san k) o). apply lookup_remove_if_same; auto. apply I2. }
        apply (inv2_set_thr {| objs := objs s3 ++ [new_obj (san k)]; reg := add_alias ((san k, length (objs s3)) :: reg s3) k (length (objs s3)); thr := thr s3 |}).
        apply inv2_new; auto.
      * apply inv2_set_thr. apply inv2_alias; auto.
    + apply (inv2_set_thr {| objs := objs s ++ [new_obj (san k)]; reg := add_alias ((san k, length (objs s)) :: reg s) k (length (objs s)); thr := thr s |}).
      apply inv2_new; auto.
  - apply inv2_next_entry; auto.
  - apply inv2_set_thr; auto.
  - destruct c; apply inv2_set_thr; apply inv2_set_obj; auto; try apply keeps_report; apply I.
  - apply inv2_set_thr. apply inv2_remove; tauto.
  - apply inv2_set_thr. apply inv2_set_obj; auto. apply keeps_clear. apply I.
Qed.

Lemma run_inv2 sched : forall s, Inv s -> Inv2 s -> Inv (run s sched) /\ Inv2 (run s sched).
Proof. induction sched as [|ic sched IH]; cbn; intros s H H2; auto. apply IH. apply step_inv; auto. apply step_inv2; auto. Qed.

(* C07_live_scope_stays with aliases: a scope that is not closed is always found under its sanitized key,
   whatever spellings were used and removed in between *)
Lemma live_scope_stays ths sched o :
  (forall t, In t ths -> tpc t = Idle) ->
  let s := run (init ths) sched in
  o < length (objs s) -> closed (obj s o) = false ->
  lookup (reg s) (skey (obj s o)) = Some o.
Proof.
  intros H s L Hc.
  assert (I2 : Inv2 (init ths)).
  { split; [|split]; cbn.
    - intros k o' [Q|[]]. inversion Q; subst. cbn. exact san_root.
    - constructor; [intros []|constructor].
    - intros o' L' _. destruct o' as [|o']; [reflexivity|lia]. }
  destruct (run_inv2 sched _ (inv_init ths H) I2) as [_ (A & B & C)]. apply C; auto. left; exact Hc.
Qed.

End WithSan.

(* closing twice is harmless *)
Lemma close_twice x : close_obj (close_obj x) = close_obj x.
Proof. unfold close_obj. destruct (closed x) eqn:E; [rewrite E; reflexivity|reflexivity]. Qed.

(* a scope handed out by a completed request is not closed at that moment *)
Lemma nth_error_upd_same {A} (l : list A) i x t : nth_error l i = Some t -> nth_error (upd l i x) i = Some x.
Proof. revert i; induction l as [|h l IH]; intros [|i] H; cbn in *; try discriminate; auto. Qed.

Section GetOpen.
Variable san : nat -> nat.

Lemma probe_returns_open s i ch t k rest o :
  nth_error (thr s) i = Some t -> tpc t = Idle -> prog t = AGet k :: rest ->
  lookup (reg s) k = Some o -> closed (obj s o) = false ->
  let s' := step san s (i, ch) in
  exists t', nth_error (thr s') i = Some t' /\ tpc t' = Idle /\ cur t' = Some o /\ closed (obj s' o) = false.
Proof.
  intros Et Hpc Hprog Hl Hc s'. unfold s', step. rewrite Et, Hpc, Hprog, Hl, Hc.
  eexists. split; [apply (nth_error_upd_same _ _ _ _ Et)|]. cbn. repeat split; auto.
Qed.

Lemma g5_returns_open s i ch t k :
  Inv s -> nth_error (thr s) i = Some t -> tpc t = G5 k ->
  let s' := step san s (i, ch) in
  exists o t', nth_error (thr s') i = Some t' /\ tpc t' = Idle /\ cur t' = Some o /\ closed (obj s' o) = false.
Proof.
  intros I Et Hpc s'. unfold s', step. rewrite Et, Hpc.
  assert (Hnew : forall s0, thr s0 = thr s ->
    let sn := set_thr {| objs := objs s0 ++ [new_obj (san k)];
                         reg := add_alias ((san k, length (objs s0)) :: reg s0) k (length (objs s0)); thr := thr s0 |} i
                      {| tpc := Idle; cur := Some (length (objs s0)); prog := prog t; passes := passes t |} in
    exists o t', nth_error (thr sn) i = Some t' /\ tpc t' = Idle /\ cur t' = Some o /\ closed (obj sn o) = false).
  { intros s0 Ht sn. exists (length (objs s0)). eexists. split.
    - unfold sn, set_thr; cbn [thr]. rewrite Ht. apply (nth_error_upd_same _ _ _ _ Et).
    - cbn. repeat split; auto. unfold sn, obj, set_thr; cbn [objs].
      rewrite app_nth2 by lia. rewrite Nat.sub_diag. reflexivity. }
  destruct (lookup (reg s) (san k)) as [o|] eqn:El.
  - destruct (closed (obj s o)) eqn:Ec.
    + apply Hnew. reflexivity.
    + exists o. eexists. split; [apply (nth_error_upd_same _ _ _ _ Et)|]. cbn. repeat split; auto.
  - apply Hnew. reflexivity.
Qed.
End GetOpen.

(* concurrent first use of a child scope: two live scopes with the same sanitized key are
   the same object (consequence of live_scope_stays: both are registered under that key) *)
Lemma one_scope_per_identity san :
  (forall k, san (san k) = san k) -> san 0 = 0 ->
  forall ths sched o1 o2,
  (forall t, In t ths -> tpc t = Idle) ->
  let s := run san (init ths) sched in
  o1 < length (objs s) -> o2 < length (objs s) ->
  closed (obj s o1) = false -> closed (obj s o2) = false ->
  skey (obj s o1) = skey (obj s o2) -> o1 = o2.
Proof.
  intros Hs H0 ths sched o1 o2 H s L1 L2 C1 C2 K.
  pose proof (live_scope_stays san Hs H0 ths sched o1 H L1 C1) as E1.
  pose proof (live_scope_stays san Hs H0 ths sched o2 H L2 C2) as E2.
  fold s in E1, E2. rewrite K in E1. congruence.
Qed.
