(* Side conditions of the C12 theorems on the constants that the translator
   (harness/constx) extracts from m3/reporter.go and m3/thriftudp on every run
   (Gen/Params.v).  Editing a constant in the repository so that a condition
   fails makes this file, and with it Props/C12.v, stop compiling.

   m3_emit_overhead = _emitMetricBatchOverhead: the envelope allowance must cover
   the Binary protocol's 33 bytes and the Compact protocol's at most 32
   (Proof/M3BatchP.v: envelope_binary, envelope_compact_bounds).  On the pinned
   tree the constant is 19 and the first lemma is false. *)
From Coq Require Import ZArith Lia.
From Tally Require Import Gen.Params.
Open Scope Z_scope.

Lemma m3_emit_overhead_ok : 33 <= m3_emit_overhead <= 1073741823.
Proof. unfold m3_emit_overhead. lia. Qed.

(* the default packet size is below what the UDP transport accepts, and every size the transport
   accepts is inside the range for which the int32 arithmetic of the batching loop is exact *)
Lemma m3_packet_limits_ok : 0 < m3_default_max_packet <= udp_max_length /\ udp_max_length <= 1073741824.
Proof. unfold m3_default_max_packet, udp_max_length. lia. Qed.
