(* Proofs about the bucket constructors (Model/Ctor.v). *)
From Coq Require Import ZArith List Bool Lia Arith.
From Coq Require Import ZifyBool.
From Tally Require Import Model.Buckets Model.Ctor.
Import ListNotations.
Open Scope Z_scope.
Ltac Zify.zify_post_hook ::= Z.div_mod_to_equations.

(* ---------- generic facts ---------- *)
Lemma nth_map_seq {A} (f : nat -> A) (n i : nat) (d : A) :
  (i < n)%nat -> nth i (map f (seq 0 n)) d = f i.
Proof.
  intros Hi. rewrite (nth_indep _ d (f 0%nat)) by (rewrite map_length, seq_length; exact Hi).
  rewrite (map_nth f (seq 0 n) 0%nat i). rewrite seq_nth by exact Hi. reflexivity.
Qed.

Lemma iterate_length step n c : length (iterate step n c) = n.
Proof. revert c; induction n as [|n IH]; intros c; cbn [iterate length]; [reflexivity|]. now rewrite IH. Qed.

Lemma iterate_nth_0 step n c d : (0 < n)%nat -> nth 0 (iterate step n c) d = c.
Proof. destruct n; [lia|]. reflexivity. Qed.

Lemma iterate_nth_S step n c d i :
  (S i < n)%nat -> nth (S i) (iterate step n c) d = step (nth i (iterate step n c) d).
Proof.
  revert c i. induction n as [|n IH]; intros c i Hi; [lia|].
  destruct i as [|i].
  - destruct n; [lia|]. reflexivity.
  - cbn [iterate nth]. rewrite (IH (step c) i) by lia.
    destruct n; [lia|]. reflexivity.
Qed.

(* the closed form of the iteration *)
Lemma iterate_nth_iter step n c d i :
  (i < n)%nat -> nth i (iterate step n c) d = Nat.iter i step c.
Proof.
  intros Hi. induction i as [|i IH].
  - apply iterate_nth_0; exact Hi.
  - rewrite iterate_nth_S by exact Hi. rewrite IH by lia. reflexivity.
Qed.

(* ---------- wrap-around ---------- *)
Lemma wrap64_range x : MINI <= wrap64 x <= MAXI.
Proof. unfold wrap64, MINI, MAXI, SIGN, P64. lia. Qed.

Lemma wrap64_id x : MINI <= x <= MAXI -> wrap64 x = x.
Proof. unfold wrap64, MINI, MAXI, SIGN, P64. lia. Qed.

Lemma wrap64_add_l a b : wrap64 (wrap64 a + b) = wrap64 (a + b).
Proof. unfold wrap64, SIGN, P64. lia. Qed.

Lemma wrap64_add_r a b : wrap64 (a + wrap64 b) = wrap64 (a + b).
Proof. unfold wrap64, SIGN, P64. lia. Qed.

(* ---------- linear constructors ---------- *)
Lemma linear_value_error s w n : linear_value s w n = None <-> n <= 0.
Proof. unfold linear_value. destruct (Z.leb_spec n 0); split; intros; try lia; try discriminate; reflexivity. Qed.

Lemma linear_value_ok s w n : 0 < n ->
  exists l, linear_value s w n = Some l /\ length l = Z.to_nat n /\
    forall i, (i < Z.to_nat n)%nat -> nth i l 0 = fadd s (fmul (f_of_int (Z.of_nat i)) w).
Proof.
  intros Hn. unfold linear_value. destruct (Z.leb_spec n 0); [lia|].
  eexists; split; [reflexivity|]. split.
  - now rewrite map_length, seq_length.
  - intros i Hi. rewrite nth_map_seq by exact Hi. reflexivity.
Qed.

Lemma linear_duration_error s w n : linear_duration s w n = None <-> n <= 0.
Proof. unfold linear_duration. destruct (Z.leb_spec n 0); split; intros; try lia; try discriminate; reflexivity. Qed.

Lemma lin_dur_elem_0 s w : MINI <= s <= MAXI -> lin_dur_elem s w 0 = s.
Proof.
  intros Hs. unfold lin_dur_elem. change (Z.of_nat 0 * w) with 0.
  rewrite wrap64_add_r, Z.add_0_r. apply wrap64_id; exact Hs.
Qed.

Lemma lin_dur_elem_S s w i : lin_dur_elem s w (S i) = wrap64 (lin_dur_elem s w i + w).
Proof.
  unfold lin_dur_elem. rewrite !wrap64_add_r, wrap64_add_l. f_equal. lia.
Qed.

Lemma lin_dur_elem_closed s w i : lin_dur_elem s w i = wrap64 (s + Z.of_nat i * w).
Proof. unfold lin_dur_elem. apply wrap64_add_r. Qed.

Lemma linear_duration_ok s w n : 0 < n ->
  exists l, linear_duration s w n = Some l /\ length l = Z.to_nat n /\
    (forall i, (i < Z.to_nat n)%nat -> nth i l 0 = wrap64 (s + Z.of_nat i * w)) /\
    (MINI <= s <= MAXI -> nth 0 l 0 = s) /\
    (forall i, (S i < Z.to_nat n)%nat -> nth (S i) l 0 = wrap64 (nth i l 0 + w)).
Proof.
  intros Hn. unfold linear_duration. destruct (Z.leb_spec n 0); [lia|].
  eexists; split; [reflexivity|]. split; [|split; [|split]].
  - now rewrite map_length, seq_length.
  - intros i Hi. rewrite nth_map_seq by exact Hi. apply lin_dur_elem_closed.
  - intros Hs. rewrite nth_map_seq by lia. apply lin_dur_elem_0; exact Hs.
  - intros i Hi. rewrite !nth_map_seq by lia. apply lin_dur_elem_S.
Qed.

(* ---------- exponential constructors ---------- *)
Lemma exponential_value_error s f n :
  exponential_value s f n = None <-> (n <= 0 \/ fle s FZERO = true \/ fle f FONE = true).
Proof.
  unfold exponential_value. destruct (Z.leb_spec n 0) as [Hn|Hn].
  - split; auto.
  - destruct (fle s FZERO); [split; auto|]. destruct (fle f FONE); [split; auto|].
    split; [discriminate|]. intros [H|[H|H]]; [lia|discriminate|discriminate].
Qed.

Lemma exponential_value_ok s f n : 0 < n -> fle s FZERO = false -> fle f FONE = false ->
  exists l, exponential_value s f n = Some l /\ length l = Z.to_nat n /\
    nth 0 l 0 = s /\
    (forall i, (S i < Z.to_nat n)%nat -> nth (S i) l 0 = fmul (nth i l 0) f).
Proof.
  intros Hn Hs Hf. unfold exponential_value. destruct (Z.leb_spec n 0); [lia|]. rewrite Hs, Hf.
  eexists; split; [reflexivity|]. split; [|split].
  - apply iterate_length.
  - apply iterate_nth_0. lia.
  - intros i Hi. rewrite iterate_nth_S by exact Hi. reflexivity.
Qed.

Lemma exponential_duration_error s f n :
  exponential_duration s f n = None <-> (n <= 0 \/ s <= 0 \/ fle f FONE = true).
Proof.
  unfold exponential_duration. destruct (Z.leb_spec n 0) as [Hn|Hn].
  - split; auto.
  - destruct (Z.leb_spec s 0) as [Hs|Hs]; [split; auto|]. destruct (fle f FONE); [split; auto|].
    split; [discriminate|]. intros [H|[H|H]]; [lia|lia|discriminate].
Qed.

Lemma exponential_duration_ok s f n : 0 < n -> 0 < s -> fle f FONE = false ->
  exists l, exponential_duration s f n = Some l /\ length l = Z.to_nat n /\
    nth 0 l 0 = s /\
    (forall i, (S i < Z.to_nat n)%nat ->
       nth (S i) l 0 = int64_of_f (fmul (f_of_int (nth i l 0)) f)).
Proof.
  intros Hn Hs Hf. unfold exponential_duration. destruct (Z.leb_spec n 0); [lia|].
  destruct (Z.leb_spec s 0); [lia|]. rewrite Hf.
  eexists; split; [reflexivity|]. split; [|split].
  - apply iterate_length.
  - apply iterate_nth_0. lia.
  - intros i Hi. rewrite iterate_nth_S by exact Hi. reflexivity.
Qed.

(* ---------- float comparison: what Go's <= gives ---------- *)
Lemma fle_nan_l a b : fkey a = None -> fle a b = false.
Proof. unfold fle. intros ->. reflexivity. Qed.
Lemma fle_nan_r a b : fkey b = None -> fle a b = false.
Proof. unfold fle. intros ->. destruct (fkey a); reflexivity. Qed.
Lemma fle_spec a b x y : fkey a = Some x -> fkey b = Some y -> fle a b = (x <=? y).
Proof. unfold fle. intros -> ->. reflexivity. Qed.

(* ---------- Must variants ---------- *)
Lemma must_panics_iff r : must r = Panics <-> r = None.
Proof. destruct r; cbn; split; intros; try discriminate; reflexivity. Qed.
Lemma must_returns_iff r l : must r = Returns l <-> r = Some l.
Proof. destruct r; cbn; split; intros Hh; try discriminate; inversion Hh; reflexivity. Qed.

Lemma must_all (a b n : Z) :
  (must_linear_value a b n = Panics <-> linear_value a b n = None) /\
  (must_linear_duration a b n = Panics <-> linear_duration a b n = None) /\
  (must_exponential_value a b n = Panics <-> exponential_value a b n = None) /\
  (must_exponential_duration a b n = Panics <-> exponential_duration a b n = None) /\
  (forall l, must_linear_value a b n = Returns l <-> linear_value a b n = Some l) /\
  (forall l, must_linear_duration a b n = Returns l <-> linear_duration a b n = Some l) /\
  (forall l, must_exponential_value a b n = Returns l <-> exponential_value a b n = Some l) /\
  (forall l, must_exponential_duration a b n = Returns l <-> exponential_duration a b n = Some l).
Proof.
  split; [apply must_panics_iff|]. split; [apply must_panics_iff|].
  split; [apply must_panics_iff|]. split; [apply must_panics_iff|].
  split; [intros l; apply must_returns_iff|]. split; [intros l; apply must_returns_iff|].
  split; intros l; apply must_returns_iff.
Qed.
