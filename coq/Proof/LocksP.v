(* Proofs about the lock layer (Model/Locks.v):
   A. (Proof/LocksSysP.v) goroutines whose operations respect a rank of the locks never deadlock
      under the RWMutex semantics (writer preference, queued readers, anonymous wake-ups), for any
      number of goroutines and any schedule;
   B. the skeleton checker [chk] is sound: every execution of a checked skeleton respects
      the rank, releases only what it holds, waits with nothing held and returns with
      nothing held;
   C. the two compose: goroutines that run checked entry points never deadlock. *)
From Coq Require Import List Bool Arith Lia.
Import ListNotations.
From Tally Require Import Model.Locks Proof.LocksSysP.

(* ------------------------------------------------------------------ *)
(* B. soundness of the skeleton checker                                 *)
(* ------------------------------------------------------------------ *)

Lemma cdisc_app h t1 t2 :
  cdisc h (t1 ++ t2) = match cdisc h t1 with Some h1 => cdisc h1 t2 | None => None end.
Proof.
  revert h; induction t1 as [|[m c|m c| |w c] r IH]; intro h; simpl; [reflexivity| | | |].
  - destruct (forallb _ h); [apply IH|reflexivity].
  - destruct (existsb _ h); [apply IH|reflexivity].
  - destruct h; [apply IH|reflexivity].
  - destruct (_ || _); [apply IH|reflexivity].
Qed.

Lemma heldc_eqb_eq a b : heldc_eqb a b = true -> a = b.
Proof.
  unfold heldc_eqb. revert b; induction a as [|[m c] a IH]; intros [|[m' c'] b]; simpl; try discriminate; [reflexivity|].
  intro H. apply andb_true_iff in H as [Hl H]. apply andb_true_iff in H as [Hx H].
  apply andb_true_iff in Hx as [Hm Hc]. apply mode_eqb_eq in Hm. apply Nat.eqb_eq in Hc. subst.
  f_equal. apply IH. apply andb_true_iff. split; [|exact H]. simpl in Hl. exact Hl.
Qed.
Lemma ast_eqb_eq a b : ast_eqb a b = true -> a = b.
Proof.
  destruct a as [h f], b as [h' f']. unfold ast_eqb. simpl. intro H. apply andb_true_iff in H as [H1 H2].
  apply heldc_eqb_eq in H1. apply Bool.eqb_prop in H2. subst. reflexivity.
Qed.

Lemma bind_all_in f l n2 r2 a :
  bind_all f l = Some (n2, r2) -> In a l ->
  exists n r, f a = Some (n, r) /\ incl n n2 /\ incl r r2.
Proof.
  revert n2 r2; induction l as [|x l IH]; intros n2 r2 H Hin; [destruct Hin|].
  simpl in H. destruct (f x) as [[n1 r1]|] eqn:Hfx; [|discriminate].
  destruct (bind_all f l) as [[n3 r3]|] eqn:Hb; [|discriminate]. injection H as <- <-.
  destruct Hin as [-> | Hin].
  - exists n1, r1. split; [exact Hfx|]. split; apply incl_appl; apply incl_refl.
  - destruct (IH _ _ eq_refl Hin) as (n & r & Hfa & Hn & Hr). exists n, r. split; [exact Hfa|].
    split; apply incl_appr; assumption.
Qed.

Lemma exec_fact_mono procs b fl tr o fl' : exec procs b fl tr o fl' -> fl = true -> fl' = true.
Proof. induction 1; intro Hf; subst; auto; try discriminate. Qed.

Definition out_in (o : outcome) (x : ast) (ns rs : list ast) : Prop :=
  match o with Normal => In x ns | Returned => In x rs end.

Lemma out_in_incl o x ns rs ns' rs' : out_in o x ns rs -> incl ns ns' -> incl rs rs' -> out_in o x ns' rs'.
Proof. destruct o; simpl; intros H H1 H2; [apply H1|apply H2]; exact H. Qed.

Lemma dedup_in x l : In x l -> In x (dedup l).
Proof.
  induction l as [|y l IH]; simpl; [tauto|]. intros [-> | H].
  - destruct (existsb (ast_eqb x) l) eqn:E; [|left; reflexivity].
    apply existsb_exists in E as (z & Hz & Ez). apply ast_eqb_eq in Ez. subst z. apply IH. exact Hz.
  - destruct (existsb (ast_eqb y) l); [apply IH; exact H|right; apply IH; exact H].
Qed.
Lemma out_in_dedup o x ns rs : out_in o x ns rs -> out_in o x (dedup ns) (dedup rs).
Proof. destruct o; simpl; apply dedup_in. Qed.

Lemma chk_loop_inv procs fuel b h fl ns rs :
  chk procs (S fuel) (Loop b) (h, fl) = Some (ns, rs) ->
  exists n r, chk procs fuel b (h, fl) = Some (n, r) /\
    ((forallb (fun x => ast_eqb x (h, fl)) n = true /\ ns = [(h, fl)] /\ rs = r) \/
     (forallb (fun x => heldc_eqb (fst x) h) n = true /\
      exists n' r', chk procs fuel b (h, true) = Some (n', r') /\
                    forallb (fun x => ast_eqb x (h, true)) n' = true /\
                    ns = [(h, fl); (h, true)] /\ rs = r ++ r')).
Proof.
  simpl. destruct (chk procs fuel b (h, fl)) as [[n r]|]; [|discriminate]. intro Hc. exists n, r. split; [reflexivity|].
  destruct (forallb (fun x => ast_eqb x (h, fl)) n) eqn:E1.
  - injection Hc as <- <-. left. auto.
  - destruct (forallb (fun x => heldc_eqb (fst x) h) n) eqn:E2; [|discriminate].
    destruct (chk procs fuel b (h, true)) as [[n' r']|]; [|discriminate].
    destruct (forallb (fun x => ast_eqb x (h, true)) n') eqn:E3; [|discriminate]. injection Hc as <- <-.
    right. split; [reflexivity|]. exists n', r'. auto.
Qed.

Lemma chk_sound procs b fl tr o fl' :
  exec procs b fl tr o fl' ->
  forall fuel h ns rs, chk procs fuel b (h, fl) = Some (ns, rs) ->
  exists h', cdisc h tr = Some h' /\ out_in o (h', fl') ns rs.
Proof.
  induction 1; intros fuel h ns rs Hc; (destruct fuel as [|fuel]; [discriminate|]); simpl in Hc.
  - (* Skip *) injection Hc as <- <-. exists h. simpl. auto.
  - (* Acq *) destruct (forallb _ h) eqn:Hf; [|discriminate]. injection Hc as <- <-.
    exists ((m, c) :: h). simpl. rewrite Hf. auto.
  - (* Rel *) unfold inheld in Hc. destruct (existsb _ h) eqn:Hf; [|discriminate]. injection Hc as <- <-.
    exists (remove1 m c h). simpl. rewrite Hf. auto.
  - (* Wait *) destruct h; [|discriminate]. injection Hc as <- <-. exists []. simpl. auto.
  - (* Use *) unfold inheld in Hc. simpl in Hc.
    destruct (existsb (fun x => mode_eqb (fst x) W && Nat.eqb (snd x) c) h ||
              (negb w && existsb (fun x => mode_eqb (fst x) R && Nat.eqb (snd x) c) h)) eqn:Hf; [|discriminate].
    injection Hc as <- <-. exists h. simpl. rewrite Hf. auto.
  - (* Ret *) injection Hc as <- <-. exists h. simpl. auto.
  - (* SetF *) injection Hc as <- <-. exists h. simpl. auto.
  - (* Unless, skipped *) destruct fl.
    + injection Hc as <- <-. exists h. simpl. auto.
    + destruct (chk procs fuel b (h, false)) as [[n r]|]; [|discriminate]. injection Hc as <- <-.
      exists h. simpl. auto.
  - (* Unless, run *) destruct (chk procs fuel b (h, false)) as [[n r]|] eqn:Hb; [|discriminate].
    injection Hc as <- <-. destruct (IHexec _ _ _ _ Hb) as (h' & Hd & Ho). exists h'. split; [exact Hd|].
    eapply out_in_incl; [exact Ho|apply incl_tl; apply incl_refl|apply incl_refl].
  - (* Seq, first part completes *)
    destruct (chk procs fuel a (h, fl)) as [[n1 r1]|] eqn:Ha; [|discriminate].
    destruct (bind_all (chk procs fuel b) n1) as [[n2 r2]|] eqn:Hb; [|discriminate]. injection Hc as <- <-.
    destruct (IHexec1 _ _ _ _ Ha) as (h1 & Hd1 & Ho1). simpl in Ho1.
    destruct (bind_all_in _ _ _ _ _ Hb Ho1) as (n & r & Hfa & Hn & Hr).
    destruct (IHexec2 _ _ _ _ Hfa) as (h2 & Hd2 & Ho2). exists h2. rewrite cdisc_app, Hd1. split; [exact Hd2|].
    apply out_in_dedup. eapply out_in_incl; [exact Ho2|exact Hn|apply incl_appr; exact Hr].
  - (* Seq, first part returns *)
    destruct (chk procs fuel a (h, fl)) as [[n1 r1]|] eqn:Ha; [|discriminate].
    destruct (bind_all (chk procs fuel b) n1) as [[n2 r2]|] eqn:Hb; [|discriminate]. injection Hc as <- <-.
    destruct (IHexec _ _ _ _ Ha) as (h1 & Hd1 & Ho1). exists h1. split; [exact Hd1|]. simpl in *.
    apply dedup_in. apply in_or_app. left. exact Ho1.
  - (* Alt left *)
    destruct (chk procs fuel a (h, fl)) as [[n1 r1]|] eqn:Ha; [|discriminate].
    destruct (chk procs fuel b (h, fl)) as [[n2 r2]|] eqn:Hb; [|discriminate]. injection Hc as <- <-.
    destruct (IHexec _ _ _ _ Ha) as (h1 & Hd1 & Ho1). exists h1. split; [exact Hd1|].
    apply out_in_dedup. eapply out_in_incl; [exact Ho1| |]; apply incl_appl; apply incl_refl.
  - (* Alt right *)
    destruct (chk procs fuel a (h, fl)) as [[n1 r1]|] eqn:Ha; [|discriminate].
    destruct (chk procs fuel b (h, fl)) as [[n2 r2]|] eqn:Hb; [|discriminate]. injection Hc as <- <-.
    destruct (IHexec _ _ _ _ Hb) as (h1 & Hd1 & Ho1). exists h1. split; [exact Hd1|].
    apply out_in_dedup. eapply out_in_incl; [exact Ho1| |]; apply incl_appr; apply incl_refl.
  - (* Loop, no iteration *)
    apply chk_loop_inv in Hc as (n & r & Hb & [(Hall & -> & ->) | (Hheld & n' & r' & Hb' & Hall' & -> & ->)]);
      exists h; simpl; auto.
  - (* Loop, one iteration and the rest *)
    pose proof Hc as Hc0.
    apply chk_loop_inv in Hc as (n & r & Hb & [(Hall & -> & ->) | (Hheld & n' & r' & Hb' & Hall' & -> & ->)]);
      destruct (IHexec1 _ _ _ _ Hb) as (h1 & Hd1 & Ho1); simpl in Ho1.
    + (* the body restores the state *)
      rewrite forallb_forall in Hall. pose proof (ast_eqb_eq _ _ (Hall _ Ho1)) as E. injection E as -> ->.
      destruct (IHexec2 (S fuel) _ _ _ Hc0) as (h2 & Hd2 & Ho2). exists h2. rewrite cdisc_app, Hd1. auto.
    + rewrite forallb_forall in Hheld. pose proof (heldc_eqb_eq _ _ (Hheld _ Ho1)) as E. simpl in E. subst h1.
      destruct fl1.
      * (* the fact is known from now on *)
        assert (Hc1 : chk procs (S fuel) (Loop b) (h, true) = Some ([(h, true)], r')).
        { simpl. rewrite Hb', Hall'. reflexivity. }
        destruct (IHexec2 _ _ _ _ Hc1) as (h2 & Hd2 & Ho2). exists h2. rewrite cdisc_app, Hd1. split; [exact Hd2|].
        eapply out_in_incl; [exact Ho2| |apply incl_appr; apply incl_refl].
        intros x [<- | []]. right. left. reflexivity.
      * (* still unknown: then it was unknown before *)
        destruct fl; [pose proof (exec_fact_mono _ _ _ _ _ _ H eq_refl) as Hm; discriminate Hm|].
        destruct (IHexec2 (S fuel) _ _ _ Hc0) as (h2 & Hd2 & Ho2). exists h2. rewrite cdisc_app, Hd1. auto.
  - (* Loop, the body returns *)
    apply chk_loop_inv in Hc as (n & r & Hb & [(Hall & -> & ->) | (Hheld & n' & r' & Hb' & Hall' & -> & ->)]);
      destruct (IHexec _ _ _ _ Hb) as (h1 & Hd1 & Ho1); simpl in Ho1; exists h1; (split; [exact Hd1|]); simpl.
    + exact Ho1.
    + apply in_or_app. left. exact Ho1.
  - (* Call *)
    destruct (chk procs fuel (body procs f) (h, fl)) as [[n r]|] eqn:Hb; [|discriminate]. injection Hc as <- <-.
    destruct (IHexec _ _ _ _ Hb) as (h1 & Hd1 & Ho1). exists h1. split; [exact Hd1|]. simpl.
    apply dedup_in. apply in_or_app. destruct o; [left|right]; exact Ho1.
Qed.

Lemma entry_ok_sound procs fuel f fl tr o fl' :
  entry_ok procs fuel f = true -> exec procs (Call f) fl tr o fl' -> cdisc [] tr = Some [].
Proof.
  unfold entry_ok. intros Hok He.
  apply andb_true_iff in Hok as [H0 H1].
  assert (Hgen : forall fl0, entry_ok1 procs fuel f fl0 = true -> exec procs (Call f) fl0 tr o fl' -> cdisc [] tr = Some []).
  { unfold entry_ok1. intros fl0 Hc Hex. destruct (chk procs fuel (Call f) ([], fl0)) as [[n r]|] eqn:Hck; [|discriminate].
    destruct (chk_sound _ _ _ _ _ _ Hex _ _ _ _ Hck) as (h' & Hd & Ho).
    rewrite forallb_forall in Hc.
    assert (Hin : In (h', fl') (n ++ r)) by (apply in_or_app; destruct o; [left|right]; exact Ho).
    specialize (Hc _ Hin). simpl in Hc. destruct h'; [exact Hd|discriminate]. }
  destruct fl; [apply (Hgen true H1 He)|apply (Hgen false H0 He)].
Qed.

Lemma has_wait_sound procs b fl tr o fl' :
  exec procs b fl tr o fl' -> forall fuel, has_wait procs fuel b = false -> ~ In LWait tr.
Proof.
  induction 1; intros fuel Hw; (destruct fuel as [|fuel]; [discriminate|]); simpl in Hw; simpl;
    try (intros []; fail); try (intros [E|[]]; discriminate); try discriminate.
  - eapply IHexec; eauto.
  - apply orb_false_iff in Hw as [Ha Hb]. intro Hin. apply in_app_or in Hin as [Hin|Hin];
      [eapply IHexec1|eapply IHexec2]; eauto.
  - apply orb_false_iff in Hw as [Ha Hb]. eapply IHexec; eauto.
  - apply orb_false_iff in Hw as [Ha Hb]. eapply IHexec; eauto.
  - apply orb_false_iff in Hw as [Ha Hb]. eapply IHexec; eauto.
  - intro Hin. apply in_app_or in Hin as [Hin|Hin]; [eapply IHexec1; eauto|].
    eapply (IHexec2 (S fuel)); eauto.
  - eapply IHexec; eauto.
  - eapply IHexec; eauto.
Qed.

Lemma a_trace_exec procs : forall fuel b fl tr o fl',
  a_trace procs fuel b fl = Some (tr, o, fl') -> exec procs b fl tr o fl'.
Proof.
  induction fuel as [|fuel IH]; intros b fl tr o fl' H; [discriminate|]. destruct b; simpl in H.
  - injection H as <- <- <-. constructor.
  - injection H as <- <- <-. constructor.
  - injection H as <- <- <-. constructor.
  - injection H as <- <- <-. constructor.
  - injection H as <- <- <-. constructor.
  - injection H as <- <- <-. constructor.
  - injection H as <- <- <-. constructor.
  - destruct fl; [injection H as <- <- <-; constructor|].
    destruct (a_trace procs fuel b false) as [[[t1 o1] f1]|] eqn:E.
    + injection H as <- <- <-. apply EUnlessRun. apply IH. exact E.
    + injection H as <- <- <-. constructor.
  - destruct (a_trace procs fuel b1 fl) as [[[t1 [|]] f1]|] eqn:E1.
    + destruct (a_trace procs fuel b2 f1) as [[[t2 o2] f2]|] eqn:E2; [|discriminate].
      injection H as <- <- <-. eapply ESeqN; [apply IH; exact E1|apply IH; exact E2].
    + injection H as <- <- <-. apply ESeqR. apply IH. exact E1.
    + discriminate.
  - destruct (a_trace procs fuel b1 fl) as [[[t1 o1] f1]|] eqn:E1;
      destruct (a_trace procs fuel b2 fl) as [[[t2 o2] f2]|] eqn:E2; try discriminate.
    + destruct (Nat.ltb (length t1) (length t2) || _); injection H as <- <- <-;
        [apply EAltR; apply IH; exact E2|apply EAltL; apply IH; exact E1].
    + injection H as <- <- <-. apply EAltL. apply IH. exact E1.
    + injection H as <- <- <-. apply EAltR. apply IH. exact E2.
  - destruct (a_trace procs fuel b fl) as [[[t1 [|]] f1]|] eqn:E1.
    + injection H as <- <- <-. rewrite <- (app_nil_r t1). eapply ELoopN; [apply IH; exact E1|constructor].
    + injection H as <- <- <-. apply ELoopR. apply IH. exact E1.
    + injection H as <- <- <-. constructor.
  - destruct (a_trace procs fuel (body procs f) fl) as [[[t1 o1] f1]|] eqn:E1; [|discriminate].
    injection H as <- <- <-. eapply ECall. apply IH. exact E1.
Qed.

(* ------------------------------------------------------------------ *)
(* C. from lock classes to lock instances                               *)
(* ------------------------------------------------------------------ *)

(* cls: the class (rank) of a lock instance; a goroutine's operations and their classes *)
Definition abs_op (cls : nat -> nat) (g : gop) : lop :=
  match g with
  | GAcq m l => LAcq m (cls l) | GRel m l => LRel m (cls l) | GWait _ => LWait | GUse w l => LUse w (cls l)
  end.
Definition abs_h (cls : nat -> nat) (h : list (mode * nat)) : list (mode * nat) :=
  map (fun x => (fst x, cls (snd x))) h.

(* instance consistency: a goroutine releases only what it holds, in the mode it holds it (the Go
   runtime aborts the program otherwise: "sync: Unlock of unlocked RWMutex"), and the lock of class
   cls l it holds while it accesses data guarded by l is l itself (the field and the mutex belong to
   the same object: the translator checks that both are reached through the same expression) *)
Fixpoint relok_c (cls : nat -> nat) (h : list (mode * nat)) (g : list gop) : Prop :=
  match g with
  | [] => True
  | GAcq m l :: r => relok_c cls ((m, l) :: h) r
  | GRel m l :: r => In (m, l) h /\ relok_c cls (remove1 m l h) r
  | GWait _ :: r => relok_c cls h r
  | GUse _ l :: r => (forall x, In x h -> cls (snd x) = cls l -> snd x = l) /\ relok_c cls h r
  end.

Lemma abs_remove1 cls m l h :
  hsorted cls h -> In (m, l) h -> abs_h cls (remove1 m l h) = remove1 m (cls l) (abs_h cls h).
Proof.
  induction h as [|[m' l'] h IH]; simpl; [tauto|]. intros [Hs1 Hs2] Hin.
  destruct (mode_eqb m' m && Nat.eqb l' l) eqn:E.
  - apply andb_true_iff in E as [Em El]. apply Nat.eqb_eq in El. subst l'. rewrite Em, Nat.eqb_refl. reflexivity.
  - destruct Hin as [Hin | Hin]; [injection Hin as -> ->; destruct m; rewrite Nat.eqb_refl in E; discriminate|].
    destruct (mode_eqb m' m && Nat.eqb (cls l') (cls l)) eqn:E2.
    + apply andb_true_iff in E2 as [_ Ec]. apply Nat.eqb_eq in Ec.
      specialize (Hs1 _ Hin). simpl in Hs1. lia.
    + simpl. f_equal. apply IH; assumption.
Qed.

Lemma cdisc_disc cls g : forall h,
  hsorted cls h -> relok_c cls h g -> cdisc (abs_h cls h) (map (abs_op cls) g) = Some [] -> disc cls h g.
Proof.
  induction g as [|[m l|m l|js|w l] r IH]; intros h Hs Hr Hc; simpl in *.
  5: { (* a guarded access: the class-level guard is the instance itself *)
    destruct Hr as [Hinst Hr].
    assert (Hfind : forall m, existsb (fun x => mode_eqb (fst x) m && Nat.eqb (snd x) (cls l)) (abs_h cls h) = true -> In (m, l) h).
    { intros m He. apply existsb_exists in He as ([m' c'] & Hin & Hb). simpl in Hb.
      apply andb_true_iff in Hb as [Hm Hc']. apply mode_eqb_eq in Hm. apply Nat.eqb_eq in Hc'. subst.
      unfold abs_h in Hin. apply in_map_iff in Hin as ([m0 l0] & E & Hin0). simpl in E. injection E as -> Ec.
      pose proof (Hinst (m, l0) Hin0 Ec) as El. simpl in El. subst l0. exact Hin0. }
    destruct (existsb (fun x => mode_eqb (fst x) W && Nat.eqb (snd x) (cls l)) (abs_h cls h)) eqn:E1; simpl in Hc.
    - split; [left; apply Hfind; exact E1|]. apply IH; assumption.
    - destruct w; simpl in Hc; [discriminate|].
      destruct (existsb (fun x => mode_eqb (fst x) R && Nat.eqb (snd x) (cls l)) (abs_h cls h)) eqn:E2; [|discriminate].
      split; [right; split; [reflexivity|apply Hfind; exact E2]|]. apply IH; assumption. }
  - injection Hc as Hc. destruct h; [reflexivity|discriminate].
  - destruct (forallb _ (abs_h cls h)) eqn:Hf; [|discriminate].
    rewrite forallb_forall in Hf.
    assert (Hlt : forall x, In x h -> cls (snd x) < cls l).
    { intros x Hx. specialize (Hf (fst x, cls (snd x))). simpl in Hf. apply Nat.ltb_lt. apply Hf.
      unfold abs_h. apply in_map_iff. exists x. auto. }
    split; [exact Hlt|]. apply IH; [simpl; split; [exact Hlt|exact Hs]|exact Hr|exact Hc].
  - destruct Hr as [Hin Hr]. destruct (existsb _ (abs_h cls h)); [|discriminate].
    split; [exact Hin|]. apply IH; [apply hsorted_remove1; exact Hs|exact Hr|].
    rewrite abs_remove1; assumption.
  - destruct (abs_h cls h) eqn:Ha; [|discriminate]. destruct h; [|discriminate].
    split; [reflexivity|]. apply IH; assumption.
Qed.

(* a goroutine's class-level trace: a sequence of complete executions of entry points *)
Inductive calls (procs : list sk) (ok : nat -> Prop) : bool -> list lop -> Prop :=
| CNil fl : calls procs ok fl []
| CCons fl f tr o fl' rest : ok f -> exec procs (Call f) fl tr o fl' -> calls procs ok fl' rest ->
                             calls procs ok fl (tr ++ rest).

Lemma calls_cdisc procs fuel (ok : nat -> Prop) fl tr :
  (forall f, ok f -> entry_ok procs fuel f = true) -> calls procs ok fl tr -> cdisc [] tr = Some [].
Proof.
  intros Hok. induction 1; [reflexivity|]. rewrite cdisc_app.
  rewrite (entry_ok_sound _ _ _ _ _ _ _ (Hok _ H) H0). exact IHcalls.
Qed.

Lemma calls_nowait procs fuel (ok : nat -> Prop) fl tr :
  (forall f, ok f -> has_wait procs fuel (Call f) = false) -> calls procs ok fl tr -> ~ In LWait tr.
Proof.
  intros Hok. induction 1; [intros []|]. intro Hin. apply in_app_or in Hin as [Hin|Hin]; [|tauto].
  eapply has_wait_sound; eauto.
Qed.

Lemma nowait_abs cls g : ~ In LWait (map (abs_op cls) g) -> nowait g.
Proof.
  intros H js Hin. apply H. apply in_map_iff. exists (GWait js). auto.
Qed.

(* The composition: goroutines that run checked entry points ([api]: may wait for goroutines
   running [bg] entry points, which never wait) do not deadlock. *)
Theorem checked_no_deadlock procs fuel (api bg : nat -> Prop) cls gs sched :
  (forall f, api f -> entry_ok procs fuel f = true) ->
  (forall f, bg f -> entry_ok procs fuel f = true /\ has_wait procs fuel (Call f) = false) ->
  (forall g, In g gs -> relok_c cls [] g /\
     (calls procs api false (map (abs_op cls) g) \/ calls procs bg false (map (abs_op cls) g))) ->
  (forall g js j g', In g gs -> In (GWait js) g -> In j js -> nth_error gs j = Some g' ->
     calls procs bg false (map (abs_op cls) g')) ->
  let s := run (init gs) sched in
  forall k t, nth_error (ths s) k = Some t -> todo t <> [] -> enabled s k = false ->
  exists k', enabled s k' = true.
Proof.
  intros Hapi Hbg Hg Hw. apply disciplined_no_deadlock with (rk := cls).
  - intros g Hin. destruct (Hg _ Hin) as [Hr Hc]. apply cdisc_disc; [exact I|exact Hr|]. simpl.
    destruct Hc as [Hc|Hc].
    + eapply calls_cdisc; [|exact Hc]. exact Hapi.
    + eapply calls_cdisc; [|exact Hc]. intros f Hf. apply (Hbg f Hf).
  - intros g js j g' Hin Hgw Hj Hn. apply (nowait_abs cls).
    eapply calls_nowait; [|eapply Hw; eauto]. intros f Hf. apply (Hbg f Hf).
Qed.

Theorem checked_mutual_exclusion procs fuel (api bg : nat -> Prop) cls gs sched :
  (forall f, api f -> entry_ok procs fuel f = true) ->
  (forall f, bg f -> entry_ok procs fuel f = true /\ has_wait procs fuel (Call f) = false) ->
  (forall g, In g gs -> relok_c cls [] g /\
     (calls procs api false (map (abs_op cls) g) \/ calls procs bg false (map (abs_op cls) g))) ->
  (forall g js j g', In g gs -> In (GWait js) g -> In j js -> nth_error gs j = Some g' ->
     calls procs bg false (map (abs_op cls) g')) ->
  let s := run (init gs) sched in
  forall l i j u v, nth_error (ths s) i = Some u -> nth_error (ths s) j = Some v ->
  holds W l u = true -> holds_any l v = true -> i = j.
Proof.
  intros Hapi Hbg Hg Hw. apply mutual_exclusion with (rk := cls).
  - intros g Hin. destruct (Hg _ Hin) as [Hr Hc]. apply cdisc_disc; [exact I|exact Hr|]. simpl.
    destruct Hc as [Hc|Hc].
    + eapply calls_cdisc; [|exact Hc]. exact Hapi.
    + eapply calls_cdisc; [|exact Hc]. intros f Hf. apply (Hbg f Hf).
  - intros g js j g' Hin Hgw Hj Hn. apply (nowait_abs cls).
    eapply calls_nowait; [|eapply Hw; eauto]. intros f Hf. apply (Hbg f Hf).
Qed.

Theorem checked_exclusive_access procs fuel (api bg : nat -> Prop) cls gs sched :
  (forall f, api f -> entry_ok procs fuel f = true) ->
  (forall f, bg f -> entry_ok procs fuel f = true /\ has_wait procs fuel (Call f) = false) ->
  (forall g, In g gs -> relok_c cls [] g /\
     (calls procs api false (map (abs_op cls) g) \/ calls procs bg false (map (abs_op cls) g))) ->
  (forall g js j g', In g gs -> In (GWait js) g -> In j js -> nth_error gs j = Some g' ->
     calls procs bg false (map (abs_op cls) g')) ->
  let s := run (init gs) sched in
  forall l i j u v w ru rv, nth_error (ths s) i = Some u -> nth_error (ths s) j = Some v ->
  todo u = GUse true l :: ru -> todo v = GUse w l :: rv -> i = j.
Proof.
  intros Hapi Hbg Hg Hw. apply exclusive_access with (rk := cls).
  - intros g Hin. destruct (Hg _ Hin) as [Hr Hc]. apply cdisc_disc; [exact I|exact Hr|]. simpl.
    destruct Hc as [Hc|Hc].
    + eapply calls_cdisc; [|exact Hc]. exact Hapi.
    + eapply calls_cdisc; [|exact Hc]. intros f Hf. apply (Hbg f Hf).
  - intros g js j g' Hin Hgw Hj Hn. apply (nowait_abs cls).
    eapply calls_nowait; [|eapply Hw; eauto]. intros f Hf. apply (Hbg f Hf).
Qed.
