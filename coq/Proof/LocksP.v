(* Proofs about the lock layer (Model/Locks.v):
   A. goroutines whose operations respect a rank of the locks never deadlock under the
      RWMutex semantics (writer preference included), for any number of goroutines and any
      schedule;
   B. the skeleton checker [chk] is sound: every execution of a checked skeleton respects
      the rank, releases only what it holds, waits with nothing held and returns with
      nothing held;
   C. the two compose: goroutines that run checked entry points never deadlock. *)
From Coq Require Import List Bool Arith Lia.
Import ListNotations.
From Tally Require Import Model.Locks.

(* ------------------------------------------------------------------ *)
(* A. deadlock freedom of disciplined goroutines                        *)
(* ------------------------------------------------------------------ *)

Lemma mode_eqb_eq a b : mode_eqb a b = true <-> a = b.
Proof. destruct a, b; simpl; split; intro H; try reflexivity; try discriminate. Qed.

Lemma anyother_from_spec i s k p :
  anyother_from i s k p = true <->
  exists j u, nth_error s j = Some u /\ i + j <> k /\ p u = true.
Proof.
  revert i; induction s as [|t r IH]; intro i; simpl.
  - split; [discriminate|]. intros (j & u & H & _). destruct j; discriminate.
  - rewrite orb_true_iff, andb_true_iff, negb_true_iff, Nat.eqb_neq, IH. split.
    + intros [[Hn Hp] | (j & u & Hj & Hn & Hp)].
      * exists 0, t. simpl. split; [reflexivity|]. split; [lia|exact Hp].
      * exists (S j), u. simpl. split; [exact Hj|]. split; [lia|exact Hp].
    + intros (j & u & Hj & Hn & Hp). destruct j as [|j]; simpl in Hj.
      * injection Hj as <-. left. split; [lia|exact Hp].
      * right. exists j, u. split; [exact Hj|]. split; [lia|exact Hp].
Qed.

Lemma anyother_spec s k p :
  anyother s k p = true <-> exists j u, nth_error s j = Some u /\ j <> k /\ p u = true.
Proof. unfold anyother. rewrite anyother_from_spec. simpl. reflexivity. Qed.

Definition thinv (rk : nat -> nat) (s : sys) (t : th) : Prop :=
  disc rk (held t) (todo t) /\
  (forall js j u, In (GWait js) (todo t) -> In j js -> nth_error s j = Some u -> nowait (todo u)).
Definition Inv (rk : nat -> nat) (s : sys) : Prop :=
  forall k t, nth_error s k = Some t -> thinv rk s t.

Lemma holds_any_in l t : holds_any l t = true -> exists m, In (m, l) (held t).
Proof.
  unfold holds_any. rewrite existsb_exists. intros ([m l'] & Hin & He). simpl in He.
  apply Nat.eqb_eq in He. subst l'. exists m. exact Hin.
Qed.
Lemma holds_holds_any m l t : holds m l t = true -> holds_any l t = true.
Proof.
  unfold holds, holds_any. rewrite !existsb_exists. intros (x & Hin & He).
  apply andb_true_iff in He. exists x. tauto.
Qed.

(* a goroutine holding l is either able to move or blocked on a lock of higher rank *)
Lemma holder_progress rk s j u l :
  Inv rk s -> nth_error s j = Some u -> holds_any l u = true ->
  enabled s j = true \/
  exists m' l' r', todo u = GAcq m' l' :: r' /\ rk l < rk l' /\ enabled s j = false.
Proof.
  intros HI Hj Hh. destruct (HI _ _ Hj) as [Hd _]. apply holds_any_in in Hh as [m Hin].
  destruct (todo u) as [|[m' l'|m' l'|js] r'] eqn:Ht; simpl in Hd.
  - rewrite Hd in Hin. destruct Hin.
  - destruct Hd as [Hlt _]. destruct (enabled s j) eqn:He; [left; reflexivity|].
    right. exists m', l', r'. split; [reflexivity|]. split; [exact (Hlt _ Hin)|reflexivity].
  - left. unfold enabled. rewrite Hj, Ht. reflexivity.
  - destruct Hd as [Hd _]. rewrite Hd in Hin. destruct Hin.
Qed.

(* whoever stands in the way of an acquisition of l: progress, or blocked strictly higher *)
Lemma involved_progress rk s j u l :
  Inv rk s -> nth_error s j = Some u -> (holds_any l u || announced l u) = true ->
  (exists k', enabled s k' = true) \/
  exists j' u' m' l' r', nth_error s j' = Some u' /\ todo u' = GAcq m' l' :: r' /\
                         enabled s j' = false /\ rk l < rk l'.
Proof.
  intros HI Hj Hor. apply orb_true_iff in Hor as [Hh | Ha].
  - destruct (holder_progress rk s j u l HI Hj Hh) as [He | (m' & l' & r' & Ht & Hlt & He)].
    + left. exists j. exact He.
    + right. exists j, u, m', l', r'. tauto.
  - unfold announced in Ha. apply andb_true_iff in Ha as [Hann Hhd].
    destruct (todo u) as [|[[|] l'|m' l'|js] r'] eqn:Ht; try discriminate.
    apply Nat.eqb_eq in Hhd. subst l'.
    destruct (enabled s j) eqn:He; [left; exists j; exact He|].
    unfold enabled in He. rewrite Hj, Ht, Hann in He. apply negb_false_iff in He.
    apply anyother_spec in He as (j2 & u2 & Hj2 & _ & Hh2).
    destruct (holder_progress rk s j2 u2 l HI Hj2 Hh2) as [He2 | (m' & l' & r2 & Ht2 & Hlt & He2)].
    + left. exists j2. exact He2.
    + right. exists j2, u2, m', l', r2. tauto.
Qed.

Lemma blocked_acq_involved s k t m l r :
  nth_error s k = Some t -> todo t = GAcq m l :: r -> enabled s k = false ->
  exists j u, nth_error s j = Some u /\ (holds_any l u || announced l u) = true.
Proof.
  intros Hk Ht He. unfold enabled in He. rewrite Hk, Ht in He.
  assert (Hcase : anyother s k (fun u => holds W l u || announced l u) = true \/
                  anyother s k (fun u => holds_any l u) = true).
  { destruct m; [left; apply negb_false_iff; exact He|].
    destruct (ann t); [right|left]; apply negb_false_iff; exact He. }
  destruct Hcase as [H | H]; apply anyother_spec in H as (j & u & Hj & _ & Hp); exists j, u; split; try exact Hj.
  - apply orb_true_iff in Hp as [Hp | Hp]; apply orb_true_iff; [left; eapply holds_holds_any; exact Hp | right; exact Hp].
  - apply orb_true_iff. left. exact Hp.
Qed.

Definition headrank (rk : nat -> nat) (t : th) : nat :=
  match todo t with GAcq _ l :: _ => S (rk l) | _ => 0 end.
Definition bound (rk : nat -> nat) (s : sys) : nat := fold_right Nat.max 0 (map (headrank rk) s).

Lemma bound_ge rk s k t : nth_error s k = Some t -> headrank rk t <= bound rk s.
Proof.
  revert k; induction s as [|x r IH]; intros [|k] H; simpl in H; try discriminate.
  - injection H as <-. unfold bound. simpl. lia.
  - specialize (IH _ H). unfold bound in *. simpl. lia.
Qed.

Lemma blocked_chain rk s : Inv rk s ->
  forall n k t m l r, nth_error s k = Some t -> todo t = GAcq m l :: r -> enabled s k = false ->
  bound rk s - rk l <= n -> exists k', enabled s k' = true.
Proof.
  intros HI. induction n as [|n IH]; intros k t m l r Hk Ht He Hn.
  - pose proof (bound_ge rk s k t Hk) as Hb. unfold headrank in Hb. rewrite Ht in Hb. lia.
  - destruct (blocked_acq_involved s k t m l r Hk Ht He) as (j & u & Hj & Hinv).
    destruct (involved_progress rk s j u l HI Hj Hinv) as [Hex | (j' & u' & m' & l' & r' & Hj' & Ht' & He' & Hlt)].
    + exact Hex.
    + apply (IH j' u' m' l' r' Hj' Ht' He').
      pose proof (bound_ge rk s j' u' Hj') as Hb. unfold headrank in Hb. rewrite Ht' in Hb. lia.
Qed.

Theorem inv_no_deadlock rk s : Inv rk s ->
  forall k t, nth_error s k = Some t -> todo t <> [] -> enabled s k = false ->
  exists k', enabled s k' = true.
Proof.
  intros HI k t Hk Hne He.
  destruct (todo t) as [|[m l|m l|js] r] eqn:Ht; [congruence| | |].
  - eapply blocked_chain; eauto.
  - unfold enabled in He. rewrite Hk, Ht in He. discriminate.
  - (* blocked in Wait: one of the targets has not finished; targets never wait *)
    pose proof He as He0. unfold enabled in He. rewrite Hk, Ht in He.
    assert (Hex : exists j, In j js /\ finished s j = false).
    { clear -He. induction js as [|j js IH]; simpl in He; [discriminate|].
      apply andb_false_iff in He as [H | H].
      - exists j. split; [left; reflexivity|exact H].
      - destruct (IH H) as (j' & Hin & Hf). exists j'. split; [right; exact Hin|exact Hf]. }
    destruct Hex as (j & Hin & Hf). unfold finished in Hf.
    destruct (nth_error s j) as [u|] eqn:Hj; [|discriminate].
    destruct (HI _ _ Hk) as [_ Hw]. rewrite Ht in Hw.
    assert (Hnw : nowait (todo u)) by (eapply Hw; eauto; left; reflexivity).
    destruct (todo u) as [|[m' l'|m' l'|js'] r'] eqn:Hu; [discriminate| | |].
    + destruct (enabled s j) eqn:Hej; [exists j; exact Hej|]. eapply blocked_chain; eauto.
    + exists j. unfold enabled. rewrite Hj, Hu. reflexivity.
    + exfalso. apply (Hnw js'). left. reflexivity.
Qed.

(* --- the invariant is preserved by every step --- *)

Lemma nth_error_upd {A} (l : list A) i j x :
  nth_error (upd l i x) j = if Nat.eqb i j then (match nth_error l j with Some _ => Some x | None => None end) else nth_error l j.
Proof.
  revert i j; induction l as [|h t IH]; intros i j; simpl.
  - destruct (Nat.eqb i j); destruct j; reflexivity.
  - destruct i, j; simpl; try reflexivity. apply IH.
Qed.

Lemma todo_step_th t : todo (step_th t) = todo t \/ exists o, todo t = o :: todo (step_th t).
Proof.
  unfold step_th. destruct (todo t) as [|[[|] l|m l|js] r] eqn:Ht; simpl; auto.
  - right. eexists. reflexivity.
  - destruct (ann t); simpl; [right; eexists; reflexivity|left; reflexivity].
  - right. eexists. reflexivity.
  - right. eexists. reflexivity.
Qed.

Lemma disc_step_th rk t : disc rk (held t) (todo t) -> disc rk (held (step_th t)) (todo (step_th t)).
Proof.
  unfold step_th. destruct (todo t) as [|[[|] l|m l|js] r] eqn:Ht; simpl; intro H.
  - rewrite Ht. exact H.
  - tauto.
  - destruct (ann t); simpl; [tauto|exact H].
  - tauto.
  - tauto.
Qed.

Lemma nowait_suffix tr tr' : (tr' = tr \/ exists o, tr = o :: tr') -> nowait tr -> nowait tr'.
Proof.
  intros [-> | (o & ->)] H; [exact H|]. intros js Hin. apply (H js). right. exact Hin.
Qed.
Lemma in_suffix {A} (x : A) tr tr' : (tr' = tr \/ exists o, tr = o :: tr') -> In x tr' -> In x tr.
Proof. intros [-> | (o & ->)] H; [exact H|right; exact H]. Qed.

Lemma step_thread s k j u' :
  nth_error (step s k) j = Some u' ->
  exists u, nth_error s j = Some u /\ (u' = u \/ u' = step_th u).
Proof.
  unfold step. destruct (enabled s k); [|intro H; exists u'; auto].
  destruct (nth_error s k) as [t|] eqn:Hk; [|intro H; exists u'; auto].
  rewrite nth_error_upd. destruct (Nat.eqb k j) eqn:E.
  - apply Nat.eqb_eq in E. subst j. rewrite Hk. intro H. injection H as <-. exists t. auto.
  - intro H. exists u'. auto.
Qed.

Lemma inv_step rk s k : Inv rk s -> Inv rk (step s k).
Proof.
  intros HI j u' Hj. destruct (step_thread s k j u' Hj) as (u & Hu & Hcase).
  destruct (HI _ _ Hu) as [Hd Hw].
  assert (Hsuf : todo u' = todo u \/ exists o, todo u = o :: todo u').
  { destruct Hcase as [-> | ->]; [left; reflexivity|apply todo_step_th]. }
  split.
  - destruct Hcase as [-> | ->]; [exact Hd|apply disc_step_th; exact Hd].
  - intros js i v' Hin Hi Hv'. destruct (step_thread s k i v' Hv') as (v & Hv & Hc2).
    assert (Hnw : nowait (todo v)).
    { eapply Hw; eauto. eapply in_suffix; eauto. }
    eapply nowait_suffix; [|exact Hnw].
    destruct Hc2 as [-> | ->]; [left; reflexivity|apply todo_step_th].
Qed.

Lemma inv_run rk sched : forall s, Inv rk s -> Inv rk (run s sched).
Proof.
  induction sched as [|k r IH]; intros s H; simpl; [exact H|]. apply IH. apply inv_step. exact H.
Qed.

Lemma inv_init rk trs :
  (forall tr, In tr trs -> disc rk [] tr) ->
  (forall tr js j tr', In tr trs -> In (GWait js) tr -> In j js -> nth_error trs j = Some tr' -> nowait tr') ->
  Inv rk (init trs).
Proof.
  intros Hd Hw k t Hk. unfold init in Hk. rewrite nth_error_map in Hk.
  destruct (nth_error trs k) as [tr|] eqn:Htr; [|discriminate]. injection Hk as <-.
  pose proof (nth_error_In _ _ Htr) as Hin. split; simpl.
  - apply Hd. exact Hin.
  - intros js j u Hg Hj Hu. unfold init in Hu. rewrite nth_error_map in Hu.
    destruct (nth_error trs j) as [tr'|] eqn:Htr'; [|discriminate]. injection Hu as <-. simpl.
    eapply Hw; eauto.
Qed.

(* for any goroutines, any schedule: whenever some goroutine is blocked, another can move *)
Theorem disciplined_no_deadlock rk trs sched :
  (forall tr, In tr trs -> disc rk [] tr) ->
  (forall tr js j tr', In tr trs -> In (GWait js) tr -> In j js -> nth_error trs j = Some tr' -> nowait tr') ->
  let s := run (init trs) sched in
  forall k t, nth_error s k = Some t -> todo t <> [] -> enabled s k = false ->
  exists k', enabled s k' = true.
Proof.
  intros Hd Hw s. apply inv_no_deadlock with (rk := rk). apply inv_run. apply inv_init; assumption.
Qed.

(* a goroutine that has nothing left to do holds nothing *)
Theorem finished_holds_nothing rk trs sched :
  (forall tr, In tr trs -> disc rk [] tr) ->
  (forall tr js j tr', In tr trs -> In (GWait js) tr -> In j js -> nth_error trs j = Some tr' -> nowait tr') ->
  forall k t, nth_error (run (init trs) sched) k = Some t -> todo t = [] -> held t = [].
Proof.
  intros Hd Hw k t Hk Ht.
  assert (HI : Inv rk (run (init trs) sched)) by (apply inv_run; apply inv_init; assumption).
  destruct (HI _ _ Hk) as [H _]. rewrite Ht in H. exact H.
Qed.

(* ------------------------------------------------------------------ *)
(* B. soundness of the skeleton checker                                 *)
(* ------------------------------------------------------------------ *)

Lemma cdisc_app h t1 t2 :
  cdisc h (t1 ++ t2) = match cdisc h t1 with Some h1 => cdisc h1 t2 | None => None end.
Proof.
  revert h; induction t1 as [|[m c|m c|] r IH]; intro h; simpl; [reflexivity| | |].
  - destruct (forallb _ h); [apply IH|reflexivity].
  - destruct (existsb _ h); [apply IH|reflexivity].
  - destruct h; [apply IH|reflexivity].
Qed.

Lemma heldc_eqb_eq a b : heldc_eqb a b = true -> a = b.
Proof.
  unfold heldc_eqb. revert b; induction a as [|[m c] a IH]; intros [|[m' c'] b]; simpl; try discriminate; [reflexivity|].
  intro H. apply andb_true_iff in H as [Hl H]. apply andb_true_iff in H as [Hx H].
  apply andb_true_iff in Hx as [Hm Hc]. apply mode_eqb_eq in Hm. apply Nat.eqb_eq in Hc. subst.
  f_equal. apply IH. apply andb_true_iff. split; [|exact H]. simpl in Hl. exact Hl.
Qed.
Lemma ast_eqb_eq a b : ast_eqb a b = true -> a = b.
Proof.
  destruct a as [h f], b as [h' f']. unfold ast_eqb. simpl. intro H. apply andb_true_iff in H as [H1 H2].
  apply heldc_eqb_eq in H1. apply Bool.eqb_prop in H2. subst. reflexivity.
Qed.

Lemma bind_all_in f l n2 r2 a :
  bind_all f l = Some (n2, r2) -> In a l ->
  exists n r, f a = Some (n, r) /\ incl n n2 /\ incl r r2.
Proof.
  revert n2 r2; induction l as [|x l IH]; intros n2 r2 H Hin; [destruct Hin|].
  simpl in H. destruct (f x) as [[n1 r1]|] eqn:Hfx; [|discriminate].
  destruct (bind_all f l) as [[n3 r3]|] eqn:Hb; [|discriminate]. injection H as <- <-.
  destruct Hin as [-> | Hin].
  - exists n1, r1. split; [exact Hfx|]. split; apply incl_appl; apply incl_refl.
  - destruct (IH _ _ eq_refl Hin) as (n & r & Hfa & Hn & Hr). exists n, r. split; [exact Hfa|].
    split; apply incl_appr; assumption.
Qed.

Lemma exec_fact_mono procs b fl tr o fl' : exec procs b fl tr o fl' -> fl = true -> fl' = true.
Proof. induction 1; intro Hf; subst; auto; try discriminate. Qed.

Definition out_in (o : outcome) (x : ast) (ns rs : list ast) : Prop :=
  match o with Normal => In x ns | Returned => In x rs end.

Lemma out_in_incl o x ns rs ns' rs' : out_in o x ns rs -> incl ns ns' -> incl rs rs' -> out_in o x ns' rs'.
Proof. destruct o; simpl; intros H H1 H2; [apply H1|apply H2]; exact H. Qed.

Lemma dedup_in x l : In x l -> In x (dedup l).
Proof.
  induction l as [|y l IH]; simpl; [tauto|]. intros [-> | H].
  - destruct (existsb (ast_eqb x) l) eqn:E; [|left; reflexivity].
    apply existsb_exists in E as (z & Hz & Ez). apply ast_eqb_eq in Ez. subst z. apply IH. exact Hz.
  - destruct (existsb (ast_eqb y) l); [apply IH; exact H|right; apply IH; exact H].
Qed.
Lemma out_in_dedup o x ns rs : out_in o x ns rs -> out_in o x (dedup ns) (dedup rs).
Proof. destruct o; simpl; apply dedup_in. Qed.

Lemma chk_loop_inv procs fuel b h fl ns rs :
  chk procs (S fuel) (Loop b) (h, fl) = Some (ns, rs) ->
  exists n r, chk procs fuel b (h, fl) = Some (n, r) /\
    ((forallb (fun x => ast_eqb x (h, fl)) n = true /\ ns = [(h, fl)] /\ rs = r) \/
     (forallb (fun x => heldc_eqb (fst x) h) n = true /\
      exists n' r', chk procs fuel b (h, true) = Some (n', r') /\
                    forallb (fun x => ast_eqb x (h, true)) n' = true /\
                    ns = [(h, fl); (h, true)] /\ rs = r ++ r')).
Proof.
  simpl. destruct (chk procs fuel b (h, fl)) as [[n r]|]; [|discriminate]. intro Hc. exists n, r. split; [reflexivity|].
  destruct (forallb (fun x => ast_eqb x (h, fl)) n) eqn:E1.
  - injection Hc as <- <-. left. auto.
  - destruct (forallb (fun x => heldc_eqb (fst x) h) n) eqn:E2; [|discriminate].
    destruct (chk procs fuel b (h, true)) as [[n' r']|]; [|discriminate].
    destruct (forallb (fun x => ast_eqb x (h, true)) n') eqn:E3; [|discriminate]. injection Hc as <- <-.
    right. split; [reflexivity|]. exists n', r'. auto.
Qed.

Lemma chk_sound procs b fl tr o fl' :
  exec procs b fl tr o fl' ->
  forall fuel h ns rs, chk procs fuel b (h, fl) = Some (ns, rs) ->
  exists h', cdisc h tr = Some h' /\ out_in o (h', fl') ns rs.
Proof.
  induction 1; intros fuel h ns rs Hc; (destruct fuel as [|fuel]; [discriminate|]); simpl in Hc.
  - (* Skip *) injection Hc as <- <-. exists h. simpl. auto.
  - (* Acq *) destruct (forallb _ h) eqn:Hf; [|discriminate]. injection Hc as <- <-.
    exists ((m, c) :: h). simpl. rewrite Hf. auto.
  - (* Rel *) unfold inheld in Hc. destruct (existsb _ h) eqn:Hf; [|discriminate]. injection Hc as <- <-.
    exists (remove1 m c h). simpl. rewrite Hf. auto.
  - (* Wait *) destruct h; [|discriminate]. injection Hc as <- <-. exists []. simpl. auto.
  - (* Ret *) injection Hc as <- <-. exists h. simpl. auto.
  - (* SetF *) injection Hc as <- <-. exists h. simpl. auto.
  - (* Unless, skipped *) destruct fl.
    + injection Hc as <- <-. exists h. simpl. auto.
    + destruct (chk procs fuel b (h, false)) as [[n r]|]; [|discriminate]. injection Hc as <- <-.
      exists h. simpl. auto.
  - (* Unless, run *) destruct (chk procs fuel b (h, false)) as [[n r]|] eqn:Hb; [|discriminate].
    injection Hc as <- <-. destruct (IHexec _ _ _ _ Hb) as (h' & Hd & Ho). exists h'. split; [exact Hd|].
    eapply out_in_incl; [exact Ho|apply incl_tl; apply incl_refl|apply incl_refl].
  - (* Seq, first part completes *)
    destruct (chk procs fuel a (h, fl)) as [[n1 r1]|] eqn:Ha; [|discriminate].
    destruct (bind_all (chk procs fuel b) n1) as [[n2 r2]|] eqn:Hb; [|discriminate]. injection Hc as <- <-.
    destruct (IHexec1 _ _ _ _ Ha) as (h1 & Hd1 & Ho1). simpl in Ho1.
    destruct (bind_all_in _ _ _ _ _ Hb Ho1) as (n & r & Hfa & Hn & Hr).
    destruct (IHexec2 _ _ _ _ Hfa) as (h2 & Hd2 & Ho2). exists h2. rewrite cdisc_app, Hd1. split; [exact Hd2|].
    apply out_in_dedup. eapply out_in_incl; [exact Ho2|exact Hn|apply incl_appr; exact Hr].
  - (* Seq, first part returns *)
    destruct (chk procs fuel a (h, fl)) as [[n1 r1]|] eqn:Ha; [|discriminate].
    destruct (bind_all (chk procs fuel b) n1) as [[n2 r2]|] eqn:Hb; [|discriminate]. injection Hc as <- <-.
    destruct (IHexec _ _ _ _ Ha) as (h1 & Hd1 & Ho1). exists h1. split; [exact Hd1|]. simpl in *.
    apply dedup_in. apply in_or_app. left. exact Ho1.
  - (* Alt left *)
    destruct (chk procs fuel a (h, fl)) as [[n1 r1]|] eqn:Ha; [|discriminate].
    destruct (chk procs fuel b (h, fl)) as [[n2 r2]|] eqn:Hb; [|discriminate]. injection Hc as <- <-.
    destruct (IHexec _ _ _ _ Ha) as (h1 & Hd1 & Ho1). exists h1. split; [exact Hd1|].
    apply out_in_dedup. eapply out_in_incl; [exact Ho1| |]; apply incl_appl; apply incl_refl.
  - (* Alt right *)
    destruct (chk procs fuel a (h, fl)) as [[n1 r1]|] eqn:Ha; [|discriminate].
    destruct (chk procs fuel b (h, fl)) as [[n2 r2]|] eqn:Hb; [|discriminate]. injection Hc as <- <-.
    destruct (IHexec _ _ _ _ Hb) as (h1 & Hd1 & Ho1). exists h1. split; [exact Hd1|].
    apply out_in_dedup. eapply out_in_incl; [exact Ho1| |]; apply incl_appr; apply incl_refl.
  - (* Loop, no iteration *)
    apply chk_loop_inv in Hc as (n & r & Hb & [(Hall & -> & ->) | (Hheld & n' & r' & Hb' & Hall' & -> & ->)]);
      exists h; simpl; auto.
  - (* Loop, one iteration and the rest *)
    pose proof Hc as Hc0.
    apply chk_loop_inv in Hc as (n & r & Hb & [(Hall & -> & ->) | (Hheld & n' & r' & Hb' & Hall' & -> & ->)]);
      destruct (IHexec1 _ _ _ _ Hb) as (h1 & Hd1 & Ho1); simpl in Ho1.
    + (* the body restores the state *)
      rewrite forallb_forall in Hall. pose proof (ast_eqb_eq _ _ (Hall _ Ho1)) as E. injection E as -> ->.
      destruct (IHexec2 (S fuel) _ _ _ Hc0) as (h2 & Hd2 & Ho2). exists h2. rewrite cdisc_app, Hd1. auto.
    + rewrite forallb_forall in Hheld. pose proof (heldc_eqb_eq _ _ (Hheld _ Ho1)) as E. simpl in E. subst h1.
      destruct fl1.
      * (* the fact is known from now on *)
        assert (Hc1 : chk procs (S fuel) (Loop b) (h, true) = Some ([(h, true)], r')).
        { simpl. rewrite Hb', Hall'. reflexivity. }
        destruct (IHexec2 _ _ _ _ Hc1) as (h2 & Hd2 & Ho2). exists h2. rewrite cdisc_app, Hd1. split; [exact Hd2|].
        eapply out_in_incl; [exact Ho2| |apply incl_appr; apply incl_refl].
        intros x [<- | []]. right. left. reflexivity.
      * (* still unknown: then it was unknown before *)
        destruct fl; [pose proof (exec_fact_mono _ _ _ _ _ _ H eq_refl) as Hm; discriminate Hm|].
        destruct (IHexec2 (S fuel) _ _ _ Hc0) as (h2 & Hd2 & Ho2). exists h2. rewrite cdisc_app, Hd1. auto.
  - (* Loop, the body returns *)
    apply chk_loop_inv in Hc as (n & r & Hb & [(Hall & -> & ->) | (Hheld & n' & r' & Hb' & Hall' & -> & ->)]);
      destruct (IHexec _ _ _ _ Hb) as (h1 & Hd1 & Ho1); simpl in Ho1; exists h1; (split; [exact Hd1|]); simpl.
    + exact Ho1.
    + apply in_or_app. left. exact Ho1.
  - (* Call *)
    destruct (chk procs fuel (body procs f) (h, fl)) as [[n r]|] eqn:Hb; [|discriminate]. injection Hc as <- <-.
    destruct (IHexec _ _ _ _ Hb) as (h1 & Hd1 & Ho1). exists h1. split; [exact Hd1|]. simpl.
    apply dedup_in. apply in_or_app. destruct o; [left|right]; exact Ho1.
Qed.

Lemma entry_ok_sound procs fuel f fl tr o fl' :
  entry_ok procs fuel f = true -> exec procs (Call f) fl tr o fl' -> cdisc [] tr = Some [].
Proof.
  unfold entry_ok. intros Hok He.
  apply andb_true_iff in Hok as [H0 H1].
  assert (Hgen : forall fl0, entry_ok1 procs fuel f fl0 = true -> exec procs (Call f) fl0 tr o fl' -> cdisc [] tr = Some []).
  { unfold entry_ok1. intros fl0 Hc Hex. destruct (chk procs fuel (Call f) ([], fl0)) as [[n r]|] eqn:Hck; [|discriminate].
    destruct (chk_sound _ _ _ _ _ _ Hex _ _ _ _ Hck) as (h' & Hd & Ho).
    rewrite forallb_forall in Hc.
    assert (Hin : In (h', fl') (n ++ r)) by (apply in_or_app; destruct o; [left|right]; exact Ho).
    specialize (Hc _ Hin). simpl in Hc. destruct h'; [exact Hd|discriminate]. }
  destruct fl; [apply (Hgen true H1 He)|apply (Hgen false H0 He)].
Qed.

Lemma has_wait_sound procs b fl tr o fl' :
  exec procs b fl tr o fl' -> forall fuel, has_wait procs fuel b = false -> ~ In LWait tr.
Proof.
  induction 1; intros fuel Hw; (destruct fuel as [|fuel]; [discriminate|]); simpl in Hw; simpl;
    try (intros []; fail); try (intros [E|[]]; discriminate); try discriminate.
  - eapply IHexec; eauto.
  - apply orb_false_iff in Hw as [Ha Hb]. intro Hin. apply in_app_or in Hin as [Hin|Hin];
      [eapply IHexec1|eapply IHexec2]; eauto.
  - apply orb_false_iff in Hw as [Ha Hb]. eapply IHexec; eauto.
  - apply orb_false_iff in Hw as [Ha Hb]. eapply IHexec; eauto.
  - apply orb_false_iff in Hw as [Ha Hb]. eapply IHexec; eauto.
  - intro Hin. apply in_app_or in Hin as [Hin|Hin]; [eapply IHexec1; eauto|].
    eapply (IHexec2 (S fuel)); eauto.
  - eapply IHexec; eauto.
  - eapply IHexec; eauto.
Qed.

Lemma a_trace_exec procs : forall fuel b fl tr o fl',
  a_trace procs fuel b fl = Some (tr, o, fl') -> exec procs b fl tr o fl'.
Proof.
  induction fuel as [|fuel IH]; intros b fl tr o fl' H; [discriminate|]. destruct b; simpl in H.
  - injection H as <- <- <-. constructor.
  - injection H as <- <- <-. constructor.
  - injection H as <- <- <-. constructor.
  - injection H as <- <- <-. constructor.
  - injection H as <- <- <-. constructor.
  - injection H as <- <- <-. constructor.
  - destruct fl; [injection H as <- <- <-; constructor|].
    destruct (a_trace procs fuel b false) as [[[t1 o1] f1]|] eqn:E.
    + injection H as <- <- <-. apply EUnlessRun. apply IH. exact E.
    + injection H as <- <- <-. constructor.
  - destruct (a_trace procs fuel b1 fl) as [[[t1 [|]] f1]|] eqn:E1.
    + destruct (a_trace procs fuel b2 f1) as [[[t2 o2] f2]|] eqn:E2; [|discriminate].
      injection H as <- <- <-. eapply ESeqN; [apply IH; exact E1|apply IH; exact E2].
    + injection H as <- <- <-. apply ESeqR. apply IH. exact E1.
    + discriminate.
  - destruct (a_trace procs fuel b1 fl) as [[[t1 o1] f1]|] eqn:E1;
      destruct (a_trace procs fuel b2 fl) as [[[t2 o2] f2]|] eqn:E2; try discriminate.
    + destruct (Nat.ltb (length t1) (length t2) || _); injection H as <- <- <-;
        [apply EAltR; apply IH; exact E2|apply EAltL; apply IH; exact E1].
    + injection H as <- <- <-. apply EAltL. apply IH. exact E1.
    + injection H as <- <- <-. apply EAltR. apply IH. exact E2.
  - destruct (a_trace procs fuel b fl) as [[[t1 [|]] f1]|] eqn:E1.
    + injection H as <- <- <-. rewrite <- (app_nil_r t1). eapply ELoopN; [apply IH; exact E1|constructor].
    + injection H as <- <- <-. apply ELoopR. apply IH. exact E1.
    + injection H as <- <- <-. constructor.
  - destruct (a_trace procs fuel (body procs f) fl) as [[[t1 o1] f1]|] eqn:E1; [|discriminate].
    injection H as <- <- <-. eapply ECall. apply IH. exact E1.
Qed.

(* ------------------------------------------------------------------ *)
(* C. from lock classes to lock instances                               *)
(* ------------------------------------------------------------------ *)

(* cls: the class (rank) of a lock instance; a goroutine's operations and their classes *)
Definition abs_op (cls : nat -> nat) (g : gop) : lop :=
  match g with GAcq m l => LAcq m (cls l) | GRel m l => LRel m (cls l) | GWait _ => LWait end.
Definition abs_h (cls : nat -> nat) (h : list (mode * nat)) : list (mode * nat) :=
  map (fun x => (fst x, cls (snd x))) h.

(* a goroutine releases only what it holds, in the mode it holds it (the Go runtime aborts
   the program otherwise: "sync: Unlock of unlocked RWMutex") *)
Fixpoint relok (h : list (mode * nat)) (g : list gop) : Prop :=
  match g with
  | [] => True
  | GAcq m l :: r => relok ((m, l) :: h) r
  | GRel m l :: r => In (m, l) h /\ relok (remove1 m l h) r
  | GWait _ :: r => relok h r
  end.

Fixpoint hsorted (cls : nat -> nat) (h : list (mode * nat)) : Prop :=
  match h with
  | [] => True
  | x :: r => (forall y, In y r -> cls (snd y) < cls (snd x)) /\ hsorted cls r
  end.

Lemma remove1_in m l h x : In x (remove1 m l h) -> In x h.
Proof.
  induction h as [|y h IH]; simpl; [tauto|].
  destruct (mode_eqb (fst y) m && Nat.eqb (snd y) l); simpl; intro H; [right; exact H|].
  destruct H; [left; assumption|right; apply IH; assumption].
Qed.
Lemma hsorted_remove1 cls m l h : hsorted cls h -> hsorted cls (remove1 m l h).
Proof.
  induction h as [|y h IH]; simpl; [tauto|]. intros [H1 H2].
  destruct (mode_eqb (fst y) m && Nat.eqb (snd y) l); [exact H2|]. simpl. split; [|apply IH; exact H2].
  intros z Hz. apply H1. eapply remove1_in; eauto.
Qed.

Lemma abs_remove1 cls m l h :
  hsorted cls h -> In (m, l) h -> abs_h cls (remove1 m l h) = remove1 m (cls l) (abs_h cls h).
Proof.
  induction h as [|[m' l'] h IH]; simpl; [tauto|]. intros [Hs1 Hs2] Hin.
  destruct (mode_eqb m' m && Nat.eqb l' l) eqn:E.
  - apply andb_true_iff in E as [Em El]. apply Nat.eqb_eq in El. subst l'. rewrite Em, Nat.eqb_refl. reflexivity.
  - destruct Hin as [Hin | Hin]; [injection Hin as -> ->; destruct m; rewrite Nat.eqb_refl in E; discriminate|].
    destruct (mode_eqb m' m && Nat.eqb (cls l') (cls l)) eqn:E2.
    + apply andb_true_iff in E2 as [_ Ec]. apply Nat.eqb_eq in Ec.
      specialize (Hs1 _ Hin). simpl in Hs1. lia.
    + simpl. f_equal. apply IH; assumption.
Qed.

Lemma cdisc_disc cls g : forall h,
  hsorted cls h -> relok h g -> cdisc (abs_h cls h) (map (abs_op cls) g) = Some [] -> disc cls h g.
Proof.
  induction g as [|[m l|m l|js] r IH]; intros h Hs Hr Hc; simpl in *.
  - injection Hc as Hc. destruct h; [reflexivity|discriminate].
  - destruct (forallb _ (abs_h cls h)) eqn:Hf; [|discriminate].
    rewrite forallb_forall in Hf.
    assert (Hlt : forall x, In x h -> cls (snd x) < cls l).
    { intros x Hx. specialize (Hf (fst x, cls (snd x))). simpl in Hf. apply Nat.ltb_lt. apply Hf.
      unfold abs_h. apply in_map_iff. exists x. auto. }
    split; [exact Hlt|]. apply IH; [simpl; split; [exact Hlt|exact Hs]|exact Hr|exact Hc].
  - destruct Hr as [Hin Hr]. destruct (existsb _ (abs_h cls h)); [|discriminate].
    split; [exact Hin|]. apply IH; [apply hsorted_remove1; exact Hs|exact Hr|].
    rewrite abs_remove1; assumption.
  - destruct (abs_h cls h) eqn:Ha; [|discriminate]. destruct h; [|discriminate].
    split; [reflexivity|]. apply IH; assumption.
Qed.

(* a goroutine's class-level trace: a sequence of complete executions of entry points *)
Inductive calls (procs : list sk) (ok : nat -> Prop) : bool -> list lop -> Prop :=
| CNil fl : calls procs ok fl []
| CCons fl f tr o fl' rest : ok f -> exec procs (Call f) fl tr o fl' -> calls procs ok fl' rest ->
                             calls procs ok fl (tr ++ rest).

Lemma calls_cdisc procs fuel (ok : nat -> Prop) fl tr :
  (forall f, ok f -> entry_ok procs fuel f = true) -> calls procs ok fl tr -> cdisc [] tr = Some [].
Proof.
  intros Hok. induction 1; [reflexivity|]. rewrite cdisc_app.
  rewrite (entry_ok_sound _ _ _ _ _ _ _ (Hok _ H) H0). exact IHcalls.
Qed.

Lemma calls_nowait procs fuel (ok : nat -> Prop) fl tr :
  (forall f, ok f -> has_wait procs fuel (Call f) = false) -> calls procs ok fl tr -> ~ In LWait tr.
Proof.
  intros Hok. induction 1; [intros []|]. intro Hin. apply in_app_or in Hin as [Hin|Hin]; [|tauto].
  eapply has_wait_sound; eauto.
Qed.

Lemma nowait_abs cls g : ~ In LWait (map (abs_op cls) g) -> nowait g.
Proof.
  intros H js Hin. apply H. apply in_map_iff. exists (GWait js). auto.
Qed.

(* The composition: goroutines that run checked entry points ([api]: may wait for goroutines
   running [bg] entry points, which never wait) do not deadlock. *)
Theorem checked_no_deadlock procs fuel (api bg : nat -> Prop) cls gs sched :
  (forall f, api f -> entry_ok procs fuel f = true) ->
  (forall f, bg f -> entry_ok procs fuel f = true /\ has_wait procs fuel (Call f) = false) ->
  (forall g, In g gs -> relok [] g /\
     (calls procs api false (map (abs_op cls) g) \/ calls procs bg false (map (abs_op cls) g))) ->
  (forall g js j g', In g gs -> In (GWait js) g -> In j js -> nth_error gs j = Some g' ->
     calls procs bg false (map (abs_op cls) g')) ->
  let s := run (init gs) sched in
  forall k t, nth_error s k = Some t -> todo t <> [] -> enabled s k = false ->
  exists k', enabled s k' = true.
Proof.
  intros Hapi Hbg Hg Hw. apply disciplined_no_deadlock with (rk := cls).
  - intros g Hin. destruct (Hg _ Hin) as [Hr Hc]. apply cdisc_disc; [exact I|exact Hr|]. simpl.
    destruct Hc as [Hc|Hc].
    + eapply calls_cdisc; [|exact Hc]. exact Hapi.
    + eapply calls_cdisc; [|exact Hc]. intros f Hf. apply (Hbg f Hf).
  - intros g js j g' Hin Hgw Hj Hn. apply (nowait_abs cls).
    eapply calls_nowait; [|eapply Hw; eauto]. intros f Hf. apply (Hbg f Hf).
Qed.
