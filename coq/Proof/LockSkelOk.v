(* The lock skeleton of package tally (Gen/LockSkel.v, regenerated from the Go sources on every
   run by harness/lockx) passes the verified checker; hence goroutines using the scope API,
   together with the report-loop goroutines, never deadlock on the package's locks. *)
From Coq Require Import List Bool Arith.
Import ListNotations.
From Tally Require Import Model.Locks Proof.LocksSysP Proof.LocksP Gen.LockSkel.

Definition fuel : nat := 400.

Lemma translator_clean : translator_errors = 0.
Proof. reflexivity. Qed.

Lemma api_checked : forallb (entry_ok procs fuel) api = true.
Proof. vm_compute. reflexivity. Qed.

Lemma bg_checked :
  forallb (fun f => entry_ok procs fuel f && negb (has_wait procs fuel (Call f))) bg = true.
Proof. vm_compute. reflexivity. Qed.

(* a goroutine of the application: any sequence of calls of exported functions of the package;
   a background goroutine: one started by the package itself (the report loop) *)
Definition app_goroutine (cls : nat -> nat) (g : list gop) : Prop :=
  relok_c cls [] g /\ calls procs (fun f => In f api) false (map (abs_op cls) g).
Definition pkg_goroutine (cls : nat -> nat) (g : list gop) : Prop :=
  relok_c cls [] g /\ calls procs (fun f => In f bg) false (map (abs_op cls) g).

Theorem scope_locks_no_deadlock (cls : nat -> nat) (gs : list (list gop)) (sched : list nat) :
  (forall g, In g gs -> app_goroutine cls g \/ pkg_goroutine cls g) ->
  (* wg.Wait() in Close waits for report-loop goroutines only *)
  (forall g js j g', In g gs -> In (GWait js) g -> In j js -> nth_error gs j = Some g' -> pkg_goroutine cls g') ->
  let s := run (init gs) sched in
  forall k t, nth_error (ths s) k = Some t -> todo t <> [] -> enabled s k = false ->
  exists k', enabled s k' = true.
Proof.
  intros Hg Hw.
  apply (checked_no_deadlock procs fuel (fun f => In f api) (fun f => In f bg) cls).
  - intros f Hf. pose proof api_checked as H. rewrite forallb_forall in H. exact (H f Hf).
  - intros f Hf. pose proof bg_checked as H. rewrite forallb_forall in H. specialize (H f Hf).
    apply andb_true_iff in H as [H1 H2]. split; [exact H1|]. apply negb_true_iff in H2. exact H2.
  - intros g Hin. destruct (Hg g Hin) as [[Hr Hc] | [Hr Hc]]; (split; [exact Hr|]); [left|right]; exact Hc.
  - intros g js j g' Hin Hgw Hj Hn. destruct (Hw g js j g' Hin Hgw Hj Hn) as [_ Hc]. exact Hc.
Qed.

(* non-vacuity: some checked entry point really performs a long sequence of lock operations
   (the report loop: shard lock, per-scope locks, hand-over in removeWithRLock, clearMetrics),
   and the root's Close really contains a Wait *)
Definition longest (l : list nat) : nat :=
  fold_right Nat.max 0 (map (fun f => match a_trace procs fuel (Call f) false with
                                      | Some (tr, _, _) => length tr | None => 0 end) l).
Example skeleton_not_trivial :
  (exists f tr o fl', In f bg /\ exec procs (Call f) false tr o fl' /\ 20 <= length tr) /\
  (exists f, In f api /\ has_wait procs fuel (Call f) = true).
Proof.
  split.
  - assert (H : existsb (fun f => match a_trace procs fuel (Call f) false with
                                  | Some (tr, _, _) => Nat.leb 20 (length tr) | None => false end) bg = true)
      by (vm_compute; reflexivity).
    apply existsb_exists in H as (f & Hin & Hf).
    destruct (a_trace procs fuel (Call f) false) as [[[tr o] fl']|] eqn:E; [|discriminate].
    exists f, tr, o, fl'. split; [exact Hin|]. split; [apply (a_trace_exec _ _ _ _ _ _ _ E)|].
    apply Nat.leb_le. exact Hf.
  - assert (H : existsb (fun f => has_wait procs fuel (Call f)) api = true) by (vm_compute; reflexivity).
    apply existsb_exists in H as (f & Hin & Hf). exists f. auto.
Qed.

(* non-vacuity of the system model: a reader holds lock 1, a writer has announced itself and is
   blocked, a second reader is blocked behind the writer (writer preference); the first reader can move *)
Example writer_preference_blocks :
  let s := run (init [[GAcq W 1; GRel W 1]; [GAcq R 1; GRel R 1]; [GAcq R 1; GRel R 1]]) [1; 0; 2] in
  enabled s 0 = false /\ enabled s 2 = false /\ enabled s 1 = true.
Proof. vm_compute. auto. Qed.

(* the same goroutines also exclude each other: a goroutine that holds a lock for writing is the
   only holder of that lock, in every reachable state *)
Theorem scope_locks_mutual_exclusion (cls : nat -> nat) (gs : list (list gop)) (sched : list nat) :
  (forall g, In g gs -> app_goroutine cls g \/ pkg_goroutine cls g) ->
  (forall g js j g', In g gs -> In (GWait js) g -> In j js -> nth_error gs j = Some g' -> pkg_goroutine cls g') ->
  let s := run (init gs) sched in
  forall l i j u v, nth_error (ths s) i = Some u -> nth_error (ths s) j = Some v ->
  holds W l u = true -> holds_any l v = true -> i = j.
Proof.
  intros Hg Hw.
  apply (checked_mutual_exclusion procs fuel (fun f => In f api) (fun f => In f bg) cls).
  - intros f Hf. pose proof api_checked as H. rewrite forallb_forall in H. exact (H f Hf).
  - intros f Hf. pose proof bg_checked as H. rewrite forallb_forall in H. specialize (H f Hf).
    apply andb_true_iff in H as [H1 H2]. split; [exact H1|]. apply negb_true_iff in H2. exact H2.
  - intros g Hin. destruct (Hg g Hin) as [[Hr Hc] | [Hr Hc]]; (split; [exact Hr|]); [left|right]; exact Hc.
  - intros g js j g' Hin Hgw Hj Hn. destruct (Hw g js j g' Hin Hgw Hj Hn) as [_ Hc]. exact Hc.
Qed.

(* data guarded by a lock (the maps and slices of a scope, a registry shard, the bucket cache, a
   timer's values: Gen/LockSkel.v lists them): a goroutine about to write such data is the only one
   about to access it - conflicting accesses never overlap *)
Theorem scope_data_exclusive_access (cls : nat -> nat) (gs : list (list gop)) (sched : list nat) :
  (forall g, In g gs -> app_goroutine cls g \/ pkg_goroutine cls g) ->
  (forall g js j g', In g gs -> In (GWait js) g -> In j js -> nth_error gs j = Some g' -> pkg_goroutine cls g') ->
  let s := run (init gs) sched in
  forall l i j u v w ru rv, nth_error (ths s) i = Some u -> nth_error (ths s) j = Some v ->
  todo u = GUse true l :: ru -> todo v = GUse w l :: rv -> i = j.
Proof.
  intros Hg Hw.
  apply (checked_exclusive_access procs fuel (fun f => In f api) (fun f => In f bg) cls).
  - intros f Hf. pose proof api_checked as H. rewrite forallb_forall in H. exact (H f Hf).
  - intros f Hf. pose proof bg_checked as H. rewrite forallb_forall in H. specialize (H f Hf).
    apply andb_true_iff in H as [H1 H2]. split; [exact H1|]. apply negb_true_iff in H2. exact H2.
  - intros g Hin. destruct (Hg g Hin) as [[Hr Hc] | [Hr Hc]]; (split; [exact Hr|]); [left|right]; exact Hc.
  - intros g js j g' Hin Hgw Hj Hn. destruct (Hw g js j g' Hin Hgw Hj Hn) as [_ Hc]. exact Hc.
Qed.
