(* Proofs about Model/Prom.v, part 1: association lists, frame lemmas of the
   reporter operations, "no nil dereference" and "the callback gets the error"
   for every state and history of the repaired reporter. *)
From Coq Require Import ZArith List Bool Lia Arith.
From Tally Require Import Base.ObsCore Base.Search Model.Buckets Model.Prom.
Import ListNotations.
Open Scope Z_scope.

(* ---------------- equalities ---------------- *)
Lemma key_eqb_spec (a b : key) : key_eqb a b = true <-> a = b.
Proof.
  destruct a as [i l], b as [j m]; unfold key_eqb; cbn. rewrite andb_true_iff, Nat.eqb_eq, zss_eqb_spec.
  split; [intros [H1 H2]; congruence | intros H; inversion H; auto].
Qed.
Lemma mid_eqb_spec (a b : mid) : mid_eqb a b = true <-> a = b.
Proof.
  destruct a as [i l], b as [j m]; unfold mid_eqb; cbn. rewrite andb_true_iff, zs_eqb_spec, zss_eqb_spec.
  split; [intros [H1 H2]; congruence | intros H; inversion H; auto].
Qed.
Lemma key_eqb_refl k : key_eqb k k = true.
Proof. apply key_eqb_spec; reflexivity. Qed.
Lemma mid_eqb_refl k : mid_eqb k k = true.
Proof. apply mid_eqb_spec; reflexivity. Qed.
Lemma key_eqb_neq a b : a <> b -> key_eqb a b = false.
Proof. intro H. destruct (key_eqb a b) eqn:E; auto. apply key_eqb_spec in E. contradiction. Qed.
Lemma mid_eqb_neq a b : a <> b -> mid_eqb a b = false.
Proof. intro H. destruct (mid_eqb a b) eqn:E; auto. apply mid_eqb_spec in E. contradiction. Qed.

(* ---------------- association lists ---------------- *)
Section Assoc.
  Context {K V : Type} (eqb : K -> K -> bool).
  Hypothesis eqb_spec : forall a b, eqb a b = true <-> a = b.

  Lemma eqb_refl' k : eqb k k = true.
  Proof. apply eqb_spec; reflexivity. Qed.
  Lemma eqb_neq' a b : a <> b -> eqb a b = false.
  Proof. intro H. destruct (eqb a b) eqn:E; auto. apply eqb_spec in E. contradiction. Qed.

  Lemma afind_app_some k (l r : list (K * V)) v :
    afind eqb k l = Some v -> afind eqb k (l ++ r) = Some v.
  Proof.
    induction l as [|[k' v'] l IH]; cbn; [discriminate|].
    destruct (eqb k' k); auto.
  Qed.
  Lemma afind_app_none k (l r : list (K * V)) :
    afind eqb k l = None -> afind eqb k (l ++ r) = afind eqb k r.
  Proof.
    induction l as [|[k' v'] l IH]; cbn; [reflexivity|].
    destruct (eqb k' k); [discriminate | auto].
  Qed.
  Lemma afind_snoc_new k (l : list (K * V)) v :
    afind eqb k l = None -> afind eqb k (l ++ [(k, v)]) = Some v.
  Proof. intro H. rewrite afind_app_none by exact H. cbn. now rewrite eqb_refl'. Qed.
  Lemma afind_snoc_other k k' (l : list (K * V)) v :
    k' <> k -> afind eqb k (l ++ [(k', v)]) = afind eqb k l.
  Proof.
    intro N. destruct (afind eqb k l) eqn:E.
    - now apply afind_app_some.
    - rewrite afind_app_none by exact E. cbn. now rewrite (eqb_neq' k' k N).
  Qed.
  Lemma afind_aset_same k (l : list (K * V)) v v' :
    afind eqb k l = Some v -> afind eqb k (aset eqb k v' l) = Some v'.
  Proof.
    induction l as [|[k1 v1] l IH]; cbn; [discriminate|].
    destruct (eqb k1 k) eqn:E; cbn; rewrite E; auto.
  Qed.
  Lemma afind_aset_other k k' (l : list (K * V)) v' :
    k' <> k -> afind eqb k' (aset eqb k v' l) = afind eqb k' l.
  Proof.
    intro N. induction l as [|[k1 v1] l IH]; cbn; [reflexivity|].
    destruct (eqb k1 k) eqn:E; cbn.
    - apply eqb_spec in E; subst k1. now rewrite (eqb_neq' k k') by congruence.
    - destruct (eqb k1 k'); auto.
  Qed.
  Lemma afind_in k (l : list (K * V)) v : afind eqb k l = Some v -> In (k, v) l.
  Proof.
    induction l as [|[k1 v1] l IH]; cbn; [discriminate|].
    destruct (eqb k1 k) eqn:E; [|auto].
    apply eqb_spec in E; subst. intro H; inversion H; auto.
  Qed.
  Lemma afind_none_in k (l : list (K * V)) v : afind eqb k l = None -> ~ In (k, v) l.
  Proof.
    induction l as [|[k1 v1] l IH]; cbn; [auto|].
    destruct (eqb k1 k) eqn:E; [discriminate|]. intros H [H1|H1].
    - inversion H1; subst. rewrite eqb_refl' in E. discriminate.
    - now apply IH.
  Qed.
End Assoc.

(* ---------------- the registry ---------------- *)
Lemma find_name_lt n vs i : find_name n vs = Some i -> (i < length vs)%nat /\ vname (nth i vs dvec) = n.
Proof.
  revert i; induction vs as [|v vs IH]; intros i; cbn; [discriminate|].
  destruct (zs_eqb (vname v) n) eqn:E.
  - intro H; inversion H; subst. apply zs_eqb_spec in E. split; [lia | exact E].
  - destruct (find_name n vs) as [j|] eqn:F; cbn; [|discriminate].
    intro H; inversion H; subst. destruct (IH j eq_refl). split; [lia | assumption].
Qed.

Lemma find_name_app_some n vs ws i : find_name n vs = Some i -> find_name n (vs ++ ws) = Some i.
Proof.
  revert i; induction vs as [|v vs IH]; intros i; cbn; [discriminate|].
  destruct (zs_eqb (vname v) n); auto.
  destruct (find_name n vs) as [j|]; cbn; [|discriminate].
  intro H; inversion H; subst. now rewrite (IH j eq_refl).
Qed.

Lemma find_name_snoc_new n vs w : find_name n vs = None -> vname w = n ->
  find_name n (vs ++ [w]) = Some (length vs).
Proof.
  intros H W. induction vs as [|v vs IH]; cbn in *.
  - rewrite W. now rewrite (proj2 (zs_eqb_spec n n) eq_refl).
  - destruct (zs_eqb (vname v) n); [discriminate|].
    destruct (find_name n vs); [discriminate|]. now rewrite IH.
Qed.

Lemma find_name_snoc_other n vs w : vname w <> n -> find_name n (vs ++ [w]) = find_name n vs.
Proof.
  intro W. induction vs as [|v vs IH]; cbn.
  - destruct (zs_eqb (vname w) n) eqn:E; [apply zs_eqb_spec in E; contradiction | reflexivity].
  - destruct (zs_eqb (vname v) n); [reflexivity|]. now rewrite IH.
Qed.

Lemma find_name_none n vs v : find_name n vs = None -> In v vs -> vname v <> n.
Proof.
  induction vs as [|w vs IH]; cbn; [tauto|].
  destruct (zs_eqb (vname w) n) eqn:E; [discriminate|].
  destruct (find_name n vs); [discriminate|]. intros _ [H|H].
  - subst. intro Q. rewrite Q in E. now rewrite (proj2 (zs_eqb_spec n n) eq_refl) in E.
  - now apply IH.
Qed.

(* ---------------- shape of the vector functions ---------------- *)
(* what a *Vec call may change: only the registry and its own cache grow *)
Definition same_obs (s s' : state) : Prop :=
  sers s' = sers s /\ handles s' = handles s /\ cblog s' = cblog s.

Ltac vec_cases :=
  repeat match goal with
         | |- context [match ?x with _ => _ end] => destruct x eqn:?
         | |- context [if ?x then _ else _] => destruct x eqn:?
         end.

Lemma counter_vec_ok s n ks h : match snd (counter_vec s n ks h) with
                                | VOk None => False | VOk (Some _) => True
                                | VErr _ => fst (counter_vec s n ks h) = s end.
Proof.
  unfold counter_vec. destruct (afind mid_eqb (n, ks) (counters s)); [cbn; auto|].
  destruct (register _ _); cbn; auto.
Qed.
Lemma gauge_vec_ok s n ks h : match snd (gauge_vec s n ks h) with
                              | VOk None => False | VOk (Some _) => True
                              | VErr _ => fst (gauge_vec s n ks h) = s end.
Proof.
  unfold gauge_vec. destruct (afind mid_eqb (n, ks) (gauges s)); [cbn; auto|].
  destruct (register _ _); cbn; auto.
Qed.
Lemma summary_vec_ok s n ks h : match snd (summary_vec true s n ks h) with
                                | VOk None => False | VOk (Some _) => True
                                | VErr _ => fst (summary_vec true s n ks h) = s end.
Proof.
  unfold summary_vec. destruct (afind mid_eqb (n, ks) (timers s)) as [t|]; [destruct (tsum t); cbn; auto|].
  destruct (register _ _); cbn; auto.
Qed.
Lemma histogram_vec_ok s n ks h bs : match snd (histogram_vec true s n ks h bs) with
                                     | VOk None => False | VOk (Some _) => True
                                     | VErr _ => fst (histogram_vec true s n ks h bs) = s end.
Proof.
  unfold histogram_vec. destruct (afind mid_eqb (n, ks) (timers s)) as [t|]; [destruct (thist t); cbn; auto|].
  destruct (register _ _); cbn; auto.
Qed.

Lemma alloc_vec_ok c s u n ks : fixed c = true ->
  match snd (alloc_vec c s u n ks) with
  | VOk None => False | VOk (Some _) => True
  | VErr _ => fst (alloc_vec c s u n ks) = s end.
Proof.
  intro F. unfold alloc_vec. rewrite F. destruct u.
  - apply counter_vec_ok.
  - apply gauge_vec_ok.
  - destruct (ttype c =? 1); [apply histogram_vec_ok|].
    destruct (ttype c =? 0); [apply summary_vec_ok | reflexivity].
  - apply histogram_vec_ok.
Qed.

Lemma reg_vec_ok c s u n ks h : fixed c = true ->
  match snd (reg_vec c s u n ks h) with
  | VOk None => False | VOk (Some _) => True
  | VErr _ => fst (reg_vec c s u n ks h) = s end.
Proof.
  intro F. unfold reg_vec. rewrite F. destruct u.
  - apply counter_vec_ok.
  - apply gauge_vec_ok.
  - cbv zeta. destruct ((if ty <? 0 then ttype c else ty) =? 1); [apply histogram_vec_ok|].
    destruct ((if ty <? 0 then ttype c else ty) =? 0); [apply summary_vec_ok | reflexivity].
Qed.

(* ---------------- conflict_never_nil ---------------- *)
Definition is_nil (o : outcome) : bool :=
  match o with ONilDeref | ORegOk None => true | _ => false end.

Lemma rstep_no_nil c s o : fixed c = true -> is_nil (snd (rstep c s o)) = false.
Proof.
  intro F. destruct o as [u n tags|h d|u n ks hp]; cbn; [| reflexivity |].
  - pose proof (alloc_vec_ok c s u n (map fst tags) F) as H.
    unfold finish. destruct (snd (alloc_vec c s u n (map fst tags))) as [[v|]|e]; cbn;
      [reflexivity | contradiction |].
    destruct (cbret c (length (cblog (fst (alloc_vec c s u n (map fst tags)))))); reflexivity.
  - pose proof (reg_vec_ok c s u n ks hp F) as H.
    destruct (snd (reg_vec c s u n ks hp)) as [[v|]|e]; cbn; [reflexivity | contradiction | reflexivity].
Qed.

Theorem never_nil c : fixed c = true ->
  forall ops s, forallb (fun o => negb (is_nil o)) (snd (rrun c s ops)) = true.
Proof.
  intros F ops; induction ops as [|o r IH]; intro s; cbn; [reflexivity|].
  destruct (rstep c s o) as [s1 out] eqn:E. specialize (IH s1).
  destruct (rrun c s1 r) as [s2 outs]; cbn in *.
  pose proof (rstep_no_nil c s o F) as N. rewrite E in N; cbn in N. now rewrite N, IH.
Qed.

(* the same for any number of reporters sharing the registry: every operation
   is a step of the one-reporter machine from SOME state *)
Theorem never_nil_multi c : fixed c = true ->
  forall ops t, forallb (fun o => negb (is_nil o)) (snd (xrun c t ops)) = true.
Proof.
  intros F ops; induction ops as [|o r IH]; intro t; cbn [xrun]; [reflexivity|].
  destruct (xstep c t o) as [t1 o1] eqn:E. specialize (IH t1).
  destruct (xrun c t1 r) as [t2 o2]; cbn [snd] in *.
  rewrite forallb_app, IH, andb_true_r.
  destruct o as [k|o]; cbn [xstep] in E.
  - destruct (Nat.eqb k (xcur t)); inversion E; reflexivity.
  - pose proof (rstep_no_nil c (xs t) o F) as N.
    destruct (rstep c (xs t) o) as [s1 out]. inversion E; subst. cbn in *. now rewrite N.
Qed.

(* every Allocate* hands back a metric (a real child or the no-op) unless the
   callback itself panics; the metric is then usable: reports through any
   handle are total functions of the state (rstep (RDeliver ..) = ODone) *)
Theorem alloc_returns_metric c s u n tags : fixed c = true ->
  let r := rstep c s (RAlloc u n tags) in
  (exists m, snd r = OMetric m /\ nth_error (handles (fst r)) (length (handles s)) = Some m) \/
  (exists cls, snd r = OCbPanic cls /\ cbret c (length (cblog s)) = false).
Proof.
  intro F. cbn. pose proof (alloc_vec_ok c s u n (map fst tags) F) as H.
  unfold finish.
  assert (Hh : forall s1, snd (alloc_vec c s u n (map fst tags)) = VOk (Some s1) \/ True) by auto.
  destruct (alloc_vec c s u n (map fst tags)) as [s1 r] eqn:E; cbn in *.
  assert (HS : handles s1 = handles s /\ cblog s1 = cblog s).
  { clear H. unfold alloc_vec, counter_vec, gauge_vec, summary_vec, histogram_vec in E.
    destruct u; repeat match type of E with
                       | context [match ?x with _ => _ end] => destruct x
                       | context [if ?x then _ else _] => destruct x
                       end; inversion E; subst; cbn; auto. }
  destruct HS as [HS1 HS2].
  destruct r as [[v|]|e]; [| contradiction |].
  - left. eexists; split; [reflexivity|]. cbn.
    assert (handles (with_series s1 (v, map snd tags)) = handles s1).
    { unfold with_series. destruct (afind key_eqb (v, map snd tags) (sers s1)); reflexivity. }
    rewrite H0, HS1. rewrite nth_error_app2 by lia. now rewrite Nat.sub_diag.
  - subst s1. unfold callback. destruct (cbret c (length (cblog s))) eqn:R.
    + left. eexists; split; [reflexivity|]. cbn.
      rewrite nth_error_app2 by lia. now rewrite Nat.sub_diag.
    + right. eexists; split; [reflexivity | reflexivity].
Qed.

(* ---------------- callback_gets_error ---------------- *)
(* For EVERY state: when the vector lookup / registration of an Allocate*
   fails with e, the callback is invoked exactly once, with e, nothing else
   changes, and the caller gets the no-op metric iff the callback returns;
   when it succeeds the callback is not invoked. *)
Theorem callback_gets_error c s u n tags :
  let sr := alloc_vec c s u n (map fst tags) in
  let r := rstep c s (RAlloc u n tags) in
  match snd sr with
  | VErr e =>
      cblog (fst r) = cblog (fst sr) ++ [eclass e] /\
      vecs (fst r) = vecs (fst sr) /\ sers (fst r) = sers (fst sr) /\
      snd r = (if cbret c (length (cblog (fst sr))) then OMetric MNoop else OCbPanic (eclass e))
  | VOk _ => cblog (fst r) = cblog (fst sr)
  end.
Proof.
  cbn. unfold finish. destruct (snd (alloc_vec c s u n (map fst tags))) as [[v|]|e]; cbn.
  - unfold with_series. destruct (afind key_eqb _ _); reflexivity.
  - reflexivity.
  - repeat split; reflexivity.
Qed.

(* Register's verdict, spelled out: a name that is registered with another
   help string or other label names is rejected as inconsistent, with the same
   ones as already registered, an unknown name is accepted *)
Lemma register_spec vs v :
  match register vs v with
  | None => forall w, In w vs -> vname w <> vname v
  | Some EInconsistent =>
      exists w, In w vs /\ vname w = vname v /\ (vhelp w <> vhelp v \/ vkeys w <> vkeys v)
  | Some (EAlready i) =>
      nth_error vs i = Some (nth i vs dvec) /\ vname (nth i vs dvec) = vname v /\
      vhelp (nth i vs dvec) = vhelp v /\ vkeys (nth i vs dvec) = vkeys v
  | Some EOther => False
  end.
Proof.
  unfold register. destruct (find_name (vname v) vs) as [i|] eqn:F.
  - destruct (find_name_lt _ _ _ F) as [L N].
    destruct (dim_eqb (nth i vs dvec) v) eqn:D; unfold dim_eqb in D.
    + apply andb_true_iff in D as [D1 D2]. apply zs_eqb_spec in D1. apply zss_eqb_spec in D2.
      repeat split; auto. now apply nth_error_nth'.
    + exists (nth i vs dvec). split; [now apply nth_In|]. split; [exact N|].
      apply andb_false_iff in D as [D|D]; [left|right]; intro Q; rewrite Q in D.
      * now rewrite (proj2 (zs_eqb_spec _ _) eq_refl) in D.
      * now rewrite (proj2 (zss_eqb_spec _ _) eq_refl) in D.
  - intros w W. now apply (find_name_none _ _ _ F).
Qed.
