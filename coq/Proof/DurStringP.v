(* Duration.String() (Model/DurString.v): the rendering has the shape the StatsD stat names need,
   and it is injective: reading it back gives the duration. *)
From Coq Require Import ZArith List Bool Lia.
From Tally Require Import Model.DurString.
Import ListNotations.
Open Scope Z_scope.

Definition all_dig (l : dbytes) : Prop := Forall (fun b => isdig b = true) l.
Definition dfold (l : dbytes) (c : Z) : Z := fold_left (fun a b => a * 10 + (b - 48)) l c.

Lemma isdig_dg n : 0 <= n < 10 -> isdig (dg n) = true.
Proof. intros H. unfold isdig, dg. apply andb_true_iff. split; apply Z.leb_le; lia. Qed.
Lemma mod10 v : 0 <= v mod 10 < 10.
Proof. apply Z.mod_pos_bound. lia. Qed.

Lemma all_dig_app a b : all_dig a -> all_dig b -> all_dig (a ++ b).
Proof. unfold all_dig. rewrite Forall_app. auto. Qed.
Lemma fixed_all_dig k : forall v, all_dig (fixed_digits k v).
Proof. induction k as [|k IH]; intros v; cbn [fixed_digits]; [constructor|].
  apply all_dig_app; [apply IH|]. constructor; [apply isdig_dg, mod10|constructor]. Qed.
Lemma int_all_dig f : forall v, all_dig (int_digits f v).
Proof. induction f as [|f IH]; intros v; cbn [int_digits]; [constructor|].
  destruct (v =? 0); [constructor|]. apply all_dig_app; [apply IH|]. constructor; [apply isdig_dg, mod10|constructor]. Qed.
Lemma fmt_int_all_dig v : all_dig (fmt_int v).
Proof. unfold fmt_int. destruct (v =? 0); [|apply int_all_dig]. constructor; [reflexivity|constructor]. Qed.

Lemma dfold_app l d c : dfold (l ++ [d]) c = dfold l c * 10 + (d - 48).
Proof. unfold dfold. rewrite fold_left_app. reflexivity. Qed.
Lemma dfold_shift l : forall c, dfold l c = c * 10 ^ Z.of_nat (length l) + dfold l 0.
Proof.
  induction l as [|b l IH]; intros c; [cbn; lia|].
  change (dfold (b :: l) c) with (dfold l (c * 10 + (b - 48))).
  change (dfold (b :: l) 0) with (dfold l (0 * 10 + (b - 48))).
  rewrite (IH (c * 10 + (b - 48))), (IH (0 * 10 + (b - 48))).
  cbn [length]. rewrite Nat2Z.inj_succ, Z.pow_succ_r by lia. lia.
Qed.

Lemma fixed_length k : forall v, length (fixed_digits k v) = k.
Proof. induction k as [|k IH]; intros v; cbn [fixed_digits]; [reflexivity|]. rewrite app_length, IH. cbn. lia. Qed.

Lemma dfold_fixed k : forall v, 0 <= v -> dfold (fixed_digits k v) 0 = v mod 10 ^ Z.of_nat k.
Proof.
  induction k as [|k IH]; intros v Hv; cbn [fixed_digits].
  - cbn. rewrite Z.mod_1_r. reflexivity.
  - rewrite dfold_app, IH by (apply Z.div_pos; lia). unfold dg.
    rewrite Nat2Z.inj_succ, Z.pow_succ_r by lia.
    replace (48 + v mod 10 - 48) with (v mod 10) by lia.
    rewrite Z.rem_mul_r by (try apply Z.pow_nonzero; try apply Z.pow_pos_nonneg; lia). lia.
Qed.

Lemma dfold_int f : forall v, 0 <= v < 10 ^ Z.of_nat f -> dfold (int_digits f v) 0 = v.
Proof.
  induction f as [|f IH]; intros v Hv; cbn [int_digits].
  - cbn in Hv. assert (v = 0) by lia. subst. reflexivity.
  - destruct (Z.eqb_spec v 0) as [->|N]; [reflexivity|].
    rewrite Nat2Z.inj_succ, Z.pow_succ_r in Hv by lia.
    rewrite dfold_app, IH.
    + unfold dg. pose proof (Z.div_mod v 10 ltac:(lia)). lia.
    + split; [apply Z.div_pos; lia|]. apply Z.div_lt_upper_bound; lia.
Qed.

Lemma dfold_fmt_int v : 0 <= v < 10 ^ 20 -> dfold (fmt_int v) 0 = v.
Proof. intros H. unfold fmt_int. destruct (Z.eqb_spec v 0) as [->|N]; [reflexivity|]. apply dfold_int. exact H. Qed.

Lemma int_digits_S f v : (v =? 0) = false -> int_digits (S f) v = int_digits f (v / 10) ++ [dg (v mod 10)].
Proof. intros E. cbn [int_digits]. rewrite E. reflexivity. Qed.

Lemma fmt_int_nonempty v : exists b r, fmt_int v = b :: r /\ isdig b = true.
Proof.
  pose proof (fmt_int_all_dig v) as A. unfold fmt_int in *.
  destruct (v =? 0) eqn:E0; [exists 48, []; split; reflexivity|].
  change 20%nat with (S 19) in *. rewrite (int_digits_S 19 v E0) in *.
  destruct (int_digits 19 (v / 10) ++ [dg (v mod 10)]) as [|b r] eqn:E.
  - destruct (int_digits 19 (v / 10)); discriminate.
  - exists b, r. split; auto. inversion A; auto.
Qed.

(* trailing zeros *)
Lemma rstrip0_spec l : all_dig l ->
  exists n, l = rstrip0 l ++ repeat 48 n /\ length l = (length (rstrip0 l) + n)%nat /\ all_dig (rstrip0 l).
Proof.
  induction l as [|x r IH]; intros A.
  - exists 0%nat. cbn. split; [reflexivity|]. split; [reflexivity|constructor].
  - inversion A as [|? ? Hx Hr]; subst. destruct (IH Hr) as (n & E & L & D). cbn [rstrip0].
    destruct (rstrip0 r) as [|y r'] eqn:R.
    + destruct (Z.eqb_spec x 48) as [->|N].
      * exists (S n). cbn [app repeat length] in *. split; [rewrite E at 1; reflexivity|]. split; [lia|constructor].
      * exists n. cbn [app repeat length] in *. split; [rewrite E at 1; reflexivity|]. split; [lia|].
        constructor; [exact Hx|constructor].
    + exists n. cbn [app length] in *. split; [rewrite E at 1; reflexivity|]. split; [lia|].
      constructor; [exact Hx|exact D].
Qed.

Lemma dfold_zeros n : forall c, dfold (repeat 48 n) c = c * 10 ^ Z.of_nat n.
Proof.
  induction n as [|n IH]; intros c; [cbn; lia|]. cbn [repeat].
  change (dfold (48 :: repeat 48 n) c) with (dfold (repeat 48 n) (c * 10 + (48 - 48))).
  rewrite IH, Nat2Z.inj_succ, Z.pow_succ_r by lia. lia.
Qed.

(* the value of the fraction digits, scaled back *)
Lemma frac_value prec w B : 0 <= w < 10 ^ Z.of_nat prec ->
  let ds := rstrip0 (fixed_digits prec w) in
  dfold ds 0 * ((10 ^ Z.of_nat prec * B) / 10 ^ Z.of_nat (length ds)) = w * B.
Proof.
  intros Hw ds. destruct (rstrip0_spec _ (fixed_all_dig prec w)) as (n & E & L & D). fold ds in E, L, D.
  rewrite fixed_length in L.
  assert (V : dfold (fixed_digits prec w) 0 = w) by (rewrite dfold_fixed by lia; apply Z.mod_small; lia).
  rewrite E in V. unfold dfold in V. rewrite fold_left_app in V. fold (dfold ds 0) in V.
  fold (dfold (repeat 48 n) (dfold ds 0)) in V. rewrite dfold_zeros in V.
  assert (P : 10 ^ Z.of_nat prec = 10 ^ Z.of_nat (length ds) * 10 ^ Z.of_nat n).
  { rewrite L, Nat2Z.inj_add, Z.pow_add_r by lia. reflexivity. }
  rewrite P. replace (10 ^ Z.of_nat (length ds) * 10 ^ Z.of_nat n * B) with ((10 ^ Z.of_nat n * B) * 10 ^ Z.of_nat (length ds)) by ring.
  rewrite Z.div_mul by (apply Z.pow_nonzero; lia). rewrite <- V. ring.
Qed.

(* ---------------- reading back ---------------- *)
Definition mk t c f sc i p := {| tot := t; cur := c; frac := f; fscale := sc; infrac := i; pm := p |}.
Definition prun (l : dbytes) (s : pst) : pst := fold_left pstep l s.
Lemma prun_app a b s : prun (a ++ b) s = prun b (prun a s).
Proof. unfold prun. apply fold_left_app. Qed.
Lemma prun_cons b l s : prun (b :: l) s = prun l (pstep s b).
Proof. reflexivity. Qed.
Lemma prun_nil s : prun [] s = s.
Proof. reflexivity. Qed.

Lemma step_dig_int t c f sc b : isdig b = true ->
  pstep (mk t c f sc false false) b = mk t (c * 10 + (b - 48)) f sc false false.
Proof. intros H. unfold pstep, pstep0, mk. cbn [pm infrac tot cur frac fscale]. rewrite H. reflexivity. Qed.
Lemma step_dig_frac t c f sc b : isdig b = true ->
  pstep (mk t c f sc true false) b = mk t c (f * 10 + (b - 48)) (sc * 10) true false.
Proof. intros H. unfold pstep, pstep0, mk. cbn [pm infrac tot cur frac fscale]. rewrite H. reflexivity. Qed.

Lemma run_int l : all_dig l -> forall t c f sc,
  prun l (mk t c f sc false false) = mk t (dfold l c) f sc false false.
Proof.
  induction l as [|b l IH]; intros A t c f sc; [reflexivity|]. inversion A as [|? ? Hb Hl]; subst.
  rewrite prun_cons, step_dig_int by exact Hb. rewrite IH by exact Hl. reflexivity.
Qed.
Lemma run_frac l : all_dig l -> forall t c f sc,
  prun l (mk t c f sc true false) = mk t c (dfold l f) (sc * 10 ^ Z.of_nat (length l)) true false.
Proof.
  induction l as [|b l IH]; intros A t c f sc.
  - cbn. unfold mk. f_equal. lia.
  - inversion A as [|? ? Hb Hl]; subst. rewrite prun_cons, step_dig_frac by exact Hb. rewrite IH by exact Hl.
    cbn [length]. rewrite Nat2Z.inj_succ, Z.pow_succ_r by lia. unfold mk. f_equal. lia.
Qed.

Lemma isdig_not b : isdig b = true -> b <> 45 /\ b <> 46 /\ b <> 104 /\ b <> 109 /\ b <> 110 /\ b <> 115 /\ b <> 181 /\ b <> 194.
Proof. unfold isdig. intros H. apply andb_true_iff in H as [H1 H2]. apply Z.leb_le in H1, H2. lia. Qed.

(* a digit after 'm': the pending unit was minutes *)
Lemma step_pm_dig t c f sc i b : isdig b = true ->
  pstep (mk t c f sc i true) b = pstep (pclose (mk t c f sc i true) (60 * SEC)) b.
Proof.
  intros H. unfold pstep at 1. cbn [pm mk]. destruct (isdig_not b H) as (_ & _ & _ & _ & _ & N & _).
  destruct (Z.eqb_spec b 115); [contradiction|]. reflexivity.
Qed.
Lemma run_fmt_int_pm v t c f sc i :
  prun (fmt_int v) (mk t c f sc i true) = prun (fmt_int v) (pclose (mk t c f sc i true) (60 * SEC)).
Proof.
  destruct (fmt_int_nonempty v) as (b & r & E & Hb). rewrite E, !prun_cons, step_pm_dig by exact Hb. reflexivity.
Qed.

Definition P20 : Z := 100000000000000000000.
Lemma p20 : 10 ^ 20 = P20. Proof. reflexivity. Qed.

(* "<int>[.<frac>]" read from a fresh unit: the state before the unit letter *)
Lemma run_int_frac t v u prec :
  0 <= v < P20 -> 0 <= u ->
  exists s, prun (fmt_int v ++ fmt_frac u prec) (mk t 0 0 1 false false) = s /\ pm s = false /\
    forall U B, U = 10 ^ Z.of_nat prec * B ->
      pclose s U = mk (t + v * U + (u mod 10 ^ Z.of_nat prec) * B) 0 0 1 false false.
Proof.
  intros Hv Hu. rewrite prun_app, run_int by apply fmt_int_all_dig.
  rewrite dfold_fmt_int by (rewrite p20; exact Hv).
  set (w := u mod 10 ^ Z.of_nat prec).
  assert (Hw : 0 <= w < 10 ^ Z.of_nat prec) by (apply Z.mod_pos_bound, Z.pow_pos_nonneg; lia).
  unfold fmt_frac. fold w.
  pose proof (frac_value prec w) as FV. cbv zeta in FV.
  destruct (rstrip0_spec _ (fixed_all_dig prec w)) as (n & _ & _ & D).
  destruct (rstrip0 (fixed_digits prec w)) as [|d ds] eqn:R.
  - rewrite prun_nil. eexists. split; [reflexivity|]. split; [reflexivity|]. intros U B ->.
    specialize (FV B Hw). unfold dfold in FV. cbn [length fold_left] in FV.
    unfold pclose, mk. cbn [tot cur frac fscale]. f_equal. lia.
  - rewrite prun_cons.
    assert (S46 : pstep (mk t v 0 1 false false) 46 = mk t v 0 1 true false) by reflexivity.
    rewrite S46, run_frac by exact D.
    eexists. split; [reflexivity|]. split; [reflexivity|]. intros U B ->.
    specialize (FV B Hw). unfold pclose, mk. cbn [tot cur frac fscale]. f_equal.
    rewrite Z.mul_1_l. lia.
Qed.

Lemma step_unit_s s : pm s = false -> pstep s 115 = pclose s SEC.
Proof. intros H. unfold pstep. rewrite H. reflexivity. Qed.
Lemma step_unit_ms s : pm s = true -> pstep s 115 = pclose s 1000000.
Proof. intros H. unfold pstep. rewrite H. reflexivity. Qed.
Lemma step_unit_n s : pm s = false -> pstep s 110 = pclose s 1.
Proof. intros H. unfold pstep. rewrite H. reflexivity. Qed.
Lemma step_unit_u s : pm s = false -> pstep s 181 = pclose s 1000.
Proof. intros H. unfold pstep. rewrite H. reflexivity. Qed.
Lemma step_c2 s : pm s = false -> pstep s 194 = s.
Proof. intros H. unfold pstep. rewrite H. reflexivity. Qed.
Lemma step_h s : pm s = false -> pstep s 104 = pclose s (3600 * SEC).
Proof. intros H. unfold pstep. rewrite H. reflexivity. Qed.
Lemma step_m t c f sc i : pstep (mk t c f sc i false) 109 = mk t c f sc i true.
Proof. reflexivity. Qed.
Lemma pclose_zero t U : pclose (mk t 0 0 1 false false) U = mk t 0 0 1 false false.
Proof. unfold pclose, mk. cbn [tot cur frac fscale]. f_equal. lia. Qed.

Lemma pow0 U : U = 10 ^ Z.of_nat 0 * U.
Proof. change (10 ^ Z.of_nat 0) with 1. lia. Qed.

Definition MAXU : Z := 9223372036854775808.    (* 2^63 = |MinInt64| *)

Theorem dur_val_abs u : 0 <= u <= MAXU -> dur_val (dur_abs u) = u.
Proof.
  intros Hu. unfold dur_val. fold (prun (dur_abs u) pinit). change pinit with (mk 0 0 0 1 false false).
  unfold dur_abs, MAXU, SEC in *.
  destruct (Z.ltb_spec u 1000000000) as [L|L].
  - destruct (Z.eqb_spec u 0) as [->|N0]; [reflexivity|].
    destruct (Z.ltb_spec u 1000) as [L1|L1]; [|destruct (Z.ltb_spec u 1000000) as [L2|L2]].
    + (* ns *)
      destruct (run_int_frac 0 u 0 0) as (s & E & Pm & C); [unfold P20; lia|lia|].
      change (fmt_frac 0 0) with (@nil Z) in E. rewrite app_nil_r in E.
      unfold U_NS. rewrite prun_app, E, !prun_cons, step_unit_n by exact Pm.
      rewrite (C 1 1) by apply pow0. rewrite step_unit_s, pclose_zero by reflexivity.
      cbn [prun fold_left mk tot]. rewrite Z.mod_1_r. lia.
    + (* µs *)
      destruct (run_int_frac 0 (u / 1000) u 3) as (s & E & Pm & C).
      { unfold P20. split; [apply Z.div_pos; lia|apply Z.div_lt_upper_bound; lia]. } { lia. }
      unfold U_US. rewrite app_assoc, prun_app, E, !prun_cons, step_c2, step_unit_u by exact Pm.
      rewrite (C 1000 1) by reflexivity. rewrite step_unit_s, pclose_zero by reflexivity.
      cbn [prun fold_left mk tot]. change (10 ^ Z.of_nat 3) with 1000.
      pose proof (Z.div_mod u 1000 ltac:(lia)). lia.
    + (* ms *)
      destruct (run_int_frac 0 (u / 1000000) u 6) as (s & E & Pm & C).
      { unfold P20. split; [apply Z.div_pos; lia|apply Z.div_lt_upper_bound; lia]. } { lia. }
      unfold U_MS. rewrite app_assoc, prun_app, E, !prun_cons.
      assert (Es : exists t c f sc i, s = mk t c f sc i false).
      { destruct s as [t c f sc i p]. cbn in Pm. subst p. repeat eexists. }
      destruct Es as (t & c & f & sc & i & ->). rewrite step_m, step_unit_ms by reflexivity.
      assert (Q : pclose (mk t c f sc i true) 1000000 = pclose (mk t c f sc i false) 1000000) by reflexivity.
      rewrite Q, (C 1000000 1) by reflexivity.
      cbn [prun fold_left mk tot]. change (10 ^ Z.of_nat 6) with 1000000.
      pose proof (Z.div_mod u 1000000 ltac:(lia)). lia.
  - (* seconds and above *)
    cbv zeta.
    set (secs := u / 1000000000). set (mins := secs / 60). set (hrs := mins / 60).
    assert (Hs : 0 <= secs <= u).
    { unfold secs. split; [apply Z.div_pos; lia|]. apply Z.div_le_upper_bound; lia. }
    assert (Hm : 0 <= mins <= secs).
    { unfold mins. split; [apply Z.div_pos; lia|]. apply Z.div_le_upper_bound; lia. }
    assert (Hh : 0 <= hrs <= mins).
    { unfold hrs. split; [apply Z.div_pos; lia|]. apply Z.div_le_upper_bound; lia. }
    pose proof (Z.div_mod u 1000000000 ltac:(lia)) as D1. fold secs in D1.
    pose proof (Z.div_mod secs 60 ltac:(lia)) as D2. fold mins in D2.
    pose proof (Z.div_mod mins 60 ltac:(lia)) as D3. fold hrs in D3.
    pose proof (Z.mod_pos_bound u 1000000000 ltac:(lia)) as B1.
    pose proof (Z.mod_pos_bound secs 60 ltac:(lia)) as B2.
    pose proof (Z.mod_pos_bound mins 60 ltac:(lia)) as B3.
    (* hours *)
    assert (EH : exists T, prun (if 0 <? hrs then fmt_int hrs ++ [104] else []) (mk 0 0 0 1 false false) = mk T 0 0 1 false false /\
                           T = hrs * 3600000000000).
    { destruct (Z.ltb_spec 0 hrs) as [P|P].
      - destruct (run_int_frac 0 hrs 0 0) as (s & E & Pm & C); [unfold P20; lia|lia|].
        change (fmt_frac 0 0) with (@nil Z) in E. rewrite app_nil_r in E.
        rewrite prun_app, E, prun_cons, step_h by exact Pm.
        rewrite (C (3600 * SEC) (3600 * SEC)) by apply pow0.
        eexists. split; [reflexivity|]. rewrite Z.mod_1_r. unfold SEC. lia.
      - exists 0. split; [reflexivity|]. lia. }
    destruct EH as (T & EH & HT).
    unfold dbytes in *. rewrite prun_app, EH.
    (* minutes, then seconds *)
    destruct (run_int_frac (T + (mins mod 60) * 60000000000) (secs mod 60) u 9) as (s & E & Pm & C); [unfold P20; lia|lia|].
    assert (EM : prun ((if 0 <? mins then fmt_int (mins mod 60) ++ [109] else []) ++ fmt_int (secs mod 60) ++ fmt_frac u 9)
                      (mk T 0 0 1 false false) = s).
    { destruct (Z.ltb_spec 0 mins) as [P|P].
      - destruct (run_int_frac T (mins mod 60) 0 0) as (s1 & E1 & Pm1 & C1); [unfold P20; lia|lia|].
        change (fmt_frac 0 0) with (@nil Z) in E1. rewrite app_nil_r in E1.
        rewrite prun_app, (prun_app (fmt_int (mins mod 60)) [109]), E1, prun_cons.
        assert (Es : exists t c f sc i, s1 = mk t c f sc i false).
        { destruct s1 as [t c f sc i p]. cbn in Pm1. subst p. repeat eexists. }
        destruct Es as (t & c & f & sc & i & ->). rewrite step_m.
        rewrite prun_nil, prun_app, run_fmt_int_pm.
        assert (Q : pclose (mk t c f sc i true) (60 * SEC) = pclose (mk t c f sc i false) (60 * SEC)) by reflexivity.
        rewrite Q, (C1 (60 * SEC) (60 * SEC)) by apply pow0.
        rewrite <- prun_app. rewrite <- E. f_equal. unfold mk. f_equal. rewrite Z.mod_1_r. unfold SEC. lia.
      - cbn [app]. rewrite <- E. f_equal. unfold mk. f_equal.
        assert (mins = 0) by lia. replace (mins mod 60) with 0 by (rewrite H; reflexivity). lia. }
    replace ((if 0 <? mins then fmt_int (mins mod 60) ++ [109] else []) ++ fmt_int (secs mod 60) ++ fmt_frac u 9 ++ [115])
      with (((if 0 <? mins then fmt_int (mins mod 60) ++ [109] else []) ++ fmt_int (secs mod 60) ++ fmt_frac u 9) ++ [115])
      by (rewrite <- !app_assoc; reflexivity).
    unfold dbytes in *. rewrite prun_app, EM, prun_cons, step_unit_s by exact Pm.
    rewrite (C SEC 1) by (unfold SEC; change (10 ^ Z.of_nat 9) with 1000000000; lia). cbn [prun fold_left mk tot].
    change (10 ^ Z.of_nat 9) with 1000000000.
    unfold SEC. lia.
Qed.

(* ---------------- consequences ---------------- *)
Lemma app_head (a b : dbytes) x r : a = x :: r -> exists r', a ++ b = x :: r'.
Proof. intros ->. eexists. reflexivity. Qed.

Lemma dur_abs_head u : exists b r, dur_abs u = b :: r /\ isdig b = true.
Proof.
  assert (F : forall v rest, exists b r, fmt_int v ++ rest = b :: r /\ isdig b = true).
  { intros v rest. destruct (fmt_int_nonempty v) as (b & r & E & Hb). rewrite E. exists b, (r ++ rest). auto. }
  unfold dur_abs. destruct (u <? SEC).
  - destruct (u =? 0); [exists 48, [115]; split; reflexivity|].
    destruct (u <? 1000); [apply F|]. destruct (u <? 1000000); apply F.
  - cbv zeta. destruct (0 <? u / SEC / 60 / 60).
    + rewrite <- app_assoc. apply F.
    + cbn [app]. destruct (0 <? u / SEC / 60); [rewrite <- app_assoc|cbn [app]]; apply F.
Qed.

Definition MINI64 : Z := -9223372036854775808.
Definition MAXI64 : Z := 9223372036854775807.

(* reading the rendering back gives the duration: Duration.String() is injective on int64 *)
Theorem dur_read_string d : MINI64 <= d <= MAXI64 -> dur_read (dur_string d) = d.
Proof.
  unfold MINI64, MAXI64. intros H. unfold dur_string. destruct (Z.ltb_spec d 0) as [N|N].
  - cbn [dur_read]. change (45 =? 45) with true. cbv iota. rewrite dur_val_abs by (unfold MAXU; lia). lia.
  - destruct (dur_abs_head d) as (b & r & E & Hb). rewrite E. cbn [dur_read].
    destruct (isdig_not b Hb) as (N45 & _). destruct (Z.eqb_spec b 45); [contradiction|].
    rewrite <- E. apply dur_val_abs. unfold MAXU. lia.
Qed.

Theorem dur_string_injective d d' : MINI64 <= d <= MAXI64 -> MINI64 <= d' <= MAXI64 ->
  dur_string d = dur_string d' -> d = d'.
Proof. intros H H' E. rewrite <- (dur_read_string d H), <- (dur_read_string d' H'), E. reflexivity. Qed.

(* no '-' inside: only as the sign *)
Definition nodash (l : dbytes) : Prop := Forall (fun b => b <> 45) l.
Lemma nodash_app a b : nodash a -> nodash b -> nodash (a ++ b).
Proof. unfold nodash. rewrite Forall_app. auto. Qed.
Lemma dig_nodash l : all_dig l -> nodash l.
Proof. unfold all_dig, nodash. apply Forall_impl. intros b Hb. apply (isdig_not b Hb). Qed.
Lemma frac_nodash u prec : nodash (fmt_frac u prec).
Proof.
  unfold fmt_frac. destruct (rstrip0_spec _ (fixed_all_dig prec (u mod 10 ^ Z.of_nat prec))) as (n & _ & _ & D).
  destruct (rstrip0 (fixed_digits prec (u mod 10 ^ Z.of_nat prec))); [constructor|].
  constructor; [discriminate|]. apply dig_nodash. exact D.
Qed.
Lemma lit_nodash l : forallb (fun b => negb (b =? 45)) l = true -> nodash l.
Proof. unfold nodash. rewrite forallb_forall, Forall_forall. intros H b Hb. specialize (H b Hb).
  apply negb_true_iff in H. apply Z.eqb_neq in H. exact H. Qed.

Theorem dur_abs_nodash u : nodash (dur_abs u).
Proof.
  unfold dur_abs. destruct (u <? SEC).
  - destruct (u =? 0); [apply lit_nodash; reflexivity|].
    destruct (u <? 1000); [|destruct (u <? 1000000)];
      repeat apply nodash_app; try apply dig_nodash, fmt_int_all_dig; try apply frac_nodash; apply lit_nodash; reflexivity.
  - cbv zeta. repeat apply nodash_app.
    + destruct (0 <? _); [apply nodash_app; [apply dig_nodash, fmt_int_all_dig|apply lit_nodash; reflexivity]|constructor].
    + destruct (0 <? _); [apply nodash_app; [apply dig_nodash, fmt_int_all_dig|apply lit_nodash; reflexivity]|constructor].
    + apply dig_nodash, fmt_int_all_dig.
    + apply frac_nodash.
    + apply lit_nodash; reflexivity.
Qed.

Theorem dur_string_shape d : dur_string d <> [] /\ ~ In 45 (tl (dur_string d)).
Proof.
  unfold dur_string. destruct (d <? 0).
  - split; [discriminate|]. cbn [tl]. intros Hin. pose proof (dur_abs_nodash (- d)) as N.
    unfold nodash in N. rewrite Forall_forall in N. exact (N _ Hin eq_refl).
  - destruct (dur_abs_head d) as (b & r & E & _). rewrite E. split; [discriminate|]. cbn [tl]. intros Hin.
    pose proof (dur_abs_nodash d) as N. rewrite E in N. unfold nodash in N. rewrite Forall_forall in N.
    exact (N 45 (or_intror Hin) eq_refl).
Qed.
