(* Proofs about Model/Prom.v, part 4: the C17 statements, assembled from the
   system invariant (PromSysP) and the per-object lemmas (PromObjP). *)
From Coq Require Import ZArith List Bool Lia Arith.
From Tally Require Import Base.ObsCore Base.Search Model.Buckets Model.Prom
  Proof.PromP Proof.PromObjP Proof.PromSysP.
Import ListNotations.
Open Scope Z_scope.

(* the events of object i once a final report pass is appended *)
Lemma proj_final h i : (i < length (decls h))%nat -> proj 0 i (h ++ [TPass]) = proj 0 i h ++ [EPass].
Proof.
  intro L. rewrite proj_app. cbn [proj Nat.add].
  replace (i <? length (decls h))%nat with true by (symmetry; apply Nat.ltb_lt; exact L).
  now rewrite app_nil_r.
Qed.

Lemma decls_final h : decls (h ++ [TPass]) = decls h.
Proof. rewrite decls_app. cbn. apply app_nil_r. Qed.

Lemma object_series_final c h i d : ttype_ok c -> consistent (decls h) ->
  nth_error (decls h) i = Some d ->
  gathered (rs (trun c (h ++ [TPass]))) (dname d) (dvals d) =
    Some (dvec_of c d,
          feed (vbounds (dvec_of c d)) (snd (orun (oinit (duse d)) (proj 0 i h ++ [EPass])))
               (sinit (dvec_of c d))).
Proof.
  intros T Cn Hd.
  assert (L : (i < length (decls h))%nat) by (apply nth_error_Some; congruence).
  rewrite <- (proj_final h i L). apply object_series; rewrite ?decls_final; auto.
Qed.

Ltac use_series H := unfold dvals in H; cbn [dname dtags] in H; rewrite H; clear H.

(* ---------------- values ---------------- *)
Theorem counter_value c h i name tags : ttype_ok c -> consistent (decls h) ->
  nth_error (decls h) i = Some (Decl TUCounter name tags) ->
  gathered (rs (trun c (h ++ [TPass]))) name (map snd tags) =
    Some (Vec name (name ++ sfx_counter) (map fst tags) PCounter [], SCounter (sum_incs (proj 0 i h))).
Proof.
  intros T Cn Hd. pose proof (object_series_final c h i _ T Cn Hd) as OS. use_series OS.
  cbn [dname dvals dtags duse oinit]. unfold dvec_of, dkeys. cbn [duse dname dtags use_of uvec vbounds].
  unfold sinit. cbn [vkind]. now rewrite counter_final.
Qed.

Theorem gauge_value c h i name tags : ttype_ok c -> consistent (decls h) ->
  nth_error (decls h) i = Some (Decl TUGauge name tags) ->
  gathered (rs (trun c (h ++ [TPass]))) name (map snd tags) =
    Some (Vec name (name ++ sfx_gauge) (map fst tags) PGauge [], SGauge (last_upd (proj 0 i h) 0)).
Proof.
  intros T Cn Hd. pose proof (object_series_final c h i _ T Cn Hd) as OS. use_series OS.
  cbn [dname dvals dtags duse oinit]. unfold dvec_of, dkeys. cbn [duse dname dtags use_of uvec vbounds].
  unfold sinit. cbn [vkind]. now rewrite gauge_final.
Qed.

Theorem timer_summary_count c h i name tags : ttype c = 0 -> consistent (decls h) ->
  nth_error (decls h) i = Some (Decl TUTimer name tags) ->
  gathered (rs (trun c (h ++ [TPass]))) name (map snd tags) =
    Some (Vec name (name ++ sfx_summary) (map fst tags) PSummary [],
          SSummary (Z.of_nat (length (recs (proj 0 i h))))).
Proof.
  intros T Cn Hd. pose proof (object_series_final c h i _ (or_introl T) Cn Hd) as OS. use_series OS.
  cbn [dname dvals dtags duse oinit]. unfold dvec_of, dkeys. cbn [duse dname dtags use_of uvec].
  rewrite T. zeq. cbn [vbounds]. unfold sinit. cbn [vkind]. now rewrite timer_summary_final.
Qed.

Theorem timer_histogram_count c h i name tags : ttype c = 1 -> consistent (decls h) ->
  bounds_ok (norm_bounds (dbounds c)) ->
  nth_error (decls h) i = Some (Decl TUTimer name tags) ->
  let bs := norm_bounds (dbounds c) in
  exists cs,
    gathered (rs (trun c (h ++ [TPass]))) name (map snd tags) =
      Some (Vec name (name ++ sfx_histogram) (map fst tags) PHistogram bs,
            SHist cs (Z.of_nat (length (recs (proj 0 i h))))) /\
    length cs = length bs /\
    forall j, (j < length bs)%nat ->
      nth j (cumul 0 cs) 0 = sumf (fun s => if fge (nth j bs 0) s then 1 else 0) (recs (proj 0 i h)).
Proof.
  intros T Cn B Hd bs. pose proof (object_series_final c h i _ (or_intror T) Cn Hd) as OS. use_series OS.
  cbn [dname dvals dtags duse oinit]. unfold dvec_of, dkeys. cbn [duse dname dtags use_of uvec].
  rewrite T. zeq. cbn [vbounds]. unfold sinit. cbn [vkind vbounds]. fold bs.
  destruct (timer_histogram_final bs (proj 0 i h) (repeat 0 (length bs)) B (repeat_length _ _))
    as (cs & F1 & F2 & F3).
  exists cs. rewrite F1. split; [reflexivity|]. split; [exact F2|].
  intros j J. rewrite nth_cumul by lia. rewrite (F3 j J).
  assert (Z0 : forall n m, psum m (repeat 0 n) = 0).
  { induction n as [|n IH]; intros [|m]; cbn; auto. }
  rewrite Z0. lia.
Qed.

Lemma insert_length lt x l : length (insert lt x l) = S (length l).
Proof. induction l as [|y l IH]; cbn; [reflexivity|]. destruct (lt y x); cbn; now rewrite ?IH. Qed.
Lemma isort_length lt l : length (isort lt l) = length l.
Proof. unfold isort. induction l as [|y l IH]; cbn [fold_right length]; [reflexivity|]. now rewrite insert_length, IH. Qed.
Lemma uppers_length k spec : spec <> [] -> length (uppers k spec) = S (length spec).
Proof.
  intro N. unfold uppers. destruct spec; [congruence|].
  rewrite app_length, isort_length. cbn. lia.
Qed.

(* the samples recorded on object i that its histogram accepts *)
Definition hsamples (k : kind) (h : list top) (i : nat) : list Z := samples k (proj 0 i h).

Theorem histogram_counts c h i k spec secs name tags : ttype_ok c -> consistent (decls h) ->
  nth_error (decls h) i = Some (Decl (TUHist k spec secs) name tags) ->
  spec <> [] ->
  hist_ok k (uppers k spec) secs ->
  bounds_ok (firstn (length spec) secs) ->
  (forall v, In v (hsamples k h i) -> sample_ok k (uppers k spec) v) ->
  let pb := firstn (length spec) secs in
  exists cs,
    gathered (rs (trun c (h ++ [TPass]))) name (map snd tags) =
      Some (Vec name (name ++ sfx_histogram) (map fst tags) PHistogram pb,
            SHist cs (Z.of_nat (length (hsamples k h i)))) /\
    length cs = length spec /\
    forall j, (j < length spec)%nat ->
      nth j (cumul 0 cs) 0 = count_le k (nth j (uppers k spec) 0) (hsamples k h i).
Proof.
  intros T Cn Hd NE HO B SO pb. pose proof (object_series_final c h i _ T Cn Hd) as OS. use_series OS.
  cbn [dname dvals dtags duse oinit]. unfold dvec_of, dkeys. cbn [duse dname dtags use_of uvec].
  pose proof (uppers_length k spec NE) as UL.
  assert (Lpb : length pb = length spec).
  { unfold pb. rewrite firstn_length, (ho_len _ _ _ HO), UL. lia. }
  assert (NB : norm_bounds pb = pb).
  { unfold norm_bounds. destruct pb eqn:Q; [|reflexivity]. cbn in Lpb. destruct spec; [congruence | discriminate]. }
  fold pb. rewrite NB. cbn [vbounds]. unfold sinit. cbn [vkind vbounds].
  assert (PB : pb = firstn (length (uppers k spec) - 1) secs) by (unfold pb; f_equal; lia).
  unfold hnew.
  destruct (histogram_final k (uppers k spec) secs (proj 0 i h) (repeat 0 (length pb)) HO)
    as (cs & t & F1 & F2 & F3 & F4).
  - now rewrite <- PB.
  - now rewrite <- PB, repeat_length.
  - exact SO.
  - rewrite <- PB in *. exists cs. rewrite F1, F3. split; [reflexivity|].
    split; [now rewrite F2|]. intros j J. rewrite nth_cumul by lia.
    rewrite (F4 j) by lia.
    assert (Z0 : forall n m, psum m (repeat 0 n) = 0).
    { induction n as [|n IH]; intros [|m]; cbn; auto. }
    rewrite Z0. unfold hsamples. lia.
Qed.

(* ---------------- one family, one series per tag values ---------------- *)
Theorem series_per_tag_values c h i j di dj : ttype_ok c -> consistent (decls h) ->
  nth_error (decls h) i = Some di -> nth_error (decls h) j = Some dj -> i <> j ->
  dname di = dname dj ->
  dvals di <> dvals dj /\
  exists xi xj,
    gathered (rs (trun c h)) (dname di) (dvals di) = Some (dvec_of c di, xi) /\
    gathered (rs (trun c h)) (dname di) (dvals dj) = Some (dvec_of c di, xj).
Proof.
  intros T Cn Hi Hj N Q. split.
  - intro V. apply N. destruct Cn as [_ ND].
    apply (NoDup_map_nth_error (fun d => (dname d, dvals d)) _ i j di dj ND Hi Hj). congruence.
  - destruct Cn as [C1 C2].
    destruct (C1 di dj (nth_error_In _ _ Hi) (nth_error_In _ _ Hj) Q) as [U K].
    assert (DV : dvec_of c dj = dvec_of c di) by (unfold dvec_of; now rewrite U, K, Q).
    eexists. eexists. split.
    + apply (object_series c h i di T (conj C1 C2) Hi).
    + rewrite Q, <- DV. apply (object_series c h j dj T (conj C1 C2) Hj).
Qed.

(* ---------------- rejected registrations reach the callback ---------------- *)
Definition own_cache_miss (c : cfg) (s : state) (u : use) (id : mid) : Prop :=
  match u with
  | UCounter => afind mid_eqb id (counters s) = None
  | UGauge => afind mid_eqb id (gauges s) = None
  | _ => afind mid_eqb id (timers s) = None
  end.

Lemma alloc_rejected c s u n ks e : ttype_ok c -> own_cache_miss c s u (n, ks) ->
  register (vecs s) (uvec c u n ks) = Some e -> alloc_vec c s u n ks = (s, VErr e).
Proof.
  intros T M R. unfold alloc_vec, uvec, own_cache_miss in *.
  destruct u; unfold counter_vec, gauge_vec, summary_vec, histogram_vec.
  - now rewrite M, R.
  - now rewrite M, R.
  - destruct T as [T|T]; rewrite T in *; zeq; now rewrite M, R.
  - now rewrite M, R.
Qed.

(* a cached entry of the other flavour is an error too (the repair of F17) *)
Lemma alloc_other_flavour c s u n ks t : fixed c = true -> ttype_ok c ->
  afind mid_eqb (n, ks) (timers s) = Some t ->
  match u with
  | UCounter | UGauge => True
  | UTimer => (if ttype c =? 1 then thist t else tsum t) = None -> alloc_vec c s u n ks = (s, VErr EOther)
  | UHist _ => thist t = None -> alloc_vec c s u n ks = (s, VErr EOther)
  end.
Proof.
  intros F T H. unfold alloc_vec. destruct u; auto.
  - destruct T as [T|T]; rewrite T; zeq; intro Q; unfold summary_vec, histogram_vec; now rewrite H, F, Q.
  - intro Q. unfold histogram_vec. now rewrite H, F, Q.
Qed.

(* ---------------- hist_ok for value histograms ---------------- *)
Lemma isort_sorted lt : (forall x y, lt x y = true -> lt y x = false) ->
  forall l, (forall a b, (a < b)%nat -> (b < length l)%nat -> lt (nth a l 0) (nth b l 0) = true) ->
  isort lt l = l.
Proof.
  intros As. induction l as [|x l IH]; intro S; [reflexivity|].
  cbn [isort fold_right]. fold (isort lt l). rewrite IH.
  - destruct l as [|y r]; [reflexivity|]. cbn [insert].
    rewrite (As x y); [reflexivity|]. apply (S 0%nat 1%nat); cbn; lia.
  - intros a b Hab Hb. apply (S (Datatypes.S a) (Datatypes.S b)); cbn; lia.
Qed.

Lemma flt_asym x y : flt x y = true -> flt y x = false.
Proof.
  unfold flt. destruct (fkey x), (fkey y); try discriminate.
  intro H. apply Z.ltb_lt in H. apply Z.ltb_ge. lia.
Qed.

Lemma fge_refl x : fkey x <> None -> fge x x = true.
Proof. unfold fge. destruct (fkey x); [intros _; apply Z.leb_refl | congruence]. Qed.

Lemma flt_fge x y : flt x y = true -> fge y x = true.
Proof.
  unfold flt, fge. destruct (fkey x), (fkey y); try discriminate.
  intro H. apply Z.ltb_lt in H. apply Z.leb_le. lia.
Qed.

(* a non-empty, strictly increasing specification of finite floats *)
Definition vspec_ok (spec : list Z) : Prop :=
  spec <> [] /\
  (forall a b, (a < b)%nat -> (b < length spec)%nat -> flt (nth a spec 0) (nth b spec 0) = true) /\
  (forall i, (i < length spec)%nat -> fge MAXF (nth i spec 0) = true).

Lemma fge_def_l a b : fge a b = true -> fkey a <> None /\ fkey b <> None.
Proof. unfold fge. destruct (fkey a), (fkey b); try discriminate. split; congruence. Qed.

Theorem hist_ok_value spec : vspec_ok spec ->
  uppers KValue spec = spec ++ [MAXF] /\
  hist_ok KValue (uppers KValue spec) (uppers KValue spec) /\
  bounds_ok (firstn (length spec) (uppers KValue spec)).
Proof.
  intros (NE & St & Fin).
  assert (U : uppers KValue spec = spec ++ [MAXF]).
  { unfold uppers. destruct spec as [|x r] eqn:Q; [congruence|]. rewrite <- Q in *.
    cbn [lt_of Buckets.top]. now rewrite (isort_sorted flt flt_asym spec St). }
  assert (Def : forall i, (i < length (spec ++ [MAXF]))%nat -> fkey (nth i (spec ++ [MAXF]) 0) <> None).
  { intros i L. rewrite app_length in L. cbn in L.
    destruct (Nat.lt_ge_cases i (length spec)) as [Q|Q].
    - rewrite app_nth1 by exact Q. apply (fge_def_l _ _ (Fin i Q)).
    - rewrite app_nth2 by lia. replace (i - length spec)%nat with 0%nat by lia. cbn [nth]. vm_compute. discriminate. }
  assert (Mono : forall a b, (a <= b)%nat -> (b < length (spec ++ [MAXF]))%nat ->
                             fge (nth b (spec ++ [MAXF]) 0) (nth a (spec ++ [MAXF]) 0) = true).
  { intros a b Hab Hb. destruct (Nat.eq_dec a b) as [->|N]; [apply fge_refl, Def; exact Hb|].
    rewrite app_length in Hb. cbn in Hb.
    destruct (Nat.lt_ge_cases b (length spec)) as [Q|Q].
    - rewrite !app_nth1 by lia. apply flt_fge, St; lia.
    - rewrite (app_nth2 spec [MAXF] 0 Q). replace (b - length spec)%nat with 0%nat by lia.
      rewrite app_nth1 by lia. cbn [nth]. apply Fin. lia. }
  split; [exact U|]. rewrite U. split; [|].
  - constructor.
    + destruct spec; discriminate.
    + reflexivity.
    + intros a b Hab Hb. unfold le_k. cbn [ge_of]. now apply Mono.
    + intros x y z. unfold le_k. cbn [ge_of]. intros H1 H2. eapply fge_trans; eauto.
    + exact Mono.
    + intros a b _ _ H. unfold le_k in H. cbn [ge_of] in H. exact H.
  - rewrite firstn_app, firstn_all, Nat.sub_diag. cbn [firstn]. rewrite app_nil_r. split.
    + intros i L. specialize (Def i). rewrite app_length, app_nth1 in Def by exact L. apply Def. lia.
    + intros a b Hab Hb. specialize (Mono a b Hab). rewrite app_length, !app_nth1 in Mono by lia.
      apply Mono. lia.
Qed.

(* a finite, non-NaN float is a valid sample of a value histogram *)
Lemma sample_ok_value spec v : vspec_ok spec -> fge MAXF v = true ->
  sample_ok KValue (uppers KValue spec) v.
Proof.
  intros V F. destruct (hist_ok_value spec V) as (U & H & _). rewrite U.
  destruct V as (NE & St & Fin). split.
  - rewrite app_length. cbn [length]. replace (length spec + 1 - 1)%nat with (length spec) by lia.
    rewrite app_nth2, Nat.sub_diag by lia. exact F.
  - intros j J Q. unfold le_k in *. cbn [ge_of] in *.
    destruct (fge_def_l _ _ F) as [_ Dv].
    assert (Dj : fkey (nth j (spec ++ [MAXF]) 0) <> None).
    { rewrite app_length in J. cbn in J. destruct (Nat.lt_ge_cases j (length spec)) as [L|L].
      - rewrite app_nth1 by exact L. apply (fge_def_l _ _ (Fin j L)).
      - rewrite app_nth2 by lia. replace (j - length spec)%nat with 0%nat by lia. cbn [nth]. vm_compute. discriminate. }
    unfold fge in *. destruct (fkey v); [|congruence]. destruct (fkey (nth j (spec ++ [MAXF]) 0)); [|congruence].
    apply Z.leb_gt in Q. apply Z.leb_le. lia.
Qed.

(* ---------------- several handles, one series ---------------- *)
(* Allocating a (name, tags) that is already cached and whose child exists
   (a re-acquired sub-scope, a second root scope, a second Allocate* call)
   hands out a handle on the SAME series and leaves its value as it is ... *)
Theorem realloc_same_series c s u n tags v x :
  alloc_vec c s u n (map fst tags) = (s, VOk (Some v)) ->
  afind key_eqb (v, map snd tags) (sers s) = Some x ->
  let r := rstep c s (RAlloc u n tags) in
  snd r = OMetric (MReal (v, map snd tags)) /\
  nth_error (handles (fst r)) (length (handles s)) = Some (MReal (v, map snd tags)) /\
  sers (fst r) = sers s /\ vecs (fst r) = vecs s /\ cblog (fst r) = cblog s.
Proof.
  intros A X. cbn [rstep]. rewrite A. unfold finish. cbn [fst snd].
  unfold with_series. rewrite X. unfold push_handle. cbn.
  repeat split; auto. rewrite nth_error_app2 by lia. now rewrite Nat.sub_diag.
Qed.

(* ... and reports through ANY handles of a series act on that one value, in
   the order they are made: the counter adds up over all handles, the gauge
   shows the latest report whichever handle made it (no per-handle memory),
   observations land in the same summary / histogram *)
Theorem handles_share_series s h1 h2 k x d1 d2 :
  nth_error (handles s) h1 = Some (MReal k) -> nth_error (handles s) h2 = Some (MReal k) ->
  afind key_eqb k (sers s) = Some x ->
  let bs := vbounds (nth (fst k) (vecs s) dvec) in
  afind key_eqb k (sers (deliver_h (deliver_h s h1 d1) h2 d2)) = Some (apply bs (apply bs x d1) d2).
Proof.
  intros H1 H2 X bs.
  assert (E1 : deliver_h s h1 d1 = deliver s k d1) by (unfold deliver_h; now rewrite H1).
  destruct (deliver_real s k d1 x X) as (B1 & _ & _ & _ & B5 & _ & _ & B8 & _).
  rewrite E1.
  assert (E2 : deliver_h (deliver s k d1) h2 d2 = deliver (deliver s k d1) k d2)
    by (unfold deliver_h; now rewrite B5, H2).
  rewrite E2.
  destruct (deliver_real (deliver s k d1) k d2 _ B8) as (_ & _ & _ & _ & _ & _ & _ & C8 & _).
  rewrite C8, B1. reflexivity.
Qed.

(* ---------------- a second reporter on the same registry ---------------- *)
(* A reporter whose own cache does not have the id, first-using a name the
   registry already knows (from another reporter, or pre-registered): the
   registration is rejected - AlreadyRegistered when help and label names are
   the same, inconsistent otherwise - whatever bucket bounds either side has;
   the existing vector is NOT adopted: the error goes to the callback
   (callback_gets_error) and the caller gets the no-op metric. *)
Theorem known_name_rejected c s u n ks i : ttype_ok c ->
  own_cache_miss c s u (n, ks) -> find_name n (vecs s) = Some i ->
  exists e, alloc_vec c s u n ks = (s, VErr e) /\ (eclass e = 1 \/ eclass e = 2).
Proof.
  intros T M F.
  assert (R : exists e, register (vecs s) (uvec c u n ks) = Some e /\ (eclass e = 1 \/ eclass e = 2)).
  { unfold register. rewrite uvec_name, F.
    destruct (dim_eqb (nth i (vecs s) dvec) (uvec c u n ks)); eexists; split; try reflexivity; cbn; auto. }
  destruct R as (e & R & Cl). exists e. split; [now apply alloc_rejected | exact Cl].
Qed.
