(* Proofs about Model/M3Pipe.v, part 2: histogram bucket ids are zero-padded
   indices of one width that suffices for every bucket count, and they
   increase — as strings — with the index, hence with the bounds. *)
From Coq Require Import ZArith List Bool Arith Lia.
From Tally Require Import Base.ObsCore Base.Search Gen.Params Model.Varint Model.Thrift Model.Buckets Model.M3Pipe
  Proof.BucketsP.
Import ListNotations.
Open Scope nat_scope.

Lemma pad_dec_length w : forall i, length (pad_dec w i) = w.
Proof. induction w as [|w IH]; intro i; cbn [pad_dec]; [reflexivity|]. rewrite app_length, IH. cbn. lia. Qed.

(* every character is a decimal digit *)
Lemma pad_dec_digits w : forall i, Forall (fun c => (48 <= c <= 57)%Z) (pad_dec w i).
Proof.
  induction w as [|w IH]; intro i; cbn [pad_dec]; [constructor|].
  apply Forall_app; split; [apply IH|]. constructor; [|constructor].
  pose proof (Nat.mod_upper_bound i 10). lia.
Qed.

Lemma ltb_app_lt a : forall b x y, length a = length b -> bytes_ltb a b = true -> bytes_ltb (a ++ x) (b ++ y) = true.
Proof.
  induction a as [|c a IH]; intros [|d b] x y Hl Hlt; cbn in *; try discriminate.
  destruct (c <? d)%Z; [reflexivity|]. destruct (d <? c)%Z; [discriminate|]. apply IH; [lia|assumption].
Qed.
Lemma ltb_app_eq p x y : bytes_ltb (p ++ [x]) (p ++ [y]) = (x <? y)%Z.
Proof.
  induction p as [|c p IH]; cbn.
  - destruct (x <? y)%Z eqn:E; [reflexivity|]. destruct (y <? x)%Z; reflexivity.
  - rewrite Z.ltb_irrefl. exact IH.
Qed.

Lemma pad_dec_lt w : forall i j, i < j -> j < 10 ^ w -> bytes_ltb (pad_dec w i) (pad_dec w j) = true.
Proof.
  induction w as [|w IH]; intros i j Hij Hj.
  - cbn in Hj. lia.
  - cbn [pad_dec]. rewrite Nat.pow_succ_r' in Hj.
    pose proof (Nat.div_mod i 10 ltac:(lia)) as Di. pose proof (Nat.div_mod j 10 ltac:(lia)) as Dj.
    pose proof (Nat.mod_upper_bound i 10 ltac:(lia)) as Mi. pose proof (Nat.mod_upper_bound j 10 ltac:(lia)) as Mj.
    destruct (Nat.eq_dec (i / 10) (j / 10)) as [E|E].
    + rewrite E, ltb_app_eq. apply Z.ltb_lt. lia.
    + apply ltb_app_lt; [rewrite !pad_dec_length; reflexivity|]. apply IH; [|lia].
      assert (i / 10 <= j / 10) by (apply Nat.div_le_mono; lia). lia.
Qed.

Lemma ndig_bound fuel : forall i, i <= fuel -> i < 10 ^ ndig fuel i.
Proof.
  induction fuel as [|f IH]; intros i Hi; cbn [ndig].
  - cbn. lia.
  - destruct (Nat.eqb_spec (i / 10) 0) as [E|E].
    + cbn. pose proof (Nat.div_mod i 10 ltac:(lia)). pose proof (Nat.mod_upper_bound i 10 ltac:(lia)). lia.
    + rewrite Nat.pow_succ_r'.
      pose proof (Nat.div_mod i 10 ltac:(lia)) as Dm. pose proof (Nat.mod_upper_bound i 10 ltac:(lia)) as Mu.
      assert (H10 : i / 10 <= f) by lia.
      specialize (IH _ H10). lia.
Qed.

Lemma ndig_least fuel : forall i k, i <= fuel -> 1 <= k -> i < 10 ^ k -> ndig fuel i <= k.
Proof.
  induction fuel as [|f IH]; intros i k Hi Hk Hlt; cbn [ndig]; [assumption|].
  destruct (Nat.eqb_spec (i / 10) 0) as [E|E]; [assumption|].
  destruct k as [|k]; [lia|]. rewrite Nat.pow_succ_r' in Hlt.
  pose proof (Nat.div_mod i 10 ltac:(lia)) as Dm. pose proof (Nat.mod_upper_bound i 10 ltac:(lia)) as Mu.
  assert (H10 : i / 10 <= f) by lia.
  assert (Hd : i / 10 < 10 ^ k) by (apply Nat.div_lt_upper_bound; lia).
  destruct k as [|k]; [rewrite Nat.pow_0_r in Hd; lia|].
  specialize (IH (i / 10) (S k) H10 ltac:(lia) Hd). lia.
Qed.

Lemma ndigits_bound i : i < 10 ^ ndigits i.
Proof. apply ndig_bound. lia. Qed.
Lemma ndigits_pos i : 1 <= ndigits i.
Proof. unfold ndigits. destruct i; cbn [ndig]; [lia|]. destruct (_ =? _); lia. Qed.
Lemma ndigits_mono i n : i <= n -> ndigits i <= ndigits n.
Proof.
  intro Hh. apply ndig_least; [lia|apply ndigits_pos|]. pose proof (ndigits_bound n). lia.
Qed.
Lemma ndigits_le i : ndigits i <= S i.
Proof.
  apply ndig_least; [lia|lia|]. clear. induction i as [|i IH]; [cbn; lia|].
  rewrite Nat.pow_succ_r'. lia.
Qed.

Lemma pow10_mono a b : a <= b -> 10 ^ a <= 10 ^ b.
Proof. intro Hh. apply Nat.pow_le_mono_r; lia. Qed.

(* with the width chosen for n buckets bounds, the id of every index i <= n has
   exactly that width: nothing is cut and nothing sticks out *)
Lemma bucket_id_width n i : i <= n -> bucket_id (id_width n) i = pad_dec (id_width n) i.
Proof.
  intro Hi. unfold bucket_id. f_equal. apply Nat.max_l.
  unfold id_width. pose proof (ndigits_mono i n Hi). lia.
Qed.

Lemma id_width_fits n i : i <= n -> i < 10 ^ id_width n.
Proof.
  intro Hi. pose proof (ndigits_bound n) as Hb.
  assert (10 ^ ndigits n <= 10 ^ id_width n) by (apply pow10_mono; unfold id_width; lia). lia.
Qed.

Lemma hist_buckets_length cfg hk spec : length (hist_buckets cfg hk spec) = S (length spec).
Proof. unfold hist_buckets. rewrite map_length, seq_length. apply uppers_length. Qed.

Lemma hist_buckets_nth cfg hk spec i : i < S (length spec) ->
  nth i (hist_buckets cfg hk spec) (0%Z, [], []) = bucket_at cfg hk spec i.
Proof.
  intro Hi. unfold hist_buckets. rewrite uppers_length.
  rewrite (nth_map_seq (bucket_at cfg hk spec) (0%Z, [], []) (S (length spec)) 0 i Hi). reflexivity.
Qed.

Definition bk_ub (b : Z * bytes * bytes) : Z := fst (fst b).
Definition bk_id (b : Z * bytes * bytes) : bytes := snd (fst b).
Definition bk_range (b : Z * bytes * bytes) : bytes := snd b.

(* C13_bucket_ids_monotone *)
Theorem bucket_ids_monotone cfg hk spec :
  let n := length spec in
  let w := id_width n in
  let bs := hist_buckets cfg hk spec in
  length bs = S n /\
  ndigits n <= w /\ Z.to_nat m3_min_bucket_id_len <= w /\
  (forall i, i <= n ->
     bk_id (nth i bs (0%Z, [], [])) = pad_dec w i /\
     length (bk_id (nth i bs (0%Z, [], []))) = w /\
     i < 10 ^ w /\
     bk_ub (nth i bs (0%Z, [], [])) = nth i (uppers hk spec) 0%Z) /\
  (forall i j, i < j -> j <= n ->
     bytes_ltb (bk_id (nth i bs (0%Z, [], []))) (bk_id (nth j bs (0%Z, [], []))) = true /\
     (finite_spec hk spec ->
        (key hk (bk_ub (nth i bs (0%Z, [], []))) <= key hk (bk_ub (nth j bs (0%Z, [], []))))%Z)).
Proof.
  intros n w bs. split; [apply hist_buckets_length|].
  split; [unfold w, id_width; lia|]. split; [unfold w, id_width; lia|].
  assert (Hid : forall i, i <= n -> bk_id (nth i bs (0%Z, [], [])) = pad_dec w i).
  { intros i Hi. unfold bs. rewrite hist_buckets_nth by (fold n; lia).
    unfold bucket_at, bk_id. cbn [fst snd]. apply bucket_id_width. exact Hi. }
  assert (Hub : forall i, i <= n -> bk_ub (nth i bs (0%Z, [], [])) = nth i (uppers hk spec) 0%Z).
  { intros i Hi. unfold bs. rewrite hist_buckets_nth by (fold n; lia). reflexivity. }
  split.
  - intros i Hi. split; [apply Hid, Hi|]. split; [rewrite Hid by exact Hi; apply pad_dec_length|].
    split; [apply id_width_fits, Hi|apply Hub, Hi].
  - intros i j Hij Hj. split.
    + rewrite !Hid by lia. apply pad_dec_lt; [exact Hij|apply id_width_fits, Hj].
    + intro Hf. rewrite !Hub by lia. apply sortedk_nth; [apply uppers_sorted, Hf|lia|].
      rewrite uppers_length. fold n. lia.
Qed.

(* the sample lands in the first bucket whose upper bound is >= the requested
   one, and carries that bucket's id and range *)
Lemma samples_item md cfg s pid h hk ub v name tags spec szf :
  nth_error (phandles s) h = Some (HHist hk name tags spec szf) ->
  let i := search_idx hk (uppers hk spec) ub in
  i < S (length spec) ->
  snd (pstep md cfg s (OSamples pid h hk ub v)) =
  [QMet pid (reported 1 name (Some tags) v (pnow s)) (szf i)
        (bk_id (bucket_at cfg hk spec i)) (bk_range (bucket_at cfg hk spec i))].
Proof.
  intros Hn i Hi. cbn [pstep]. rewrite Hn.
  assert (E : kind_eqb hk hk = true) by (destruct hk; reflexivity). rewrite E.
  fold i. rewrite uppers_length. destruct (Nat.ltb_spec i (S (length spec))) as [L|L]; [|lia].
  destruct (bucket_at cfg hk spec i) as [[u id] rg]. reflexivity.
Qed.
