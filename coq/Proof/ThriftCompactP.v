(* The Compact protocol of Model/Thrift.v satisfies the protocol laws. *)
From Coq Require Import ZArith List Bool Lia ZifyBool.
From Tally Require Import Base.ObsCore Model.Varint Model.Thrift Proof.VarintP Proof.ThriftP.
Import ListNotations.
Open Scope Z_scope.
Ltac Zify.zify_post_hook ::= Z.div_mod_to_equations.

Lemma c_r_varint32_ok n rest : int32 n -> c_r_varint32 (varint32 n ++ rest) = Some (n, rest).
Proof.
  intro Hn. unfold c_r_varint32. rewrite varint32_roundtrip, wrap32_u32, wrap32_id by assumption. reflexivity.
Qed.

Lemma c_r_i32_ok v rest : int32 v -> c_r_i32 (c_i32 v ++ rest) = Some (v, rest).
Proof.
  intro Hv. unfold c_r_i32, c_i32. rewrite varint32_roundtrip.
  pose proof (zigzag_range32 v Hv). rewrite !(u32_id (zigzag v)) by lia. rewrite unzigzag_zigzag. reflexivity.
Qed.

Lemma c_r_i64_ok v rest : int64 v -> c_r_i64 (c_i64 v ++ rest) = Some (v, rest).
Proof.
  intro Hv. unfold c_r_i64, c_i64. rewrite varint64_roundtrip.
  pose proof (zigzag_range64 v Hv). rewrite !(u64_id (zigzag v)) by lia. rewrite unzigzag_zigzag. reflexivity.
Qed.

Lemma c_r_str_ok s rest : str_ok s -> c_r_str ((c_strlen s ++ s) ++ rest) = Some (s, rest).
Proof.
  unfold str_ok. intro Hs. unfold c_r_str, c_strlen. rewrite <- app_assoc.
  rewrite c_r_varint32_ok by (unfold int32; lia).
  destruct (Z.ltb_spec (Z.of_nat (length s)) 0); [lia|]. apply takez_app.
Qed.

Lemma ctype_used ty : used_type ty -> 5 <= ctype ty <= 12 /\ ttype_of (ctype ty) = Some ty.
Proof.
  unfold used_type, T_DOUBLE, T_I32, T_I64, T_STRING, T_STRUCT, T_LIST.
  intros [E|[E|[E|[E|[E|E]]]]]; subst; cbn; split; (lia || reflexivity).
Qed.

Lemma c_r_fb_ok last ty id rest : used_type ty -> 0 <= last < id -> id <= 15 ->
  c_r_fb last (concat (c_fb_chunks last ty id) ++ rest) = Some (Some (ty, id), rest).
Proof.
  intros Hu Hl Hi. destruct (ctype_used ty Hu) as [Hc Ht].
  unfold c_fb_chunks, c_short.
  replace ((last <? id) && (id - last <=? 15)) with true by lia.
  cbn [concat app]. unfold c_r_fb.
  replace (((id - last) * 16 + ctype ty) mod 16) with (ctype ty) by lia.
  replace ((((id - last) * 16 + ctype ty) / 16) mod 16) with (id - last) by lia.
  destruct (Z.eqb_spec (ctype ty) 0); [lia|]. destruct (Z.eqb_spec (id - last) 0); [lia|].
  rewrite Ht. replace (last + (id - last)) with id by lia.
  rewrite wrap16_id by (unfold int16; lia). reflexivity.
Qed.

Lemma c_r_lb_ok n rest : 0 <= n < 2147483648 ->
  c_r_lb (concat (c_lb_chunks T_STRUCT n) ++ rest) = Some ((T_STRUCT, n), rest).
Proof.
  intro Hn. unfold c_lb_chunks. change (ctype T_STRUCT) with 12.
  destruct (Z.leb_spec n 14) as [L|L]; cbn [concat app]; unfold c_r_lb.
  - replace (((n * 16 + 12) / 16) mod 16) with n by lia.
    replace ((n * 16 + 12) mod 16) with 12 by lia.
    destruct (Z.eqb_spec n 15); [lia|]. reflexivity.
  - change ((240 + 12) / 16 mod 16 =? 15) with true. cbn match.
    rewrite app_nil_r. rewrite c_r_varint32_ok by (unfold int32; lia).
    destruct (Z.ltb_spec n 0); [lia|]. reflexivity.
Qed.

Lemma c_r_mb_ok name ty seq rest : str_ok name -> 0 <= ty < 8 -> int32 seq ->
  c_r_mb (concat (c_mb_chunks name ty seq) ++ rest) = Some ((name, ty, seq), rest).
Proof.
  intros Hn Ht Hs. unfold c_mb_chunks. cbn [concat app]. unfold c_r_mb.
  change (130 =? 130) with true. cbn [negb].
  replace ((1 + ty mod 8 * 32) mod 32 =? 1) with true by lia. cbn [negb].
  rewrite <- !app_assoc. rewrite c_r_varint32_ok by assumption.
  cbn [app]. rewrite app_assoc. rewrite c_r_str_ok by assumption.
  replace ((1 + ty mod 8 * 32) / 32 mod 8) with ty by lia. reflexivity.
Qed.

Lemma c_i64_le_max v : int64 v -> (length (c_i64 v) <= length (c_i64 MAXI64))%nat.
Proof.
  intro Hv. change (length (c_i64 MAXI64)) with 10%nat. unfold c_i64.
  pose proof (varint64_len (zigzag v)). lia.
Qed.

Theorem compact_ok : proto_ok compact.
Proof.
  constructor; cbn [compact PS w_sb w_se w_fb w_stop w_i32 w_i64 w_double w_str w_lb w_mb p_inside
                    e_fb e_stop e_i32 e_i64 e_double e_str e_lb e_mb r_fb r_i32 r_i64 r_double r_str r_lb r_mb].
  - intros [l s]; reflexivity.
  - intros [l s] l'; reflexivity.
  - intros ty id [l s] l'; cbn [fst snd plast pstk]. split; reflexivity.
  - reflexivity.
  - intro v; cbn [concat]; apply app_nil_r.
  - intro v; cbn [concat]; apply app_nil_r.
  - intro v; cbn [concat]; apply app_nil_r.
  - intro s; cbn [concat]; rewrite app_nil_r; reflexivity.
  - reflexivity.
  - reflexivity.
  - exact c_r_fb_ok.
  - intros last rest; reflexivity.
  - exact c_r_i32_ok.
  - exact c_r_i64_ok.
  - intros v rest Hv; apply le64_roundtrip; exact Hv.
  - exact c_r_str_ok.
  - exact c_r_lb_ok.
  - exact c_r_mb_ok.
  - cbn; lia.
  - exact c_i64_le_max.
  - intros v w; reflexivity.
Qed.

(* the layout in plain bytes: field headers are the short form (delta << 4 | type) *)
Lemma compact_tag_layout t :
  e_tag compact t = 24 :: c_strlen (tname t) ++ tname t ++ 24 :: c_strlen (tvalue t) ++ tvalue t ++ [0].
Proof. unfold e_tag; cbn. rewrite <- !app_assoc. reflexivity. Qed.
Lemma compact_value_layout v :
  e_value compact v = 21 :: c_i32 (wrap32 (mtype v)) ++ 22 :: c_i64 (mcount v) ++ 23 :: le64 (mgauge v) ++
                      22 :: c_i64 (mtimer v) ++ [0].
Proof. unfold e_value; cbn [compact e_fb e_i32 e_i64 e_double e_stop]. reflexivity. Qed.
Lemma compact_metric_layout m :
  e_metric compact m = 24 :: c_strlen (mname m) ++ mname m ++ 28 :: e_value compact (mval m) ++
                       22 :: c_i64 (mts m) ++
                       match mtags m with None => [] | Some l => 25 :: e_tags compact l end ++ [0].
Proof.
  unfold e_metric; cbn [compact e_fb e_i32 e_i64 e_double e_stop e_str].
  destruct (mtags m); cbn [e_opt_tags compact e_fb]; cbn; rewrite <- !app_assoc; reflexivity.
Qed.
