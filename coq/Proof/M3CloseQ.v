(* Consequences of the protocol invariant (Proof/M3CloseP.v): the statements
   behind the C14 theorems. *)
From Coq Require Import ZArith List Bool Arith Lia.
From Tally Require Import Model.M3Close Proof.M3CloseP.
Import ListNotations.

Lemma loc_eq_dec (a b : loc) : {a = b} + {a <> b}.
Proof. decide equality. Qed.

(* ------------------------------------------------------------------ *)
(* the termination measure: an upper bound of the steps a thread still makes,
   the queued items counting twice, plus the consumer's remaining exits *)
Fixpoint cont (n : nat) : nat :=
  match n with O => 0 | S m => match m with O => 5 | S _ => 7 + cont m end end.
Definition remloc (l : loc) (n : nat) : nat :=
  match l with
  | LIdle => 0
  | LWrote => 8 + cont n | LCall => 7 + cont n | LEnter => 6 + cont n
  | LSend => 5 + cont n | LSent => 2 + cont n | LLeave => 1 + cont n
  | FEnter => 43 | FInt => 42 | FSend => 5 | FSent => 2 | FLeave => 1
  | CSpin1 => 5 | CSpin2 => 4 | CClose1 => 3 | CClose2 => 2 | CWait => 1
  end.
Definition oprem (o : op) : nat :=
  match o with OReport _ => 8 | OSample _ => 9 | OFlush => 44 | OClose => 6 end.
Definition opsrem (l : list op) : nat := fold_right (fun o a => oprem o + a) 0 l.
Definition rem (t : thread) : nat :=
  remloc (tloc t) (nest t) + opsrem (match tloc t with LIdle => ops t | _ => tl (ops t) end).
Definition krem (k : kloc) : nat :=
  match k with KPark0 | KPark => 2 | KExit => 1 | KDone => 0 end.
Definition mu (s : sys) : nat := wsum rem (thr s) + 2 * length (q s) + krem (kl s).

Section Consequences.
Variable sh : bool.
Variable cap : nat.
Hypothesis cap_pos : 1 <= cap.

Lemma run_cons s j r : run sh cap s (j :: r) = run sh cap (step sh cap s j) r.
Proof. reflexivity. Qed.

Lemma init_inv progs : Inv cap (init progs).
Proof.
  assert (Z : forall f, (forall p, f (new_thread p) = 0) -> wsum f (thr (init progs)) = 0).
  { intros f Hf. apply wsum_zero. cbn. intros t Ht. apply in_map_iff in Ht as (p & <- & _). apply Hf. }
  split.
  - unfold InvN. rewrite !Z by reflexivity. cbn. repeat split; intros; try reflexivity; try discriminate; lia.
  - split; [constructor|intros i []].
Qed.

Lemma reach_inv progs sched : Inv cap (run sh cap (init progs) sched).
Proof. apply run_inv; [assumption|apply init_inv]. Qed.

(* C14_no_send_on_closed *)
Lemma no_panic progs sched : panicked (run sh cap (init progs) sched) = false.
Proof. destruct (reach_inv progs sched) as [HN _]. unfold InvN in HN. tauto. Qed.

(* C14_second_close_error *)
Lemma one_nil_close progs sched :
  let s := run sh cap (init progs) sched in
  wsum nil_results (thr s) + wsum closing (thr s) = (if done s then 1 else 0).
Proof.
  cbv zeta. destruct (reach_inv progs sched) as [HN _]. unfold InvN in HN.
  destruct (done (run sh cap (init progs) sched)); intuition lia.
Qed.

Lemma late_close_errors s i t :
  nth_error (thr s) i = Some t -> tloc t = LIdle -> hd_error (ops t) = Some OClose -> done s = true ->
  let s' := step sh cap s (S i) in
  nth_error (thr s') i = Some (finish_close t 1) /\ panicked s' = panicked s /\
  done s' = done s /\ pending s' = pending s /\ q s' = q s /\ out s' = out s.
Proof.
  intros E L O D. cbn. unfold tstep. rewrite E, L. destruct (ops t) as [|[v|v| |] r]; try discriminate O.
  rewrite D. cbn. split; [eapply nth_upd_same; eassumption|repeat split; auto].
Qed.


(* results only accumulate *)
Lemma nil_mono s j : wsum nil_results (thr s) <= wsum nil_results (thr (step sh cap s j)).
Proof.
  destruct j as [|i]; cbn.
  - unfold kstep. destruct (kl s); try apply Nat.le_refl.
    1,2: destruct (q s) as [|v r]; [destruct (mclosed s); apply Nat.le_refl|].
    1,2: unfold wake; cbn [sendq q thr set_k set_out set_q]; destruct (sendq s) as [|k rest] eqn:SQ; [apply Nat.le_refl|].
    1,2: destruct (length r <? cap); [|apply Nat.le_refl].
    1,2: destruct (nth_error (thr s) k) as [t|] eqn:E; [|apply Nat.le_refl].
    1,2: pose proof (wsum_upd nil_results _ _ _ (at_loc (log_sent t) (sent_loc (tloc t))) E) as U.
    1,2: cbn; replace (nil_results (at_loc (log_sent t) (sent_loc (tloc t)))) with (nil_results t) in U;
         [lia|unfold nil_results, log_sent; destruct (tloc t); try reflexivity; destruct (ops t) as [|[| | |]]; try reflexivity; destruct (nest t); reflexivity].
  - unfold tstep. destruct (nth_error (thr s) i) as [t|] eqn:E; [|apply Nat.le_refl].
    assert (P : forall s0 t', thr s0 = thr s -> nil_results t <= nil_results t' ->
                wsum nil_results (thr s) <= wsum nil_results (thr (put s0 i t'))).
    { intros s0 t' Hs Ht. cbn. rewrite Hs. pose proof (wsum_upd nil_results _ _ _ t' E). lia. }
    assert (Ls : forall sel after, wsum nil_results (thr s) <= wsum nil_results (thr (send cap s i t sel after))).
    { intros sel after. unfold send. destruct (waiting s i); [apply Nat.le_refl|].
      destruct (mclosed s); [apply P; [reflexivity|apply Nat.le_refl]|].
      destruct (sel && dclosed s); [apply P; [reflexivity|apply Nat.le_refl]|].
      destruct (room cap s); [|apply Nat.le_refl]. apply P; [reflexivity|].
      unfold nil_results, log_sent. destruct (tloc t); try apply Nat.le_refl. destruct (ops t) as [|[| | |]]; try apply Nat.le_refl. destruct (nest t); apply Nat.le_refl. }
    destruct (tloc t); try apply Ls;
      repeat match goal with
             | |- context [match ?x with _ => _ end] => destruct x
             | |- context [if ?x then _ else _] => destruct x
             end; try apply Nat.le_refl; apply P; try reflexivity; unfold nil_results; cbn; try apply Nat.le_refl;
      try (destruct (Z.eqb 0 1); cbn; lia); lia.
Qed.

(* C14_after_close_noop *)
Lemma closed_facts s : Inv cap s -> 0 < wsum nil_results (thr s) ->
  kl s = KDone /\ mclosed s = true /\ dclosed s = true /\ q s = [] /\ sendq s = [] /\
  wsum committed (thr s) = 0.
Proof.
  intros [HN HL] Hn. pose proof (sq_pos _ _ HL) as SP.
  pose proof (wsum_le _ _ (thr s) issend_committed) as Lsc.
  unfold InvN in HN. destruct HN as (_ & _ & _ & _ & HE & HF & _ & _ & _ & _ & HJ & HK & _).
  specialize (HK Hn). destruct (kl s) eqn:Kl; cbn in HK; try lia.
  destruct HJ as [Mc Q]; [cbn; lia|]. specialize (HF Mc). specialize (HE (or_intror HF)).
  repeat split; auto.
  - destruct (q s); [reflexivity|cbn in Q; lia].
  - destruct (sendq s); [reflexivity|]. cbn in SP. lia.
Qed.

Lemma closed_step s j : Inv cap s -> 0 < wsum nil_results (thr s) ->
  out (step sh cap s j) = out s /\ q (step sh cap s j) = [].
Proof.
  intros HI Hn. destruct (closed_facts s HI Hn) as (Kl & Mc & Dc & Q & SQ & Cm).
  destruct j as [|i]; cbn.
  - unfold kstep. rewrite Kl. auto.
  - unfold tstep. destruct (nth_error (thr s) i) as [t|] eqn:E; [|auto].
    pose proof (wsum_ge committed _ _ _ E) as Gc. rewrite Cm in Gc.
    destruct (tloc t) eqn:L; unfold committed in Gc; rewrite L in Gc; try lia;
      repeat match goal with
             | |- context [match ?x with _ => _ end] => destruct x
             | |- context [if ?x then _ else _] => destruct x
             end; cbn; auto.
Qed.

Lemma after_close_noop s sched : Inv cap s -> 0 < wsum nil_results (thr s) ->
  out (run sh cap s sched) = out s /\ q (run sh cap s sched) = [] /\
  0 < wsum nil_results (thr (run sh cap s sched)).
Proof.
  revert s. induction sched as [|j r IH]; intros s HI Hn.
  - destruct (closed_facts s HI Hn) as (_ & _ & _ & Q & _). auto.
  - rewrite run_cons. destruct (closed_step s j HI Hn) as [Ho Hq].
    destruct (IH (step sh cap s j)) as (Ho' & Hq' & Hn').
    + apply step_inv; assumption.
    + pose proof (nil_mono s j). lia.
    + split; [rewrite Ho'; exact Ho|]. auto.
Qed.


(* C14_deadlock_free *)
Lemma forallb_false_nth {A} (f : A -> bool) l :
  forallb f l = false -> exists i t, nth_error l i = Some t /\ f t = false.
Proof.
  induction l as [|h l IH]; cbn; [discriminate|]. destruct (f h) eqn:F.
  - intros Hf. destruct (IH Hf) as (i & t & Hn & Ht). exists (S i), t. auto.
  - intros _. exists 0, h. auto.
Qed.

Lemma kdisabled_facts s : Inv cap s -> kenabled s = false ->
  (kl s = KDone /\ mclosed s = true /\ dclosed s = true /\ wsum committed (thr s) = 0) \/
  (kl s <> KDone /\ q s = [] /\ mclosed s = false /\ sendq s = []).
Proof.
  intros [HN HL] Hk. pose proof (sq_pos _ _ HL) as SP. unfold InvN in HN.
  destruct HN as (_ & _ & _ & _ & HE & HF & _ & _ & _ & _ & HJ & _ & HLq).
  unfold kenabled, kblocked in Hk. destruct (kl s) eqn:Kl; cbn in HJ.
  1,2: destruct (q s) eqn:Q; [|discriminate Hk]; right;
       destruct (mclosed s); [discriminate Hk|]; repeat split; try congruence;
       destruct (sendq s); [reflexivity|]; cbn in HLq; lia.
  - destruct (mclosed s); discriminate Hk.
  - left. destruct HJ as [Mc _]; [lia|]. specialize (HF Mc). specialize (HE (or_intror HF)). auto.
Qed.

Lemma thread_enabled s i t : Inv cap s -> kenabled s = false ->
  nth_error (thr s) i = Some t -> finished t = false -> tloc t <> CSpin2 -> tenabled cap s i = true.
Proof.
  intros HI Hk E Hf Hc. pose proof (kdisabled_facts s HI Hk) as KD. destruct HI as [HN HL].
  pose proof (wsum_ge committed _ _ _ E) as Gc. pose proof (wsum_ge atwait _ _ _ E) as Ga.
  unfold InvN in HN. destruct HN as (_ & _ & _ & _ & _ & _ & _ & HG & _).
  unfold tenabled, tblocked. rewrite E. unfold finished in Hf. unfold committed at 1 in Gc. unfold atwait at 1 in Ga.
  destruct (tloc t) eqn:L; try reflexivity; try congruence.
  - destruct (ops t); [discriminate Hf|reflexivity].
  - destruct KD as [(_ & _ & _ & Cm)|(_ & Q & Mc & SQ)]; [lia|].
    unfold waiting, room. rewrite SQ, Q, Mc. cbn. destruct (dclosed s); cbn; [reflexivity|].
    destruct (cap + bonus s) eqn:C; [lia|reflexivity].
  - destruct KD as [(_ & _ & _ & Cm)|(_ & Q & Mc & SQ)]; [lia|].
    unfold waiting, room. rewrite SQ, Q, Mc. cbn.
    destruct (cap + bonus s) eqn:C; [lia|reflexivity].
  - destruct KD as [(Kl & _)|(_ & _ & Mc & _)]; [rewrite Kl; reflexivity|].
    rewrite HG in Mc; [discriminate|lia].
Qed.

Lemma deadlock_free s : Inv cap s -> all_finished s = false -> exists j, enabled cap s j = true.
Proof.
  intros HI Hf. destruct (kenabled s) eqn:Hk; [exists 0; exact Hk|].
  apply forallb_false_nth in Hf as (i & t & E & Ht).
  destruct (loc_eq_dec (tloc t) CSpin2) as [L|L].
  - destruct (pending s =? 0) eqn:P0.
    + exists (S i). cbn. unfold tenabled. rewrite E, L. exact P0.
    + apply Nat.eqb_neq in P0. destruct HI as [HN HL]. assert (HN' := HN). unfold InvN in HN'.
      destruct HN' as (HA & _). rewrite HA in P0.
      destruct (wsum_pos weight (thr s)) as (i' & t' & E' & W'); [lia|].
      exists (S i'). cbn. apply thread_enabled with (t := t'); auto; [split; assumption| |].
      * unfold finished. unfold weight in W'. destruct (tloc t'); try reflexivity; lia.
      * intros L'. unfold weight in W'. rewrite L' in W'. lia.
  - exists (S i). cbn. eapply thread_enabled; eauto.
Qed.


(* C14_close_terminates_fair_partial *)
Lemma cont_SS k : cont (S (S k)) = 7 + cont (S k).
Proof. reflexivity. Qed.

Lemma mu_step s j : Inv cap s ->
  mu (step sh cap s j) + (if enabled cap s j then 1 else 0) <= mu s.
Proof.
  intros [_ HL]. destruct j as [|i]; cbn [step enabled].
  - unfold kstep, kenabled, kblocked.
    destruct (kl s) eqn:Kl; try (unfold mu; cbn; rewrite ?Kl; cbn; lia).
    1,2: destruct (q s) as [|v r] eqn:Q;
      [destruct (mclosed s); unfold mu; cbn; rewrite ?Kl, ?Q; cbn; lia|].
    1,2: unfold wake; cbn [sendq q thr set_k set_out set_q]; destruct (sendq s) as [|k rest] eqn:SQ;
      [unfold mu; cbn; rewrite ?Kl, ?Q; cbn; lia|].
    1,2: destruct (length r <? cap); [|unfold mu; cbn; rewrite ?Kl, ?Q; cbn; lia].
    1,2: destruct (nth_error (thr s) k) as [t|] eqn:E; [|unfold mu; cbn; rewrite ?Kl, ?Q; cbn; lia].
    1,2: pose proof (wsum_upd rem _ _ _ (at_loc (log_sent t) (sent_loc (tloc t))) E) as U;
         unfold mu; cbn; rewrite ?Kl, ?Q, ?app_length; cbn [length krem].
    1,2: assert (R : rem (at_loc (log_sent t) (sent_loc (tloc t))) < rem t); [|lia].
    1,2: destruct (proj2 HL k (or_introl eq_refl)) as (t0 & E0 & Hs); rewrite E in E0; inversion E0; subst t0.
    1,2: clear E U; destruct t as [l n xx os rs ss]; unfold issend in Hs; cbn in Hs;
         destruct l; try discriminate Hs; unfold rem, log_sent; cbn;
         destruct os as [|[| | |] ?]; try destruct n; cbn; lia.
  - unfold tstep, tenabled, tblocked. destruct (nth_error (thr s) i) as [t|] eqn:E; [|lia].
    destruct t as [l n xx os rs ss]. cbn [tloc ops nest x].
    destruct l; unfold send, log_sent, internal_reports; cbn [tloc ops nest x];
      try (destruct n as [|[|n']]);
      repeat match goal with
             | |- context [if ?c then _ else _] => destruct c eqn:?
             | |- context [match ?c with _ => _ end] => destruct c eqn:?
             end;
      try (unfold mu; cbn; lia);
      try (exfalso; cbn in *; destruct (dclosed s); cbn in *; discriminate);
      unfold put, inc, dec;
      cbn [thr set_cell set_pending set_done set_dclosed set_mclosed set_panicked set_q set_sendq];
      try (match goal with |- context [upd (thr s) i ?t'] =>
        pose proof (wsum_upd rem _ _ _ t' E) as U end;
      unfold mu; cbn in *; rewrite ?app_length; cbn [length]; rewrite ?cont_SS in *; lia).
Qed.


Lemma upd_same {A} (l : list A) i t : nth_error l i = Some t -> upd l i t = l.
Proof.
  revert i; induction l as [|h l IH]; intros [|i] Hn; cbn in Hn; try discriminate.
  - inversion Hn; subst. reflexivity.
  - unfold upd; fold (@upd A). f_equal. apply IH. assumption.
Qed.

Lemma put_same s i t : nth_error (thr s) i = Some t -> put s i t = s.
Proof. intros E. unfold put. rewrite (upd_same _ _ _ E). destruct s; reflexivity. Qed.

(* a pick that is not enabled changes nothing but the waiting registrations *)
Lemma disabled_shape s j : enabled cap s j = false ->
  step sh cap s j = s \/
  (exists i, j = S i /\ step sh cap s j = set_sendq s (sendq s ++ [i])) \/
  (j = 0 /\ step sh cap s j = set_k s (kl s) true).
Proof.
  destruct j as [|i]; cbn [step enabled].
  - unfold kenabled, kblocked, kstep. destruct (kl s) eqn:Kl; try discriminate; auto.
    1,2: destruct (q s); try discriminate; destruct (mclosed s); try discriminate; auto.
  - unfold tenabled, tblocked, tstep. destruct (nth_error (thr s) i) as [t|] eqn:E; auto.
    destruct t as [l n xx os rs ss]. cbn [tloc ops nest].
    destruct l; try discriminate; unfold send.
    + destruct os; [auto|discriminate].
    + destruct (waiting s i); [auto|]. destruct (mclosed s); [discriminate|].
      destruct (dclosed s); [discriminate|]. cbn [andb]. destruct (room cap s); [discriminate|].
      intros _. right. left. exists i. auto.
    + destruct (waiting s i); [auto|]. destruct (mclosed s); [discriminate|].
      cbn [andb]. destruct (room cap s); [discriminate|].
      intros _. right. left. exists i. auto.
    + intros P0. rewrite P0. left. apply put_same. exact E.
    + destruct (kl s); try discriminate; auto.
Qed.

Lemma existsb_app_single i l k : existsb (Nat.eqb i) (l ++ [k]) = existsb (Nat.eqb i) l || (i =? k).
Proof. rewrite existsb_app. cbn. rewrite orb_false_r. reflexivity. Qed.

Lemma disabled_keeps s j j' : enabled cap s j = false -> enabled cap s j' = true ->
  enabled cap (step sh cap s j) j' = true.
Proof.
  intros Hd He. destruct (disabled_shape s j Hd) as [->|[(i & -> & ->)|(-> & ->)]]; [assumption| |].
  - destruct j' as [|i']; [exact He|]. cbn [enabled] in *.
    destruct (Nat.eq_dec i' i) as [->|Hne]; [congruence|].
    unfold tenabled, tblocked, waiting, room, bonus in *. cbn [thr sendq set_sendq q kwait mclosed dclosed kl pending].
    rewrite existsb_app_single. apply Nat.eqb_neq in Hne. rewrite Hne, orb_false_r. exact He.
  - destruct j' as [|i']; [exact He|]. cbn [enabled] in *.
    unfold tenabled, tblocked, waiting, room, bonus in *. cbn [thr sendq set_k q kwait mclosed dclosed kl pending].
    destruct (nth_error (thr s) i') as [t|]; [|discriminate].
    destruct (tloc t); try exact He.
    + destruct (existsb (Nat.eqb i') (sendq s)); [discriminate He|]. cbn [orb] in *.
      destruct (mclosed s), (dclosed s); cbn [negb andb] in *; try reflexivity.
      destruct (kwait s); [exact He|]. apply negb_true_iff in He. apply negb_false_iff in He.
      apply Nat.ltb_lt in He. apply negb_true_iff. apply negb_false_iff. apply Nat.ltb_lt. lia.
    + destruct (existsb (Nat.eqb i') (sendq s)); [discriminate He|]. cbn [orb] in *.
      destruct (mclosed s); cbn [negb andb] in *; try reflexivity.
      destruct (kwait s); [exact He|]. apply negb_true_iff in He. apply negb_false_iff in He.
      apply Nat.ltb_lt in He. apply negb_true_iff. apply negb_false_iff. apply Nat.ltb_lt. lia.
Qed.

Lemma mu_run_le l : forall s, Inv cap s -> mu (run sh cap s l) <= mu s.
Proof.
  induction l as [|a l IH]; intros s HI; [apply Nat.le_refl|]. rewrite run_cons.
  pose proof (mu_step s a HI). specialize (IH _ (step_inv sh cap cap_pos s a HI)).
  destruct (enabled cap s a); lia.
Qed.

Lemma round_progress l : forall s, Inv cap s ->
  (exists j, In j l /\ enabled cap s j = true) -> mu (run sh cap s l) < mu s.
Proof.
  induction l as [|a l IH]; intros s HI (j & Hj & He); [destruct Hj|]. rewrite run_cons.
  pose proof (mu_step s a HI) as Hm. pose proof (step_inv sh cap cap_pos s a HI) as HI'.
  destruct (enabled cap s a) eqn:Ea.
  - pose proof (mu_run_le l _ HI'). lia.
  - assert (Hlt : mu (run sh cap (step sh cap s a) l) < mu (step sh cap s a)).
    { apply IH; [assumption|]. exists j. split.
      - destruct Hj as [->|Hj]; [congruence|assumption].
      - apply disabled_keeps; assumption. }
    lia.
Qed.

Lemma length_thr_step s j : length (thr (step sh cap s j)) = length (thr s).
Proof.
  destruct j as [|i]; cbn [step].
  - unfold kstep, wake. destruct (kl s); try reflexivity.
    1,2: destruct (q s); [destruct (mclosed s); reflexivity|]; cbn [sendq q thr set_k set_out set_q];
         destruct (sendq s); [reflexivity|]; destruct (length l <? cap); [|reflexivity];
         destruct (nth_error (thr s) n); cbn; rewrite ?upd_length; reflexivity.
  - unfold tstep, send. destruct (nth_error (thr s) i) as [t|]; [|reflexivity].
    destruct (tloc t);
      repeat match goal with
             | |- context [if ?c then _ else _] => destruct c
             | |- context [match ?c with _ => _ end] => destruct c
             end; cbn; rewrite ?upd_length; reflexivity.
Qed.

Lemma length_thr_run l : forall s, length (thr (run sh cap s l)) = length (thr s).
Proof. induction l as [|a l IH]; intros s; [reflexivity|]. rewrite run_cons, IH. apply length_thr_step. Qed.

Lemma finished_step s j : Inv cap s -> all_finished s = true -> all_finished (step sh cap s j) = true.
Proof.
  intros [_ HL] Hf. assert (Hall : forall i t, nth_error (thr s) i = Some t -> finished t = true).
  { intros i t E. unfold all_finished in Hf. rewrite forallb_forall in Hf. apply Hf. eapply nth_error_In; eauto. }
  assert (Hs : sendq s = []).
  { destruct (sendq s) as [|k r] eqn:SQ; [reflexivity|].
    destruct (proj2 HL k (or_introl eq_refl)) as (t & E & Hs). specialize (Hall _ _ E).
    unfold finished in Hall. unfold issend in Hs. destruct (tloc t); discriminate. }
  assert (Ht : thr (step sh cap s j) = thr s); [|unfold all_finished; rewrite Ht; exact Hf].
  destruct j as [|i]; cbn [step].
  - unfold kstep, wake. destruct (kl s); try reflexivity.
    1,2: destruct (q s); [destruct (mclosed s); reflexivity|]; cbn [sendq q thr set_k set_out set_q]; rewrite Hs; reflexivity.
  - unfold tstep. destruct (nth_error (thr s) i) as [t|] eqn:E; [|reflexivity].
    specialize (Hall _ _ E). unfold finished in Hall. destruct (tloc t); try discriminate.
    destruct (ops t); [reflexivity|discriminate].
Qed.

Lemma finished_run l : forall s, Inv cap s -> all_finished s = true -> all_finished (run sh cap s l) = true.
Proof.
  induction l as [|a l IH]; intros s HI Hf; [exact Hf|]. rewrite run_cons. apply IH.
  - apply step_inv; assumption.
  - apply finished_step; assumption.
Qed.

Lemma run_app s l1 l2 : run sh cap s (l1 ++ l2) = run sh cap (run sh cap s l1) l2.
Proof. unfold run. apply fold_left_app. Qed.

Lemma terminates k : forall s, Inv cap s -> mu s <= k ->
  all_finished (run sh cap s (rounds (length (thr s)) k)) = true.
Proof.
  induction k as [|k IH]; intros s HI Hk.
  - cbn. destruct (all_finished s) eqn:Hf; [reflexivity|].
    destruct (deadlock_free s HI Hf) as (j & He). pose proof (mu_step s j HI) as Hm. rewrite He in Hm. lia.
  - cbn [rounds]. rewrite run_app. destruct (all_finished s) eqn:Hf.
    + apply finished_run; [apply run_inv; assumption|]. apply finished_run; assumption.
    + destruct (deadlock_free s HI Hf) as (j & He).
      assert (Hj : In j (round (length (thr s)))).
      { unfold round. apply in_seq. destruct j as [|i]; [lia|]. cbn in He. unfold tenabled in He.
        destruct (nth_error (thr s) i) eqn:E; [|discriminate]. assert (i < length (thr s)) by (apply nth_error_Some; congruence). lia. }
      pose proof (round_progress _ s HI (ex_intro _ j (conj Hj He))) as Hlt.
      pose proof (run_inv sh cap cap_pos (round (length (thr s))) s HI) as HI1.
      pose proof (length_thr_run (round (length (thr s))) s) as Hlen.
      set (s1 := run sh cap s (round (length (thr s)))) in *.
      rewrite <- Hlen. apply IH; [assumption|lia].
Qed.

End Consequences.

(* ------------------------------------------------------------------ *)
(* the repaired bucket handle (per-call copy): every enqueued sample is the
   argument of its own call *)
Section OwnValue.
Variable cap : nat.

Definition isrep (l : loc) : bool :=
  match l with LWrote | LCall | LEnter | LSend | LSent | LLeave => true | _ => false end.
Definition okx (t : thread) : Prop :=
  (isrep (tloc t) = true -> nest t = 0 -> forall v r, ops t = OSample v :: r -> x t = v) /\
  Forall (fun p => fst p = snd p) (sent t).

Lemma Forall_upd {A} (P : A -> Prop) l i a : Forall P l -> P a -> Forall P (upd l i a).
Proof.
  intros Hl Ha. revert i. induction Hl as [|h l Hh Hl IH]; intros [|i]; unfold upd; fold (@upd A);
    try constructor; auto.
Qed.

Lemma Forall_nth {A} (P : A -> Prop) l i a : Forall P l -> nth_error l i = Some a -> P a.
Proof. intros Hl Hn. rewrite Forall_forall in Hl. apply Hl. eapply nth_error_In; eauto. Qed.

Ltac okx_tac :=
  unfold okx in *; cbn in *;
  match goal with H : _ /\ _ |- _ => destruct H as [? ?] end;
  split; [intros; try discriminate; try lia;
          try (match goal with H : _ :: _ = _ :: _ |- _ => inversion H; subst end; reflexivity);
          eauto
         | try assumption; try (constructor; [cbn; symmetry; eauto|assumption]) ].

Lemma okx_wake t : okx t -> okx (at_loc (log_sent t) (sent_loc (tloc t))).
Proof.
  intros Ht. destruct t as [l n xx os rs ss]. unfold log_sent. cbn [tloc ops nest].
  destruct l; try (okx_tac; fail).
  - destruct os as [|[v|v| |] os']; try (okx_tac; fail). destruct n; okx_tac.
Qed.

Lemma own_step s j : Forall okx (thr s) -> Forall okx (thr (step false cap s j)).
Proof.
  intros Hall. destruct j as [|i]; cbn [step].
  - unfold kstep, wake. destruct (kl s); try assumption.
    1,2: destruct (q s); [destruct (mclosed s); assumption|]; cbn [sendq q thr set_k set_out set_q];
         destruct (sendq s) as [|k r]; [assumption|]; destruct (length l <? cap); [|assumption];
         destruct (nth_error (thr s) k) as [t|] eqn:E; [|assumption];
         cbn; apply Forall_upd; [assumption|]; apply okx_wake; eapply Forall_nth; eauto.
  - unfold tstep. destruct (nth_error (thr s) i) as [t|] eqn:E; [|assumption].
    pose proof (Forall_nth _ _ _ _ Hall E) as Ht.
    destruct t as [l n xx os rs ss]. cbn [tloc ops nest x].
    destruct l; unfold send, log_sent, internal_reports; cbn [tloc ops nest x andb];
      try (destruct n as [|[|n']]);
      repeat match goal with
             | |- context [if ?c then _ else _] => destruct c
             | |- context [match ?c with _ => _ end] => destruct c
             end; try assumption; cbn; apply Forall_upd; try assumption; okx_tac.
Qed.

Lemma own_values progs sched t :
  In t (thr (run false cap (init progs) sched)) -> Forall (fun p => fst p = snd p) (sent t).
Proof.
  assert (H0 : Forall okx (thr (init progs))).
  { cbn. apply Forall_forall. intros t0 Ht0. apply in_map_iff in Ht0 as (p & <- & _).
    split; [cbn; discriminate|constructor]. }
  revert H0. generalize (init progs). induction sched as [|j r IH]; intros s Hs Hin.
  - rewrite Forall_forall in Hs. apply Hs. assumption.
  - cbn in Hin. apply (IH (step false cap s j)); [apply own_step; assumption|assumption].
Qed.

End OwnValue.

(* ------------------------------------------------------------------ *)
(* the statements of Props/C14.v *)
Lemma thm_no_send : forall shared cap progs sched, 1 <= cap ->
  panicked (run shared cap (init progs) sched) = false.
Proof. intros; apply no_panic; assumption. Qed.

Lemma thm_second_close : forall shared cap progs sched, 1 <= cap ->
  let s := run shared cap (init progs) sched in
  wsum nil_results (thr s) + wsum closing (thr s) = (if done s then 1 else 0) /\
  forall i t, nth_error (thr s) i = Some t -> tloc t = LIdle ->
    hd_error (ops t) = Some OClose -> done s = true ->
    let s' := step shared cap s (S i) in
    nth_error (thr s') i = Some (finish_close t 1) /\ panicked s' = false /\
    pending s' = pending s /\ q s' = q s /\ out s' = out s.
Proof.
  intros shared cap progs sched Hc s. split; [apply one_nil_close; assumption|].
  intros i t E L O D. destruct (late_close_errors shared cap s i t E L O D) as (H1 & H2 & _ & H4 & H5 & H6).
  repeat split; try assumption. cbv zeta in H2. rewrite H2. apply no_panic; assumption.
Qed.

Lemma thm_after_close : forall shared cap progs sched sched', 1 <= cap ->
  let s := run shared cap (init progs) sched in
  0 < wsum nil_results (thr s) ->
  let s' := run shared cap s sched' in
  q s = [] /\ kl s = KDone /\ out s' = out s /\ q s' = [] /\ panicked s' = false.
Proof.
  intros shared cap progs sched sched' Hc s Hn s'.
  pose proof (reach_inv shared cap Hc progs sched) as HI.
  destruct (closed_facts cap Hc s HI Hn) as (Kl & _ & _ & Q & _).
  destruct (after_close_noop shared cap Hc s sched' HI Hn) as (Ho & Hq & _).
  repeat split; try assumption.
  unfold s', s. unfold run. rewrite <- fold_left_app. apply (no_panic shared cap Hc progs (sched ++ sched')).
Qed.

Lemma thm_deadlock_free : forall shared cap progs sched, 1 <= cap ->
  let s := run shared cap (init progs) sched in
  all_finished s = false -> exists j, enabled cap s j = true.
Proof.
  intros shared cap progs sched Hc s Hf. apply deadlock_free; [assumption|apply reach_inv; assumption|assumption].
Qed.

Lemma thm_terminates : forall shared cap progs, 1 <= cap ->
  let s := run shared cap (init progs) (rounds (length progs) (mu (init progs))) in
  all_finished s = true /\ (done s = true -> kl s = KDone /\ q s = []).
Proof.
  intros shared cap progs Hc s.
  assert (Hf : all_finished s = true).
  { unfold s. replace (length progs) with (length (thr (init progs))) by (cbn; apply map_length).
    apply terminates; [assumption|apply init_inv; assumption|apply Nat.le_refl]. }
  split; [assumption|]. intros D.
  pose proof (reach_inv shared cap Hc progs (rounds (length progs) (mu (init progs)))) as HI. fold s in HI.
  pose proof (one_nil_close shared cap Hc progs (rounds (length progs) (mu (init progs)))) as H1.
  cbv zeta in H1. fold s in H1. rewrite D in H1.
  assert (Hz : wsum closing (thr s) = 0).
  { apply wsum_zero. intros t Ht. unfold all_finished in Hf. rewrite forallb_forall in Hf.
    specialize (Hf t Ht). unfold finished in Hf. unfold closing. destruct (tloc t); try discriminate; reflexivity. }
  destruct (closed_facts cap Hc s HI) as (Kl & _ & _ & Q & _); [lia|]. auto.
Qed.
