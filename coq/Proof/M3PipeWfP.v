(* Proofs about Model/M3Pipe.v, part 3: every emitted batch is a well-typed
   MetricBatch (strings, list lengths and numbers within the ranges of the Go
   types), so every datagram is the encoding of exactly one one-way message
   and decodes back to its batch (C16). *)
From Coq Require Import ZArith List Bool Arith Lia.
From Tally Require Import Base.ObsCore Base.Search Gen.Params Model.Varint Model.Thrift Model.Buckets Model.M3Pipe
  Proof.VarintP Proof.ThriftP Proof.ThriftC16P Proof.BucketsP Proof.M3PipeP Proof.M3PipeIdP.
Import ListNotations.
Open Scope Z_scope.

Definition HALF : Z := 1073741824.       (* 2^30 *)

Definition tm_strs_ok (m : tagmap) : Prop :=
  Forall (fun kv => str_ok (fst kv) /\ str_ok (snd kv)) m /\ Z.of_nat (length m) < HALF.

Definition v_ok (k v : Z) : Prop := if k =? 2 then bits64 v else int64 v.

(* what the Go types guarantee about the arguments of a call *)
Definition op_ok (o : op) : Prop :=
  match o with
  | OAlloc k name tm _ size => (k = 1 \/ k = 2 \/ k = 3) /\ str_ok name /\ tm_strs_ok tm /\ 1 <= size
  | OAllocH hk name tm _ spec szf =>
      str_ok name /\ tm_strs_ok tm /\ Z.of_nat (length spec) < HALF /\ (forall i, 1 <= szf i)
  | OReport _ _ k v => v_ok k v
  | OSamples _ _ _ _ v => int64 v
  | OFlush ints => Forall (fun ms => metric_ok (fst ms) /\ 1 <= snd ms) ints
  | OTick v => int64 v
  end.

Definition cfg_ok (cfg : config) : Prop :=
  tags_ok (ccommon cfg) /\ str_ok (cbid cfg) /\ str_ok (cbkt cfg) /\
  (forall hk v, Z.of_nat (length (crender cfg hk v)) < HALF) /\
  cfree cfg < 2147483648.

Definition tags_room (t : list tag) : Prop := tags_ok t /\ Z.of_nat (length t) < HALF.

Definition handle_ok (h : handle) : Prop :=
  match h with
  | HMet k name tags size =>
      (k = 1 \/ k = 2 \/ k = 3) /\ str_ok name /\ opt_tags_ok tags /\ 1 <= size
  | HHist hk name tags spec szf =>
      str_ok name /\ tags_room tags /\ Z.of_nat (length spec) < HALF /\ (forall i, 1 <= szf i)
  end.

Definition item_ok (it : qitem) : Prop :=
  match it with
  | QMet _ m sz bid br =>
      metric_ok m /\ 1 <= sz /\ str_ok bid /\ str_ok br /\
      (br <> [] -> match mtags m with Some t => Z.of_nat (length t) < HALF | None => True end)
  | QMark => True
  end.

Record st_ok (s : pstate) : Prop := {
  ok_cache : Forall (fun e => tags_room (snd e)) (pcache s);
  ok_handles : Forall handle_ok (phandles s);
  ok_now : int64 (pnow s)
}.

Lemma conv_room m : tm_strs_ok m -> tags_room (conv m).
Proof.
  intros [Hf Hl]. unfold tags_room, tags_ok, conv. rewrite map_length. unfold HALF in *.
  repeat split; try lia. apply Forall_map. eapply Forall_impl; [|exact Hf]. intros [k v] Hh. exact Hh.
Qed.

Lemma cfind_room c key t : Forall (fun e => tags_room (snd e)) c -> cfind key c = Some t -> tags_room t.
Proof.
  induction c as [|[k t'] r IH]; cbn; intros Hc Hf; [discriminate|].
  inversion Hc as [|? ? H1 H2]; subst. destruct (k =? key); [injection Hf as <-; exact H1|apply IH; assumption].
Qed.

Lemma convert_room md c key m : Forall (fun e => tags_room (snd e)) c -> tm_strs_ok m ->
  Forall (fun e => tags_room (snd e)) (fst (convert md c key m)) /\ tags_room (snd (convert md c key m)).
Proof.
  intros Hc Hm. pose proof (conv_room m Hm) as Hr.
  destruct md; unfold convert; [cbn [fst snd]; split; assumption| |];
    (destruct (cfind key c) as [cached|] eqn:E;
     [ pose proof (cfind_room _ _ _ Hc E);
       try (match goal with |- context [if ?b then _ else _] => destruct b end); cbn [fst snd]; split; assumption
     | cbn [fst snd]; split; [constructor; assumption|assumption] ]).
Qed.

Lemma reported_ok k name tags v ts : (k = 1 \/ k = 2 \/ k = 3) -> str_ok name -> opt_tags_ok tags ->
  v_ok k v -> int64 ts -> metric_ok (reported k name tags v ts).
Proof.
  intros Hk Hn Ht Hv Hts. unfold reported, metric_ok, value_ok. cbn [mname mval mts mtags mtype mcount mgauge mtimer].
  unfold v_ok in Hv. unfold int32, int64, bits64 in *.
  destruct Hk as [-> | [-> | ->]]; cbn in *; repeat split; try assumption; try lia.
Qed.

Lemma s_inf_len : length s_infinity = 8%nat /\ length s_ninfinity = 9%nat.
Proof. split; reflexivity. Qed.

Lemma bstr_len cfg hk v : (forall hk v, Z.of_nat (length (crender cfg hk v)) < HALF) ->
  Z.of_nat (length (bstr cfg hk v)) < HALF.
Proof.
  intro Hr. unfold bstr. destruct hk.
  - destruct (v =? MAXF); [cbn; unfold HALF; lia|]. destruct (v =? NMAXF); [cbn; unfold HALF; lia|]. apply Hr.
  - destruct (v =? 0); [cbn; unfold HALF; lia|]. destruct (v =? MAXI); [cbn; unfold HALF; lia|].
    destruct (v =? MINI); [cbn; unfold HALF; lia|]. apply Hr.
Qed.

Lemma bucket_at_ok cfg hk spec i : cfg_ok cfg -> Z.of_nat (length spec) < HALF -> (i < S (length spec))%nat ->
  str_ok (bk_id (bucket_at cfg hk spec i)) /\ str_ok (bk_range (bucket_at cfg hk spec i)).
Proof.
  intros (_ & _ & _ & Hr & _) Hs Hi. unfold bucket_at, bk_id, bk_range, str_ok. cbn [fst snd]. split.
  - rewrite bucket_id_width by lia. rewrite pad_dec_length. unfold id_width.
    pose proof (ndigits_le (length spec)). assert (Z.to_nat m3_min_bucket_id_len = 4%nat) by reflexivity.
    unfold HALF in *. lia.
  - rewrite !app_length. cbn [length].
    pose proof (bstr_len cfg hk (lower hk (uppers hk spec) i) Hr).
    pose proof (bstr_len cfg hk (nth i (uppers hk spec) 0) Hr). unfold HALF in *. lia.
Qed.

Lemma pstep_ok md cfg s o : cfg_ok cfg -> st_ok s -> op_ok o ->
  st_ok (fst (pstep md cfg s o)) /\ Forall item_ok (snd (pstep md cfg s o)).
Proof.
  intros Hcfg [Hc Hh Hn] Ho.
  destruct o as [k name tm key size|hk name tm key spec szf|pid h k v|pid h hk ub v|ints|v]; cbn [pstep]; cbn [op_ok] in Ho.
  - destruct Ho as (Hk & Hname & Htm & Hsz). destruct tm as [|kv tm'].
    + cbn [fst snd]. split; [|constructor]. split; cbn [pcache phandles pnow]; auto.
      apply Forall_app; split; [assumption|]. constructor; [|constructor]. cbn. auto.
    + destruct (convert_room md (pcache s) key (kv :: tm') Hc Htm) as [Hc' Ht].
      destruct (convert md (pcache s) key (kv :: tm')) as [c t]. cbn [fst snd] in *.
      split; [|constructor]. split; cbn [pcache phandles pnow]; auto.
      apply Forall_app; split; [assumption|]. constructor; [|constructor].
      exact (conj Hk (conj Hname (conj (proj1 Ht) Hsz))).
  - destruct Ho as (Hname & Htm & Hsp & Hsz).
    destruct (convert_room md (pcache s) key tm Hc Htm) as [Hc' Ht].
    destruct (convert md (pcache s) key tm) as [c t]. cbn [fst snd] in *.
    split; [|constructor]. split; cbn [pcache phandles pnow]; auto.
    apply Forall_app; split; [assumption|]. constructor; [|constructor].
    exact (conj Hname (conj Ht (conj Hsp Hsz))).
  - destruct (nth_error (phandles s) h) as [[k' n t z|? ? ? ? ?]|] eqn:E; cbn [fst snd];
      try (split; [split; assumption|constructor]).
    apply nth_error_In in E. pose proof Hh as Hh0. rewrite Forall_forall in Hh. specialize (Hh _ E). cbn in Hh.
    destruct Hh as (Hk & Hname & Ht & Hz).
    destruct (Z.eqb_spec k k') as [-> | Hne]; cbn [fst snd]; (split; [split; assumption|]); [|constructor].
    constructor; [|constructor].
    refine (conj _ (conj Hz (conj _ (conj _ _)))).
    + apply reported_ok; assumption.
    + unfold str_ok; cbn; lia.
    + unfold str_ok; cbn; lia.
    + intro Hx. contradiction.
  - destruct (nth_error (phandles s) h) as [[? ? ? ?|hk' n t sp f]|] eqn:E; cbn [fst snd];
      try (split; [split; assumption|constructor]).
    apply nth_error_In in E. pose proof Hh as Hh0. rewrite Forall_forall in Hh. specialize (Hh _ E). cbn in Hh.
    destruct Hh as (Hname & [Ht Htl] & Hsp & Hf).
    destruct (kind_eqb hk hk'); cbn [fst snd]; [|split; [split; assumption|constructor]].
    rewrite uppers_length.
    destruct (Nat.ltb_spec (search_idx hk' (uppers hk' sp) ub) (S (length sp))) as [L|L]; cbn [fst snd];
      [|split; [split; assumption|constructor]].
    pose proof (bucket_at_ok cfg hk' sp _ Hcfg Hsp L) as [Hbi Hbr].
    destruct (bucket_at cfg hk' sp _) as [[u id] rg]. cbn [bk_id bk_range fst snd] in *.
    split; [split; assumption|]. constructor; [|constructor].
    refine (conj _ (conj (Hf _) (conj Hbi (conj Hbr _)))).
    + apply reported_ok; auto; try (exact Ht); try (unfold v_ok; cbn; exact Ho).
    + intros _. cbn. exact Htl.
  - cbn [fst snd]. split; [split; assumption|].
    apply Forall_app; split; [|constructor; [exact I|constructor]].
    apply Forall_map. eapply Forall_impl; [|exact Ho]. intros [m z] [Hm Hz]. cbn [fst snd] in *.
    destruct Hm as (H1 & H2 & H3 & H4).
    refine (conj _ (conj Hz (conj _ (conj _ _)))).
    + exact (conj H1 (conj H2 (conj Hn H4))).
    + unfold str_ok; cbn; lia.
    + unfold str_ok; cbn; lia.
    + intro Hx; contradiction.
  - cbn [fst snd]. split; [|constructor]. split; cbn [pcache phandles pnow]; auto.
Qed.

Lemma st_ok0 t0 : int64 t0 -> st_ok (pstate0 t0).
Proof. intro Hh. split; cbn; auto. Qed.

Lemma enq_from_ok md cfg ops : cfg_ok cfg -> forall i s, st_ok s -> Forall op_ok ops ->
  Forall (fun x => item_ok (snd x)) (enq_from md cfg i s ops).
Proof.
  intro Hcfg. induction ops as [|o r IH]; intros i s Hs Ho; cbn [enq_from]; [constructor|].
  inversion Ho as [|? ? H1 H2]; subst.
  destruct (pstep_ok md cfg s o Hcfg Hs H1) as [Hs' Hi].
  destruct (pstep md cfg s o) as [s' its]. cbn [fst snd] in *.
  apply Forall_app; split; [|apply IH; assumption].
  apply Forall_map. eapply Forall_impl; [|exact Hi]. intros a Ha. exact Ha.
Qed.

Theorem enq_ok md cfg t0 ops : cfg_ok cfg -> int64 t0 -> Forall op_ok ops ->
  Forall item_ok (enq md cfg t0 ops).
Proof.
  intros Hcfg Ht Ho. unfold enq, enq_ix. apply Forall_map.
  apply enq_from_ok; auto using st_ok0.
Qed.

Lemma sent_ok cfg m bid br : cfg_ok cfg -> metric_ok m -> str_ok bid -> str_ok br ->
  (br <> [] -> match mtags m with Some t => Z.of_nat (length t) < HALF | None => True end) ->
  metric_ok (sent cfg m bid br).
Proof.
  intros (_ & Hbi & Hbk & _ & _) (H1 & H2 & H3 & H4) Hid Hbr Hroom. unfold sent.
  destruct br as [|b0 br']; [exact (conj H1 (conj H2 (conj H3 H4)))|].
  specialize (Hroom ltac:(discriminate)).
  unfold metric_ok. cbn [mname mval mts mtags]. refine (conj H1 (conj H2 (conj H3 _))). cbn [opt_tags_ok]. split.
  - apply Forall_app; split.
    + destruct (mtags m) as [t|]; [apply H4|constructor].
    + constructor; [split; assumption|]. constructor; [split; assumption|constructor].
  - rewrite app_length. cbn [length]. destruct (mtags m) as [t|]; unfold HALF in *; cbn [length]; lia.
Qed.

Lemma item_sent_ok cfg it x : cfg_ok cfg -> item_ok it -> In x (item_sent cfg it) -> metric_ok (snd x).
Proof.
  intros Hcfg Hi Hx. destruct it as [o m sz bid br|]; cbn in Hx; [|contradiction].
  destruct Hx as [<-|[]]. cbn [snd]. destruct Hi as (Hm & _ & Hb & Hr & Hroom). apply sent_ok; assumption.
Qed.

(* ---- batch lengths: sizes are at least 1, so a batch holds at most
   max(1, freeBytes) metrics ---- *)
Definition item_size_ok (it : qitem) : Prop := match it with QMet _ _ sz _ _ => 1 <= sz | QMark => True end.

Record cinv (free : Z) (c : cons) : Prop := {
  ci_len : Z.of_nat (length (cmets c)) <= cbytes c;
  ci_fit : cbytes c <= free \/ (length (cmets c) <= 1)%nat;
  ci_out : Forall (fun b : obatch => Z.of_nat (length b) <= Z.max 1 free) (cout c)
}.

Lemma emit1_cinv free c : cinv free c -> cinv free (emit1 c).
Proof.
  intros [H1 H2 H3]. unfold emit1. destruct (cmets c) as [|x l] eqn:E; split; cbn [cmets cbytes cout length]; try lia; auto.
  apply Forall_app; split; [assumption|]. constructor; [|constructor].
  rewrite rev_length. try rewrite E in *. destruct H2 as [H2|H2]; [lia|]. cbn [length] in *. lia.
Qed.

Lemma cstep_cinv cfg c it : item_size_ok it -> cinv (cfree cfg) c -> cinv (cfree cfg) (cstep cfg c it).
Proof.
  intros Hs Hc. destruct it as [o m sz bid br|]; cbn [cstep].
  - cbn in Hs. destruct (Z.gtb_spec (cbytes c + sz) (cfree cfg)) as [G|G].
    + pose proof (emit1_cinv _ _ Hc) as [H1 H2 H3]. rewrite emit1_mets in *.
      assert (Eb : cbytes (emit1 c) = 0) by (unfold emit1; destruct (cmets c); reflexivity).
      split; cbn [cmets cbytes cout length]; [rewrite Eb; lia|right; lia|assumption].
    + destruct Hc as [H1 H2 H3]. split; cbn [cmets cbytes cout length]; [lia|left; lia|assumption].
  - destruct (_ || _); [apply emit1_cinv|]; assumption.
Qed.

Lemma process_lengths cfg items : Forall item_size_ok items ->
  Forall (fun b : obatch => Z.of_nat (length b) <= Z.max 1 (cfree cfg)) (process cfg items).
Proof.
  intro Hs. unfold process, process_from, cfinal.
  assert (G : forall c, cinv (cfree cfg) c -> cinv (cfree cfg) (fold_left (cstep cfg) items c)).
  { induction items as [|it r IH]; intros c Hc; cbn [fold_left]; [assumption|].
    inversion Hs; subst. apply IH; [assumption|]. apply cstep_cinv; assumption. }
  apply emit1_cinv, G. split; cbn; [lia|right; lia|constructor].
Qed.

Lemma item_ok_size it : item_ok it -> item_size_ok it.
Proof. destruct it; cbn; tauto. Qed.

(* every batch the consumer emits is a well-typed MetricBatch *)
Theorem process_batches_ok cfg items : cfg_ok cfg -> Forall item_ok items ->
  Forall (fun b => batch_ok (to_batch cfg b)) (process cfg items).
Proof.
  intros Hcfg Hi.
  pose proof (process_lengths cfg items (Forall_impl _ item_ok_size Hi)) as Hl.
  pose proof (process_concat cfg items) as Hc.
  rewrite Forall_forall in *. intros b Hb. specialize (Hl b Hb).
  unfold batch_ok, to_batch. cbn [bmetrics bcommon]. split; [|split].
  - apply Forall_forall. intros m Hm. apply in_map_iff in Hm as (x & <- & Hx).
    assert (Hin : In x (flat_map (item_sent cfg) items)).
    { rewrite <- Hc. apply in_concat. exists b. split; assumption. }
    apply in_flat_map in Hin as (it & Hit & Hx'). eapply item_sent_ok; eauto.
  - rewrite map_length. destruct Hcfg as (_ & _ & _ & _ & Hf). lia.
  - apply Hcfg.
Qed.

(* ---- the datagrams ---- *)
Theorem datagrams_decode P : P = compact \/ P = binary -> forall (p : PS P) cfg bs,
  Forall (fun b => batch_ok (to_batch cfg b)) bs -> forall j,
  Forall2 (fun d b => exists seq, int32 seq /\
             decode_emit P d = Some ((M_ONEWAY, seq, to_batch cfg b), []))
          (datagrams_from P p cfg j bs) bs.
Proof.
  intros HP p cfg bs Hb. induction Hb as [|b r Hb Hr IH]; intro j; cbn [datagrams_from]; constructor; [|apply IH].
  exists (wrap32 j). split; [apply wrap32_range|].
  destruct HP as [-> | ->].
  - pose proof (roundtrip_compact_thm p (wrap32 j) (to_batch cfg b) [] (wrap32_range j) Hb) as Hh.
    rewrite app_nil_r in Hh. exact Hh.
  - pose proof (roundtrip_binary_thm p (wrap32 j) (to_batch cfg b) [] (wrap32_range j) Hb) as Hh.
    rewrite app_nil_r in Hh. exact Hh.
Qed.

(* C13_wellformed *)
Theorem wellformed P : P = compact \/ P = binary -> forall (p : PS P) md cfg t0 ops,
  cfg_ok cfg -> int64 t0 -> Forall op_ok ops ->
  let bs := emitted md cfg t0 ops in
  Forall2 (fun d b => exists seq, int32 seq /\
             decode_emit P d = Some ((M_ONEWAY, seq, to_batch cfg b), []))
          (datagrams P p cfg bs) bs.
Proof.
  intros HP p md cfg t0 ops Hcfg Ht Ho bs. unfold datagrams. apply datagrams_decode; [exact HP|].
  apply process_batches_ok; [exact Hcfg|]. apply enq_ok; assumption.
Qed.
