From Coq Require Import ZArith List Bool Lia.
From Tally Require Import Base.ObsCore Model.Udp.
Import ListNotations.
Open Scope Z_scope.

(* ------------------------------------------------------------------ *)
(* basics *)

Lemma zlen_app {A} (a b : list A) : zlen (a ++ b) = zlen a + zlen b.
Proof. unfold zlen. rewrite app_length. lia. Qed.
Lemma zlen_nil {A} : zlen (@nil A) = 0.
Proof. reflexivity. Qed.
Lemma zlen_nonneg {A} (a : list A) : 0 <= zlen a.
Proof. unfold zlen. lia. Qed.

Lemma st_app L a : forall t b, st L t (a ++ b) = st L (st L t a) b.
Proof. induction a as [|o a IH]; intros t b; cbn [st app]; [reflexivity | apply IH]. Qed.
Lemma rs_app L a : forall t b, rs L t (a ++ b) = rs L t a ++ rs L (st L t a) b.
Proof. induction a as [|o a IH]; intros t b; cbn [rs st app]; [reflexivity | now rewrite IH]. Qed.
Lemma ds_app L a : forall t b, ds L t (a ++ b) = ds L t a ++ ds L (st L t a) b.
Proof. induction a as [|o a IH]; intros t b; cbn [ds st app]; [reflexivity | now rewrite IH, app_assoc]. Qed.

(* ------------------------------------------------------------------ *)
(* messages: the calls between two Flushes *)

(* the bytes a call contributes to the message *)
Definition payload (o : op) : bytes :=
  match o with Write b => b | WriteString b => b | WriteByte x => [x] | _ => [] end.
Definition payloads (m : list op) : bytes := flat_map payload m.

(* calls that may occur inside a message: writes and the two queries *)
Definition is_msg (o : op) : Prop :=
  match o with Flush _ | Close _ | Read => False | _ => True end.

(* what each call of a message returns when everything fits / after a refusal *)
Definition ok_res (o : op) : res :=
  match o with IsOpen => IsOpenIs true | RemainingBytes => Remaining max_u64 | _ => Ok end.
Definition pois_res (o : op) : res :=
  match o with IsOpen => IsOpenIs true | RemainingBytes => Remaining max_u64 | _ => ErrPoisoned end.

Lemma wr_fit L b bs : zlen b + zlen bs <= L ->
  wr L (Tr b false false) bs = (Tr (b ++ bs) false false, Ok, None).
Proof. intro Hle. unfold wr; cbn [closed poisoned buf]. now rewrite (proj2 (Z.ltb_ge _ _) Hle). Qed.
Lemma wr_over L b bs : L < zlen b + zlen bs ->
  wr L (Tr b false false) bs = (Tr [] false true, ErrTooBig, None).
Proof. intro Hlt. unfold wr; cbn [closed poisoned buf]. now rewrite (proj2 (Z.ltb_lt _ _) Hlt). Qed.
Lemma wr_pois L b bs : wr L (Tr b false true) bs = (Tr [] false true, ErrPoisoned, None).
Proof. reflexivity. Qed.

(* a message that fits is buffered completely; nothing is sent before the Flush *)
Lemma msg_fit L m : forall b, Forall is_msg m -> zlen b + zlen (payloads m) <= L ->
  st L (Tr b false false) m = Tr (b ++ payloads m) false false /\
  ds L (Tr b false false) m = [] /\
  rs L (Tr b false false) m = map ok_res m.
Proof.
  induction m as [|o r IH]; intros b Hm Hle.
  - cbn. now rewrite app_nil_r.
  - inversion Hm as [|? ? Ho Hr]; subst.
    unfold payloads in Hle; cbn [flat_map] in Hle; fold (payloads r) in Hle. rewrite zlen_app in Hle.
    pose proof (zlen_nonneg (payloads r)) as Hnn.
    assert (forall bs, payload o = bs -> step L (Tr b false false) o = wr L (Tr b false false) bs ->
            st L (Tr b false false) (o :: r) = Tr (b ++ payloads (o :: r)) false false /\
            ds L (Tr b false false) (o :: r) = [] /\
            rs L (Tr b false false) (o :: r) = Ok :: map ok_res r) as Hw.
    { intros bs Hp Hs. rewrite Hp in Hle.
      cbn [st ds rs]. unfold st1, res1, out1. rewrite Hs, wr_fit by lia. cbn [fst snd opt app].
      destruct (IH (b ++ bs) Hr) as (A & B & C); [rewrite zlen_app; lia|].
      rewrite A, B, C. unfold payloads; cbn [flat_map]. rewrite Hp, <- app_assoc. auto. }
    destruct o; cbn in Ho; try contradiction.
    + apply (Hw bs); reflexivity.
    + apply (Hw [b0]); reflexivity.
    + apply (Hw s); reflexivity.
    + cbn [st ds rs]. unfold st1, res1, out1; cbn [step fst snd opt app closed negb].
      destruct (IH b Hr) as (A & B & C); [cbn [payload] in Hle; rewrite zlen_nil in Hle; lia|].
      rewrite A, B, C. cbn [map ok_res]. unfold payloads; cbn [flat_map payload app]. auto.
    + cbn [st ds rs]. unfold st1, res1, out1; cbn [step fst snd opt app].
      destruct (IH b Hr) as (A & B & C); [cbn [payload] in Hle; rewrite zlen_nil in Hle; lia|].
      rewrite A, B, C. cbn [map ok_res]. unfold payloads; cbn [flat_map payload app]. auto.
Qed.

(* once a write has been refused, nothing is buffered or sent until the Flush *)
Lemma msg_poisoned L m : Forall is_msg m ->
  st L (Tr [] false true) m = Tr [] false true /\
  ds L (Tr [] false true) m = [] /\
  rs L (Tr [] false true) m = map pois_res m.
Proof.
  induction m as [|o r IH]; intro Hm; [cbn; auto|].
  inversion Hm as [|? ? Ho Hr]; subst. destruct (IH Hr) as (A & B & C).
  destruct o; cbn in Ho; try contradiction;
    cbn [st ds rs]; unfold st1, res1, out1; cbn [step fst snd opt app closed negb];
    rewrite ?wr_pois; cbn [fst snd opt app]; rewrite A, B, C; auto.
Qed.

(* a message that does not fit: one write is refused (ErrTooBig), the buffer is
   dropped, nothing is sent *)
Lemma msg_over L m : forall b, Forall is_msg m -> zlen b <= L -> L < zlen b + zlen (payloads m) ->
  st L (Tr b false false) m = Tr [] false true /\
  ds L (Tr b false false) m = [] /\
  In ErrTooBig (rs L (Tr b false false) m).
Proof.
  induction m as [|o r IH]; intros b Hm Hb Hlt.
  - cbn in Hlt. lia.
  - inversion Hm as [|? ? Ho Hr]; subst.
    unfold payloads in Hlt; cbn [flat_map] in Hlt; fold (payloads r) in Hlt. rewrite zlen_app in Hlt.
    assert (forall bs, payload o = bs -> step L (Tr b false false) o = wr L (Tr b false false) bs ->
            st L (Tr b false false) (o :: r) = Tr [] false true /\
            ds L (Tr b false false) (o :: r) = [] /\
            In ErrTooBig (rs L (Tr b false false) (o :: r))) as Hw.
    { intros bs Hp Hs. rewrite Hp in Hlt. cbn [st ds rs]. unfold st1, res1, out1. rewrite Hs.
      destruct (Z.ltb_spec L (zlen b + zlen bs)) as [Hov|Hfit].
      - rewrite wr_over by assumption. cbn [fst snd opt app].
        destruct (msg_poisoned L r Hr) as (A & B & _). rewrite A, B. cbn; auto.
      - rewrite wr_fit by assumption. cbn [fst snd opt app].
        destruct (IH (b ++ bs) Hr) as (A & B & C); [rewrite zlen_app; lia | rewrite zlen_app; lia |].
        rewrite A, B. cbn [In]; auto. }
    destruct o; cbn in Ho; try contradiction.
    + apply (Hw bs); reflexivity.
    + apply (Hw [b0]); reflexivity.
    + apply (Hw s); reflexivity.
    + cbn [st ds rs]. unfold st1, res1, out1; cbn [step fst snd opt app closed negb].
      destruct (IH b Hr Hb) as (A & B & C); [cbn [payload] in Hlt; rewrite zlen_nil in Hlt; lia|].
      rewrite A, B. cbn [In]; auto.
    + cbn [st ds rs]. unfold st1, res1, out1; cbn [step fst snd opt app].
      destruct (IH b Hr Hb) as (A & B & C); [cbn [payload] in Hlt; rewrite zlen_nil in Hlt; lia|].
      rewrite A, B. cbn [In]; auto.
Qed.

(* ------------------------------------------------------------------ *)
(* Flush *)

Lemma flush_empties L t ok : closed t = false -> st1 L t (Flush ok) = fresh.
Proof. intro Hc. unfold st1; cbn [step]. rewrite Hc. now destruct (poisoned t). Qed.

(* a complete message starting from an empty buffer: all or nothing *)
Lemma message_atomic L m ok : 0 <= L -> Forall is_msg m ->
  st L fresh (m ++ [Flush ok]) = fresh /\
  if zlen (payloads m) <=? L
  then ds L fresh (m ++ [Flush ok]) = (if ok then [payloads m] else []) /\
       rs L fresh (m ++ [Flush ok]) = map ok_res m ++ [if ok then Ok else ErrSend]
  else ds L fresh (m ++ [Flush ok]) = [] /\
       In ErrTooBig (rs L fresh m) /\
       rs L fresh (m ++ [Flush ok]) = rs L fresh m ++ [ErrPoisoned].
Proof.
  intros HL Hm. rewrite st_app, ds_app, rs_app. unfold fresh.
  destruct (Z.leb_spec (zlen (payloads m)) L) as [Hfit|Hov].
  - destruct (msg_fit L m [] Hm) as (A & B & C); [rewrite zlen_nil; lia|]. rewrite A, B, C. cbn [app].
    cbn [st ds rs]. unfold st1, res1, out1; cbn [step closed poisoned buf fst snd].
    split; [reflexivity|]. destruct ok; cbn; auto.
  - destruct (msg_over L m [] Hm) as (A & B & C); [rewrite zlen_nil; lia | rewrite zlen_nil; lia |].
    rewrite A, B. cbn [st ds rs app]. unfold st1, res1, out1; cbn [step closed poisoned fst snd opt app].
    auto.
Qed.

(* ------------------------------------------------------------------ *)
(* the ghost "writes accepted since the last Flush" (None: the message had a
   refused write), defined on the history alone *)

Definition add (L : Z) (acc : option bytes) (b : bytes) : option bytes :=
  match acc with
  | Some a => if L <? zlen a + zlen b then None else Some (a ++ b)
  | None => None
  end.

Fixpoint spec (L : Z) (acc : option bytes) (cl : bool) (ops : list op) : list bytes :=
  match ops with
  | [] => []
  | o :: r =>
      if cl then spec L acc cl r else
      match o with
      | Write b => spec L (add L acc b) cl r
      | WriteString b => spec L (add L acc b) cl r
      | WriteByte x => spec L (add L acc [x]) cl r
      | Flush ok =>
          match acc with
          | Some a => if ok then a :: spec L (Some []) cl r else spec L (Some []) cl r
          | None => spec L (Some []) cl r
          end
      | Close _ => spec L acc true r
      | _ => spec L acc cl r
      end
  end.

Definition rel (t : tr) (acc : option bytes) : Prop :=
  closed t = false ->
  match acc with Some a => t = Tr a false false | None => t = Tr [] false true end.

Lemma closed_step L t o : closed t = true -> st1 L t o = t /\ out1 L t o = None.
Proof.
  intro Hc. unfold st1, out1. destruct o; cbn [step]; unfold wr; rewrite ?Hc; auto.
Qed.

Lemma wr_rel L t acc b : closed t = false -> rel t acc ->
  rel (fst (fst (wr L t b))) (add L acc b) /\ snd (wr L t b) = None /\
  closed (fst (fst (wr L t b))) = false.
Proof.
  intros Hc Hr. specialize (Hr Hc). destruct acc as [a|]; subst t; unfold wr, add, rel; cbn [closed poisoned buf].
  - destruct (L <? zlen a + zlen b); cbn; auto.
  - cbn; auto.
Qed.

Lemma spec_ok L ops : forall t acc, rel t acc -> ds L t ops = spec L acc (closed t) ops.
Proof.
  induction ops as [|o r IH]; intros t acc Hr; [reflexivity|].
  cbn [ds spec]. destruct (closed t) eqn:Hc.
  - destruct (closed_step L t o Hc) as [A B]. rewrite A, B. cbn [opt app].
    rewrite (IH t acc Hr), Hc. reflexivity.
  - assert (forall b, step L t o = wr L t b ->
            opt (out1 L t o) ++ ds L (st1 L t o) r = spec L (add L acc b) false r) as Hw.
    { intros b Hs. unfold out1, st1. rewrite Hs.
      destruct (wr_rel L t acc b Hc Hr) as (A & B & C). rewrite B. cbn [opt app].
      rewrite (IH _ _ A), C. reflexivity. }
    destruct o as [bs|x|s|sok|cok| | |].
    + apply Hw; reflexivity.
    + apply Hw; reflexivity.
    + apply Hw; reflexivity.
    + pose proof (Hr Hc) as Ht. unfold out1, st1; cbn [step]. rewrite Hc.
      assert (rel (Tr [] false false) (Some [])) as Hf by (intro; reflexivity).
      destruct acc as [a|]; subst t; cbn [poisoned buf fst snd].
      * destruct sok; cbn [opt app]; rewrite (IH _ _ Hf); reflexivity.
      * cbn [opt app]. rewrite (IH _ _ Hf); reflexivity.
    + unfold out1, st1; cbn [step]. rewrite Hc. cbn [fst snd opt app].
      assert (rel (Tr (buf t) true (poisoned t)) acc) as Hx by (intro Hh; discriminate Hh).
      rewrite (IH _ _ Hx). reflexivity.
    + unfold out1, st1; cbn [step fst snd opt app]. rewrite (IH _ _ Hr), Hc. reflexivity.
    + unfold out1, st1; cbn [step fst snd opt app]. rewrite (IH _ _ Hr), Hc. reflexivity.
    + unfold out1, st1; cbn [step]. rewrite Hc. cbn [fst snd opt app]. rewrite (IH _ _ Hr), Hc. reflexivity.
Qed.

Lemma flush_exact L ops : ds L fresh ops = spec L (Some []) false ops.
Proof. apply (spec_ok L ops fresh (Some [])). intro; reflexivity. Qed.

(* every buffer ever held, and so every datagram, is at most L bytes long *)
Lemma spec_bounded L ops : forall acc cl,
  match acc with Some a => zlen a <= L | None => True end -> 0 <= L ->
  Forall (fun d => zlen d <= L) (spec L acc cl ops).
Proof.
  induction ops as [|o r IH]; intros acc cl Ha HL; cbn [spec]; [constructor|].
  assert (forall b, match add L acc b with Some a => zlen a <= L | None => True end) as Hadd.
  { intro b. destruct acc as [a|]; cbn [add]; [|exact I].
    destruct (Z.ltb_spec L (zlen a + zlen b)); [exact I | rewrite zlen_app; lia]. }
  destruct cl; [apply IH; assumption|].
  destruct o as [bs|x|s|sok|cok| | |].
  - apply IH; [apply Hadd | assumption].
  - apply IH; [apply Hadd | assumption].
  - apply IH; [apply Hadd | assumption].
  - destruct acc as [a|].
    + destruct sok; [constructor; [assumption|]|]; apply IH; try assumption; rewrite zlen_nil; assumption.
    + apply IH; try assumption; rewrite zlen_nil; assumption.
  - apply IH; assumption.
  - apply IH; assumption.
  - apply IH; assumption.
  - apply IH; assumption.
Qed.

(* ------------------------------------------------------------------ *)
(* after any history: the next message *)

Lemma next_message L h t0 ok0 m ok : 0 <= L ->
  closed (st L t0 h) = false -> Forall is_msg m ->
  let pre := h ++ [Flush ok0] in
  st L t0 (pre ++ m ++ [Flush ok]) = fresh /\
  if zlen (payloads m) <=? L
  then ds L t0 (pre ++ m ++ [Flush ok]) = ds L t0 pre ++ (if ok then [payloads m] else []) /\
       rs L t0 (pre ++ m ++ [Flush ok]) = rs L t0 pre ++ map ok_res m ++ [if ok then Ok else ErrSend]
  else ds L t0 (pre ++ m ++ [Flush ok]) = ds L t0 pre /\
       rs L t0 (pre ++ m ++ [Flush ok]) = rs L t0 pre ++ rs L fresh m ++ [ErrPoisoned] /\
       In ErrTooBig (rs L fresh m).
Proof.
  intros HL Hc Hm pre.
  assert (st L t0 pre = fresh) as Hpre.
  { unfold pre. rewrite st_app. cbn [st]. apply flush_empties, Hc. }
  rewrite st_app, ds_app, rs_app, Hpre.
  destruct (message_atomic L m ok HL Hm) as [A B]. split; [exact A|].
  destruct (zlen (payloads m) <=? L).
  - destruct B as [B1 B2]. rewrite B1, B2. auto.
  - destruct B as (B1 & B2 & B3). rewrite B1, B3, app_nil_r. auto.
Qed.

(* ------------------------------------------------------------------ *)
(* Close *)

Definition closed_res (o : op) : res :=
  match o with
  | Close _ => Ok
  | IsOpen => IsOpenIs false
  | RemainingBytes => Remaining max_u64
  | _ => ErrNotOpen
  end.

Lemma closed_absorbing L ops : forall t, closed t = true ->
  st L t ops = t /\ ds L t ops = [] /\ rs L t ops = map closed_res ops.
Proof.
  induction ops as [|o r IH]; intros t Hc; [cbn; auto|].
  destruct (closed_step L t o Hc) as [A B]. cbn [st ds rs map]. rewrite A, B.
  destruct (IH t Hc) as (X & Y & Z). rewrite X, Y, Z. cbn [opt app].
  repeat split. f_equal. unfold res1. destruct o; cbn [step closed_res]; unfold wr; rewrite ?Hc; reflexivity.
Qed.

Lemma close_closes L t c : closed (st1 L t (Close c)) = true.
Proof. unfold st1; cbn [step]. destruct (closed t) eqn:Hc; [exact Hc | reflexivity]. Qed.

Lemma close_idempotent L h t0 c ops :
  let pre := h ++ [Close c] in
  closed (st L t0 pre) = true /\
  st L t0 (pre ++ ops) = st L t0 pre /\
  ds L t0 (pre ++ ops) = ds L t0 h /\
  rs L t0 (pre ++ ops) = rs L t0 pre ++ map closed_res ops.
Proof.
  intro pre.
  assert (closed (st L t0 pre) = true) as Hc.
  { unfold pre. rewrite st_app. cbn [st]. apply close_closes. }
  destruct (closed_absorbing L ops _ Hc) as (A & B & C).
  rewrite st_app, ds_app, rs_app, A, B, C, app_nil_r. repeat split; auto.
  unfold pre. rewrite ds_app. cbn [ds]. unfold out1; cbn [step].
  destruct (closed (st L t0 h)); cbn; now rewrite app_nil_r.
Qed.

(* ------------------------------------------------------------------ *)
(* the multi transport *)

Definition closes_ok (ms : list mop) : Prop :=
  Forall (fun m => match m with MClose coks => forallb (fun x => x) coks = true | _ => True end) ms.

Lemma forallb_hd_tl l : forallb (fun x : bool => x) l = true ->
  hd true l = true /\ forallb (fun x : bool => x) (tl l) = true.
Proof. destruct l as [|x l]; cbn; [auto|]. intro Hh. apply andb_true_iff in Hh. exact Hh. Qed.

Lemma closes_ok_tl ms : closes_ok ms -> closes_ok (map tl_op ms).
Proof.
  unfold closes_ok. induction 1 as [|m r Hm Hr IH]; cbn [map]; constructor; [|exact IH].
  destruct m; cbn [tl_op]; auto. apply (forallb_hd_tl _ Hm).
Qed.

(* one call: destination 0 sees hd_op, the others see the call with the tails of the oracles *)
Lemma mstep_cons L t ts m :
  match m with MClose coks => forallb (fun x => x) coks = true | _ => True end ->
  mts (mstep L (t :: ts) m) = st1 L t (hd_op m) :: mts (mstep L ts (tl_op m)) /\
  mouts (mstep L (t :: ts) m) = out1 L t (hd_op m) :: mouts (mstep L ts (tl_op m)).
Proof.
  intro Hm. unfold st1, out1. destruct m; cbn [mstep mall hd_op tl_op map mts mouts fst snd]; auto.
  - (* Close *)
    destruct (forallb_hd_tl _ Hm) as [Hh _]. rewrite Hh.
    cbn [mclose]. rewrite Hh. cbn [step].
    destruct (closed t) eqn:Hc.
    + destruct (mclose L ts (tl coks)) as [r' y]. cbn [mts mouts map fst snd]. auto.
    + destruct (mclose L ts (tl coks)) as [r' y]. cbn [mts mouts map fst snd]. auto.
  - cbn [step]. destruct (closed t); auto.
Qed.

Lemma mst_cons L ms : forall t ts, closes_ok ms ->
  mst L (t :: ts) ms = st L t (map hd_op ms) :: mst L ts (map tl_op ms) /\
  map (fun row => nth 0 row None) (mos L (t :: ts) ms) = map (fun o => o) (
    (fix outs t ops := match ops with [] => [] | o :: r => out1 L t o :: outs (st1 L t o) r end) t (map hd_op ms)) /\
  map (@tl _) (mos L (t :: ts) ms) = mos L ts (map tl_op ms).
Proof.
  induction ms as [|m r IH]; intros t ts Hok; [cbn; auto|].
  inversion Hok as [|? ? Hm Hr]; subst.
  destruct (mstep_cons L t ts m Hm) as [A B].
  cbn [mst mos map st]. rewrite A, B.
  destruct (IH (st1 L t (hd_op m)) (mts (mstep L ts (tl_op m))) Hr) as (X & Y & Z).
  rewrite X, Y, Z. cbn [nth tl]. auto.
Qed.

Lemma dest_ds_0 L ops : forall t,
  flat_map (fun o : option bytes => opt o)
    ((fix outs t ops := match ops with [] => [] | o :: r => out1 L t o :: outs (st1 L t o) r end) t ops) =
  ds L t ops.
Proof. induction ops as [|o r IH]; intro t; cbn [flat_map ds]; [reflexivity | now rewrite IH]. Qed.

Lemma dest_ds_map_nth i (outs : list (list (option bytes))) :
  dest_ds i outs = flat_map (fun o : option bytes => opt o) (map (fun row => nth i row None) outs).
Proof. unfold dest_ds. induction outs as [|row r IH]; cbn; [reflexivity | now rewrite IH]. Qed.

Lemma dest_ds_S i (outs : list (list (option bytes))) :
  dest_ds (S i) outs = dest_ds i (map (@tl _) outs).
Proof.
  unfold dest_ds. induction outs as [|row r IH]; cbn [flat_map map]; [reflexivity|].
  rewrite IH. f_equal. destruct row; [destruct i|]; reflexivity.
Qed.

(* the call as destination i sees it *)
Fixpoint sop (i : nat) (m : mop) : op :=
  match i with O => hd_op m | S j => sop j (tl_op m) end.

Lemma map_sop_tl i ms : map (sop i) (map tl_op ms) = map (sop (S i)) ms.
Proof. rewrite map_map. reflexivity. Qed.

(* destinations are independent: as long as no Close fails half way, destination i
   goes through exactly the single-transport history "what i saw", whatever
   happens (failed sends included) on the other destinations *)
Lemma multi_independent L i : forall ts ms, closes_ok ms -> (i < length ts)%nat ->
  nth i (mst L ts ms) fresh = st L (nth i ts fresh) (map (sop i) ms) /\
  dest_ds i (mos L ts ms) = ds L (nth i ts fresh) (map (sop i) ms).
Proof.
  induction i as [|i IH]; intros ts ms Hok Hi; (destruct ts as [|t ts]; [cbn in Hi; lia|]);
    destruct (mst_cons L ms t ts Hok) as (A & B & C).
  - rewrite A. cbn [nth sop]. split; [reflexivity|].
    rewrite dest_ds_map_nth, B, map_id. apply dest_ds_0.
  - rewrite A. cbn [nth]. rewrite dest_ds_S, C.
    destruct (IH ts (map tl_op ms) (closes_ok_tl _ Hok)) as [X Y]; [cbn in Hi; lia|].
    rewrite X, Y, map_sop_tl. auto.
Qed.

Lemma mst_length L ms : forall ts, closes_ok ms -> length (mst L ts ms) = length ts.
Proof.
  intros ts; revert ms. induction ts as [|t ts IH]; intros ms Hok.
  - induction ms as [|m r IHm]; [reflexivity|]. inversion Hok; subst. cbn [mst].
    replace (mts (mstep L [] m)) with (@nil tr); [apply IHm; assumption|].
    destruct m; reflexivity.
  - destruct (mst_cons L ms t ts Hok) as (A & _ & _). rewrite A. cbn [length].
    rewrite (IH _ (closes_ok_tl _ Hok)). reflexivity.
Qed.

(* no destination fails: every oracle is true *)
Definition all_true (ms : list mop) : Prop :=
  Forall (fun m => match m with
                   | MFlush oks => forallb (fun x => x) oks = true
                   | MClose coks => forallb (fun x => x) coks = true
                   | _ => True end) ms.

Definition plain (m : mop) : op :=
  match m with
  | MWrite bs => Write bs
  | MFlush _ => Flush true
  | MClose _ => Close true
  | MIsOpen => IsOpen
  | MRemaining => RemainingBytes
  | MRead => Read
  end.

Lemma sop_plain i : forall m,
  match m with
  | MFlush oks => forallb (fun x => x) oks = true
  | MClose coks => forallb (fun x => x) coks = true
  | _ => True end -> sop i m = plain m.
Proof.
  induction i as [|i IH]; intros m Hm; cbn [sop].
  - destruct m; cbn [hd_op plain]; auto; now rewrite (proj1 (forallb_hd_tl _ Hm)).
  - destruct m; cbn [tl_op]; try (apply IH; exact Hm).
    + rewrite IH; [reflexivity | apply (forallb_hd_tl _ Hm)].
    + rewrite IH; [reflexivity | apply (forallb_hd_tl _ Hm)].
Qed.

Lemma all_true_closes_ok ms : all_true ms -> closes_ok ms.
Proof. unfold all_true, closes_ok. apply Forall_impl. intros m; destruct m; auto. Qed.

Lemma multi_fanout L n ms i : all_true ms -> (i < n)%nat ->
  length (mst L (repeat fresh n) ms) = n /\
  nth i (mst L (repeat fresh n) ms) fresh = st L fresh (map plain ms) /\
  dest_ds i (mos L (repeat fresh n) ms) = ds L fresh (map plain ms).
Proof.
  intros Hall Hi. pose proof (all_true_closes_ok _ Hall) as Hok.
  split; [rewrite mst_length, repeat_length by assumption; reflexivity|].
  destruct (multi_independent L i (repeat fresh n) ms Hok) as [A B]; [now rewrite repeat_length|].
  assert (nth i (repeat fresh n) fresh = fresh) as Hn by (apply nth_repeat).
  assert (map (sop i) ms = map plain ms) as Hmap.
  { apply map_ext_in. intros m Hin. apply sop_plain.
    unfold all_true in Hall. rewrite Forall_forall in Hall. apply (Hall m Hin). }
  rewrite A, B, Hn, Hmap. auto.
Qed.

(* with no failing destination, no call on the multi transport reports an error
   that the single transport would not report *)
Lemma first_err_repeat r n : first_err (repeat r (S n)) = r.
Proof. induction n as [|n IH]; cbn [repeat first_err] in *; destruct r; auto. Qed.

(* ------------------------------------------------------------------ *)
(* the generated client and the reporter *)

Lemma send_chunks_fit L chunks : forall b, zlen b + zlen (concat chunks) <= L ->
  send_chunks (step L) (Tr b false false) chunks = (Tr (b ++ concat chunks) false false, true).
Proof.
  induction chunks as [|c r IH]; intros b Hle; cbn [send_chunks concat] in *.
  - now rewrite app_nil_r.
  - rewrite zlen_app in Hle. pose proof (zlen_nonneg (concat r)). cbn [step]. rewrite wr_fit by lia.
    rewrite IH by (rewrite zlen_app; lia). now rewrite app_assoc.
Qed.

Lemma send_chunks_over L chunks : forall b, zlen b <= L -> L < zlen b + zlen (concat chunks) ->
  send_chunks (step L) (Tr b false false) chunks = (Tr [] false true, false).
Proof.
  induction chunks as [|c r IH]; intros b Hb Hlt; cbn [send_chunks concat] in *.
  - cbn in Hlt. lia.
  - rewrite zlen_app in Hlt. cbn [step].
    destruct (Z.ltb_spec L (zlen b + zlen c)) as [Hov|Hfit].
    + now rewrite wr_over.
    + rewrite wr_fit by assumption. apply IH; rewrite zlen_app; lia.
Qed.

(* what one batch puts on the wire when the transport starts clean *)
Definition batch_wire (L : Z) (b : batch) : list bytes :=
  let '(chunks, ok, ok2) := b in
  if zlen (concat chunks) <=? L
  then (if ok then [concat chunks] else if ok2 then [[]] else [])
  else [].
Definition batch_ok (L : Z) (b : batch) : bool :=
  let '(chunks, ok, _) := b in (zlen (concat chunks) <=? L) && ok.

Lemma emit_clean L b : 0 <= L -> emit L fresh b = (fresh, batch_ok L b, batch_wire L b).
Proof.
  intro HL. destruct b as [[chunks ok] ok2]. unfold emit, emit_with, batch_ok, batch_wire, fresh.
  destruct (Z.leb_spec (zlen (concat chunks)) L) as [Hfit|Hov].
  - rewrite send_chunks_fit by (cbn; lia). cbn [app step closed poisoned buf].
    destruct ok; cbn [andb opt app]; [reflexivity|]. destruct ok2; reflexivity.
  - rewrite send_chunks_over by (cbn; lia). cbn [step closed poisoned andb opt]. reflexivity.
Qed.

Lemma reporter_recovers L bs : 0 <= L ->
  emits (emit L) fresh bs = (fresh, map (batch_ok L) bs, flat_map (batch_wire L) bs).
Proof.
  intro HL. induction bs as [|b r IH]; cbn [emits map flat_map]; [reflexivity|].
  rewrite emit_clean, IH by assumption. reflexivity.
Qed.

(* the pinned reporter on the pinned transport: once the buffer is full every
   later batch is refused at its first byte; nothing is ever sent again *)
Lemma pinned_stuck L bs : forall b, zlen b = L ->
  Forall (fun x : batch => match fst (fst x) with c :: _ => c <> [] | [] => False end) bs ->
  emits (pemit L) (Tr b false false) bs = (Tr b false false, map (fun _ => false) bs, []).
Proof.
  intros b Hb. induction 1 as [|x r Hx Hr IH]; cbn [emits map]; [reflexivity|].
  destruct x as [[chunks ok] ok2]. cbn [fst] in Hx. destruct chunks as [|c cs]; [contradiction|].
  unfold pemit at 1, emit_with. cbn [send_chunks pstep]. unfold pwr; cbn [closed buf].
  assert (L <? zlen b + zlen c = true) as ->.
  { apply Z.ltb_lt. destruct c; [congruence|]. unfold zlen in *. cbn [length]. lia. }
  rewrite IH. reflexivity.
Qed.

(* ------------------------------------------------------------------ *)
(* lockstep: with no failing destination the n transports of a multi transport
   stay equal, and the multi transport returns what a single one returns *)

Definition true_m (m : mop) : Prop :=
  match m with
  | MFlush oks => forallb (fun x => x) oks = true
  | MClose coks => forallb (fun x => x) coks = true
  | _ => True end.

(* how the multi transport's own answers differ from a single transport's *)
Definition mview (m : mop) (r : res) : res :=
  match m with MRemaining => Remaining 0 | MRead => ErrUnsupported | _ => r end.

Lemma true_m_tl m : true_m m -> true_m (tl_op m) /\ hd_op m = plain m.
Proof.
  destruct m; cbn [true_m tl_op hd_op plain]; auto; intro Hm;
    destruct (forallb_hd_tl _ Hm) as [A B]; rewrite A; auto.
Qed.

Lemma plain_tl m : plain (tl_op m) = plain m.
Proof. destruct m; reflexivity. Qed.

Lemma mall_repeat L t k : forall m, true_m m ->
  mall L (repeat t k) m = repeat (step L t (plain m)) k.
Proof.
  induction k as [|k IH]; intros m Hm; cbn [repeat mall]; [reflexivity|].
  destruct (true_m_tl m Hm) as [A B]. rewrite B, (IH _ A), plain_tl. reflexivity.
Qed.

Lemma mclose_repeat L t k : forall coks, forallb (fun x => x) coks = true ->
  mclose L (repeat t k) coks = (repeat (st1 L t (Close true)) k, Ok).
Proof.
  induction k as [|k IH]; intros coks Hc; cbn [repeat mclose]; [reflexivity|].
  destruct (forallb_hd_tl _ Hc) as [A B]. rewrite A, (IH _ B).
  unfold st1; cbn [step]. destruct (closed t); reflexivity.
Qed.

Lemma map_repeat' {A B} (f : A -> B) x n : map f (repeat x n) = repeat (f x) n.
Proof. induction n; cbn; congruence. Qed.

Lemma forallb_repeat_S {A} (f : A -> bool) x n : forallb f (repeat x (S n)) = f x.
Proof. induction n as [|n IH]; cbn [repeat forallb] in *; [apply andb_true_r | rewrite IH; apply andb_diag]. Qed.

Lemma mstep_repeat L t n m : true_m m ->
  mts (mstep L (repeat t (S n)) m) = repeat (st1 L t (plain m)) (S n) /\
  mouts (mstep L (repeat t (S n)) m) = repeat (out1 L t (plain m)) (S n) /\
  mres (mstep L (repeat t (S n)) m) = mview m (res1 L t (plain m)).
Proof.
  intro Hm. unfold st1, out1, res1.
  destruct m; cbn [mstep plain mview mts mouts mres].
  - rewrite (mall_repeat L t (S n) (MWrite bs) Hm), !map_repeat', first_err_repeat. auto.
  - rewrite (mall_repeat L t (S n) (MFlush oks) Hm), !map_repeat', first_err_repeat. auto.
  - rewrite (mclose_repeat L t (S n) coks Hm). cbn [mts mouts mres]. rewrite map_repeat'.
    unfold st1; cbn [step]. destruct (closed t); auto.
  - rewrite forallb_repeat_S, map_repeat'. cbn [step fst snd]. auto.
  - rewrite map_repeat'. cbn [step fst snd]. auto.
  - rewrite map_repeat'. cbn [step]. destruct (closed t); auto.
Qed.

Fixpoint zip_view (ms : list mop) (l : list res) : list res :=
  match ms, l with m :: ms', r :: l' => mview m r :: zip_view ms' l' | _, _ => [] end.

Lemma multi_lockstep L n ms : all_true ms -> forall t,
  mst L (repeat t (S n)) ms = repeat (st L t (map plain ms)) (S n) /\
  mrs L (repeat t (S n)) ms = zip_view ms (rs L t (map plain ms)).
Proof.
  induction 1 as [|m r Hm Hr IH]; intro t; [cbn; auto|].
  destruct (mstep_repeat L t n m Hm) as (A & _ & C).
  cbn [mst mrs map st rs zip_view]. rewrite A, C.
  destruct (IH (st1 L t (plain m))) as [X Y]. rewrite X, Y. auto.
Qed.

(* ------------------------------------------------------------------ *)
(* the statements used by Props/C15.v *)

Lemma flush_always_empties L h t0 ok :
  closed (st L t0 h) = false -> st L t0 (h ++ [Flush ok]) = fresh.
Proof. intro Hc. rewrite st_app. cbn [st]. apply flush_empties, Hc. Qed.

Lemma oversize_step L t bs : closed t = false -> poisoned t = false ->
  L < zlen (buf t) + zlen bs ->
  step L t (Write bs) = (Tr [] false true, ErrTooBig, None) /\
  step L t (WriteString bs) = (Tr [] false true, ErrTooBig, None) /\
  forall o ok, is_msg o ->
    out1 L (Tr [] false true) o = None /\ st1 L (Tr [] false true) o = Tr [] false true /\
    step L (Tr [] false true) (Flush ok) = (fresh, ErrPoisoned, None).
Proof.
  intros Hc Hp Hlt. cbn [step]. unfold wr. rewrite Hc, Hp, (proj2 (Z.ltb_lt _ _) Hlt).
  repeat split; destruct o; cbn in *; try contradiction; reflexivity.
Qed.

Lemma next_message_clean L h t0 ok0 m ok : 0 <= L ->
  closed (st L t0 h) = false -> Forall is_msg m -> zlen (payloads m) <= L ->
  let pre := h ++ [Flush ok0] in
  st L t0 (pre ++ m ++ [Flush ok]) = fresh /\
  ds L t0 (pre ++ m ++ [Flush ok]) = ds L t0 pre ++ (if ok then [payloads m] else []) /\
  rs L t0 (pre ++ m ++ [Flush ok]) = rs L t0 pre ++ map ok_res m ++ [if ok then Ok else ErrSend].
Proof.
  intros HL Hc Hm Hfit pre. destruct (next_message L h t0 ok0 m ok HL Hc Hm) as [A B].
  fold pre in A, B. rewrite (proj2 (Z.leb_le _ _) Hfit) in B. tauto.
Qed.

Lemma oversize_nothing_sent L h t0 ok0 m ok : 0 <= L ->
  closed (st L t0 h) = false -> Forall is_msg m -> L < zlen (payloads m) ->
  let pre := h ++ [Flush ok0] in
  st L t0 (pre ++ m ++ [Flush ok]) = fresh /\
  ds L t0 (pre ++ m ++ [Flush ok]) = ds L t0 pre /\
  rs L t0 (pre ++ m ++ [Flush ok]) = rs L t0 pre ++ rs L fresh m ++ [ErrPoisoned] /\
  In ErrTooBig (rs L fresh m).
Proof.
  intros HL Hc Hm Hov pre. destruct (next_message L h t0 ok0 m ok HL Hc Hm) as [A B].
  fold pre in A, B. rewrite (proj2 (Z.leb_gt _ _) Hov) in B. tauto.
Qed.

Lemma emits_app e : forall a t b,
  emits e t (a ++ b) =
  let '(t1, o1, d1) := emits e t a in
  let '(t2, o2, d2) := emits e t1 b in (t2, o1 ++ o2, d1 ++ d2).
Proof.
  induction a as [|x a IH]; intros t b; cbn [emits app].
  - destruct (emits e t b) as [[t2 o2] d2]. reflexivity.
  - destruct (e t x) as [[t1 okb] d]. rewrite IH.
    destruct (emits e t1 a) as [[t2 o2] d2]. destruct (emits e t2 b) as [[t3 o3] d3].
    now rewrite app_assoc.
Qed.

(* whatever the earlier batches were (oversized, failed sends), a later batch
   that fits and whose send succeeds is on the wire as exactly one datagram *)
Lemma reporter_later_batch L pre chunks ok2 post : 0 <= L -> zlen (concat chunks) <= L ->
  snd (emits (emit L) fresh (pre ++ (chunks, true, ok2) :: post)) =
  flat_map (batch_wire L) pre ++ [concat chunks] ++ flat_map (batch_wire L) post.
Proof.
  intros HL Hfit. rewrite reporter_recovers by assumption. cbn [snd].
  rewrite flat_map_app. cbn [flat_map batch_wire]. rewrite (proj2 (Z.leb_le _ _) Hfit). reflexivity.
Qed.

Lemma datagrams_fit L ops : 0 <= L -> Forall (fun d => zlen d <= L) (ds L fresh ops).
Proof.
  intro HL. rewrite flush_exact. apply spec_bounded; [rewrite zlen_nil; exact HL | exact HL].
Qed.
