(* Boolean checkers for the hypotheses of the C17 value theorems, with their
   soundness.  They make the Examples of Props/C17.v computations and let the
   correspondence check assert, inside Coq, that the histories the harness
   generates satisfy the hypotheses. *)
From Coq Require Import ZArith List Bool Lia Arith.
From Tally Require Import Base.ObsCore Base.Search Model.Buckets Model.Prom
  Proof.PromP Proof.PromObjP Proof.PromSysP Proof.PromThmP.
Import ListNotations.
Open Scope Z_scope.

Lemma all_lt n (p : nat -> bool) :
  forallb p (seq 0 n) = true -> forall i, (i < n)%nat -> p i = true.
Proof.
  intros H i L. rewrite forallb_forall in H. apply H. apply in_seq. lia.
Qed.

Lemma all_lt2 n (p : nat -> nat -> bool) :
  forallb (fun a => forallb (p a) (seq 0 n)) (seq 0 n) = true ->
  forall a b, (a < n)%nat -> (b < n)%nat -> p a b = true.
Proof.
  intros H a b La Lb. pose proof (all_lt n _ H a La) as Ha. cbn beta in Ha.
  apply (all_lt n _ Ha b Lb).
Qed.

Lemma le_k_trans k x y z : le_k k x y = true -> le_k k y z = true -> le_k k x z = true.
Proof.
  unfold le_k. destruct k; cbn [ge_of].
  - intros H1 H2. eapply fge_trans; eauto.
  - intros H1 H2. apply Z.geb_le in H1, H2. apply Z.geb_le. lia.
Qed.

Definition hist_okb (k : kind) (us secs : list Z) : bool :=
  let n := length us in
  (0 <? n)%nat && (length secs =? n)%nat &&
  forallb (fun a => forallb (fun b =>
     (negb (a <=? b)%nat || (le_k k (nth a us 0) (nth b us 0) && fge (nth b secs 0) (nth a secs 0))) &&
     (le_k k (nth b us 0) (nth a us 0) || negb (fge (nth a secs 0) (nth b secs 0)))) (seq 0 n)) (seq 0 n).

Theorem hist_okb_sound k us secs : hist_okb k us secs = true -> hist_ok k us secs.
Proof.
  unfold hist_okb. cbv zeta. intro H. apply andb_true_iff in H as [H H3].
  apply andb_true_iff in H as [H1 H2]. apply Nat.ltb_lt in H1. apply Nat.eqb_eq in H2.
  pose proof (all_lt2 _ _ H3) as A. cbn beta in A. constructor.
  - intro Q. rewrite Q in H1. cbn in H1. lia.
  - exact H2.
  - intros a b Hab Hb. specialize (A a b ltac:(lia) Hb). apply andb_true_iff in A as [A _].
    replace (a <=? b)%nat with true in A by (symmetry; apply Nat.leb_le; exact Hab).
    cbn in A. now apply andb_true_iff in A as [A _].
  - apply le_k_trans.
  - intros a b Hab Hb. specialize (A a b ltac:(lia) Hb). apply andb_true_iff in A as [A _].
    replace (a <=? b)%nat with true in A by (symmetry; apply Nat.leb_le; exact Hab).
    cbn in A. now apply andb_true_iff in A as [_ A].
  - intros a b La Lb Q. specialize (A a b La Lb). apply andb_true_iff in A as [_ A].
    rewrite Q in A. cbn in A. now apply negb_true_iff in A.
Qed.

Definition bounds_okb (bs : list Z) : bool :=
  let n := length bs in
  forallb (fun a => forallb (fun b => negb (a <=? b)%nat || fge (nth b bs 0) (nth a bs 0)) (seq 0 n)) (seq 0 n).

Theorem bounds_okb_sound bs : bounds_okb bs = true -> bounds_ok bs.
Proof.
  unfold bounds_okb. cbv zeta. intro H. pose proof (all_lt2 _ _ H) as A. cbn beta in A. split.
  - intros i L. specialize (A i i L L). rewrite Nat.leb_refl in A. cbn in A.
    apply (fge_def_l _ _ A).
  - intros a b Hab Hb. specialize (A a b ltac:(lia) Hb).
    replace (a <=? b)%nat with true in A by (symmetry; apply Nat.leb_le; exact Hab). exact A.
Qed.

Definition sample_okb (k : kind) (us : list Z) (v : Z) : bool :=
  le_k k v (nth (length us - 1) us 0) &&
  forallb (fun j => le_k k v (nth j us 0) || le_k k (nth j us 0) v) (seq 0 (length us)).

Theorem sample_okb_sound k us v : sample_okb k us v = true -> sample_ok k us v.
Proof.
  unfold sample_okb. intro H. apply andb_true_iff in H as [H1 H2]. split; [exact H1|].
  intros j J Q. pose proof (all_lt _ _ H2 j J) as A. cbn beta in A. rewrite Q in A. exact A.
Qed.

Definition vspec_okb (spec : list Z) : bool :=
  let n := length spec in
  (0 <? n)%nat &&
  forallb (fun a => forallb (fun b => negb (a <? b)%nat || flt (nth a spec 0) (nth b spec 0)) (seq 0 n)) (seq 0 n) &&
  forallb (fun i => fge MAXF (nth i spec 0)) (seq 0 n).

Theorem vspec_okb_sound spec : vspec_okb spec = true -> vspec_ok spec.
Proof.
  unfold vspec_okb. cbv zeta. intro H. apply andb_true_iff in H as [H H3].
  apply andb_true_iff in H as [H1 H2]. apply Nat.ltb_lt in H1. split; [|split].
  - intro Q. rewrite Q in H1. cbn in H1. lia.
  - intros a b Hab Hb. pose proof (all_lt2 _ _ H2 a b ltac:(lia) Hb) as A. cbn beta in A.
    replace (a <? b)%nat with true in A by (symmetry; apply Nat.ltb_lt; exact Hab). exact A.
  - intros i L. apply (all_lt _ _ H3 i L).
Qed.

(* ---------------- consistent ---------------- *)
Definition tuse_eqb (a b : tuse) : bool :=
  match a, b with
  | TUCounter, TUCounter | TUGauge, TUGauge | TUTimer, TUTimer => true
  | TUHist k s c, TUHist k' s' c' => kind_eqb k k' && zs_eqb s s' && zs_eqb c c'
  | _, _ => false
  end.

Lemma tuse_eqb_true a b : tuse_eqb a b = true -> a = b.
Proof.
  destruct a as [| | |k s c], b as [| | |k' s' c']; cbn; try discriminate; try reflexivity.
  intro H. apply andb_true_iff in H as [H H3]. apply andb_true_iff in H as [H1 H2].
  apply zs_eqb_spec in H2, H3. subst. destruct k, k'; try discriminate; reflexivity.
Qed.

Fixpoint nodupb (l : list mid) : bool :=
  match l with [] => true | x :: r => negb (existsb (mid_eqb x) r) && nodupb r end.

Lemma nodupb_sound l : nodupb l = true -> NoDup l.
Proof.
  induction l as [|x l IH]; cbn; intro H; [constructor|].
  apply andb_true_iff in H as [H1 H2]. constructor; [|auto].
  intro Q. apply negb_true_iff in H1.
  assert (existsb (mid_eqb x) l = true) by (apply existsb_exists; exists x; split; [exact Q | apply mid_eqb_refl]).
  congruence.
Qed.

Definition consistentb (ds : list decl) : bool :=
  forallb (fun a => forallb (fun b =>
     negb (zs_eqb (dname a) (dname b)) ||
     (tuse_eqb (duse a) (duse b) && zss_eqb (dkeys a) (dkeys b))) ds) ds &&
  nodupb (map (fun d => (dname d, dvals d)) ds).

Theorem consistentb_sound ds : consistentb ds = true -> consistent ds.
Proof.
  unfold consistentb. intro H. apply andb_true_iff in H as [H1 H2]. split.
  - intros a b Ha Hb Q. rewrite forallb_forall in H1. specialize (H1 a Ha).
    rewrite forallb_forall in H1. specialize (H1 b Hb).
    rewrite Q, (proj2 (zs_eqb_spec _ _) eq_refl) in H1. cbn in H1.
    apply andb_true_iff in H1 as [U K]. split; [now apply tuse_eqb_true | now apply zss_eqb_spec].
  - now apply nodupb_sound.
Qed.
