(* Proofs about the M3 reporter's size accounting and batching loop
   (Model/M3Batch.v) on top of the C16 results about the encoders. *)
From Coq Require Import ZArith List Bool Lia.
From Tally Require Import Base.ObsCore Model.Varint Model.Thrift Model.M3Batch
  Proof.VarintP Proof.ThriftP Proof.ThriftCompactP Proof.ThriftBinaryP Proof.ThriftC16P.
Import ListNotations.
Open Scope Z_scope.

(* ------------------------------------------------------------------ *)
(* the batching loop: nothing dropped, nothing duplicated, order kept *)

Definition metrics_of (q : list qitem) : list metric :=
  flat_map (fun it => match it with QMet m _ => [m] | QFlush => [] end) q.

Lemma emit_concat mets : concat (emit mets) = List.rev mets.
Proof. destruct mets as [|m mets]; [reflexivity|]. unfold emit. cbn [concat]. rewrite app_nil_r, <- rev_alt. reflexivity. Qed.

Lemma emit_nonempty mets b : In b (emit mets) -> b <> [].
Proof.
  destruct mets as [|m mets]; cbn [emit In]; [tauto|]. intros [<-|[]]. rewrite <- rev_alt. cbn [List.rev].
  intro E. apply (f_equal (@length metric)) in E. rewrite app_length in E. cbn in E. lia.
Qed.

Theorem process_concat free q : forall mets bytes,
  concat (process free mets bytes q) = List.rev mets ++ metrics_of q.
Proof.
  induction q as [|it q IH]; intros mets bytes; cbn [process metrics_of flat_map].
  - rewrite emit_concat, app_nil_r. reflexivity.
  - rewrite concat_app.
    destruct ((match it with QMet _ _ => false | QFlush => true end && nonempty mets)
              || (wrap32 (bytes + match it with QMet _ s => s | QFlush => 0 end) >? free)) eqn:Efl.
    + rewrite emit_concat. destruct it as [m s|]; rewrite IH; cbn [List.rev app]; rewrite ?app_nil_r; reflexivity.
    + cbn [concat app]. destruct it as [m s|]; rewrite IH; cbn [List.rev app].
      * rewrite <- app_assoc. reflexivity.
      * reflexivity.
Qed.

Theorem process_no_empty free q : forall mets bytes b,
  In b (process free mets bytes q) -> b <> [].
Proof.
  induction q as [|it q IH]; intros mets bytes b Hb; cbn [process] in Hb.
  - eapply emit_nonempty; eassumption.
  - apply in_app_or in Hb as [Hb|Hb].
    + destruct (_ || _) in Hb; [eapply emit_nonempty; eassumption | destruct Hb].
    + destruct it as [m s|]; eapply IH; eassumption.
Qed.

(* the open batch is the beginning of the next emitted batch *)
Lemma process_head free q : forall mets bytes, mets <> [] ->
  exists b rest, process free mets bytes q = (List.rev mets ++ b) :: rest.
Proof.
  induction q as [|it q IH]; intros mets bytes Hne; cbn [process].
  - destruct mets as [|m mets]; [congruence|]. exists [], []. unfold emit. rewrite <- rev_alt, app_nil_r. reflexivity.
  - destruct (_ || _).
    + destruct mets as [|m0 mets]; [congruence|]. unfold emit. rewrite <- rev_alt.
      eexists [], _. rewrite app_nil_r. cbn [app]. reflexivity.
    + cbn [app]. destruct it as [m s|].
      * destruct (IH (m :: mets) (wrap32 (bytes + s))) as (b & rest & E); [discriminate|].
        rewrite E. cbn [List.rev]. rewrite <- app_assoc. eexists _, _. reflexivity.
      * apply IH. exact Hne.
Qed.

(* the metric that does not fit closes the open batch and is the first one of the next batch *)
Theorem overflow_opens_next free mets bytes m sz q :
  mets <> [] -> wrap32 (bytes + sz) > free ->
  exists b rest, process free mets bytes (QMet m sz :: q) = List.rev mets :: (m :: b) :: rest.
Proof.
  intros Hne Hov. cbn [process]. cbn [andb orb].
  replace (wrap32 (bytes + sz) >? free) with true by (symmetry; apply Z.gtb_lt; lia).
  destruct mets as [|m0 mets]; [congruence|]. unfold emit. rewrite <- rev_alt. cbn [app].
  destruct (process_head free q [m] (wrap32 (0 + sz))) as (b & rest & E); [discriminate|].
  rewrite E. cbn [List.rev app]. eexists _, _. reflexivity.
Qed.

(* a flush marker closes the open batch: what was queued before it is never sent together with
   what is queued after it *)
Theorem flush_closes free mets bytes q : mets <> [] ->
  process free mets bytes (QFlush :: q) = List.rev mets :: process free [] 0 q.
Proof.
  intro Hne. cbn [process]. destruct mets as [|m0 mets]; [congruence|]. cbn [nonempty andb orb].
  unfold emit. rewrite <- rev_alt. reflexivity.
Qed.

Lemma metrics_of_queue idn bn chg ops :
  metrics_of (queue_of idn bn chg ops) = reported_metrics idn bn ops.
Proof.
  induction ops as [|o ops IH]; [reflexivity|]. destruct o as [a v ts|]; cbn [queue_of map metrics_of flat_map reported_metrics app] in *.
  - f_equal. exact IH.
  - exact IH.
Qed.

(* ------------------------------------------------------------------ *)
(* the batching loop: every batch stays within the byte budget, when the budget covers each
   single metric; [len] is any measure of a metric that its charged size bounds *)
Section Bound.
Variable len : metric -> Z.
Hypothesis len_nonneg : forall m, 0 <= len m.
Definition total (l : list metric) : Z := fold_right (fun m a => len m + a) 0 l.

Lemma total_app a b : total (a ++ b) = total a + total b.
Proof. unfold total. induction a as [|x a IH]; cbn [app fold_right]; lia. Qed.
Lemma total_rev l : total (List.rev l) = total l.
Proof. induction l as [|x l IH]; [reflexivity|]. cbn [List.rev]. rewrite total_app, IH. unfold total; cbn [fold_right]. lia. Qed.
Lemma total_nonneg l : 0 <= total l.
Proof. unfold total. induction l as [|x l IH]; cbn [fold_right]; [lia|]. pose proof (len_nonneg x). lia. Qed.

Definition item_ok (free : Z) (it : qitem) : Prop :=
  match it with QFlush => True | QMet m s => len m <= s <= free end.

Theorem process_bound free q : 2 * free < 2147483648 -> forall mets bytes,
  total mets <= bytes <= free ->
  Forall (item_ok free) q ->
  forall b, In b (process free mets bytes q) -> total b <= free.
Proof.
  intro Hfree. induction q as [|it q IH]; intros mets bytes T S b Hb; cbn [process] in Hb;
    pose proof (total_nonneg mets) as T0.
  - destruct mets as [|m mets]; cbn [emit In] in Hb; [tauto|]. destruct Hb as [<-|[]].
    rewrite <- rev_alt, total_rev. lia.
  - inversion S as [|x l Hit S']; subst x l.
    apply in_app_or in Hb as [Hb|Hb].
    + destruct (_ || _) in Hb; [|destruct Hb].
      destruct mets as [|m mets]; cbn [emit In] in Hb; [tauto|]. destruct Hb as [<-|[]].
      rewrite <- rev_alt, total_rev. lia.
    + destruct it as [m s|]; cbn [item_ok] in Hit.
      * pose proof (len_nonneg m) as Lm.
        assert (Hw : wrap32 (bytes + s) = bytes + s) by (apply wrap32_id; unfold int32; lia).
        rewrite Hw in Hb. cbn [andb orb] in Hb.
        destruct (Z.gtb_spec (bytes + s) free) as [G|G].
        -- (* flushed first: the metric opens a fresh batch *)
           rewrite wrap32_id in Hb by (unfold int32; lia).
           eapply (IH [m] (0 + s)); try eassumption; cbn [total fold_right]; lia.
        -- rewrite Hw in Hb.
           eapply (IH (m :: mets) (bytes + s)); try eassumption; cbn [total fold_right]. unfold total in T. lia.
      * rewrite Z.add_0_r, wrap32_id in Hb by (unfold int32; lia).
        replace (bytes >? free) with false in Hb by (destruct (Z.gtb_spec bytes free); [lia|reflexivity]).
        rewrite orb_false_r in Hb.
        destruct (nonempty mets) eqn:En; cbn [andb] in Hb.
        -- eapply (IH [] 0); try eassumption; cbn; lia.
        -- eapply IH; eassumption.
Qed.
End Bound.

(* ------------------------------------------------------------------ *)
(* the envelope: what a datagram needs beyond the serialized empty batch (with the common tags)
   and the serialized metrics *)
Lemma concat_map_len P ms : Z.of_nat (length (concat (map (e_metric P) ms))) = sum_len P ms.
Proof.
  induction ms as [|m ms IH]; [reflexivity|]. cbn [map concat sum_len fold_right].
  rewrite app_length, Nat2Z.inj_add, IH. reflexivity.
Qed.

Lemma sum_len_nonneg P ms : 0 <= sum_len P ms.
Proof. unfold sum_len. induction ms as [|m ms IH]; cbn [fold_right]; lia. Qed.

Lemma method_name_len : length method_name = 17%nat. Proof. reflexivity. Qed.

(* Binary: exactly 33 bytes, whatever the sequence id and the number of metrics *)
Lemma envelope_binary seq ms common :
  Z.of_nat (length (e_emit binary seq (Batch ms common))) =
  33 + Z.of_nat (length (e_batch binary (Batch [] common))) + sum_len binary ms.
Proof.
  unfold e_emit, e_args, e_batch. cbn [bmetrics bcommon map concat].
  cbn [binary e_mb e_fb e_lb e_stop b_mb_chunks b_fb_chunks b_lb_chunks concat].
  rewrite !app_length, !Nat2Z.inj_add, concat_map_len.
  unfold b_i32, b_i16. rewrite !be32_len, !be16_len, method_name_len. cbn [length]. lia.
Qed.

(* Compact: 23 bytes, plus what the sequence id needs beyond one byte (0..4), plus what the
   header of the metric list needs beyond one byte (0 up to 14 metrics, 1..5 from 15 on) *)
Definition compact_lb_extra (n : Z) : Z := if n <=? 14 then 0 else Z.of_nat (length (varint32 n)).
Lemma envelope_compact seq ms common :
  Z.of_nat (length (e_emit compact seq (Batch ms common))) =
  23 + (Z.of_nat (length (varint32 seq)) - 1) + compact_lb_extra (Z.of_nat (length ms)) +
  Z.of_nat (length (e_batch compact (Batch [] common))) + sum_len compact ms.
Proof.
  unfold e_emit, e_args, e_batch. cbn [bmetrics bcommon map concat length].
  cbn [compact e_mb e_fb e_lb e_stop c_mb_chunks c_fb_chunks c_lb_chunks concat].
  change (c_short 0 1) with true. cbn iota.
  unfold compact_lb_extra, c_lb_chunks. change (Z.of_nat 0 <=? 14) with true. cbn iota.
  destruct (Z.of_nat (length ms) <=? 14); cbn [concat];
    rewrite !app_length, !Nat2Z.inj_add, concat_map_len; unfold c_strlen;
    rewrite method_name_len; change (length (varint32 (Z.of_nat 17))) with 1%nat;
    change (length (concat (c_fb_chunks 0 T_STRUCT 1))) with 1%nat;
    change (length (concat (c_fb_chunks 0 T_LIST 1))) with 1%nat; cbn [length]; lia.
Qed.

Lemma envelope_compact_bounds seq ms common :
  23 + Z.of_nat (length (e_batch compact (Batch [] common))) + sum_len compact ms
  <= Z.of_nat (length (e_emit compact seq (Batch ms common)))
  <= 32 + Z.of_nat (length (e_batch compact (Batch [] common))) + sum_len compact ms.
Proof.
  rewrite envelope_compact. pose proof (varint32_len seq) as L1.
  unfold compact_lb_extra. pose proof (varint32_len (Z.of_nat (length ms))) as L2.
  destruct (Z.of_nat (length ms) <=? 14); lia.
Qed.

Lemma proto_cases P : P = compact \/ P = binary -> proto_ok P.
Proof. intros [E|E]; subst; [apply compact_ok | apply binary_ok]. Qed.

(* both protocols stay within an allowance of 33 *)
Lemma envelope_le_thm : forall P, P = compact \/ P = binary -> forall ovh, 33 <= ovh ->
  forall pw pb seq ms common,
  Z.of_nat (length (encode_emit P pw seq (Batch ms common))) <=
  ovh + Z.of_nat (length (encode_batch P pb (Batch [] common))) + sum_len P ms.
Proof.
  intros P HP ovh Hovh pw pb seq ms common. pose proof (proto_cases P HP) as OK.
  rewrite (encode_emit_eq P OK), (encode_batch_eq P OK).
  destruct HP as [E|E]; subst P.
  - pose proof (envelope_compact_bounds seq ms common). lia.
  - rewrite envelope_binary. lia.
Qed.

(* ------------------------------------------------------------------ *)
(* the charge of a metric covers its encoding with any reported value and timestamp *)
Definition report_ok (P : proto) (idn bn : bytes) (pw : PS P) (a : alloc) (v ts : Z) : Prop :=
  (a_kind a = 1 \/ a_kind a = 2 \/ a_kind a = 3) /\
  (if a_kind a =? 2 then bits64 v else int64 v) /\ int64 ts /\
  Z.of_nat (length (encode_metric P pw (placeholder (a_kind a) (a_name a) (wire_tags idn bn a)))) < 2147483648.

Lemma charged_ge_actual_thm : forall P, P = compact \/ P = binary -> forall idn bn pc pw a v ts,
  report_ok P idn bn pw a v ts ->
  Z.of_nat (length (encode_metric P pw (wire idn bn a v ts))) <= charge P idn bn pc a.
Proof.
  intros P HP idn bn pc pw a v ts (Hk & Hv & Hts & Hlen). unfold wire, charge.
  apply max_is_upper_bound_thm; assumption.
Qed.

(* ------------------------------------------------------------------ *)
(* every datagram is within MaxPacketSizeBytes *)
Definition op_ok (P : proto) (idn bn : bytes) (pc pw : PS P) (free : Z) (o : rop) : Prop :=
  match o with
  | Flush => True
  | Report a v ts => report_ok P idn bn pw a v ts /\ charge P idn bn pc a <= free
  end.

Lemma free_bytes_exact P (OK : proto_ok P) pc ovh maxpkt common :
  0 <= ovh <= 1073741823 -> 0 < maxpkt <= 1073741824 ->
  Z.of_nat (length (e_batch P (Batch [] (Some common)))) <= 1073741824 ->
  free_bytes P pc ovh maxpkt common = maxpkt - ovh - Z.of_nat (length (e_batch P (Batch [] (Some common)))).
Proof.
  intros Ho Hm He. unfold free_bytes, num_overhead, empty_batch. rewrite (calc_batch_eq P OK).
  rewrite (wrap32_id (Z.of_nat _)) by (unfold int32; lia).
  rewrite (wrap32_id (ovh + _)) by (unfold int32; lia).
  rewrite wrap32_id by (unfold int32; lia). lia.
Qed.

Theorem datagram_bound_thm : forall P, P = compact \/ P = binary ->
  forall ovh, 33 <= ovh <= 1073741823 ->
  forall idn bn pc pw common maxpkt ops,
  0 < maxpkt <= 1073741824 ->
  Z.of_nat (length (encode_batch P pw (Batch [] (Some common)))) <= 1073741824 ->
  0 < free_bytes P pc ovh maxpkt common ->
  Forall (op_ok P idn bn pc pw (free_bytes P pc ovh maxpkt common)) ops ->
  forall mets seq, In mets (emitted P idn bn pc ovh maxpkt common ops) ->
  Z.of_nat (length (datagram P pw seq common mets)) <= maxpkt.
Proof.
  intros P HP ovh Hovh idn bn pc pw common maxpkt ops Hmax Hcommon Hfree Hops mets seq Hin.
  pose proof (proto_cases P HP) as OK.
  rewrite (encode_batch_eq P OK) in Hcommon.
  assert (Efree := free_bytes_exact P OK pc ovh maxpkt common ltac:(lia) Hmax Hcommon).
  set (free := free_bytes P pc ovh maxpkt common) in *.
  unfold datagram.
  pose proof (envelope_le_thm P HP ovh ltac:(lia) pw pw seq mets (Some common)) as Henv.
  rewrite (encode_batch_eq P OK) in Henv.
  enough (Hsum : sum_len P mets <= free) by lia.
  unfold emitted, emitted_with in Hin. fold free in Hin.
  assert (Hnn : forall m : metric, 0 <= (fun m => Z.of_nat (length (e_metric P m))) m) by (intro; cbn beta; lia).
  assert (H2 : 2 * free < 2147483648) by lia.
  apply (process_bound _ Hnn free (queue_of idn bn (charge P idn bn pc) ops) H2 [] 0); [cbn; lia | | exact Hin].
  clear Hin Henv Hnn H2. induction Hops as [|o ops Ho Hops IH]; cbn [queue_of map]; constructor; [|exact IH].
  destruct o as [a v ts|]; cbn [item_ok op_ok] in *; [|exact I].
  destruct Ho as [Hr Hc]. split; [|exact Hc].
  rewrite <- (encode_metric_eq P OK pw). apply charged_ge_actual_thm; assumption.
Qed.

(* ------------------------------------------------------------------ *)
(* nothing dropped, nothing duplicated *)
Theorem no_drop_no_dup_thm : forall idn bn chg free ops,
  concat (emitted_with idn bn chg free ops) = reported_metrics idn bn ops /\
  ~ In [] (emitted_with idn bn chg free ops).
Proof.
  intros idn bn chg free ops. unfold emitted_with. split.
  - rewrite process_concat, metrics_of_queue. reflexivity.
  - intro Hin. apply process_no_empty in Hin. congruence.
Qed.
