(* Proofs about Model/Deriv.v: the registry invariant (every scope is
   registered under the key of its own identity and every registry entry is
   such a key), monotonicity of the stores, and the derived statements of C04
   and C05. *)
From Coq Require Import ZArith List Bool Lia Permutation.
From Tally Require Import Base.ObsCore Model.KeyGen Model.Deriv Proof.ParamsOkKey Proof.KeyGenP.
Import ListNotations.
Open Scope Z_scope.

(* ------------------------------------------------------------------ *)
(* hypotheses on inputs: after sanitization keys and values are free of the
   delimiters (keys: + , = ; values: + ,) *)

Definition ok_map (c : cfg) (m : smap) : Prop :=
  Forall (fun kv => kclean (skey (csan c) (fst kv)) /\ vclean (sval (csan c) (snd kv))) m.
Definition ok_call (c : cfg) (x : call) : Prop :=
  match x with CTag _ m => ok_map c m | _ => True end.
Definition ok_hist (c : cfg) (h : list call) : Prop := Forall (ok_call c) h.
Definition ok_dop (c : cfg) (d : dop) : Prop :=
  match d with DTag m => ok_map c m | _ => True end.
Definition ok_prog (c : cfg) (p : list dop) : Prop := Forall (ok_dop c) p.

Lemma san_map_gen z m : forall acc,
  wf_map acc -> clean_map acc ->
  Forall (fun kv => kclean (skey z (fst kv)) /\ vclean (sval z (snd kv))) m ->
  wf_map (fold_left (fun acc kv => set_tag (skey z (fst kv)) (sval z (snd kv)) acc) m acc) /\
  clean_map (fold_left (fun acc kv => set_tag (skey z (fst kv)) (sval z (snd kv)) acc) m acc).
Proof.
  induction m as [|kv m IH]; intros acc Hw Hc Hm; cbn; auto.
  inversion Hm as [|? ? Hkv Hm']; subst. apply IH; auto.
  - apply set_tag_wf; auto.
  - unfold clean_map in *. apply Forall_forall. intros x Hx.
    apply set_tag_in in Hx as [->|Hx]; [exact Hkv|]. rewrite Forall_forall in Hc. auto.
Qed.

Lemma san_map_wf_gen z m : forall acc, wf_map acc ->
  wf_map (fold_left (fun acc kv => set_tag (skey z (fst kv)) (sval z (snd kv)) acc) m acc).
Proof. induction m as [|kv m IH]; intros acc Hw; cbn; auto. apply IH. apply set_tag_wf; auto. Qed.

Lemma san_map_wf z m : wf_map (san_map z m).
Proof. apply san_map_wf_gen. constructor. Qed.

Lemma san_map_clean c m : ok_map c m -> clean_map (san_map (csan c) m).
Proof. intro Hm. apply san_map_gen; auto; constructor. Qed.

Lemma overlay_clean l r : clean_map l -> clean_map r -> clean_map (overlay l r).
Proof.
  unfold clean_map. intros Hl Hr. apply Forall_forall. intros kv Hi.
  apply overlay_in in Hi as [Hi|Hi]; [rewrite Forall_forall in Hl | rewrite Forall_forall in Hr]; auto.
Qed.

Lemma san_map_nil z : san_map z [] = [].
Proof. reflexivity. Qed.

(* ------------------------------------------------------------------ *)
(* registry lookups *)

Lemma lookup_reg_app k r r' :
  lookup_reg k (r ++ r') = match lookup_reg k r with Some id => Some id | None => lookup_reg k r' end.
Proof.
  induction r as [|[k' id] r IH]; cbn; auto. destruct (beq k k'); auto.
Qed.

(* ------------------------------------------------------------------ *)
(* metric table *)

Lemma mrec_eqb_eq a b : mrec_eqb a b = true <-> a = b.
Proof.
  destruct a as [s k n], b as [s' k' n']. unfold mrec_eqb. cbn. split.
  - intro Hh. apply andb_true_iff in Hh as [Hh H3]. apply andb_true_iff in Hh as [H1 H2].
    apply Nat.eqb_eq in H1. apply Z.eqb_eq in H2. apply beq_eq in H3. congruence.
  - intro Hh. inversion Hh; subst. rewrite Nat.eqb_refl, Z.eqb_refl, beq_refl. reflexivity.
Qed.

Lemma find_metric_some x l : forall i j, find_metric x l i = Some j ->
  (i <= j)%nat /\ nth_error l (j - i) = Some x.
Proof.
  induction l as [|y l IH]; intros i j Hf; cbn in Hf; [discriminate|].
  destruct (mrec_eqb x y) eqn:E.
  - inversion Hf; subst. apply mrec_eqb_eq in E. subst. rewrite Nat.sub_diag. cbn. auto.
  - apply IH in Hf as [Hle Hn]. split; [lia|].
    replace (j - i)%nat with (S (j - S i)) by lia. cbn. auto.
Qed.

Lemma find_metric_app x l l' : forall i,
  find_metric x (l ++ l') i =
  match find_metric x l i with Some j => Some j | None => find_metric x l' (i + length l) end.
Proof.
  induction l as [|y l IH]; intro i; cbn.
  - rewrite Nat.add_0_r. reflexivity.
  - destruct (mrec_eqb x y); auto. rewrite IH. replace (S i + length l)%nat with (i + S (length l))%nat by lia.
    reflexivity.
Qed.

(* ------------------------------------------------------------------ *)
(* the invariant *)

Record inv (s : state) : Prop := {
  inv_reg : forall k id, lookup_reg k (reg s) = Some id ->
            exists sc, nth_error (scopes s) id = Some sc /\ k = key (sprefix sc) [stags sc];
  inv_scope : forall id sc, nth_error (scopes s) id = Some sc ->
              lookup_reg (key (sprefix sc) [stags sc]) (reg s) = Some id;
  inv_clean : forall id sc, nth_error (scopes s) id = Some sc -> clean_map (stags sc);
  inv_met : forall mid m, nth_error (metrics s) mid = Some m ->
            find_metric m (metrics s) 0 = Some mid /\ (mscope m < length (scopes s))%nat
}.

(* the stores only grow *)
Definition ext (s s' : state) : Prop :=
  (exists e, scopes s' = scopes s ++ e) /\ (exists e, metrics s' = metrics s ++ e).

Lemma ext_refl s : ext s s.
Proof. split; exists []; rewrite app_nil_r; reflexivity. Qed.
Lemma ext_trans a b c : ext a b -> ext b c -> ext a c.
Proof.
  intros [[e1 H1] [f1 G1]] [[e2 H2] [f2 G2]]. split.
  - exists (e1 ++ e2). rewrite H2, H1, app_assoc. reflexivity.
  - exists (f1 ++ f2). rewrite G2, G1, app_assoc. reflexivity.
Qed.
Lemma ext_scope s s' id sc : ext s s' -> nth_error (scopes s) id = Some sc -> nth_error (scopes s') id = Some sc.
Proof.
  intros [[e He] _] Hn. rewrite He. rewrite nth_error_app1; auto.
  apply nth_error_Some. congruence.
Qed.
Lemma ext_metric s s' id m : ext s s' -> nth_error (metrics s) id = Some m -> nth_error (metrics s') id = Some m.
Proof.
  intros [_ [e He]] Hn. rewrite He. rewrite nth_error_app1; auto.
  apply nth_error_Some. congruence.
Qed.

Lemma eff_two a b k : wf_map b -> eff [a; b] k = lookup k (overlay a b).
Proof.
  intro Hw. rewrite overlay_lookup; auto.
  change [a; b] with ([a] ++ [b]). rewrite eff_snoc, eff_one. reflexivity.
Qed.

Lemma key_two p a b : wf_map b -> key p [a; b] = key p [overlay a b].
Proof. intro Hw. apply key_eff_ext. intro k. rewrite eff_one. apply eff_two; auto. Qed.

Lemma clean_two a b : clean_map a -> clean_map b -> Forall clean_map [a; b].
Proof. intros; repeat constructor; auto. Qed.

Lemma init_inv c rawprefix rawtags : ok_map c rawtags -> inv (init c rawprefix rawtags).
Proof.
  intro Hm. unfold init, init_k. constructor; cbn.
  - intros k id Hl. destruct (beq k _) eqn:E; [|discriminate]. inversion Hl; subst.
    apply beq_eq in E. eexists; split; [reflexivity|]. exact E.
  - intros [|id] sc Hn; cbn in Hn.
    + inversion Hn; subst. cbn. rewrite beq_refl. reflexivity.
    + destruct id; discriminate.
  - intros [|id] sc Hn; cbn in Hn.
    + inversion Hn; subst. cbn. apply san_map_clean; auto.
    + destruct id; discriminate.
  - intros [|mid] m Hn; discriminate.
Qed.

(* what a Subscope call returns *)
Lemma subscope_ok c s parent ps prefix m s' id :
  inv s -> nth_error (scopes s) parent = Some ps -> ok_map c m ->
  subscope c s parent prefix m = (s', id) ->
  inv s' /\ ext s s' /\
  exists sc, nth_error (scopes s') id = Some sc /\ sprefix sc = prefix /\
             tags_eq (stags sc) (overlay (stags ps) (san_map (csan c) m)).
Proof.
  intros Hi Hp Hm Hs. unfold subscope, subscope_k in Hs. rewrite Hp in Hs.
  pose proof (san_map_wf (csan c) m) as Hwt.
  pose proof (san_map_clean c m Hm) as Hct.
  pose proof (inv_clean s Hi _ _ Hp) as Hcp.
  set (t := san_map (csan c) m) in *.
  destruct (lookup_reg (key prefix [stags ps; t]) (reg s)) as [id'|] eqn:El.
  - inversion Hs; subst s' id. split; [auto|]. split; [apply ext_refl|].
    destruct (inv_reg s Hi _ _ El) as [sc [Hn Hk]]. exists sc. split; auto.
    apply key_injective in Hk as [Ep Ee].
    + split; auto. intro k. specialize (Ee k). rewrite eff_one in Ee. rewrite <- Ee.
      apply eff_two; auto.
    + apply clean_two; auto.
    + constructor; [|constructor]. apply (inv_clean s Hi _ _ Hn).
  - inversion Hs; subst s' id. clear Hs.
    assert (Hk : key prefix [stags ps; t] = key prefix [overlay (stags ps) t]) by (apply key_two; auto).
    split; [|split].
    + constructor; cbn [reg scopes metrics].
      * intros k id Hl. rewrite lookup_reg_app in Hl.
        destruct (lookup_reg k (reg s)) as [id'|] eqn:E0.
        -- inversion Hl; subst id'. destruct (inv_reg s Hi _ _ E0) as [sc [Hn Hkk]].
           exists sc. split; auto. rewrite nth_error_app1; auto. apply nth_error_Some. congruence.
        -- cbn in Hl. destruct (beq k _) eqn:E1; [|discriminate]. inversion Hl; subst id.
           apply beq_eq in E1. exists (SRec prefix (overlay (stags ps) t)). split.
           ++ rewrite nth_error_app2; [|lia]. rewrite Nat.sub_diag. reflexivity.
           ++ cbn. congruence.
      * intros id sc Hn. rewrite lookup_reg_app.
        destruct (Nat.lt_ge_cases id (length (scopes s))) as [Hlt|Hge].
        -- rewrite nth_error_app1 in Hn; auto. rewrite (inv_scope s Hi _ _ Hn). reflexivity.
        -- rewrite nth_error_app2 in Hn; auto.
           destruct (id - length (scopes s))%nat as [|d] eqn:Ed; cbn in Hn; [|destruct d; discriminate].
           inversion Hn; subst sc. cbn [sprefix stags]. rewrite <- Hk, El. cbn.
           rewrite beq_refl. f_equal. lia.
      * intros id sc Hn.
        destruct (Nat.lt_ge_cases id (length (scopes s))) as [Hlt|Hge].
        -- rewrite nth_error_app1 in Hn; auto. apply (inv_clean s Hi _ _ Hn).
        -- rewrite nth_error_app2 in Hn; auto.
           destruct (id - length (scopes s))%nat as [|d] eqn:Ed; cbn in Hn; [|destruct d; discriminate].
           inversion Hn; subst sc. cbn. apply overlay_clean; auto.
      * intros mid mr Hn. destruct (inv_met s Hi _ _ Hn) as [Hf Hl]. split; auto.
        rewrite app_length. lia.
    + split; [eexists; reflexivity | exists []; rewrite app_nil_r; reflexivity].
    + exists (SRec prefix (overlay (stags ps) t)). cbn [scopes]. split; [|split].
      * rewrite nth_error_app2; [|lia]. rewrite Nat.sub_diag. reflexivity.
      * reflexivity.
      * intro k. reflexivity.
Qed.

Lemma get_metric_ok c s sc kind n s' mid :
  inv s -> (sc < length (scopes s))%nat ->
  get_metric c s sc kind n = (s', mid) ->
  inv s' /\ ext s s' /\ nth_error (metrics s') mid = Some (MRec sc kind (sname (csan c) n)).
Proof.
  intros Hi Hsc Hg. unfold get_metric in Hg.
  set (x := MRec sc kind (sname (csan c) n)) in *.
  destruct (find_metric x (metrics s) 0) as [j|] eqn:Ef.
  - inversion Hg; subst s' mid. split; auto. split; [apply ext_refl|].
    apply find_metric_some in Ef as [_ Hn]. rewrite Nat.sub_0_r in Hn. exact Hn.
  - inversion Hg; subst s' mid. clear Hg. split; [|split].
    + constructor; cbn [reg scopes metrics].
      * apply (inv_reg s Hi).
      * apply (inv_scope s Hi).
      * apply (inv_clean s Hi).
      * intros mid m Hn. rewrite find_metric_app.
        destruct (Nat.lt_ge_cases mid (length (metrics s))) as [Hlt|Hge].
        -- rewrite nth_error_app1 in Hn; auto. destruct (inv_met s Hi _ _ Hn) as [Hf Hl].
           rewrite Hf. auto.
        -- rewrite nth_error_app2 in Hn; auto.
           destruct (mid - length (metrics s))%nat as [|d] eqn:Ed; cbn in Hn; [|destruct d; discriminate].
           inversion Hn; subst m. rewrite Ef. cbn.
           rewrite (proj2 (mrec_eqb_eq x x) eq_refl). split; [f_equal; lia | exact Hsc].
    + split; [exists []; rewrite app_nil_r; reflexivity | eexists; reflexivity].
    + cbn [metrics]. rewrite nth_error_app2; [|lia]. rewrite Nat.sub_diag. reflexivity.
Qed.

Lemma nth_error_lt {A} (l : list A) i x : nth_error l i = Some x -> (i < length l)%nat.
Proof. intro Hh. apply nth_error_Some. congruence. Qed.

Lemma step_ok c s x s' r : inv s -> ok_call c x -> step c s x = (s', r) -> inv s' /\ ext s s'.
Proof.
  intros Hi Hx Hs. destruct x as [sc n|sc m|sc kind n]; unfold step, step_k, sub_k, tag_k in Hs.
  - destruct (nth_error (scopes s) sc) as [ps|] eqn:Ep.
    + eapply subscope_ok in Hs; eauto; [tauto | constructor].
    + inversion Hs; subst. split; auto. apply ext_refl.
  - destruct (nth_error (scopes s) sc) as [ps|] eqn:Ep.
    + eapply subscope_ok in Hs; eauto. tauto.
    + inversion Hs; subst. split; auto. apply ext_refl.
  - destruct (nth_error (scopes s) sc) as [ps|] eqn:Ep.
    + eapply get_metric_ok in Hs; eauto; [tauto | eapply nth_error_lt; eauto].
    + inversion Hs; subst. split; auto. apply ext_refl.
Qed.

Lemma run_ok c h : forall s, inv s -> ok_hist c h -> inv (run c s h) /\ ext s (run c s h).
Proof.
  induction h as [|x h IH]; intros s Hi Hh.
  - split; auto. apply ext_refl.
  - inversion Hh as [|? ? Hx Hh']; subst. cbn.
    destruct (step_k key c s x) as [s1 r] eqn:Es. cbn.
    destruct (step_ok c s x s1 r Hi Hx Es) as [Hi1 He1].
    destruct (IH s1 Hi1 Hh') as [Hi2 He2]. split; auto. eapply ext_trans; eauto.
Qed.

(* monotonicity needs no hypothesis at all *)
Lemma step_ext c s x : ext s (fst (step c s x)).
Proof.
  destruct x as [sc n|sc m|sc kind n]; unfold step, step_k, sub_k, tag_k, subscope_k, get_metric.
  - destruct (nth_error (scopes s) sc); [|apply ext_refl]. cbn.
    match goal with |- context [lookup_reg ?k ?r] => destruct (lookup_reg k r) end; cbn;
      [apply ext_refl|]. split; [eexists; reflexivity | exists []; rewrite app_nil_r; reflexivity].
  - destruct (nth_error (scopes s) sc); [|apply ext_refl]. cbn.
    match goal with |- context [lookup_reg ?k ?r] => destruct (lookup_reg k r) end; cbn;
      [apply ext_refl|]. split; [eexists; reflexivity | exists []; rewrite app_nil_r; reflexivity].
  - destruct (nth_error (scopes s) sc); [|apply ext_refl].
    match goal with |- context [find_metric ?x ?l ?i] => destruct (find_metric x l i) end; cbn;
      [apply ext_refl|]. split; [exists []; rewrite app_nil_r; reflexivity | eexists; reflexivity].
Qed.

Lemma run_ext c h : forall s, ext s (run c s h).
Proof.
  induction h as [|x h IH]; intro s; [apply ext_refl|].
  cbn. eapply ext_trans; [apply (step_ext c s x) | apply IH].
Qed.

(* ------------------------------------------------------------------ *)
(* derivations *)

Lemma tags_eq_refl a : tags_eq a a.
Proof. intro k; reflexivity. Qed.
Lemma tags_eq_sym a b : tags_eq a b -> tags_eq b a.
Proof. intros Hh k; symmetry; apply Hh. Qed.
Lemma tags_eq_trans a b c : tags_eq a b -> tags_eq b c -> tags_eq a c.
Proof. intros H1 H2 k. rewrite H1. apply H2. Qed.

Lemma overlay_tags_eq a a' b : wf_map b -> tags_eq a a' -> tags_eq (overlay a b) (overlay a' b).
Proof. intros Hw Ha k. rewrite !overlay_lookup; auto. rewrite Ha. reflexivity. Qed.

Lemma spec_tags_eq c prog : forall t t', tags_eq t t' -> tags_eq (spec_tags c t prog) (spec_tags c t' prog).
Proof.
  induction prog as [|[n|m] r IH]; intros t t' Ht; cbn; auto.
  apply IH. apply overlay_tags_eq; auto. apply san_map_wf.
Qed.

Lemma derive_ok c prog : forall s from fs s' id,
  inv s -> nth_error (scopes s) from = Some fs -> ok_prog c prog ->
  derive c s from prog = (s', id) ->
  inv s' /\ ext s s' /\
  exists sc, nth_error (scopes s') id = Some sc /\
             sprefix sc = spec_prefix c (sprefix fs) prog /\
             tags_eq (stags sc) (spec_tags c (stags fs) prog).
Proof.
  induction prog as [|d r IH]; intros s from fs s' id Hi Hf Hp Hd.
  - cbn in Hd. inversion Hd; subst. split; auto. split; [apply ext_refl|].
    exists fs. split; auto. split; auto. apply tags_eq_refl.
  - inversion Hp as [|? ? Hd0 Hp']; subst. unfold derive in Hd. cbn [derive_k] in Hd.
    destruct d as [n|m].
    + destruct (sub_k key c s from n) as [s1 id1] eqn:E1.
      unfold sub_k in E1. rewrite Hf in E1.
      destruct (subscope_ok c s from fs _ [] s1 id1 Hi Hf (Forall_nil _) E1) as (Hi1 & He1 & sc1 & Hn1 & Hp1 & Ht1).
      destruct (IH s1 id1 sc1 s' id Hi1 Hn1 Hp' Hd) as (Hi2 & He2 & sc & Hn & Hpp & Htt).
      split; auto. split; [eapply ext_trans; eauto|]. exists sc. split; auto. split.
      * cbn. rewrite Hpp, Hp1. reflexivity.
      * cbn. eapply tags_eq_trans; [exact Htt|]. apply spec_tags_eq.
        eapply tags_eq_trans; [exact Ht1|]. rewrite san_map_nil. intro k. reflexivity.
    + destruct (tag_k key c s from m) as [s1 id1] eqn:E1.
      unfold tag_k in E1. rewrite Hf in E1.
      destruct (subscope_ok c s from fs _ m s1 id1 Hi Hf Hd0 E1) as (Hi1 & He1 & sc1 & Hn1 & Hp1 & Ht1).
      destruct (IH s1 id1 sc1 s' id Hi1 Hn1 Hp' Hd) as (Hi2 & He2 & sc & Hn & Hpp & Htt).
      split; auto. split; [eapply ext_trans; eauto|]. exists sc. split; auto. split.
      * cbn. rewrite Hpp, Hp1. reflexivity.
      * cbn. eapply tags_eq_trans; [exact Htt|]. apply spec_tags_eq. exact Ht1.
Qed.

(* one identity, one scope *)
Lemma same_identity s id1 id2 sc1 sc2 :
  inv s -> nth_error (scopes s) id1 = Some sc1 -> nth_error (scopes s) id2 = Some sc2 ->
  sprefix sc1 = sprefix sc2 -> tags_eq (stags sc1) (stags sc2) -> id1 = id2.
Proof.
  intros Hi H1 H2 Hp Ht.
  pose proof (inv_scope s Hi _ _ H1) as L1. pose proof (inv_scope s Hi _ _ H2) as L2.
  assert (Hk : key (sprefix sc1) [stags sc1] = key (sprefix sc2) [stags sc2]).
  { rewrite Hp. apply key_eff_ext. intro k. rewrite !eff_one. apply Ht. }
  rewrite Hk in L1. congruence.
Qed.

(* reachable states *)
Definition root_rec (c : cfg) (rawprefix : bytes) (rawtags : smap) : srec :=
  SRec (sname (csan c) rawprefix) (san_map (csan c) rawtags).

Lemma init_root c rp rt : nth_error (scopes (init c rp rt)) 0 = Some (root_rec c rp rt).
Proof. reflexivity. Qed.

(* ------------------------------------------------------------------ *)
(* prefix arithmetic *)

Definition qfold (sep p : bytes) (l : list bytes) : bytes := fold_left (qual sep) l p.

Lemma spec_prefix_qfold c prog : forall p,
  spec_prefix c p prog = qfold (csep c) p (map (sname (csan c)) (sub_names prog)).
Proof.
  unfold qfold. induction prog as [|[n|m] r IH]; intro p; cbn; auto.
Qed.

Lemma qual_nonempty sep p n : p <> [] -> qual sep p n = p ++ sep ++ n.
Proof. destruct p; [congruence | reflexivity]. Qed.

Lemma sjoin_cons sep x y l : sjoin sep (x :: y :: l) = x ++ sep ++ sjoin sep (y :: l).
Proof. reflexivity. Qed.

Lemma qfold_join sep l : forall p, p <> [] -> qfold sep p l = sjoin sep (p :: l).
Proof.
  induction l as [|n l IH]; intros p Hp; cbn.
  - reflexivity.
  - unfold qfold in IH. rewrite IH.
    + rewrite qual_nonempty; auto. destruct l as [|n' l].
      * cbn. reflexivity.
      * rewrite !sjoin_cons. rewrite <- !app_assoc. reflexivity.
    + rewrite qual_nonempty; auto. destruct p; [congruence | discriminate].
Qed.

Lemma qfold_app sep p l l' : qfold sep p (l ++ l') = qfold sep (qfold sep p l) l'.
Proof. unfold qfold. apply fold_left_app. Qed.

Lemma qfold_empty_first sep x l : qfold sep [] (x :: l) = qfold sep x l.
Proof. reflexivity. Qed.

(* tags: the rightmost Tagged map holding k wins, else the starting tags *)
Lemma spec_tags_eff c prog : forall t k,
  lookup k (spec_tags c t prog) = eff (t :: map (san_map (csan c)) (tag_maps prog)) k.
Proof.
  induction prog as [|[n|m] r IH]; intros t k; cbn [spec_tags tag_maps flat_map map app].
  - rewrite eff_one. reflexivity.
  - apply IH.
  - rewrite IH. rewrite !eff_cons. fold (tag_maps r).
    destruct (eff (map (san_map (csan c)) (tag_maps r)) k); auto.
    rewrite overlay_lookup; [|apply san_map_wf]. reflexivity.
Qed.

(* a map the sanitizer leaves unchanged *)
Definition fixed_map (c : cfg) (m : smap) : Prop :=
  Forall (fun kv => skey (csan c) (fst kv) = fst kv /\ sval (csan c) (snd kv) = snd kv) m.

Lemma lookup_app_none k a b : lookup k (a ++ b) = match lookup k a with Some v => Some v | None => lookup k b end.
Proof. induction a as [|[k' v] a IH]; cbn; auto. destruct (beq k k'); auto. Qed.

Lemma san_map_fixed_gen c m : forall acc k, fixed_map c m -> wf_map m ->
  lookup k (fold_left (fun acc kv => set_tag (skey (csan c) (fst kv)) (sval (csan c) (snd kv)) acc) m acc)
  = match lookup k m with Some v => Some v | None => lookup k acc end.
Proof.
  induction m as [|[k' v'] m IH]; intros acc k Hf Hw; cbn [fold_left lookup]; auto.
  inversion Hf as [|? ? [Hk Hv] Hf']; subst. inversion Hw as [|? ? Hn Hw']; subst.
  cbn [fst snd] in *. rewrite Hk, Hv. rewrite (IH _ _ Hf' Hw'), lookup_set_tag.
  destruct (beq k k') eqn:E; auto.
  apply beq_eq in E. subst. destruct (lookup k' m) eqn:E2; auto.
  exfalso. apply Hn. apply lookup_some_in in E2. apply in_map_iff. exists (k', b). auto.
Qed.

Lemma san_map_fixed c m : fixed_map c m -> wf_map m -> tags_eq (san_map (csan c) m) m.
Proof.
  intros Hf Hw k. unfold san_map. rewrite san_map_fixed_gen; auto. destruct (lookup k m); reflexivity.
Qed.

Lemma eff_map_ext maps maps' : Forall2 tags_eq maps maps' -> forall k, eff maps k = eff maps' k.
Proof.
  intro Hh. induction Hh as [|a b ms ms' Hab Hh IH]; intro k; auto.
  rewrite !eff_cons, IH, Hab. reflexivity.
Qed.

(* sanitized keys that stay distinct: the enumeration order of the map is irrelevant *)
Lemma san_map_lookup_in z m : forall acc k v,
  NoDup (map (fun kv => skey z (fst kv)) m) -> In (k, v) m ->
  lookup (skey z k) (fold_left (fun acc kv => set_tag (skey z (fst kv)) (sval z (snd kv)) acc) m acc)
  = Some (sval z v).
Proof.
  induction m as [|[k' v'] m IH]; intros acc k v Hn Hi; [destruct Hi|].
  cbn [map fst] in Hn. inversion Hn as [|? ? Hx Hn']; subst. cbn [fold_left fst snd].
  destruct Hi as [Hi|Hi].
  - inversion Hi; subst k' v'. clear IH.
    assert (Hg : forall m acc, ~ In (skey z k) (map (fun kv => skey z (fst kv)) m) ->
               lookup (skey z k) (fold_left (fun acc kv => set_tag (skey z (fst kv)) (sval z (snd kv)) acc) m acc)
               = lookup (skey z k) acc).
    { clear. induction m as [|[a b] m IH]; intros acc Hn; cbn [fold_left fst snd]; auto.
      rewrite IH.
      - rewrite lookup_set_tag. destruct (beq (skey z k) (skey z a)) eqn:E; auto.
        apply beq_eq in E. exfalso. apply Hn. cbn. left. auto.
      - intro Hi. apply Hn. cbn. right. auto. }
    rewrite Hg; auto. rewrite lookup_set_tag, beq_refl. reflexivity.
  - apply IH; auto.
Qed.

Lemma san_map_lookup_notin z m : forall acc k,
  ~ In k (map (fun kv => skey z (fst kv)) m) ->
  lookup k (fold_left (fun acc kv => set_tag (skey z (fst kv)) (sval z (snd kv)) acc) m acc) = lookup k acc.
Proof.
  induction m as [|[a b] m IH]; intros acc k Hn; cbn [fold_left fst snd]; auto.
  rewrite IH.
  - rewrite lookup_set_tag. destruct (beq k (skey z a)) eqn:E; auto.
    apply beq_eq in E. exfalso. apply Hn. cbn. left. auto.
  - intro Hi. apply Hn. cbn. right. auto.
Qed.

Lemma san_map_perm z m m' :
  NoDup (map (fun kv => skey z (fst kv)) m) -> Permutation m m' ->
  tags_eq (san_map z m) (san_map z m').
Proof.
  intros Hn Hp k.
  assert (Hn' : NoDup (map (fun kv => skey z (fst kv)) m')).
  { eapply Permutation_NoDup; [apply Permutation_map; eauto | auto]. }
  unfold san_map.
  destruct (in_dec (list_eq_dec Z.eq_dec) k (map (fun kv => skey z (fst kv)) m)) as [Hi|Hni].
  - apply in_map_iff in Hi as [[k0 v0] [Hk Hi]]. cbn in Hk. subst k.
    rewrite (san_map_lookup_in z m [] k0 v0 Hn Hi).
    rewrite (san_map_lookup_in z m' [] k0 v0 Hn'); auto. eapply Permutation_in; eauto.
  - rewrite san_map_lookup_notin; auto. rewrite san_map_lookup_notin; auto.
    intro Hi. apply Hni. eapply Permutation_in; [apply Permutation_sym; apply Permutation_map; eauto | auto].
Qed.

(* ------------------------------------------------------------------ *)
(* composed statements *)

Lemma reach_inv c rp rt h : ok_map c rt -> ok_hist c h ->
  inv (run c (init c rp rt) h) /\ nth_error (scopes (run c (init c rp rt) h)) 0 = Some (root_rec c rp rt).
Proof.
  intros Hm Hh. destruct (run_ok c h _ (init_inv c rp rt Hm) Hh) as [Hi He]. split; auto.
  eapply ext_scope; [exact He | apply init_root].
Qed.

Lemma surj_pair' {A B} (p : A * B) : p = (fst p, snd p).
Proof. destruct p; reflexivity. Qed.

Lemma deliver_spec c rp rt h prog kind n :
  ok_map c rt -> ok_hist c h -> ok_prog c prog ->
  let s := run c (init c rp rt) h in
  let d := derive c s 0 prog in
  let g := step c (fst d) (CMet (snd d) kind n) in
  exists tags,
    delivered c (fst g) (snd g) =
      Some (qual (csep c) (spec_prefix c (sname (csan c) rp) prog) (sname (csan c) n), tags) /\
    tags_eq tags (spec_tags c (san_map (csan c) rt) prog).
Proof.
  intros Hm Hh Hp s d g.
  destruct (reach_inv c rp rt h Hm Hh) as [Hi H0]. fold s in Hi, H0.
  destruct (derive_ok c prog s 0%nat _ (fst d) (snd d) Hi H0 Hp (surj_pair' _)) as (Hi1 & He1 & sc & Hn & Hpp & Htt).
  unfold g, step, step_k. rewrite Hn.
  destruct (get_metric c (fst d) (snd d) kind n) as [s2 mid] eqn:Eg.
  destruct (get_metric_ok c _ _ kind n s2 mid Hi1 (nth_error_lt _ _ _ Hn) Eg) as (Hi2 & He2 & Hm2).
  cbn [fst snd]. exists (stags sc). split.
  - unfold delivered. rewrite Hm2. cbn [mscope mname]. rewrite (ext_scope _ _ _ _ He2 Hn).
    rewrite Hpp. reflexivity.
  - exact Htt.
Qed.

Lemma tags_stable c s h id sc :
  nth_error (scopes s) id = Some sc -> nth_error (scopes (run c s h)) id = Some sc.
Proof. intro Hn. eapply ext_scope; eauto. apply run_ext. Qed.

Lemma delivered_stable c s h mid d :
  delivered c s mid = Some d -> delivered c (run c s h) mid = Some d.
Proof.
  unfold delivered. intro Hd. pose proof (run_ext c h s) as He.
  destruct (nth_error (metrics s) mid) as [m|] eqn:Em; [|discriminate].
  rewrite (ext_metric _ _ _ _ He Em).
  destruct (nth_error (scopes s) (mscope m)) as [sc|] eqn:Es; [|discriminate].
  rewrite (ext_scope _ _ _ _ He Es). exact Hd.
Qed.

(* two derivations from the root, anywhere in a history *)
Lemma two_derivations c rp rt h1 p1 h2 p2 :
  ok_map c rt -> ok_hist c h1 -> ok_prog c p1 -> ok_hist c h2 -> ok_prog c p2 ->
  let s1 := run c (init c rp rt) h1 in
  let d1 := derive c s1 0 p1 in
  let s3 := run c (fst d1) h2 in
  let d2 := derive c s3 0 p2 in
  inv (fst d2) /\ ext (fst d1) (fst d2) /\
  exists sc1 sc2,
    nth_error (scopes (fst d1)) (snd d1) = Some sc1 /\
    nth_error (scopes (fst d2)) (snd d1) = Some sc1 /\
    nth_error (scopes (fst d2)) (snd d2) = Some sc2 /\
    sprefix sc1 = spec_prefix c (sname (csan c) rp) p1 /\
    tags_eq (stags sc1) (spec_tags c (san_map (csan c) rt) p1) /\
    sprefix sc2 = spec_prefix c (sname (csan c) rp) p2 /\
    tags_eq (stags sc2) (spec_tags c (san_map (csan c) rt) p2).
Proof.
  intros Hm Hh1 Hp1 Hh2 Hp2 s1 d1 s3 d2.
  destruct (reach_inv c rp rt h1 Hm Hh1) as [Hi1 H01]. fold s1 in Hi1, H01.
  destruct (derive_ok c p1 s1 0%nat _ (fst d1) (snd d1) Hi1 H01 Hp1 (surj_pair' _)) as (Hi2 & He2 & sc1 & Hn1 & Hpp1 & Htt1).
  destruct (run_ok c h2 (fst d1) Hi2 Hh2) as [Hi3 He3]. fold s3 in Hi3, He3.
  assert (H03 : nth_error (scopes s3) 0 = Some (root_rec c rp rt)).
  { eapply ext_scope; [exact He3|]. eapply ext_scope; [exact He2|]. exact H01. }
  destruct (derive_ok c p2 s3 0%nat _ (fst d2) (snd d2) Hi3 H03 Hp2 (surj_pair' _)) as (Hi4 & He4 & sc2 & Hn2 & Hpp2 & Htt2).
  split; auto. split; [eapply ext_trans; eauto|].
  exists sc1, sc2. repeat split; auto.
  eapply ext_scope; [exact He4|]. eapply ext_scope; [exact He3|]. exact Hn1.
Qed.

Lemma same_identity_same_scope c rp rt h1 p1 h2 p2 :
  ok_map c rt -> ok_hist c h1 -> ok_prog c p1 -> ok_hist c h2 -> ok_prog c p2 ->
  spec_prefix c (sname (csan c) rp) p1 = spec_prefix c (sname (csan c) rp) p2 ->
  tags_eq (spec_tags c (san_map (csan c) rt) p1) (spec_tags c (san_map (csan c) rt) p2) ->
  let d1 := derive c (run c (init c rp rt) h1) 0 p1 in
  let d2 := derive c (run c (fst d1) h2) 0 p2 in
  snd d1 = snd d2.
Proof.
  intros Hm Hh1 Hp1 Hh2 Hp2 Ep Et d1 d2.
  destruct (two_derivations c rp rt h1 p1 h2 p2 Hm Hh1 Hp1 Hh2 Hp2)
    as (Hi & _ & sc1 & sc2 & _ & Hn1 & Hn2 & Hpp1 & Htt1 & Hpp2 & Htt2).
  eapply same_identity; eauto.
  - congruence.
  - eapply tags_eq_trans; [exact Htt1|]. eapply tags_eq_trans; [exact Et|]. apply tags_eq_sym. exact Htt2.
Qed.

Lemma distinct_identity_distinct_scope c rp rt h1 p1 h2 p2 :
  ok_map c rt -> ok_hist c h1 -> ok_prog c p1 -> ok_hist c h2 -> ok_prog c p2 ->
  let d1 := derive c (run c (init c rp rt) h1) 0 p1 in
  let d2 := derive c (run c (fst d1) h2) 0 p2 in
  snd d1 = snd d2 ->
  spec_prefix c (sname (csan c) rp) p1 = spec_prefix c (sname (csan c) rp) p2 /\
  tags_eq (spec_tags c (san_map (csan c) rt) p1) (spec_tags c (san_map (csan c) rt) p2).
Proof.
  intros Hm Hh1 Hp1 Hh2 Hp2 d1 d2 E.
  destruct (two_derivations c rp rt h1 p1 h2 p2 Hm Hh1 Hp1 Hh2 Hp2)
    as (Hi & _ & sc1 & sc2 & _ & Hn1 & Hn2 & Hpp1 & Htt1 & Hpp2 & Htt2).
  fold d1 d2 in Hn1, Hn2. rewrite E in Hn1. rewrite Hn1 in Hn2. inversion Hn2; subst sc2.
  split; [congruence|].
  eapply tags_eq_trans; [apply tags_eq_sym; exact Htt1 | exact Htt2].
Qed.

(* metrics *)
Lemma same_metric c s id sc kind n n' h :
  inv s -> ok_hist c h -> nth_error (scopes s) id = Some sc ->
  sname (csan c) n = sname (csan c) n' ->
  let g1 := step c s (CMet id kind n) in
  let g2 := step c (run c (fst g1) h) (CMet id kind n') in
  snd g1 = snd g2.
Proof.
  intros Hi Hh Hn En g1 g2. unfold g2, g1, step, step_k. rewrite Hn.
  destruct (get_metric c s id kind n) as [s1 m1] eqn:E1. cbn [fst snd].
  destruct (get_metric_ok c s id kind n s1 m1 Hi (nth_error_lt _ _ _ Hn) E1) as (Hi1 & He1 & Hm1).
  destruct (run_ok c h s1 Hi1 Hh) as [Hi2 He2].
  rewrite (ext_scope _ _ _ _ He2 (ext_scope _ _ _ _ He1 Hn)).
  pose proof (ext_metric _ _ _ _ He2 Hm1) as Hm2.
  destruct (inv_met _ Hi2 _ _ Hm2) as [Hf _].
  unfold get_metric. rewrite <- En, Hf. reflexivity.
Qed.

Lemma metric_distinct c s id1 sc1 kind1 n1 h id2 sc2 kind2 n2 :
  inv s -> ok_hist c h ->
  nth_error (scopes s) id1 = Some sc1 ->
  let g1 := step c s (CMet id1 kind1 n1) in
  let s2 := run c (fst g1) h in
  nth_error (scopes s2) id2 = Some sc2 ->
  let g2 := step c s2 (CMet id2 kind2 n2) in
  snd g1 = snd g2 -> id1 = id2 /\ kind1 = kind2 /\ sname (csan c) n1 = sname (csan c) n2.
Proof.
  intros Hi Hh Hn1 g1 s2 Hn2 g2. unfold g2, step, step_k. rewrite Hn2.
  unfold s2, g1, step, step_k in *. rewrite Hn1 in *.
  destruct (get_metric c s id1 kind1 n1) as [s1 m1] eqn:E1. cbn [fst snd] in *.
  destruct (get_metric_ok c s id1 kind1 n1 s1 m1 Hi (nth_error_lt _ _ _ Hn1) E1) as (Hi1 & He1 & Hm1).
  destruct (run_ok c h s1 Hi1 Hh) as [Hi2 He2].
  destruct (get_metric c (run c s1 h) id2 kind2 n2) as [s3 m2] eqn:E2. cbn [fst snd].
  destruct (get_metric_ok c _ id2 kind2 n2 s3 m2 Hi2 (nth_error_lt _ _ _ Hn2) E2) as (Hi3 & He3 & Hm3).
  intro E. subst m2.
  pose proof (ext_metric _ _ _ _ He3 (ext_metric _ _ _ _ He2 Hm1)) as Hm1'.
  rewrite Hm1' in Hm3. inversion Hm3. auto.
Qed.

(* ------------------------------------------------------------------ *)
(* the statements of Props/C05.v *)

Lemma c05_key_rightmost : forall p maps,
  key p maps = kprefix p ++ join (map item (canon maps)) /\
  ssorted (canon_keys maps) /\
  (forall k, In k (canon_keys maps) <-> exists m, In m maps /\ In k (map fst m)) /\
  (forall ms m k, eff (ms ++ [m]) k = match lookup k m with Some v => Some v | None => eff ms k end) /\
  (forall k, eff [] k = None).
Proof.
  intros p maps. split; [apply key_is_spec|]. split; [apply canon_keys_sorted|].
  split; [intro k; rewrite canon_keys_in; apply keys_of_in|].
  split; [intros; apply eff_snoc | reflexivity].
Qed.

Lemma c05_same_identity_same_scope : forall c rp rt h1 p1 h2 p2,
  ok_map c rt -> ok_hist c h1 -> ok_prog c p1 -> ok_hist c h2 -> ok_prog c p2 ->
  spec_prefix c (sname (csan c) rp) p1 = spec_prefix c (sname (csan c) rp) p2 ->
  tags_eq (spec_tags c (san_map (csan c) rt) p1) (spec_tags c (san_map (csan c) rt) p2) ->
  let d1 := derive c (run c (init c rp rt) h1) 0 p1 in
  let d2 := derive c (run c (fst d1) h2) 0 p2 in
  snd d1 = snd d2 /\
  forall kind n n' h3, ok_hist c h3 -> sname (csan c) n = sname (csan c) n' ->
    let g1 := step c (fst d2) (CMet (snd d1) kind n) in
    let g2 := step c (run c (fst g1) h3) (CMet (snd d2) kind n') in
    snd g1 = snd g2.
Proof.
  intros c rp rt h1 p1 h2 p2 Hm Hh1 Hp1 Hh2 Hp2 Ep Et d1 d2.
  pose proof (same_identity_same_scope c rp rt h1 p1 h2 p2 Hm Hh1 Hp1 Hh2 Hp2 Ep Et) as E.
  fold d1 d2 in E. split; [exact E|].
  intros kind n n' h3 Hh3 En g1 g2.
  destruct (two_derivations c rp rt h1 p1 h2 p2 Hm Hh1 Hp1 Hh2 Hp2)
    as (Hi & _ & sc1 & sc2 & _ & Hn1 & _). fold d1 d2 in Hi, Hn1.
  unfold g2, g1. replace (snd d2) with (snd d1) by exact E. eapply same_metric; eauto.
Qed.

Lemma c05_tagged_idempotent : forall c rp rt h p m,
  ok_map c rt -> ok_hist c h -> ok_prog c p -> ok_map c m ->
  let s := run c (init c rp rt) h in
  snd (derive c s 0 (p ++ [DTag m])) =
  snd (derive c (fst (derive c s 0 (p ++ [DTag m]))) 0 (p ++ [DTag m; DTag m])).
Proof.
  intros c rp rt h p m Hm Hh Hp Hmm s.
  assert (Hp1 : ok_prog c (p ++ [DTag m])) by (apply Forall_app; split; auto; repeat constructor; auto).
  assert (Hp2 : ok_prog c (p ++ [DTag m; DTag m])) by (apply Forall_app; split; auto; repeat constructor; auto).
  apply (same_identity_same_scope c rp rt h (p ++ [DTag m]) [] (p ++ [DTag m; DTag m]) Hm Hh Hp1 (Forall_nil _) Hp2).
  - rewrite !spec_prefix_qfold. f_equal. f_equal. unfold sub_names. rewrite !flat_map_app. reflexivity.
  - intro k. rewrite !spec_tags_eff. unfold tag_maps. rewrite !flat_map_app. cbn [flat_map app].
    rewrite !map_app. cbn [map]. rewrite !app_comm_cons.
    change [san_map (csan c) m; san_map (csan c) m] with ([san_map (csan c) m] ++ [san_map (csan c) m]).
    rewrite app_assoc. rewrite !eff_snoc. destruct (lookup k (san_map (csan c) m)); reflexivity.
Qed.

Lemma c05_tagged_order_independent : forall c rp rt h1 p1 h2 p2,
  ok_map c rt -> ok_hist c h1 -> ok_prog c p1 -> ok_hist c h2 -> ok_prog c p2 ->
  Forall (fun m => fixed_map c m /\ wf_map m) (tag_maps p1) ->
  Forall (fun m => fixed_map c m /\ wf_map m) (tag_maps p2) ->
  map (sname (csan c)) (sub_names p1) = map (sname (csan c)) (sub_names p2) ->
  (forall k, eff (tag_maps p1) k = eff (tag_maps p2) k) ->
  let d1 := derive c (run c (init c rp rt) h1) 0 p1 in
  let d2 := derive c (run c (fst d1) h2) 0 p2 in
  snd d1 = snd d2.
Proof.
  intros c rp rt h1 p1 h2 p2 Hm Hh1 Hp1 Hh2 Hp2 F1 F2 En Ee.
  apply same_identity_same_scope; auto.
  - rewrite !spec_prefix_qfold, En. reflexivity.
  - intro k. rewrite !spec_tags_eff, !eff_cons.
    assert (Hx : forall p, Forall (fun m => fixed_map c m /\ wf_map m) (tag_maps p) ->
                 eff (map (san_map (csan c)) (tag_maps p)) k = eff (tag_maps p) k).
    { intros p Fp. apply eff_map_ext. induction Fp as [|m ms [Hf Hw] Fp IH]; constructor; auto.
      apply san_map_fixed; auto. }
    rewrite (Hx p1 F1), (Hx p2 F2), Ee. reflexivity.
Qed.

Lemma c05_distinct_never_merge : forall c rp rt h1 p1 h2 p2,
  ok_map c rt -> ok_hist c h1 -> ok_prog c p1 -> ok_hist c h2 -> ok_prog c p2 ->
  (spec_prefix c (sname (csan c) rp) p1 <> spec_prefix c (sname (csan c) rp) p2 \/
   ~ tags_eq (spec_tags c (san_map (csan c) rt) p1) (spec_tags c (san_map (csan c) rt) p2)) ->
  let d1 := derive c (run c (init c rp rt) h1) 0 p1 in
  let d2 := derive c (run c (fst d1) h2) 0 p2 in
  snd d1 <> snd d2 /\
  forall kind1 n1 kind2 n2 h3, ok_hist c h3 ->
    let g1 := step c (fst d2) (CMet (snd d1) kind1 n1) in
    let g2 := step c (run c (fst g1) h3) (CMet (snd d2) kind2 n2) in
    snd g1 <> snd g2.
Proof.
  intros c rp rt h1 p1 h2 p2 Hm Hh1 Hp1 Hh2 Hp2 Hd d1 d2.
  assert (Hne : snd d1 <> snd d2).
  { intro E. destruct (distinct_identity_distinct_scope c rp rt h1 p1 h2 p2 Hm Hh1 Hp1 Hh2 Hp2 E) as [A B].
    destruct Hd as [Hd|Hd]; contradiction. }
  split; auto. intros kind1 n1 kind2 n2 h3 Hh3 g1 g2 E.
  destruct (two_derivations c rp rt h1 p1 h2 p2 Hm Hh1 Hp1 Hh2 Hp2)
    as (Hi & _ & sc1 & sc2 & _ & Hn1 & Hn2 & _). fold d1 d2 in Hi, Hn1, Hn2.
  assert (Hn2' : nth_error (scopes (run c (fst g1) h3)) (snd d2) = Some sc2).
  { eapply ext_scope; [apply run_ext|]. eapply ext_scope; [apply step_ext|]. exact Hn2. }
  destruct (metric_distinct c (fst d2) (snd d1) sc1 kind1 n1 h3 (snd d2) sc2 kind2 n2 Hi Hh3 Hn1 Hn2' E) as [A _].
  contradiction.
Qed.

(* ------------------------------------------------------------------ *)
(* the statements of Props/C04.v *)

Lemma c04_name_spec : forall c rp rt h prog kind n,
  ok_map c rt -> ok_hist c h -> ok_prog c prog ->
  let s := run c (init c rp rt) h in
  let d := derive c s 0 prog in
  let g := step c (fst d) (CMet (snd d) kind n) in
  exists tags,
    delivered c (fst g) (snd g) =
      Some (qfold (csep c) (sname (csan c) rp)
              (map (sname (csan c)) (sub_names prog) ++ [sname (csan c) n]), tags).
Proof.
  intros c rp rt h prog kind n Hm Hh Hp s d g.
  destruct (deliver_spec c rp rt h prog kind n Hm Hh Hp) as [tags [Hd _]].
  exists tags. fold s d g in Hd. rewrite Hd. rewrite qfold_app, <- spec_prefix_qfold. reflexivity.
Qed.

Lemma c04_join : forall c rp rt h prog kind n,
  ok_map c rt -> ok_hist c h -> ok_prog c prog -> sname (csan c) rp <> [] ->
  let s := run c (init c rp rt) h in
  let d := derive c s 0 prog in
  let g := step c (fst d) (CMet (snd d) kind n) in
  exists tags,
    delivered c (fst g) (snd g) =
      Some (sjoin (csep c) (sname (csan c) rp ::
              map (sname (csan c)) (sub_names prog) ++ [sname (csan c) n]), tags).
Proof.
  intros c rp rt h prog kind n Hm Hh Hp Hne s d g.
  destruct (c04_name_spec c rp rt h prog kind n Hm Hh Hp) as [tags Hd].
  exists tags. fold s d g in Hd. rewrite Hd. rewrite qfold_join; auto.
Qed.

Lemma c04_empty_root_prefix : forall c rp rt h prog kind n,
  ok_map c rt -> ok_hist c h -> ok_prog c prog -> sname (csan c) rp = [] ->
  let s := run c (init c rp rt) h in
  let d := derive c s 0 prog in
  let g := step c (fst d) (CMet (snd d) kind n) in
  exists tags,
    delivered c (fst g) (snd g) =
      Some (match map (sname (csan c)) (sub_names prog) ++ [sname (csan c) n] with
            | [] => []
            | x :: l => qfold (csep c) x l
            end, tags).
Proof.
  intros c rp rt h prog kind n Hm Hh Hp He s d g.
  destruct (c04_name_spec c rp rt h prog kind n Hm Hh Hp) as [tags Hd].
  exists tags. fold s d g in Hd. rewrite Hd, He.
  destruct (map (sname (csan c)) (sub_names prog) ++ [sname (csan c) n]); reflexivity.
Qed.

Lemma c04_tags_spec : forall c rp rt h prog kind n,
  ok_map c rt -> ok_hist c h -> ok_prog c prog ->
  let s := run c (init c rp rt) h in
  let d := derive c s 0 prog in
  let g := step c (fst d) (CMet (snd d) kind n) in
  exists name tags,
    delivered c (fst g) (snd g) = Some (name, tags) /\
    tags_eq tags (spec_tags c (san_map (csan c) rt) prog) /\
    forall k, lookup k tags = eff (san_map (csan c) rt :: map (san_map (csan c)) (tag_maps prog)) k.
Proof.
  intros c rp rt h prog kind n Hm Hh Hp s d g.
  destruct (deliver_spec c rp rt h prog kind n Hm Hh Hp) as [tags [Hd Ht]].
  eexists; exists tags. split; [exact Hd|]. split; [exact Ht|].
  intro k. rewrite (Ht k). apply spec_tags_eff.
Qed.

Lemma c04_tags_stable : forall c s h h' id sc mid d,
  (nth_error (scopes (run c s h)) id = Some sc ->
   nth_error (scopes (run c (run c s h) h')) id = Some sc) /\
  (delivered c (run c s h) mid = Some d ->
   delivered c (run c (run c s h) h') mid = Some d).
Proof.
  intros. split; [apply tags_stable | apply delivered_stable].
Qed.

Lemma c04_sanitize_order_independent : forall z m m',
  NoDup (map (fun kv => skey z (fst kv)) m) -> Permutation m m' ->
  tags_eq (san_map z m) (san_map z m').
Proof. exact san_map_perm. Qed.

Lemma c05_same_scope_same_metric : forall c rp rt h id sc kind n n' h2,
  ok_map c rt -> ok_hist c h -> ok_hist c h2 ->
  let s := run c (init c rp rt) h in
  nth_error (scopes s) id = Some sc ->
  sname (csan c) n = sname (csan c) n' ->
  let g1 := step c s (CMet id kind n) in
  let g2 := step c (run c (fst g1) h2) (CMet id kind n') in
  snd g1 = snd g2.
Proof.
  intros c rp rt h id sc kind n n' h2 Hm Hh Hh2 s Hn En.
  destruct (reach_inv c rp rt h Hm Hh) as [Hi _].
  eapply same_metric; eauto.
Qed.
