(* Pass completeness (C07): in the registry model with Go's iteration guarantee (Model/RegPass.v),
   a pass that began after Close was called on a scope and that has completed leaves everything
   recorded on that scope before its Close delivered. *)
From Coq Require Import ZArith List Lia Bool Arith.
From Tally Require Import Model.Registry Proof.RegistryP Proof.Registry2P Model.RegPass.
Import ListNotations.

Lemma opt_eqb_eq a b : opt_eqb a b = true -> a = b.
Proof. destruct a, b; cbn; try discriminate; auto. intros H. apply Nat.eqb_eq in H. congruence. Qed.

Lemma nth_error_upd_other {A} (l : list A) i j x : i <> j -> nth_error (upd l i x) j = nth_error l j.
Proof. revert i j; induction l as [|h l IH]; intros [|i] [|j] H; cbn; auto; try lia. Qed.
Lemma upd_same {A} (l : list A) i t : nth_error l i = Some t -> upd l i t = l.
Proof. revert i; induction l as [|h l IH]; intros [|i] H; cbn in *; try discriminate; auto.
  - congruence. - f_equal; auto. Qed.

Section WithSan.
Variable san : nat -> nat.
Hypothesis san_idem : forall k, san (san k) = san k.
Hypothesis san_root : san 0 = 0.

Notation step := (Registry.step san).
Notation istep := (RegPass.istep san).
Notation irun := (RegPass.irun san).
Notation Inv2 := (Registry2P.Inv2 san).

(* ---------------- how one step changes the objects ---------------- *)
Definition evo (x y : scope) : Prop :=
  skey y = skey x /\ (closed x = true -> closed y = true /\ closed_at y = closed_at x) /\
  delivered x <= delivered y.
Definition evolves (s s' : sys) : Prop :=
  length (objs s) <= length (objs s') /\ forall o, o < length (objs s) -> evo (obj s o) (obj s' o).
Definition fresh_open (s s' : sys) : Prop :=
  forall o, length (objs s) <= o -> o < length (objs s') -> closed (obj s' o) = false.

Lemma evo_refl x : evo x x.
Proof. unfold evo; auto. Qed.
Lemma evolves_refl s : evolves s s.
Proof. split; auto. intros; apply evo_refl. Qed.
Lemma evolves_trans a b c : evolves a b -> evolves b c -> evolves a c.
Proof.
  intros [L1 E1] [L2 E2]. split; [lia|]. intros o H.
  destruct (E1 o H) as (A1 & B1 & C1). destruct (E2 o ltac:(lia)) as (A2 & B2 & C2).
  split; [congruence|]. split; [|lia]. intros Hc. destruct (B1 Hc) as [X Y]. destruct (B2 X) as [X' Y']. split; congruence.
Qed.
Lemma evolves_objs s s' X : objs X = objs s' -> evolves s s' -> evolves s X.
Proof. intros E [L H]. unfold evolves, obj in *. rewrite E. auto. Qed.

Definition fevo (f : scope -> scope) : Prop := forall x, okobj x -> evo x (f x).
Lemma fevo_report : fevo report_obj.
Proof. intros x (A & B & C & D). unfold evo; cbn. repeat split; auto. lia. Qed.
Lemma fevo_clear : fevo clear_obj.
Proof. intros x _. unfold evo; cbn. auto. Qed.
Lemma fevo_inc : fevo inc_obj.
Proof. intros x _. unfold evo; cbn. auto. Qed.
Lemma fevo_close : fevo close_obj.
Proof. intros x _. unfold evo, close_obj. destruct (closed x) eqn:E; cbn; repeat split; auto; congruence. Qed.

Lemma evolves_set_obj s o f : fevo f -> (forall o', okobj (obj s o')) -> evolves s (set_obj s o (f (obj s o))).
Proof.
  intros F Ho. split; [rewrite len_set_obj; auto|]. intros o' _.
  destruct (obj_set_cases s o f o') as [E|[_ E]]; rewrite E; [apply evo_refl|apply F; auto].
Qed.

Lemma evolves_append s x r t : evolves s {| objs := objs s ++ [x]; reg := r; thr := t |}.
Proof.
  split; cbn [objs]; [rewrite app_length; lia|]. intros o H. unfold obj; cbn [objs].
  rewrite app_nth1 by auto. apply evo_refl.
Qed.

Lemma fresh_same s s' : length (objs s') = length (objs s) -> fresh_open s s'.
Proof. intros E o H1 H2. lia. Qed.
Lemma fresh_append s X k r t : length (objs X) = length (objs s) ->
  fresh_open s {| objs := objs X ++ [new_obj k]; reg := r; thr := t |}.
Proof.
  intros E o H1 H2. cbn [objs] in H2. rewrite app_length in H2; cbn in H2.
  assert (o = length (objs X)) by lia. subst o. unfold obj; cbn [objs].
  rewrite app_nth2 by lia. rewrite Nat.sub_diag. reflexivity.
Qed.

Lemma step_evolves s ic : Inv s -> evolves s (step s ic) /\ fresh_open s (step s ic).
Proof.
  intros I. destruct ic as [i ch]. unfold Registry.step.
  assert (Ho : forall o', okobj (obj s o')) by apply I.
  assert (R : evolves s s /\ fresh_open s s) by (split; [apply evolves_refl|apply fresh_same; auto]).
  assert (SO : forall o f t', fevo f -> evolves s (set_thr (set_obj s o (f (obj s o))) i t') /\
                                    fresh_open s (set_thr (set_obj s o (f (obj s o))) i t')).
  { intros o f t' F. split.
    - apply (evolves_objs s (set_obj s o (f (obj s o)))); [reflexivity|]. apply evolves_set_obj; auto.
    - apply fresh_same. cbn [objs set_thr]. apply len_set_obj. }
  assert (NE : forall tid vis, evolves s (next_entry s i tid vis ch) /\ fresh_open s (next_entry s i tid vis ch)).
  { intros tid vis. unfold next_entry. destruct (lookup (reg s) ch); exact R. }
  destruct (nth_error (thr s) i) as [t|] eqn:Et; [|exact R].
  pose proof (inv_thread_pc _ _ _ I Et) as Hp.
  destruct (tpc t) as [ | k o | k o | k o | k o | k | vis | vis k o | vis k o c | vis k o | vis k o] eqn:Epc; cbn [okpc] in Hp.
  - destruct (prog t) as [|[k| |] rest].
    + destruct (passes t); [exact R|]. apply NE.
    + destruct (lookup (reg s) k) as [o|]; [destruct (closed (obj s o))|]; exact R.
    + destruct (cur t) as [o|]; [|exact R]. apply SO, fevo_inc.
    + destruct (cur t) as [o|]; [|exact R]. apply SO, fevo_close.
  - apply SO, fevo_report.
  - exact R.
  - exact R.
  - apply SO, fevo_clear.
  - assert (CR : forall s0, evolves s s0 -> length (objs s0) = length (objs s) -> forall t',
      evolves s (set_thr {| objs := objs s0 ++ [new_obj (san k)];
                      reg := add_alias ((san k, length (objs s0)) :: reg s0) k (length (objs s0)); thr := thr s0 |} i t') /\
      fresh_open s (set_thr {| objs := objs s0 ++ [new_obj (san k)];
                      reg := add_alias ((san k, length (objs s0)) :: reg s0) k (length (objs s0)); thr := thr s0 |} i t')).
    { intros s0 E0 L0 t'. split.
      - eapply evolves_trans; [exact E0|].
        apply (evolves_objs s0 {| objs := objs s0 ++ [new_obj (san k)]; reg := reg s0; thr := thr s0 |}); [reflexivity|].
        apply evolves_append.
      - apply (fresh_append s s0 (san k)). exact L0. }
    destruct (lookup (reg s) (san k)) as [o|] eqn:El.
    + destruct (closed (obj s o)) eqn:Ec.
      * set (s1 := set_obj s o (report_obj (obj s o))).
        set (s2 := set_reg s1 (remove_if (reg s1) (san k) o)).
        set (s3 := set_obj s2 o (clear_obj (obj s2 o))).
        assert (I1 : Inv s1) by (apply inv_mono; auto; apply mono_report).
        assert (E1 : evolves s s1) by (apply evolves_set_obj; auto; apply fevo_report).
        assert (E2 : evolves s1 s3).
        { apply (evolves_objs s1 (set_obj s1 o (clear_obj (obj s1 o)))); [reflexivity|].
          apply evolves_set_obj; [apply fevo_clear|apply I1]. }
        apply CR.
        -- eapply evolves_trans; eauto.
        -- unfold s3, s2, s1. rewrite len_set_obj. cbn [objs set_reg]. apply len_set_obj.
      * exact R.
    + apply CR; [apply evolves_refl|reflexivity].
  - apply NE.
  - exact R.
  - destruct c; apply SO, fevo_report.
  - exact R.
  - apply SO, fevo_clear.
Qed.

(* ---------------- how one step changes the threads ---------------- *)
Definition nonpass (p : pc) : Prop :=
  match p with Idle | G2 _ _ | G3 _ _ | G3b _ _ | G4 _ _ | G5 _ => True | _ => False end.
Definition nonpass_src (t : thread) : Prop :=
  match tpc t with
  | Idle => starting t = false
  | G2 _ _ | G3 _ _ | G3b _ _ | G4 _ _ | G5 _ => True
  | _ => False
  end.

Lemma step_thr_shape s i ch t : nth_error (thr s) i = Some t ->
  exists t', thr (step s (i, ch)) = upd (thr s) i t' /\ (nonpass_src t -> nonpass (tpc t')).
Proof.
  intros Et. unfold Registry.step. rewrite Et. unfold nonpass_src, starting.
  destruct (tpc t) as [ | k o | k o | k o | k o | k | vis | vis k o | vis k o c | vis k o | vis k o] eqn:Epc.
  - destruct (prog t) as [|[k| |] rest].
    + destruct (passes t).
      * exists t. split; [symmetry; apply upd_same; auto|]. rewrite Epc. exact (fun _ => I).
      * unfold next_entry. destruct (lookup (reg s) ch); eexists; (split; [reflexivity|]); discriminate.
    + destruct (lookup (reg s) k) as [o|]; [destruct (closed (obj s o))|]; eexists; (split; [reflexivity|]); intros _; exact I.
    + destruct (cur t); eexists; (split; [reflexivity|]); intros _; exact I.
    + destruct (cur t); eexists; (split; [reflexivity|]); intros _; exact I.
  - eexists; split; [reflexivity|]. intros _; exact I.
  - eexists; split; [reflexivity|]. intros _; exact I.
  - eexists; split; [reflexivity|]. intros _; exact I.
  - eexists; split; [reflexivity|]. intros _; exact I.
  - destruct (lookup (reg s) (san k)) as [o|]; [destruct (closed (obj s o))|]; eexists; (split; [reflexivity|]); intros _; exact I.
  - unfold next_entry. destruct (lookup (reg s) ch); eexists; (split; [reflexivity|]); intros [].
  - eexists; split; [reflexivity|]. intros [].
  - destruct c; eexists; (split; [reflexivity|]); intros [].
  - eexists; split; [reflexivity|]. intros [].
  - eexists; split; [reflexivity|]. intros [].
Qed.

Lemma step_choose_same s i ch t vis : nth_error (thr s) i = Some t -> choosing t = Some vis ->
  reg (step s (i, ch)) = reg s /\ objs (step s (i, ch)) = objs s.
Proof.
  intros Et Ech. unfold Registry.step. rewrite Et. unfold choosing in Ech.
  destruct (tpc t) eqn:Epc; try discriminate.
  - destruct (starting t) eqn:St; [|discriminate]. unfold starting in St. rewrite Epc in St.
    destruct (prog t); [|discriminate]. destruct (passes t); [discriminate|].
    unfold next_entry. destruct (lookup (reg s) ch); split; reflexivity.
  - unfold next_entry. destruct (lookup (reg s) ch); split; reflexivity.
Qed.

(* ---------------- the ghost invariant ---------------- *)
Definition Done1 (s : isys) (p k : nat) : Prop :=
  ins s k < p -> forall o, lookup (reg (base s)) k = Some o ->
  closed (obj (base s) o) = true -> cclk s o < p ->
  closed_at (obj (base s) o) <= delivered (obj (base s) o).
Definition V (s : isys) (p : nat) (vis : list nat) : Prop := forall k, In k vis -> Done1 s p k.
Definition E (s : isys) (p k o : nat) : Prop :=
  ins s k < p -> forall o', lookup (reg (base s)) k = Some o' -> o' = o.
Definition DoneAll (s : isys) (p : nat) : Prop :=
  forall o, closed (obj (base s) o) = true -> cclk s o < p ->
  closed_at (obj (base s) o) <= delivered (obj (base s) o).

Definition okpass (s : isys) (i : nat) (p : pc) : Prop :=
  match p with
  | P1 vis => V s (pstart s i) vis
  | P2 vis k o | P3 vis k o _ | P4 vis k o | P5 vis k o => V s (pstart s i) vis /\ E s (pstart s i) k o
  | _ => True
  end.

Record GInv (s : isys) : Prop := {
  g_inv : Inv (base s);
  g_inv2 : Inv2 (base s);
  g_ins : forall k, ins s k < clk s;
  g_cclk : forall o, cclk s o < clk s;
  g_pstart : forall j, pstart s j < clk s;
  g_pdone : forall j p, pdone s j = Some p -> p < clk s;
  g_stamp : forall o, o < length (objs (base s)) -> closed (obj (base s) o) = true ->
            delivered (obj (base s) o) < closed_at (obj (base s) o) ->
            ins s (skey (obj (base s) o)) < cclk s o;
  g_pass : forall i t, nth_error (thr (base s)) i = Some t -> okpass s i (tpc t);
  g_done : forall j p, pdone s j = Some p -> DoneAll s p }.

(* what every executed step does to the ghost state *)
Record okstep (s s' : isys) : Prop := {
  os_inv : Inv (base s);
  os_ev : evolves (base s) (base s');
  os_fr : fresh_open (base s) (base s');
  os_ins : forall k, (lookup (reg (base s')) k = lookup (reg (base s)) k /\ ins s' k = ins s k) \/ ins s' k = clk s;
  os_cclk : forall o, (closed (obj (base s) o) = false /\ closed (obj (base s') o) = true /\ cclk s' o = clk s) \/
                      ((closed (obj (base s) o) = true \/ closed (obj (base s') o) = false) /\ cclk s' o = cclk s o) }.

Lemma closed_transfer s s' p o : okstep s s' -> p <= clk s ->
  closed (obj (base s') o) = true -> cclk s' o < p -> o < length (objs (base s)) ->
  closed (obj (base s) o) = true /\ cclk s o < p /\
  (closed_at (obj (base s) o) <= delivered (obj (base s) o) ->
   closed_at (obj (base s') o) <= delivered (obj (base s') o)).
Proof.
  intros OS Hp Hc Hk L.
  destruct (os_cclk _ _ OS o) as [(A & B & C)|([A|A] & C)]; try lia; try congruence.
  split; auto. split; [lia|].
  destruct (os_ev _ _ OS) as [_ Ev]. destruct (Ev o L) as (_ & Q & D). destruct (Q A) as [_ Q2]. lia.
Qed.

Lemma done1_transfer s s' p k : okstep s s' -> p <= clk s -> Done1 s p k -> Done1 s' p k.
Proof.
  intros OS Hp H Hi o Hl Hc Hk.
  destruct (os_ins _ _ OS k) as [[A B]|A]; [|lia].
  rewrite A in Hl. rewrite B in Hi.
  assert (L : o < length (objs (base s))).
  { destruct (os_inv _ _ OS) as (_ & _ & Hr). apply (Hr k). apply lookup_in; auto. }
  destruct (closed_transfer s s' p o OS Hp Hc Hk L) as (X & Y & Z). apply Z. apply H; auto.
Qed.
Lemma V_transfer s s' p vis : okstep s s' -> p <= clk s -> V s p vis -> V s' p vis.
Proof. intros OS Hp H k Hin. eapply done1_transfer; eauto. Qed.
Lemma E_transfer s s' p k o : okstep s s' -> p <= clk s -> E s p k o -> E s' p k o.
Proof.
  intros OS Hp H Hi o' Hl. destruct (os_ins _ _ OS k) as [[A B]|A]; [|lia].
  rewrite A in Hl. rewrite B in Hi. auto.
Qed.
Lemma doneall_transfer s s' p : okstep s s' -> p <= clk s -> DoneAll s p -> DoneAll s' p.
Proof.
  intros OS Hp H o Hc Hk.
  destruct (Nat.lt_ge_cases o (length (objs (base s)))) as [L|L].
  - destruct (closed_transfer s s' p o OS Hp Hc Hk L) as (X & Y & Z). apply Z. apply H; auto.
  - destruct (Nat.lt_ge_cases o (length (objs (base s')))) as [L'|L'].
    + rewrite (os_fr _ _ OS o L L') in Hc. discriminate.
    + unfold obj. rewrite nth_overflow by lia. cbn. lia.
Qed.

Lemma okpass_transfer s s' j p : okstep s s' -> pstart s j <= clk s -> pstart s' j = pstart s j ->
  okpass s j p -> okpass s' j p.
Proof.
  intros OS Hp Eq. unfold okpass. rewrite Eq.
  destruct p; auto; try (intros [A B]; split; [eapply V_transfer|eapply E_transfer]; eauto).
  eapply V_transfer; eauto.
Qed.

Lemma guard_spec r f p vis k o : guard r f p vis = true -> In (k, o) r -> f k < p -> In k vis.
Proof.
  unfold guard. rewrite forallb_forall. intros H Hin Hlt. specialize (H _ Hin). cbn [fst] in H.
  apply orb_true_iff in H as [H|H].
  - apply negb_true_iff, Nat.ltb_ge in H. lia.
  - apply existsb_exists in H as (x & Hx & Q). apply Nat.eqb_eq in Q. subst. exact Hx.
Qed.

(* the step of the invariant *)
Lemma ginv_step s ic : GInv s -> GInv (istep s ic).
Proof.
  intros G. destruct ic as [i ch]. unfold RegPass.istep. cbn [fst snd].
  destruct (nth_error (thr (base s)) i) as [t|] eqn:Et; [|exact G].
  set (p := if starting t then clk s else pstart s i).
  set (e := ending (base s) t ch).
  destruct (e && negb (guard (reg (base s)) (ins s) p (visited t))) eqn:Eref; [exact G|].
  set (b := base s) in *. set (b' := step b (i, ch)).
  set (s' := {| base := b'; clk := S (clk s);
         ins := fun k => if opt_eqb (lookup (reg b) k) (lookup (reg b') k) then ins s k else clk s;
         cclk := fun o => if negb (closed (obj b o)) && closed (obj b' o) then clk s else cclk s o;
         pstart := fun j => if Nat.eqb j i then p else pstart s j;
         pdone := fun j => if Nat.eqb j i && e then Some p else pdone s j |}).
  pose proof (g_inv _ G) as I. pose proof (g_inv2 _ G) as I2. fold b in I, I2.
  assert (I' : Inv b') by (apply step_inv; auto).
  assert (I2' : Inv2 b') by (apply step_inv2; auto).
  destruct (step_evolves b (i, ch) I) as [EV FR]. fold b' in EV, FR.
  assert (Pp : p <= clk s).
  { unfold p. destruct (starting t); [lia|]. pose proof (g_pstart _ G i). lia. }
  assert (OS : okstep s s').
  { constructor; cbn [base clk ins cclk s']; auto.
    - intros k. destruct (opt_eqb (lookup (reg b) k) (lookup (reg b') k)) eqn:Q; [left|right; reflexivity].
      apply opt_eqb_eq in Q. split; auto.
    - intros o. destruct (closed (obj b o)) eqn:Q1; destruct (closed (obj b' o)) eqn:Q2; cbn; auto. }
  destruct (step_thr_shape b i ch t Et) as (t' & Ethr & Hnp). fold b' in Ethr.
  assert (Ei : nth_error (thr b') i = Some t').
  { rewrite Ethr. eapply nth_error_upd_same; eauto. }
  constructor; cbn [base clk ins cclk pstart pdone s'].
  - exact I'.
  - exact I2'.
  - intros k. pose proof (g_ins _ G k). destruct (opt_eqb _ _); lia.
  - intros o. pose proof (g_cclk _ G o). destruct (negb _ && _); lia.
  - intros j. pose proof (g_pstart _ G j). destruct (Nat.eqb j i); lia.
  - intros j q. destruct (Nat.eqb j i && e); intros H.
    + inversion H; subst. lia.
    + apply (g_pdone _ G) in H. lia.
  - (* stamps *)
    intros o L Hc Hd.
    destruct (Nat.lt_ge_cases o (length (objs b))) as [Lo|Lo]; [|rewrite (FR o Lo L) in Hc; discriminate].
    destruct EV as [_ EV]. destruct (EV o Lo) as (K & Q & D).
    assert (N' : needed (obj b' o)) by (right; exact Hd).
    assert (N : needed (obj b o)).
    { destruct (closed (obj b o)) eqn:Q1; [right|left; exact Q1]. destruct (Q eq_refl) as [_ Q2]. lia. }
    destruct I2 as (_ & _ & C). destruct I2' as (_ & _ & C').
    specialize (C o Lo N). specialize (C' o L N'). rewrite K in *.
    rewrite C, C'. cbn [opt_eqb]. rewrite Nat.eqb_refl.
    destruct (closed (obj b o)) eqn:Q1; rewrite Hc; cbn [negb andb].
    + pose proof (g_stamp _ G o) as GS. fold b in GS. apply GS; auto. destruct (Q eq_refl) as [_ Q2]. lia.
    + apply (g_ins _ G).
  - (* passes *)
    intros j tj Ej. destruct (Nat.eq_dec j i) as [->|N].
    + (* the thread that moved *)
      rewrite Ei in Ej. inversion Ej; subst tj. clear Ej.
      assert (Ps : pstart s' i = p) by (cbn [pstart s']; rewrite Nat.eqb_refl; reflexivity).
      pose proof (g_pass _ G i t Et) as OP. fold b in OP.
      pose proof (inv_thread_pc _ _ _ I Et) as Hpc.
      assert (TR : starting t = false -> forall q, okpass s i q -> okpass s' i q).
      { intros St q. apply okpass_transfer; auto.
        - pose proof (g_pstart _ G i). lia.
        - rewrite Ps. unfold p. rewrite St. reflexivity. }
      assert (Ech : forall o, lookup (reg b) ch = Some o -> reg b' = reg b -> E s' p ch o).
      { intros o Hl Hr Hi o' Hl'. cbn [base s'] in Hl'. rewrite Hr in Hl'. congruence. }
      revert Ei. unfold b'. unfold Registry.step. rewrite Et. fold b.
      destruct (tpc t) as [ | k o | k o | k o | k o | k | vis | vis k o | vis k o c | vis k o | vis k o] eqn:Epc.
      * (* Idle *)
        destruct (starting t) eqn:St.
        -- assert (Hsame0 : reg b' = reg b).
           { apply (step_choose_same b i ch t []); auto. unfold choosing. rewrite Epc, St. reflexivity. }
           unfold starting in St. rewrite Epc in St.
           destruct (prog t) as [|a rest]; [|discriminate]. destruct (passes t) as [|n]; [discriminate|].
           unfold next_entry. destruct (lookup (reg b) ch) as [o|] eqn:El; cbn [thr set_thr]; intros Ei.
           ++ erewrite nth_error_upd_same in Ei by eauto. inversion Ei; subst t'. cbn [tpc with_pc okpass]. rewrite Ps.
              split; [intros k []|]. apply Ech; auto.
           ++ erewrite nth_error_upd_same in Ei by eauto. inversion Ei; subst t'. exact Logic.I.
        -- intros _. assert (Q : nonpass (tpc t')) by (apply Hnp; unfold nonpass_src; rewrite Epc; exact St).
           destruct (tpc t'); cbn in Q; try contradiction; exact Logic.I.
      * intros _. assert (Q : nonpass (tpc t')) by (apply Hnp; unfold nonpass_src; rewrite Epc; exact Logic.I).
        destruct (tpc t'); cbn in Q; try contradiction; exact Logic.I.
      * intros _. assert (Q : nonpass (tpc t')) by (apply Hnp; unfold nonpass_src; rewrite Epc; exact Logic.I).
        destruct (tpc t'); cbn in Q; try contradiction; exact Logic.I.
      * intros _. assert (Q : nonpass (tpc t')) by (apply Hnp; unfold nonpass_src; rewrite Epc; exact Logic.I).
        destruct (tpc t'); cbn in Q; try contradiction; exact Logic.I.
      * intros _. assert (Q : nonpass (tpc t')) by (apply Hnp; unfold nonpass_src; rewrite Epc; exact Logic.I).
        destruct (tpc t'); cbn in Q; try contradiction; exact Logic.I.
      * intros _. assert (Q : nonpass (tpc t')) by (apply Hnp; unfold nonpass_src; rewrite Epc; exact Logic.I).
        destruct (tpc t'); cbn in Q; try contradiction; exact Logic.I.
      * (* P1: choose the next entry *)
        assert (St : starting t = false) by (unfold starting; rewrite Epc; reflexivity).
        assert (Pq : p = pstart s i) by (unfold p; rewrite St; reflexivity).
        unfold next_entry. destruct (lookup (reg b) ch) as [o|] eqn:El; cbn [thr set_thr]; intros Ei.
        -- erewrite nth_error_upd_same in Ei by eauto. inversion Ei; subst t'. cbn [tpc with_pc okpass]. rewrite Ps.
           split.
           ++ rewrite Pq. eapply V_transfer; eauto. lia.
           ++ apply Ech; auto. apply (step_choose_same b i ch t vis); auto. unfold choosing. rewrite Epc. reflexivity.
        -- erewrite nth_error_upd_same in Ei by eauto. inversion Ei; subst t'. exact Logic.I.
      * (* P2 *)
        assert (St : starting t = false) by (unfold starting; rewrite Epc; reflexivity).
        cbn [thr set_thr]; intros Ei. erewrite nth_error_upd_same in Ei by eauto. inversion Ei; subst t'.
        cbn [tpc with_pc]. apply (TR St (P3 vis k o (closed (obj b o)))). exact OP.
      * (* P3 *)
        assert (St : starting t = false) by (unfold starting; rewrite Epc; reflexivity).
        assert (Pq : p = pstart s i) by (unfold p; rewrite St; reflexivity).
        cbn [okpc] in Hpc. destruct Hpc as [Lo Hcc].
        destruct c; cbn [thr set_thr set_obj]; intros Ei; erewrite nth_error_upd_same in Ei by eauto; inversion Ei; subst t'; cbn [tpc with_pc].
        -- apply (TR St (P4 vis k o)). exact OP.
        -- cbn [okpass] in OP |- *. destruct OP as [OV OE]. rewrite Ps, Pq.
           intros k' [<-|Hin]; [|eapply done1_transfer; eauto; lia].
           intros Hi o' Hl Hc Hk.
           destruct (os_ins _ _ OS k) as [[A B]|A]; [|lia]. cbn [base s'] in A, Hl, Hc |- *.
           rewrite A in Hl. rewrite B in Hi. specialize (OE Hi o' Hl). subst o'.
           assert (Eo : obj b' o = report_obj (obj b o)).
           { unfold b', Registry.step. rewrite Et, Epc. fold b. cbn [set_thr].
             change (obj (set_thr (set_obj b o (report_obj (obj b o))) i (with_pc t (P1 (k :: vis)))) o)
               with (obj (set_obj b o (report_obj (obj b o))) o). apply obj_set_same; auto. }
           rewrite Eo in Hc |- *. cbn in Hc |- *.
           destruct I as (Ho & _). destruct (Ho o) as (_ & Q & _). specialize (Q Hc). lia.
      * (* P4 *)
        assert (St : starting t = false) by (unfold starting; rewrite Epc; reflexivity).
        cbn [thr set_thr set_reg]; intros Ei. erewrite nth_error_upd_same in Ei by eauto. inversion Ei; subst t'.
        cbn [tpc with_pc]. apply (TR St (P5 vis k o)). exact OP.
      * (* P5 *)
        assert (St : starting t = false) by (unfold starting; rewrite Epc; reflexivity).
        assert (Pq : p = pstart s i) by (unfold p; rewrite St; reflexivity).
        cbn [okpc] in Hpc. destruct Hpc as (Lo & Hcc & Hdd).
        cbn [thr set_thr set_obj]; intros Ei; erewrite nth_error_upd_same in Ei by eauto; inversion Ei; subst t'; cbn [tpc with_pc].
        cbn [okpass] in OP |- *. destruct OP as [OV OE]. rewrite Ps, Pq.
        intros k' [<-|Hin]; [|eapply done1_transfer; eauto; lia].
        intros Hi o' Hl Hc Hk.
        destruct (os_ins _ _ OS k) as [[A B]|A]; [|lia]. cbn [base s'] in A, Hl, Hc |- *.
        rewrite A in Hl. rewrite B in Hi. specialize (OE Hi o' Hl). subst o'.
        destruct EV as [_ EV]. destruct (EV o Lo) as (_ & Q & D). destruct (Q Hcc) as [_ Q2]. lia.
    + (* another thread *)
      assert (Ej' : nth_error (thr b) j = Some tj).
      { rewrite Ethr in Ej. rewrite nth_error_upd_other in Ej by auto. exact Ej. }
      apply (okpass_transfer s s'); auto.
      * pose proof (g_pstart _ G j). lia.
      * cbn [pstart s']. destruct (Nat.eqb_spec j i); [contradiction|reflexivity].
      * apply (g_pass _ G j tj Ej').
  - (* completed passes *)
    intros j q Hq. destruct (Nat.eqb j i && e) eqn:Q.
    + inversion Hq; subst q. apply andb_true_iff in Q as [Q1 Q2]. apply Nat.eqb_eq in Q1. subst j.
      (* thread i ends its pass here: the state of the objects and of the map is unchanged *)
      rewrite Q2 in Eref. cbn [andb] in Eref. apply negb_false_iff in Eref.
      unfold e, ending in Q2.
      destruct (choosing t) as [vis|] eqn:Ech; [|discriminate].
      destruct (lookup (reg b) ch) eqn:El; [discriminate|].
      assert (Eb : reg b' = reg b /\ objs b' = objs b) by (apply (step_choose_same b i ch t vis); auto).
      destruct Eb as [Er Eo].
      assert (Eobj : forall o, obj b' o = obj b o) by (intros o; unfold obj; rewrite Eo; reflexivity).
      intros o Hc Hk. cbn [base cclk s'] in *. rewrite Eobj in *.
      assert (Hk' : cclk s o < p).
      { destruct (negb (closed (obj b o)) && closed (obj b o)) eqn:Z; [|exact Hk].
        rewrite Hc in Z. discriminate. }
      destruct (Nat.lt_ge_cases o (length (objs b))) as [Lo|Lo];
        [|unfold obj; rewrite nth_overflow by lia; cbn; lia].
      destruct (Nat.le_gt_cases (closed_at (obj b o)) (delivered (obj b o))) as [Z|Z]; [exact Z|].
      exfalso.
      destruct I2 as (_ & _ & C). specialize (C o Lo (or_intror Z)).
      pose proof (g_stamp _ G o Lo Hc Z) as Hst. fold b in Hst.
      assert (Hvis : In (skey (obj b o)) (visited t)).
      { eapply guard_spec; [exact Eref|apply lookup_in; exact C|lia]. }
      unfold visited in Hvis. rewrite Ech in Hvis. unfold choosing in Ech.
      destruct (tpc t) eqn:Epc; try discriminate.
      * destruct (starting t); inversion Ech; subst vis. destruct Hvis.
      * inversion Ech; subst vis.
        pose proof (g_pass _ G i t Et) as OP. rewrite Epc in OP. cbn [okpass] in OP. fold b in OP.
        assert (Pq : p = pstart s i) by (unfold p, starting; rewrite Epc; reflexivity).
        specialize (OP _ Hvis). unfold Done1 in OP. fold b in OP. rewrite <- Pq in OP.
        assert (closed_at (obj b o) <= delivered (obj b o)); [|lia].
        apply OP; auto. lia.
    + apply (doneall_transfer s s'); auto.
      * pose proof (g_pdone _ G j q Hq). lia.
      * apply (g_done _ G j q Hq).
Qed.

Lemma ginv_init ths : (forall t, In t ths -> tpc t = Idle) -> GInv (iinit ths).
Proof.
  intros H. constructor; cbn [iinit base clk ins cclk pstart pdone]; try (intros; lia); try discriminate.
  - apply inv_init; auto.
  - split; [|split]; cbn.
    + intros k o' [Q|[]]. inversion Q; subst. cbn. exact san_root.
    + constructor; [intros []|constructor].
    + intros o' L' _. destruct o' as [|o']; [reflexivity|lia].
  - intros o L Hc. cbn in L. assert (o = 0) by lia. subst. cbn in Hc. discriminate.
  - intros i t Hn. apply nth_error_In in Hn. cbn in Hn. rewrite (H t Hn). exact I.
Qed.

Lemma ginv_run sched : forall s, GInv s -> GInv (irun s sched).
Proof. induction sched as [|ic sched IH]; cbn; intros s G; auto. apply IH, ginv_step, G. Qed.

(* a pass that began after Close was called on a scope and has completed has delivered everything
   recorded on that scope before the Close *)
Theorem closed_is_visited ths sched i p o :
  (forall t, In t ths -> tpc t = Idle) ->
  let s := irun (iinit ths) sched in
  pdone s i = Some p ->
  closed (obj (base s) o) = true -> cclk s o < p ->
  closed_at (obj (base s) o) <= delivered (obj (base s) o).
Proof.
  intros H s Hp Hc Hk. pose proof (ginv_run sched _ (ginv_init ths H)) as G. fold s in G.
  exact (g_done _ G i p Hp o Hc Hk).
Qed.

(* the instrumented runs are runs of the registry model: everything proved about Registry.run holds of them *)
Lemma base_irun sched : forall s, exists sched', base (irun s sched) = Registry.run san (base s) sched'.
Proof.
  induction sched as [|ic sched IH]; intros s; cbn [RegPass.irun fold_left].
  - exists []. reflexivity.
  - fold (irun (istep s ic) sched). destruct (IH (istep s ic)) as (r & Hr). rewrite Hr.
    unfold RegPass.istep. destruct (nth_error (thr (base s)) (fst ic)); [|exists r; reflexivity].
    destruct (_ && _); [exists r; reflexivity|].
    exists (ic :: r). reflexivity.
Qed.

(* the clocks mean what they say: Close on a scope that is not closed stamps it with the present time,
   and a pass that starts is stamped with the present time *)
End WithSan.
