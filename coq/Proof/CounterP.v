From Coq Require Import ZArith List Lia Bool ZifyBool.
From Tally Require Import Model.Counter.
Ltac Zify.zify_post_hook ::= Z.div_mod_to_equations.
Import ListNotations.
Open Scope Z_scope.

(* conservation modulo 2^64: what has been delivered is exactly prev *)
Definition Inv (s : sys) : Prop := (sumZ (log s) - prev s) mod M = 0.

Lemma wrap_mod z : (wrap z - z) mod M = 0.
Proof. unfold wrap, M, H. lia. Qed.

Lemma step_inv s i : Inv s -> Inv (step s i).
Proof.
  unfold Inv, step. intros I.
  destruct (nth_error (thr s) i) as [[ [|v vs] | [ [|n] | n p | n p c | n ] ]|]; cbn [log prev set_thr]; try assumption.
  - destruct (Z.eqb p (curr s)); cbn [log prev set_thr]; assumption.
  - destruct (Z.eqb_spec (prev s) p) as [E|E]; cbn [log prev set_thr]; [|assumption].
    subst p. pose proof (wrap_mod (c - prev s)) as W. unfold sumZ in *. cbn [fold_right].
    generalize dependent (wrap (c - prev s)). intros w W.
    generalize dependent (fold_right Z.add 0 (log s)). intros sl I. unfold M in *. lia.
Qed.

Theorem conservation sched : forall s, Inv s -> Inv (run s sched).
Proof. induction sched as [|i sched IH]; cbn; intros s I; [exact I|]. apply IH, step_inv, I. Qed.


Lemma sum_invariant ths sched :
  (sumZ (log (run (init ths) sched)) - prev (run (init ths) sched)) mod M = 0.
Proof. apply conservation. unfold Inv, init, M; cbn. reflexivity. Qed.

(* C01_nonneg: with non-negative increments and no overflow, prev <= curr always, every delivered delta is
   strictly positive (zero is suppressed, nothing negative), and the delivered sum is exactly prev. *)
Definition pend (t : thread) : Z := match t with TInc l => sumZ l | _ => 0 end.
Definition pending (s : sys) : Z := sumZ (map pend (thr s)).
Definition inc_ok (t : thread) : Prop := match t with TInc l => Forall (fun v => 0 <= v) l | _ => True end.
Definition rep_ok (s : sys) (t : thread) : Prop :=
  match t with
  | TRep (RLoadCurr _ p) => 0 <= p <= prev s
  | TRep (RCas _ p c) => 0 <= p <= prev s /\ p < c <= curr s
  | _ => True
  end.

Definition Inv2 (s : sys) : Prop :=
  0 <= prev s <= curr s /\ 0 <= pending s /\ curr s + pending s < H /\
  (forall t, In t (thr s) -> inc_ok t /\ rep_ok s t) /\
  Forall (fun d => 0 < d) (log s) /\ sumZ (log s) = prev s.

Lemma wrap_id z : - H <= z < H -> wrap z = z.
Proof. unfold wrap, M, H. intros. lia. Qed.

Lemma in_upd {A} (l : list A) i x t : In t (upd l i x) -> t = x \/ In t l.
Proof. revert i; induction l as [|h l IH]; intros [|i] Hin; cbn in *; auto.
  - destruct Hin as [E|Hin]; auto.
  - destruct Hin as [E|Hin]; auto. destruct (IH _ Hin); auto. Qed.

Lemma pending_upd l i t t' : nth_error l i = Some t ->
  sumZ (map pend (upd l i t')) = sumZ (map pend l) - pend t + pend t'.
Proof. revert i; induction l as [|h l IH]; intros [|i] E; cbn in *; try discriminate.
  - inversion E; subst. unfold sumZ; cbn. lia.
  - specialize (IH _ E). unfold sumZ in *; cbn. lia. Qed.

Lemma sumZ_nonneg l : Forall (fun v => 0 <= v) l -> 0 <= sumZ l.
Proof. induction 1; unfold sumZ in *; cbn; lia. Qed.

Lemma pending_nonneg l : (forall t, In t l -> inc_ok t) -> 0 <= sumZ (map pend l).
Proof. induction l as [|t l IH]; intros Hl; [unfold sumZ; cbn; lia|].
  assert (0 <= pend t). { specialize (Hl t (or_introl eq_refl)). destruct t; cbn in *; [apply sumZ_nonneg; auto|lia]. }
  assert (0 <= sumZ (map pend l)) by (apply IH; intros; apply Hl; right; auto).
  unfold sumZ in *; cbn; lia. Qed.

Ltac inv2_split := unfold Inv2, pending, set_thr; cbn [curr prev log thr]; split; [|split; [|split; [|split; [|split]]]].

Lemma step_inv2 s i : Inv2 s -> Inv2 (step s i).
Proof.
  intros (A & B & C & D & E & F). unfold step.
  destruct (nth_error (thr s) i) as [t|] eqn:Et; [|unfold Inv2; tauto].
  assert (Hin : In t (thr s)) by (eapply nth_error_In; eauto).
  destruct (D t Hin) as [It Rt].
  destruct t as [[|v vs]|[[|n]|n p|n p c|n]]; try (unfold Inv2; tauto).
  - (* Inc v *)
    cbn in It. assert (Hv : 0 <= v) by (inversion It; auto). assert (Hvs : Forall (fun v0 => 0 <= v0) vs) by (inversion It; auto).
    assert (P : pending s = sumZ (map pend (upd (thr s) i (TInc vs))) + v).
    { unfold pending. rewrite (pending_upd _ _ _ (TInc vs) Et). cbn [pend]. unfold sumZ; cbn. lia. }
    assert (R0 : 0 <= sumZ (map pend (upd (thr s) i (TInc vs)))).
    { apply pending_nonneg. intros t0 Ht. apply in_upd in Ht as [->|Ht]; [exact Hvs|apply D; auto]. }
    assert (W : wrap (curr s + v) = curr s + v) by (apply wrap_id; unfold H in *; lia).
    inv2_split; rewrite ?W; auto; try lia.
    intros t0 Ht. apply in_upd in Ht as [->|Ht]; [cbn; auto|]. destruct (D t0 Ht) as [I1 R1]. split; auto.
    destruct t0 as [|[ | | |]]; cbn in *; auto; lia.
  - (* p := prev *)
    inv2_split; rewrite ?(pending_upd _ _ _ (TRep (RLoadCurr n (prev s))) Et); cbn [pend]; auto; try (unfold pending in *; lia).
    intros t0 Ht. apply in_upd in Ht as [->|Ht]; [cbn; split; auto; lia|]. apply D; auto.
  - (* c := curr *)
    cbn in Rt. destruct (Z.eqb_spec p (curr s)) as [Q|Q].
    + inv2_split; rewrite ?(pending_upd _ _ _ (TRep (RIdle n)) Et); cbn [pend]; auto; try (unfold pending in *; lia).
      intros t0 Ht. apply in_upd in Ht as [->|Ht]; [cbn; auto|]. apply D; auto.
    + inv2_split; rewrite ?(pending_upd _ _ _ (TRep (RCas n p (curr s))) Et); cbn [pend]; auto; try (unfold pending in *; lia).
      intros t0 Ht. apply in_upd in Ht as [->|Ht]; [cbn; split; auto; lia|]. apply D; auto.
  - (* CAS *)
    cbn in Rt. destruct Rt as [R1 R2]. destruct (Z.eqb_spec (prev s) p) as [Q|Q].
    + subst p. assert (W : wrap (c - prev s) = c - prev s) by (apply wrap_id; unfold H in *; unfold pending in *; lia).
      inv2_split; rewrite ?W; rewrite ?(pending_upd _ _ _ (TRep (RIdle n)) Et); cbn [pend]; auto; try (unfold pending in *; lia).
      * intros t0 Ht. apply in_upd in Ht as [->|Ht]; [cbn; auto|]. destruct (D t0 Ht) as [I1 R3]. split; auto.
        destruct t0 as [|[ | | |]]; cbn in *; auto; lia.
      * constructor; auto. lia.
      * unfold sumZ in *; cbn. lia.
    + inv2_split; rewrite ?(pending_upd _ _ _ (TRep (RRetry n)) Et); cbn [pend]; auto; try (unfold pending in *; lia).
      intros t0 Ht. apply in_upd in Ht as [->|Ht]; [cbn; auto|]. apply D; auto.
  - (* retry: p := prev *)
    inv2_split; rewrite ?(pending_upd _ _ _ (TRep (RLoadCurr n (prev s))) Et); cbn [pend]; auto; try (unfold pending in *; lia).
    intros t0 Ht. apply in_upd in Ht as [->|Ht]; [cbn; split; auto; lia|]. apply D; auto.
Qed.

Lemma nonneg ths sched :
  (forall t, In t ths -> inc_ok t /\ match t with TRep (RIdle _) | TInc _ => True | _ => False end) ->
  sumZ (map pend ths) < H ->
  let s := run (init ths) sched in
  Forall (fun d => 0 < d) (log s) /\ sumZ (log s) = prev s /\ 0 <= prev s <= curr s.
Proof.
  intros Hth Hp s.
  assert (I0 : Inv2 (init ths)).
  { assert (P0 : 0 <= sumZ (map pend ths)) by (apply pending_nonneg; intros t0 Ht; apply Hth; auto).
    unfold Inv2, init, pending; cbn [curr prev log thr].
    split; [lia|]. split; [exact P0|]. split; [lia|]. split; [|split; [constructor|reflexivity]].
    intros t0 Ht. destruct (Hth t0 Ht) as [I K]. split; auto. destruct t0 as [|[ | | | ]]; cbn in *; tauto. }
  assert (G : forall sch s0, Inv2 s0 -> Inv2 (run s0 sch)).
  { induction sch as [|i sch IH]; cbn; auto. intros s0 I. apply IH, step_inv2, I. }
  destruct (G sched _ I0) as (A & B & C & D & E & F). fold s in A, E, F. auto.
Qed.


(* C01_exact_after_quiescence / C01_idle_pass_silent.
   From any state in which every increment has been applied and no reporter is mid-pass (curr = C):
   as soon as any pass has completed, prev = curr; and once prev = curr nothing more is ever delivered. *)
Definition budget (t : thread) : nat :=
  match t with TRep (RIdle n) => n | TRep (RLoadCurr n _) => S n | TRep (RCas n _ _) => S n | TRep (RRetry n) => S n | TInc _ => 0 end.
Definition total (s : sys) : nat := fold_right (fun t a => (budget t + a)%nat) 0%nat (thr s).
Definition quiet (t : thread) : Prop := match t with TInc [] | TRep (RIdle _) => True | _ => False end.

Definition tok (s : sys) (C : Z) (t : thread) : Prop :=
  match t with
  | TInc l => l = []
  | TRep (RLoadCurr _ p) => p = C -> prev s = C
  | TRep (RCas _ _ c) => c = C
  | _ => True
  end.
Definition Q (C : Z) (B : nat) (s : sys) : Prop :=
  curr s = C /\ (forall t, In t (thr s) -> tok s C t) /\ (total s <= B)%nat /\ ((total s < B)%nat -> prev s = C).

Lemma total_upd l i t t' : nth_error l i = Some t ->
  (fold_right (fun t a => budget t + a) 0 (upd l i t') + budget t = fold_right (fun t a => budget t + a) 0 l + budget t')%nat.
Proof. revert i; induction l as [|h l IH]; intros [|i] E; cbn in *; try discriminate.
  - inversion E; subst. lia. - specialize (IH _ E). lia. Qed.

Ltac qsplit := unfold Q, total, set_thr; cbn [curr prev thr]; unfold total in *; split; [|split; [|split]].

Lemma step_Q C B s i : Q C B s -> Q C B (step s i).
Proof.
  intros (Hc & Ht & Hb & Hp). unfold step.
  destruct (nth_error (thr s) i) as [t|] eqn:Et; [|unfold Q; tauto].
  assert (Hin : In t (thr s)) by (eapply nth_error_In; eauto).
  pose proof (Ht t Hin) as Tk.
  destruct t as [[|v vs]|[[|n]|n p|n p c|n]]; try (unfold Q; tauto).
  - cbn in Tk. discriminate.
  - (* p := prev *)
    pose proof (total_upd _ _ _ (TRep (RLoadCurr n (prev s))) Et) as L. cbn [budget] in L. qsplit.
    + auto.
    + intros t0 H0. apply in_upd in H0 as [->|H0]; [cbn; auto|]. apply Ht; auto.
    + lia.
    + intros H0. apply Hp. lia.
  - (* c := curr *)
    cbn in Tk. destruct (Z.eqb_spec p (curr s)) as [E|E].
    + pose proof (total_upd _ _ _ (TRep (RIdle n)) Et) as L. cbn [budget] in L. qsplit.
      * auto.
      * intros t0 H0. apply in_upd in H0 as [->|H0]; [cbn; auto|]. apply Ht; auto.
      * lia.
      * intros _. apply Tk. congruence.
    + pose proof (total_upd _ _ _ (TRep (RCas n p (curr s))) Et) as L. cbn [budget] in L. qsplit.
      * auto.
      * intros t0 H0. apply in_upd in H0 as [->|H0]; [cbn; auto|]. apply Ht; auto.
      * lia.
      * intros H0. apply Hp. lia.
  - (* CAS *)
    cbn in Tk. destruct (Z.eqb_spec (prev s) p) as [E|E].
    + pose proof (total_upd _ _ _ (TRep (RIdle n)) Et) as L. cbn [budget] in L. qsplit.
      * auto.
      * intros t0 H0. apply in_upd in H0 as [->|H0]; [cbn; auto|].
        specialize (Ht t0 H0). destruct t0 as [|[ | | |]]; cbn in *; auto.
      * lia.
      * intros _. exact Tk.
    + pose proof (total_upd _ _ _ (TRep (RRetry n)) Et) as L. cbn [budget] in L. qsplit.
      * auto.
      * intros t0 H0. apply in_upd in H0 as [->|H0]; [cbn; auto|]. apply Ht; auto.
      * lia.
      * intros H0. apply Hp. lia.
  - (* retry: p := prev *)
    pose proof (total_upd _ _ _ (TRep (RLoadCurr n (prev s))) Et) as L. cbn [budget] in L. qsplit.
    + auto.
    + intros t0 H0. apply in_upd in H0 as [->|H0]; [cbn; auto|]. apply Ht; auto.
    + lia.
    + intros H0. apply Hp. lia.
Qed.

Lemma exact_after_quiescence s1 sched :
  (forall t, In t (thr s1) -> quiet t) ->
  let s2 := run s1 sched in
  (total s2 < total s1)%nat ->                 (* some report pass has completed since *)
  prev s2 = curr s2 /\ curr s2 = curr s1.
Proof.
  intros Hq s2 Hlt.
  assert (Q0 : Q (curr s1) (total s1) s1).
  { unfold Q. repeat split; auto; try lia. intros t Ht. specialize (Hq t Ht). destruct t as [[|]|[ | | |]]; cbn in *; tauto. }
  assert (G : forall sch s0, Q (curr s1) (total s1) s0 -> Q (curr s1) (total s1) (run s0 sch)).
  { induction sch as [|i sch IH]; cbn; auto. intros s0 I. apply IH, step_Q, I. }
  destruct (G sched _ Q0) as (A & _ & _ & D). fold s2 in A, D. split; [rewrite D; auto|auto].
Qed.

(* once prev = curr with all increments applied, no schedule of passes delivers anything *)
Lemma idle_pass_silent s1 sched :
  (forall t, In t (thr s1) -> quiet t) -> prev s1 = curr s1 -> log (run s1 sched) = log s1.
Proof.
  intros Hq Hp.
  assert (G : forall sch s0, (curr s0 = curr s1 /\ prev s0 = curr s1 /\ log s0 = log s1 /\
              forall t, In t (thr s0) -> match t with TInc l => l = [] | TRep (RCas _ _ _) => False | TRep (RRetry _) => False
                                                      | TRep (RLoadCurr _ p) => p = curr s1 | _ => True end) ->
            log (run s0 sch) = log s1).
  { induction sch as [|i sch IH]; cbn; intros s0 (A & B & C & D); auto. apply IH. unfold step.
    destruct (nth_error (thr s0) i) as [t|] eqn:Et; [|tauto].
    pose proof (D t (nth_error_In _ _ Et)) as Dt.
    destruct t as [[|v vs]|[[|n]|n p|n p c|n]]; try tauto; try discriminate.
    - unfold set_thr; cbn [curr prev log thr]. repeat split; auto. intros t0 H0. apply in_upd in H0 as [->|H0]; auto; apply D; auto.
    - destruct (Z.eqb_spec p (curr s0)) as [E|E]; [|congruence].
      unfold set_thr; cbn [curr prev log thr]. repeat split; auto. intros t0 H0. apply in_upd in H0 as [->|H0]; auto; apply D; auto. }
  apply G. repeat split; auto. intros t Ht. specialize (Hq t Ht). destruct t as [[|]|[ | | |]]; cbn in *; tauto.
Qed.


(* ---- what has been recorded: curr + (increments not yet applied) is constant mod 2^64 ---- *)
Definition Inv3 (T : Z) (s : sys) : Prop := (curr s + pending s - T) mod M = 0.

Lemma step_inv3 T s i : Inv3 T s -> Inv3 T (step s i).
Proof.
  unfold Inv3, pending. intros I. unfold step.
  destruct (nth_error (thr s) i) as [t|] eqn:Et; [|assumption].
  destruct t as [[|v vs]|[[|n]|n p|n p c|n]]; try assumption.
  - unfold set_thr; cbn [curr thr]. rewrite (pending_upd _ _ _ (TInc vs) Et). cbn [pend].
    pose proof (wrap_mod (curr s + v)) as W.
    assert (sumZ (v :: vs) = v + sumZ vs) as -> by reflexivity.
    revert I W. generalize (wrap (curr s + v)) (sumZ (map pend (thr s))) (sumZ vs) (curr s).
    intros w sp svs c I W. unfold M in *. lia.
  - unfold set_thr; cbn [curr thr]. rewrite (pending_upd _ _ _ _ Et). cbn [pend]. replace (sumZ (map pend (thr s)) - 0 + 0) with (sumZ (map pend (thr s))) by lia. assumption.
  - destruct (Z.eqb p (curr s)); unfold set_thr; cbn [curr thr]; rewrite (pending_upd _ _ _ _ Et); cbn [pend];
      replace (sumZ (map pend (thr s)) - 0 + 0) with (sumZ (map pend (thr s))) by lia; assumption.
  - destruct (Z.eqb (prev s) p); unfold set_thr; cbn [curr thr]; rewrite (pending_upd _ _ _ _ Et); cbn [pend];
      replace (sumZ (map pend (thr s)) - 0 + 0) with (sumZ (map pend (thr s))) by lia; assumption.
  - unfold set_thr; cbn [curr thr]. rewrite (pending_upd _ _ _ _ Et). cbn [pend]. replace (sumZ (map pend (thr s)) - 0 + 0) with (sumZ (map pend (thr s))) by lia. assumption.
Qed.

Lemma run_inv3 T sched : forall s, Inv3 T s -> Inv3 T (run s sched).
Proof. induction sched as [|i sched IH]; cbn; intros s I; [exact I|]. apply IH, step_inv3, I. Qed.

Lemma quiet_pending s : (forall t, In t (thr s) -> quiet t) -> pending s = 0.
Proof.
  unfold pending. induction (thr s) as [|t l IH]; intros Hq; [reflexivity|].
  cbn [map]. assert (sumZ (pend t :: map pend l) = pend t + sumZ (map pend l)) as -> by reflexivity.
  rewrite IH by (intros t0 Ht0; apply Hq; now right).
  specialize (Hq t (or_introl eq_refl)). destruct t as [[|]|[ | | |]]; cbn in *; try tauto; reflexivity.
Qed.

(* The property's main clause: from the initial state, under any schedule, whenever
   activity has stopped (every increment applied, no pass in flight) and the last
   completed pass ran after that (prev = curr, see exact_after_quiescence), the
   deliveries add up to the sum of all increments, modulo 2^64. *)
Lemma delivered_eq_recorded ths sched :
  let s := run (init ths) sched in
  (forall t, In t (thr s) -> quiet t) -> prev s = curr s ->
  (sumZ (log s) - sumZ (map pend ths)) mod M = 0.
Proof.
  intros s Hq Hp.
  pose proof (sum_invariant ths sched) as H1. fold s in H1.
  assert (H3 : Inv3 (sumZ (map pend ths)) s).
  { apply run_inv3. unfold Inv3, init, pending; cbn [curr thr].
    replace (0 + sumZ (map pend ths) - sumZ (map pend ths)) with 0 by lia. reflexivity. }
  unfold Inv3 in H3. rewrite (quiet_pending s Hq) in H3. rewrite Hp in H1.
  revert H1 H3. generalize (sumZ (log s)) (curr s) (sumZ (map pend ths)).
  intros l c T H1 H3. unfold M in *. lia.
Qed.
