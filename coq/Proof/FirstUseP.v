From Coq Require Import List Lia Bool Arith.
From Tally Require Import Model.FirstUse.
Import ListNotations.

Lemma key_eqb_eq a b : key_eqb a b = true <-> a = b.
Proof.
  destruct a as [a1 a2], b as [b1 b2]; unfold key_eqb; cbn. rewrite andb_true_iff, !Nat.eqb_eq.
  split; [intros [-> ->]; reflexivity|intros H; inversion H; auto].
Qed.
Lemma key_eqb_refl a : key_eqb a a = true. Proof. apply key_eqb_eq; reflexivity. Qed.

Lemma find_none_notin t k : find t k = None -> ~ In k (map fst t).
Proof.
  induction t as [|[k' o] r IH]; cbn; [tauto|]. destruct (key_eqb k k') eqn:E; [discriminate|].
  intros H [Q|Q]; [subst; rewrite key_eqb_refl in E; discriminate|]. apply IH; auto.
Qed.

Definition J (s : msys) : Prop :=
  (forall k o, In (k, o) (gets s) -> find (tbl s) k = Some o) /\
  NoDup (map fst (tbl s)) /\
  allocs s = map fst (tbl s).

Lemma j_set_thr s i t : J s -> J (set_thr s i t). Proof. auto. Qed.

Lemma j_returned s i t k o : J s -> find (tbl s) k = Some o -> J (returned s i t k o).
Proof.
  intros (A & B & C) F. split; [|split]; cbn [gets tbl allocs returned]; auto.
  intros k' o' [Q|Q]; [inversion Q; subst; exact F|apply A, Q].
Qed.

Lemma step_j s i : J s -> J (step s i).
Proof.
  intros I. unfold step. destruct (nth_error (thr s) i) as [t|]; [|exact I].
  destruct (tpc t) as [|k].
  - destruct (prog t) as [|[k| |] rest]; [exact I| | |].
    + destruct (find (tbl s) k) as [o|] eqn:F; [apply j_returned; auto|apply j_set_thr; auto].
    + apply j_set_thr. destruct (cur t); auto.
    + apply j_set_thr. exact I.
  - destruct (find (tbl s) k) as [o|] eqn:F; [apply j_returned; auto|].
    destruct I as (A & B & C).
    apply j_returned.
    + split; [|split]; cbn [gets tbl allocs].
      * intros k' o' Hin. cbn [find]. destruct (key_eqb k' k) eqn:E.
        -- apply key_eqb_eq in E. subst. rewrite (A _ _ Hin) in F. discriminate.
        -- apply A, Hin.
      * cbn. constructor; [apply find_none_notin, F|exact B].
      * cbn. rewrite C. reflexivity.
    + cbn [tbl find]. rewrite key_eqb_refl. reflexivity.
Qed.

Lemma run_j sched : forall s, J s -> J (run s sched).
Proof. induction sched as [|i r IH]; cbn; intros s I; auto. apply IH, step_j, I. Qed.

Lemma j_init ths : J (init ths).
Proof. split; [intros k o []|split; [constructor|reflexivity]]. Qed.

(* all requests for one (kind, name), by whichever thread and at whatever time, got the same object *)
Lemma one_object ths sched k o1 o2 :
  let s := run (init ths) sched in
  In (k, o1) (gets s) -> In (k, o2) (gets s) -> o1 = o2.
Proof.
  intros s H1 H2. destruct (run_j sched _ (j_init ths)) as (A & _). fold s in A.
  pose proof (A _ _ H1) as F1. pose proof (A _ _ H2) as F2. congruence.
Qed.

(* the cached reporter's Allocate* is called at most once per (kind, name), exactly for the registered ones *)
Lemma alloc_once ths sched :
  let s := run (init ths) sched in NoDup (allocs s) /\ allocs s = map fst (tbl s).
Proof. intros s. destruct (run_j sched _ (j_init ths)) as (_ & B & C). fold s in B, C. rewrite C. auto. Qed.

(* a pass delivers everything recorded so far through any handle *)
Lemma pass_delivers s i t rest :
  nth_error (thr s) i = Some t -> tpc t = MIdle -> prog t = MPass :: rest ->
  dels (step s i) = recs s /\ recs (step s i) = recs s.
Proof. intros E P Q. unfold step. rewrite E, P, Q. cbn. auto. Qed.
