From Coq Require Import ZArith List Lia Bool Arith.
From Tally Require Import Model.Registry.
Import ListNotations.

Section WithSan.
Variable san : nat -> nat.
Hypothesis san_idem : forall k, san (san k) = san k.

Notation step := (step san).
Notation run := (run san).

(* ---------------- list-update lemmas ---------------- *)
Lemma upd_length {A} (l : list A) i x : length (upd l i x) = length l.
Proof. revert i; induction l as [|h t IH]; intros [|i]; cbn; auto. Qed.
Lemma nth_upd_same {A} (l : list A) i x d : i < length l -> nth i (upd l i x) d = x.
Proof. revert i; induction l as [|h t IH]; intros [|i] H; cbn in *; try lia; auto. apply IH; lia. Qed.
Lemma nth_upd_other {A} (l : list A) i j x d : i <> j -> nth j (upd l i x) d = nth j l d.
Proof. revert i j; induction l as [|h t IH]; intros [|i] [|j] H; cbn; auto; try lia. Qed.
Lemma nth_upd_oob {A} (l : list A) i x : length l <= i -> upd l i x = l.
Proof. revert i; induction l as [|h t IH]; intros [|i] H; cbn in *; auto; try lia. f_equal. apply IH. lia. Qed.
Lemma in_upd {A} (l : list A) i x t : In t (upd l i x) -> t = x \/ In t l.
Proof. revert i; induction l as [|h l IH]; intros [|i]; cbn; intuition; try (destruct (IH _ H0); auto). Qed.

(* ---------------- invariants ---------------- *)
Definition okobj (x : scope) : Prop :=
  delivered x + dropped x <= applied x /\
  (closed x = true -> closed_at x + dropped x <= applied x) /\
  (cleared x = true -> closed x = true /\ closed_at x <= delivered x) /\
  (closed x = false -> dropped x = 0).

Definition okpc (s : sys) (p : pc) : Prop :=
  match p with
  | G2 _ o => o < length (objs s) /\ closed (obj s o) = true
  | G3 _ o | G3b _ o | G4 _ o => o < length (objs s) /\ closed (obj s o) = true /\ closed_at (obj s o) <= delivered (obj s o)
  | P2 _ _ o => o < length (objs s)
  | P3 _ _ o c => o < length (objs s) /\ (c = true -> closed (obj s o) = true)
  | P4 _ _ o | P5 _ _ o => o < length (objs s) /\ closed (obj s o) = true /\ closed_at (obj s o) <= delivered (obj s o)
  | _ => True
  end.

Definition Inv (s : sys) : Prop :=
  (forall o, okobj (obj s o)) /\ (forall t, In t (thr s) -> okpc s (tpc t)) /\
  (forall k o, In (k, o) (reg s) -> o < length (objs s)).

Lemma okobj_dflt : okobj dflt. Proof. unfold okobj; cbn; repeat split; lia. Qed.

Definition mono (f : scope -> scope) : Prop :=
  forall x, okobj x -> okobj (f x) /\
    (closed x = true -> closed (f x) = true /\ closed_at (f x) = closed_at x) /\
    delivered x <= delivered (f x).

Ltac fin := cbn in *; intuition (try lia; try congruence; auto).
Lemma mono_report : mono report_obj.
Proof. intros x (A & B & C & D). unfold report_obj, okobj; fin. Qed.
Lemma mono_clear_ok x : okobj x -> closed x = true -> closed_at x <= delivered x -> okobj (clear_obj x).
Proof. intros (A & B & C & D) H1 H2. unfold okobj, clear_obj; fin. Qed.
Lemma mono_close : mono close_obj.
Proof. intros x (A & B & C & D). unfold close_obj, okobj. destruct (closed x) eqn:E; fin. Qed.
Lemma mono_inc : mono inc_obj.
Proof. intros x (A & B & C & D). unfold okobj, inc_obj; fin. Qed.

Lemma obj_set_same s o x : o < length (objs s) -> obj (set_obj s o x) o = x.
Proof. intros H. unfold obj, set_obj; cbn [objs]. apply nth_upd_same; auto. Qed.
Lemma obj_set_oob s o x o' : length (objs s) <= o -> obj (set_obj s o x) o' = obj s o'.
Proof. intros H. unfold obj, set_obj; cbn [objs]. rewrite nth_upd_oob by lia. reflexivity. Qed.
Lemma obj_set_other s o x o' : o <> o' -> obj (set_obj s o x) o' = obj s o'.
Proof. intros H. unfold obj, set_obj; cbn [objs]. apply nth_upd_other; auto. Qed.
Lemma len_set_obj s o x : length (objs (set_obj s o x)) = length (objs s).
Proof. unfold set_obj; cbn [objs]. apply upd_length. Qed.

Lemma obj_set_cases s o f o' :
  obj (set_obj s o (f (obj s o))) o' = obj s o' \/
  (o' = o /\ obj (set_obj s o (f (obj s o))) o' = f (obj s o')).
Proof.
  destruct (Nat.eq_dec o o') as [<-|N].
  - destruct (Nat.lt_ge_cases o (length (objs s))).
    + right. split; auto. apply obj_set_same; auto.
    + left. apply obj_set_oob; auto.
  - left. apply obj_set_other; auto.
Qed.

Lemma okobj_all_mono s o f : mono f -> (forall o', okobj (obj s o')) ->
  forall o', okobj (obj (set_obj s o (f (obj s o))) o').
Proof. intros M H o'. destruct (obj_set_cases s o f o') as [E|[_ E]]; rewrite E; auto. apply M; auto. Qed.

Lemma okpc_mono s o f p : mono f -> (forall o', okobj (obj s o')) -> okpc s p ->
  okpc (set_obj s o (f (obj s o))) p.
Proof.
  intros M Ho.
  assert (K : forall o', closed (obj s o') = true ->
     closed (obj (set_obj s o (f (obj s o))) o') = true /\
     closed_at (obj (set_obj s o (f (obj s o))) o') = closed_at (obj s o') /\
     delivered (obj s o') <= delivered (obj (set_obj s o (f (obj s o))) o')).
  { intros o' Hc. destruct (obj_set_cases s o f o') as [E|[_ E]]; rewrite E.
    - auto.
    - destruct (M _ (Ho o')) as (_ & Mc & Md). destruct (Mc Hc). auto. }
  destruct p as [ | k o' | k o' | k o' | k o' | | | v k o' | v k o' c | v k o' | v k o']; cbn [okpc]; rewrite ?len_set_obj; auto.
  - intros [V H]; apply K in H; tauto.
  - intros (V & H1 & H2); destruct (K _ H1) as (a & b & c); repeat split; auto; lia.
  - intros (V & H1 & H2); destruct (K _ H1) as (a & b & c); repeat split; auto; lia.
  - intros (V & H1 & H2); destruct (K _ H1) as (a & b & c); repeat split; auto; lia.
  - intros [V H]; split; auto. intros Hc; apply H in Hc; apply K in Hc; tauto.
  - intros (V & H1 & H2); destruct (K _ H1) as (a & b & c); repeat split; auto; lia.
  - intros (V & H1 & H2); destruct (K _ H1) as (a & b & c); repeat split; auto; lia.
Qed.

Lemma okpc_ext s s' p : (forall o, obj s' o = obj s o) -> length (objs s') = length (objs s) -> okpc s p -> okpc s' p.
Proof. intros E L. destruct p as [ | k o | k o | k o | k o | | | v k o | v k o c | v k o | v k o]; cbn [okpc]; rewrite ?E, ?L; auto. Qed.

Lemma inv_set_thr s i t : Inv s -> okpc s (tpc t) -> Inv (set_thr s i t).
Proof. intros (Ho & Ht & Hr) Hp. split; [exact Ho|]. split; [|exact Hr]. intros t' Hin. cbn [thr set_thr] in Hin.
  apply in_upd in Hin as [->|Hin]; [exact Hp|]. apply (okpc_ext s); auto. Qed.

Lemma in_remove_if r k o k' o' : In (k', o') (remove_if r k o) -> In (k', o') r.
Proof. induction r as [|[a b] r IH]; cbn; auto. destruct (Nat.eqb k a && Nat.eqb o b); cbn; intuition. Qed.

Lemma inv_set_reg s r : Inv s -> (forall k o, In (k, o) r -> o < length (objs s)) -> Inv (set_reg s r).
Proof. intros (Ho & Ht & Hr) H. split; [exact Ho|]. split; [|exact H]. intros t Hin. apply (okpc_ext s); auto. Qed.

Lemma inv_mono s o f : mono f -> Inv s -> Inv (set_obj s o (f (obj s o))).
Proof. intros M (Ho & Ht & Hr). split. apply okobj_all_mono; auto. split. intros t Hin. apply okpc_mono; auto.
  intros k o' Hin. rewrite len_set_obj. apply (Hr k); auto. Qed.

Lemma inv_clear s o : Inv s -> closed (obj s o) = true -> closed_at (obj s o) <= delivered (obj s o) ->
  Inv (set_obj s o (clear_obj (obj s o))).
Proof.
  intros (Ho & Ht & Hr) H1 H2.
  assert (M : forall o', obj (set_obj s o (clear_obj (obj s o))) o' = obj s o' \/
                         obj (set_obj s o (clear_obj (obj s o))) o' = clear_obj (obj s o') /\ o' = o).
  { intros o'. destruct (obj_set_cases s o clear_obj o') as [E|[E1 E]]; auto. }
  split; [|split].
  - intros o'. destruct (M o') as [E|[E ->]]; rewrite E; auto. apply mono_clear_ok; auto.
  - intros t Hin. specialize (Ht t Hin).
    destruct (tpc t) as [ | k o' | k o' | k o' | k o' | | | v k o' | v k o' c | v k o' | v k o']; cbn [okpc] in *; rewrite ?len_set_obj; auto;
      destruct (M o') as [E|[E ->]]; rewrite E; auto.
  - intros k o' Hin. rewrite len_set_obj. apply (Hr k); auto.
Qed.

Lemma inv_addobj s k : Inv s -> Inv {| objs := objs s ++ [new_obj k]; reg := reg s; thr := thr s |}.
Proof.
  intros (Ho & Ht & Hr).
  set (s' := {| objs := objs s ++ [new_obj k]; reg := reg s; thr := thr s |}).
  assert (L : length (objs s') = S (length (objs s))) by (unfold s'; cbn [objs]; rewrite app_length; cbn; lia).
  assert (E1 : forall o, o < length (objs s) -> obj s' o = obj s o).
  { intros o H. unfold obj, s'; cbn [objs]. apply app_nth1; auto. }
  split; [|split].
  - intros o. destruct (Nat.lt_ge_cases o (length (objs s))) as [H|H].
    + rewrite E1; auto.
    + unfold obj, s'; cbn [objs]. rewrite app_nth2 by lia.
      destruct (o - length (objs s)) as [|[|n]]; cbn; try (unfold okobj; fin); apply okobj_dflt.
  - intros t Hin. specialize (Ht t Hin).
    destruct (tpc t) as [ | k' o | k' o | k' o | k' o | | | v k' o | v k' o c | v k' o | v k' o]; cbn [okpc] in *; rewrite ?L; auto.
    all: try (destruct Ht as [V Ht]; rewrite (E1 _ V); split; [lia|exact Ht]).
    all: try lia.
  - intros k' o Hin; rewrite L. specialize (Hr _ _ Hin). lia.
Qed.

Lemma in_add_alias r k o k' o' : In (k', o') (add_alias r k o) -> (k', o') = (k, o) \/ In (k', o') r.
Proof. unfold add_alias. destruct (lookup r k); cbn; intuition. Qed.

Lemma lookup_in r k o : lookup r k = Some o -> In (k, o) r.
Proof. induction r as [|[a b] r IH]; cbn; try discriminate. destruct (Nat.eqb_spec k a) as [->|N]; intros H.
  - inversion H; auto. - auto. Qed.

Lemma inv_thread_pc s i t : Inv s -> nth_error (thr s) i = Some t -> okpc s (tpc t).
Proof. intros (_ & Ht & _) H. apply Ht. eapply nth_error_In; eauto. Qed.

Lemma okpc_next_entry s i tidle vis ch :
  Inv s -> tpc tidle = Idle -> Inv (next_entry s i tidle vis ch).
Proof.
  intros HI Hid. unfold next_entry. destruct (lookup (reg s) ch) as [o|] eqn:El.
  - apply inv_set_thr; auto. cbn [tpc with_pc okpc].
    destruct HI as (_ & _ & Hr). apply (Hr ch). apply lookup_in; auto.
  - apply inv_set_thr; auto. rewrite Hid. exact I.
Qed.

(* the report-and-replace step of G5: report, delete-if-same, clear, as one atomic step *)
Lemma inv_report_drop s k o :
  Inv s -> o < length (objs s) -> closed (obj s o) = true ->
  let s1 := set_obj s o (report_obj (obj s o)) in
  let s2 := set_reg s1 (remove_if (reg s1) k o) in
  Inv (set_obj s2 o (clear_obj (obj s2 o))).
Proof.
  intros I V Hc s1 s2.
  assert (I1 : Inv s1) by (apply inv_mono; auto; apply mono_report).
  assert (I2 : Inv s2).
  { apply inv_set_reg; auto. destruct I1 as (_ & _ & Hr). intros k' o' Hin. apply in_remove_if in Hin. eauto. }
  assert (E : obj s2 o = report_obj (obj s o)).
  { unfold s2, s1. change (obj (set_reg (set_obj s o (report_obj (obj s o))) (remove_if (reg (set_obj s o (report_obj (obj s o)))) k o)) o)
      with (obj (set_obj s o (report_obj (obj s o))) o). apply obj_set_same; auto. }
  apply inv_clear; auto; rewrite E.
  - cbn. exact Hc.
  - destruct I as (Ho & _). destruct (Ho o) as (A & B & C & D). cbn. specialize (B Hc). lia.
Qed.

Lemma step_inv s ic : Inv s -> Inv (step s ic).
Proof.
  intros I. destruct ic as [i ch]. unfold step, Registry.step.
  destruct (nth_error (thr s) i) as [t|] eqn:Et; [|exact I].
  pose proof (inv_thread_pc _ _ _ I Et) as Hp.
  destruct (tpc t) as [ | k o | k o | k o | k o | k | vis | vis k o | vis k o c | vis k o | vis k o] eqn:Epc; cbn [okpc] in Hp.
  - destruct (prog t) as [|[k| |] rest].
    + destruct (passes t); [exact I|]. apply okpc_next_entry; auto.
    + destruct (lookup (reg s) k) as [o|] eqn:El.
      * destruct (closed (obj s o)) eqn:Ec; apply inv_set_thr; cbn; auto.
        split; auto. destruct I as (_ & _ & Hr). apply (Hr k). apply lookup_in; auto.
      * apply inv_set_thr; cbn; auto.
    + apply inv_set_thr; cbn; auto. destruct (cur t); auto. apply inv_mono; auto. apply mono_inc.
    + apply inv_set_thr; cbn; auto. destruct (cur t); auto. apply inv_mono; auto. apply mono_close.
  - destruct Hp as [V Hc].
    assert (I' := inv_mono s o report_obj mono_report I).
    apply inv_set_thr; auto. cbn [tpc with_pc okpc]. rewrite len_set_obj. split; auto.
    rewrite obj_set_same by auto.
    destruct I as (Ho & _). destruct (Ho o) as (A & B & C & D).
    unfold report_obj; cbn. split; auto. specialize (B Hc). lia.
  - apply inv_set_thr; cbn; auto. apply inv_set_reg; auto.
    destruct I as (_ & _ & Hr). intros k' o' Hin. apply in_remove_if in Hin. eauto.
  - apply inv_set_thr; cbn; auto. apply inv_set_reg; auto.
    destruct I as (_ & _ & Hr). intros k' o' Hin. apply in_remove_if in Hin. eauto.
  - destruct Hp as (V & Hc & Hd). apply inv_set_thr; cbn; auto. apply inv_clear; auto.
  - (* G5 *)
    assert (Hcreate : forall s0, Inv s0 -> thr s0 = thr s ->
      Inv (set_thr {| objs := objs s0 ++ [new_obj (san k)];
                      reg := add_alias ((san k, length (objs s0)) :: reg s0) k (length (objs s0)); thr := thr s0 |} i
                   {| tpc := Idle; cur := Some (length (objs s0)); prog := prog t; passes := passes t |})).
    { intros s0 I0 _. apply inv_set_thr; cbn; auto.
      apply (inv_set_reg {| objs := objs s0 ++ [new_obj (san k)]; reg := reg s0; thr := thr s0 |}).
      * apply inv_addobj; auto.
      * cbn [objs]. rewrite app_length; cbn. destruct I0 as (_ & _ & Hr).
        intros k' o' Hin. apply in_add_alias in Hin as [Q|[Q|Hin]]; try (inversion Q; lia). specialize (Hr _ _ Hin). lia. }
    destruct (lookup (reg s) (san k)) as [o|] eqn:El.
    + destruct (closed (obj s o)) eqn:Ec.
      * assert (V : o < length (objs s)) by (destruct I as (_ & _ & Hr); apply (Hr (san k)); apply lookup_in; auto).
        apply Hcreate; [|reflexivity]. apply inv_report_drop; auto.
      * apply inv_set_thr; cbn; auto. apply inv_set_reg; auto.
        destruct I as (_ & _ & Hr). intros k' o' Hin. apply in_add_alias in Hin as [Q|Hin]; [|eauto].
        inversion Q; subst. apply (Hr (san k)). apply lookup_in; auto.
    + apply Hcreate; auto.
  - apply okpc_next_entry; auto.
  - apply inv_set_thr; cbn; auto.
  - destruct Hp as [V Hc].
    assert (I' := inv_mono s o report_obj mono_report I).
    destruct c.
    + apply inv_set_thr; auto. cbn [tpc with_pc okpc]. rewrite len_set_obj. split; auto.
      rewrite obj_set_same by auto. specialize (Hc eq_refl).
      destruct I as (Ho & _). destruct (Ho o) as (A & B & C & D).
      unfold report_obj; cbn. split; auto. specialize (B Hc). lia.
    + apply inv_set_thr; cbn; auto.
  - apply inv_set_thr; cbn; auto. apply inv_set_reg; auto.
    destruct I as (_ & _ & Hr). intros k' o' Hin. apply in_remove_if in Hin. eauto.
  - destruct Hp as (V & Hc & Hd). apply inv_set_thr; cbn; auto. apply inv_clear; auto.
Qed.

Lemma inv_init ths : (forall t, In t ths -> tpc t = Idle) -> Inv (init ths).
Proof. intros H. split; [|split].
  - intros o. unfold obj, init; cbn. destruct o as [|[|o]]; try apply okobj_dflt.
    unfold okobj, new_obj; cbn. repeat split; try lia; discriminate.
  - intros t Hin. cbn in Hin. rewrite (H t Hin). exact I.
  - intros k o [Q|[]]. inversion Q; subst. cbn. lia.
Qed.

Theorem run_inv sched : forall s, Inv s -> Inv (run s sched).
Proof. induction sched as [|ic sched IH]; cbn; intros s H; auto. apply IH, step_inv, H. Qed.

Lemma nothing_lost ths sched o :
  (forall t, In t ths -> tpc t = Idle) ->
  let s := run (init ths) sched in
  cleared (obj s o) = true ->
  closed_at (obj s o) <= delivered (obj s o) /\ delivered (obj s o) <= applied (obj s o).
Proof. intros H s Hc. destruct (run_inv sched _ (inv_init ths H)) as (Ho & _). destruct (Ho o) as (A & B & C & D).
  destruct (C Hc) as [_ Hd]. unfold s in *. split; [exact Hd|lia]. Qed.



End WithSan.
