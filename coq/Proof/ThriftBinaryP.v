(* The Binary protocol of Model/Thrift.v satisfies the protocol laws. *)
From Coq Require Import ZArith List Bool Lia ZifyBool.
From Tally Require Import Base.ObsCore Model.Varint Model.Thrift Proof.VarintP Proof.ThriftP.
Import ListNotations.
Open Scope Z_scope.
Ltac Zify.zify_post_hook ::= Z.div_mod_to_equations.

Lemma b_r_i16_ok v rest : int16 v -> b_r_i16 (b_i16 v ++ rest) = Some (v, rest).
Proof.
  intro Hv. unfold b_r_i16, b_i16. rewrite be16_roundtrip by (unfold u16; lia).
  rewrite wrap16_u16, wrap16_id by assumption. reflexivity.
Qed.
Lemma b_r_i32_ok v rest : int32 v -> b_r_i32 (b_i32 v ++ rest) = Some (v, rest).
Proof.
  intro Hv. unfold b_r_i32, b_i32. rewrite be32_roundtrip by (unfold u32; lia).
  rewrite wrap32_u32, wrap32_id by assumption. reflexivity.
Qed.
Lemma b_r_i64_ok v rest : int64 v -> b_r_i64 (b_i64 v ++ rest) = Some (v, rest).
Proof.
  intro Hv. unfold b_r_i64, b_i64. rewrite be64_roundtrip by (unfold u64; lia).
  rewrite wrap64_u64, wrap64_id by assumption. reflexivity.
Qed.
Lemma b_double_ok v rest : bits64 v -> rd_be64 (b_i64 v ++ rest) = Some (v, rest).
Proof.
  intro Hv. unfold b_i64. rewrite (u64_id v Hv). apply be64_roundtrip. exact Hv.
Qed.

Lemma b_r_str_ok s rest : str_ok s -> b_r_str ((b_i32 (Z.of_nat (length s)) ++ s) ++ rest) = Some (s, rest).
Proof.
  unfold str_ok. intro Hs. unfold b_r_str. rewrite <- app_assoc.
  rewrite b_r_i32_ok by (unfold int32; lia).
  destruct (Z.ltb_spec (Z.of_nat (length s)) 0); [lia|]. apply takez_app.
Qed.

Lemma b_r_fb_ok last ty id rest : used_type ty -> 0 <= last < id -> id <= 15 ->
  b_r_fb last (concat (b_fb_chunks ty id) ++ rest) = Some (Some (ty, id), rest).
Proof.
  intros Hu Hl Hi. unfold b_fb_chunks. cbn [concat app]. unfold b_r_fb.
  assert (Hty : ty mod 256 = ty /\ ty <> 0).
  { unfold used_type, T_DOUBLE, T_I32, T_I64, T_STRING, T_STRUCT, T_LIST in Hu. lia. }
  destruct Hty as [E Hnz]. rewrite E. destruct (Z.eqb_spec ty 0); [contradiction|].
  rewrite app_nil_r. rewrite b_r_i16_ok by (unfold int16; lia). reflexivity.
Qed.

Lemma b_r_lb_ok n rest : 0 <= n < 2147483648 ->
  b_r_lb (concat (b_lb_chunks T_STRUCT n) ++ rest) = Some ((T_STRUCT, n), rest).
Proof.
  intro Hn. unfold b_lb_chunks. cbn [concat app]. unfold b_r_lb.
  rewrite app_nil_r. rewrite b_r_i32_ok by (unfold int32; lia).
  destruct (Z.ltb_spec n 0); [lia|]. reflexivity.
Qed.

Lemma b_r_mb_ok name ty seq rest : str_ok name -> 0 <= ty < 8 -> int32 seq ->
  b_r_mb (concat (b_mb_chunks name ty seq) ++ rest) = Some ((name, ty, seq), rest).
Proof.
  intros Hn Ht Hs. unfold b_mb_chunks. cbn [concat]. rewrite app_nil_r. unfold b_r_mb.
  rewrite <- !app_assoc.
  (* the first word read back is version | type as a negative int32 *)
  unfold b_r_i32 at 1. unfold b_i32 at 1.
  rewrite be32_roundtrip by (unfold u32; lia).
  rewrite wrap32_u32.
  assert (E : wrap32 (2147549184 + ty) = ty - 2147418112) by (unfold wrap32; lia).
  rewrite E. destruct (Z.ltb_spec (ty - 2147418112) 0); [|lia].
  replace (u32 (ty - 2147418112) / 65536 =? 32769) with true by (unfold u32; lia).
  cbn [negb].
  rewrite (app_assoc (b_i32 (Z.of_nat (length name)))).
  rewrite b_r_str_ok by assumption. rewrite b_r_i32_ok by assumption.
  replace (u32 (ty - 2147418112) mod 256) with ty by (unfold u32; lia). reflexivity.
Qed.

Theorem binary_ok : proto_ok binary.
Proof.
  constructor; cbn [binary PS w_sb w_se w_fb w_stop w_i32 w_i64 w_double w_str w_lb w_mb p_inside
                    e_fb e_stop e_i32 e_i64 e_double e_str e_lb e_mb r_fb r_i32 r_i64 r_double r_str r_lb r_mb].
  - intros p; reflexivity.
  - intros p l; reflexivity.
  - intros ty id p l; cbn [fst snd]. split; reflexivity.
  - reflexivity.
  - intro v; cbn [concat]; apply app_nil_r.
  - intro v; cbn [concat]; apply app_nil_r.
  - intro v; cbn [concat]; apply app_nil_r.
  - intro s; cbn [concat]; rewrite app_nil_r; reflexivity.
  - reflexivity.
  - reflexivity.
  - exact b_r_fb_ok.
  - intros last rest; reflexivity.
  - exact b_r_i32_ok.
  - exact b_r_i64_ok.
  - exact b_double_ok.
  - exact b_r_str_ok.
  - exact b_r_lb_ok.
  - exact b_r_mb_ok.
  - cbn; lia.
  - intros v Hv; reflexivity.
  - intros v w; reflexivity.
Qed.

(* every Binary encoding of an int64 or a double has 8 bytes: sizes do not depend on the values *)
Lemma binary_metric_size_values p a :
  mname p = mname a -> mtags p = mtags a ->
  length (e_metric binary p) = length (e_metric binary a).
Proof.
  intros En Et. unfold e_metric, e_value. rewrite En, Et. rewrite !app_length. reflexivity.
Qed.
