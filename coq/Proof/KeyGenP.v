(* Proofs about Model/KeyGen.v: the key is its canonical form (sorted keys,
   each once, value of the rightmost map), depends only on the effective
   binding function, and is injective on delimiter-free keys/values.
   The delimiters are opaque here: only Proof/ParamsOkKey.v is used. *)
From Coq Require Import ZArith List Bool Lia Permutation.
From Tally Require Import Base.ObsCore Model.KeyGen Proof.ParamsOkKey.
Import ListNotations.
Open Scope Z_scope.

Global Opaque PLUS COMMA EQS.

(* ------------------------------------------------------------------ *)
(* byte-string order *)

Lemma beq_eq a b : beq a b = true <-> a = b.
Proof. apply zs_eqb_spec. Qed.
Lemma beq_refl a : beq a a = true.
Proof. apply beq_eq; reflexivity. Qed.
Lemma beq_neq a b : beq a b = false <-> a <> b.
Proof.
  split; intro Hh.
  - intro E. apply beq_eq in E. congruence.
  - destruct (beq a b) eqn:E; auto. apply beq_eq in E. contradiction.
Qed.
Lemma beq_sym a b : beq a b = beq b a.
Proof.
  destruct (beq a b) eqn:E.
  - apply beq_eq in E. subst. symmetry. apply beq_refl.
  - symmetry. apply beq_neq. apply beq_neq in E. congruence.
Qed.

Lemma blt_irrefl a : blt a a = false.
Proof.
  induction a as [|x a IH]; cbn; auto.
  rewrite Z.ltb_irrefl, Z.eqb_refl, IH. reflexivity.
Qed.

Lemma blt_trans : forall a b c, blt a b = true -> blt b c = true -> blt a c = true.
Proof.
  induction a as [|x a IH]; intros [|y b] [|z c] H1 H2; cbn in *; try discriminate; auto.
  apply orb_true_iff in H1. apply orb_true_iff in H2. apply orb_true_iff.
  destruct H1 as [H1|H1], H2 as [H2|H2].
  - left. apply Z.ltb_lt in H1. apply Z.ltb_lt in H2. apply Z.ltb_lt. lia.
  - apply andb_true_iff in H2 as [H2 _]. apply Z.eqb_eq in H2. subst. left; auto.
  - apply andb_true_iff in H1 as [H1 _]. apply Z.eqb_eq in H1. subst. left; auto.
  - apply andb_true_iff in H1 as [H1 H1']. apply andb_true_iff in H2 as [H2 H2'].
    apply Z.eqb_eq in H1. apply Z.eqb_eq in H2. subst. right.
    rewrite Z.eqb_refl. cbn. eapply IH; eauto.
Qed.

Lemma blt_tri : forall a b, blt a b = true \/ a = b \/ blt b a = true.
Proof.
  induction a as [|x a IH]; intros [|y b]; cbn; auto.
  destruct (Z.lt_trichotomy x y) as [Hh|[Hh|Hh]].
  - left. apply orb_true_iff. left. apply Z.ltb_lt; auto.
  - subst. rewrite Z.ltb_irrefl, Z.eqb_refl. cbn.
    destruct (IH b) as [Hh|[Hh|Hh]]; auto. subst; auto.
  - right; right. apply orb_true_iff. left. apply Z.ltb_lt; auto.
Qed.

Lemma blt_asym a b : blt a b = true -> blt b a = false.
Proof.
  intro Hh. destruct (blt b a) eqn:E; auto.
  pose proof (blt_trans _ _ _ Hh E) as Hc. rewrite blt_irrefl in Hc. discriminate.
Qed.

Lemma blt_neq a b : blt a b = true -> a <> b.
Proof. intros Hh E. subst. rewrite blt_irrefl in Hh. discriminate. Qed.

(* a <= b *)
Definition ble (a b : bytes) : Prop := blt b a = false.

Lemma ble_refl a : ble a a.
Proof. apply blt_irrefl. Qed.
Lemma ble_trans a b c : ble a b -> ble b c -> ble a c.
Proof.
  unfold ble. intros H1 H2. destruct (blt c a) eqn:E; auto.
  destruct (blt_tri a b) as [Hh|[Hh|Hh]].
  - rewrite (blt_trans _ _ _ E Hh) in H2. discriminate.
  - subst. congruence.
  - congruence.
Qed.
Lemma ble_lt a b : ble a b -> a <> b -> blt a b = true.
Proof.
  unfold ble. intros H1 H2. destruct (blt_tri a b) as [Hh|[Hh|Hh]]; auto; congruence.
Qed.
Lemma blt_ble a b : blt a b = true -> ble a b.
Proof. apply blt_asym. Qed.
Lemma blt_ble_trans a b c : blt a b = true -> ble b c -> blt a c = true.
Proof.
  intros H1 H2. destruct (blt_tri b c) as [Hh|[Hh|Hh]].
  - eapply blt_trans; eauto.
  - subst; auto.
  - unfold ble in H2. congruence.
Qed.

(* ------------------------------------------------------------------ *)
(* insertion sort *)

(* descending (head is the largest): the reversed sorted part *)
Fixpoint desc (l : list bytes) : Prop :=
  match l with
  | [] => True
  | x :: r => match r with [] => True | y :: _ => ble y x end /\ desc r
  end.
Fixpoint asc (l : list bytes) : Prop :=
  match l with
  | [] => True
  | x :: r => match r with [] => True | y :: _ => ble x y end /\ asc r
  end.

Lemma ins_in x l y : In y (ins x l) <-> y = x \/ In y l.
Proof.
  induction l as [|z l IH]; cbn.
  - intuition.
  - destruct (blt x z); cbn; rewrite ?IH; intuition.
Qed.

Lemma ins_desc x l : desc l -> desc (ins x l).
Proof.
  induction l as [|z l IH]; intro Hd.
  - cbn. auto.
  - cbn [ins]. destruct (blt x z) eqn:E.
    + destruct Hd as [Hz Hd]. specialize (IH Hd). split; auto.
      destruct l as [|w l].
      * cbn. apply blt_ble; auto.
      * cbn [ins] in *. destruct (blt x w); auto. apply blt_ble; auto.
    + split; auto.
Qed.

Lemma fold_ins_desc keys : forall acc, desc acc -> desc (fold_left (fun acc x => ins x acc) keys acc).
Proof. induction keys as [|k r IH]; intros acc Hd; cbn; auto. apply IH. apply ins_desc; auto. Qed.

Lemma fold_ins_in keys : forall acc y,
  In y (fold_left (fun acc x => ins x acc) keys acc) <-> In y keys \/ In y acc.
Proof.
  induction keys as [|k r IH]; intros acc y; cbn.
  - intuition.
  - rewrite IH, ins_in. intuition.
Qed.

Lemma asc_app_one l x : asc l -> (forall y, In y l -> ble y x) -> asc (l ++ [x]).
Proof.
  induction l as [|a l IH]; intros Ha Hx; cbn; auto.
  destruct Ha as [Ha1 Ha2]. split.
  - destruct l as [|b l]; cbn; auto. apply Hx; left; auto.
  - apply IH; auto. intros y Hy. apply Hx; right; auto.
Qed.

Lemma desc_head_ge l x : desc (x :: l) -> forall y, In y l -> ble y x.
Proof.
  revert x. induction l as [|a l IH]; intros x Hd y Hy; [destruct Hy|].
  destruct Hd as [Hax Hd]. destruct Hy as [->|Hy]; auto.
  eapply ble_trans; [apply (IH a Hd y Hy) | auto].
Qed.

Lemma asc_head_le l x : asc (x :: l) -> forall y, In y l -> ble x y.
Proof.
  revert x. induction l as [|a l IH]; intros x Hd y Hy; [destruct Hy|].
  destruct Hd as [Hax Hd]. destruct Hy as [->|Hy]; auto.
  eapply ble_trans; [apply Hax | apply (IH a Hd y Hy)].
Qed.

Lemma desc_rev_asc l : desc l -> asc (List.rev l).
Proof.
  induction l as [|x l IH]; intro Hd; cbn; auto.
  apply asc_app_one.
  - apply IH. destruct Hd; auto.
  - intros y Hy. apply in_rev in Hy. eapply desc_head_ge; eauto.
Qed.

Lemma isort_asc keys : asc (isort keys).
Proof. unfold isort. apply desc_rev_asc. apply fold_ins_desc. exact I. Qed.

Lemma isort_in keys y : In y (isort keys) <-> In y keys.
Proof.
  unfold isort. rewrite <- in_rev, fold_ins_in. cbn. intuition.
Qed.

(* ------------------------------------------------------------------ *)
(* duplicate suppression over a sorted list *)

Lemma ssorted_tail x l : ssorted (x :: l) -> ssorted l.
Proof. intros [_ Hh]; auto. Qed.

Lemma dedup_some l0 : forall l, asc (l0 :: l) ->
  ssorted (l0 :: dedup (Some l0) l) /\
  (forall x, In x (dedup (Some l0) l) <-> In x l /\ x <> l0).
Proof.
  intro l. revert l0. induction l as [|k r IH]; intros l0 Ha.
  - cbn. split; [auto | intuition].
  - cbn [dedup]. destruct Ha as [Hk Ha]. destruct (beq k l0) eqn:E.
    + apply beq_eq in E. subst k. destruct (IH l0) as [S1 S2].
      { split; auto. destruct r as [|w r]; auto. destruct Ha as [Hw _]. auto. destruct Ha; auto. }
      split; auto. intro x. rewrite S2. cbn. intuition. congruence.
    + apply beq_neq in E. destruct (IH k Ha) as [S1 S2]. split.
      * split; auto. apply ble_lt; auto.
      * intro x. cbn. rewrite S2. split.
        -- intros [->|[Hx Hn]]; split; auto.
           intro Ex. subst x. pose proof (asc_head_le _ _ Ha _ Hx) as Hle.
           assert (Hlt : blt l0 k = true) by (apply ble_lt; auto).
           unfold ble in Hle. congruence.
        -- intros [[->|Hx] Hn]; auto.
           destruct (beq x k) eqn:Ex; [apply beq_eq in Ex; auto | apply beq_neq in Ex; auto].
Qed.

Lemma dedup_none l : asc l ->
  ssorted (dedup None l) /\ (forall x, In x (dedup None l) <-> In x l).
Proof.
  destruct l as [|k r]; intro Ha; cbn [dedup].
  - cbn. intuition.
  - destruct (dedup_some k r Ha) as [S1 S2]. split; auto.
    intro x. cbn. rewrite S2. split.
    + intros [->|[Hx _]]; auto.
    + intros [->|Hx]; auto.
      destruct (beq x k) eqn:Ex; [apply beq_eq in Ex; auto | apply beq_neq in Ex; auto].
Qed.

Lemma ssorted_head_lt l x : ssorted (x :: l) -> forall y, In y l -> blt x y = true.
Proof.
  revert x. induction l as [|a l IH]; intros x Hs y Hy; [destruct Hy|].
  destruct Hs as [Hxa Hs]. destruct Hy as [->|Hy]; auto.
  eapply blt_trans; [apply Hxa | apply (IH a Hs y Hy)].
Qed.

(* a strictly increasing list is determined by its members *)
Lemma ssorted_unique : forall l l', ssorted l -> ssorted l' ->
  (forall x, In x l <-> In x l') -> l = l'.
Proof.
  induction l as [|x l IH]; intros [|x' l'] Hs Hs' Hm.
  - reflexivity.
  - exfalso. apply (proj2 (Hm x')). left; auto.
  - exfalso. apply (proj1 (Hm x)). left; auto.
  - assert (Ex : x = x').
    { destruct (proj1 (Hm x) (or_introl eq_refl)) as [E|Hi]; auto.
      destruct (proj2 (Hm x') (or_introl eq_refl)) as [E|Hi']; auto.
      pose proof (ssorted_head_lt _ _ Hs' _ Hi) as H1.
      pose proof (ssorted_head_lt _ _ Hs _ Hi') as H2.
      rewrite (blt_asym _ _ H1) in H2. discriminate. }
    subst x'. f_equal. apply IH.
    + eapply ssorted_tail; eauto.
    + eapply ssorted_tail; eauto.
    + intro y. split; intro Hy.
      * destruct (proj1 (Hm y) (or_intror Hy)) as [E|Hi]; auto.
        subst y. pose proof (ssorted_head_lt _ _ Hs _ Hy) as Hc. rewrite blt_irrefl in Hc. discriminate.
      * destruct (proj2 (Hm y) (or_intror Hy)) as [E|Hi]; auto.
        subst y. pose proof (ssorted_head_lt _ _ Hs' _ Hy) as Hc. rewrite blt_irrefl in Hc. discriminate.
Qed.

Lemma canon_keys_sorted maps : ssorted (canon_keys maps).
Proof. unfold canon_keys. apply dedup_none. apply isort_asc. Qed.

Lemma canon_keys_in maps k : In k (canon_keys maps) <-> In k (keys_of maps).
Proof.
  unfold canon_keys. destruct (dedup_none (isort (keys_of maps)) (isort_asc _)) as [_ Hh].
  rewrite Hh. apply isort_in.
Qed.

(* ------------------------------------------------------------------ *)
(* lookup, effective bindings *)

Lemma lookup_none k m : lookup k m = None <-> ~ In k (map fst m).
Proof.
  induction m as [|[k' v] m IH]; cbn.
  - intuition.
  - destruct (beq k k') eqn:E.
    + apply beq_eq in E. subst. split; [discriminate | intro Hh; exfalso; apply Hh; auto].
    + apply beq_neq in E. rewrite IH. intuition.
Qed.

Lemma lookup_some_in k v m : lookup k m = Some v -> In (k, v) m.
Proof.
  induction m as [|[k' v'] m IH]; cbn; [discriminate|].
  destruct (beq k k') eqn:E.
  - apply beq_eq in E. subst. intro Hh. inversion Hh. auto.
  - auto.
Qed.

Lemma lookup_in_wf k v m : wf_map m -> In (k, v) m -> lookup k m = Some v.
Proof.
  unfold wf_map. induction m as [|[k' v'] m IH]; cbn; intros Hw Hi; [destruct Hi|].
  inversion Hw as [|? ? Hn Hw']; subst. destruct Hi as [Hi|Hi].
  - inversion Hi; subst. rewrite beq_refl. reflexivity.
  - destruct (beq k k') eqn:E.
    + apply beq_eq in E. subst. exfalso. apply Hn. apply in_map_iff. exists (k', v). auto.
    + auto.
Qed.

Lemma eff_r_none rm k : eff_r rm k = None <-> forall m, In m rm -> lookup k m = None.
Proof.
  induction rm as [|m rm IH]; cbn.
  - intuition.
  - destruct (lookup k m) eqn:E.
    + split; [discriminate|]. intro Hh. rewrite (Hh m (or_introl eq_refl)) in E. discriminate.
    + rewrite IH. split.
      * intros Hh m' [<-|Hi]; auto.
      * intros Hh m' Hi. apply Hh; auto.
Qed.

Lemma eff_r_some rm k v : eff_r rm k = Some v -> exists m, In m rm /\ lookup k m = Some v.
Proof.
  induction rm as [|m rm IH]; cbn; [discriminate|].
  destruct (lookup k m) eqn:E.
  - intro Hh. inversion Hh; subst. exists m; auto.
  - intro Hh. destruct (IH Hh) as [m' [Hi Hl]]. exists m'; auto.
Qed.

Lemma keys_of_in maps k : In k (keys_of maps) <-> exists m, In m maps /\ In k (map fst m).
Proof. unfold keys_of. rewrite in_flat_map. reflexivity. Qed.

Lemma eff_dom maps k : In k (keys_of maps) <-> eff maps k <> None.
Proof.
  unfold eff. rewrite keys_of_in. split.
  - intros [m [Hi Hk]] Hn. rewrite eff_r_none in Hn.
    specialize (Hn m (proj1 (in_rev _ _) Hi)). apply lookup_none in Hn. contradiction.
  - intro Hn. destruct (eff_r (List.rev maps) k) eqn:E; [|congruence].
    apply eff_r_some in E as [m [Hi Hl]]. exists m. split; [apply in_rev; auto|].
    destruct (lookup k m) eqn:E2; [|discriminate].
    apply lookup_some_in in E2. apply in_map_iff. exists (k, b0). auto.
Qed.

Lemma eff_snoc maps m k :
  eff (maps ++ [m]) k = match lookup k m with Some v => Some v | None => eff maps k end.
Proof. unfold eff. rewrite rev_app_distr. cbn. reflexivity. Qed.

Lemma eff_nil k : eff [] k = None.
Proof. reflexivity. Qed.

Lemma eff_one m k : eff [m] k = lookup k m.
Proof. unfold eff. cbn. destruct (lookup k m); reflexivity. Qed.

Lemma value_of_eff rm k : value_of k rm = opt_bytes (eff_r rm k).
Proof.
  induction rm as [|m rm IH]; cbn; auto. destruct (lookup k m); cbn; auto.
Qed.

(* ------------------------------------------------------------------ *)
(* the write loop produces the canonical form *)

Lemma join_cons x l : join (x :: l) = x ++ flat_map (fun y => COMMA :: y) l.
Proof.
  revert x. induction l as [|y l IH]; intro x.
  - cbn. rewrite app_nil_r. reflexivity.
  - change (join (x :: y :: l)) with (x ++ COMMA :: join (y :: l)). rewrite IH. cbn. reflexivity.
Qed.

Lemma kwrite_some rm l keys :
  kwrite rm (Some l) keys =
  flat_map (fun y => COMMA :: y) (map (fun k => item (k, value_of k rm)) (dedup (Some l) keys)).
Proof.
  revert l. induction keys as [|k r IH]; intro l; cbn [kwrite dedup].
  - reflexivity.
  - destruct (beq k l); [apply IH|].
    cbn [map flat_map]. rewrite IH. unfold item. cbn [fst snd].
    cbn [app]. rewrite <- app_assoc. cbn [app]. reflexivity.
Qed.

Lemma kwrite_none rm keys :
  kwrite rm None keys = join (map (fun k => item (k, value_of k rm)) (dedup None keys)).
Proof.
  destruct keys as [|k r]; cbn [kwrite dedup map]; [reflexivity|].
  rewrite join_cons, kwrite_some. unfold item. cbn [fst snd]. rewrite <- app_assoc. reflexivity.
Qed.

Lemma key_is_spec p maps : key p maps = key_spec p maps.
Proof.
  unfold key, key_spec, canon, canon_keys. rewrite kwrite_none. f_equal. f_equal.
  rewrite map_map. apply map_ext. intro k. unfold eff. rewrite value_of_eff. reflexivity.
Qed.

(* the key depends only on the prefix and the effective binding function *)
Lemma canon_ext maps maps' : (forall k, eff maps k = eff maps' k) -> canon maps = canon maps'.
Proof.
  intro He. unfold canon.
  assert (Ek : canon_keys maps = canon_keys maps').
  { apply ssorted_unique; try apply canon_keys_sorted.
    intro x. rewrite !canon_keys_in, !eff_dom, He. reflexivity. }
  rewrite Ek. apply map_ext. intro k. rewrite He. reflexivity.
Qed.

Lemma key_eff_ext p maps maps' : (forall k, eff maps k = eff maps' k) -> key p maps = key p maps'.
Proof. intro He. rewrite !key_is_spec. unfold key_spec. rewrite (canon_ext _ _ He). reflexivity. Qed.

(* ------------------------------------------------------------------ *)
(* enumeration order of each map is irrelevant *)

Lemma lookup_perm m m' k : wf_map m -> Permutation m m' -> lookup k m = lookup k m'.
Proof.
  intros Hw Hp.
  assert (Hw' : wf_map m').
  { unfold wf_map in *. eapply Permutation_NoDup; [apply Permutation_map; eauto | auto]. }
  destruct (lookup k m) eqn:E.
  - symmetry. apply lookup_in_wf; auto. eapply Permutation_in; eauto. apply lookup_some_in; auto.
  - symmetry. apply lookup_none. apply lookup_none in E. intro Hi. apply E.
    eapply Permutation_in; [apply Permutation_sym; apply Permutation_map; eauto | auto].
Qed.

Lemma eff_r_app a b k :
  eff_r (a ++ b) k = match eff_r a k with Some v => Some v | None => eff_r b k end.
Proof.
  induction a as [|m a IH]; cbn; auto. destruct (lookup k m); auto.
Qed.

Lemma eff_cons m ms k :
  eff (m :: ms) k = match eff ms k with Some v => Some v | None => lookup k m end.
Proof.
  unfold eff. cbn [List.rev]. rewrite eff_r_app. cbn. destruct (lookup k m); reflexivity.
Qed.

Lemma eff_perm maps maps' k :
  Forall wf_map maps -> Forall2 (@Permutation _) maps maps' -> eff maps k = eff maps' k.
Proof.
  intros Hw Hp. revert Hw. induction Hp as [|m m' ms ms' Hm Hp IH]; intro Hw; auto.
  inversion Hw as [|? ? Hwm Hws]; subst.
  rewrite !eff_cons, (IH Hws), (lookup_perm _ _ k Hwm Hm). reflexivity.
Qed.

Lemma key_perm_invariant p maps maps' :
  Forall wf_map maps -> Forall2 (@Permutation _) maps maps' -> key p maps = key p maps'.
Proof. intros Hw Hp. apply key_eff_ext. intro k. apply eff_perm; auto. Qed.

(* ------------------------------------------------------------------ *)
(* set_tag, overlay (mergeRightTags), merge *)

Lemma lookup_set_tag k k' v m : lookup k (set_tag k' v m) = if beq k k' then Some v else lookup k m.
Proof.
  induction m as [|[a b] m IH]; cbn.
  - reflexivity.
  - destruct (beq k' a) eqn:E; cbn.
    + apply beq_eq in E. subst. destruct (beq k a); reflexivity.
    + rewrite IH. destruct (beq k a) eqn:E2; auto.
      destruct (beq k k') eqn:E3; auto.
      apply beq_eq in E2. apply beq_eq in E3. subst. rewrite beq_refl in E. discriminate.
Qed.

Lemma set_tag_keys k v m x : In x (map fst (set_tag k v m)) <-> x = k \/ In x (map fst m).
Proof.
  induction m as [|[a b] m IH]; cbn.
  - intuition.
  - destruct (beq k a) eqn:E; cbn.
    + apply beq_eq in E. subst. intuition.
    + rewrite IH. intuition.
Qed.

Lemma set_tag_wf k v m : wf_map m -> wf_map (set_tag k v m).
Proof.
  unfold wf_map. induction m as [|[a b] m IH]; cbn; intro Hw.
  - constructor; [intros [] | constructor].
  - inversion Hw as [|? ? Hn Hw']; subst. destruct (beq k a) eqn:E; cbn.
    + apply beq_eq in E. subst. constructor; auto.
    + constructor; auto. intro Hi. apply set_tag_keys in Hi as [Hi|Hi]; auto.
      subst. rewrite beq_refl in E. discriminate.
Qed.

Lemma set_tag_in k v m kv : In kv (set_tag k v m) -> kv = (k, v) \/ In kv m.
Proof.
  induction m as [|[a b] m IH]; cbn.
  - intuition.
  - destruct (beq k a); cbn; intuition.
Qed.

Lemma overlay_lookup r : forall l k, wf_map r ->
  lookup k (overlay l r) = match lookup k r with Some v => Some v | None => lookup k l end.
Proof.
  unfold overlay. induction r as [|[k' v'] r IH]; intros l k Hw; cbn [fold_left lookup fst snd].
  - reflexivity.
  - inversion Hw as [|? ? Hn Hw']; subst. rewrite (IH _ _ Hw'), lookup_set_tag.
    destruct (beq k k') eqn:E.
    + apply beq_eq in E. subst. destruct (lookup k' r) eqn:E2; auto.
      exfalso. apply Hn. apply lookup_some_in in E2. apply in_map_iff. exists (k', b). auto.
    + reflexivity.
Qed.

Lemma overlay_wf r : forall l, wf_map l -> wf_map (overlay l r).
Proof.
  unfold overlay. induction r as [|[k' v'] r IH]; intros l Hw; cbn; auto.
  apply IH. apply set_tag_wf; auto.
Qed.

Lemma overlay_in r : forall l kv, In kv (overlay l r) -> In kv l \/ In kv r.
Proof.
  unfold overlay. induction r as [|[k' v'] r IH]; intros l kv Hi; cbn in *; auto.
  apply IH in Hi as [Hi|Hi]; auto. apply set_tag_in in Hi as [Hi|Hi]; auto.
Qed.

Lemma merge_wf maps : wf_map (merge maps).
Proof.
  unfold merge. assert (Hg : forall acc, wf_map acc -> wf_map (fold_left overlay maps acc)).
  { induction maps as [|m ms IH]; intros acc Ha; cbn; auto. apply IH. apply overlay_wf; auto. }
  apply Hg. constructor.
Qed.

Lemma merge_snoc maps m : merge (maps ++ [m]) = overlay (merge maps) m.
Proof. unfold merge. rewrite fold_left_app. reflexivity. Qed.

Lemma merge_lookup maps : Forall wf_map maps -> forall k, lookup k (merge maps) = eff maps k.
Proof.
  induction maps as [|m ms IH] using rev_ind; intros Hw k.
  - reflexivity.
  - apply Forall_app in Hw as [Hws Hwm]. inversion Hwm; subst.
    rewrite merge_snoc, eff_snoc, overlay_lookup, (IH Hws); auto.
Qed.

Lemma key_merged p maps : Forall wf_map maps -> key p maps = key p [merge maps].
Proof.
  intro Hw. apply key_eff_ext. intro k. rewrite eff_one, merge_lookup; auto.
Qed.

(* ------------------------------------------------------------------ *)
(* injectivity of the format (after Appendix G of DESIGN.md, with weaker
   hypotheses: the prefix is arbitrary, values may contain '=') *)

Definition kclean (s : bytes) : Prop := ~ In PLUS s /\ ~ In COMMA s /\ ~ In EQS s.
Definition vclean (s : bytes) : Prop := ~ In PLUS s /\ ~ In COMMA s.
Definition clean_kv (kv : bytes * bytes) : Prop := kclean (fst kv) /\ vclean (snd kv).
Definition clean_map (m : smap) : Prop := Forall clean_kv m.

Lemma split_first (d : Z) : forall a a' b b' : bytes,
  ~ In d a -> ~ In d a' -> a ++ d :: b = a' ++ d :: b' -> a = a' /\ b = b'.
Proof.
  induction a as [|x a IH]; intros [|x' a'] b b' Ha Ha' E; cbn in *.
  - inversion E; auto.
  - inversion E; subst. exfalso; apply Ha'; auto.
  - inversion E; subst. exfalso; apply Ha; auto.
  - inversion E; subst. destruct (IH a' b b') as [-> ->]; auto.
Qed.

(* splitting at the last occurrence *)
Lemma split_last (d : Z) : forall a a' b b' : bytes,
  ~ In d b -> ~ In d b' -> a ++ d :: b = a' ++ d :: b' -> a = a' /\ b = b'.
Proof.
  induction a as [|x a IH]; intros [|x' a'] b b' Hb Hb' E; cbn in *.
  - inversion E; auto.
  - inversion E; subst. exfalso. apply Hb. apply in_or_app. right. left. reflexivity.
  - inversion E; subst. exfalso. apply Hb'. apply in_or_app. right. left. reflexivity.
  - inversion E; subst. destruct (IH a' b b') as [-> ->]; auto.
Qed.

Lemma notin_app (d : Z) (a b : bytes) : ~ In d a -> ~ In d b -> ~ In d (a ++ b).
Proof. intros Ha Hb Hh. apply in_app_or in Hh as [Hh|Hh]; auto. Qed.

Lemma item_no (d : Z) kv : d <> EQS -> ~ In d (fst kv) -> ~ In d (snd kv) -> ~ In d (item kv).
Proof.
  intros N1 A B. unfold item. apply notin_app; auto. intros [Hh|Hh]; auto.
Qed.

Lemma item_inj kv kv' : clean_kv kv -> clean_kv kv' -> item kv = item kv' -> kv = kv'.
Proof.
  destruct kv as [k v], kv' as [k' v']. unfold clean_kv, kclean, item; cbn.
  intros [(_ & _ & A) _] [(_ & _ & A') _] E.
  destruct (split_first EQS k k' v v') as [-> ->]; auto.
Qed.

Lemma item_nonempty kv : item kv <> [].
Proof. unfold item. destruct (fst kv); discriminate. Qed.

Lemma join_no (d : Z) l : d <> COMMA -> (forall x, In x l -> ~ In d x) -> ~ In d (join l).
Proof.
  intros N1. induction l as [|x [|y r] IH]; intros Hh; cbn [join].
  - intros [].
  - apply Hh; left; auto.
  - apply notin_app. { apply Hh; left; auto. }
    intros [E|E]; [congruence|]. revert E. apply IH. intros z Hz. apply Hh. right; auto.
Qed.

Lemma join_inj : forall l l' : list bytes,
  (forall x, In x l -> ~ In COMMA x /\ x <> []) -> (forall x, In x l' -> ~ In COMMA x /\ x <> []) ->
  join l = join l' -> l = l'.
Proof.
  induction l as [|x r IH]; intros l' Hl Hl' E.
  - destruct l' as [|x' [|y' r']]; auto; cbn [join] in E.
    + destruct (Hl' x' (or_introl eq_refl)) as [_ Q]. congruence.
    + destruct x'; [destruct (Hl' [] (or_introl eq_refl)) as [_ Q]; congruence | discriminate].
  - destruct l' as [|x' r'].
    + destruct r as [|y r]; cbn [join] in E.
      * destruct (Hl x (or_introl eq_refl)) as [_ Q]. congruence.
      * destruct x; [destruct (Hl [] (or_introl eq_refl)) as [_ Q]; congruence | discriminate].
    + assert (Hx : ~ In COMMA x) by (apply Hl; left; auto).
      assert (Hx' : ~ In COMMA x') by (apply Hl'; left; auto).
      assert (Hr : forall z, In z r -> ~ In COMMA z /\ z <> []) by (intros; apply Hl; right; auto).
      assert (Hr' : forall z, In z r' -> ~ In COMMA z /\ z <> []) by (intros; apply Hl'; right; auto).
      destruct r as [|y r], r' as [|y' r']; cbn [join] in E.
      * congruence.
      * exfalso. apply Hx. rewrite E. apply in_or_app; right; left; auto.
      * exfalso. apply Hx'. rewrite <- E. apply in_or_app; right; left; auto.
      * destruct (split_first COMMA x x' (join (y :: r)) (join (y' :: r'))) as [-> E2]; auto.
        f_equal. apply IH; auto.
Qed.

Lemma map_item_inj l l' : Forall clean_kv l -> Forall clean_kv l' -> map item l = map item l' -> l = l'.
Proof.
  revert l'; induction l as [|a l IH]; intros [|a' l'] F F' E; cbn in E; try discriminate; auto.
  inversion E. inversion F; inversion F'; subst. f_equal; auto. apply item_inj; auto.
Qed.

(* string level: the format determines the prefix and the binding list *)
Lemma format_injective p p' kvs kvs' :
  Forall clean_kv kvs -> Forall clean_kv kvs' ->
  kprefix p ++ join (map item kvs) = kprefix p' ++ join (map item kvs') -> p = p' /\ kvs = kvs'.
Proof.
  intros F F' E.
  assert (J : forall l, Forall clean_kv l -> ~ In PLUS (join (map item l))).
  { intros l Fl. apply join_no; [exact plus_ne_comma|]. intros x Hx.
    apply in_map_iff in Hx as [kv [<- Hk]].
    rewrite Forall_forall in Fl. destruct (Fl kv Hk) as [(A & _) (B & _)].
    apply item_no; auto. exact plus_ne_eqs. }
  assert (K : forall l, Forall clean_kv l -> forall x, In x (map item l) -> ~ In COMMA x /\ x <> []).
  { intros l Fl x Hx. apply in_map_iff in Hx as [kv [<- Hk]]. rewrite Forall_forall in Fl.
    destruct (Fl kv Hk) as [(_ & A & _) (_ & B)].
    split; [apply item_no; auto; exact comma_ne_eqs | apply item_nonempty]. }
  unfold kprefix in E. destruct p as [|c p], p' as [|c' p'].
  - split; auto. cbn in E. apply map_item_inj; auto. apply join_inj; auto; apply K; auto.
  - exfalso. apply (J kvs F). cbn [app] in E. rewrite E.
    rewrite <- app_assoc. cbn [app]. right. apply in_or_app. right. left. reflexivity.
  - exfalso. apply (J kvs' F'). cbn [app] in E. rewrite <- E.
    rewrite <- app_assoc. cbn [app]. right. apply in_or_app. right. left. reflexivity.
  - rewrite <- !app_assoc in E. cbn [app] in E.
    change (c :: p ++ PLUS :: join (map item kvs)) with ((c :: p) ++ PLUS :: join (map item kvs)) in E.
    change (c' :: p' ++ PLUS :: join (map item kvs')) with ((c' :: p') ++ PLUS :: join (map item kvs')) in E.
    destruct (split_last PLUS (c :: p) (c' :: p') (join (map item kvs)) (join (map item kvs'))) as [-> E2]; auto.
    split; auto. apply map_item_inj; auto. apply join_inj; auto; apply K; auto.
Qed.

Lemma vclean_nil : vclean [].
Proof. split; intros []. Qed.

Lemma canon_clean maps : Forall clean_map maps -> Forall clean_kv (canon maps).
Proof.
  intro Hc. unfold canon. apply Forall_forall. intros kv Hi.
  apply in_map_iff in Hi as [k [<- Hk]]. apply canon_keys_in in Hk.
  split; cbn [fst snd].
  - apply keys_of_in in Hk as [m [Hm Hk]]. rewrite Forall_forall in Hc. specialize (Hc m Hm).
    apply in_map_iff in Hk as [[k' v] [<- Hkv]]. unfold clean_map in Hc.
    rewrite Forall_forall in Hc. apply (Hc _ Hkv).
  - unfold eff. destruct (eff_r (List.rev maps) k) eqn:E; cbn; [|apply vclean_nil].
    apply eff_r_some in E as [m [Hm Hl]]. apply in_rev in Hm. apply lookup_some_in in Hl.
    rewrite Forall_forall in Hc. specialize (Hc m Hm). unfold clean_map in Hc.
    rewrite Forall_forall in Hc. apply (Hc _ Hl).
Qed.

Lemma canon_eff maps maps' :
  canon maps = canon maps' -> forall k, eff maps k = eff maps' k.
Proof.
  intros E k.
  assert (Ek : canon_keys maps = canon_keys maps').
  { assert (Hm : forall ms, map fst (canon ms) = canon_keys ms).
    { intro ms. unfold canon. rewrite map_map. cbn. apply map_id. }
    rewrite <- !Hm, E. reflexivity. }
  destruct (in_dec (list_eq_dec Z.eq_dec) k (canon_keys maps)) as [Hi|Hn].
  - assert (Hi' : In k (canon_keys maps')) by (rewrite <- Ek; auto).
    pose proof (proj1 (eff_dom _ _) (proj1 (canon_keys_in _ _) Hi)) as H1.
    pose proof (proj1 (eff_dom _ _) (proj1 (canon_keys_in _ _) Hi')) as H2.
    assert (Hv : In (k, opt_bytes (eff maps k)) (canon maps')).
    { rewrite <- E. unfold canon. apply in_map_iff. exists k; auto. }
    unfold canon in Hv. apply in_map_iff in Hv as [k' [Hv Hk']]. inversion Hv; subst k'.
    destruct (eff maps k), (eff maps' k); try congruence. cbn in *. congruence.
  - assert (Hn' : ~ In k (canon_keys maps')) by (rewrite <- Ek; auto).
    rewrite canon_keys_in, eff_dom in Hn, Hn'.
    destruct (eff maps k), (eff maps' k); auto; try (exfalso; apply Hn; discriminate);
      try (exfalso; apply Hn'; discriminate).
Qed.

Lemma key_injective p p' maps maps' :
  Forall clean_map maps -> Forall clean_map maps' ->
  key p maps = key p' maps' -> p = p' /\ forall k, eff maps k = eff maps' k.
Proof.
  intros Hc Hc' E. rewrite !key_is_spec in E. unfold key_spec in E.
  apply format_injective in E as [Ep Ec]; try apply canon_clean; auto.
  split; auto. apply canon_eff; auto.
Qed.

(* on maps without the empty key the pinned loop and the repaired one agree *)
Lemma kwrite_pinned_some rm l keys : l <> [] -> ~ In [] keys ->
  kwrite_pinned rm l keys = kwrite rm (Some l) keys.
Proof.
  revert l. induction keys as [|k r IH]; intros l Hl Hn; cbn [kwrite kwrite_pinned]; auto.
  destruct l as [|c l]; [congruence|].
  destruct (beq k (c :: l)).
  - apply IH; auto. intro Hi. apply Hn. right; auto.
  - rewrite IH; auto.
    + intro E. apply Hn. left; auto.
    + intro Hi. apply Hn. right; auto.
Qed.

Lemma key_pinned_nonempty p maps : ~ In [] (keys_of maps) -> key_pinned p maps = key p maps.
Proof.
  intro Hn. unfold key_pinned, key. f_equal.
  assert (Hs : ~ In [] (isort (keys_of maps))) by (rewrite isort_in; auto).
  destruct (isort (keys_of maps)) as [|k r]; cbn [kwrite kwrite_pinned]; auto.
  rewrite kwrite_pinned_some; auto.
  - intro E. apply Hs. left; auto.
  - intro Hi. apply Hs. right; auto.
Qed.
