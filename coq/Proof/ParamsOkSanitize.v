(* Obligations on the shipped sanitizer tables (Gen/Params.v, regenerated from
   sanitize.go on every run) that the C06 theorems lean on; an edit of the
   tables that invalidates one of them breaks this file. *)
From Coq Require Import ZArith List Lia Bool.
From Tally Require Import Gen.Params Model.Utf8 Proof.Utf8P Model.Sanitize Proof.SanitizeP Model.SanScope.
Import ListNotations.
Open Scope Z_scope.

(* ranges are well formed (lo <= hi) and hold valid runes only *)
Lemma alphanumeric_ranges_wf :
  Forall (fun p => fst p <= snd p /\ valid_rune (fst p) = true /\ valid_rune (snd p) = true) alphanumeric_ranges.
Proof. repeat constructor; cbn; lia. Qed.

(* AlphanumericRange is exactly a-z, A-Z, 0-9: both end points inclusive, neighbours excluded *)
Lemma alphanumeric_exact r :
  allowedb alphanumeric_ranges [] r = true <-> (97 <= r <= 122 \/ 65 <= r <= 90 \/ 48 <= r <= 57).
Proof.
  rewrite allowedb_spec. unfold alphanumeric_ranges. cbn [In]. split.
  - intros [[p [Hin Hr]]|[]]. destruct Hin as [<-|[<-|[<-|[]]]]; cbn [fst snd] in Hr; lia.
  - intros Hh. left. destruct Hh as [Hh|[Hh|Hh]];
      [exists (97, 122)|exists (65, 90)|exists (48, 57)]; cbn [fst snd]; auto 6.
Qed.

Definition all_kinds : list skind := [KName; KKey; KValue].

(* the default replacement rune is a valid rune and is allowed by every table
   of every shipped configuration: shipped sanitizers emit allowed runes only *)
Lemma shipped_replacement_allowed :
  Forall (fun o => valid_rune (so_rep o) = true /\
                   Forall (fun k => allowed_of o k (so_rep o) = true) all_kinds) shipped_opts.
Proof. repeat constructor. Qed.

(* every character a shipped table allows is ASCII: U+FFFD is never allowed
   (the F06b region is unreachable with shipped tables), nor are the registry
   key delimiters '+' ',' '=' *)
Lemma shipped_allowed_ascii o k r :
  In o shipped_opts -> In k all_kinds -> allowed_of o k r = true ->
  0 <= r < 128 /\ r <> 43 /\ r <> 44 /\ r <> 61.
Proof.
  intros Ho Hk Ha. unfold allowed_of in Ha. apply allowedb_spec in Ha.
  cbn in Ho, Hk.
  destruct Ho as [<-|[<-|[<-|[<-|[<-|[]]]]]]; destruct Hk as [<-|[<-|[<-|[]]]];
    cbn in Ha;
    destruct Ha as [[p [Hin Hr]]|Hin];
    repeat match goal with
           | H : _ \/ _ |- _ => destruct H
           | H : False |- _ => destruct H
           | H : (_, _) = p |- _ => subst p; cbn [fst snd] in Hr
           end; lia.
Qed.

(* the constants the scope model concatenates are byte strings *)
Lemma scope_constants_bytes :
  is_bytes tally_version = true /\ is_bytes default_separator = true.
Proof. split; reflexivity. Qed.

(* which built-in cardinality tags are already clean under the shipped tables:
   m3 allows '.', so version = "4.1.17" passes; prometheus does not (F06a) *)
Lemma version_clean_m3 :
  sanitize_gen true (allowed_of m3_default_opts KValue) (so_rep m3_default_opts) tally_version = tally_version.
Proof. vm_compute. reflexivity. Qed.

(* consequence: a shipped sanitizer's output consists of allowed runes only *)
Theorem shipped_output_all_allowed o k s :
  In o shipped_opts -> is_bytes s = true ->
  Forall (fun r => allowed_of o k r = true) (runes (san (Some o) k s)).
Proof.
  intros Ho HB. pose proof shipped_replacement_allowed as Hs.
  rewrite Forall_forall in Hs. destruct (Hs o Ho) as [V Hk].
  assert (Hrep : allowed_of o k (so_rep o) = true).
  { rewrite Forall_forall in Hk. apply Hk. destruct k; cbn; auto. }
  cbn [san san_gen]. eapply Forall_impl; [|apply output_allowed; exact HB].
  intros r [Ha| ->]; [exact Ha|]. rewrite (norm_valid _ V). exact Hrep.
Qed.
