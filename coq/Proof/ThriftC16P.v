(* Proofs of the C16 property theorems for the two concrete protocols:
   instances of the generic results of Proof/ThriftP.v with compact_ok and
   binary_ok.  Props/C16.v states them. *)
From Coq Require Import ZArith List Bool Lia.
From Tally Require Import Base.ObsCore Model.Varint Model.Thrift
  Proof.VarintP Proof.ThriftP Proof.ThriftCompactP Proof.ThriftBinaryP.
Import ListNotations.
Open Scope Z_scope.

Lemma roundtrip_compact_thm : forall p seq b rest, int32 seq -> batch_ok b ->
  decode_emit compact (encode_emit compact p seq b ++ rest) = Some ((M_ONEWAY, seq, b), rest).
Proof. intros p seq b rest Hs Hb. rewrite (encode_emit_eq compact compact_ok). apply (roundtrip_emit compact compact_ok); assumption. Qed.

Lemma roundtrip_binary_thm : forall p seq b rest, int32 seq -> batch_ok b ->
  decode_emit binary (encode_emit binary p seq b ++ rest) = Some ((M_ONEWAY, seq, b), rest).
Proof. intros p seq b rest Hs Hb. rewrite (encode_emit_eq binary binary_ok). apply (roundtrip_emit binary binary_ok); assumption. Qed.

Lemma roundtrip_structs_thm : forall P, P = compact \/ P = binary ->
  (forall p b rest, batch_ok b -> decode_batch P (encode_batch P p b ++ rest) = Some (b, rest)) /\
  (forall p m rest, metric_ok m -> decode_metric P (encode_metric P p m ++ rest) = Some (m, rest)).
Proof.
  intros P HP. assert (OK : proto_ok P) by (destruct HP; subst; [apply compact_ok | apply binary_ok]).
  split; intros p x rest Hx.
  - rewrite (encode_batch_eq P OK). apply (roundtrip_batch P OK); assumption.
  - rewrite (encode_metric_eq P OK). apply (roundtrip_metric P OK); assumption.
Qed.

Lemma state_restored_thm : forall t last stk,
  (forall m, wr_metric compact m (t, CPS last stk) = (tws (e_metric compact m) t, CPS last stk)) /\
  (forall b, wr_batch compact b (t, CPS last stk) = (tws (e_batch compact b) t, CPS last stk)) /\
  (forall seq b, wr_emit compact seq b (t, CPS last stk) = (tws (e_emit compact seq b) t, CPS last stk)).
Proof.
  intros t last stk. split; [|split]; intros.
  - apply (wr_metric_spec compact compact_ok).
  - apply (wr_batch_spec compact compact_ok).
  - apply (wr_emit_spec compact compact_ok).
Qed.

Lemma bytes_independent_of_state_thm : forall p p' seq b m,
  encode_emit compact p seq b = encode_emit compact p' seq b /\
  encode_batch compact p b = encode_batch compact p' b /\
  encode_metric compact p m = encode_metric compact p' m /\
  calc_metric compact p m = calc_metric compact p' m.
Proof.
  intros. rewrite !(encode_emit_eq compact compact_ok), !(encode_batch_eq compact compact_ok),
    !(encode_metric_eq compact compact_ok), !(calc_metric_eq compact compact_ok). repeat split.
Qed.

Lemma binary_stateless_thm : forall t (p : PS binary) seq b m,
  wr_emit binary seq b (t, p) = (tws (e_emit binary seq b) t, p) /\
  wr_metric binary m (t, p) = (tws (e_metric binary m) t, p).
Proof. intros. split; [apply (wr_emit_spec binary binary_ok) | apply (wr_metric_spec binary binary_ok)]. Qed.

Lemma calc_eq_len_thm : forall P, P = compact \/ P = binary -> forall p p',
  (forall m, calc_metric P p m = wrap32 (Z.of_nat (length (encode_metric P p' m)))) /\
  (forall b, calc_batch P p b = wrap32 (Z.of_nat (length (encode_batch P p' b)))) /\
  (forall seq b, calc_emit P p seq b = wrap32 (Z.of_nat (length (encode_emit P p' seq b)))) /\
  (forall m, Z.of_nat (length (encode_metric P p' m)) < 2147483648 ->
             calc_metric P p m = Z.of_nat (length (encode_metric P p' m))) /\
  (forall b, Z.of_nat (length (encode_batch P p' b)) < 2147483648 ->
             calc_batch P p b = Z.of_nat (length (encode_batch P p' b))) /\
  (forall seq b, Z.of_nat (length (encode_emit P p' seq b)) < 2147483648 ->
             calc_emit P p seq b = Z.of_nat (length (encode_emit P p' seq b))).
Proof.
  intros P HP p p'. assert (OK : proto_ok P) by (destruct HP; subst; [apply compact_ok | apply binary_ok]).
  repeat split; intros;
    rewrite ?(calc_metric_eq P OK), ?(calc_batch_eq P OK), ?(calc_emit_eq P OK),
            ?(encode_metric_eq P OK), ?(encode_batch_eq P OK), ?(encode_emit_eq P OK) in *;
    try reflexivity; apply wrap32_id; unfold int32; lia.
Qed.

Lemma max_is_upper_bound_general_thm : forall P, P = compact \/ P = binary -> forall pm a,
  int64 (mcount (mval a)) -> int64 (mtimer (mval a)) -> int64 (mts a) -> dominates pm a ->
  (length (e_metric P a) <= length (e_metric P pm))%nat.
Proof.
  intros P HP. assert (OK : proto_ok P) by (destruct HP; subst; [apply compact_ok | apply binary_ok]).
  apply (max_upper_bound P OK).
Qed.

Lemma max_is_upper_bound_thm : forall P, P = compact \/ P = binary ->
  forall p p' k name tags v ts,
  (k = 1 \/ k = 2 \/ k = 3) -> (if k =? 2 then bits64 v else int64 v) -> int64 ts ->
  Z.of_nat (length (encode_metric P p' (placeholder k name tags))) < 2147483648 ->
  Z.of_nat (length (encode_metric P p' (reported k name tags v ts))) <= calc_metric P p (placeholder k name tags).
Proof.
  intros P HP p p' k name tags v ts Hk Hv Hts Hlen.
  assert (OK : proto_ok P) by (destruct HP; subst; [apply compact_ok | apply binary_ok]).
  rewrite (calc_metric_eq P OK). rewrite !(encode_metric_eq P OK) in *.
  rewrite wrap32_id by (unfold int32; lia).
  apply Nat2Z.inj_le. apply (max_upper_bound P OK).
  - destruct Hk as [E|[E|E]]; subst k; cbn in *; unfold int64 in *; lia.
  - destruct Hk as [E|[E|E]]; subst k; cbn in *; unfold int64 in *; lia.
  - exact Hts.
  - unfold dominates, placeholder, reported; cbn [mname mtags mval mtype mcount mtimer mts].
    destruct Hk as [E|[E|E]]; subst k; cbn; repeat split; auto.
Qed.

