(* Proofs about the sanitizer model (recommended tree, strict = true), for an
   arbitrary validity predicate [allowed : Z -> bool] and an arbitrary
   replacement rune.  Core: the lazy copy-on-first-invalid loop computes
   exactly "re-encode every rune, replaced where not valid"
   ([sanitize_spec]); everything else follows from that and Proof/Utf8P.v. *)
From Coq Require Import ZArith List Lia Bool.
From Tally Require Import Model.Utf8 Proof.Utf8P Model.Sanitize.
Import ListNotations.
Open Scope Z_scope.

Section SanP.
  Variable allowed : Z -> bool.
  Variable rep : Z.

  Let ok := unit_ok true allowed.
  (* the rune written for a unit *)
  Definition pick (u : Z * list Z) : Z := if unit_ok true allowed u then fst u else rep.

  Lemma ok_not_bad u : ok u = true -> bad_unit u = false.
  Proof.
    unfold ok, unit_ok. intros Hh. apply andb_true_iff in Hh as [_ Hh].
    cbn in Hh. destruct (bad_unit u); [discriminate|reflexivity].
  Qed.
  Lemma bad_not_ok u : bad_unit u = true -> ok u = false.
  Proof. intros Hb. destruct (ok u) eqn:E; [|reflexivity]. apply ok_not_bad in E. congruence. Qed.
  Lemma ok_allowed u : ok u = true -> allowed (fst u) = true.
  Proof. unfold ok, unit_ok. intros Hh. apply andb_true_iff in Hh as [Hh _]. exact Hh. Qed.

  (* ---- the loop ---- *)
  Lemma san_units_spec us : Forall wf_unit us -> forall seen buf,
    san_units true allowed rep us seen buf =
      (seen ++ concat (map snd us),
       match buf with
       | Some b => Some (b ++ concat (map enc (map pick us)))
       | None => if forallb ok us then None
                 else Some (seen ++ concat (map enc (map pick us)))
       end).
  Proof.
    induction 1 as [|u us Hu Hus IH]; intros seen buf.
    - cbn. rewrite app_nil_r. destruct buf; [rewrite app_nil_r|]; reflexivity.
    - cbn [san_units map concat forallb]. unfold pick at 1 3. fold ok.
      destruct (ok u) eqn:Eo.
      + destruct (Hu (ok_not_bad u Eo)) as [_ Eraw].
        destruct buf as [b|]; rewrite IH; rewrite <- !app_assoc; [reflexivity|].
        cbn [andb]. destruct (forallb ok us); [reflexivity|]. rewrite Eraw. reflexivity.
      + destruct buf as [b|]; rewrite IH; rewrite <- !app_assoc; reflexivity.
  Qed.

  Lemma all_ok_raw us : Forall wf_unit us -> forallb ok us = true ->
    concat (map snd us) = concat (map enc (map pick us)).
  Proof.
    induction 1 as [|u us Hu Hus IH]; intros Ha; [reflexivity|].
    cbn [forallb] in Ha. apply andb_true_iff in Ha as [Eo Ha].
    cbn [map concat]. unfold pick at 1. fold ok. rewrite Eo.
    destruct (Hu (ok_not_bad u Eo)) as [_ Eraw]. rewrite Eraw, IH by exact Ha. reflexivity.
  Qed.

  Theorem sanitize_spec s : is_bytes s = true ->
    sanitize_gen true allowed rep s = concat (map enc (map pick (units_of s))).
  Proof.
    intros HB. unfold sanitize_gen.
    pose proof (units_wf (length s) s HB) as WF. fold (units_of s) in WF.
    rewrite (san_units_spec _ WF). cbn [snd].
    destruct (forallb ok (units_of s)) eqn:Ea; [|reflexivity].
    rewrite <- (all_ok_raw _ WF Ea). symmetry. apply units_concat. lia.
  Qed.

  (* ---- valid input: the very same string, nothing copied (no byte hypothesis needed) ---- *)
  Lemma san_units_all_ok us : forall seen,
    forallb ok us = true -> snd (san_units true allowed rep us seen None) = None.
  Proof.
    induction us as [|u us IH]; intros seen Ha; [reflexivity|].
    cbn [forallb] in Ha. apply andb_true_iff in Ha as [Eo Ha].
    cbn [san_units]. fold ok. rewrite Eo. apply IH. exact Ha.
  Qed.

  Theorem valid_unchanged_units s :
    forallb ok (units_of s) = true -> sanitize_gen true allowed rep s = s.
  Proof. intros Ha. unfold sanitize_gen. rewrite san_units_all_ok by exact Ha. reflexivity. Qed.

  Theorem valid_unchanged s :
    Forall (fun r => allowed r = true) (runes s) ->
    (allowed RuneError = true -> valid_utf8 s = true) ->
    sanitize_gen true allowed rep s = s.
  Proof.
    intros Fa Hv. apply valid_unchanged_units. apply forallb_forall. intros u Hin.
    unfold runes in Fa. rewrite Forall_map in Fa. rewrite Forall_forall in Fa.
    pose proof (Fa u Hin) as Hal. unfold ok, unit_ok. rewrite Hal. cbn [andb].
    destruct (bad_unit u) eqn:Eb; [|reflexivity]. exfalso.
    assert (Hr : fst u = RuneError).
    { unfold bad_unit in Eb. apply andb_true_iff in Eb as [Eb _]. apply Z.eqb_eq in Eb. exact Eb. }
    rewrite Hr in Hal. specialize (Hv Hal). unfold valid_utf8 in Hv.
    rewrite forallb_forall in Hv. specialize (Hv u Hin). rewrite Eb in Hv. discriminate.
  Qed.

  (* ---- the runes of the output, position by position ---- *)
  Definition out_rune (u : Z * list Z) : Z := if unit_ok true allowed u then fst u else norm rep.

  Lemma norm_pick us : Forall wf_unit us -> map norm (map pick us) = map out_rune us.
  Proof.
    induction 1 as [|u us Hu Hus IH]; [reflexivity|]. cbn [map]. rewrite IH. f_equal.
    unfold pick, out_rune. fold ok. destruct (ok u) eqn:Eo; [|reflexivity].
    destruct (Hu (ok_not_bad u Eo)) as [V _]. apply norm_valid. exact V.
  Qed.

  Theorem runes_sanitize s : is_bytes s = true ->
    runes (sanitize_gen true allowed rep s) = map out_rune (units_of s).
  Proof.
    intros HB. rewrite (sanitize_spec s HB), runes_encs. apply norm_pick.
    apply units_wf. exact HB.
  Qed.

  Theorem rune_count s : is_bytes s = true ->
    length (runes (sanitize_gen true allowed rep s)) = length (runes s).
  Proof. intros HB. rewrite (runes_sanitize s HB). unfold runes. rewrite !map_length. reflexivity. Qed.

  Theorem output_allowed s : is_bytes s = true ->
    Forall (fun r => allowed r = true \/ r = norm rep) (runes (sanitize_gen true allowed rep s)).
  Proof.
    intros HB. rewrite (runes_sanitize s HB). rewrite Forall_map. apply Forall_forall.
    intros u _. unfold out_rune. fold ok. destruct (ok u) eqn:Eo; [left; apply ok_allowed; exact Eo|right; reflexivity].
  Qed.

  (* ---- invalid bytes: replaced, and the output is well-formed UTF-8 ---- *)
  Theorem output_valid_utf8 s : is_bytes s = true ->
    valid_utf8 (sanitize_gen true allowed rep s) = true.
  Proof. intros HB. rewrite (sanitize_spec s HB). apply valid_utf8_encs. Qed.

  Theorem output_bytes s : is_bytes s = true -> is_bytes (sanitize_gen true allowed rep s) = true.
  Proof. intros HB. rewrite (sanitize_spec s HB). apply encs_bytes. Qed.

  Theorem invalid_replaced s : is_bytes s = true ->
    Forall2 (fun u r => bad_unit u = true -> r = norm rep)
            (units_of s) (runes (sanitize_gen true allowed rep s)).
  Proof.
    intros HB. rewrite (runes_sanitize s HB).
    induction (units_of s) as [|u us IH]; cbn [map]; constructor; [|exact IH].
    intros Hb. unfold out_rune. fold ok. rewrite (bad_not_ok u Hb). reflexivity.
  Qed.

  (* ---- idempotence: no hypothesis on the replacement rune ----
     A replacement rune that is not itself allowed is replaced again - by
     itself; an invalid one has been written as U+FFFD, which is either
     allowed (kept) or replaced by U+FFFD again. *)
  Lemma resanitize qs :
    Forall (fun q => (valid_rune q = true /\ allowed q = true) \/ q = rep) qs ->
    concat (map enc (map pick (map (fun r => (norm r, enc r)) qs))) = concat (map enc qs).
  Proof.
    induction 1 as [|q qs Hq Hqs IH]; [reflexivity|]. cbn [map concat]. rewrite IH. f_equal.
    unfold pick, unit_ok. cbn [fst]. rewrite enc_not_bad. cbn [andb negb]. rewrite andb_true_r.
    destruct Hq as [[V A]| ->].
    - rewrite (norm_valid q V), A. reflexivity.
    - destruct (allowed (norm rep)); [symmetry; apply enc_norm|reflexivity].
  Qed.

  Lemma pick_shape us : Forall wf_unit us ->
    Forall (fun q => (valid_rune q = true /\ allowed q = true) \/ q = rep) (map pick us).
  Proof.
    induction 1 as [|u us Hu Hus IH]; cbn [map]; constructor; [|exact IH].
    unfold pick. fold ok. destruct (ok u) eqn:Eo; [|right; reflexivity].
    left. split; [apply (Hu (ok_not_bad u Eo))|apply ok_allowed; exact Eo].
  Qed.

  Theorem idempotent s : is_bytes s = true ->
    sanitize_gen true allowed rep (sanitize_gen true allowed rep s) = sanitize_gen true allowed rep s.
  Proof.
    intros HB. rewrite (sanitize_spec s HB).
    rewrite sanitize_spec by apply encs_bytes.
    rewrite units_of_encs. apply resanitize. apply pick_shape. apply units_wf. exact HB.
  Qed.

  (* the output is a concatenation of encodings (used for concatenation closure) *)
  Theorem output_encoded s : is_bytes s = true ->
    exists qs, sanitize_gen true allowed rep s = concat (map enc qs).
  Proof. intros HB. eexists. apply sanitize_spec. exact HB. Qed.
End SanP.

(* ---- concatenation of well-formed strings: the runes concatenate ---- *)
Definition encoded (x : list Z) : Prop := exists qs, x = concat (map enc qs).

Lemma encoded_nil : encoded [].
Proof. exists []. reflexivity. Qed.
Lemma encoded_app x y : encoded x -> encoded y -> encoded (x ++ y).
Proof. intros [a ->] [b ->]. exists (a ++ b). rewrite map_app, concat_app. reflexivity. Qed.
Lemma runes_app_encoded x y : encoded x -> encoded y -> runes (x ++ y) = runes x ++ runes y.
Proof.
  intros [a ->] [b ->]. rewrite <- concat_app, <- map_app, !runes_encs. apply map_app.
Qed.
Lemma sanitize_encoded allowed rep s : is_bytes s = true -> encoded (sanitize_gen true allowed rep s).
Proof. apply output_encoded. Qed.

(* ---- allowedb: ranges inclusive at both ends; empty/inverted ranges allow nothing ---- *)
Lemma allowedb_spec ranges chars r :
  allowedb ranges chars r = true <->
  (exists p, In p ranges /\ fst p <= r <= snd p) \/ In r chars.
Proof.
  unfold allowedb. rewrite orb_true_iff, !existsb_exists. split.
  - intros [[p [Hin Hr]]|[c [Hin Hc]]].
    + left. exists p. split; [exact Hin|]. unfold in_range in Hr. lia.
    + right. apply Z.eqb_eq in Hc. subst. exact Hin.
  - intros [[p [Hin Hr]]|Hin].
    + left. exists p. split; [exact Hin|]. unfold in_range. lia.
    + right. exists r. split; [exact Hin|apply Z.eqb_refl].
Qed.
