(* Proofs about the M3 reporter's enter/close protocol (Model/M3Close.v):
   the protocol invariant for every pool, every schedule and every capacity,
   and its consequences (no send on the closed queue, Close results, calls
   after Close, absence of deadlock, termination under round robin). *)
From Coq Require Import ZArith List Bool Arith Lia.
From Tally Require Import Model.M3Close.
Import ListNotations.

(* ------------------------------------------------------------------ *)
(* counting over the pool *)
Definition wsum (f : thread -> nat) (l : list thread) : nat :=
  fold_right (fun t a => f t + a) 0 l.
Arguments wsum : simpl never.

Lemma wsum_cons f t l : wsum f (t :: l) = f t + wsum f l.
Proof. reflexivity. Qed.

Lemma wsum_upd f l i t t' : nth_error l i = Some t ->
  wsum f (upd l i t') + f t = wsum f l + f t'.
Proof.
  revert i; induction l as [|h l IH]; intros [|i] Hn; cbn in Hn; try discriminate.
  - inversion Hn; subst. cbn [upd]. rewrite !wsum_cons. lia.
  - cbn [upd]. rewrite !wsum_cons. specialize (IH _ Hn). lia.
Qed.

Lemma wsum_ge f l i t : nth_error l i = Some t -> f t <= wsum f l.
Proof.
  revert i; induction l as [|h l IH]; intros [|i] Hn; cbn in Hn; try discriminate.
  - inversion Hn; subst. rewrite wsum_cons. lia.
  - rewrite wsum_cons. specialize (IH _ Hn). lia.
Qed.

Lemma wsum_le f g l : (forall t, f t <= g t) -> wsum f l <= wsum g l.
Proof. intros Hfg. induction l as [|h l IH]; [apply Nat.le_refl|]. rewrite !wsum_cons. specialize (Hfg h). lia. Qed.

Lemma wsum_pos f l : 0 < wsum f l -> exists i t, nth_error l i = Some t /\ 0 < f t.
Proof.
  induction l as [|h l IH]; unfold wsum; cbn; [lia|]. fold (wsum f l). intros Hp.
  destruct (f h) eqn:Fh.
  - destruct IH as (i & t & Hn & Hf); [lia|]. exists (S i), t. auto.
  - exists 0, h. cbn. split; [reflexivity|lia].
Qed.

Lemma wsum_zero f l : (forall t, In t l -> f t = 0) -> wsum f l = 0.
Proof.
  induction l as [|h l IH]; intros Hz; [reflexivity|]. rewrite wsum_cons, (Hz h (or_introl eq_refl)), IH; auto.
  intros; apply Hz; right; assumption.
Qed.

Lemma upd_length {A} (l : list A) i a : length (upd l i a) = length l.
Proof. revert i; induction l as [|h l IH]; intros [|i]; cbn; auto. Qed.
Lemma nth_upd_same {A} (l : list A) i a t : nth_error l i = Some t -> nth_error (upd l i a) i = Some a.
Proof. revert i; induction l as [|h l IH]; intros [|i] Hn; cbn in *; try discriminate; auto. Qed.
Lemma nth_upd_other {A} (l : list A) i j a : i <> j -> nth_error (upd l i a) j = nth_error l j.
Proof. revert i j; induction l as [|h l IH]; intros [|i] [|j] Hne; cbn; auto; try congruence. Qed.
Lemma nth_upd_none {A} (l : list A) i a : nth_error l i = None -> upd l i a = l.
Proof. revert i; induction l as [|h l IH]; intros [|i] Hn; cbn in *; try discriminate; auto. f_equal; auto. Qed.
Arguments upd : simpl never.

(* ------------------------------------------------------------------ *)
(* the counted quantities *)
Definition nz (n : nat) : nat := match n with O => 0 | S _ => 1 end.
Arguments nz : simpl never.
Lemma nz_O : nz 0 = 0. Proof. reflexivity. Qed.
Lemma nz_S n : nz (S n) = 1. Proof. reflexivity. Qed.

(* contribution of a thread to `pending` *)
Definition weight (t : thread) : nat :=
  match tloc t with
  | LEnter | LSend | LSent | LLeave => 1 + nz (nest t)
  | LWrote | LCall => nz (nest t)
  | FEnter | FInt | FSend | FSent | FLeave => 1
  | _ => 0
  end.
(* threads that will still send *)
Definition committed (t : thread) : nat :=
  match tloc t with
  | LSend | FInt | FSend => 1
  | LWrote | LCall | LEnter | LSent | LLeave => nz (nest t)
  | _ => 0
  end.
Definition issend (t : thread) : nat :=
  match tloc t with LSend | FSend => 1 | _ => 0 end.
Definition closing (t : thread) : nat :=
  match tloc t with CSpin1 | CSpin2 | CClose1 | CClose2 | CWait => 1 | _ => 0 end.
Definition pastspin (t : thread) : nat :=
  match tloc t with CClose1 | CClose2 | CWait => 1 | _ => 0 end.
Definition pastd (t : thread) : nat :=
  match tloc t with CClose2 | CWait => 1 | _ => 0 end.
Definition atwait (t : thread) : nat :=
  match tloc t with CWait => 1 | _ => 0 end.
Definition kn (k : kloc) : nat :=
  match k with KPark0 => 0 | KPark => 1 | KExit => 2 | KDone => 3 end.

Lemma issend_committed t : issend t <= committed t.
Proof. unfold issend, committed. destruct (tloc t); lia. Qed.
Lemma committed_weight t : committed t <= weight t.
Proof. unfold weight, committed. destruct (tloc t); lia. Qed.

Lemma pastspin_closing t : pastspin t <= closing t.
Proof. unfold pastspin, closing. destruct (tloc t); lia. Qed.
Lemma atwait_pastspin t : atwait t <= pastd t.
Proof. unfold pastd, atwait. destruct (tloc t); lia. Qed.
Lemma pastd_pastspin t : pastd t <= pastspin t.
Proof. unfold pastd, pastspin. destruct (tloc t); lia. Qed.

(* ------------------------------------------------------------------ *)
(* the invariant *)
Definition sq_ok (sq : list nat) (l : list thread) : Prop :=
  NoDup sq /\ forall i, In i sq -> exists t, nth_error l i = Some t /\ issend t = 1.

Definition InvN (cap : nat) (s : sys) : Prop :=
  pending s = wsum weight (thr s) /\
  (done s = true -> wsum closing (thr s) + wsum nil_results (thr s) = 1) /\
  (done s = false -> wsum closing (thr s) + wsum nil_results (thr s) = 0) /\
  (dclosed s = true -> done s = true) /\
  (0 < wsum pastspin (thr s) \/ dclosed s = true -> wsum committed (thr s) = 0) /\
  (mclosed s = true -> dclosed s = true) /\
  (0 < wsum pastd (thr s) -> dclosed s = true) /\
  (0 < wsum atwait (thr s) -> mclosed s = true) /\
  (mclosed s = true -> 0 < wsum atwait (thr s) + wsum nil_results (thr s)) /\
  panicked s = false /\
  (2 <= kn (kl s) -> mclosed s = true /\ length (q s) = 0) /\
  (0 < wsum nil_results (thr s) -> kn (kl s) = 3) /\
  (0 < length (sendq s) -> cap + bonus s <= length (q s)).

Definition Inv (cap : nat) (s : sys) : Prop := InvN cap s /\ sq_ok (sendq s) (thr s).

Lemma sq_ok_upd sq l i t' : sq_ok sq l -> ~ In i sq -> sq_ok sq (upd l i t').
Proof.
  intros [Hnd Hall] Hni. split; [assumption|]. intros j Hj. destruct (Hall j Hj) as (t & Hn & Hs).
  exists t. split; [|assumption]. rewrite nth_upd_other; [assumption|]. intros ->. contradiction.
Qed.

Lemma sq_ok_notsend sq l i t : sq_ok sq l -> nth_error l i = Some t -> issend t = 0 -> ~ In i sq.
Proof. intros [_ Hall] Hn Hs Hi. destruct (Hall i Hi) as (t' & Hn' & Hs'). congruence. Qed.

Lemma waiting_false s i : waiting s i = false -> ~ In i (sendq s).
Proof.
  unfold waiting. intros Hw Hi. assert (Ht : existsb (Nat.eqb i) (sendq s) = true).
  { apply existsb_exists. exists i. split; [assumption|apply Nat.eqb_refl]. }
  congruence.
Qed.
Lemma waiting_true s i : waiting s i = true -> In i (sendq s).
Proof.
  unfold waiting. intros Hw. apply existsb_exists in Hw as (k & Hk & He). apply Nat.eqb_eq in He. subst; assumption.
Qed.

Lemma NoDup_app_intro_single (l : list nat) i : NoDup l -> ~ In i l -> NoDup (l ++ [i]).
Proof.
  induction l as [|h l IH]; intros Hnd Hni; cbn.
  - constructor; [intros []|constructor].
  - inversion Hnd; subst. constructor.
    + intros Hin. apply in_app_or in Hin as [Hin|[->|[]]]; [contradiction|]. apply Hni. left; reflexivity.
    + apply IH; [assumption|]. intros Hi. apply Hni. right; assumption.
Qed.

Lemma sq_pos sq l : sq_ok sq l -> 0 < length sq -> 0 < wsum issend l.
Proof.
  intros [_ Hall] Hp. destruct sq as [|i r]; [cbn in Hp; lia|].
  destruct (Hall i (or_introl eq_refl)) as (t & Hn & Hs). pose proof (wsum_ge issend _ _ _ Hn). lia.
Qed.

Lemma log_sent_shape t : exists ss',
  log_sent t = {| tloc := tloc t; nest := nest t; x := x t; ops := ops t; res := res t; sent := ss' |}.
Proof.
  destruct t as [l n xx os rs ss]. unfold log_sent; cbn. destruct l; eauto.
  destruct os as [|[| | |]]; eauto. destruct n; eauto.
Qed.

(* ------------------------------------------------------------------ *)
(* preservation *)
Section Preservation.
Variable sh : bool.
Variable cap : nat.
Hypothesis cap_pos : 1 <= cap.

Ltac facts E t' :=
  pose proof (wsum_upd weight _ _ _ t' E) as Uw;
  pose proof (wsum_upd committed _ _ _ t' E) as Uc;
  pose proof (wsum_upd issend _ _ _ t' E) as Us;
  pose proof (wsum_upd closing _ _ _ t' E) as Ucl;
  pose proof (wsum_upd pastspin _ _ _ t' E) as Up;
  pose proof (wsum_upd atwait _ _ _ t' E) as Ua;
  pose proof (wsum_upd pastd _ _ _ t' E) as Ud;
  pose proof (wsum_upd nil_results _ _ _ t' E) as Un;
  cbn in Uw, Uc, Us, Ucl, Up, Ua, Ud, Un.

Ltac prep E :=
  match type of E with nth_error ?L _ = _ =>
    pose proof (wsum_le _ _ L issend_committed) as Lsc;
    pose proof (wsum_le _ _ L committed_weight) as Lcw;
    pose proof (wsum_le _ _ L pastspin_closing) as Lpc;
    pose proof (wsum_le _ _ L atwait_pastspin) as Lap;
    pose proof (wsum_le _ _ L pastd_pastspin) as Ldp end;
  pose proof (wsum_ge weight _ _ _ E) as Gw; pose proof (wsum_ge committed _ _ _ E) as Gc;
  pose proof (wsum_ge issend _ _ _ E) as Gs; pose proof (wsum_ge closing _ _ _ E) as Gcl;
  pose proof (wsum_ge pastspin _ _ _ E) as Gp; pose proof (wsum_ge atwait _ _ _ E) as Ga;
  pose proof (wsum_ge pastd _ _ _ E) as Gd;
  cbn in Gw, Gc, Gs, Gcl, Gp, Ga, Gd.

Ltac simp_imps :=
  repeat match goal with
  | H : true = true -> _ |- _ => specialize (H eq_refl)
  | H : false = false -> _ |- _ => specialize (H eq_refl)
  | H : false = true -> _ |- _ => clear H
  | H : true = false -> _ |- _ => clear H
  | H : _ \/ true = true -> _ |- _ => specialize (H (or_intror eq_refl))
  | H : ?A \/ false = true -> ?B |- _ =>
      let H' := fresh H in assert (H' : A -> B) by (intro; apply H; left; assumption); clear H
  | H : _ /\ _ |- _ => destruct H
  end.

Ltac numeric :=
  unfold InvN in *; cbn; unfold bonus in *; cbn; rewrite ?app_length; cbn [length];
  rewrite ?nz_O, ?nz_S in *;
  repeat match goal with H : _ /\ _ |- _ => destruct H end;
  try match goal with H : kl ?s = _ |- _ => rewrite H in *; cbn [kn] in * end;
  try match goal with H : q ?s = _ |- _ => rewrite H in *; cbn [length] in * end;
  try match goal with H : sendq ?s = _ |- _ => rewrite H in *; cbn [length] in * end;
  match goal with H : pending ?s = wsum weight (thr ?s) |- _ =>
    destruct (done s), (dclosed s), (mclosed s) end;
  simp_imps; try congruence;
  repeat match goal with |- _ /\ _ => split end; intros; try reflexivity; try congruence;
  try match goal with |- context [kwait ?s] => destruct (kwait s) end; lia.

(* a thread step that rewrites only thread i and scalar fields, thread i not being a waiting sender *)
Ltac fin E HL :=
  unfold internal_reports;
  match goal with |- Inv _ (put _ _ ?t') =>
    let t1 := eval hnf in t' in let t'' := eval cbn in t1 in (change t' with t''; facts E t'') end;
  split; [ numeric
         | cbn; apply sq_ok_upd; [exact HL | first [ eapply sq_ok_notsend; [exact HL | exact E | reflexivity ] | assumption ] ] ].

Lemma send_inv s i n xx os rs ss l sel after :
  Inv cap s ->
  nth_error (thr s) i = Some {| tloc := l; nest := n; x := xx; ops := os; res := rs; sent := ss |} ->
  (l = LSend /\ after = LLeave /\ sel = true) \/ (l = FSend /\ after = FLeave /\ sel = false) ->
  Inv cap (send cap s i {| tloc := l; nest := n; x := xx; ops := os; res := rs; sent := ss |} sel after).
Proof.
  intros [HN HL] E Hl. unfold send.
  destruct (waiting s i) eqn:W; [split; assumption|].
  apply waiting_false in W.
  pose proof (sq_pos _ _ HL) as SP.
  destruct Hl as [(-> & -> & ->)|(-> & -> & ->)]; prep E.
  - destruct (mclosed s) eqn:Mc; [exfalso; numeric|].
    cbn [andb]. destruct (dclosed s) eqn:Dc; [exfalso; numeric|].
    destruct (room cap s) eqn:R.
    + match goal with |- context [log_sent ?t] => let ss' := fresh "ss'" in destruct (log_sent_shape t) as [ss' ->] end; fin E HL.
    + split; [unfold room in R; apply Nat.ltb_ge in R; numeric|].
      cbn. destruct HL as [Hnd Hall]. split.
      * apply NoDup_app_intro_single; assumption.
      * intros j Hj. apply in_app_or in Hj as [Hj|[<-|[]]]; [apply Hall; assumption|].
        eexists; split; [exact E|reflexivity].
  - destruct (mclosed s) eqn:Mc; [exfalso; numeric|].
    cbn [andb]. 
    destruct (room cap s) eqn:R.
    + match goal with |- context [log_sent ?t] => let ss' := fresh "ss'" in destruct (log_sent_shape t) as [ss' ->] end; fin E HL.
    + split; [unfold room in R; apply Nat.ltb_ge in R; numeric|].
      cbn. destruct HL as [Hnd Hall]. split.
      * apply NoDup_app_intro_single; assumption.
      * intros j Hj. apply in_app_or in Hj as [Hj|[<-|[]]]; [apply Hall; assumption|].
        eexists; split; [exact E|reflexivity].
Qed.

Lemma tstep_inv s i : Inv cap s -> Inv cap (tstep sh cap s i).
Proof.
  intros [HN HL]. unfold tstep. destruct (nth_error (thr s) i) as [t|] eqn:E; [|split; assumption].
  destruct t as [l n xx os rs ss]. pose proof (sq_pos _ _ HL) as SP.
  destruct l; cbn [tloc ops nest]; try (apply send_inv; [split; assumption|exact E|tauto]); prep E.
  - (* LIdle *) destruct os as [|[v|v| |] os']; [split; assumption|fin E HL|fin E HL|fin E HL|].
    destruct (done s) eqn:Dn; fin E HL.
  - (* LWrote *) fin E HL.
  - (* LCall *) fin E HL.
  - (* LEnter *) destruct (done s) eqn:Dn; fin E HL.
  - (* LSent *) fin E HL.
  - (* LLeave *) destruct n as [|[|k]]; fin E HL.
  - (* FEnter *) destruct (done s) eqn:Dn; fin E HL.
  - (* FInt *) fin E HL.
  - (* FSent *) fin E HL.
  - (* FLeave *) fin E HL.
  - (* CSpin1 *) destruct (Nat.eqb_spec (pending s) 0) as [P0|P0]; fin E HL.
  - (* CSpin2 *) destruct (Nat.eqb_spec (pending s) 0) as [P0|P0]; fin E HL.
  - (* CClose1 *) fin E HL.
  - (* CClose2 *) destruct (sendq s) as [|j r] eqn:SQ; [rewrite <- SQ in HL; fin E HL|].
    exfalso. cbn in SP. numeric.
  - (* CWait *) destruct (kl s) eqn:Kl; try (split; assumption); fin E HL.
Qed.


Lemma sq_ok_tail i rest l t' : sq_ok (i :: rest) l -> sq_ok rest (upd l i t').
Proof.
  intros [Hnd Hall]. inversion Hnd as [|? ? Hni Hnd']; subst. split; [assumption|].
  intros j Hj. destruct (Hall j (or_intror Hj)) as (t & Hn & Hs). exists t. split; [|assumption].
  rewrite nth_upd_other; [assumption|]. intros ->. contradiction.
Qed.

Lemma kstep_inv s : Inv cap s -> Inv cap (kstep cap s).
Proof.
  intros [HN HL]. unfold kstep. pose proof (sq_pos _ _ HL) as SP.
  destruct (kl s) eqn:Kl.
  1,2: destruct (q s) as [|v r] eqn:Q.
  1,3: destruct (mclosed s) eqn:Mc; (split; [cbn in SP; numeric|exact HL]).
  3: split; [numeric|exact HL].
  3: split; assumption.
  all: unfold wake; cbn [sendq q thr set_k set_out set_q].
  all: destruct (sendq s) as [|i rest] eqn:SQ; [split; [cbn in SP; numeric|cbn; rewrite SQ; exact HL]|].
  all: destruct (length r <? cap) eqn:R;
    [|apply Nat.ltb_ge in R; split; [cbn in SP; numeric|cbn; rewrite SQ; exact HL]].
  all: apply Nat.ltb_lt in R.
  all: destruct (proj2 HL i (or_introl eq_refl)) as (t & E & Hs); rewrite E.
  all: destruct t as [l n xx os rs ss]; destruct l; try discriminate Hs; prep E.
  all: match goal with |- context [log_sent ?t] => let ss' := fresh "ss'" in destruct (log_sent_shape t) as [ss' ->] end; cbn [tloc sent_loc].
  all: match goal with |- Inv _ (put _ _ ?t') =>
         let t1 := eval hnf in t' in let t'' := eval cbn in t1 in (change t' with t''; facts E t'') end.
  all: split; [cbn in SP; numeric|cbn; apply sq_ok_tail; exact HL].
Qed.

Lemma step_inv s j : Inv cap s -> Inv cap (step sh cap s j).
Proof. destruct j; [apply kstep_inv|apply tstep_inv]. Qed.

Lemma run_inv sched : forall s, Inv cap s -> Inv cap (run sh cap s sched).
Proof. induction sched as [|j r IH]; intros s HI; [exact HI|]. cbn. apply IH. apply step_inv. exact HI. Qed.

End Preservation.
