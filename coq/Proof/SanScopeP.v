(* Scope-level proof for C06: in every history of the scope model (recommended
   tree) every name, tag key and tag value handed to the reporter is
   well-formed UTF-8 whose runes are allowed by the corresponding table or
   are the replacement.  The invariant is "every scope's prefix and tags are
   such strings"; it is closed under fullyQualifiedName because such strings
   are concatenations of encodings (the assumption spelt out at scope.go:570,
   which is FALSE on the pinned tree: Refuted/C06_refuted.v). *)
From Coq Require Import ZArith List Lia Bool.
From Tally Require Import Base.ObsCore Gen.Params Model.Utf8 Proof.Utf8P Model.Sanitize Proof.SanitizeP Model.SanScope.
Import ListNotations.
Open Scope Z_scope.

Section ScopeP.
  Variable o : sopts.
  Variables cached omit : bool.
  Let c := Cfg (Some o) cached omit true true.

  Definition str_allowed (k : skind) (x : bytes) : Prop :=
    Forall (fun r => allowed_of o k r = true \/ r = norm (so_rep o)) (runes x).
  Definition okstr (k : skind) (x : bytes) : Prop := encoded x /\ str_allowed k x.

  Lemma okstr_nil k : okstr k [].
  Proof. split; [apply encoded_nil|constructor]. Qed.

  Lemma okstr_app k x y : okstr k x -> okstr k y -> okstr k (x ++ y).
  Proof.
    intros [Ex Ax] [Ey Ay]. split; [apply encoded_app; assumption|].
    unfold str_allowed. rewrite runes_app_encoded by assumption. apply Forall_app. split; assumption.
  Qed.

  Lemma okstr_san k s : is_bytes s = true -> okstr k (san_gen true (Some o) k s).
  Proof.
    intros HB. cbn [san_gen]. split; [apply sanitize_encoded; exact HB|].
    apply output_allowed. exact HB.
  Qed.

  Lemma okstr_fqn p sep n : okstr KName p -> okstr KName sep -> okstr KName n -> okstr KName (fqn p sep n).
  Proof.
    intros Hp Hs Hn. unfold fqn. destruct p as [|b p]; [exact Hn|].
    apply okstr_app; [exact Hp|]. apply okstr_app; assumption.
  Qed.

  Definition okpair (kv : bytes * bytes) : Prop := okstr KKey (fst kv) /\ okstr KValue (snd kv).
  Definition oktags (t : tags) : Prop := Forall okpair t.
  Definition tags_bytes (t : tags) : Prop :=
    Forall (fun kv => is_bytes (fst kv) = true /\ is_bytes (snd kv) = true) t.

  Lemma oktags_put k v m : okpair (k, v) -> oktags m -> oktags (put k v m).
  Proof.
    intros Hkv. induction 1 as [|[k' v'] m Hx Hm IH]; cbn [put].
    - constructor; [exact Hkv|constructor].
    - destruct (bytes_cmp k k').
      + constructor; assumption.
      + constructor; [exact Hkv|]. constructor; assumption.
      + constructor; assumption.
  Qed.

  Lemma oktags_overlay upd : forall base, oktags base -> oktags upd -> oktags (overlay base upd).
  Proof.
    unfold overlay. induction upd as [|[k v] upd IH]; intros base Hb Hu; cbn [fold_left]; [exact Hb|].
    inversion Hu; subst. apply IH; [|assumption]. apply oktags_put; assumption.
  Qed.

  Lemma oktags_san_tags t : tags_bytes t -> oktags (san_tags c t).
  Proof.
    induction 1 as [|[k v] t [Hk Hv] Ht IH]; cbn [san_tags map]; constructor; [|exact IH].
    split; cbn [fst snd]; apply okstr_san; assumption.
  Qed.

  Definition okscope (s : scope) : Prop := okstr KName (sc_prefix s) /\ oktags (sc_tags s).
  Definition okdl (d : delivery) : Prop := okstr KName (d_name d) /\ oktags (d_tags d).

  Lemma builtin_bytes : tags_bytes builtin_tags.
  Proof. repeat constructor. Qed.
  Lemma card_names_bytes : Forall (fun n => is_bytes n = true) card_names.
  Proof. repeat constructor. Qed.

  Lemma card_tags_ok user : tags_bytes user -> oktags (card_tags c user).
  Proof.
    intros Hu. unfold card_tags. cbn [c_fixcard c].
    apply oktags_overlay; [|apply oktags_san_tags; exact Hu].
    apply oktags_overlay; [constructor|apply oktags_san_tags; exact builtin_bytes].
  Qed.

  Lemma card_dl_ok kind user : tags_bytes user -> Forall okdl (card_dl c kind user).
  Proof.
    intros Hu. unfold card_dl. destruct (c_omit c); [constructor|].
    apply Forall_map. eapply Forall_impl; [|exact card_names_bytes].
    intros n Hn. split; cbn [d_name d_tags]; [apply okstr_san; exact Hn|apply card_tags_ok; exact Hu].
  Qed.

  Definition op_bytes (op : sop) : Prop :=
    match op with
    | OSub _ n => is_bytes n = true
    | OTag _ t => tags_bytes t
    | OMetric _ _ n => is_bytes n = true
    end.

  Lemma nth_ok p scs : Forall okscope scs -> okscope (nth p scs (Scope [] [])).
  Proof.
    intros Hs. destruct (nth_in_or_default p scs (Scope [] [])) as [Hin| ->].
    - rewrite Forall_forall in Hs. apply Hs. exact Hin.
    - split; [apply okstr_nil|constructor].
  Qed.

  Lemma run_ops_ok sep user ops : okstr KName sep -> tags_bytes user -> Forall op_bytes ops ->
    forall scs seen, Forall okscope scs -> Forall okdl (run_ops c sep user ops scs seen).
  Proof.
    intros Hsep Hu. induction 1 as [|op ops Hop Hops IH]; intros scs seen Hs; cbn [run_ops]; [constructor|].
    destruct op as [p name|p t|i kind name]; cbn [op_bytes] in Hop.
    - apply IH. apply Forall_app. split; [exact Hs|]. constructor; [|constructor].
      destruct (nth_ok p scs Hs) as [Hp Ht]. split; cbn [sc_prefix sc_tags]; [|exact Ht].
      apply okstr_fqn; [exact Hp|exact Hsep|apply okstr_san; exact Hop].
    - apply IH. apply Forall_app. split; [exact Hs|]. constructor; [|constructor].
      destruct (nth_ok p scs Hs) as [Hp Ht]. split; cbn [sc_prefix sc_tags]; [exact Hp|].
      apply oktags_overlay; [exact Ht|apply oktags_san_tags; exact Hop].
    - destruct (nth_ok i scs Hs) as [Hp Ht].
      assert (Hd : forall k, okdl (Dl k (fqn (sc_prefix (nth i scs (Scope [] []))) sep (san_gen true (Some o) KName name))
                                     (sc_tags (nth i scs (Scope [] []))))).
      { intros k. split; cbn [d_name d_tags]; [|exact Ht].
        apply okstr_fqn; [exact Hp|exact Hsep|apply okstr_san; exact Hop]. }
      change (san_gen (c_strict c) (c_opts c) KName name) with (san_gen true (Some o) KName name).
      destruct (c_cached c).
      + match goal with |- context [if ?b then _ else _] => destruct b end.
        * apply IH. exact Hs.
        * constructor; [apply Hd|apply IH; exact Hs].
      + apply Forall_app. split; [|apply IH; exact Hs].
        destruct (kind =? 3).
        * constructor; [apply Hd|apply card_dl_ok; exact Hu].
        * apply Forall_app. split; [apply card_dl_ok; exact Hu|constructor; [apply Hd|constructor]].
  Qed.

  Theorem run_ok prefix sep t user ops :
    is_bytes prefix = true -> is_bytes sep = true -> tags_bytes t -> tags_bytes user ->
    Forall op_bytes ops -> Forall okdl (run c prefix sep t user ops).
  Proof.
    intros Hp Hs Ht Hu Hops. unfold run. apply Forall_app. split.
    - destruct (c_cached c); [apply card_dl_ok; exact Hu|constructor].
    - apply run_ops_ok; [| exact Hu | exact Hops |].
      + unfold root_sep. apply okstr_san. destruct sep; [reflexivity|exact Hs].
      + constructor; [|constructor]. split; cbn [root_scope sc_prefix sc_tags].
        * apply okstr_san. exact Hp.
        * apply oktags_overlay; [constructor|apply oktags_san_tags; exact Ht].
  Qed.

  Lemma okstr_valid_utf8 k x : okstr k x -> valid_utf8 x = true.
  Proof. intros [[qs ->] _]. apply valid_utf8_encs. Qed.
End ScopeP.
