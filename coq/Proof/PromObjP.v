(* Proofs about Model/Prom.v, part 2: one tally object and the series it
   feeds.  [orun] runs one object over its own events (user actions and report
   passes); the lemmas say what the series shows after the deliveries of such
   a run that ends with a pass:
     counter   -> sum of the increments
     gauge     -> last update
     timer     -> number of records (summary count / histogram total, and the
                  cumulative counts of the histogram flavour)
     histogram -> cumulative count at bound j = number of samples <= bound j,
                  total = number of samples
   The last one combines tally's bucketing (sort.Search over the upper bounds,
   Model/Buckets.v), the replay of each bucket as observations of its upper
   bound (in seconds for durations) and Prometheus's own bucketing. *)
From Coq Require Import ZArith List Bool Lia Arith.
From Tally Require Import Base.ObsCore Base.Search Model.Buckets Model.Prom.
Import ListNotations.
Open Scope Z_scope.

Inductive oev := EAct (a : oact) | EPass.

Definition oev_step (o : ostate) (e : oev) : ostate * list delivery :=
  match e with EAct a => oact_step o a | EPass => opass o end.

Fixpoint orun (o : ostate) (es : list oev) : ostate * list delivery :=
  match es with
  | [] => (o, [])
  | e :: r => (fst (orun (fst (oev_step o e)) r), snd (oev_step o e) ++ snd (orun (fst (oev_step o e)) r))
  end.

Lemma orun_app o a b :
  orun o (a ++ b) = (fst (orun (fst (orun o a)) b), snd (orun o a) ++ snd (orun (fst (orun o a)) b)).
Proof.
  revert o; induction a as [|e a IH]; intro o; cbn.
  - now destruct (orun o b).
  - rewrite IH; cbn. now rewrite app_assoc.
Qed.

Definition feed (bs : list Z) (ds : list delivery) (s : sval) : sval := fold_left (apply bs) ds s.

Lemma feed_app bs a b s : feed bs (a ++ b) s = feed bs b (feed bs a s).
Proof. unfold feed. apply fold_left_app. Qed.

(* ---------------- counter ---------------- *)
Fixpoint sum_incs (es : list oev) : Z :=
  match es with
  | [] => 0
  | EAct (AInc v) :: r => v + sum_incs r
  | _ :: r => sum_incs r
  end.

Lemma counter_inv bs : forall es p x,
  exists p' x', fst (orun (OC p) es) = OC p' /\
                feed bs (snd (orun (OC p) es)) (SCounter x) = SCounter x' /\
                x' + p' = x + p + sum_incs es.
Proof.
  induction es as [|e es IH]; intros p x; cbn [orun fst snd].
  - exists p, x. cbn. repeat split; lia.
  - destruct e as [a|].
    + destruct a as [v|b|d s|b|d]; cbn [oev_step oact_step fst snd app];
        try solve [destruct (IH p x) as (p' & x' & H1 & H2 & H3); exists p', x';
                   repeat split; auto; cbn [sum_incs]; lia].
      destruct (IH (p + v) x) as (p' & x' & H1 & H2 & H3). exists p', x'.
      repeat split; auto; cbn [sum_incs]; lia.
    + cbn [oev_step opass fst snd]. rewrite feed_app.
      destruct (Z.eqb_spec p 0) as [P|P].
      * subst p. cbn [feed fold_left]. destruct (IH 0 x) as (p' & x' & H1 & H2 & H3).
        exists p', x'. repeat split; auto; cbn [sum_incs]; lia.
      * cbn [feed fold_left apply]. destruct (IH 0 (x + p)) as (p' & x' & H1 & H2 & H3).
        exists p', x'. repeat split; auto; cbn [sum_incs]; lia.
Qed.

Lemma counter_final bs es :
  feed bs (snd (orun (OC 0) (es ++ [EPass]))) (SCounter 0) = SCounter (sum_incs es).
Proof.
  rewrite orun_app; cbn [snd]. rewrite feed_app.
  destruct (counter_inv bs es 0 0) as (p' & x' & H1 & H2 & H3). rewrite H1, H2.
  cbn. destruct (Z.eqb_spec p' 0); cbn; f_equal; lia.
Qed.

(* ---------------- gauge ---------------- *)
Fixpoint last_upd (es : list oev) (d : Z) : Z :=
  match es with
  | [] => d
  | EAct (AUpd b) :: r => last_upd r b
  | _ :: r => last_upd r d
  end.

Lemma gauge_inv bs : forall es u v g,
  exists u' v' g', fst (orun (OG u v) es) = OG u' v' /\
                   feed bs (snd (orun (OG u v) es)) (SGauge g) = SGauge g' /\
                   (if u' then v' else g') = last_upd es (if u then v else g).
Proof.
  induction es as [|e es IH]; intros u v g; cbn [orun fst snd].
  - exists u, v, g. cbn. auto.
  - destruct e as [a|].
    + destruct a as [x|b|d s|b|d]; cbn [oev_step oact_step fst snd app last_upd];
        try solve [destruct (IH u v g) as (u' & v' & g' & H1 & H2 & H3); exists u', v', g'; auto].
      destruct (IH true b g) as (u' & v' & g' & H1 & H2 & H3). exists u', v', g'; auto.
    + cbn [oev_step opass fst snd last_upd]. rewrite feed_app. destruct u; cbn [feed fold_left apply].
      * destruct (IH false v v) as (u' & v' & g' & H1 & H2 & H3). exists u', v', g'; auto.
      * destruct (IH false v g) as (u' & v' & g' & H1 & H2 & H3). exists u', v', g'; auto.
Qed.

Lemma gauge_final bs es :
  feed bs (snd (orun (OG false 0) (es ++ [EPass]))) (SGauge 0) = SGauge (last_upd es 0).
Proof.
  rewrite orun_app; cbn [snd]. rewrite feed_app.
  destruct (gauge_inv bs es false 0 0) as (u' & v' & g' & H1 & H2 & H3). rewrite H1, H2.
  cbn [orun oev_step opass fst snd]. rewrite app_nil_r. cbn in H3.
  destruct u'; cbn; congruence.
Qed.

(* ---------------- timer ---------------- *)
Fixpoint recs (es : list oev) : list Z :=
  match es with
  | [] => []
  | EAct (ARec _ s) :: r => s :: recs r
  | _ :: r => recs r
  end.

Lemma recs_app a b : recs (a ++ b) = recs a ++ recs b.
Proof.
  induction a as [|e a IH]; cbn; [reflexivity|].
  destruct e as [[]|]; cbn; now rewrite ?IH.
Qed.

Lemma timer_run es :
  fst (orun OT es) = OT /\ snd (orun OT es) = map (fun s => DObserve s 1) (recs es).
Proof.
  induction es as [|e es [IH1 IH2]]; cbn [orun fst snd]; [split; reflexivity|].
  destruct e as [[x|b|d s|b|d]|]; cbn [oev_step oact_step opass fst snd recs map app]; rewrite ?IH1, ?IH2; auto.
Qed.

Lemma summary_feed bs l c :
  feed bs (map (fun s => DObserve s 1) l) (SSummary c) = SSummary (c + Z.of_nat (length l)).
Proof.
  revert c; induction l as [|s l IH]; intro c; cbn [map feed fold_left apply length].
  - f_equal; lia.
  - fold (feed bs (map (fun s => DObserve s 1) l) (SSummary (c + 1))). rewrite IH. f_equal; lia.
Qed.

Lemma timer_summary_final bs es :
  feed bs (snd (orun OT (es ++ [EPass]))) (SSummary 0) = SSummary (Z.of_nat (length (recs es))).
Proof.
  destruct (timer_run (es ++ [EPass])) as [_ H]. rewrite H, recs_app. cbn [recs]. rewrite app_nil_r.
  now rewrite summary_feed.
Qed.

(* ---------------- Prometheus's histogram ---------------- *)
Fixpoint psum (n : nat) (cs : list Z) : Z :=
  match n, cs with
  | O, _ => 0
  | _, [] => 0
  | S m, c :: r => c + psum m r
  end.

Lemma addat_length i n cs : length (addat i n cs) = length cs.
Proof. revert i; induction cs as [|c cs IH]; intros [|i]; cbn; auto. Qed.

Lemma psum_addat : forall cs i n m,
  psum m (addat i n cs) = psum m cs + (if (i <? m)%nat && (i <? length cs)%nat then n else 0).
Proof.
  induction cs as [|c cs IH]; intros i n m.
  - destruct i, m; cbn; try lia. rewrite andb_false_r. lia.
  - destruct i as [|i], m as [|m]; cbn [addat psum length]; try (cbn; lia).
    rewrite IH. replace (S i <? S m)%nat with (i <? m)%nat by reflexivity.
    replace (S i <? S (length cs))%nat with (i <? length cs)%nat by reflexivity. lia.
Qed.

Lemma nth_cumul : forall cs acc j, (j < length cs)%nat -> nth j (cumul acc cs) 0 = acc + psum (S j) cs.
Proof.
  induction cs as [|c cs IH]; intros acc j L; cbn in L; [lia|].
  destruct j as [|j]; cbn [cumul nth psum].
  - destruct cs; cbn; lia.
  - rewrite IH by lia. cbn [psum]. lia.
Qed.

Lemma cumul_length cs acc : length (cumul acc cs) = length cs.
Proof. revert acc; induction cs; intro; cbn; auto. Qed.

Definition bounds_ok (bs : list Z) : Prop :=
  (forall i, (i < length bs)%nat -> fkey (nth i bs 0) <> None) /\
  (forall a b, (a <= b)%nat -> (b < length bs)%nat -> fge (nth b bs 0) (nth a bs 0) = true).

Lemma fge_trans a b c : fge a b = true -> fge b c = true -> fge a c = true.
Proof.
  unfold fge. destruct (fkey a), (fkey b), (fkey c); try discriminate.
  intros H1 H2. apply Z.leb_le in H1, H2. apply Z.leb_le. lia.
Qed.

(* the observation lands in a bucket <= j exactly when it is <= bound j *)
Lemma prom_idx_le bs f j : bounds_ok bs -> (j < length bs)%nat ->
  ((prom_idx bs f <= j)%nat <-> fge (nth j bs 0) f = true).
Proof.
  intros [D M] J. unfold prom_idx.
  assert (Mo : monotone (length bs) (fun i => fge (nth i bs 0) f)).
  { intros a b Hab Hb Ha. apply (fge_trans _ (nth a bs 0)); auto. }
  destruct (sort_search_least _ _ Mo) as (R1 & R2 & R3).
  set (r := sort_search (length bs) (fun i => fge (nth i bs 0) f)) in *.
  split; intro H.
  - apply (Mo r j); auto. apply R3. lia.
  - destruct (Nat.le_gt_cases r j) as [L|L]; auto. rewrite (R2 j L) in H. discriminate.
Qed.

Fixpoint obs_total (ds : list delivery) : Z :=
  match ds with
  | [] => 0
  | DObserve _ n :: r => n + obs_total r
  | _ :: r => obs_total r
  end.

Fixpoint obs_le (b : Z) (ds : list delivery) : Z :=
  match ds with
  | [] => 0
  | DObserve f n :: r => (if fge b f then n else 0) + obs_le b r
  | _ :: r => obs_le b r
  end.

Lemma obs_le_app b x y : obs_le b (x ++ y) = obs_le b x + obs_le b y.
Proof. induction x as [|[]]; cbn; lia. Qed.
Lemma obs_total_app x y : obs_total (x ++ y) = obs_total x + obs_total y.
Proof. induction x as [|[]]; cbn; lia. Qed.

Theorem prom_hist bs : bounds_ok bs -> forall ds cs t, length cs = length bs ->
  exists cs', feed bs ds (SHist cs t) = SHist cs' (t + obs_total ds) /\ length cs' = length bs /\
              forall j, (j < length bs)%nat ->
                        psum (S j) cs' = psum (S j) cs + obs_le (nth j bs 0) ds.
Proof.
  intro B. induction ds as [|d ds IH]; intros cs t L.
  - exists cs. cbn. repeat split; auto; try (f_equal; lia); intros; lia.
  - destruct d as [v|b|f n]; cbn [feed fold_left apply obs_total obs_le];
      try solve [destruct (IH cs t L) as (cs' & H1 & H2 & H3); exists cs'; auto].
    destruct (IH (addat (prom_idx bs f) n cs) (t + n)) as (cs' & H1 & H2 & H3).
    { now rewrite addat_length. }
    exists cs'. unfold feed in H1. rewrite H1. split; [f_equal; lia|]. split; [exact H2|].
    intros j J. rewrite (H3 j J), psum_addat, L.
    assert (E : ((prom_idx bs f <? S j)%nat && (prom_idx bs f <? length bs)%nat) = fge (nth j bs 0) f).
    { destruct (fge (nth j bs 0) f) eqn:G.
      - apply (prom_idx_le bs f j B J) in G. apply andb_true_iff; split; apply Nat.ltb_lt; lia.
      - apply andb_false_iff. left. apply Nat.ltb_ge.
        destruct (Nat.le_gt_cases (prom_idx bs f) j) as [Q|Q]; [|lia].
        apply (prom_idx_le bs f j B J) in Q. congruence. }
    rewrite E. lia.
Qed.

(* ---------------- tally's histogram feeding it ---------------- *)
(* weighted sum of per-bucket counts *)
Fixpoint wsum (phi : nat -> Z) (i : nat) (cnt : list Z) : Z :=
  match cnt with
  | [] => 0
  | c :: r => c * phi i + wsum phi (S i) r
  end.

Lemma wsum_bump phi : forall cnt i0 i, (i < length cnt)%nat ->
  wsum phi i0 (bump i cnt) = wsum phi i0 cnt + phi (i0 + i)%nat.
Proof.
  induction cnt as [|c cnt IH]; intros i0 i L; cbn in L; [lia|].
  destruct i as [|i]; cbn [bump wsum].
  - rewrite Nat.add_0_r. lia.
  - rewrite IH by lia. replace (S i0 + i)%nat with (i0 + S i)%nat by lia. lia.
Qed.

Lemma bump_length i cnt : length (bump i cnt) = length cnt.
Proof. revert i; induction cnt as [|c cnt IH]; intros [|i]; cbn; auto. Qed.

Lemma wsum_zero phi n i0 : wsum phi i0 (repeat 0 n) = 0.
Proof. revert i0; induction n as [|n IH]; intro i0; cbn; [reflexivity|]. rewrite IH. lia. Qed.

Lemma skipn_S_tl {A} (l : list A) i c r : skipn i l = c :: r -> skipn (S i) l = r.
Proof.
  revert i; induction l as [|x l IH]; intros [|i] H; cbn in *; try discriminate.
  - now inversion H.
  - now apply IH.
Qed.
Lemma skipn_nth {A} (l : list A) i c r d : skipn i l = c :: r -> nth i l d = c.
Proof.
  revert i; induction l as [|x l IH]; intros [|i] H; cbn in *; try discriminate.
  - now inversion H.
  - now apply IH.
Qed.

(* deliveries of a pass, from bucket i0 on *)
Lemma hpass_obs b secs cnt : forall n i0,
  obs_le b (flat_map (fun i => let c := nth i cnt 0 in
                               if c =? 0 then [] else [DObserve (nth i secs 0) c]) (seq i0 n)) =
  wsum (fun i => if fge b (nth i secs 0) then 1 else 0) i0 (firstn n (skipn i0 cnt)) +
  0 * Z.of_nat n.
Proof.
  induction n as [|n IH]; intro i0; cbn [seq flat_map firstn]; [cbn; lia|].
  rewrite obs_le_app, IH.
  destruct (skipn i0 cnt) as [|c r] eqn:Sk.
  - assert (L : (length cnt <= i0)%nat).
    { destruct (Nat.le_gt_cases (length cnt) i0); auto.
      assert (length (skipn i0 cnt) = 0%nat) by now rewrite Sk. rewrite skipn_length in H0. lia. }
    assert (Hs : skipn (S i0) cnt = []) by (apply skipn_all2; lia).
    rewrite (nth_overflow cnt 0 L), Hs. destruct n; cbn; lia.
  - pose proof (skipn_nth _ _ _ _ 0 Sk) as N. pose proof (skipn_S_tl _ _ _ _ Sk) as R.
    rewrite N, R. cbn [firstn wsum]. destruct (Z.eqb_spec c 0) as [C|C]; cbn [obs_le].
    + subst c. lia.
    + destruct (fge b (nth i0 secs 0)); lia.
Qed.

Lemma hpass_weight b h secs : length (hcnt h) = length (hus h) ->
  obs_le b (hpass h secs) = wsum (fun i => if fge b (nth i secs 0) then 1 else 0) 0 (hcnt h).
Proof.
  intro L. unfold hpass. rewrite hpass_obs. cbn [skipn]. rewrite <- L, firstn_all. lia.
Qed.

Lemma hpass_total_aux secs cnt : forall n i0,
  obs_total (flat_map (fun i => let c := nth i cnt 0 in
                                if c =? 0 then [] else [DObserve (nth i secs 0) c]) (seq i0 n)) =
  wsum (fun _ => 1) i0 (firstn n (skipn i0 cnt)).
Proof.
  induction n as [|n IH]; intro i0; cbn [seq flat_map firstn]; [reflexivity|].
  rewrite obs_total_app, IH.
  destruct (skipn i0 cnt) as [|c r] eqn:Sk.
  - assert (L : (length cnt <= i0)%nat).
    { destruct (Nat.le_gt_cases (length cnt) i0); auto.
      assert (length (skipn i0 cnt) = 0%nat) by now rewrite Sk. rewrite skipn_length in H0. lia. }
    assert (Hs : skipn (S i0) cnt = []) by (apply skipn_all2; lia).
    rewrite (nth_overflow cnt 0 L), Hs. destruct n; cbn; lia.
  - pose proof (skipn_nth _ _ _ _ 0 Sk) as N. pose proof (skipn_S_tl _ _ _ _ Sk) as R.
    rewrite N, R. cbn [firstn wsum]. destruct (Z.eqb_spec c 0) as [C|C]; cbn [obs_total]; lia.
Qed.

Lemma hpass_total h secs : length (hcnt h) = length (hus h) ->
  obs_total (hpass h secs) = wsum (fun _ => 1) 0 (hcnt h).
Proof.
  intro L. unfold hpass. rewrite hpass_total_aux. cbn [skipn]. now rewrite <- L, firstn_all.
Qed.

(* the samples an object of kind k accepts (the other Record* is ignored) *)
Fixpoint samples (k : kind) (es : list oev) : list Z :=
  match es with
  | [] => []
  | EAct (ARecV b) :: r => match k with KValue => b :: samples k r | KDuration => samples k r end
  | EAct (ARecD d) :: r => match k with KDuration => d :: samples k r | KValue => samples k r end
  | _ :: r => samples k r
  end.

Fixpoint sumf (phi : Z -> Z) (l : list Z) : Z :=
  match l with [] => 0 | x :: r => phi x + sumf phi r end.

Lemma record_idx_lt k us v : us <> [] -> (record_idx k us v < length us)%nat.
Proof.
  intro N. unfold record_idx. destruct us; [congruence|]. cbn [length].
  destruct (Nat.ltb_spec (search_idx k (z :: us) v) (S (length us))); cbn [length] in *; lia.
Qed.

(* conservation, weighted: what has been delivered plus what is pending is
   the weight of the buckets the samples were put in *)
Lemma hist_inv k us secs b (phi := fun i : nat => if fge b (nth i secs 0) then 1 else 0) :
  us <> [] ->
  forall es cnt, length cnt = length us ->
    exists cnt', fst (orun (OH (Hist k us cnt) secs) es) = OH (Hist k us cnt') secs /\
                 length cnt' = length us /\
                 obs_le b (snd (orun (OH (Hist k us cnt) secs) es)) + wsum phi 0 cnt' =
                 wsum phi 0 cnt + sumf (fun v => phi (record_idx k us v)) (samples k es) /\
                 obs_total (snd (orun (OH (Hist k us cnt) secs) es)) + wsum (fun _ => 1) 0 cnt' =
                 wsum (fun _ => 1) 0 cnt + Z.of_nat (length (samples k es)).
Proof.
  intros NE. induction es as [|e es IH]; intros cnt L; cbn [orun fst snd].
  - exists cnt. cbn. repeat split; auto; lia.
  - destruct e as [a|].
    + destruct a as [x|x|d s|v|d]; cbn [oev_step oact_step fst snd app samples];
        try solve [destruct (IH cnt L) as (c' & H1 & H2 & H3 & H4); exists c'; repeat split; auto].
      * (* RecordValue *)
        cbn [hstep hk hus hcnt]. destruct k; cbn [kind_eqb fst].
        -- destruct (IH (bump (record_idx KValue us v) cnt)) as (c' & H1 & H2 & H3 & H4).
           { now rewrite bump_length. }
           exists c'. split; [exact H1|]. split; [exact H2|].
           pose proof (record_idx_lt KValue us v NE) as R.
           rewrite !wsum_bump in * by lia. rewrite ?Nat.add_0_l in *. cbn [sumf length]. split; lia.
        -- destruct (IH cnt L) as (c' & H1 & H2 & H3 & H4). exists c'. repeat split; auto.
      * (* RecordDuration *)
        cbn [hstep hk hus hcnt]. destruct k; cbn [kind_eqb fst].
        -- destruct (IH cnt L) as (c' & H1 & H2 & H3 & H4). exists c'. repeat split; auto.
        -- destruct (IH (bump (record_idx KDuration us d) cnt)) as (c' & H1 & H2 & H3 & H4).
           { now rewrite bump_length. }
           exists c'. split; [exact H1|]. split; [exact H2|].
           pose proof (record_idx_lt KDuration us d NE) as R.
           rewrite !wsum_bump in * by lia. rewrite ?Nat.add_0_l in *. cbn [sumf length]. split; lia.
    + cbn [oev_step opass fst snd hstep hk hus hcnt samples].
      destruct (IH (repeat 0 (length us))) as (c' & H1 & H2 & H3 & H4).
      { now rewrite repeat_length. }
      exists c'. split; [exact H1|]. split; [exact H2|].
      rewrite obs_le_app, obs_total_app, hpass_weight, hpass_total by (cbn; auto).
      cbn [hcnt]. rewrite !wsum_zero in *. fold phi. split; lia.
Qed.

Lemma hist_final k us secs b es :
  us <> [] ->
  let ds := snd (orun (OH (Hist k us (repeat 0 (length us))) secs) (es ++ [EPass])) in
  obs_le b ds = sumf (fun v => if fge b (nth (record_idx k us v) secs 0) then 1 else 0) (samples k es) /\
  obs_total ds = Z.of_nat (length (samples k es)).
Proof.
  intros NE ds. subst ds. rewrite orun_app; cbn [snd].
  destruct (hist_inv k us secs b NE es (repeat 0 (length us)) (repeat_length _ _))
    as (c' & H1 & H2 & H3 & H4).
  rewrite H1. cbn [orun oev_step opass fst snd hstep hk hus hcnt]. rewrite app_nil_r.
  rewrite obs_le_app, obs_total_app, hpass_weight, hpass_total by (cbn; auto). cbn [hcnt].
  rewrite !wsum_zero in *. split; lia.
Qed.

(* ---------------- when does a sample count at bound j ---------------- *)
Definition le_k (k : kind) (a b : Z) : bool := ge_of k b a.       (* a <= b in the order of kind k *)

(* the sorted upper bounds [us] of a tally histogram, their values in seconds
   [secs] (the oracle; the identity for value histograms), a valid sample *)
Record hist_ok (k : kind) (us secs : list Z) : Prop := {
  ho_ne : us <> [];
  ho_len : length secs = length us;
  ho_mono : forall a b, (a <= b)%nat -> (b < length us)%nat -> le_k k (nth a us 0) (nth b us 0) = true;
  ho_trans : forall x y z, le_k k x y = true -> le_k k y z = true -> le_k k x z = true;
  ho_smono : forall a b, (a <= b)%nat -> (b < length us)%nat -> fge (nth b secs 0) (nth a secs 0) = true;
  (* a strictly larger bound is strictly larger in seconds: Prometheus needs strictly
     increasing bounds, and the overflow bucket must stay above them *)
  ho_strict : forall a b, (a < length us)%nat -> (b < length us)%nat ->
              le_k k (nth b us 0) (nth a us 0) = false -> fge (nth a secs 0) (nth b secs 0) = false
}.

Definition sample_ok (k : kind) (us : list Z) (v : Z) : Prop :=
  le_k k v (nth (length us - 1) us 0) = true /\          (* not above the overflow bucket: finite, not NaN *)
  forall j, (j < length us)%nat -> le_k k v (nth j us 0) = false -> le_k k (nth j us 0) v = true.   (* comparable *)

Lemma search_idx_spec k us v :
  forall (M : forall a b, (a <= b)%nat -> (b < length us)%nat -> le_k k (nth a us 0) (nth b us 0) = true)
         (T : forall x y z, le_k k x y = true -> le_k k y z = true -> le_k k x z = true),
  let r := search_idx k us v in
  (r <= length us)%nat /\ (forall i, (i < r)%nat -> le_k k v (nth i us 0) = false) /\
  ((r < length us)%nat -> le_k k v (nth r us 0) = true).
Proof.
  intros M T. unfold search_idx.
  apply (sort_search_least (length us) (fun i => ge_of k (nth i us 0) v)).
  intros a b Hab Hb Ha. unfold le_k in *. apply (T v (nth a us 0) (nth b us 0)); auto.
Qed.

(* the heart of it: the sample's bucket, replayed as an observation of the
   bucket's upper bound in seconds, is <= bound j in seconds exactly when the
   sample is <= bound j *)
Lemma replay_agrees k us secs v j : hist_ok k us secs -> sample_ok k us v -> (j < length us)%nat ->
  fge (nth j secs 0) (nth (record_idx k us v) secs 0) = le_k k v (nth j us 0).
Proof.
  intros H [Stop Scmp] J.
  destruct (search_idx_spec k us v (ho_mono _ _ _ H) (ho_trans _ _ _ H)) as (R1 & R2 & R3).
  pose proof (ho_ne _ _ _ H) as NE.
  assert (Len : (0 < length us)%nat) by (destruct us; [congruence | cbn; lia]).
  assert (Rlt : (search_idx k us v < length us)%nat).
  { destruct (Nat.lt_ge_cases (search_idx k us v) (length us)) as [Q|Q]; auto.
    rewrite (R2 (length us - 1)%nat) in Stop by lia. discriminate. }
  unfold record_idx. replace (search_idx k us v <? length us)%nat with true
    by (symmetry; apply Nat.ltb_lt; exact Rlt).
  set (r := search_idx k us v) in *.
  destruct (le_k k v (nth j us 0)) eqn:E.
  - (* v <= bound j: bucket r <= j *)
    assert (r <= j)%nat.
    { destruct (Nat.le_gt_cases r j); auto. rewrite (R2 j) in E by lia. discriminate. }
    apply (ho_smono _ _ _ H); auto.
  - (* v > bound j: bound r >= v > bound j, strictly *)
    apply (ho_strict _ _ _ H); auto.
    destruct (le_k k (nth r us 0) (nth j us 0)) eqn:Q; auto.
    rewrite (ho_trans _ _ _ H v (nth r us 0) (nth j us 0) (R3 Rlt) Q) in E. discriminate.
Qed.

Definition count_le (k : kind) (b : Z) (l : list Z) : Z :=
  sumf (fun v => if le_k k v b then 1 else 0) l.

Lemma sumf_ext f g l : (forall x, In x l -> f x = g x) -> sumf f l = sumf g l.
Proof.
  induction l as [|x l IH]; intro H; cbn; [reflexivity|].
  rewrite (H x (or_introl eq_refl)), IH; auto. intros; apply H; now right.
Qed.

(* C17 histogram agreement for one object: after a history of records and
   passes ending with a pass, a Prometheus histogram with bounds
   pb = the first n-1 of [secs] that was fed the object's deliveries shows at
   bound j the number of samples <= the j-th tally bound, and the total *)
Theorem histogram_final k us secs es cs0 :
  hist_ok k us secs ->
  let pb := firstn (length us - 1) secs in
  bounds_ok pb -> length cs0 = length pb ->
  (forall v, In v (samples k es) -> sample_ok k us v) ->
  exists cs t,
    feed pb (snd (orun (OH (Hist k us (repeat 0 (length us))) secs) (es ++ [EPass]))) (SHist cs0 0) =
      SHist cs t /\
    length cs = length pb /\
    t = Z.of_nat (length (samples k es)) /\
    forall j, (j < length pb)%nat ->
      psum (S j) cs = psum (S j) cs0 + count_le k (nth j us 0) (samples k es).
Proof.
  intros H pb B L Sok.
  destruct (prom_hist pb B (snd (orun (OH (Hist k us (repeat 0 (length us))) secs) (es ++ [EPass]))) cs0 0 L)
    as (cs & F1 & F2 & F3).
  exists cs, (0 + obs_total (snd (orun (OH (Hist k us (repeat 0 (length us))) secs) (es ++ [EPass])))).
  split; [exact F1|]. split; [exact F2|].
  assert (Lpb : length pb = (length us - 1)%nat).
  { unfold pb. rewrite firstn_length, (ho_len _ _ _ H). lia. }
  split.
  - destruct (hist_final k us secs 0 es (ho_ne _ _ _ H)) as [_ T]. cbv zeta in T. rewrite T. lia.
  - intros j J. rewrite (F3 j J). f_equal.
    destruct (hist_final k us secs (nth j pb 0) es (ho_ne _ _ _ H)) as [W _]. cbv zeta in W. rewrite W.
    unfold count_le. apply sumf_ext. intros v Hv.
    assert (nth j pb 0 = nth j secs 0).
    { unfold pb. rewrite <- (firstn_skipn (length us - 1) secs) at 2.
      rewrite app_nth1; [reflexivity|]. fold pb. lia. }
    rewrite H0, (replay_agrees k us secs v j H (Sok v Hv)) by lia. reflexivity.
Qed.

Lemma obs_total_map l : obs_total (map (fun s => DObserve s 1) l) = Z.of_nat (length l).
Proof. induction l; cbn [map obs_total length]; lia. Qed.
Lemma obs_le_map b l :
  obs_le b (map (fun s => DObserve s 1) l) = sumf (fun s => if fge b s then 1 else 0) l.
Proof. induction l; cbn [map obs_le sumf]; lia. Qed.

(* the histogram flavour of a timer: total = number of records, cumulative
   count at bound j = number of records whose seconds are <= bound j *)
Theorem timer_histogram_final bs es cs0 : bounds_ok bs -> length cs0 = length bs ->
  exists cs, feed bs (snd (orun OT (es ++ [EPass]))) (SHist cs0 0) = SHist cs (Z.of_nat (length (recs es))) /\
             length cs = length bs /\
             forall j, (j < length bs)%nat ->
               psum (S j) cs = psum (S j) cs0 +
                               sumf (fun s => if fge (nth j bs 0) s then 1 else 0) (recs es).
Proof.
  intros B L. destruct (timer_run (es ++ [EPass])) as [_ D]. rewrite D, recs_app. cbn [recs]. rewrite app_nil_r.
  destruct (prom_hist bs B (map (fun s => DObserve s 1) (recs es)) cs0 0 L) as (cs & F1 & F2 & F3).
  exists cs. rewrite F1, obs_total_map. split; [f_equal; lia|]. split; [exact F2|].
  intros j J. rewrite (F3 j J). f_equal. apply obs_le_map.
Qed.
