From Coq Require Import ZArith List Lia Bool Arith.
From Tally Require Import Model.Gauge Proof.GaugeP Model.Gauge2.
Import ListNotations.

(* ---- erasure ---- *)
Lemma map_upd {A B} (f : A -> B) l i x : map f (upd l i x) = upd (map f l) i (f x).
Proof. revert i; induction l as [|h l IH]; intros [|i]; cbn; auto. rewrite IH; auto. Qed.

Lemma upd_same {A} (l : list A) i x : nth_error l i = Some x -> upd l i x = l.
Proof. revert i; induction l as [|h l IH]; intros [|i] H; cbn in *; try discriminate; auto.
  - inversion H; auto.
  - rewrite IH; auto. Qed.

Lemma nth_map_erase l i : nth_error (map erase l) i = option_map erase (nth_error l i).
Proof. revert i; induction l as [|h l IH]; intros [|i]; cbn; auto. Qed.

Lemma base_step s i :
  base (step2 s i) =
  match nth_error (thr2 s) i with
  | Some t => if delivering t then base s else step (base s) i
  | None => step (base s) i
  end.
Proof.
  unfold step2, step. cbn [base thr]. rewrite nth_map_erase.
  destruct (nth_error (thr2 s) i) as [t|] eqn:E; cbn [option_map]; [|reflexivity].
  destruct t as [[[|v rest]|rest]|[[|n]|n|n v]]; cbn [erase delivering]; try reflexivity.
  - unfold base, set_thr2, set_thr; cbn. rewrite map_upd. reflexivity.
  - unfold base, set_thr2, set_thr; cbn. rewrite map_upd. reflexivity.
  - cbn [base updated]. destruct (updated2 s); unfold base, set_thr2, set_thr; cbn; rewrite map_upd; reflexivity.
  - unfold base, set_thr2, set_thr; cbn. rewrite map_upd. reflexivity.
  - unfold base, set_thr2; cbn. rewrite map_upd. cbn [erase].
    rewrite upd_same; auto. rewrite nth_map_erase, E. reflexivity.
Qed.

Lemma base_run sched : forall s, base (run2 s sched) = run (base s) (bsched s sched).
Proof.
  induction sched as [|i r IH]; intros s; cbn [run2 fold_left bsched]; [reflexivity|].
  fold (run2 (step2 s i) r). rewrite IH. pose proof (base_step s i) as B.
  destruct (nth_error (thr2 s) i) as [t|] eqn:E.
  - destruct (delivering t); rewrite B; reflexivity.
  - rewrite B. reflexivity.
Qed.

Lemma base_init ths : base (init2 ths) = init (map erase ths).
Proof. reflexivity. Qed.

(* ---- what the reporter has received against what was loaded ---- *)
Fixpoint cnt2 (w : thread2 -> nat) (l : list thread2) : nat :=
  match l with [] => 0 | t :: r => w t + cnt2 w r end.

Lemma cnt2_upd w l i t t' : nth_error l i = Some t -> cnt2 w (upd l i t') + w t = cnt2 w l + w t'.
Proof. revert i; induction l as [|h l IH]; intros [|i] H; cbn in *; try discriminate.
  - inversion H; subst. lia.
  - specialize (IH _ H). lia. Qed.

Definition wv (v : Z) (t : thread2) : nat :=
  match t with T2R (R2Deliver _ w) => if Z.eq_dec w v then 1 else 0 | _ => 0 end.
Definition wd (t : thread2) : nat := if delivering t then 1 else 0.
Definition ndeliv (s : sys2) : nat := cnt2 wd (thr2 s).

Lemma wv_le_wd v t : wv v t <= wd t.
Proof. destruct t as [pc|[n|n|n w]]; cbn; auto. destruct (Z.eq_dec w v); lia. Qed.
Lemma cnt2_le w1 w2 l : (forall t, w1 t <= w2 t) -> cnt2 w1 l <= cnt2 w2 l.
Proof. intros H; induction l as [|t r IH]; cbn; auto. specialize (H t). lia. Qed.

Record J (s : sys2) : Prop := {
  j_count : forall v, count_occ Z.eq_dec (loads s) v = count_occ Z.eq_dec (dlog s) v + cnt2 (wv v) (thr2 s);
  j_len : length (loads s) = length (dlog s) + ndeliv s }.

Lemma j_step s i : J s -> J (step2 s i).
Proof.
  intros [Hc Hl]. unfold step2. destruct (nth_error (thr2 s) i) as [t|] eqn:E; [|constructor; auto].
  assert (K : forall t', wd t' = wd t -> (forall v, wv v t' = wv v t) ->
              forall s', loads s' = loads s -> dlog s' = dlog s -> thr2 s' = thr2 s -> J (set_thr2 s' i t')).
  { intros t' Wd Wv s' E1 E2 E3. constructor; unfold ndeliv, set_thr2; cbn; rewrite E1, E2, E3.
    - intros v. pose proof (cnt2_upd (wv v) _ _ _ t' E). rewrite (Wv v) in H. rewrite (Hc v). lia.
    - pose proof (cnt2_upd wd _ _ _ t' E). rewrite Wd in H. unfold ndeliv in Hl. lia. }
  destruct t as [[[|v rest]|rest]|[[|n]|n|n w]]; try (constructor; auto; fail).
  - apply K; auto.
  - apply K; auto.
  - destruct (updated2 s); apply K; auto.
  - (* load *)
    constructor; unfold ndeliv, set_thr2; cbn.
    + intros v. pose proof (cnt2_upd (wv v) _ _ _ (T2R (R2Deliver n (curr2 s))) E) as H. cbn in H.
      specialize (Hc v). destruct (Z.eq_dec (curr2 s) v); lia.
    + pose proof (cnt2_upd wd _ _ _ (T2R (R2Deliver n (curr2 s))) E) as H. cbn in H. unfold ndeliv in Hl. lia.
  - (* deliver *)
    constructor; unfold ndeliv, set_thr2; cbn.
    + intros v. pose proof (cnt2_upd (wv v) _ _ _ (T2R (R2Idle n)) E) as H. cbn in H.
      specialize (Hc v). destruct (Z.eq_dec w v); lia.
    + pose proof (cnt2_upd wd _ _ _ (T2R (R2Idle n)) E) as H. cbn in H. unfold ndeliv in Hl. lia.
Qed.

Lemma j_run sched : forall s, J s -> J (run2 s sched).
Proof. induction sched as [|i r IH]; cbn; intros; auto. apply IH, j_step; auto. Qed.

Lemma cnt2_zero w l : (forall t, In t l -> w t = 0) -> cnt2 w l = 0.
Proof. induction l as [|t r IH]; intros H; cbn; auto. rewrite (H t), IH; auto.
  - intros; apply H; right; auto.
  - left; auto. Qed.

Lemma j_init ths : forallb init_thr2 ths = true -> J (init2 ths).
Proof. intros H. rewrite forallb_forall in H. constructor; unfold ndeliv; cbn.
  - intros v. rewrite cnt2_zero; auto. intros t Ht. specialize (H t Ht).
    destruct t as [pc|[n|n|n w]]; cbn in *; auto; discriminate.
  - rewrite cnt2_zero; auto. intros t Ht. specialize (H t Ht).
    destruct t as [pc|[n|n|n w]]; cbn in *; auto; discriminate.
Qed.

(* ---- transfer of the hypotheses to the erased state ---- *)
Definition alldone2 (s : sys2) : Prop :=
  forall t, In t (thr2 s) -> match t with T2U (UIdle []) => True | T2U _ => False | T2R _ => True end.
Definition nload2 (s : sys2) : nat :=
  cnt2 (fun t => match t with T2R (R2Load _) => 1 | _ => 0 end) (thr2 s).

Lemma alldone_base s : alldone2 s -> alldone (base s).
Proof. intros H t Ht. cbn in Ht. apply in_map_iff in Ht as [t2 [<- Hin]]. specialize (H t2 Hin).
  destruct t2 as [[[|v r]|r]|[n|n|n w]]; cbn in *; auto. Qed.

Lemma nload_base s : nload (base s) = nload2 s.
Proof. unfold nload, nload2; cbn. induction (thr2 s) as [|t r IH]; cbn; auto.
  destruct t as [pc|[n|n|n w]]; cbn; auto. Qed.

Lemma init_ok ths : forallb init_thr2 ths = true ->
  forall t, In t (map erase ths) -> flagging t = false /\ loading t = false.
Proof. intros H t Ht. rewrite forallb_forall in H. apply in_map_iff in Ht as [t2 [<- Hin]].
  specialize (H t2 Hin). destruct t2 as [[l|l]|[n|n|n w]]; cbn in *; auto; discriminate. Qed.

Lemma count_pos_in (l : list Z) v : 0 < count_occ Z.eq_dec l v -> In v l.
Proof. intros H. apply (count_occ_In Z.eq_dec). lia. Qed.

(* ---- the theorems ---- *)
Section Reach.
Variable ths : list thread2.
Hypothesis H0 : forallb init_thr2 ths = true.
Variable sched : list nat.
Let s := run2 (init2 ths) sched.

(* every value the reporter received is a value that a pass loaded, hence one passed to Update *)
Theorem delivered2_was_updated : forall v, In v (dlog s) -> In v (stored2 s).
Proof.
  intros v Hv. pose proof (j_run sched _ (j_init _ H0)) as [Hc _]. fold s in Hc.
  assert (L : In v (loads s)).
  { apply count_pos_in. rewrite Hc. apply (count_occ_In Z.eq_dec) in Hv. lia. }
  pose proof (gauge_all (map erase ths) (bsched (init2 ths) sched) (init_ok _ H0)) as [A _].
  rewrite <- base_init, <- base_run in A. fold s in A. cbn in A. apply A, L.
Qed.

Theorem deliveries2_le_updates : length (dlog s) <= flags2 s.
Proof.
  pose proof (j_run sched _ (j_init _ H0)) as [_ Hl]. fold s in Hl.
  pose proof (gauge_all (map erase ths) (bsched (init2 ths) sched) (init_ok _ H0)) as [_ [B _]].
  rewrite <- base_init, <- base_run in B. fold s in B. cbn in B. lia.
Qed.

(* freshness with the delivery split off: once the updates have stopped, no pass is between its swap
   and its load and the flag is down, the newest LOAD is the last update, and the reporter has
   received that value or a pass still holds it in its hands *)
Theorem fresh2 :
  alldone2 s -> nload2 s = 0 -> updated2 s = false -> stored2 s <> [] ->
  let last := hd 0%Z (stored2 s) in
  hd_error (loads s) = Some last /\
  (In last (dlog s) \/ exists n, In (T2R (R2Deliver n last)) (thr2 s)) /\
  (ndeliv s = 0 -> In last (dlog s)).
Proof.
  intros A N U S last.
  pose proof (gauge_all (map erase ths) (bsched (init2 ths) sched) (init_ok _ H0)) as [_ [_ F]].
  rewrite <- base_init, <- base_run in F. fold s in F.
  specialize (F (alldone_base _ A)). rewrite nload_base in F. specialize (F N U S).
  change (hd_error (loads s) = Some last) in F.
  pose proof (j_run sched _ (j_init _ H0)) as [Hc Hl]. fold s in Hc, Hl.
  assert (P : 0 < count_occ Z.eq_dec (loads s) last).
  { destruct (loads s) as [|x r]; cbn in F; [discriminate|]. inversion F; subst. cbn.
    destruct (Z.eq_dec last last); [lia|congruence]. }
  split; [exact F|]. split.
  - specialize (Hc last). destruct (Nat.eq_dec (count_occ Z.eq_dec (dlog s) last) 0) as [Z0|NZ].
    + right. assert (C : 0 < cnt2 (wv last) (thr2 s)) by lia. clear - C.
      induction (thr2 s) as [|t r IH]; cbn in *; [lia|].
      destruct t as [pc|[n|n|n w]]; cbn in C; try (destruct (IH C) as [n' Hn]; exists n'; right; exact Hn).
      destruct (Z.eq_dec w last) as [->|NE].
      * exists n. left. reflexivity.
      * destruct (IH C) as [n' Hn]. exists n'. right. exact Hn.
    + left. apply count_pos_in. lia.
  - intros D. apply count_pos_in. specialize (Hc last).
    pose proof (cnt2_le (wv last) wd (thr2 s) (wv_le_wd last)). unfold ndeliv in D. lia.
Qed.
End Reach.

(* what the reporter has received only grows *)
Lemma dlog_grows sched : forall s, exists more, dlog (run2 s sched) = more ++ dlog s.
Proof. induction sched as [|i r IH]; intros s; cbn; [exists []; reflexivity|].
  destruct (IH (step2 s i)) as [more E]. fold (run2 (step2 s i) r). rewrite E.
  unfold step2. destruct (nth_error (thr2 s) i) as [t|]; [|exists more; reflexivity].
  destruct t as [[[|v rest]|rest]|[[|n]|n|n w]]; cbn; try (exists more; reflexivity).
  - destruct (updated2 s); cbn; exists more; reflexivity.
  - exists (more ++ [w]). rewrite <- app_assoc. reflexivity.
Qed.

(* no re-delivery: from a state with every updater finished, the flag down and no pass holding
   anything, the reporter receives nothing more *)
Theorem no_redelivery2 s1 sched :
  J s1 -> alldone2 s1 -> nload2 s1 = 0 -> ndeliv s1 = 0 -> updated2 s1 = false ->
  dlog (run2 s1 sched) = dlog s1.
Proof.
  intros Hj A N D U.
  pose proof (no_redelivery (base s1) (bsched s1 sched) (alldone_base _ A)) as R.
  rewrite nload_base in R. specialize (R N U). rewrite <- base_run in R. cbn in R.
  pose proof (j_run sched _ Hj) as [_ L2]. destruct Hj as [_ L1].
  destruct (dlog_grows sched s1) as [more E]. rewrite R in L2. rewrite E in *. rewrite app_length in L2.
  assert (length more = 0) by lia. destruct more; [reflexivity|discriminate].
Qed.
