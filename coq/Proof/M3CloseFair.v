(* C14: termination of every call, in particular of Close, under EVERY fair schedule.
   A covering segment is a list of picks in which every pick (the consumer 0 and every caller
   thread) occurs; a schedule made of mu(init) covering segments finishes every call; and every
   infinite schedule in which every pick occurs infinitely often has such a prefix. *)
From Coq Require Import ZArith List Bool Arith Lia.
From Tally Require Import Model.M3Close Proof.M3CloseP Proof.M3CloseQ.
Import ListNotations.

Definition covering (n : nat) (seg : list nat) : Prop := forall j, j <= n -> In j seg.

Section Fair.
Variable sh : bool.
Variable cap : nat.
Hypothesis cap_pos : 1 <= cap.

Lemma segs_terminate segs : forall s, Inv cap s ->
  Forall (covering (length (thr s))) segs -> mu s <= length segs ->
  all_finished (run sh cap s (concat segs)) = true.
Proof.
  induction segs as [|seg segs IH]; intros s HI Hc Hk.
  - cbn in *. destruct (all_finished s) eqn:Hf; [reflexivity|].
    destruct (deadlock_free cap cap_pos s HI Hf) as (j & He).
    pose proof (mu_step sh cap cap_pos s j HI) as Hm. rewrite He in Hm. lia.
  - cbn [concat]. rewrite run_app. inversion Hc as [|? ? Hseg Hrest]; subst.
    destruct (all_finished s) eqn:Hf.
    + apply finished_run; [assumption|apply run_inv; assumption|]. apply finished_run; assumption.
    + destruct (deadlock_free cap cap_pos s HI Hf) as (j & He).
      assert (Hj : In j seg).
      { apply Hseg. destruct j as [|i]; [lia|]. cbn in He. unfold tenabled in He.
        destruct (nth_error (thr s) i) eqn:E; [|discriminate].
        assert (i < length (thr s)) by (apply nth_error_Some; congruence). lia. }
      pose proof (round_progress sh cap cap_pos seg s HI (ex_intro _ j (conj Hj He))) as Hlt.
      pose proof (run_inv sh cap cap_pos seg s HI) as HI1.
      pose proof (length_thr_run sh cap seg s) as Hlen.
      apply IH; [assumption| |cbn [length] in Hk; lia].
      rewrite Hlen. assumption.
Qed.

End Fair.

(* ---- infinite schedules ---- *)
Definition prefix (f : nat -> nat) (a len : nat) : list nat := map f (seq a len).
(* every pick occurs infinitely often *)
Definition fair (n : nat) (f : nat -> nat) : Prop := forall j, j <= n -> forall t, exists t', t <= t' /\ f t' = j.

Lemma prefix_app f a l1 l2 : prefix f a (l1 + l2) = prefix f a l1 ++ prefix f (a + l1) l2.
Proof. unfold prefix. rewrite seq_app, map_app. reflexivity. Qed.

Lemma prefix_in f a len t : a <= t -> t < a + len -> In (f t) (prefix f a len).
Proof. intros H1 H2. unfold prefix. apply in_map. apply in_seq. lia. Qed.

Lemma fair_cover n f : fair n f -> forall m, m <= n -> forall a, exists len, forall j, j <= m -> In j (prefix f a len).
Proof.
  intros Hf m. induction m as [|m IH]; intros Hm a.
  - destruct (Hf 0 ltac:(lia) a) as (t & Ht & E). exists (S (t - a)). intros j Hj.
    assert (j = 0) by lia. subst. rewrite <- E. apply prefix_in; lia.
  - destruct (IH ltac:(lia) a) as (len & Hlen). destruct (Hf (S m) Hm a) as (t & Ht & E).
    exists (len + S (t - a)). intros j Hj. rewrite prefix_app. apply in_or_app.
    destruct (Nat.eq_dec j (S m)) as [->|N].
    + destruct (Nat.lt_ge_cases t (a + len)) as [L|L].
      * left. rewrite <- E. apply prefix_in; lia.
      * right. rewrite <- E. apply prefix_in; lia.
    + left. apply Hlen. lia.
Qed.

Lemma fair_segs n f : fair n f -> forall k a, exists len segs,
  prefix f a len = concat segs /\ length segs = k /\ Forall (covering n) segs.
Proof.
  intros Hf k. induction k as [|k IH]; intros a.
  - exists 0, []. cbn. auto.
  - destruct (fair_cover n f Hf n (Nat.le_refl _) a) as (l1 & H1).
    destruct (IH (a + l1)) as (l2 & segs & E & L & C).
    exists (l1 + l2), (prefix f a l1 :: segs). rewrite prefix_app, E. cbn. repeat split; auto.
Qed.

(* under every fair schedule every call returns: there is a time T after which, for ever, every
   call of every thread has returned; and if anybody called Close, process() has exited and the
   queue is empty *)
Theorem fair_terminates : forall shared cap progs f, 1 <= cap -> fair (length progs) f ->
  exists T, forall T', T <= T' ->
  let s := run shared cap (init progs) (prefix f 0 T') in
  all_finished s = true /\ (done s = true -> kl s = KDone /\ q s = []).
Proof.
  intros shared cap progs f Hc Hf.
  destruct (fair_segs _ f Hf (mu (init progs)) 0) as (T & segs & E & L & C).
  exists T. intros T' HT s.
  assert (HI0 : Inv cap (init progs)) by (apply init_inv; assumption).
  assert (Hlen : length (thr (init progs)) = length progs) by (cbn; apply map_length).
  assert (Hfin : all_finished s = true).
  { unfold s. replace T' with (T + (T' - T)) by lia. rewrite prefix_app, run_app.
    apply finished_run; [assumption|apply run_inv; assumption|]. rewrite E.
    apply segs_terminate; [assumption|assumption|rewrite Hlen; assumption|lia]. }
  split; [assumption|]. intros D.
  pose proof (reach_inv shared cap Hc progs (prefix f 0 T')) as HI. fold s in HI.
  pose proof (one_nil_close shared cap Hc progs (prefix f 0 T')) as H1.
  cbv zeta in H1. fold s in H1. rewrite D in H1.
  assert (Hz : wsum closing (thr s) = 0).
  { apply wsum_zero. intros t Ht. unfold all_finished in Hfin. rewrite forallb_forall in Hfin.
    specialize (Hfin t Ht). unfold finished in Hfin. unfold closing. destruct (tloc t); try discriminate; reflexivity. }
  destruct (closed_facts cap Hc s HI) as (Kl & _ & _ & Q & _); [lia|]. auto.
Qed.

(* the finite form: any schedule made of mu(init) covering segments *)
Theorem segments_terminate : forall shared cap progs segs, 1 <= cap ->
  Forall (covering (length progs)) segs -> mu (init progs) <= length segs ->
  all_finished (run shared cap (init progs) (concat segs)) = true.
Proof.
  intros shared cap progs segs Hc HC Hk. apply segs_terminate; auto.
  - apply init_inv; assumption.
  - replace (length (thr (init progs))) with (length progs) by (cbn; symmetry; apply map_length). assumption.
Qed.
