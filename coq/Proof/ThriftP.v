(* Generic proofs over a protocol that satisfies [proto_ok]: the generated
   writers amount to one transport write of the pure encoding and leave the
   protocol state as it was; decoding an encoding gives the value back;
   sizes.  Proof/ThriftCompactP.v and Proof/ThriftBinaryP.v show that the
   two protocols satisfy [proto_ok]. *)
From Coq Require Import ZArith List Bool Lia.
From Tally Require Import Base.ObsCore Model.Varint Model.Thrift Proof.VarintP.
Import ListNotations.
Open Scope Z_scope.

(* ---- what can be put in the Go structures ---- *)
Definition str_ok (s : bytes) : Prop := Z.of_nat (length s) < 2147483648.
Definition tag_ok (t : tag) : Prop := str_ok (tname t) /\ str_ok (tvalue t).
Definition tags_ok (l : list tag) : Prop := Forall tag_ok l /\ Z.of_nat (length l) < 2147483648.
Definition opt_tags_ok (o : option (list tag)) : Prop := match o with None => True | Some l => tags_ok l end.
Definition value_ok (v : mvalue) : Prop :=
  int32 (mtype v) /\ int64 (mcount v) /\ bits64 (mgauge v) /\ int64 (mtimer v).
Definition metric_ok (m : metric) : Prop :=
  str_ok (mname m) /\ value_ok (mval m) /\ int64 (mts m) /\ opt_tags_ok (mtags m).
Definition batch_ok (b : batch) : Prop :=
  Forall metric_ok (bmetrics b) /\ Z.of_nat (length (bmetrics b)) < 2147483648 /\ opt_tags_ok (bcommon b).

Definition used_type (ty : Z) : Prop :=
  ty = T_DOUBLE \/ ty = T_I32 \/ ty = T_I64 \/ ty = T_STRING \/ ty = T_STRUCT \/ ty = T_LIST.

(* ---- the laws a protocol has to satisfy ---- *)
Record proto_ok (P : proto) : Prop := {
  (* writer: chunks concatenate to the pure encodings; struct begin/end bracket the field-id state *)
  wl_sb : forall p, w_sb P p = p_inside P p 0;
  wl_se : forall p l, w_se P (p_inside P p l) = p;
  wl_fb : forall ty id p l, w_fb P ty id (p_inside P p l) = (fst (w_fb P ty id (p_inside P p l)), p_inside P p id) /\
                            concat (fst (w_fb P ty id (p_inside P p l))) = e_fb P l ty id;
  wl_stop : concat (w_stop P) = e_stop P;
  wl_i32 : forall v, concat (w_i32 P v) = e_i32 P v;
  wl_i64 : forall v, concat (w_i64 P v) = e_i64 P v;
  wl_double : forall v, concat (w_double P v) = e_double P v;
  wl_str : forall s, concat (w_str P s) = e_str P s;
  wl_lb : forall ty n, concat (w_lb P ty n) = e_lb P ty n;
  wl_mb : forall name ty seq, concat (w_mb P name ty seq) = e_mb P name ty seq;
  (* readers invert the encoders *)
  ok_fb : forall last ty id rest, used_type ty -> 0 <= last < id -> id <= 15 ->
          r_fb P last (e_fb P last ty id ++ rest) = Some (Some (ty, id), rest);
  ok_stop : forall last rest, r_fb P last (e_stop P ++ rest) = Some (None, rest);
  ok_i32 : forall v rest, int32 v -> r_i32 P (e_i32 P v ++ rest) = Some (v, rest);
  ok_i64 : forall v rest, int64 v -> r_i64 P (e_i64 P v ++ rest) = Some (v, rest);
  ok_double : forall v rest, bits64 v -> r_double P (e_double P v ++ rest) = Some (v, rest);
  ok_str : forall s rest, str_ok s -> r_str P (e_str P s ++ rest) = Some (s, rest);
  ok_lb : forall n rest, 0 <= n < 2147483648 ->
          r_lb P (e_lb P T_STRUCT n ++ rest) = Some ((T_STRUCT, n), rest);
  ok_mb : forall name ty seq rest, str_ok name -> 0 <= ty < 8 -> int32 seq ->
          r_mb P (e_mb P name ty seq ++ rest) = Some ((name, ty, seq), rest);
  (* sizes *)
  sz_stop : (1 <= length (e_stop P))%nat;
  sz_i64 : forall v, int64 v -> (length (e_i64 P v) <= length (e_i64 P MAXI64))%nat;
  sz_double : forall v w, length (e_double P v) = length (e_double P w)
}.

(* ---- transports ---- *)
Lemma rev_append_app {A} (a b l : list A) : rev_append (a ++ b) l = rev_append b (rev_append a l).
Proof. revert l; induction a as [|x a IH]; intro l; cbn; [reflexivity | apply IH]. Qed.
Lemma tws_nil t : tws [] t = t.
Proof. destruct t as [r c]. unfold tws; cbn. f_equal. lia. Qed.
Lemma tws_tws a b t : tws b (tws a t) = tws (a ++ b) t.
Proof.
  destruct t as [r c]. unfold tws; cbn [trev tcnt]. rewrite rev_append_app. f_equal.
  rewrite app_length. lia.
Qed.
Lemma twl_concat chs : forall t, twl chs t = tws (concat chs) t.
Proof.
  induction chs as [|c chs IH]; intro t; cbn [twl fold_left concat].
  - symmetry; apply tws_nil.
  - change (fold_left (fun t c => tws c t) chs (tws c t)) with (twl chs (tws c t)).
    rewrite IH. apply tws_tws.
Qed.
Lemma tout_tws ch t : tout (tws ch t) = tout t ++ ch.
Proof.
  destruct t as [r c]. unfold tout, tws; cbn [trev]. rewrite !rev_append_rev, !app_nil_r, rev_app_distr, rev_involutive.
  reflexivity.
Qed.
Lemma tcnt_tws ch t : tcnt (tws ch t) = tcnt t + Z.of_nat (length ch).
Proof. reflexivity. Qed.

Section Generic.
Variable P : proto.
Hypothesis OK : proto_ok P.

(* ---- writers ---- *)
Lemma put_spec chs t p : put P chs (t, p) = (tws (concat chs) t, p).
Proof. unfold put; cbn [fst snd]. rewrite twl_concat. reflexivity. Qed.
Lemma sb_spec t p : sb P (t, p) = (t, p_inside P p 0).
Proof. unfold sb; cbn [fst snd]. rewrite (wl_sb P OK). reflexivity. Qed.
Lemma se_spec t p l : se P (t, p_inside P p l) = (t, p).
Proof. unfold se; cbn [fst snd]. rewrite (wl_se P OK). reflexivity. Qed.
Lemma fb_spec ty id t p l : fb P ty id (t, p_inside P p l) = (tws (e_fb P l ty id) t, p_inside P p id).
Proof.
  unfold fb; cbn [fst snd]. destruct (wl_fb P OK ty id p l) as [E1 E2].
  rewrite E1; cbn [fst snd]. rewrite twl_concat, E2. reflexivity.
Qed.

Ltac wr_norm :=
  repeat first [ rewrite sb_spec | rewrite fb_spec | rewrite put_spec | rewrite se_spec
               | rewrite (wl_stop P OK) | rewrite (wl_i32 P OK) | rewrite (wl_i64 P OK)
               | rewrite (wl_double P OK) | rewrite (wl_str P OK) | rewrite (wl_lb P OK)
               | rewrite (wl_mb P OK) | rewrite tws_tws ].

Lemma wr_tag_spec tg t p : wr_tag P tg (t, p) = (tws (e_tag P tg) t, p).
Proof.
  unfold wr_tag, e_tag. wr_norm. rewrite <- ?app_assoc. reflexivity.
Qed.

Lemma wr_list_spec {A} (wr : A -> wstate P -> wstate P) (e : A -> bytes) :
  (forall x t p, wr x (t, p) = (tws (e x) t, p)) ->
  forall l t p, wr_list P wr l (t, p) = (tws (concat (map e l)) t, p).
Proof.
  intros Hx l; induction l as [|x l IH]; intros t p; cbn [wr_list fold_left map concat].
  - rewrite tws_nil. reflexivity.
  - change (fold_left (fun w x => wr x w) l (wr x (t, p))) with (wr_list P wr l (wr x (t, p))).
    rewrite Hx, IH, tws_tws. reflexivity.
Qed.

Lemma wr_tags_spec l t p : wr_tags P l (t, p) = (tws (e_tags P l) t, p).
Proof.
  unfold wr_tags, e_tags. wr_norm. rewrite (wr_list_spec (wr_tag P) (e_tag P) wr_tag_spec).
  rewrite tws_tws. reflexivity.
Qed.

Lemma wr_value_spec v t p : wr_value P v (t, p) = (tws (e_value P v) t, p).
Proof.
  unfold wr_value, e_value. wr_norm. rewrite <- ?app_assoc. reflexivity.
Qed.

Lemma wr_opt_tags_spec id o t p l :
  wr_opt_tags P id o (t, p_inside P p l) =
  (tws (e_opt_tags P l id o) t, p_inside P p (match o with None => l | Some _ => id end)).
Proof.
  destruct o as [ts|]; cbn [wr_opt_tags e_opt_tags].
  - rewrite fb_spec, wr_tags_spec, tws_tws. reflexivity.
  - rewrite tws_nil. reflexivity.
Qed.

Lemma wr_metric_spec m t p : wr_metric P m (t, p) = (tws (e_metric P m) t, p).
Proof.
  unfold wr_metric, e_metric. wr_norm. rewrite wr_value_spec. wr_norm.
  rewrite wr_opt_tags_spec. wr_norm. rewrite <- ?app_assoc. reflexivity.
Qed.

Lemma wr_batch_spec b t p : wr_batch P b (t, p) = (tws (e_batch P b) t, p).
Proof.
  unfold wr_batch, e_batch. wr_norm.
  rewrite (wr_list_spec (wr_metric P) (e_metric P) wr_metric_spec).
  rewrite wr_opt_tags_spec. wr_norm. rewrite <- ?app_assoc. reflexivity.
Qed.

Lemma wr_args_spec b t p : wr_args P b (t, p) = (tws (e_args P b) t, p).
Proof.
  unfold wr_args, e_args. wr_norm. rewrite wr_batch_spec. wr_norm. rewrite <- ?app_assoc. reflexivity.
Qed.

Lemma wr_emit_spec seq b t p : wr_emit P seq b (t, p) = (tws (e_emit P seq b) t, p).
Proof.
  unfold wr_emit, e_emit. wr_norm. rewrite wr_args_spec. wr_norm. reflexivity.
Qed.

(* fresh buffer / reset counter *)
Lemma tout_tr0 bs : tout (tws bs tr0) = bs.
Proof. rewrite tout_tws. reflexivity. Qed.
Lemma count_tr0 bs : get_count (tws bs tr0) = wrap32 (Z.of_nat (length bs)).
Proof. unfold get_count. rewrite tcnt_tws. reflexivity. Qed.

Lemma encode_metric_eq p m : encode_metric P p m = e_metric P m.
Proof. unfold encode_metric. rewrite wr_metric_spec. apply tout_tr0. Qed.
Lemma encode_batch_eq p b : encode_batch P p b = e_batch P b.
Proof. unfold encode_batch. rewrite wr_batch_spec. apply tout_tr0. Qed.
Lemma encode_emit_eq p seq b : encode_emit P p seq b = e_emit P seq b.
Proof. unfold encode_emit. rewrite wr_emit_spec. apply tout_tr0. Qed.
Lemma calc_metric_eq p m : calc_metric P p m = wrap32 (Z.of_nat (length (e_metric P m))).
Proof. unfold calc_metric. rewrite wr_metric_spec. apply count_tr0. Qed.
Lemma calc_batch_eq p b : calc_batch P p b = wrap32 (Z.of_nat (length (e_batch P b))).
Proof. unfold calc_batch. rewrite wr_batch_spec. apply count_tr0. Qed.
Lemma calc_emit_eq p seq b : calc_emit P p seq b = wrap32 (Z.of_nat (length (e_emit P seq b))).
Proof. unfold calc_emit. rewrite wr_emit_spec. apply count_tr0. Qed.

(* ---- readers ---- *)
Lemma used_double : used_type T_DOUBLE. Proof. unfold used_type; auto. Qed.
Lemma used_i32 : used_type T_I32. Proof. unfold used_type; auto. Qed.
Lemma used_i64 : used_type T_I64. Proof. unfold used_type; auto. Qed.
Lemma used_string : used_type T_STRING. Proof. unfold used_type; auto. Qed.
Lemma used_struct : used_type T_STRUCT. Proof. unfold used_type; auto 6. Qed.
Lemma used_list : used_type T_LIST. Proof. unfold used_type; auto 7. Qed.
Hint Resolve used_double used_i32 used_i64 used_string used_struct used_list : core.

(* one turn of the field loop *)
Lemma r_fields_field {St} (h : Z -> St -> bytes -> option (St * bytes)) f last ty id st st' body rest rest' :
  used_type ty -> 0 <= last < id -> id <= 15 ->
  h id st (body ++ rest) = Some (st', rest') ->
  r_fields P h (S f) last st (e_fb P last ty id ++ body ++ rest) = r_fields P h f id st' rest'.
Proof.
  intros Hu Hl Hi Hh. cbn [r_fields]. rewrite (ok_fb P OK) by assumption. rewrite Hh. reflexivity.
Qed.
Lemma r_fields_stop {St} (h : Z -> St -> bytes -> option (St * bytes)) f last st rest :
  r_fields P h (S f) last st (e_stop P ++ rest) = Some (st, rest).
Proof. cbn [r_fields]. rewrite (ok_stop P OK). reflexivity. Qed.

Lemma d_tag_ok fuel tg rest : (3 <= fuel)%nat -> tag_ok tg ->
  d_tag P fuel (e_tag P tg ++ rest) = Some (tg, rest).
Proof.
  intros Hf [H1 H2]. destruct tg as [n v]; cbn [tname tvalue] in *.
  do 3 (destruct fuel as [|fuel]; [lia|]).
  unfold d_tag, e_tag; cbn [tname tvalue]. rewrite <- !app_assoc.
  erewrite r_fields_field; [ | auto | lia | lia | cbn; rewrite (ok_str P OK) by assumption; reflexivity ].
  erewrite r_fields_field; [ | auto | lia | lia | cbn; rewrite (ok_str P OK) by assumption; reflexivity ].
  rewrite r_fields_stop. reflexivity.
Qed.

Lemma e_tag_nonempty tg : (1 <= length (e_tag P tg))%nat.
Proof. unfold e_tag. rewrite !app_length. pose proof (sz_stop P OK). lia. Qed.

(* n elements *)
Lemma r_n_ok {A} (dec : bytes -> option (A * bytes)) (e : A -> bytes) (good : A -> Prop) :
  (forall x rest, good x -> dec (e x ++ rest) = Some (x, rest)) ->
  (forall x, (1 <= length (e x))%nat) ->
  forall l F rest, Forall good l -> (length l <= length F)%nat ->
  r_n dec F (Z.of_nat (length l)) (concat (map e l) ++ rest) = Some (l, rest).
Proof.
  intros Hdec Hne l; induction l as [|x l IH]; intros F rest Hg HF.
  - destruct F; reflexivity.
  - inversion Hg as [|x' l' Hx Hl]; subst.
    destruct F as [|b F]; [cbn in HF; lia|].
    cbn [r_n length map concat]. destruct (Z.leb_spec (Z.of_nat (S (length l))) 0) as [L|L]; [lia|].
    rewrite <- app_assoc, Hdec by assumption.
    replace (Z.of_nat (S (length l)) - 1) with (Z.of_nat (length l)) by lia.
    rewrite IH; [reflexivity | assumption | cbn in HF; lia].
Qed.
Lemma concat_len_ge {A} (e : A -> bytes) :
  (forall x, (1 <= length (e x))%nat) -> forall l, (length l <= length (concat (map e l)))%nat.
Proof.
  intros Hne l; induction l as [|x l IH]; cbn [map concat length]; [lia|].
  rewrite app_length. specialize (Hne x). lia.
Qed.
Lemma r_list_ok {A} (dec : bytes -> option (A * bytes)) (e : A -> bytes) (good : A -> Prop) :
  (forall x rest, good x -> dec (e x ++ rest) = Some (x, rest)) ->
  (forall x, (1 <= length (e x))%nat) ->
  forall l rest, Forall good l -> Z.of_nat (length l) < 2147483648 ->
  r_list P dec (e_lb P T_STRUCT (Z.of_nat (length l)) ++ concat (map e l) ++ rest) = Some (l, rest).
Proof.
  intros Hdec Hne l rest Hg Hn. unfold r_list. rewrite (ok_lb P OK) by lia.
  apply (r_n_ok dec e good Hdec Hne); [assumption|].
  rewrite app_length. pose proof (concat_len_ge e Hne l). lia.
Qed.

Lemma d_tags_ok fuel l rest : (3 <= fuel)%nat -> tags_ok l ->
  r_list P (d_tag P fuel) (e_tags P l ++ rest) = Some (l, rest).
Proof.
  intros Hf [Hg Hn]. unfold e_tags. rewrite <- app_assoc.
  apply (r_list_ok (d_tag P fuel) (e_tag P) tag_ok); try assumption.
  - intros x r Hx. apply d_tag_ok; assumption.
  - apply e_tag_nonempty.
Qed.

Lemma d_value_ok fuel v rest : (5 <= fuel)%nat -> value_ok v ->
  d_value P fuel (e_value P v ++ rest) = Some (v, rest).
Proof.
  intros Hf (H1 & H2 & H3 & H4). destruct v as [ty c g tm]; cbn [mtype mcount mgauge mtimer] in *.
  do 5 (destruct fuel as [|fuel]; [lia|]).
  unfold d_value, e_value; cbn [mtype mcount mgauge mtimer]. rewrite <- !app_assoc.
  rewrite (wrap32_id ty H1).
  erewrite r_fields_field; [ | auto | lia | lia | cbn; rewrite (ok_i32 P OK) by assumption; reflexivity ].
  erewrite r_fields_field; [ | auto | lia | lia | cbn; rewrite (ok_i64 P OK) by assumption; reflexivity ].
  erewrite r_fields_field; [ | auto | lia | lia | cbn; rewrite (ok_double P OK) by assumption; reflexivity ].
  erewrite r_fields_field; [ | auto | lia | lia | cbn; rewrite (ok_i64 P OK) by assumption; reflexivity ].
  rewrite r_fields_stop. reflexivity.
Qed.

Lemma d_metric_ok fuel m rest : (5 <= fuel)%nat -> metric_ok m ->
  d_metric P fuel (e_metric P m ++ rest) = Some (m, rest).
Proof.
  intros Hf (H1 & H2 & H3 & H4). destruct m as [n v ts tgs]; cbn [mname mval mts mtags] in *.
  assert (Hf5 := Hf). do 5 (destruct fuel as [|fuel]; [lia|]).
  remember (S (S (S (S (S fuel))))) as F eqn:EF.
  unfold d_metric, e_metric; cbn [mname mval mts mtags]. rewrite <- !app_assoc.
  rewrite EF at 2.
  erewrite r_fields_field; [ | auto | lia | lia | cbn; rewrite (ok_str P OK) by assumption; reflexivity ].
  erewrite r_fields_field; [ | auto | lia | lia | cbn; rewrite d_value_ok by assumption; reflexivity ].
  erewrite r_fields_field; [ | auto | lia | lia | cbn; rewrite (ok_i64 P OK) by assumption; reflexivity ].
  destruct tgs as [l|]; cbn [e_opt_tags mname mval mts mtags].
  - rewrite <- !app_assoc.
    erewrite r_fields_field; [ | auto | lia | lia | cbn; rewrite d_tags_ok by (assumption || lia); reflexivity ].
    rewrite r_fields_stop. reflexivity.
  - cbn [app]. rewrite r_fields_stop. reflexivity.
Qed.

Lemma e_metric_nonempty m : (1 <= length (e_metric P m))%nat.
Proof. unfold e_metric. rewrite !app_length. pose proof (sz_stop P OK). lia. Qed.

Lemma d_batch_ok fuel b rest : (5 <= fuel)%nat -> batch_ok b ->
  d_batch P fuel (e_batch P b ++ rest) = Some (b, rest).
Proof.
  intros Hf (H1 & H2 & H3). destruct b as [ms ct]; cbn [bmetrics bcommon] in *.
  assert (Hf5 := Hf). do 5 (destruct fuel as [|fuel]; [lia|]).
  remember (S (S (S (S (S fuel))))) as F eqn:EF.
  unfold d_batch, e_batch; cbn [bmetrics bcommon]. rewrite <- !app_assoc.
  rewrite EF at 2.
  erewrite r_fields_field; [ | auto | lia | lia
    | cbn; rewrite (r_list_ok (d_metric P F) (e_metric P) metric_ok);
      [ reflexivity | intros x r Hx; apply d_metric_ok; assumption | apply e_metric_nonempty | assumption | assumption ] ].
  destruct ct as [l|]; cbn [e_opt_tags bmetrics bcommon].
  - rewrite <- !app_assoc.
    erewrite r_fields_field; [ | auto | lia | lia | cbn; rewrite d_tags_ok by (assumption || lia); reflexivity ].
    rewrite r_fields_stop. reflexivity.
  - cbn [app]. rewrite r_fields_stop. reflexivity.
Qed.

Lemma d_args_ok fuel b rest : (5 <= fuel)%nat -> batch_ok b ->
  d_args P fuel (e_args P b ++ rest) = Some (b, rest).
Proof.
  intros Hf Hb. assert (Hf5 := Hf). do 2 (destruct fuel as [|fuel]; [lia|]).
  remember (S (S fuel)) as F eqn:EF.
  unfold d_args, e_args. rewrite <- !app_assoc. rewrite EF at 2.
  erewrite r_fields_field; [ | auto | lia | lia | unfold h_args; cbn; rewrite d_batch_ok by assumption; reflexivity ].
  rewrite r_fields_stop. reflexivity.
Qed.

Lemma method_name_ok : str_ok method_name.
Proof. unfold str_ok. cbn. lia. Qed.

Lemma d_emit_ok fuel seq b rest : (5 <= fuel)%nat -> int32 seq -> batch_ok b ->
  d_emit P fuel (e_emit P seq b ++ rest) = Some ((M_ONEWAY, seq, b), rest).
Proof.
  intros Hf Hs Hb. unfold d_emit, e_emit. rewrite <- app_assoc.
  rewrite (ok_mb P OK) by (try apply method_name_ok; try assumption; unfold M_ONEWAY; lia).
  replace (zs_eqb method_name method_name) with true by (symmetry; apply zs_eqb_spec; reflexivity).
  rewrite d_args_ok by assumption. reflexivity.
Qed.

Lemma fuel_for_ge bs : (5 <= fuel_for bs)%nat.
Proof. unfold fuel_for. lia. Qed.

Theorem roundtrip_metric m rest : metric_ok m ->
  decode_metric P (e_metric P m ++ rest) = Some (m, rest).
Proof. intro Hm. apply d_metric_ok; [apply fuel_for_ge | assumption]. Qed.
Theorem roundtrip_batch b rest : batch_ok b ->
  decode_batch P (e_batch P b ++ rest) = Some (b, rest).
Proof. intro Hb. apply d_batch_ok; [apply fuel_for_ge | assumption]. Qed.
Theorem roundtrip_emit seq b rest : int32 seq -> batch_ok b ->
  decode_emit P (e_emit P seq b ++ rest) = Some ((M_ONEWAY, seq, b), rest).
Proof. intros Hs Hb. apply d_emit_ok; [apply fuel_for_ge | assumption | assumption]. Qed.

(* ---- sizes ---- *)
(* p has, in every int64 slot, either the maximal value or the value a has; the gauge bits are free *)
Definition dominates (p a : metric) : Prop :=
  mname p = mname a /\ mtags p = mtags a /\ wrap32 (mtype (mval p)) = wrap32 (mtype (mval a)) /\
  (mcount (mval p) = MAXI64 \/ mcount (mval p) = mcount (mval a)) /\
  (mtimer (mval p) = MAXI64 \/ mtimer (mval p) = mtimer (mval a)) /\
  (mts p = MAXI64 \/ mts p = mts a).

Lemma i64_dom x y : int64 y -> (x = MAXI64 \/ x = y) -> (length (e_i64 P y) <= length (e_i64 P x))%nat.
Proof. intros Hy [E|E]; subst; [apply (sz_i64 P OK); assumption | lia]. Qed.

Theorem max_upper_bound p a :
  int64 (mcount (mval a)) -> int64 (mtimer (mval a)) -> int64 (mts a) ->
  dominates p a -> (length (e_metric P a) <= length (e_metric P p))%nat.
Proof.
  intros Hc Ht Hs (En & Etg & Ety & Dc & Dt & Ds).
  pose proof (i64_dom _ _ Hc Dc) as L1. pose proof (i64_dom _ _ Ht Dt) as L2. pose proof (i64_dom _ _ Hs Ds) as L3.
  pose proof (sz_double P OK (mgauge (mval a)) (mgauge (mval p))) as L4.
  unfold e_metric, e_value. rewrite En, Etg, Ety. rewrite !app_length. lia.
Qed.
End Generic.
