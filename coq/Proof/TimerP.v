(* Proofs for C10 over Model/Timer.v: the specification of what timers must
   receive (records), the simulation between the model and that
   specification for every flavour, clock and history, and the consequences
   used by Props/C10.v. *)
From Coq Require Import ZArith List Bool Arith Lia.
From Tally Require Import Base.ObsCore Model.Buckets Model.Timer.
Import ListNotations.
Open Scope Z_scope.

Section WithSanitizer.
(* everything below holds for ANY sanitizer (three arbitrary functions) *)
Variable sz : sanz.

(* ================================================================== *)
(* Specification: what each handle denotes and what every timer must be
   given, from the API contract alone (no objects, no reporter). *)

(* a call site: the scope and name NewCall was given, and the table epochs of
   the three scopes its metrics live in at that moment *)
Definition callsite := (scope * bytes * (nat * nat * nat))%type.
Definition call_err_scope (sc : scope) : scope := (fst sc, tmerge (snd sc) (stags sz [(RESULT_TYPE, R_ERROR)])).
Definition call_ok_scope (sc : scope) : scope := (fst sc, tmerge (snd sc) (stags sz [(RESULT_TYPE, R_SUCCESS)])).
Definition call_lat_scope (sc : scope) (n : bytes) : scope := (jn (sepz sz) (fst sc ++ sn sz n), snd sc).
Definition call_err_key (c : callsite) : key :=
  mkkey (call_err_scope (fst (fst c))) (sn sz (snd (fst c))) (fst (fst (snd c))).
Definition call_ok_key (c : callsite) : key :=
  mkkey (call_ok_scope (fst (fst c))) (sn sz (snd (fst c))) (snd (fst (snd c))).
Definition call_lat_key (c : callsite) : key :=
  mkkey (call_lat_scope (fst (fst c)) (snd (fst c))) (sn sz LATENCY) (snd (snd c)).

Record senv := SEnv {
  e_scopes : list scope;                 (* scope handle -> (prefix, tags) *)
  e_timers : list key;                   (* timer handle -> (scope, name, table epoch) *)
  e_nh : nat;                            (* histogram handles *)
  e_sws : list (option key * Z);         (* stopwatch handle -> (its timer, if it is a timer's; start time) *)
  e_calls : list callsite;
  e_clk : nat;                           (* clock readings taken so far *)
  e_reg : reg;                           (* closed / dropped scopes, table epochs *)
  e_execs : list (callsite * Z)          (* execution handle -> (its call site, start time) *)
}.

Definition sinit (root : bytes * tags) : senv :=
  let r := (jn (sepz sz) (sn sz (fst root)), tmerge [] (stags sz (snd root))) in
  SEnv [r] [] 0 [] [] 0 (reg_init r) [].

Definition e_with_reg (e : senv) (r : reg) : senv :=
  SEnv (e_scopes e) (e_timers e) (e_nh e) (e_sws e) (e_calls e) (e_clk e) r (e_execs e).

(* one call: the new environment and the values timers must receive during it *)
Definition sstep (fl : flavour) (clk : nat -> Z) (e : senv) (o : op) : senv * list (key * Z) :=
  match o with
  | OSub i p =>
      match nth_error (e_scopes e) i with
      | Some sc =>
          let v := (jn (sepz sz) (fst sc ++ sn sz p), snd sc) in
          (SEnv (e_scopes e ++ [v]) (e_timers e) (e_nh e) (e_sws e) (e_calls e) (e_clk e) (reg_note (e_reg e) v) (e_execs e), [])
      | None => (e, [])
      end
  | OTag i t =>
      match nth_error (e_scopes e) i with
      | Some sc =>
          let v := (fst sc, tmerge (snd sc) (stags sz t)) in
          (SEnv (e_scopes e ++ [v]) (e_timers e) (e_nh e) (e_sws e) (e_calls e) (e_clk e) (reg_note (e_reg e) v) (e_execs e), [])
      | None => (e, [])
      end
  | OTimer i n =>
      match nth_error (e_scopes e) i with
      | Some sc => (SEnv (e_scopes e) (e_timers e ++ [mkkey sc (sn sz n) (ep_of (r_ep (e_reg e)) sc)])
                         (e_nh e) (e_sws e) (e_calls e) (e_clk e) (e_reg e) (e_execs e), [])
      | None => (e, [])
      end
  | ORecord t d =>
      match nth_error (e_timers e) t with
      | Some k => (e, [(k, d)])
      | None => (e, [])
      end
  | OPass =>
      if r_rootclosed (e_reg e) then (e, [])
      else (e_with_reg e (reg_pass (is_test fl) (e_reg e)), [])
  | OStart t =>
      match nth_error (e_timers e) t with
      | Some k => (SEnv (e_scopes e) (e_timers e) (e_nh e) (e_sws e ++ [(Some k, clk (e_clk e))]) (e_calls e) (S (e_clk e)) (e_reg e) (e_execs e), [])
      | None => (e, [])
      end
  | OHist i n spec =>
      match nth_error (e_scopes e) i with
      | Some sc => (SEnv (e_scopes e) (e_timers e) (S (e_nh e)) (e_sws e) (e_calls e) (e_clk e) (e_reg e) (e_execs e), [])
      | None => (e, [])
      end
  | OHStart h =>
      if (h <? e_nh e)%nat
      then (SEnv (e_scopes e) (e_timers e) (e_nh e) (e_sws e ++ [(None, clk (e_clk e))]) (e_calls e) (S (e_clk e)) (e_reg e) (e_execs e), [])
      else (e, [])
  | OStop w =>
      match nth_error (e_sws e) w with
      | Some (r, st) =>
          (SEnv (e_scopes e) (e_timers e) (e_nh e) (e_sws e) (e_calls e) (S (e_clk e)) (e_reg e) (e_execs e),
           match r with Some k => [(k, sat64 (clk (e_clk e) - st))] | None => [] end)
      | None => (e, [])
      end
  | OCall i n =>
      match nth_error (e_scopes e) i with
      | Some sc =>
          let ep := r_ep (e_reg e) in
          let ce := call_err_scope sc in
          let cs := call_ok_scope sc in
          let cl := call_lat_scope sc n in
          (SEnv (e_scopes e) (e_timers e) (e_nh e) (e_sws e)
                (e_calls e ++ [(sc, n, (ep_of ep ce, ep_of ep cs, ep_of ep cl))]) (e_clk e)
                (reg_note (reg_note (reg_note (e_reg e) ce) cs) cl) (e_execs e), [])
      | None => (e, [])
      end
  | OExec c b =>
      match nth_error (e_calls e) c with
      | Some cc =>
          (SEnv (e_scopes e) (e_timers e) (e_nh e) (e_sws e) (e_calls e) (S (S (e_clk e))) (e_reg e) (e_execs e),
           [(call_lat_key cc, sat64 (clk (S (e_clk e)) - clk (e_clk e)))])
      | None => (e, [])
      end
  | OClose i =>
      match nth_error (e_scopes e) i with
      | Some sc =>
          if r_rootclosed (e_reg e) then (e, [])
          else if scope_eqb sc (r_root (e_reg e))
          then (e_with_reg e (reg_rootclose (is_test fl) (e_reg e)), [])
          else (e_with_reg e (reg_close (e_reg e) sc), [])
      | None => (e, [])
      end
  | OBegin c =>
      match nth_error (e_calls e) c with
      | Some cc => (SEnv (e_scopes e) (e_timers e) (e_nh e) (e_sws e) (e_calls e) (S (e_clk e)) (e_reg e)
                         (e_execs e ++ [(cc, clk (e_clk e))]), [])
      | None => (e, [])
      end
  | OEnd x b =>
      match nth_error (e_execs e) x with
      | Some (cc, st) =>
          (SEnv (e_scopes e) (e_timers e) (e_nh e) (e_sws e) (e_calls e) (S (e_clk e)) (e_reg e) (e_execs e),
           [(call_lat_key cc, sat64 (clk (e_clk e) - st))])
      | None => (e, [])
      end
  | OTimerRefused _ _ => (e, [])
  end.

Fixpoint sfold (fl : flavour) (clk : nat -> Z) (e : senv) (ops : list op) : senv * list (key * Z) :=
  match ops with
  | [] => (e, [])
  | o :: r => let p := sstep fl clk e o in
              let q := sfold fl clk (fst p) r in
              (fst q, snd p ++ snd q)
  end.

Definition senv_of fl clk root ops : senv := fst (sfold fl clk (sinit root) ops).
(* the values timers must have been given after the history, in order *)
Definition records fl clk root ops : list (key * Z) := snd (sfold fl clk (sinit root) ops).

Lemma sfold_app fl clk e a b :
  sfold fl clk e (a ++ b) =
  (fst (sfold fl clk (fst (sfold fl clk e a)) b), snd (sfold fl clk e a) ++ snd (sfold fl clk (fst (sfold fl clk e a)) b)).
Proof.
  revert e; induction a as [|o a IH]; intro e; cbn [app sfold fst snd].
  - destruct (sfold fl clk e b); reflexivity.
  - rewrite IH. cbn [fst snd]. now rewrite app_assoc.
Qed.

(* ================================================================== *)
(* What is observable of timer deliveries, per flavour. *)

(* plain reporter: the ReportTimer(name, tags, d) calls *)
Definition tlog_plain (l : list ev) : list (list bytes * list Z) :=
  flat_map (fun e => if ek e =? 3 then [(es e, ei e)] else []) l.

(* cached reporter: the ReportTimer(d) calls on handles, each resolved to the
   name and tags its handle was allocated with earlier in the log *)
Fixpoint alookup (id : Z) (tab : list (Z * list bytes)) : option (list bytes) :=
  match tab with
  | [] => None
  | (i, s) :: r => if i =? id then Some s else alookup id r
  end.
Definition allocs (l : list ev) : list (Z * list bytes) :=
  flat_map (fun e => if ek e =? 13 then [(hd 0 (ei e), es e)] else []) l.
Fixpoint tlogc (tab : list (Z * list bytes)) (l : list ev) : list (list bytes * list Z) :=
  match l with
  | [] => []
  | e :: r =>
      if ek e =? 13 then tlogc (tab ++ [(hd 0 (ei e), es e)]) r
      else if ek e =? 23 then
        (match alookup (hd 0 (ei e)) tab with Some s => s | None => [] end, tl (ei e)) :: tlogc tab r
      else tlogc tab r
  end.
Definition tlog_cached (l : list ev) := tlogc [] l.

(* test scope: the unreported values of the timer a key names *)
Definition unrep_of (tm : list tobj) (k : key) : list Z :=
  match kfind k (map tkey tm) with
  | Some i => match nth_error tm i with Some o => tunrep o | None => [] end
  | None => []
  end.

Definition exp1 (r : key * Z) : list bytes * list Z := (kstrs (fst r), [snd r]).
Definition on_key (k : key) (acc : list (key * Z)) : list Z :=
  map snd (filter (fun r => key_eqb k (fst r)) acc).

(* "the timer deliveries visible in state s are exactly acc, in that order" *)
Definition delivered (fl : flavour) (s : state) (acc : list (key * Z)) : Prop :=
  match fl with
  | FPlain => tlog_plain (log s) = map exp1 acc /\ tlog_cached (log s) = []
  | FCached | FBoth => tlog_cached (log s) = map exp1 acc /\ tlog_plain (log s) = []
  | FTest => forall k, unrep_of (timers s) k = on_key k acc
  end.

(* ================================================================== *)
(* Small list facts *)

Lemma Forall2_imp {A B} (R1 R2 : A -> B -> Prop) l l' :
  (forall a b, R1 a b -> R2 a b) -> Forall2 R1 l l' -> Forall2 R2 l l'.
Proof. intros Hi HF; induction HF; constructor; auto. Qed.

Lemma Forall2_len {A B} (R : A -> B -> Prop) l l' : Forall2 R l l' -> length l = length l'.
Proof. intros HF; induction HF; cbn; congruence. Qed.

Lemma Forall2_nth {A B} (R : A -> B -> Prop) l l' i :
  Forall2 R l l' ->
  match nth_error l i, nth_error l' i with
  | Some x, Some y => R x y
  | None, None => True
  | _, _ => False
  end.
Proof.
  intros HF; revert i; induction HF as [|x y l l' Hxy HF IH]; intros [|i]; cbn; auto.
  apply IH.
Qed.

Lemma Forall2_snoc {A B} (R : A -> B -> Prop) l l' x y :
  Forall2 R l l' -> R x y -> Forall2 R (l ++ [x]) (l' ++ [y]).
Proof. intros HF Hxy. apply Forall2_app; [assumption | constructor; [assumption | constructor]]. Qed.

Lemma tags_eqb_spec a b : tags_eqb a b = true <-> a = b.
Proof.
  apply list_eqb_spec. intros [k v] [k' v']; cbn. rewrite andb_true_iff, !zs_eqb_spec.
  split; [intros [-> ->]; reflexivity | intros Hh; inversion Hh; auto].
Qed.
Lemma scope_eqb_spec a b : scope_eqb a b = true <-> a = b.
Proof.
  destruct a as [p t], b as [p' t']; unfold scope_eqb; cbn.
  rewrite andb_true_iff, zs_eqb_spec, tags_eqb_spec.
  split; [intros [-> ->]; reflexivity | intros Hh; inversion Hh; auto].
Qed.
Lemma key_eqb_spec a b : key_eqb a b = true <-> a = b.
Proof.
  destruct a as [[[p t] n] e], b as [[[p' t'] n'] e']; unfold key_eqb, kpre, ktags, knm, kep; cbn.
  rewrite !andb_true_iff, !zs_eqb_spec, tags_eqb_spec, Nat.eqb_eq.
  split; [intros [[[-> ->] ->] ->]; reflexivity | intros Hh; inversion Hh; auto].
Qed.
Lemma key_eqb_refl k : key_eqb k k = true.
Proof. now apply key_eqb_spec. Qed.
Lemma key_eqb_neq a b : a <> b -> key_eqb a b = false.
Proof. intros Hn. destruct (key_eqb a b) eqn:E; [apply key_eqb_spec in E; contradiction | reflexivity]. Qed.

Lemma find_idx_some {A} (p : A -> bool) l i :
  find_idx p l = Some i -> exists x, nth_error l i = Some x /\ p x = true.
Proof.
  revert i; induction l as [|x l IH]; intros i; cbn; [discriminate|].
  destruct (p x) eqn:E.
  - intros Hh; inversion Hh; subst. exists x; auto.
  - destruct (find_idx p l) as [j|]; cbn; [|discriminate].
    intros Hh; inversion Hh; subst. destruct (IH j eq_refl) as (y & H1 & H2). exists y; auto.
Qed.
Lemma find_idx_app {A} (p : A -> bool) l x i :
  find_idx p l = Some i -> find_idx p (l ++ x) = Some i.
Proof.
  revert i; induction l as [|y l IH]; intros i; cbn; [discriminate|].
  destruct (p y); [auto|]. destruct (find_idx p l) as [j|]; cbn; [|discriminate].
  intros Hh. now rewrite (IH j eq_refl).
Qed.
Lemma find_idx_none_app {A} (p : A -> bool) l x :
  find_idx p l = None -> find_idx p (l ++ x) = option_map (fun j => (length l + j)%nat) (find_idx p x).
Proof.
  induction l as [|y l IH]; cbn.
  - intros _. destruct (find_idx p x); reflexivity.
  - destruct (p y); [discriminate|]. destruct (find_idx p l); cbn; [discriminate|].
    intros _. rewrite (IH eq_refl). destruct (find_idx p x); reflexivity.
Qed.

Lemma kfind_some k keys i : kfind k keys = Some i -> nth_error keys i = Some k.
Proof.
  intros Hh. apply find_idx_some in Hh as (x & H1 & H2). apply key_eqb_spec in H2. congruence.
Qed.
Lemma kfind_app k keys x i : kfind k keys = Some i -> kfind k (keys ++ x) = Some i.
Proof. apply find_idx_app. Qed.
Lemma kfind_new k keys : kfind k keys = None -> kfind k (keys ++ [k]) = Some (length keys).
Proof.
  intros Hh. unfold kfind. rewrite (find_idx_none_app _ _ _ Hh). cbn. rewrite key_eqb_refl. cbn.
  f_equal. lia.
Qed.
Lemma kfind_other k k' keys : k <> k' -> kfind k (keys ++ [k']) = kfind k keys.
Proof.
  intros Hn. destruct (kfind k keys) as [i|] eqn:E.
  - now apply kfind_app.
  - unfold kfind in *. rewrite (find_idx_none_app _ _ _ E). cbn. now rewrite (key_eqb_neq _ _ Hn).
Qed.

Lemma kfind_none_notin k keys : kfind k keys = None -> ~ In k keys.
Proof.
  unfold kfind. induction keys as [|k1 keys IH]; cbn; [tauto|].
  destruct (key_eqb k k1) eqn:E; [discriminate|].
  destruct (find_idx (key_eqb k) keys); cbn; [discriminate|].
  intros _ [->|Hin]; [now rewrite key_eqb_refl in E | now apply IH].
Qed.
Lemma NoDup_app_one {A} (l : list A) x : NoDup l -> ~ In x l -> NoDup (l ++ [x]).
Proof.
  induction l as [|y l IH]; intros Hn Hx; cbn.
  - constructor; [tauto | constructor].
  - inversion Hn; subst. constructor.
    + intros Hin. apply in_app_or in Hin as [Hin|[->|[]]]; [contradiction | apply Hx; now left].
    + apply IH; [assumption | intros Hin; apply Hx; now right].
Qed.

Lemma upd_length {A} i (f : A -> A) l : length (upd i f l) = length l.
Proof. revert i; induction l as [|x l IH]; intros [|i]; cbn; auto. Qed.
Lemma nth_error_upd_same {A} i (f : A -> A) l x :
  nth_error l i = Some x -> nth_error (upd i f l) i = Some (f x).
Proof. revert i; induction l as [|y l IH]; intros [|i]; cbn; try discriminate; [congruence | apply IH]. Qed.
Lemma nth_error_upd_other {A} i j (f : A -> A) l :
  i <> j -> nth_error (upd i f l) j = nth_error l j.
Proof.
  revert i j; induction l as [|y l IH]; intros i j Hn; [destruct i; reflexivity|].
  destruct i as [|i], j as [|j]; cbn; try reflexivity; [contradiction | apply IH; congruence].
Qed.
Lemma map_upd_inv {A B} (g : A -> B) i (f : A -> A) l :
  (forall x, g (f x) = g x) -> map g (upd i f l) = map g l.
Proof. intros Hg; revert i; induction l as [|y l IH]; intros [|i]; cbn; auto; [now rewrite Hg | now rewrite IH]. Qed.

(* ================================================================== *)
(* Projections of the log under extension *)

Lemma tlog_plain_app a b : tlog_plain (a ++ b) = tlog_plain a ++ tlog_plain b.
Proof. apply flat_map_app. Qed.
Lemma allocs_app a b : allocs (a ++ b) = allocs a ++ allocs b.
Proof. apply flat_map_app. Qed.

Lemma tlogc_app tab l x : tlogc tab (l ++ x) = tlogc tab l ++ tlogc (tab ++ allocs l) x.
Proof.
  revert tab; induction l as [|e r IH]; intro tab.
  - cbn. now rewrite app_nil_r.
  - cbn [app tlogc]. unfold allocs; cbn [flat_map]; fold (allocs r).
    destruct (ek e =? 13) eqn:E13.
    + rewrite IH. now rewrite <- app_assoc.
    + cbn [app]. destruct (ek e =? 23); rewrite IH; reflexivity.
Qed.

Definition quiet (x : list ev) : Prop :=
  Forall (fun e => (ek e =? 3) = false /\ (ek e =? 13) = false /\ (ek e =? 23) = false) x.

Lemma quiet_plain x : quiet x -> tlog_plain x = [].
Proof. induction 1 as [|e x (H3 & _ & _) _ IH]; cbn; [reflexivity|]. now rewrite H3. Qed.
Lemma quiet_allocs x : quiet x -> allocs x = [].
Proof. induction 1 as [|e x (_ & H13 & _) _ IH]; cbn; [reflexivity|]. now rewrite H13. Qed.
Lemma quiet_tlogc tab x : quiet x -> tlogc tab x = [].
Proof. induction 1 as [|e x (_ & H13 & H23) _ IH]; cbn; [reflexivity|]. now rewrite H13, H23. Qed.
Lemma quiet_app a b : quiet a -> quiet b -> quiet (a ++ b).
Proof. intros Ha Hb. apply Forall_app. split; assumption. Qed.

Lemma alookup_app id tab y s : alookup id tab = Some s -> alookup id (tab ++ y) = Some s.
Proof.
  induction tab as [|[i t] tab IH]; cbn; [discriminate|]. destruct (i =? id); auto.
Qed.
Lemma alookup_new id tab s :
  (forall p, In p tab -> fst p < id) -> alookup id (tab ++ [(id, s)]) = Some s.
Proof.
  induction tab as [|[i t] tab IH]; intros Hlt; cbn.
  - now rewrite Z.eqb_refl.
  - assert (i < id) as Hi by (apply (Hlt (i, t)); now left).
    destruct (Z.eqb_spec i id); [lia|]. apply IH. intros p Hp. apply Hlt. now right.
Qed.

(* the cached reporter's handles: every timer object's handle resolves to
   the object's own name and tags, and handle ids are fresh *)
Definition CInv (s : state) : Prop :=
  (forall o, In o (timers s) -> alookup (tcid o) (allocs (log s)) = Some (kstrs (tkey o))) /\
  (forall p, In p (allocs (log s)) -> fst p < rnh s) /\
  allocs (log s) = map (fun o => (tcid o, kstrs (tkey o))) (timers s) /\
  NoDup (map tkey (timers s)).

Definition DelI (fl : flavour) (s : state) (acc : list (key * Z)) : Prop :=
  delivered fl s acc /\ (has_cached fl = true -> CInv s).

Lemma DelI_quiet fl s s' acc x :
  timers s' = timers s -> log s' = log s ++ x -> quiet x -> rnh s <= rnh s' ->
  DelI fl s acc -> DelI fl s' acc.
Proof.
  intros Ht Hl Hq Hn [Hd Hc]. split.
  - assert (tlog_plain (log s') = tlog_plain (log s)) as HP
      by (now rewrite Hl, tlog_plain_app, (quiet_plain _ Hq), app_nil_r).
    assert (tlog_cached (log s') = tlog_cached (log s)) as HC
      by (unfold tlog_cached; now rewrite Hl, tlogc_app, (quiet_tlogc _ _ Hq), app_nil_r).
    destruct fl; unfold delivered in *; rewrite ?HP, ?HC, ?Ht; exact Hd.
  - intros Hf. destruct (Hc Hf) as (C1 & C2 & C3 & C4). unfold CInv.
    rewrite Hl, allocs_app, (quiet_allocs _ Hq), app_nil_r, Ht.
    split; [exact C1|]. split; [|split; assumption].
    intros p Hp. specialize (C2 p Hp). lia.
Qed.

Lemma DelI_same fl s s' acc :
  timers s' = timers s -> log s' = log s -> rnh s' = rnh s -> DelI fl s acc -> DelI fl s' acc.
Proof.
  intros Ht Hl Hn HD. apply (DelI_quiet fl s s' acc []); auto; [now rewrite app_nil_r | constructor | lia].
Qed.

(* ================================================================== *)
(* Frame: what the helpers leave alone *)

Record Ext (s s' : state) : Prop := {
  x_scopes : scopes s' = scopes s;
  x_thand : thand s' = thand s;
  x_hhand : hhand s' = hhand s;
  x_sws : sws s' = sws s;
  x_calls : calls s' = calls s;
  x_nclk : nclk s' = nclk s;
  x_fruns : fruns s' = fruns s;
  x_rets : rets s' = rets s;
  x_reg : sreg s' = sreg s;
  x_execs : execs s' = execs s;
  x_tkeys : exists x, tkeys s' = tkeys s ++ x;
  x_ckeys : exists y, ckeys s' = ckeys s ++ y
}.

Lemma Ext_refl s : Ext s s.
Proof. constructor; try reflexivity; exists []; now rewrite app_nil_r. Qed.
Lemma Ext_trans a b c : Ext a b -> Ext b c -> Ext a c.
Proof.
  intros [] []. constructor; try congruence.
  - destruct x_tkeys0 as [x Hx], x_tkeys1 as [y Hy]. exists (x ++ y). now rewrite Hy, Hx, app_assoc.
  - destruct x_ckeys0 as [x Hx], x_ckeys1 as [y Hy]. exists (x ++ y). now rewrite Hy, Hx, app_assoc.
Qed.

Lemma unrep_of_new tm k c k0 :
  kfind k (map tkey tm) = None -> unrep_of (tm ++ [TObj k c []]) k0 = unrep_of tm k0.
Proof.
  intros Hn. unfold unrep_of. rewrite map_app. cbn [map tkey].
  destruct (key_eqb k0 k) eqn:E.
  - apply key_eqb_spec in E; subst k0. rewrite (kfind_new _ _ Hn), Hn.
    rewrite map_length, nth_error_app2 by lia. now rewrite Nat.sub_diag.
  - assert (k0 <> k) as Hne by (intros ->; now rewrite key_eqb_refl in E).
    rewrite (kfind_other _ _ _ Hne). destruct (kfind k0 (map tkey tm)) as [i|] eqn:Ek; [|reflexivity].
    apply kfind_some in Ek. assert (i < length tm)%nat as Hi.
    { rewrite <- (map_length tkey). apply nth_error_Some. congruence. }
    now rewrite nth_error_app1.
Qed.

Lemma get_timer_spec fl s k acc :
  DelI fl s acc ->
  Ext s (fst (get_timer fl s k)) /\ DelI fl (fst (get_timer fl s k)) acc /\
  kfind k (tkeys (fst (get_timer fl s k))) = Some (snd (get_timer fl s k)).
Proof.
  intros HD. unfold get_timer. destruct (kfind k (tkeys s)) as [i|] eqn:Ek; cbn [fst snd].
  - split; [apply Ext_refl|]. split; assumption.
  - assert (kfind k (tkeys s ++ [k]) = Some (length (timers s))) as Hnew.
    { rewrite (kfind_new _ _ Ek). unfold tkeys. now rewrite map_length. }
    destruct HD as [Hd Hc].
    destruct (has_cached fl) eqn:Ec; cbn [fst snd].
    + split; [|split].
      * constructor; try reflexivity; [exists [k]|exists []]; unfold tkeys, ckeys; cbn;
          [now rewrite map_app | now rewrite app_nil_r].
      * destruct (Hc eq_refl) as (C1 & C2 & C3 & C4). split.
        -- destruct fl; try discriminate Ec; unfold delivered, tlog_cached in *; cbn;
             rewrite tlogc_app, tlog_plain_app; cbn; rewrite !app_nil_r; exact Hd.
        -- intros _. unfold CInv; cbn. rewrite allocs_app. cbn. split; [|split; [|split]].
           ++ intros o Ho. apply in_app_or in Ho as [Ho|[<-|[]]].
              ** apply alookup_app. now apply C1.
              ** cbn. now apply alookup_new.
           ++ intros p Hp. apply in_app_or in Hp as [Hp|[<-|[]]]; [specialize (C2 p Hp); lia | cbn; lia].
           ++ rewrite map_app, C3. reflexivity.
           ++ rewrite map_app. cbn. apply NoDup_app_one; [exact C4 | now apply kfind_none_notin].
      * unfold tkeys; cbn. rewrite map_app. exact Hnew.
    + split; [|split].
      * constructor; try reflexivity; [exists [k]|exists []]; unfold tkeys, ckeys; cbn;
          [now rewrite map_app | now rewrite app_nil_r].
      * split; [|intros Hf; congruence]. destruct fl; try discriminate Ec; unfold delivered in *; cbn.
        -- exact Hd.
        -- intro k0. rewrite unrep_of_new by exact Ek. apply Hd.
      * unfold tkeys; cbn. rewrite map_app. exact Hnew.
Qed.

Lemma get_counter_spec fl s k acc :
  DelI fl s acc ->
  Ext s (fst (get_counter fl s k)) /\ DelI fl (fst (get_counter fl s k)) acc /\
  kfind k (ckeys (fst (get_counter fl s k))) = Some (snd (get_counter fl s k)).
Proof.
  intros HD. unfold get_counter. destruct (kfind k (ckeys s)) as [i|] eqn:Ek; cbn [fst snd].
  - split; [apply Ext_refl|]. split; assumption.
  - assert (kfind k (ckeys s ++ [k]) = Some (length (counters s))) as Hnew.
    { rewrite (kfind_new _ _ Ek). unfold ckeys. now rewrite map_length. }
    assert (forall s', timers s' = timers s -> scopes s' = scopes s -> thand s' = thand s ->
              hhand s' = hhand s -> sws s' = sws s -> calls s' = calls s -> nclk s' = nclk s ->
              fruns s' = fruns s -> rets s' = rets s -> sreg s' = sreg s -> execs s' = execs s ->
              ckeys s' = ckeys s ++ [k] -> Ext s s') as HE.
    { intros s' H1 H2 H3 H4 H5 H6 H7 H8 H9 H11 H12 H10. constructor; try assumption.
      - exists []. unfold tkeys. now rewrite H1, app_nil_r.
      - now exists [k]. }
    destruct (has_cached fl); cbn [fst snd].
    + split; [|split].
      * apply HE; try reflexivity. unfold ckeys; cbn. now rewrite map_app.
      * apply (DelI_quiet _ s _ acc [Ev 11 [rnh s] (kstrs k)]); cbn; try reflexivity; [|lia|exact HD].
        constructor; [cbn; auto | constructor].
      * unfold ckeys; cbn. rewrite map_app. exact Hnew.
    + split; [|split].
      * apply HE; try reflexivity. unfold ckeys; cbn. now rewrite map_app.
      * apply (DelI_same _ s _ acc); [reflexivity | reflexivity | reflexivity | exact HD].
      * unfold ckeys; cbn. rewrite map_app. exact Hnew.
Qed.

Lemma quiet_bucket_allocs hid bid spec : quiet (bucket_allocs hid bid spec).
Proof.
  unfold quiet, bucket_allocs. apply Forall_forall. intros e He.
  apply in_map_iff in He as (ip & <- & _). cbn. auto.
Qed.

Lemma get_hist_spec fl s k spec acc :
  DelI fl s acc ->
  Ext s (fst (get_hist fl s k spec)) /\ DelI fl (fst (get_hist fl s k spec)) acc.
Proof.
  intros HD. unfold get_hist. destruct (kfind k (hkeys s)) as [i|] eqn:Ek; cbn [fst snd].
  - split; [apply Ext_refl | assumption].
  - assert (forall s', timers s' = timers s -> counters s' = counters s -> scopes s' = scopes s ->
              thand s' = thand s -> hhand s' = hhand s -> sws s' = sws s -> calls s' = calls s ->
              nclk s' = nclk s -> fruns s' = fruns s -> rets s' = rets s -> sreg s' = sreg s ->
              execs s' = execs s -> Ext s s') as HE.
    { intros s' H1 H0 H2 H3 H4 H5 H6 H7 H8 H9 H11 H12. constructor; try assumption.
      - exists []. unfold tkeys. now rewrite H1, app_nil_r.
      - exists []. unfold ckeys. now rewrite H0, app_nil_r. }
    destruct (has_cached fl); cbn [fst snd].
    + split; [apply HE; reflexivity|].
      eapply (DelI_quiet _ s _ acc); [reflexivity | cbn; reflexivity | | cbn; lia | exact HD].
      constructor; [cbn; auto | apply quiet_bucket_allocs].
    + split; [apply HE; reflexivity|].
      apply (DelI_same _ s _ acc); [reflexivity | reflexivity | reflexivity | exact HD].
Qed.

Lemma quiet_pass_events fl s : quiet (pass_events fl s).
Proof.
  unfold quiet. apply Forall_forall. intros e He. destruct fl; cbn [pass_events] in He.
  - apply in_app_or in He as [He|He]; [|apply in_app_or in He as [He|[<-|[]]]]; [| |cbn; auto].
    + apply in_flat_map in He as (c & _ & Hc). destruct (cpend c =? 0); [destruct Hc|].
      destruct Hc as [<-|[]]. cbn; auto.
    + apply in_flat_map in He as (h & _ & Hh). apply in_map_iff in Hh as (d & <- & _). cbn; auto.
  - apply in_app_or in He as [He|He]; [|apply in_app_or in He as [He|[<-|[]]]]; [| |cbn; auto].
    + apply in_flat_map in He as (c & _ & Hc). destruct (cpend c =? 0); [destruct Hc|].
      destruct Hc as [<-|[]]. cbn; auto.
    + apply in_flat_map in He as (h & _ & Hh). apply in_map_iff in Hh as (d & <- & _). cbn; auto.
  - destruct He.
  - apply in_app_or in He as [He|He]; [|apply in_app_or in He as [He|[<-|[]]]]; [| |cbn; auto].
    + apply in_flat_map in He as (c & _ & Hc). destruct (cpend c =? 0); [destruct Hc|].
      destruct Hc as [<-|[]]. cbn; auto.
    + apply in_flat_map in He as (h & _ & Hh). apply in_map_iff in Hh as (d & <- & _). cbn; auto.
Qed.

Lemma pass_spec fl s acc : DelI fl s acc -> Ext s (pass fl s) /\ DelI fl (pass fl s) acc.
Proof.
  intros HD. unfold pass.
  assert (forall f, Ext s (set_hists (set_counters (add_log s (pass_events f s))
             (map (fun c => CObj (ckey c) (ccid c) 0) (counters s)))
             (map (fun h => HObj (hkey h) (hspec h) (hcid h) (hbid h) (fst (hstep (hh h) HPass))) (hists s)))) as HE.
  { intro f. constructor; try reflexivity; [exists []|exists []]; unfold tkeys, ckeys; cbn;
      rewrite ?map_map, app_nil_r; reflexivity. }
  destruct fl; try (split; [apply HE|]).
  - apply (DelI_quiet _ s _ acc (pass_events FPlain s)); [reflexivity | reflexivity | apply quiet_pass_events | cbn; lia | exact HD].
  - apply (DelI_quiet _ s _ acc (pass_events FCached s)); [reflexivity | reflexivity | apply quiet_pass_events | cbn; lia | exact HD].
  - split; [apply Ext_refl | exact HD].
  - apply (DelI_quiet _ s _ acc (pass_events FBoth s)); [reflexivity | reflexivity | apply quiet_pass_events | cbn; lia | exact HD].
Qed.

Lemma hrecord_spec fl s oi d acc : DelI fl s acc -> Ext s (hrecord s oi d) /\ DelI fl (hrecord s oi d) acc.
Proof.
  intros HD. split.
  - constructor; try reflexivity; exists []; unfold tkeys, ckeys; cbn; now rewrite app_nil_r.
  - apply (DelI_same _ s _ acc); [reflexivity | reflexivity | reflexivity | exact HD].
Qed.

Lemma inc_counter_spec fl s oi acc : DelI fl s acc -> Ext s (inc_counter s oi) /\ DelI fl (inc_counter s oi) acc.
Proof.
  intros HD. split.
  - constructor; try reflexivity; exists []; unfold tkeys, ckeys; cbn; [now rewrite app_nil_r|].
    rewrite map_upd_inv by reflexivity. now rewrite app_nil_r.
  - apply (DelI_same _ s _ acc); [reflexivity | reflexivity | reflexivity | exact HD].
Qed.

Lemma on_key_snoc k acc k' d :
  on_key k (acc ++ [(k', d)]) = on_key k acc ++ (if key_eqb k k' then [d] else []).
Proof.
  unfold on_key. rewrite filter_app, map_app. cbn. destruct (key_eqb k k'); reflexivity.
Qed.

(* timer.Record on the object a key names *)
Lemma deliver_spec fl s oi k d acc :
  DelI fl s acc -> kfind k (tkeys s) = Some oi ->
  Ext s (deliver fl s oi d) /\ DelI fl (deliver fl s oi d) (acc ++ [(k, d)]).
Proof.
  intros [Hd Hc] Hk. pose proof (kfind_some _ _ _ Hk) as Hn. unfold tkeys in Hn.
  rewrite nth_error_map in Hn. unfold deliver.
  destruct (nth_error (timers s) oi) as [o|] eqn:Eo; [|discriminate].
  cbn in Hn. assert (tkey o = k) as Hko by congruence.
  destruct fl.
  - split.
    + constructor; try reflexivity; exists []; unfold tkeys, ckeys; cbn; now rewrite app_nil_r.
    + split; [|discriminate]. destruct Hd as [Hd Hp]. unfold delivered, tlog_cached in *. cbn.
      rewrite tlog_plain_app, tlogc_app, Hd, Hp, map_app, Hko. split; reflexivity.
  - destruct (Hc eq_refl) as (C1 & C2 & C3 & C4). split.
    + constructor; try reflexivity; exists []; unfold tkeys, ckeys; cbn; now rewrite app_nil_r.
    + split.
      * destruct Hd as [Hd Hp]. unfold delivered, tlog_cached in *. cbn.
        rewrite tlogc_app, tlog_plain_app, Hd, Hp, map_app. cbn.
        rewrite (C1 o (nth_error_In _ _ Eo)), Hko. split; reflexivity.
      * intros _. unfold CInv; cbn. rewrite allocs_app. cbn. rewrite app_nil_r.
        split; [assumption|]. split; [assumption|]. split; assumption.
  - split.
    + constructor; try reflexivity; exists []; unfold tkeys, ckeys; cbn; [|now rewrite app_nil_r].
      rewrite map_upd_inv by reflexivity. now rewrite app_nil_r.
    + split; [|discriminate]. unfold delivered in *. cbn. intro k0. rewrite on_key_snoc, <- Hd.
      unfold unrep_of. rewrite map_upd_inv by reflexivity. fold (tkeys s).
      destruct (key_eqb k0 k) eqn:E.
      * apply key_eqb_spec in E; subst k0. rewrite Hk, (nth_error_upd_same _ _ _ _ Eo), Eo. reflexivity.
      * rewrite app_nil_r. destruct (kfind k0 (tkeys s)) as [j|] eqn:Ej; [|reflexivity].
        assert (oi <> j) as Hne.
        { intros ->. apply kfind_some in Ej. pose proof (kfind_some _ _ _ Hk) as Hk'.
          assert (k0 = k) by congruence. subst. now rewrite key_eqb_refl in E. }
        now rewrite nth_error_upd_other.
  - destruct (Hc eq_refl) as (C1 & C2 & C3 & C4). split.
    + constructor; try reflexivity; exists []; unfold tkeys, ckeys; cbn; now rewrite app_nil_r.
    + split.
      * destruct Hd as [Hd Hp]. unfold delivered, tlog_cached in *. cbn.
        rewrite tlogc_app, tlog_plain_app, Hd, Hp, map_app. cbn.
        rewrite (C1 o (nth_error_In _ _ Eo)), Hko. split; reflexivity.
      * intros _. unfold CInv; cbn. rewrite allocs_app. cbn. rewrite app_nil_r.
        split; [assumption|]. split; [assumption|]. split; assumption.
Qed.

(* ================================================================== *)
(* Simulation: the model's handle tables denote what the specification says *)

Definition href (keys : list key) (oi : nat) (k : key) : Prop := kfind k keys = Some oi.
Definition sw_rel (tk : list key) (m : recorder * Z) (sp : option key * Z) : Prop :=
  snd m = snd sp /\
  match fst m, fst sp with
  | RTimer oi, Some k => href tk oi k
  | RHist _, None => True
  | _, _ => False
  end.
Definition call_rel (tk ck : list key) (c : nat * nat * nat) (sc : callsite) : Prop :=
  href ck (fst (fst c)) (call_err_key sc) /\ href ck (snd (fst c)) (call_ok_key sc) /\
  href tk (snd c) (call_lat_key sc).

Definition exec_rel (tk ck : list key) (m : nat * (nat * nat * nat) * Z) (sp : callsite * Z) : Prop :=
  snd m = snd sp /\ call_rel tk ck (snd (fst m)) (fst sp).

Record Sim (s : state) (e : senv) : Prop := {
  sim_scopes : scopes s = e_scopes e;
  sim_thand : Forall2 (href (tkeys s)) (thand s) (e_timers e);
  sim_nh : length (hhand s) = e_nh e;
  sim_sws : Forall2 (sw_rel (tkeys s)) (sws s) (e_sws e);
  sim_calls : Forall2 (call_rel (tkeys s) (ckeys s)) (calls s) (e_calls e);
  sim_clk : nclk s = e_clk e;
  sim_reg : sreg s = e_reg e;
  sim_execs : Forall2 (exec_rel (tkeys s) (ckeys s)) (execs s) (e_execs e)
}.

Lemma href_app keys x oi k : href keys oi k -> href (keys ++ x) oi k.
Proof. apply kfind_app. Qed.

Lemma Sim_ext s s' e : Sim s e -> Ext s s' -> Sim s' e.
Proof.
  intros [] []. destruct x_tkeys0 as [x Hx], x_ckeys0 as [y Hy].
  constructor; try congruence.
  - rewrite x_thand0, Hx. eapply Forall2_imp; [|exact sim_thand0]. intros a b. apply href_app.
  - rewrite x_sws0, Hx. eapply Forall2_imp; [|exact sim_sws0].
    intros [r st] [sp st'] [H1 H2]. split; [exact H1|]. cbn in *.
    destruct r, sp; auto. now apply href_app.
  - rewrite x_calls0, Hx, Hy. eapply Forall2_imp; [|exact sim_calls0].
    intros c sc (H1 & H2 & H3). repeat split; now apply href_app.
  - rewrite x_execs0, Hx, Hy. eapply Forall2_imp; [|exact sim_execs0].
    intros m sp [H0 (H1 & H2 & H3)]. split; [exact H0|]. repeat split; now apply href_app.
Qed.

Lemma sim_init root : Sim (init sz root) (sinit root).
Proof. constructor; cbn; auto; constructor. Qed.

Lemma deli_init fl root : DelI fl (init sz root) [].
Proof.
  split.
  - destruct fl; cbn; auto.
  - intros _. split; [|split; [|split]]; cbn; [intros ? [] | intros ? [] | reflexivity | constructor].
Qed.

Lemma step_sim fl clk s e acc o :
  Sim s e -> DelI fl s acc ->
  Sim (step sz fl clk s o) (fst (sstep fl clk e o)) /\
  DelI fl (step sz fl clk s o) (acc ++ snd (sstep fl clk e o)).
Proof.
  intros HS HD. pose proof HS as [Hsc Hth Hnh Hsw Hca Hck Hrg Hex].
  destruct o as [i p|i t|i n|t d| |t|i n spec|h|w|i n|c b|i|c|x b|i n]; cbn [step sstep].
  - (* SubScope *)
    rewrite Hsc. destruct (nth_error (e_scopes e) i) as [sc|]; cbn [fst snd]; rewrite app_nil_r; [|auto].
    split; [constructor; cbn; auto; now rewrite ?Hsc, ?Hrg|].
    apply (DelI_same _ s); auto.
  - (* Tagged *)
    rewrite Hsc. destruct (nth_error (e_scopes e) i) as [sc|]; cbn [fst snd]; rewrite app_nil_r; [|auto].
    split; [constructor; cbn; auto; now rewrite ?Hsc, ?Hrg|].
    apply (DelI_same _ s); auto.
  - (* Timer *)
    rewrite Hsc, Hrg. destruct (nth_error (e_scopes e) i) as [sc|]; cbn [fst snd]; rewrite app_nil_r; [|auto].
    set (k := mkkey sc (sn sz n) (ep_of (r_ep (e_reg e)) sc)).
    destruct (get_timer_spec fl s k acc HD) as (HE & HD' & Hk).
    pose proof (Sim_ext _ _ _ HS HE) as [Hsc' Hth' Hnh' Hsw' Hca' Hck' Hrg' Hex'].
    split; [constructor; cbn; auto|].
    + apply Forall2_snoc; assumption.
    + eapply (DelI_same _ _ _ acc); [| | |exact HD']; reflexivity.
  - (* Record *)
    pose proof (Forall2_nth _ _ _ t Hth) as Hn.
    destruct (nth_error (thand s) t) as [oi|], (nth_error (e_timers e) t) as [k|]; try contradiction; cbn [fst snd].
    + destruct (deliver_spec fl s oi k d acc HD Hn) as [HE HD']. split; [eapply Sim_ext; eauto | exact HD'].
    + rewrite app_nil_r. auto.
  - (* report pass *)
    rewrite Hrg. destruct (r_rootclosed (e_reg e)); cbn [fst snd]; rewrite app_nil_r; [auto|].
    destruct (pass_spec fl s acc HD) as [HE HD'].
    pose proof (Sim_ext _ _ _ HS HE) as [Hsc' Hth' Hnh' Hsw' Hca' Hck' Hrg' Hex'].
    split; [constructor; cbn; auto; now rewrite Hrg'|].
    eapply (DelI_same _ _ _ acc); [| | |exact HD']; reflexivity.
  - (* timer.Start *)
    pose proof (Forall2_nth _ _ _ t Hth) as Hn.
    destruct (nth_error (thand s) t) as [oi|], (nth_error (e_timers e) t) as [k|]; try contradiction;
      cbn [fst snd]; rewrite app_nil_r; [|auto].
    split; [constructor; cbn; auto|].
    + apply Forall2_snoc; [assumption|]. split; cbn; [now rewrite Hck | exact Hn].
    + apply (DelI_same _ s); auto.
  - (* Histogram *)
    rewrite Hsc. destruct (nth_error (e_scopes e) i) as [sc|]; cbn [fst snd]; rewrite app_nil_r; [|auto].
    destruct (get_hist_spec fl s (mkkey sc (sn sz n) (ep_of (r_ep (sreg s)) sc)) spec acc HD) as (HE & HD').
    pose proof (Sim_ext _ _ _ HS HE) as [Hsc' Hth' Hnh' Hsw' Hca' Hck' Hrg' Hex'].
    split; [constructor; cbn; auto|].
    + rewrite app_length. cbn. lia.
    + eapply (DelI_same _ _ _ acc); [| | |exact HD']; reflexivity.
  - (* histogram.Start *)
    destruct (nth_error (hhand s) h) as [oi|] eqn:Eh.
    + assert (h <? e_nh e = true)%nat as ->.
      { apply Nat.ltb_lt. rewrite <- Hnh. apply nth_error_Some. congruence. }
      cbn [fst snd]; rewrite app_nil_r.
      split; [constructor; cbn; auto|].
      * apply Forall2_snoc; [assumption|]. split; cbn; [now rewrite Hck | exact I].
      * apply (DelI_same _ s); auto.
    + assert (h <? e_nh e = false)%nat as ->.
      { apply Nat.ltb_ge. rewrite <- Hnh. now apply nth_error_None. }
      cbn [fst snd]; rewrite app_nil_r. auto.
  - (* Stop *)
    pose proof (Forall2_nth _ _ _ w Hsw) as Hn.
    destruct (nth_error (sws s) w) as [[r st]|], (nth_error (e_sws e) w) as [[sp st']|]; try contradiction;
      cbn [fst snd]; [|rewrite app_nil_r; auto].
    destruct Hn as [Hst Hr]. cbn in Hst, Hr. subst st'.
    set (s1 := set_nclk s (S (nclk s))).
    assert (DelI fl s1 acc) as HD1 by (apply (DelI_same _ s); auto).
    assert (Sim s1 (SEnv (e_scopes e) (e_timers e) (e_nh e) (e_sws e) (e_calls e) (S (e_clk e)) (e_reg e) (e_execs e))) as HS1
      by (constructor; cbn; auto).
    destruct r as [oi|oi], sp as [k|]; try contradiction.
    + destruct (deliver_spec fl s1 oi k (sat64 (clk (nclk s) - st)) acc HD1 Hr) as [HE HD'].
      rewrite <- Hck in HS1 |- *. split; [eapply Sim_ext; eauto | exact HD'].
    + rewrite app_nil_r. destruct (hrecord_spec fl s1 oi (sat64 (clk (nclk s) - st)) acc HD1) as [HE HD'].
      split; [eapply Sim_ext; eauto | exact HD'].
  - (* instrument.NewCall *)
    rewrite Hsc, Hrg. destruct (nth_error (e_scopes e) i) as [sc|]; cbn [fst snd]; rewrite app_nil_r; [|auto].
    fold (call_err_scope sc) (call_ok_scope sc) (call_lat_scope sc n).
    set (ke := mkkey (call_err_scope sc) (sn sz n) (ep_of (r_ep (e_reg e)) (call_err_scope sc))).
    set (ks := mkkey (call_ok_scope sc) (sn sz n) (ep_of (r_ep (e_reg e)) (call_ok_scope sc))).
    set (kl := mkkey (call_lat_scope sc n) (sn sz LATENCY) (ep_of (r_ep (e_reg e)) (call_lat_scope sc n))).
    destruct (get_counter_spec fl s ke acc HD) as (HE1 & HD1 & Hk1).
    set (r1 := get_counter fl s ke) in *.
    destruct (get_counter_spec fl (fst r1) ks acc HD1) as (HE2 & HD2 & Hk2).
    set (r2 := get_counter fl (fst r1) ks) in *.
    destruct (get_timer_spec fl (fst r2) kl acc HD2) as (HE3 & HD3 & Hk3).
    set (r3 := get_timer fl (fst r2) kl) in *.
    pose proof (Ext_trans _ _ _ HE1 (Ext_trans _ _ _ HE2 HE3)) as HE.
    pose proof (Sim_ext _ _ _ HS HE) as [Hsc' Hth' Hnh' Hsw' Hca' Hck' Hrg' Hex'].
    split; [constructor; cbn; auto|].
    + apply Forall2_snoc; [assumption|]. unfold call_rel; cbn [fst snd].
      destruct (x_ckeys _ _ HE2) as [y2 Hy2], (x_ckeys _ _ HE3) as [y3 Hy3].
      split; [|split].
      * unfold href. change (kfind ke (ckeys (fst r3)) = Some (snd r1)).
        rewrite Hy3, Hy2. now apply kfind_app, kfind_app.
      * unfold href. change (kfind ks (ckeys (fst r3)) = Some (snd r2)).
        rewrite Hy3. now apply kfind_app.
      * exact Hk3.
    + now rewrite Hrg'.
    + eapply (DelI_same _ _ _ acc); [| | |exact HD3]; reflexivity.
  - (* Exec *)
    pose proof (Forall2_nth _ _ _ c Hca) as Hn.
    destruct (nth_error (calls s) c) as [[[ce cs] ti]|], (nth_error (e_calls e) c) as [cc|]; try contradiction;
      cbn [fst snd]; [|rewrite app_nil_r; auto].
    destruct Hn as (_ & _ & Hl). cbn [fst snd] in Hl.
    set (s1 := set_nclk (set_fruns (set_nclk s (S (nclk s))) (fruns s ++ [(c, b)])) (S (S (nclk s)))).
    assert (DelI fl s1 acc) as HD1 by (apply (DelI_same _ s); auto).
    assert (Sim s1 (SEnv (e_scopes e) (e_timers e) (e_nh e) (e_sws e) (e_calls e) (S (S (e_clk e))) (e_reg e) (e_execs e))) as HS1
      by (constructor; cbn; auto).
    cbn [nclk set_fruns set_nclk]. fold s1.
    destruct (deliver_spec fl s1 ti (call_lat_key cc) (sat64 (clk (S (nclk s)) - clk (nclk s))) acc HD1 Hl) as [HE HD'].
    set (s2 := deliver fl s1 ti (sat64 (clk (S (nclk s)) - clk (nclk s)))) in *.
    destruct (inc_counter_spec fl s2 (if b then ce else cs) _ HD') as [HE3 HD3].
    rewrite <- Hck in HS1 |- *. split.
    + pose proof (Sim_ext _ _ _ HS1 (Ext_trans _ _ _ HE HE3)) as [Hsc' Hth' Hnh' Hsw' Hca' Hck' Hrg' Hex'].
      constructor; cbn; auto.
    + eapply (DelI_same _ _ _ _); [| | |exact HD3]; reflexivity.
  - (* Close *)
    rewrite Hsc, Hrg. destruct (nth_error (e_scopes e) i) as [sc|]; cbn [fst snd]; [|rewrite app_nil_r; auto].
    destruct (r_rootclosed (e_reg e)); cbn [fst snd]; [rewrite app_nil_r; auto|].
    destruct (scope_eqb sc (r_root (e_reg e))); cbn [fst snd]; rewrite app_nil_r.
    + destruct (pass_spec fl s acc HD) as [HE HD'].
      pose proof (Sim_ext _ _ _ HS HE) as [Hsc' Hth' Hnh' Hsw' Hca' Hck' Hrg' Hex'].
      split; [constructor; cbn; auto; now rewrite Hrg'|].
      eapply (DelI_same _ _ _ acc); [| | |exact HD']; reflexivity.
    + split; [constructor; cbn; auto; now rewrite Hrg|].
      apply (DelI_same _ s); auto.
  - (* an execution begins *)
    pose proof (Forall2_nth _ _ _ c Hca) as Hn.
    destruct (nth_error (calls s) c) as [h|], (nth_error (e_calls e) c) as [cc|]; try contradiction;
      cbn [fst snd]; rewrite app_nil_r; [|auto].
    split; [constructor; cbn; auto|].
    + apply Forall2_snoc; [assumption|]. split; cbn; [now rewrite Hck | exact Hn].
    + apply (DelI_same _ s); auto.
  - (* an execution ends *)
    pose proof (Forall2_nth _ _ _ x Hex) as Hn.
    destruct (nth_error (execs s) x) as [[[c [[ce cs] ti]] st]|], (nth_error (e_execs e) x) as [[cc st']|]; try contradiction;
      cbn [fst snd]; [|rewrite app_nil_r; auto].
    destruct Hn as [Hst (_ & _ & Hl)]. cbn [fst snd] in Hst, Hl. subst st'.
    set (s1 := set_fruns (set_nclk s (S (nclk s))) (fruns s ++ [(c, b)])).
    assert (DelI fl s1 acc) as HD1 by (apply (DelI_same _ s); auto).
    assert (Sim s1 (SEnv (e_scopes e) (e_timers e) (e_nh e) (e_sws e) (e_calls e) (S (e_clk e)) (e_reg e) (e_execs e))) as HS1
      by (constructor; cbn; auto).
    destruct (deliver_spec fl s1 ti (call_lat_key cc) (sat64 (clk (nclk s) - st)) acc HD1 Hl) as [HE HD'].
    set (s2 := deliver fl s1 ti (sat64 (clk (nclk s) - st))) in *.
    destruct (inc_counter_spec fl s2 (if b then ce else cs) _ HD') as [HE3 HD3].
    rewrite <- Hck in HS1 |- *. split.
    + pose proof (Sim_ext _ _ _ HS1 (Ext_trans _ _ _ HE HE3)) as [Hsc' Hth' Hnh' Hsw' Hca' Hck' Hrg' Hex'].
      constructor; cbn; auto.
    + eapply (DelI_same _ _ _ _); [| | |exact HD3]; reflexivity.
  - (* a refused allocation *)
    cbn [fst snd]. rewrite app_nil_r. auto.
Qed.

Lemma fold_sim fl clk ops s e acc :
  Sim s e -> DelI fl s acc ->
  Sim (fold_left (step sz fl clk) ops s) (fst (sfold fl clk e ops)) /\
  DelI fl (fold_left (step sz fl clk) ops s) (acc ++ snd (sfold fl clk e ops)).
Proof.
  revert s e acc; induction ops as [|o r IH]; intros s e acc HS HD; cbn [fold_left sfold fst snd].
  - rewrite app_nil_r. auto.
  - destruct (step_sim fl clk s e acc o HS HD) as [HS' HD'].
    rewrite app_assoc. apply IH; assumption.
Qed.

Lemma run_sim fl clk root ops :
  Sim (run sz fl clk root ops) (senv_of fl clk root ops) /\
  DelI fl (run sz fl clk root ops) (records fl clk root ops).
Proof.
  unfold run, senv_of, records.
  exact (fold_sim fl clk ops (init sz root) (sinit root) [] (sim_init root) (deli_init fl root)).
Qed.

(* ---- C10_record_once_sync ---- *)
Lemma record_once_sync fl clk root ops :
  delivered fl (run sz fl clk root ops) (records fl clk root ops).
Proof. exact (proj1 (proj2 (run_sim fl clk root ops))). Qed.

Lemma run_snoc fl clk root pre o :
  run sz fl clk root (pre ++ [o]) = step sz fl clk (run sz fl clk root pre) o.
Proof. unfold run. now rewrite fold_left_app. Qed.
Lemma run_app fl clk root pre post :
  run sz fl clk root (pre ++ post) = fold_left (step sz fl clk) post (run sz fl clk root pre).
Proof. unfold run. now rewrite fold_left_app. Qed.

Lemma records_snoc fl clk root pre o :
  records fl clk root (pre ++ [o]) = records fl clk root pre ++ snd (sstep fl clk (senv_of fl clk root pre) o).
Proof. unfold records, senv_of. rewrite sfold_app. cbn. now rewrite app_nil_r. Qed.
Lemma senv_snoc fl clk root pre o :
  senv_of fl clk root (pre ++ [o]) = fst (sstep fl clk (senv_of fl clk root pre) o).
Proof. unfold senv_of. rewrite sfold_app. reflexivity. Qed.

(* a model timer handle and the specification's denotation of it *)
Lemma handle_key s e t oi o :
  Sim s e -> nth_error (thand s) t = Some oi -> nth_error (timers s) oi = Some o ->
  nth_error (e_timers e) t = Some (tkey o).
Proof.
  intros HS Ht Ho. pose proof (Forall2_nth _ _ _ t (sim_thand _ _ HS)) as Hn. rewrite Ht in Hn.
  destruct (nth_error (e_timers e) t) as [k|]; [|contradiction].
  apply kfind_some in Hn. unfold tkeys in Hn. rewrite nth_error_map, Ho in Hn. cbn in Hn. congruence.
Qed.

Lemma record_immediately fl clk root pre t d oi o :
  nth_error (thand (run sz fl clk root pre)) t = Some oi ->
  nth_error (timers (run sz fl clk root pre)) oi = Some o ->
  delivered fl (step sz fl clk (run sz fl clk root pre) (ORecord t d))
            (records fl clk root pre ++ [(tkey o, d)]).
Proof.
  intros Ht Ho. destruct (run_sim fl clk root pre) as [HS _].
  pose proof (handle_key _ _ _ _ _ HS Ht Ho) as Hk.
  rewrite <- run_snoc. pose proof (record_once_sync fl clk root (pre ++ [ORecord t d])) as Hd.
  rewrite records_snoc in Hd. cbn [sstep] in Hd. rewrite Hk in Hd. exact Hd.
Qed.

Lemma pass_adds_nothing fl clk root pre :
  delivered fl (step sz fl clk (run sz fl clk root pre) OPass) (records fl clk root pre).
Proof.
  rewrite <- run_snoc. pose proof (record_once_sync fl clk root (pre ++ [OPass])) as Hd.
  rewrite records_snoc in Hd. cbn [sstep] in Hd.
  destruct (r_rootclosed (e_reg (senv_of fl clk root pre))); cbn [snd] in Hd; now rewrite app_nil_r in Hd.
Qed.

(* scope.Timer(n): the handle's timer is the one named n in that scope *)
Lemma timer_identity fl clk root pre i n sc :
  nth_error (scopes (run sz fl clk root pre)) i = Some sc ->
  let s' := step sz fl clk (run sz fl clk root pre) (OTimer i n) in
  exists oi o, nth_error (thand s') (length (thand (run sz fl clk root pre))) = Some oi /\
               nth_error (timers s') oi = Some o /\
               tkey o = mkkey sc (sn sz n) (ep_of (r_ep (sreg (run sz fl clk root pre))) sc).
Proof.
  intros Hsc s'. destruct (run_sim fl clk root pre) as [HS _].
  destruct (run_sim fl clk root (pre ++ [OTimer i n])) as [HS' _].
  rewrite run_snoc in HS'. fold s' in HS'. rewrite senv_snoc in HS'. cbn [sstep] in HS'.
  rewrite <- (sim_scopes _ _ HS), Hsc in HS'. cbn [fst] in HS'.
  rewrite (Forall2_len _ _ _ (sim_thand _ _ HS)).
  pose proof (Forall2_nth _ _ _ (length (e_timers (senv_of fl clk root pre))) (sim_thand _ _ HS')) as Hn.
  cbn [e_timers] in Hn.
  rewrite (nth_error_app2 (e_timers (senv_of fl clk root pre))), Nat.sub_diag in Hn by lia. cbn [nth_error] in Hn.
  destruct (nth_error (thand s') (length (e_timers (senv_of fl clk root pre)))) as [oi|]; [|contradiction].
  apply kfind_some in Hn. unfold tkeys in Hn. rewrite nth_error_map in Hn.
  destruct (nth_error (timers s') oi) as [o|] eqn:Eo; [|discriminate].
  exists oi, o. cbn in Hn. rewrite (sim_reg _ _ HS). split; [reflexivity|]. split; [exact Eo | congruence].
Qed.

(* ---- stopwatches ---- *)
Lemma sstep_sws fl clk e o : exists x, e_sws (fst (sstep fl clk e o)) = e_sws e ++ x.
Proof.
  destruct o; cbn [sstep];
    repeat match goal with
           | |- context [match ?x with _ => _ end] => destruct x
           end; cbn [fst e_sws]; try (exists []; now rewrite app_nil_r); eexists; reflexivity.
Qed.
Lemma sfold_sws fl clk ops e : exists x, e_sws (fst (sfold fl clk e ops)) = e_sws e ++ x.
Proof.
  revert e; induction ops as [|o r IH]; intro e; cbn [sfold fst].
  - exists []; now rewrite app_nil_r.
  - destruct (sstep_sws fl clk e o) as [x Hx]. destruct (IH (fst (sstep fl clk e o))) as [y Hy].
    exists (x ++ y). now rewrite Hy, Hx, app_assoc.
Qed.

Lemma stopwatch_elapsed fl clk root pre t mid oi o :
  let s0 := run sz fl clk root pre in
  nth_error (thand s0) t = Some oi -> nth_error (timers s0) oi = Some o ->
  let s1 := run sz fl clk root (pre ++ OStart t :: mid) in
  delivered fl (step sz fl clk s1 (OStop (length (sws s0))))
            (records fl clk root (pre ++ OStart t :: mid) ++
             [(tkey o, sat64 (clk (nclk s1) - clk (nclk s0)))]).
Proof.
  intros s0 Ht Ho s1. destruct (run_sim fl clk root pre) as [HS0 _]. fold s0 in HS0.
  pose proof (handle_key _ _ _ _ _ HS0 Ht Ho) as Hk.
  destruct (run_sim fl clk root (pre ++ OStart t :: mid)) as [HS1 _]. subst s1.
  assert (nth_error (e_sws (senv_of fl clk root (pre ++ OStart t :: mid))) (length (sws s0)) =
          Some (Some (tkey o), clk (nclk s0))) as Hw.
  { unfold senv_of. rewrite sfold_app. cbn [fst sfold]. fold (senv_of fl clk root pre).
    destruct (sfold_sws fl clk mid (fst (sstep fl clk (senv_of fl clk root pre) (OStart t)))) as [x Hx].
    rewrite Hx. cbn [sstep]. rewrite Hk. cbn [fst e_sws].
    rewrite (Forall2_len _ _ _ (sim_sws _ _ HS0)), (sim_clk _ _ HS0).
    rewrite <- app_assoc, nth_error_app2, Nat.sub_diag by lia. reflexivity. }
  rewrite <- run_snoc. pose proof (record_once_sync fl clk root ((pre ++ OStart t :: mid) ++ [OStop (length (sws s0))])) as Hd.
  rewrite records_snoc in Hd. cbn [sstep] in Hd. rewrite Hw in Hd. cbn [snd] in Hd.
  rewrite <- (sim_clk _ _ HS1) in Hd. exact Hd.
Qed.

(* the model only ever appends to its handle tables *)
Ltac frame_tac :=
  repeat match goal with
         | |- context [match ?x with _ => _ end] => destruct x
         end; split; reflexivity.
Lemma get_timer_frame fl s k :
  sws (fst (get_timer fl s k)) = sws s /\ hhand (fst (get_timer fl s k)) = hhand s.
Proof. unfold get_timer. frame_tac. Qed.
Lemma get_counter_frame fl s k :
  sws (fst (get_counter fl s k)) = sws s /\ hhand (fst (get_counter fl s k)) = hhand s.
Proof. unfold get_counter. frame_tac. Qed.
Lemma get_hist_frame fl s k spec :
  sws (fst (get_hist fl s k spec)) = sws s /\ hhand (fst (get_hist fl s k spec)) = hhand s.
Proof. unfold get_hist. frame_tac. Qed.
Lemma deliver_frame fl s oi d :
  sws (deliver fl s oi d) = sws s /\ hhand (deliver fl s oi d) = hhand s.
Proof. unfold deliver. frame_tac. Qed.
Lemma pass_frame fl s : sws (pass fl s) = sws s /\ hhand (pass fl s) = hhand s.
Proof. unfold pass. frame_tac. Qed.

Lemma step_mono fl clk s o :
  (exists x, sws (step sz fl clk s o) = sws s ++ x) /\
  (exists y, hhand (step sz fl clk s o) = hhand s ++ y).
Proof.
  assert (forall s' : state, sws s' = sws s -> hhand s' = hhand s ->
            (exists x, sws s' = sws s ++ x) /\ (exists y, hhand s' = hhand s ++ y)) as Hsame.
  { intros s' H1 H2. split; exists []; now rewrite app_nil_r. }
  destruct o as [i p|i t|i n|t d| |t|i n spec|h|w|i n|c b|i|c|x b|i n]; cbn [step].
  - destruct (nth_error (scopes s) i); apply Hsame; reflexivity.
  - destruct (nth_error (scopes s) i); apply Hsame; reflexivity.
  - destruct (nth_error (scopes s) i); [|apply Hsame; reflexivity].
    apply Hsame; cbn; apply get_timer_frame.
  - destruct (nth_error (thand s) t); [|apply Hsame; reflexivity]. apply Hsame; apply deliver_frame.
  - destruct (r_rootclosed (sreg s)); [apply Hsame; reflexivity|]. apply Hsame; cbn; apply pass_frame.
  - destruct (nth_error (thand s) t); [|apply Hsame; reflexivity].
    split; [eexists; reflexivity | exists []; cbn; now rewrite app_nil_r].
  - destruct (nth_error (scopes s) i); [|apply Hsame; reflexivity].
    cbn. rewrite (proj1 (get_hist_frame _ _ _ _)), (proj2 (get_hist_frame _ _ _ _)).
    split; [exists []; now rewrite app_nil_r | eexists; reflexivity].
  - destruct (nth_error (hhand s) h); [|apply Hsame; reflexivity].
    split; [eexists; reflexivity | exists []; cbn; now rewrite app_nil_r].
  - destruct (nth_error (sws s) w) as [[[oi|oi] st]|]; [| |apply Hsame; reflexivity].
    + apply Hsame; [rewrite (proj1 (deliver_frame _ _ _ _)) | rewrite (proj2 (deliver_frame _ _ _ _))]; reflexivity.
    + apply Hsame; reflexivity.
  - destruct (nth_error (scopes s) i); [|apply Hsame; reflexivity].
    apply Hsame; cbn.
    + now rewrite (proj1 (get_timer_frame _ _ _)), (proj1 (get_counter_frame _ _ _)), (proj1 (get_counter_frame _ _ _)).
    + now rewrite (proj2 (get_timer_frame _ _ _)), (proj2 (get_counter_frame _ _ _)), (proj2 (get_counter_frame _ _ _)).
  - destruct (nth_error (calls s) c) as [[[ce cs] ti]|]; [|apply Hsame; reflexivity].
    apply Hsame; cbn; [rewrite (proj1 (deliver_frame _ _ _ _)) | rewrite (proj2 (deliver_frame _ _ _ _))]; reflexivity.
  - destruct (nth_error (scopes s) i); [|apply Hsame; reflexivity].
    destruct (r_rootclosed (sreg s)); [apply Hsame; reflexivity|].
    destruct (scope_eqb _ _); apply Hsame; cbn; try reflexivity; apply pass_frame.
  - destruct (nth_error (calls s) c); apply Hsame; reflexivity.
  - destruct (nth_error (execs s) x) as [[[c [[ce cs] ti]] st]|]; [|apply Hsame; reflexivity].
    apply Hsame; cbn; [rewrite (proj1 (deliver_frame _ _ _ _)) | rewrite (proj2 (deliver_frame _ _ _ _))]; reflexivity.
  - apply Hsame; reflexivity.
Qed.

Ltac xframe_tac :=
  repeat match goal with
         | |- context [match ?x with _ => _ end] => destruct x
         end; reflexivity.
Lemma get_timer_execs fl s k : execs (fst (get_timer fl s k)) = execs s.
Proof. unfold get_timer. xframe_tac. Qed.
Lemma get_counter_execs fl s k : execs (fst (get_counter fl s k)) = execs s.
Proof. unfold get_counter. xframe_tac. Qed.
Lemma get_hist_execs fl s k spec : execs (fst (get_hist fl s k spec)) = execs s.
Proof. unfold get_hist. xframe_tac. Qed.
Lemma deliver_execs fl s oi d : execs (deliver fl s oi d) = execs s.
Proof. unfold deliver. xframe_tac. Qed.
Lemma pass_execs fl s : execs (pass fl s) = execs s.
Proof. unfold pass. xframe_tac. Qed.

Lemma step_execs fl clk s o : exists z, execs (step sz fl clk s o) = execs s ++ z.
Proof.
  assert (forall s' : state, execs s' = execs s -> exists z, execs s' = execs s ++ z) as Hsame.
  { intros s' H1. exists []; now rewrite app_nil_r. }
  destruct o as [i p|i t|i n|t d| |t|i n spec|h|w|i n|c b|i|c|x b|i n]; cbn [step].
  - destruct (nth_error (scopes s) i); apply Hsame; reflexivity.
  - destruct (nth_error (scopes s) i); apply Hsame; reflexivity.
  - destruct (nth_error (scopes s) i); [|apply Hsame; reflexivity]. apply Hsame; cbn; apply get_timer_execs.
  - destruct (nth_error (thand s) t); [|apply Hsame; reflexivity]. apply Hsame; apply deliver_execs.
  - destruct (r_rootclosed (sreg s)); [apply Hsame; reflexivity|]. apply Hsame; cbn; apply pass_execs.
  - destruct (nth_error (thand s) t); apply Hsame; reflexivity.
  - destruct (nth_error (scopes s) i); [|apply Hsame; reflexivity]. apply Hsame; cbn; apply get_hist_execs.
  - destruct (nth_error (hhand s) h); apply Hsame; reflexivity.
  - destruct (nth_error (sws s) w) as [[[oi|oi] st]|]; apply Hsame; try reflexivity. now rewrite deliver_execs.
  - destruct (nth_error (scopes s) i); [|apply Hsame; reflexivity].
    apply Hsame; cbn. now rewrite get_timer_execs, !get_counter_execs.
  - destruct (nth_error (calls s) c) as [[[ce cs] ti]|]; [|apply Hsame; reflexivity].
    apply Hsame; cbn. now rewrite deliver_execs.
  - destruct (nth_error (scopes s) i); [|apply Hsame; reflexivity].
    destruct (r_rootclosed (sreg s)); [apply Hsame; reflexivity|].
    destruct (scope_eqb _ _); apply Hsame; cbn; try reflexivity; apply pass_execs.
  - destruct (nth_error (calls s) c); [|apply Hsame; reflexivity]. eexists; reflexivity.
  - destruct (nth_error (execs s) x) as [[[c [[ce cs] ti]] st]|]; [|apply Hsame; reflexivity].
    apply Hsame; cbn. now rewrite deliver_execs.
  - apply Hsame; reflexivity.
Qed.
Lemma fold_execs fl clk ops s : exists z, execs (fold_left (step sz fl clk) ops s) = execs s ++ z.
Proof.
  revert s; induction ops as [|o r IH]; intro s; cbn [fold_left].
  - exists []; now rewrite app_nil_r.
  - destruct (step_execs fl clk s o) as [x Hx]. destruct (IH (step sz fl clk s o)) as [y Hy].
    exists (x ++ y). now rewrite Hy, Hx, app_assoc.
Qed.
Lemma fold_mono fl clk ops s :
  (exists x, sws (fold_left (step sz fl clk) ops s) = sws s ++ x) /\
  (exists y, hhand (fold_left (step sz fl clk) ops s) = hhand s ++ y).
Proof.
  revert s; induction ops as [|o r IH]; intro s; cbn [fold_left].
  - split; exists []; now rewrite app_nil_r.
  - destruct (step_mono fl clk s o) as [[x Hx] [y Hy]].
    destruct (IH (step sz fl clk s o)) as [[x' Hx'] [y' Hy']].
    split; [exists (x ++ x'); now rewrite Hx', Hx, app_assoc | exists (y ++ y'); now rewrite Hy', Hy, app_assoc].
Qed.

Lemma hist_stopwatch_elapsed fl clk root pre h mid oi :
  let s0 := run sz fl clk root pre in
  nth_error (hhand s0) h = Some oi ->
  let s1 := run sz fl clk root (pre ++ OHStart h :: mid) in
  step sz fl clk s1 (OStop (length (sws s0))) =
  hrecord (set_nclk s1 (S (nclk s1))) oi (sat64 (clk (nclk s1) - clk (nclk s0))).
Proof.
  intros s0 Hh s1.
  assert (nth_error (sws s1) (length (sws s0)) = Some (RHist oi, clk (nclk s0))) as Hw.
  { unfold s1. rewrite run_app. cbn [fold_left]. fold s0.
    destruct (fold_mono fl clk mid (step sz fl clk s0 (OHStart h))) as [[x Hx] _]. rewrite Hx.
    cbn [step]. rewrite Hh. cbn [sws set_nclk set_sws].
    rewrite <- app_assoc, nth_error_app2, Nat.sub_diag by lia. reflexivity. }
  cbn [step]. rewrite Hw. reflexivity.
Qed.

(* ---- int64 facts ---- *)
Lemma sat64_exact z : MINI <= z <= MAXI -> sat64 z = z.
Proof.
  unfold sat64, MINI, MAXI. intros Hz.
  destruct (Z.ltb_spec z (-9223372036854775808)); [lia|].
  destruct (Z.ltb_spec 9223372036854775807 z); [lia|reflexivity].
Qed.
Lemma sat64_range z : MINI <= sat64 z <= MAXI.
Proof.
  unfold sat64, MINI, MAXI.
  destruct (Z.ltb_spec z (-9223372036854775808)); [lia|].
  destruct (Z.ltb_spec 9223372036854775807 z); lia.
Qed.

(* ---- instrumented calls ---- *)
Definition pend_of (s : state) (k : key) : Z :=
  match kfind k (ckeys s) with
  | Some i => match nth_error (counters s) i with Some c => cpend c | None => 0 end
  | None => 0
  end.

Lemma tlookup_tinsert k k' v t :
  tlookup k (tinsert k' v t) = if zs_eqb k k' then Some v else tlookup k t.
Proof.
  induction t as [|[k1 v1] r IH]; cbn [tinsert tlookup]; [reflexivity|].
  destruct (zs_eqb k' k1) eqn:E1.
  - apply zs_eqb_spec in E1; subst k1. cbn [tlookup]. destruct (zs_eqb k k'); reflexivity.
  - destruct (blt k' k1); cbn [tlookup]; [reflexivity|].
    rewrite IH. destruct (zs_eqb k k1) eqn:E2, (zs_eqb k k') eqn:E3; try reflexivity.
    apply zs_eqb_spec in E2, E3. subst. rewrite (proj2 (zs_eqb_spec k1 k1) eq_refl) in E1. discriminate.
Qed.

Lemma tlookup_app k a b :
  tlookup k (a ++ b) = match tlookup k a with Some v => Some v | None => tlookup k b end.
Proof. induction a as [|[k1 v1] a IH]; cbn; [reflexivity|]. destruct (zs_eqb k k1); auto. Qed.

(* Tagged: the new tags override the scope's own (the last binding of a key wins) *)
Lemma tlookup_tmerge k p t :
  tlookup k (tmerge p t) = match tlookup k (List.rev t) with Some v => Some v | None => tlookup k p end.
Proof.
  unfold tmerge. revert p; induction t as [|[k1 v1] t IH]; intro p; cbn [fold_left List.rev]; [reflexivity|].
  rewrite IH, tlookup_app. cbn [fst snd tlookup]. rewrite tlookup_tinsert.
  destruct (tlookup k (List.rev t)); [reflexivity|]. destruct (zs_eqb k k1); reflexivity.
Qed.

(* the two counters of a call are distinct objects as soon as the value
   sanitizer keeps "error" and "success" apart *)
Lemma call_keys_differ cc :
  sv sz R_ERROR <> sv sz R_SUCCESS -> call_err_key cc <> call_ok_key cc.
Proof.
  intros Hv. destruct cc as [[[p tg] n] eps]. unfold call_err_key, call_ok_key, mkkey, call_err_scope, call_ok_scope; cbn [fst snd]. intros Hh.
  assert (tlookup (sk sz RESULT_TYPE) (tmerge tg (stags sz [(RESULT_TYPE, R_ERROR)])) =
          tlookup (sk sz RESULT_TYPE) (tmerge tg (stags sz [(RESULT_TYPE, R_SUCCESS)]))) as Hl by congruence.
  rewrite !tlookup_tmerge in Hl. cbn in Hl.
  rewrite (proj2 (zs_eqb_spec (sk sz RESULT_TYPE) (sk sz RESULT_TYPE)) eq_refl) in Hl. congruence.
Qed.

Lemma deliver_counters fl s oi d : counters (deliver fl s oi d) = counters s.
Proof. unfold deliver. destruct (nth_error (timers s) oi); [destruct fl|]; reflexivity. Qed.

Lemma exec_spec fl clk root pre c b ce cs ti :
  let s := run sz fl clk root pre in
  nth_error (calls s) c = Some (ce, cs, ti) ->
  let s' := step sz fl clk s (OExec c b) in
  exists cc, nth_error (e_calls (senv_of fl clk root pre)) c = Some cc /\
    fruns s' = fruns s ++ [(c, b)] /\
    rets s' = rets s ++ [b] /\
    nclk s' = S (S (nclk s)) /\
    delivered fl s' (records fl clk root pre ++
                     [(call_lat_key cc, sat64 (clk (S (nclk s)) - clk (nclk s)))]) /\
    let kx := if b then call_err_key cc else call_ok_key cc in
    pend_of s' kx = wrap64 (pend_of s kx + 1) /\
    (forall k, k <> kx -> pend_of s' k = pend_of s k) /\
    (sv sz R_ERROR <> sv sz R_SUCCESS -> call_err_key cc <> call_ok_key cc).
Proof.
  intros s Hc s'. destruct (run_sim fl clk root pre) as [HS HD]. fold s in HS, HD.
  pose proof (Forall2_nth _ _ _ c (sim_calls _ _ HS)) as Hn. rewrite Hc in Hn.
  destruct (nth_error (e_calls (senv_of fl clk root pre)) c) as [cc|] eqn:Ecc; [|contradiction].
  destruct Hn as (Herr & Hok & Hlat). cbn [fst snd] in Herr, Hok, Hlat.
  exists cc. split; [reflexivity|].
  (* the delivery: from the simulation of one more step *)
  destruct (step_sim fl clk s _ _ (OExec c b) HS HD) as [_ [Hd' _]]. fold s' in Hd'.
  cbn [sstep] in Hd'. rewrite Ecc in Hd'. cbn [snd] in Hd'. rewrite <- (sim_clk _ _ HS) in Hd'.
  (* the rest: by computation of the step *)
  subst s'. cbn [step]. rewrite Hc.
  set (s1 := set_fruns (set_nclk s (S (nclk s))) (fruns s ++ [(c, b)])).
  set (d := sat64 (clk (nclk s1) - clk (nclk s))).
  set (s2 := deliver fl (set_nclk s1 (S (nclk s1))) ti d).
  assert (Ext (set_nclk s1 (S (nclk s1))) s2) as HE2.
  { assert (DelI fl (set_nclk s1 (S (nclk s1))) (records fl clk root pre)) as HD1 by (apply (DelI_same _ s); auto).
    exact (proj1 (deliver_spec fl _ ti (call_lat_key cc) d _ HD1 Hlat)). }
  assert (counters s2 = counters s) as Hcs by (unfold s2; now rewrite deliver_counters).
  set (idx := if b then ce else cs).
  set (kx := if b then call_err_key cc else call_ok_key cc).
  assert (kfind kx (ckeys s) = Some idx) as Hkx by (unfold kx, idx; destruct b; assumption).
  split; [|split; [|split; [|split; [|split; [|split]]]]].
  - cbn. now rewrite (x_fruns _ _ HE2).
  - cbn. now rewrite (x_rets _ _ HE2).
  - cbn. now rewrite (x_nclk _ _ HE2).
  - cbn [step] in Hd'. rewrite Hc in Hd'. exact Hd'.
  - unfold pend_of, ckeys. cbn [counters set_rets inc_counter set_counters]. rewrite Hcs.
    rewrite map_upd_inv by reflexivity. fold (ckeys s). rewrite Hkx.
    pose proof (kfind_some _ _ _ Hkx) as Hnth. unfold ckeys in Hnth. rewrite nth_error_map in Hnth.
    destruct (nth_error (counters s) idx) as [co|] eqn:Eco; [|discriminate].
    rewrite (nth_error_upd_same _ _ _ _ Eco). reflexivity.
  - intros k Hk. unfold pend_of, ckeys. cbn [counters set_rets inc_counter set_counters]. rewrite Hcs.
    rewrite map_upd_inv by reflexivity. fold (ckeys s).
    destruct (kfind k (ckeys s)) as [j|] eqn:Ej; [|reflexivity].
    assert (idx <> j) as Hne.
    { intros ->. apply kfind_some in Ej. apply kfind_some in Hkx. congruence. }
    now rewrite nth_error_upd_other.
  - apply call_keys_differ.
Qed.

(* an execution that began (OBegin) is still on record, with the clock reading
   taken at its own start, whatever happened since *)
Lemma begin_persists fl clk root pre c h mid :
  let s0 := run sz fl clk root pre in
  nth_error (calls s0) c = Some h ->
  nth_error (execs (run sz fl clk root (pre ++ OBegin c :: mid))) (length (execs s0)) =
  Some (c, h, clk (nclk s0)).
Proof.
  intros s0 Hc. rewrite run_app. cbn [fold_left]. fold s0.
  destruct (fold_execs fl clk mid (step sz fl clk s0 (OBegin c))) as [z Hz]. rewrite Hz.
  cbn [step]. rewrite Hc. cbn [execs set_nclk set_execs].
  rewrite <- app_assoc, nth_error_app2, Nat.sub_diag by lia. reflexivity.
Qed.

(* the end of an execution, in any state *)
Lemma end_spec fl clk root pre x b c ce cs ti st :
  let s := run sz fl clk root pre in
  nth_error (execs s) x = Some (c, (ce, cs, ti), st) ->
  let s' := step sz fl clk s (OEnd x b) in
  exists cc, nth_error (e_execs (senv_of fl clk root pre)) x = Some (cc, st) /\
    fruns s' = fruns s ++ [(c, b)] /\
    rets s' = rets s ++ [b] /\
    nclk s' = S (nclk s) /\
    delivered fl s' (records fl clk root pre ++ [(call_lat_key cc, sat64 (clk (nclk s) - st))]) /\
    let kx := if b then call_err_key cc else call_ok_key cc in
    pend_of s' kx = wrap64 (pend_of s kx + 1) /\
    (forall k, k <> kx -> pend_of s' k = pend_of s k).
Proof.
  intros s Hx s'. destruct (run_sim fl clk root pre) as [HS HD]. fold s in HS, HD.
  pose proof (Forall2_nth _ _ _ x (sim_execs _ _ HS)) as Hn. rewrite Hx in Hn.
  destruct (nth_error (e_execs (senv_of fl clk root pre)) x) as [[cc st']|] eqn:Ecc; [|contradiction].
  destruct Hn as [Hst (Herr & Hok & Hlat)]. cbn [fst snd] in Hst, Herr, Hok, Hlat. subst st'.
  exists cc. split; [reflexivity|].
  destruct (step_sim fl clk s _ _ (OEnd x b) HS HD) as [_ [Hd' _]]. fold s' in Hd'.
  cbn [sstep] in Hd'. rewrite Ecc in Hd'. cbn [snd] in Hd'. rewrite <- (sim_clk _ _ HS) in Hd'.
  subst s'. cbn [step]. rewrite Hx.
  set (s1 := set_fruns (set_nclk s (S (nclk s))) (fruns s ++ [(c, b)])).
  set (d := sat64 (clk (nclk s) - st)).
  set (s2 := deliver fl s1 ti d).
  assert (Ext s1 s2) as HE2.
  { assert (DelI fl s1 (records fl clk root pre)) as HD1 by (apply (DelI_same _ s); auto).
    exact (proj1 (deliver_spec fl _ ti (call_lat_key cc) d _ HD1 Hlat)). }
  assert (counters s2 = counters s) as Hcs by (unfold s2; now rewrite deliver_counters).
  set (idx := if b then ce else cs).
  set (kx := if b then call_err_key cc else call_ok_key cc).
  assert (kfind kx (ckeys s) = Some idx) as Hkx by (unfold kx, idx; destruct b; assumption).
  split; [|split; [|split; [|split; [|split]]]].
  - cbn. now rewrite (x_fruns _ _ HE2).
  - cbn. now rewrite (x_rets _ _ HE2).
  - cbn. now rewrite (x_nclk _ _ HE2).
  - cbn [step] in Hd'. rewrite Hx in Hd'. exact Hd'.
  - unfold pend_of, ckeys. cbn [counters set_rets inc_counter set_counters]. rewrite Hcs.
    rewrite map_upd_inv by reflexivity. fold (ckeys s). rewrite Hkx.
    pose proof (kfind_some _ _ _ Hkx) as Hnth. unfold ckeys in Hnth. rewrite nth_error_map in Hnth.
    destruct (nth_error (counters s) idx) as [co|] eqn:Eco; [|discriminate].
    rewrite (nth_error_upd_same _ _ _ _ Eco). reflexivity.
  - intros k Hk. unfold pend_of, ckeys. cbn [counters set_rets inc_counter set_counters]. rewrite Hcs.
    rewrite map_upd_inv by reflexivity. fold (ckeys s).
    destruct (kfind k (ckeys s)) as [j|] eqn:Ej; [|reflexivity].
    assert (idx <> j) as Hne.
    { intros ->. apply kfind_some in Ej. apply kfind_some in Hkx. congruence. }
    now rewrite nth_error_upd_other.
Qed.

Lemma sstep_execs fl clk e o : exists z, e_execs (fst (sstep fl clk e o)) = e_execs e ++ z.
Proof.
  destruct o; cbn [sstep];
    repeat match goal with
           | |- context [match ?x with _ => _ end] => destruct x
           end; cbn [fst e_execs e_with_reg]; try (exists []; now rewrite app_nil_r); eexists; reflexivity.
Qed.
Lemma sfold_execs fl clk ops e : exists z, e_execs (fst (sfold fl clk e ops)) = e_execs e ++ z.
Proof.
  revert e; induction ops as [|o r IH]; intro e; cbn [sfold fst].
  - exists []; now rewrite app_nil_r.
  - destruct (sstep_execs fl clk e o) as [x Hx]. destruct (IH (fst (sstep fl clk e o))) as [y Hy].
    exists (x ++ y). now rewrite Hy, Hx, app_assoc.
Qed.

(* overlapping executions: whatever happens between the beginning and the end
   of an execution - other executions on the same Call included - its end
   records the time since ITS OWN beginning, runs / returns / counts once *)
Lemma exec_overlap fl clk root pre c h mid b cc :
  let s0 := run sz fl clk root pre in
  nth_error (calls s0) c = Some h ->
  nth_error (e_calls (senv_of fl clk root pre)) c = Some cc ->
  let s1 := run sz fl clk root (pre ++ OBegin c :: mid) in
  let s' := step sz fl clk s1 (OEnd (length (execs s0)) b) in
  fruns s' = fruns s1 ++ [(c, b)] /\
  rets s' = rets s1 ++ [b] /\
  nclk s' = S (nclk s1) /\
  delivered fl s' (records fl clk root (pre ++ OBegin c :: mid) ++
                   [(call_lat_key cc, sat64 (clk (nclk s1) - clk (nclk s0)))]) /\
  let kx := if b then call_err_key cc else call_ok_key cc in
  pend_of s' kx = wrap64 (pend_of s1 kx + 1) /\
  (forall k, k <> kx -> pend_of s' k = pend_of s1 k).
Proof.
  intros s0 Hc Hcc s1 s'. destruct h as [[ce cs] ti].
  pose proof (begin_persists fl clk root pre c (ce, cs, ti) mid Hc) as Hx. fold s0 s1 in Hx.
  destruct (end_spec fl clk root (pre ++ OBegin c :: mid) (length (execs s0)) b c ce cs ti (clk (nclk s0)) Hx)
    as (cc' & Hcc' & H1 & H2 & H3 & H4 & H5).
  assert (cc' = cc) as ->.
  { destruct (run_sim fl clk root pre) as [HS0 _]. fold s0 in HS0.
    unfold senv_of in Hcc'. rewrite sfold_app in Hcc'. cbn [fst sfold] in Hcc'. fold (senv_of fl clk root pre) in Hcc'.
    destruct (sfold_execs fl clk mid (fst (sstep fl clk (senv_of fl clk root pre) (OBegin c)))) as [z Hz].
    rewrite Hz in Hcc'. cbn [sstep] in Hcc'. rewrite Hcc in Hcc'. cbn [fst e_execs] in Hcc'.
    rewrite (Forall2_len _ _ _ (sim_execs _ _ HS0)) in Hcc'.
    rewrite <- app_assoc, nth_error_app2, Nat.sub_diag in Hcc' by lia. cbn in Hcc'. congruence. }
  fold s1 s' in H1, H2, H3, H4, H5. repeat split; try assumption; apply H5.
Qed.

(* a report pass hands every non-zero counter to the reporter and resets it *)
Lemma pass_counter_plain s c :
  In c (counters s) -> cpend c <> 0 -> In (Ev 1 [cpend c] (kstrs (ckey c))) (pass_events FPlain s) /\
  In (Ev 1 [cpend c] (kstrs (ckey c))) (pass_events FBoth s).
Proof.
  intros Hc Hp. split; cbn [pass_events]; apply in_or_app; left; apply in_flat_map; exists c; (split; [exact Hc|]);
    (destruct (Z.eqb_spec (cpend c) 0); [contradiction | now left]).
Qed.
Lemma pass_counter_cached s c :
  In c (counters s) -> cpend c <> 0 -> In (Ev 21 [ccid c; cpend c] []) (pass_events FCached s).
Proof.
  intros Hc Hp. cbn [pass_events]. apply in_or_app. left. apply in_flat_map. exists c. split; [exact Hc|].
  destruct (Z.eqb_spec (cpend c) 0); [contradiction | now left].
Qed.
Lemma pass_resets fl s k : fl <> FTest -> pend_of (pass fl s) k = 0.
Proof.
  intros Hf. unfold pend_of, ckeys, pass. destruct fl; [| |contradiction|]; cbn [counters set_hists set_counters];
    (destruct (kfind k _) as [i|]; [|reflexivity]; rewrite nth_error_map;
     destruct (nth_error (counters s) i); reflexivity).
Qed.
Lemma pass_log fl s : fl <> FTest -> log (pass fl s) = log s ++ pass_events fl s.
Proof. intros Hf. destruct fl; [reflexivity | reflexivity | contradiction | reflexivity]. Qed.

(* ---- the cached reporter: one AllocateTimer per timer object ---- *)
Lemma alloc_once fl clk root ops :
  has_cached fl = true ->
  let s := run sz fl clk root ops in
  allocs (log s) = map (fun o => (tcid o, kstrs (tkey o))) (timers s) /\ NoDup (tkeys s).
Proof.
  intros Hf s. destruct (run_sim fl clk root ops) as [_ [_ Hc]].
  destruct (Hc Hf) as (_ & _ & C3 & C4). split; assumption.
Qed.

End WithSanitizer.
